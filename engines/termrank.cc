// termrank — property C18: termination analysis returns only genuine ranking
// functions; the Mesnard-Serebrenik and Podelski-Rybalchenko methods agree.
//
// One case = one loop relation over n <= 3 program variables, given to PPL as
// one 2n-dimensional pointset or as a (before, after) pair, in one of five
// pointset classes.  All fourteen entry points of termination_defs.hh are
// called (termrank.hh) and every answer is decided by the exact-LP reference
// model only:
//   * soundness   — every returned mu, every generator of every returned
//                   mu_space (points, point + ray, point +- line, 20 random
//                   members): f(x) = mu0 + sum mu_i x_i has a finite infimum
//                   on cl(R) and  inf_{cl(R)} f(x) - f(x') > 0;
//   * existence   — the affine Farkas system written from scratch here,
//                   solved with RefLP; verdict true  <=>  it is feasible, for
//                   relations that are closed polyhedra; MS verdict == PR
//                   verdict on those.
// Index layouts used (termination_defs.hh): relation dims 0..n-1 = x' (after),
// n..2n-1 = x (before); mu dims 0..n-1 = mu_1..mu_n, dim n = mu_0.  The
// layout is self-checked on hand-made loops (selftest()) without PPL.
#include "termrank.hh"

using namespace termrank;
using hx::violation; using hx::tr; using hx::checked;

static unsigned long long g_budget = 200000000ULL;

// ---------------------------------------------------------------- step wrappers
bool termrank::step(const std::string& name, const std::function<void()>& f) {
  tr(" ; " + name); hx::count("op." + name);
  const bool infra = (name == "build" || name == "observe");
  try {
    Weight_Guard wg(g_budget);
    struct Note { Weight_Guard& g; const std::string& n; ~Note() { note_weight(n.c_str(), g.used()); } } note = { wg, name };
    f();
    return true;
  } catch (const Logical_Timeout&) {
    violation((infra ? "harness.bug.hang." : "C18.hang.") + name, "logical-time budget exceeded (weight " + std::to_string(g_budget) + ")");
  } catch (const std::exception& e) {
    violation((infra ? "harness.bug." + name : "C18.unexpected_exception." + name) + ":" + typeid(e).name(), e.what());
  }
  return false;
}
void termrank::step_expect_invalid(const std::string& name, const std::function<void()>& f) {
  if (hx::st().case_tainted) return;
  tr(" ; " + name); hx::count("op.bad_dims"); checked();
  try { Weight_Guard wg(g_budget); f(); violation("C18.no_exception." + name, "ill-dimensioned call returned normally (std::invalid_argument documented)"); }
  catch (const std::invalid_argument&) { hx::count("bad_dims.rejected"); }
  catch (const Logical_Timeout&) { violation("C18.hang." + name, "logical-time budget exceeded"); }
  catch (const std::exception& e) { violation("C18.unexpected_exception." + name + ":" + typeid(e).name(), e.what()); }
}

// ---------------------------------------------------------------- workload
static mpz_class rconst(int lo, int hi) {
  int k = rnd(0, 99);
  if (k < 90) return rnd(lo, hi);
  if (k < 96) return rnd(-40, 40);
  return mpz_class(coin() ? 1000003 : -1000003) * rnd(1, 3);
}
static bool strict_ok(int kind) { return kind == K_NNC || kind == K_BOX; }
static int pick_rel(int kind, int eq_pct, int strict_pct) {
  int k = rnd(0, 99);
  if (k < eq_pct) return 2;
  if (strict_ok(kind) && k < eq_pct + strict_pct) return 1;
  return 0;
}
static int scale() { return coin(88) ? 1 : rnd(2, 3); }

// random constraint over the coordinates [lo, hi) of a D-dimensional space, representable in `kind`
static LC rand_atom(int D, int lo, int hi, int kind, int eq_pct = 12, int strict_pct = 20) {
  LC c(D, pick_rel(kind, eq_pct, strict_pct));
  const int w = hi - lo; const int g = scale();
  int shape = rnd(0, 99);
  bool single = (w < 2) || kind == K_BOX || (kind == K_BD && shape < 40) || (kind == K_OCT && shape < 30) || (kind <= K_NNC && shape < 25);
  if (single) { c.a[lo + rnd(0, w - 1)] = (coin() ? g : -g); }
  else {
    int i = lo + rnd(0, w - 1), j = lo + rnd(0, w - 2); if (j >= i) ++j;
    if (kind == K_BD) { c.a[i] = g; c.a[j] = -g; }
    else if (kind == K_OCT || shape < 50) { c.a[i] = coin() ? g : -g; c.a[j] = coin() ? g : -g; }
    else { bool any = false; for (int v = lo; v < hi; ++v) if (!coin(35)) { c.a[v] = rnd(-3, 3); any = any || c.a[v] != 0; } if (!any) c.a[i] = coin() ? 1 : -1; }
  }
  c.b = rconst(-9, 9);
  return c;
}
// update atom for x'_i (index i) against the unprimed variables (indices n..2n-1)
static LC upd_atom(int n, int i, int kind) {
  const int D = 2 * n;
  LC c(D, pick_rel(kind, 55, 10));
  const int g = scale(); const int s = coin() ? 1 : -1;
  int shape = rnd(0, 99);
  if (kind == K_BOX || (kind != K_BOX && shape < 12)) { c.a[i] = s * g; c.b = rconst(-9, 9); return c; }           // x'_i ~ const
  int j = coin(60) ? i : rnd(0, n - 1);
  if (kind == K_BD || (kind == K_OCT && shape < 75) || (kind <= K_NNC && shape < 50)) { c.a[i] = s * g; c.a[n + j] = -s * g; c.b = rconst(-4, 4); return c; }  // x'_i - x_j ~ c
  if (kind == K_OCT) { c.a[i] = s * g; c.a[n + j] = s * g; c.b = rconst(-6, 6); return c; }                            // x'_i + x_j ~ c
  // general: d*x'_i - sum a_j x_j - c
  c.a[i] = s * (coin(88) ? 1 : 2);
  for (int v = 0; v < n; ++v) if (!coin(40)) c.a[n + v] = rnd(-2, 2);
  c.b = rconst(-4, 4);
  return c;
}
static int rows_of(const std::vector<LC>& v) { int r = 0; for (size_t i = 0; i < v.size(); ++i) r += (v[i].rel == 2 ? 2 : 1); return r; }

static LC mk1(int D, int i, int ci, const mpz_class& b, int rel) { LC c(D, rel); c.a[i] = ci; c.b = b; return c; }
static LC mk2(int D, int i, int ci, int j, int cj, const mpz_class& b, int rel) { LC c(D, rel); c.a[i] += ci; c.a[j] += cj; c.b = b; return c; }

static bool fixed_template(Loop& L) {
  const int n = L.n, k = L.kind; const bool gen = (k <= K_NNC);
  int t = rnd(0, 9);
  switch (t) {
  case 0: if (k == K_BOX) return false;                       // x >= 0, x' = x - 1
    L.tmpl = "countdown"; L.guard.push_back(mk1(n, 0, 1, 0, 0)); L.upd.push_back(mk2(2 * n, 0, 1, n, -1, 1, 2)); return true;
  case 1: if (k == K_BOX || n < 2) return false;              // x0 >= 0, x0' = x0 - 1, x1' = x1 + 1
    L.tmpl = "countdown+up"; L.guard.push_back(mk1(n, 0, 1, 0, 0)); L.upd.push_back(mk2(2 * n, 0, 1, n, -1, 1, 2)); L.upd.push_back(mk2(2 * n, 1, 1, n + 1, -1, -1, 2)); return true;
  case 2: if (k == K_BOX) return false;                       // x >= 0, x' = x   (no ranking function)
    L.tmpl = "stutter"; L.guard.push_back(mk1(n, 0, 1, 0, 0)); L.upd.push_back(mk2(2 * n, 0, 1, n, -1, 0, 2)); return true;
  case 3: if (k != K_OCT && !gen) return false;               // x >= 1, x' = -x
    L.tmpl = "negate"; L.guard.push_back(mk1(n, 0, 1, -1, 0)); L.upd.push_back(mk2(2 * n, 0, 1, n, 1, 0, 2)); return true;
  case 4: if (!gen || n < 2) return false;                    // x0 >= 0, x1 >= 1, x0' = x0 - x1, x1' = x1
    L.tmpl = "sub-var"; L.guard.push_back(mk1(n, 0, 1, 0, 0)); L.guard.push_back(mk1(n, 1, 1, -1, 0));
    { LC c(2 * n, 2); c.a[0] = 1; c.a[n] = -1; c.a[n + 1] = 1; L.upd.push_back(c); } L.upd.push_back(mk2(2 * n, 1, 1, n + 1, -1, 0, 2)); return true;
  case 5: if (!gen) return false;                             // x >= 1, 2x' = x   (delta 1/2)
    L.tmpl = "halve"; L.guard.push_back(mk1(n, 0, 1, -1, 0)); L.upd.push_back(mk2(2 * n, 0, 2, n, -1, 0, 2)); return true;
  case 6: if (!gen) return false;                             // x > 0, 2x' = x   (decrease has infimum 0: no ranking function for the closure)
    if (k != K_NNC) return false;
    L.tmpl = "halve-open"; L.guard.push_back(mk1(n, 0, 1, 0, 1)); L.upd.push_back(mk2(2 * n, 0, 2, n, -1, 0, 2)); return true;
  case 7: if (k == K_BOX || n < 2) return false;              // x0 - x1 >= 0, x0' = x0 - 1, x1' = x1 + 1
    L.tmpl = "gap"; L.guard.push_back(mk2(n, 0, 1, 1, -1, 0, 0)); L.upd.push_back(mk2(2 * n, 0, 1, n, -1, 1, 2)); L.upd.push_back(mk2(2 * n, 1, 1, n + 1, -1, -1, 2)); return true;
  case 8:                                                     // x >= -7 (non-trivial mu0), x' <= -8  (box-representable, terminates in one step)
    L.tmpl = "one-shot"; L.guard.push_back(mk1(n, 0, 1, 7, 0)); L.upd.push_back(mk1(2 * n, 0, -1, -8, 0)); return true;
  default: if (k == K_BOX || n < 3) return false;             // x0 >= x2 - ..., rotation x0' = x1, x1' = x2, x2' = x0 - 1 (no affine ranking function in general)
    L.tmpl = "rotate"; L.guard.push_back(mk1(n, 0, 1, 0, 0)); L.upd.push_back(mk2(2 * n, 0, 1, n + 1, -1, 0, 2)); L.upd.push_back(mk2(2 * n, 1, 1, n + 2, -1, 0, 2)); L.upd.push_back(mk2(2 * n, 2, 1, n, -1, 1, 2)); return true;
  }
}

static void gen_loop(Loop& L, int maxn, int maxrows) {
  const std::string& prof = hx::opt().profile;
  if (prof == "poly") L.kind = rnd(K_C, K_NNC);
  else if (prof == "shapes") L.kind = rnd(K_BD, K_BOX);
  else { int r = rnd(0, 99); L.kind = r < 30 ? K_C : r < 52 ? K_NNC : r < 68 ? K_BD : r < 84 ? K_OCT : K_BOX; }
  L.two = coin(45);
  { int r = rnd(0, 99); L.n = r < 3 ? 0 : r < 36 ? 1 : r < 76 ? 2 : 3; if (L.n > maxn) L.n = maxn; if (maxn > 3 && coin(12)) L.n = rnd(4, maxn); }
  const int n = L.n, k = L.kind;
  L.build_mode_a = rnd(0, 9); L.build_mode_b = rnd(0, 9);
  L.call_mask = 0; for (int c = 0; c < CALL_COUNT; ++c) if (!coin(12)) L.call_mask |= 1 << c;
  L.fresh_mask = 0; for (int c = 0; c < CALL_COUNT; ++c) if (coin(20)) L.fresh_mask |= 1 << c;
  L.order_seed = (unsigned) hx::rng()();
  if (n == 0) {
    L.tmpl = "zero-dim";
    int t = rnd(0, 3);      // universe / trivially true / false guard / false update
    if (t == 1) { LC c(0, 0); c.b = 1; L.guard.push_back(c); }
    else if (t == 2) { LC c(0, 0); c.b = -1; L.guard.push_back(c); }
    else if (t == 3) { LC c(0, coin() ? 0 : 2); c.b = -2; L.upd.push_back(c); }
    if (coin(15)) L.empty_ctor_after = true;
    if (coin(10)) L.empty_ctor_before = true;
    return;
  }
  if (coin(12) && fixed_template(L)) { /* hand-made classic */ }
  else {
    L.guard.clear(); L.upd.clear();
    L.tmpl = "random";
    std::vector<bool> has_upd(n, false);
    if (coin(58)) {
      // a ranked variable: guard bounds it on one side, the update moves it towards that side
      L.tmpl = "ranked";
      int v = rnd(0, n - 1); int dir = coin(75) ? 1 : -1;          // dir=1: counting down
      mpz_class c = rconst(-9, 9); int d = coin(75) ? rnd(1, 3) : rnd(-1, 0);
      int grel = (strict_ok(k) && coin(15)) ? 1 : 0;
      if (k <= K_NNC && n >= 2 && coin(25)) {                         // ranked difference  x_v - x_w
        int w = (v + 1 + rnd(0, n - 2)) % n; L.tmpl = "ranked-diff";
        L.guard.push_back(mk2(n, v, dir, w, -dir, c, grel));
        L.upd.push_back(mk2(2 * n, v, -dir, n + v, dir, -d, coin(70) ? 2 : 0));   // x_v' = x_v - dir*d  (or <=)
        { int e = dir * rnd(0, 1); L.upd.push_back(mk2(2 * n, w, 1, n + w, -1, -e, 2)); } has_upd[w] = true;   // x_w' = x_w + e: the gap keeps shrinking
      } else if (k == K_BOX) {
        L.guard.push_back(mk1(n, v, dir, c, grel));                   // dir*x_v + c >= 0
        L.upd.push_back(mk1(2 * n, v, -dir, -c - d, coin(20) ? 1 : 0));   // dir*x_v' <= -c - d
      } else {
        L.guard.push_back(mk1(n, v, dir, c, grel));
        int urel = coin(60) ? 2 : ((strict_ok(k) && coin(20)) ? 1 : 0);
        L.upd.push_back(mk2(2 * n, v, -dir, n + v, dir, -d, urel));   // dir*(x_v - x_v') - d >= 0
      }
      has_upd[v] = true;
    }
    int ng = rnd(0, 2); if (L.guard.empty() && coin(80)) ng = rnd(1, 3);
    for (int i = 0; i < ng; ++i) L.guard.push_back(rand_atom(n, 0, n, k));
    for (int i = 0; i < n; ++i) if (!has_upd[i] && coin(68)) L.upd.push_back(upd_atom(n, i, k));
    if (coin(12)) L.upd.push_back(rand_atom(2 * n, 0, 2 * n, k));     // a constraint mixing anything
    if (coin(8)) L.upd.push_back(rand_atom(2 * n, 0, n, k));          // a constraint on x' alone
  }
  if (coin(5)) {    // contradictory guard pair
    int v = rnd(0, n - 1); mpz_class c = rconst(-5, 5); L.tmpl += "+contradiction";
    if (strict_ok(k) && coin()) { L.guard.push_back(mk1(n, v, 1, -c, 1)); L.guard.push_back(mk1(n, v, -1, c, 0)); }   // x > c, x <= c
    else { L.guard.push_back(mk1(n, v, 1, -c, 0)); L.guard.push_back(mk1(n, v, -1, c - 1, 0)); }                       // x >= c, x <= c - 1
  }
  if (coin(2)) { L.guard.clear(); L.upd.clear(); L.tmpl = "universe"; }
  while (rows_of(L.guard) + rows_of(L.upd) > maxrows) { if (L.upd.size() > L.guard.size()) L.upd.pop_back(); else L.guard.pop_back(); }
  if (coin(2)) { if (coin()) L.empty_ctor_after = true; else L.empty_ctor_before = true; L.tmpl += "+empty-ctor"; }
  if (L.two && coin(12)) {   // part of the guard is stated in pset_after (on its unprimed half) instead of pset_before
    std::vector<LC> keep;
    for (size_t i = 0; i < L.guard.size(); ++i) {
      if (coin()) { LC c(2 * n, L.guard[i].rel); c.b = L.guard[i].b; for (int j = 0; j < n; ++j) c.a[n + j] = L.guard[i].a[j]; L.upd.push_back(c); }
      else keep.push_back(L.guard[i]);
    }
    L.guard.swap(keep);
  }
}

static std::string show_loop(const Loop& L) {
  std::ostringstream o;
  o << kind_name(L.kind) << (L.two ? " two-pointset" : " one-pointset") << " n=" << L.n << " tmpl=" << L.tmpl << " guard{";
  for (size_t i = 0; i < L.guard.size(); ++i) o << (i ? ", " : "") << show_lc(L.guard[i], L.n, true);
  o << "}" << (L.empty_ctor_before ? "[EMPTY-ctor]" : "") << " update{";
  for (size_t i = 0; i < L.upd.size(); ++i) o << (i ? ", " : "") << show_lc(L.upd[i], L.n, false);
  o << "}" << (L.empty_ctor_after ? "[EMPTY-ctor]" : "") << " build=" << L.build_mode_a << "/" << L.build_mode_b;
  return o.str();
}

// ---------------------------------------------------------------- oracle (RefLP only)
// a.z + b REL 0   ->   (-a).z (<=|<|==) b
static Con con_of(const LC& c, int D, int off) {
  Con r; r.a.assign(D, Q(0));
  for (size_t i = 0; i < c.a.size(); ++i) r.a[off + i] = Q(-c.a[i]);
  r.b = Q(c.b); r.rel = c.rel == 2 ? ref::EQ : c.rel == 1 ? ref::LT : ref::LE; return r;
}
static Sys own_relation(const Loop& L) {
  Sys S; const int D = 2 * L.n;
  for (size_t i = 0; i < L.guard.size(); ++i) S.push_back(con_of(L.guard[i], D, L.n));
  for (size_t i = 0; i < L.upd.size(); ++i) S.push_back(con_of(L.upd[i], D, 0));
  if (L.empty_ctor_after || L.empty_ctor_before) S.push_back(Con(Vec(D), Q(-1), ref::LE));   // 0 <= -1
  return S;
}

// Does an affine ranking function exist for the non-empty closed relation Rcl = { z=(x',x) | A z <= b }?
// Affine Farkas lemma, both conditions:   exists mu, y1, y2 >= 0 (free on equality rows) with
//   y1^T A = (0, -mu)                      (then mu.x + mu0 >= 0 on Rcl for mu0 = y1^T b)
//   y2^T A = (mu, -mu),  y2^T b <= -1      (then mu.x - mu.x' >= 1 on Rcl; delta normalised to 1)
static bool farkas_exists(int n, const Sys& Rcl, Vec* mu_out) {
  const int m = Rcl.size(), nv = n + 2 * m;
  Sys S;
  for (int j = 0; j < 2 * n; ++j) {
    Vec a(nv), b(nv);
    for (int i = 0; i < m; ++i) { a[n + i] = Rcl[i].a[j]; b[n + m + i] = Rcl[i].a[j]; }
    if (j >= n) { a[j - n] += 1; b[j - n] += 1; } else b[j] -= 1;
    S.push_back(Con(a, Q(0), ref::EQ)); S.push_back(Con(b, Q(0), ref::EQ));
  }
  { Vec c(nv); for (int i = 0; i < m; ++i) c[n + m + i] = Rcl[i].b; S.push_back(Con(c, Q(-1), ref::LE)); }
  for (int i = 0; i < m; ++i) if (Rcl[i].rel != ref::EQ) {
    Vec a(nv), b(nv); a[n + i] = -1; b[n + m + i] = -1; S.push_back(Con(a, Q(0), ref::LE)); S.push_back(Con(b, Q(0), ref::LE));
  }
  Vec w; bool ok = ref::feasible(nv, S, &w);
  if (ok && mu_out) mu_out->assign(w.begin(), w.begin() + n);
  return ok;
}

struct RF { bool bounded, decreasing; bool dec_finite; Q inf_f, inf_dec; Vec wit_b, wit_d; RF() : bounded(false), decreasing(false), dec_finite(false) {} };
// f(x) = mu0 + mu.x on the non-empty closed relation Rcl (2n variables, x' first).
static RF check_rf(int n, const Sys& Rcl, const Vec& mu, bool want_b, bool want_d) {
  RF r; const int D = 2 * n;
  if (want_b) {
    Vec nf(D); for (int i = 0; i < n; ++i) nf[n + i] = -mu[i];
    ref::LPResult a = ref::lp_max_closed(D, Rcl, nf);
    r.bounded = (a.status == ref::OPTIMAL);
    if (r.bounded) r.inf_f = -a.value;
    else { Sys s = Rcl; Vec f(D); for (int i = 0; i < n; ++i) f[n + i] = mu[i]; s.push_back(Con(f, Q(-1000000000), ref::LE)); ref::feasible(D, s, &r.wit_b); }
  } else r.bounded = true;
  if (want_d) {
    Vec nd(D); for (int i = 0; i < n; ++i) { nd[n + i] = -mu[i]; nd[i] = mu[i]; }
    ref::LPResult b = ref::lp_max_closed(D, Rcl, nd);
    r.dec_finite = (b.status == ref::OPTIMAL);
    if (r.dec_finite) { r.inf_dec = -b.value; r.decreasing = r.inf_dec > 0; if (!r.decreasing) r.wit_d = b.x; }
    else { Sys s = Rcl; Vec d(D); for (int i = 0; i < n; ++i) { d[n + i] = mu[i]; d[i] = -mu[i]; } s.push_back(Con(d, Q(0), ref::LE)); ref::feasible(D, s, &r.wit_d); }
  } else r.decreasing = true;
  return r;
}

static std::string qs(const Q& q) { return q.get_str(); }
static std::string show_f(int n, const Vec& mu, const Q& mu0) {
  std::ostringstream o; o << "f(x) = " << mu0; for (int i = 0; i < n; ++i) o << " + (" << mu[i] << ")*x" << i; return o.str();
}

// Fourier-Motzkin elimination of the primed coordinates 0..n-1 from a closed system over (x', x):
// the result describes { x | exists x'. (x', x) in S } (the states from which the body can execute).
static bool project_out_primed(int n, const Sys& S, Sys& out, size_t cap = 3000) {
  Sys cur;
  for (size_t i = 0; i < S.size(); ++i) {
    Con c = S[i]; c.a.resize(2 * n);
    if (c.rel == ref::EQ) { Con d = c; c.rel = ref::LE; cur.push_back(c); for (int j = 0; j < 2 * n; ++j) d.a[j] = -d.a[j]; d.b = -d.b; d.rel = ref::LE; cur.push_back(d); }
    else { c.rel = ref::LE; cur.push_back(c); }
  }
  for (int j = 0; j < n; ++j) {
    Sys pos, neg, nxt; std::set<std::string> seen;
    auto add = [&](Con c) {
      Q s = 0; for (int v = 0; v < 2 * n && s == 0; ++v) if (c.a[v] != 0) s = abs(c.a[v]);
      if (s == 0) { if (c.b >= 0) return; c.b = -1; }            // trivially true rows dropped, false rows kept as 0 <= -1
      else { for (int v = 0; v < 2 * n; ++v) c.a[v] /= s; c.b /= s; }
      std::string k = show(c); if (seen.insert(k).second) nxt.push_back(c);
    };
    for (size_t i = 0; i < cur.size(); ++i) { if (cur[i].a[j] > 0) pos.push_back(cur[i]); else if (cur[i].a[j] < 0) neg.push_back(cur[i]); else add(cur[i]); }
    if (pos.size() * neg.size() + nxt.size() > cap) return false;
    for (size_t p = 0; p < pos.size(); ++p) for (size_t q = 0; q < neg.size(); ++q) {
      Con c; c.a.assign(2 * n, Q(0)); c.rel = ref::LE;
      Q fp = 1 / pos[p].a[j], fq = 1 / (-neg[q].a[j]);
      for (int v = 0; v < 2 * n; ++v) c.a[v] = pos[p].a[v] * fp + neg[q].a[v] * fq;
      c.a[j] = 0; c.b = pos[p].b * fp + neg[q].b * fq; add(c);
    }
    cur.swap(nxt);
  }
  out.swap(cur); return true;
}
// Triage predicate for the two-pointset form: does pset_before contain a state from which pset_after allows no
// transition (i.e. pset_after carries guard information that pset_before lacks)?   "" = no, else the class name.
static std::string before_vs_domain_class(const Loop& L) {
  if (!L.two) return "";
  const int n = L.n, D = 2 * n;
  Sys before, after;
  for (size_t i = 0; i < L.guard.size(); ++i) before.push_back(con_of(L.guard[i], D, n));
  for (size_t i = 0; i < L.upd.size(); ++i) after.push_back(con_of(L.upd[i], D, 0));
  if (L.empty_ctor_before) before.push_back(Con(Vec(D), Q(-1), ref::LE));
  if (L.empty_ctor_after) after.push_back(Con(Vec(D), Q(-1), ref::LE));
  before = ref::closure_of(before); after = ref::closure_of(after);
  Sys dom; if (!project_out_primed(n, after, dom)) return "domain-of-after-unknown";
  for (size_t i = 0; i < dom.size(); ++i) {
    Sys s = before; Con c = dom[i]; for (int v = 0; v < D; ++v) c.a[v] = -c.a[v]; c.b = -c.b; c.rel = ref::LT; s.push_back(c);   // a.x > b
    if (ref::feasible(D, s)) return "guard-only-in-after";
  }
  return "";
}

struct Ctx {
  const Loop* L; const Out* O; int n; Sys Rs, Rcl; bool nonempty, closed, exists; Vec own_mu; std::string rclass;
};

// Reports a refuted ranking function after re-validating the witness by plain arithmetic against PPL-reported data.
// Returns false if a violation (or harness bug) was reported.
static bool judge_rf(const Ctx& C, const std::string& key_prefix, const std::string& triage, const Vec& mu, const Q& mu0, bool want_b, bool want_d, const std::string& origin) {
  const int n = C.n;
  RF r = check_rf(n, C.Rcl, mu, want_b, want_d); checked();
  if (r.bounded && r.decreasing) return true;
  const bool bad_b = !r.bounded;
  const Vec& w = bad_b ? r.wit_b : r.wit_d;
  Q fx = mu0, fxp = mu0; for (int i = 0; i < n && (int) w.size() == 2 * n; ++i) { fx += mu[i] * w[n + i]; fxp += mu[i] * w[i]; }
  std::ostringstream d;
  d << origin << ": " << show_f(n, mu, mu0) << "; ";
  if (bad_b) d << "f is unbounded from below on the guard: state x=" << (w.size() ? show(Vec(w.begin() + n, w.end())) : "?") << " has f(x)=" << fx;
  else d << "inf over the relation of f(x)-f(x') = " << (r.dec_finite ? qs(r.inf_dec) : std::string("-inf")) << "; transition x=" << (w.size() ? show(Vec(w.begin() + n, w.end())) : "?") << " -> x'=" << (w.size() ? show(Vec(w.begin(), w.begin() + n)) : "?") << " has f(x)-f(x')=" << Q(fx - fxp);
  d << "; relation " << show_loop(*C.L);
  // re-validation: the witness is a point of the closure of the relation PPL itself reports, and the value is what we say
  bool ok = ((int) w.size() == 2 * n) && ref::sat(C.Rcl, w) && (!C.O->reported_ok || ref::sat(C.O->reported, w)) && (bad_b ? fx - mu0 <= Q(-1000000000) : fx - fxp <= 0);
  if (!ok) { violation("harness.bug.rf_witness", d.str()); return false; }
  violation(key_prefix + (bad_b ? ".not_bounded_below" : ".not_decreasing") + (triage.empty() ? "" : ":" + triage), d.str());
  return false;
}

static bool read_mu(const Generator& g, int n, Vec& mu, Q& mu0) {
  if (!g.is_point() || (int) g.space_dimension() != n + 1) return false;
  Q d = ref::toQ(g.divisor()); mu.assign(n, Q(0));
  for (int i = 0; i < n; ++i) mu[i] = ref::toQ(g.coefficient(Variable(i))) / d;
  mu0 = ref::toQ(g.coefficient(Variable(n))) / d;
  return true;
}

// Checks every generator-derived member and 20 random members of a returned space of functions.
template <typename PH>
static bool judge_space(const Ctx& C, const std::string& method, const PH& space, bool want_b, bool want_d, bool& is_empty_out) {
  const int n = C.n;
  if ((int) space.space_dimension() != n + 1) { violation("C18.mu_space." + method + ".bad_dimension", "space dimension " + std::to_string(space.space_dimension()) + ", documented " + std::to_string(n + 1) + "; relation " + show_loop(*C.L)); return false; }
  PH c1(space);
  is_empty_out = c1.is_empty();
  if (is_empty_out) return true;
  if (!C.nonempty) { hx::count("vacuous.space"); return true; }     // empty relation: every function is a ranking function
  PH c2(space); PH c3(space);
  ref::Gens G = ref::conv(coin() ? c2.generators() : c2.minimized_generators(), n + 1);
  Sys SC = ref::conv(c3.constraints(), n + 1);
  std::vector<Vec> pts, cps, rays, lines;
  for (size_t i = 0; i < G.size(); ++i) (G[i].kind == ref::Gen::POINT ? pts : G[i].kind == ref::Gen::CLOSURE_POINT ? cps : G[i].kind == ref::Gen::RAY ? rays : lines).push_back(G[i].v);
  if (pts.empty()) { violation("C18.mu_space." + method + ".no_point", "non-empty space without point generator"); return false; }
  hx::count("space.points", pts.size()); hx::count("space.rays", rays.size()); hx::count("space.lines", lines.size()); hx::count("space.closure_points", cps.size());
  std::vector<std::pair<std::string, Vec> > mem;
  auto axpy = [&](const Vec& p, const Q& k, const Vec& d) { Vec r(p); for (int i = 0; i <= n; ++i) r[i] += k * d[i]; return r; };
  for (size_t i = 0; i < pts.size() && mem.size() < 24; ++i) mem.push_back(std::make_pair("point", pts[i]));
  for (size_t j = 0; j < rays.size() && mem.size() < 48; ++j) for (size_t i = 0; i < pts.size() && i < 2; ++i) { mem.push_back(std::make_pair("ray", axpy(pts[i], Q(1), rays[j]))); mem.push_back(std::make_pair("ray", axpy(pts[i], Q(1000), rays[j]))); }
  for (size_t j = 0; j < lines.size() && mem.size() < 64; ++j) { mem.push_back(std::make_pair("line", axpy(pts[0], Q(1), lines[j]))); mem.push_back(std::make_pair("line", axpy(pts[0], Q(-1), lines[j]))); mem.push_back(std::make_pair("line", axpy(pts[0], Q(-1000), lines[j]))); }
  for (size_t j = 0; j < cps.size() && mem.size() < 72; ++j) { Vec r(n + 1); for (int i = 0; i <= n; ++i) r[i] = (pts[0][i] + cps[j][i]) / 2; mem.push_back(std::make_pair("closure_point", r)); }
  for (int t = 0; t < 20; ++t) {
    // random member: convex combination of points / closure points (positive weight on a point) + rays + lines
    Vec r(n + 1); mpz_class tot = 0; std::vector<int> wp(pts.size()), wc(cps.size());
    for (size_t i = 0; i < pts.size(); ++i) { wp[i] = coin(60) ? rnd(0, 4) : 0; }
    wp[rnd(0, (int) pts.size() - 1)] += rnd(1, 3);
    for (size_t i = 0; i < cps.size(); ++i) wc[i] = coin(50) ? rnd(0, 4) : 0;
    for (size_t i = 0; i < pts.size(); ++i) tot += wp[i]; for (size_t i = 0; i < cps.size(); ++i) tot += wc[i];
    for (size_t i = 0; i < pts.size(); ++i) if (wp[i]) r = axpy(r, Q(mpz_class(wp[i]), tot), pts[i]);
    for (size_t i = 0; i < cps.size(); ++i) if (wc[i]) r = axpy(r, Q(mpz_class(wc[i]), tot), cps[i]);
    for (size_t i = 0; i < rays.size(); ++i) if (coin(50)) r = axpy(r, Q(mpz_class(rnd(0, 5)), mpz_class(rnd(1, 3))), rays[i]);
    for (size_t i = 0; i < lines.size(); ++i) if (coin(50)) r = axpy(r, Q(mpz_class(rnd(-5, 5)), mpz_class(rnd(1, 3))), lines[i]);
    for (int i = 0; i <= n; ++i) r[i].canonicalize();
    mem.push_back(std::make_pair("random", r));
  }
  for (size_t k = 0; k < mem.size(); ++k) {
    Vec& v = mem[k].second; for (int i = 0; i <= n; ++i) v[i].canonicalize();
    if (!ref::sat(SC, v)) { violation("harness.bug.sample_not_in_space", method + ": sampled " + mem[k].first + " member " + show(v) + " violates the space's own constraints " + show(SC)); return false; }
    Vec mu(v.begin(), v.begin() + n);
    hx::count("members." + mem[k].first);
    if (!judge_rf(C, "C18.mu_space." + method, mem[k].first, mu, v[n], want_b, want_d, method + " member (" + mem[k].first + ") " + show(v))) return false;
  }
  return true;
}

static void selftest() {
  std::string bad;
  // loop A: x >= 0, x' = x - 1   (dim 0 = x', dim 1 = x)
  Sys A; { Vec g(2); g[1] = -1; A.push_back(Con(g, Q(0), ref::LE)); Vec u(2); u[0] = 1; u[1] = -1; A.push_back(Con(u, Q(-1), ref::EQ)); }
  Vec mu;
  if (!farkas_exists(1, A, &mu)) bad += "farkas rejects countdown; ";
  else { RF r = check_rf(1, A, mu, true, true); if (!r.bounded || !r.decreasing) bad += "farkas mu fails LP check; "; }
  { Vec m1(1); m1[0] = 1; RF r = check_rf(1, A, m1, true, true); if (!r.bounded || !r.decreasing || r.inf_f != 0 || r.inf_dec != 1) bad += "f=x rejected on countdown; "; }
  { Vec m1(1); m1[0] = -1; RF r = check_rf(1, A, m1, true, true); if (r.bounded || r.decreasing) bad += "f=-x accepted on countdown; "; }
  { Vec m1(1); m1[0] = 0; RF r = check_rf(1, A, m1, true, true); if (!r.bounded || r.decreasing) bad += "f=0 misjudged; "; }
  // halves swapped: dim0 >= 0, dim1 = dim0 - 1  reads  x' >= 0, x = x' - 1  i.e. x' = x + 1: no ranking function
  Sys B; { Vec g(2); g[0] = -1; B.push_back(Con(g, Q(0), ref::LE)); Vec u(2); u[1] = 1; u[0] = -1; B.push_back(Con(u, Q(-1), ref::EQ)); }
  if (farkas_exists(1, B, 0)) bad += "farkas accepts count-up; ";
  // n=2: x0 >= 0, x0' = x0 - 1, x1' = x1 + 1: only mu = (c, 0), c > 0
  Sys C2; { Vec g(4); g[2] = -1; C2.push_back(Con(g, Q(0), ref::LE)); Vec u(4); u[0] = 1; u[2] = -1; C2.push_back(Con(u, Q(-1), ref::EQ)); Vec v(4); v[1] = 1; v[3] = -1; C2.push_back(Con(v, Q(1), ref::EQ)); }
  { Vec m(2); m[0] = 1; RF r = check_rf(2, C2, m, true, true); if (!r.bounded || !r.decreasing) bad += "f=x0 rejected; "; }
  { Vec m(2); m[1] = 1; RF r = check_rf(2, C2, m, true, true); if (r.bounded || r.decreasing) bad += "f=x1 accepted; "; }
  if (!farkas_exists(2, C2, &mu) || mu[0] <= 0 || mu[1] != 0) bad += "farkas mu wrong on n=2; ";
  // decoding of a mu generator: dims 0..n-1 = mu_1..mu_n, dim n = mu_0
  { Vec m; Q m0; Generator g = point(3 * Variable(0) + 0 * Variable(1) + 5 * Variable(2), 2); if (!read_mu(g, 2, m, m0) || m[0] != Q(3, 2) || m[1] != 0 || m0 != Q(5, 2)) bad += "mu decoding; "; }
  // zero variables: universe relation has no ranking function, LP layer copes with 0 columns
  { Sys U; if (farkas_exists(0, U, 0)) bad += "farkas accepts 0-dim universe; "; if (!ref::feasible(0, U)) bad += "0-dim universe infeasible; "; Sys E; E.push_back(Con(Vec(), Q(-1), ref::LE)); if (ref::feasible(0, E)) bad += "0-dim false feasible; "; }
  if (!bad.empty()) violation("harness.bug.selftest", bad);
  hx::count("selftest_runs");
}

static void check_out(const Loop& L, const Out& O) {
  Ctx C; C.L = &L; C.O = &O; C.n = L.n; const int n = L.n, D = 2 * n;
  C.Rs = own_relation(L); C.Rcl = ref::closure_of(C.Rs);
  C.closed = true; for (size_t i = 0; i < C.Rs.size(); ++i) if (C.Rs[i].rel == ref::LT) C.closed = false;
  C.nonempty = ref::feasible(D, C.Rs);
  C.exists = !C.nonempty || farkas_exists(n, C.Rcl, &C.own_mu);
  C.rclass = !C.nonempty ? "empty-relation" : C.closed ? "closed" : "not-closed";
  hx::count("relation." + C.rclass); if (C.nonempty) hx::count(C.exists ? "relation.has_rf" : "relation.no_rf");
  // oracle self-consistency: the Farkas solution must pass the LP test
  if (C.nonempty && C.exists) { RF r = check_rf(n, C.Rcl, C.own_mu, true, true); if (!r.bounded || !r.decreasing) { violation("harness.bug.farkas_vs_lp", "own Farkas solution fails the LP test; " + show_loop(L)); return; } }
  // the pointset PPL holds is the relation we think it is (else the workload generator is wrong)
  if (O.reported_ok) {
    bool same = C.nonempty ? (ref::feasible(D, O.reported) && ref::esys_in_cons(ref::esys_of(C.Rcl, D), O.reported, 0, 0) && ref::esys_in_cons(ref::esys_of(O.reported, D), C.Rcl, 0, 0))
                           : (!C.closed || !ref::feasible(D, O.reported));
    if (!same) { violation("harness.bug.relation_mismatch", "PPL reports " + show(O.reported) + " for " + show_loop(L)); return; }
  }
  const bool nontrivial = C.nonempty && !C.Rs.empty();
  const std::string feat = std::string(kind_name(L.kind)) + "|n" + std::to_string(n) + "|" + C.rclass + "|" + L.tmpl + "|" + O.state_word + "|rows" + std::to_string(std::min<size_t>(C.Rs.size(), 8) / 2);

  // ---- pass 1: soundness of everything that was returned
  bool space_empty[CALL_COUNT] = { false, false, false, false, false, false, false }; bool bnd_empty = false;
  bool verdicts[CALL_COUNT];
  for (int c = 0; c < CALL_COUNT; ++c) {
    verdicts[c] = false;
    if (!(O.done & (1 << c))) continue;
    const std::string m = method_name(c, L.two);
    bool verdict = O.verdict[c];
    if (c == CALL_ONE_MS || c == CALL_ONE_PR) {
      if (verdict) {
        const Generator& g = (c == CALL_ONE_MS) ? O.mu_ms : O.mu_pr; Vec mu; Q mu0; checked();
        if (!read_mu(g, n, mu, mu0)) { violation("C18.sound." + m + ".mu_malformed", "mu = " + str(g) + " is not a point of dimension n+1 = " + std::to_string(n + 1) + "; " + show_loop(L)); return; }
        if (C.nonempty) { if (!judge_rf(C, "C18.sound." + m, "", mu, mu0, true, true, m + " returned mu = " + str(g))) return; hx::count("rf_verified"); }
        else hx::count("vacuous.mu");
      }
    } else if (c == CALL_ALL_MS) { if (!judge_space(C, m, O.s_ms, true, true, space_empty[c])) return; verdict = !space_empty[c]; }
    else if (c == CALL_ALL_PR) { if (!judge_space(C, m, O.s_pr, true, true, space_empty[c])) return; verdict = !space_empty[c]; }
    else if (c == CALL_QUASI_MS) {
      if (!judge_space(C, m, O.s_dec, false, true, space_empty[c])) return;
      if (!judge_space(C, m, O.s_bnd, true, false, bnd_empty)) return;
      verdict = !space_empty[c] && !bnd_empty;
    }
    verdicts[c] = verdict;
    checked();
    if (verdict && !C.exists && c != CALL_QUASI_MS) {   // (a decreasing and a bounded function need not be the same one)
      if (c == CALL_TEST_MS || c == CALL_TEST_PR) { violation("C18.sound." + m + ".no_ranking_function", "verdict true but the affine Farkas system of the relation is infeasible; " + show_loop(L)); return; }
      // for one_* and the spaces the LP test above would already have refuted a function
      violation("harness.bug.farkas_incomplete", m + ": a function passed the LP test although the Farkas system is infeasible; " + show_loop(L)); return;
    }
    hx::count(std::string("verdict.") + m + (verdict ? ".true" : ".false"));
    if (nontrivial) hx::distinct(m + "|" + feat + (verdict ? "|T" : "|F") + ((L.fresh_mask >> c) & 1 ? "|fresh" : ""));
  }
  // ---- pass 2: completeness and MS == PR, for relations that are closed polyhedra
  if (!C.closed) { for (int c = 0; c < CALL_COUNT; ++c) if ((O.done & (1 << c)) && !verdicts[c] && C.exists) hx::count("not_closed.incomplete." + method_name(c, L.two)); return; }
  std::string tri; bool tri_done = false;
  auto triage = [&]() -> std::string {      // computed only when something is about to be reported
    if (!tri_done) { tri_done = true; tri = !C.nonempty ? "empty-relation" : before_vs_domain_class(L); }
    return tri.empty() ? "" : ":" + tri;
  };
  const std::string own = C.nonempty ? (C.exists ? show_f(n, C.own_mu, Q(0)) + " (+ constant)" : std::string("none")) : std::string("any function (the relation is empty)");
  for (int c = 0; c < CALL_COUNT; ++c) {
    if (!(O.done & (1 << c))) continue;
    const std::string m = method_name(c, L.two);
    checked(); hx::count("complete_checks");
    if (verdicts[c] || !C.exists) continue;
    if (c == CALL_QUASI_MS) violation("C18.complete." + m + (space_empty[c] ? ".decreasing" : ".bounded") + triage(), "returned space is empty but " + own + " qualifies; " + show_loop(L));
    else violation("C18.complete." + m + triage(), std::string(c <= CALL_ONE_PR ? "verdict false" : "mu_space empty") + " but a ranking function exists: " + own + "; " + show_loop(L));
  }
  static const int pairs[3][2] = { { CALL_TEST_MS, CALL_TEST_PR }, { CALL_ONE_MS, CALL_ONE_PR }, { CALL_ALL_MS, CALL_ALL_PR } };
  static const char* const pn[3] = { "test", "one", "all" };
  for (int p = 0; p < 3; ++p) {
    int a = pairs[p][0], b = pairs[p][1];
    if (!(O.done & (1 << a)) || !(O.done & (1 << b))) continue;
    checked(); hx::count("ms_vs_pr_checks");
    if (verdicts[a] != verdicts[b])
      violation(std::string("C18.ms_vs_pr.") + pn[p] + (L.two ? "_2" : "") + triage(),
                std::string("MS says ") + (verdicts[a] ? "true" : "false") + ", PR says " + (verdicts[b] ? "true" : "false") + ", independent existence of a ranking function: " + own + "; " + show_loop(L));
  }
}

static bool g_selftested = false;

static void run_case(uint64_t) {
  if (!g_selftested) { g_selftested = true; selftest(); if (hx::st().case_tainted) return; }
  g_budget = (unsigned long long) hx::opt().geti("budget", 200000000L);
  const int maxn = (int) hx::opt().geti("maxn", hx::opt().thorough ? 4 : 3);
  const int maxrows = (int) hx::opt().geti("maxrows", hx::opt().thorough ? 14 : 10);
  Loop L;
  for (int attempt = 0; ; ++attempt) {
    L = Loop(); gen_loop(L, maxn, maxrows);
    // accidental empty relations are mostly re-drawn (intended ones carry a marker in the template name)
    if (attempt >= 3 || L.n == 0 || L.tmpl.find('+') != std::string::npos || coin(15)) break;
    if (ref::feasible(2 * L.n, own_relation(L))) break;
  }
  tr(show_loop(L));
  hx::count(std::string("kind.") + kind_name(L.kind)); hx::count(L.two ? "form.two" : "form.one"); hx::count("n." + std::to_string(L.n)); hx::count("tmpl." + L.tmpl);
  if (coin(3)) {     // ill-dimensioned calls (documented std::invalid_argument)
    switch (L.kind) { case K_C: run_bad_dims_C(L.n, L.two); break; case K_NNC: run_bad_dims_NNC(L.n, L.two); break; case K_BD: run_bad_dims_BD(L.n, L.two); break; case K_OCT: run_bad_dims_OCT(L.n, L.two); break; default: run_bad_dims_BOX(L.n, L.two); }
    if (hx::st().case_tainted) return;
  }
  Out O;
  switch (L.kind) { case K_C: run_calls_C(L, O); break; case K_NNC: run_calls_NNC(L, O); break; case K_BD: run_calls_BD(L, O); break; case K_OCT: run_calls_OCT(L, O); break; default: run_calls_BOX(L, O); }
  if (hx::st().case_tainted || !O.built) return;
  check_out(L, O);
}

int main(int argc, char** argv) {
  return hx::main_loop(argc, argv, run_case, []() { hx::count("lp_solves", ref::lp_counters().solves); hx::count("lp_pivots", ref::lp_counters().pivots); });
}
