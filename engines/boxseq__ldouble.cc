// boxseq: instantiation of the box adapter for Parma_Polyhedra_Library::Long_Double_Box (see boxseq.hh).
#include "boxseq.hh"
BOXSEQ_REGISTER(ldouble, 10, Parma_Polyhedra_Library::Long_Double_Box)
