// pipbrute — runtime monitor for the PIP solver (property C07; also C13.pip.* and C15.pip.*).
//
// One case = one random parametric integer programming problem (1-3 variables, 0-3 parameters,
// 1-5 random constraints + optional bounds, |coeff| <= 3) followed by 0-2 incremental stages
// (add_constraint / add_constraints / add_space_dimensions_and_embed / add_to_parameter_space_dimensions).
// The whole history is run under each of the 3 x 2 CUTTING_STRATEGY x PIVOT_ROW_STRATEGY settings.
// After every solve the solution tree is walked through the public node API, exactly as documented
// in PIP_Problem_defs.hh ("Spanning the solution tree"), for every parameter valuation of a small box
// that satisfies the initial context, and compared with an independent exact integer lexicographic
// minimum (own equality elimination + branch & bound over the exact LP of /verif/ref, cross-checked
// by brute force in a window).
//
// All solves of a case run in ONE forked child (a new child only for what is left after a death), with a
// CPU-time alarm re-armed per strategy: a sanitizer death or a loop without abandonment checkpoint becomes a
// violation key (C07.crash.<max_column|pivot_first>:<class>, C07.hang.<...>) without killing the worker.
// PIVOT_ROW_STRATEGY_MAX_COLUMN must be sandboxed (Tableau::is_better_pivot reads past the row end / never ends);
// the pinned tree also dies under PIVOT_ROW_STRATEGY_FIRST on incremental re-solves, and one fork per case costs
// nothing measurable, so the default sandboxes those too; `--kv inproc=1` keeps them in process.
// Other options: --kv alarm=<cpu s per strategy, 5>  --kv budget=<weight per solve, 2e7>  --kv maxcol=0
// Profiles: default (C07), alias (copy/assign/swap check in every case), ascii (dump/load round trip in every case).
#include "pplx.hh"
#include <sys/types.h>
#include <sys/wait.h>
#include <sys/time.h>
#include <poll.h>
#include <signal.h>
#include <fcntl.h>

extern "C" void __sanitizer_set_report_path(const char*) __attribute__((weak));

using namespace pplx;
typedef mpz_class ZZ;
typedef std::vector<ZZ> ZVec;

// ===================================================================================================
// Reference: exact integer lexicographic minimum (shares nothing with PIP_Problem / MIP_Problem).
// ===================================================================================================
namespace ilp {

struct Row { ZVec a; ZZ b; bool eq; Row() : eq(false) {} };   // a.x <= b   or   a.x == b   (integer data)
enum St { INFEAS = 0, OPT = 1, CAP = 2 };
struct Stats { unsigned long ilps, nodes, caps, unbounded, row_branchings; Stats() : ilps(0), nodes(0), caps(0), unbounded(0), row_branchings(0) {} };
static Stats& stats() { static Stats s; return s; }

static ZZ fdiv(const ZZ& a, const ZZ& b) { ZZ q; mpz_fdiv_q(q.get_mpz_t(), a.get_mpz_t(), b.get_mpz_t()); return q; }
static ZZ dotz(const ZVec& a, const ZVec& x) { ZZ s = 0; for (size_t i = 0; i < a.size() && i < x.size(); ++i) if (a[i] != 0 && x[i] != 0) s += a[i] * x[i]; return s; }

// Integer solution set of the equalities: x = x0 + K t, t in Z^k (unimodular column reduction).
// Returns false iff the equalities have no integer solution.
static bool eliminate(int n, const std::vector<Row>& rows, ZVec& x0, std::vector<ZVec>& K, int& k) {
  std::vector<const Row*> E;
  for (size_t i = 0; i < rows.size(); ++i) if (rows[i].eq) E.push_back(&rows[i]);
  int m = E.size();
  std::vector<ZVec> W(m, ZVec(n)), U(n, ZVec(n));
  for (int i = 0; i < m; ++i) for (int j = 0; j < n; ++j) W[i][j] = E[i]->a[j];
  for (int i = 0; i < n; ++i) U[i][i] = 1;
  std::vector<int> pivcol(m, -1);
  int r = 0;
  for (int i = 0; i < m && r < n; ++i) {
    for (;;) {
      int j = -1;
      for (int c = r; c < n; ++c) if (W[i][c] != 0 && (j < 0 || abs(W[i][c]) < abs(W[i][j]))) j = c;
      if (j < 0) break;
      if (j != r) { for (int q = 0; q < m; ++q) std::swap(W[q][j], W[q][r]); for (int q = 0; q < n; ++q) std::swap(U[q][j], U[q][r]); }
      bool clean = true;
      for (int c = r + 1; c < n; ++c) if (W[i][c] != 0) {
        ZZ f = fdiv(W[i][c], W[i][r]);
        for (int q = 0; q < m; ++q) W[q][c] -= f * W[q][r];
        for (int q = 0; q < n; ++q) U[q][c] -= f * U[q][r];
        if (W[i][c] != 0) clean = false;
      }
      if (clean) { pivcol[i] = r; ++r; break; }
    }
  }
  ZVec y(n);
  for (int i = 0; i < m; ++i) {
    int lim = pivcol[i] >= 0 ? pivcol[i] : r;
    ZZ s = E[i]->b;
    for (int c = 0; c < lim; ++c) s -= W[i][c] * y[c];
    if (pivcol[i] >= 0) { const ZZ& p = W[i][pivcol[i]]; if (!mpz_divisible_p(s.get_mpz_t(), p.get_mpz_t())) return false; y[pivcol[i]] = s / p; }
    else if (s != 0) return false;
  }
  x0.assign(n, ZZ(0));
  for (int q = 0; q < n; ++q) for (int c = 0; c < r; ++c) x0[q] += U[q][c] * y[c];
  k = n - r; K.assign(n, ZVec(k));
  for (int q = 0; q < n; ++q) for (int c = 0; c < k; ++c) K[q][c] = U[q][r + c];
  return true;
}

// Minimise obj.x over the integer points of rows. (The caller puts x >= 0 among the rows.)
// 1. equalities are eliminated exactly over the integers; 2. branch & bound on the remaining lattice coordinates
// (per-coordinate bounds are merged, so every LP stays small); 3. when that does not finish (thin unbounded slabs,
// the classic parity obstruction) the search branches on the integer value of a constraint row whose range over the
// relaxation is finite: each such value is a new equality, so the dimension drops and the recursion ends.
static St ilp_min(int n, const std::vector<Row>& rows, const ZVec& obj, ZZ& value, ZVec& x, unsigned long node_cap, int depth = 0) {
  ++stats().ilps;
  ZVec x0; std::vector<ZVec> K; int k = 0;
  if (!eliminate(n, rows, x0, K, k)) return INFEAS;
  ref::Sys base; std::vector<int> base_row;
  for (size_t i = 0; i < rows.size(); ++i) if (!rows[i].eq) {
    ZZ h = rows[i].b - dotz(rows[i].a, x0);
    Vec g(k); bool zero = true;
    for (int c = 0; c < k; ++c) { ZZ s = 0; for (int q = 0; q < n; ++q) if (rows[i].a[q] != 0) s += rows[i].a[q] * K[q][c]; g[c] = Q(s); if (s != 0) zero = false; }
    if (zero) { if (h < 0) return INFEAS; continue; }
    base.push_back(Con(g, Q(h), ref::LE)); base_row.push_back(i);
  }
  if (k == 0) { value = dotz(obj, x0); x = x0; return OPT; }
  Vec negc(k); ZZ c0 = dotz(obj, x0);
  for (int c = 0; c < k; ++c) { ZZ s = 0; for (int q = 0; q < n; ++q) if (obj[q] != 0) s += obj[q] * K[q][c]; negc[c] = Q(-s); }
  struct Box { std::vector<char> hl, hu; ZVec lo, up; };
  Box root; root.hl.assign(k, 0); root.hu.assign(k, 0); root.lo.assign(k, ZZ(0)); root.up.assign(k, ZZ(0));
  std::vector<Box> stack(1, root);
  bool have = false, capped = false; ZZ best; ZVec bestt; unsigned long nodes = 0;
  while (!stack.empty()) {
    Box nd = stack.back(); stack.pop_back();
    ++stats().nodes;
    if (++nodes > node_cap) { capped = true; break; }
    ref::Sys sys = base; bool empty = false;
    for (int c = 0; c < k; ++c) {
      if (nd.hl[c] && nd.hu[c] && nd.lo[c] > nd.up[c]) empty = true;
      if (nd.hu[c]) { Vec a(k); a[c] = 1; sys.push_back(Con(a, Q(nd.up[c]), ref::LE)); }
      if (nd.hl[c]) { Vec a(k); a[c] = -1; sys.push_back(Con(a, Q(ZZ(-nd.lo[c])), ref::LE)); }
    }
    if (empty) continue;
    ref::LPResult r = ref::lp_max_closed(k, sys, negc);
    if (r.status == ref::INFEASIBLE) continue;
    if (r.status == ref::UNBOUNDED) { ++stats().unbounded; capped = true; break; }
    Q val = -r.value;
    ZZ lb; mpz_cdiv_q(lb.get_mpz_t(), val.get_num_mpz_t(), val.get_den_mpz_t());
    if (have && lb >= best) continue;
    int fr = -1;
    for (int c = 0; c < k; ++c) if (r.x[c].get_den() != 1) { fr = c; break; }
    if (fr < 0) { have = true; best = lb; bestt.assign(k, ZZ(0)); for (int c = 0; c < k; ++c) bestt[c] = r.x[c].get_num(); continue; }
    ZZ fl; mpz_fdiv_q(fl.get_mpz_t(), r.x[fr].get_num_mpz_t(), r.x[fr].get_den_mpz_t());
    Box up = nd, dn = nd;
    up.hl[fr] = 1; up.lo[fr] = fl + 1;
    dn.hu[fr] = 1; dn.up[fr] = fl;
    stack.push_back(up); stack.push_back(dn);
  }
  if (!capped) {
    if (!have) return INFEAS;
    x = x0;
    for (int q = 0; q < n; ++q) for (int c = 0; c < k; ++c) x[q] += K[q][c] * bestt[c];
    value = best + c0;
    return OPT;
  }
  // fallback: branch on the value of the constraint row with the smallest finite range over the relaxation
  ++stats().row_branchings;
  if (depth > n + 1) { ++stats().caps; return CAP; }
  int pick = -1; ZZ plo, phi, prange;
  for (size_t bi = 0; bi < base.size(); ++bi) {
    ref::LPResult r = ref::lp_max_closed(k, base, [&]() { Vec m(k); for (int c = 0; c < k; ++c) m[c] = -base[bi].a[c]; return m; }());   // max of -(g.t)  =  -min(g.t)
    if (r.status == ref::INFEASIBLE) return INFEAS;
    if (r.status != ref::OPTIMAL) continue;
    Q mn = -r.value; ZZ lo; mpz_cdiv_q(lo.get_mpz_t(), mn.get_num_mpz_t(), mn.get_den_mpz_t());
    ZZ hi; mpz_fdiv_q(hi.get_mpz_t(), base[bi].b.get_num_mpz_t(), base[bi].b.get_den_mpz_t());
    if (lo > hi) return INFEAS;
    ZZ range = hi - lo;
    if (pick < 0 || range < prange) { pick = bi; plo = lo; phi = hi; prange = range; }
  }
  if (pick < 0 || prange > 40) { ++stats().caps; return CAP; }
  const Row& pr = rows[base_row[pick]];
  ZZ off = dotz(pr.a, x0);           // a.x = off + g.t
  have = false; bool sub_cap = false;
  for (ZZ w = plo; w <= phi; ++w) {
    std::vector<Row> r2 = rows; Row e; e.a = pr.a; e.b = w + off; e.eq = true; r2.push_back(e);
    ZZ v; ZVec xx;
    St s = ilp_min(n, r2, obj, v, xx, node_cap, depth + 1);
    if (s == CAP) { sub_cap = true; continue; }
    if (s == OPT && (!have || v < best)) { have = true; best = v; x = xx; }
  }
  if (sub_cap) { ++stats().caps; return CAP; }
  if (!have) return INFEAS;
  value = best;
  return OPT;
}

// Lexicographic minimum of the integer points of rows (sequential minimisation).
static St lexmin(int n, std::vector<Row> rows, ZVec& x, unsigned long node_cap = 60) {
  x.assign(n, ZZ(0));
  ZVec w;
  for (int j = 0; j < n; ++j) {
    ZVec obj(n); obj[j] = 1; ZZ v;
    St s = ilp_min(n, rows, obj, v, w, node_cap);
    if (s != OPT) return s;
    Row e; e.a = obj; e.b = v; e.eq = true; rows.push_back(e);
  }
  if (n > 0) x = w;
  return OPT;
}
static St feasible(int n, const std::vector<Row>& rows, ZVec& x, unsigned long node_cap = 60) {
  ZVec obj(n); ZZ v; x.assign(n, ZZ(0));
  if (n == 0) { for (size_t i = 0; i < rows.size(); ++i) if (rows[i].eq ? rows[i].b != 0 : rows[i].b < 0) return INFEAS; return OPT; }
  return ilp_min(n, rows, obj, v, x, node_cap);
}
} // namespace ilp

// ===================================================================================================
// Problem descriptions kept by the harness (never read back from PPL).
// ===================================================================================================
struct ICon { std::vector<int> a; int b; int rel; ICon() : b(0), rel(0) {} };   // sum a_i x_i + b  {>=, ==, >}  0

static std::string vname(int i) { std::string s(1, (char) ('A' + i % 26)); if (i >= 26) s += std::to_string(i / 26); return s; }
static std::string show(const ICon& c) {
  std::ostringstream o; bool any = false;
  for (size_t i = 0; i < c.a.size(); ++i) if (c.a[i]) { o << (c.a[i] > 0 ? (any ? " + " : "") : (any ? " - " : "-")); int m = std::abs(c.a[i]); if (m != 1) o << m << "*"; o << vname(i); any = true; }
  if (!any) o << c.b; else if (c.b) o << (c.b > 0 ? " + " : " - ") << std::abs(c.b);
  o << (c.rel == 0 ? " >= 0" : c.rel == 1 ? " = 0" : " > 0");
  return o.str();
}
static Constraint to_ppl(const ICon& c) {
  Linear_Expression e;
  for (size_t i = 0; i < c.a.size(); ++i) if (c.a[i]) e += c.a[i] * Variable(i);
  e += c.b;
  return c.rel == 0 ? Constraint(e >= 0) : c.rel == 1 ? Constraint(e == 0) : Constraint(e > 0);
}
static ZZ eval_at(const ICon& c, const ZVec& full) { ZZ s = c.b; for (size_t i = 0; i < c.a.size(); ++i) if (c.a[i]) s += c.a[i] * full[i]; return s; }
static bool holds(const ICon& c, const ZVec& full) { ZZ v = eval_at(c, full); return c.rel == 0 ? v >= 0 : c.rel == 1 ? v == 0 : v > 0; }

struct Stage {
  std::string op;                 // init | add_constraint | add_constraints | add_dims | add_params
  int add_vars, add_params;       // add_space_dimensions_and_embed(add_vars, add_params)
  std::vector<int> to_params;     // add_to_parameter_space_dimensions
  std::vector<ICon> cons;         // constraints added at this stage
  int set_big;                    // big parameter designated at this stage (-1: none)
  // cumulative description after the stage
  int dim; std::vector<char> is_param; std::vector<ICon> all; int big;
  Stage() : add_vars(0), add_params(0), set_big(-1), dim(0), big(-1) {}
  std::vector<int> vars() const { std::vector<int> v; for (int i = 0; i < dim; ++i) if (!is_param[i]) v.push_back(i); return v; }
  std::vector<int> pars() const { std::vector<int> v; for (int i = 0; i < dim; ++i) if (is_param[i]) v.push_back(i); return v; }
  std::string text() const {
    std::ostringstream o; o << "dim=" << dim << " params={"; bool f = true;
    for (int i = 0; i < dim; ++i) if (is_param[i]) { o << (f ? "" : ",") << vname(i); f = false; }
    o << "}"; if (big >= 0) o << " big=" << vname(big);
    o << " cs={"; for (size_t i = 0; i < all.size(); ++i) o << (i ? "; " : "") << show(all[i]); o << "}";
    return o.str();
  }
};
struct Plan {            // random decisions shared by the six strategy runs of a case
  int ctor_kind;         // 0: range constructor, 1: PIP_Problem(dim) + add_to_parameter_space_dimensions + add_constraint
  int c13_stage, c13_kind;   // stage after whose solve the copy/assign/swap checks run (-1: none)
  int c15_stage, c15_kind;   // ascii round trip: kind 0 after solve, 1 with pending constraints (before solve)
  ICon extra;                // constraint used to mutate copies / lock-step continuation (over stage dims at that stage)
  std::vector<ICon> extra_by_stage;
  Plan() : ctor_kind(0), c13_stage(-1), c13_kind(0), c15_stage(-1), c15_kind(0) {}
};

// ---------------- reference values per stage ----------------
struct RefVal { ZVec pv; bool ctx; int st; ZVec pt; int mclass; RefVal() : ctx(false), st(0), mclass(0) {} };   // mclass: 0 none, 1 small M, 2 large M
struct StageRef { std::vector<RefVal> vals; int joint; ZVec jointpt; bool any_feasible; StageRef() : joint(2), any_feasible(false) {} };

static std::vector<ilp::Row> rows_for(const Stage& S, const ZVec& pv) {
  std::vector<int> V = S.vars(); int nv = V.size();
  std::vector<ilp::Row> rows;
  for (size_t i = 0; i < S.all.size(); ++i) {
    const ICon& c = S.all[i]; ilp::Row r; r.a.assign(nv, ZZ(0));
    ZZ k = c.b;
    for (int d = 0; d < S.dim && d < (int) c.a.size(); ++d) if (c.a[d] && S.is_param[d]) k += c.a[d] * pv[d];
    for (int j = 0; j < nv; ++j) if (V[j] < (int) c.a.size()) r.a[j] = -c.a[V[j]];
    r.b = k; r.eq = c.rel == 1; if (c.rel == 2) r.b -= 1;
    rows.push_back(r);
  }
  for (int j = 0; j < nv; ++j) { ilp::Row r; r.a.assign(nv, ZZ(0)); r.a[j] = -1; r.b = 0; rows.push_back(r); }
  return rows;
}
static bool ctx_ok(const Stage& S, const ZVec& pv) {
  for (size_t i = 0; i < S.all.size(); ++i) {
    const ICon& c = S.all[i]; bool has_var = false;
    for (int d = 0; d < (int) c.a.size(); ++d) if (c.a[d] && !S.is_param[d]) has_var = true;
    if (has_var) continue;
    if (!holds(c, pv)) return false;
  }
  return true;
}
static bool point_ok(const Stage& S, const ZVec& pv, const ZVec& pt) {   // plain arithmetic re-validation
  std::vector<int> V = S.vars(); ZVec full = pv;
  for (size_t j = 0; j < V.size(); ++j) { if (pt[j] < 0) return false; full[V[j]] = pt[j]; }
  for (size_t i = 0; i < S.all.size(); ++i) if (!holds(S.all[i], full)) return false;
  return true;
}
static int lexcmp(const ZVec& a, const ZVec& b) { for (size_t i = 0; i < a.size(); ++i) { if (a[i] < b[i]) return -1; if (a[i] > b[i]) return 1; } return 0; }
static std::string showz(const ZVec& v) { std::ostringstream o; o << "("; for (size_t i = 0; i < v.size(); ++i) o << (i ? "," : "") << v[i]; o << ")"; return o.str(); }
static std::string showpv(const Stage& S, const ZVec& pv) { std::ostringstream o; bool f = true; for (int i = 0; i < S.dim; ++i) if (S.is_param[i]) { o << (f ? "" : ",") << vname(i) << "=" << pv[i]; f = false; } return f ? "(no parameters)" : o.str(); }

// Window brute force (normal mode only: all data small), used to cross-check the ILP reference.
static bool brute_first(const Stage& S, const ZVec& pv, int W, ZVec& out) {
  std::vector<int> V = S.vars(); int nv = V.size(); int m = S.all.size();
  std::vector<long> k(m); std::vector<std::vector<long> > a(m, std::vector<long>(nv));
  for (int i = 0; i < m; ++i) { ZZ kk = S.all[i].b; for (int d = 0; d < (int) S.all[i].a.size(); ++d) if (S.all[i].a[d] && S.is_param[d]) kk += S.all[i].a[d] * pv[d]; k[i] = kk.get_si(); for (int j = 0; j < nv; ++j) a[i][j] = V[j] < (int) S.all[i].a.size() ? S.all[i].a[V[j]] : 0; }
  std::vector<int> x(nv, 0);
  for (;;) {
    bool ok = true;
    for (int i = 0; i < m && ok; ++i) { long v = k[i]; for (int j = 0; j < nv; ++j) v += a[i][j] * x[j]; ok = S.all[i].rel == 0 ? v >= 0 : S.all[i].rel == 1 ? v == 0 : v > 0; }
    if (ok) { out.assign(nv, ZZ(0)); for (int j = 0; j < nv; ++j) out[j] = x[j]; return true; }
    int j = nv - 1; while (j >= 0 && x[j] == W) { x[j] = 0; --j; } if (j < 0) return false; ++x[j];
  }
}

static const char* const BIGM[4] = { "10000", "1000003", "1000000007", "1000000008" };

static void make_valuations(const Stage& S, StageRef& R) {
  std::vector<int> P = S.pars(); std::vector<int> small;
  for (size_t i = 0; i < P.size(); ++i) if (P[i] != S.big) small.push_back(P[i]);
  int p = small.size(), K;
  if (S.big < 0) K = p <= 1 ? 8 : p == 2 ? 6 : p == 3 ? 3 : p == 4 ? 2 : 1;
  else K = p <= 1 ? 6 : p == 2 ? 3 : p == 3 ? 2 : 1;
  std::vector<int> cur(p, 0);
  for (;;) {
    for (int mi = 0; mi < (S.big >= 0 ? 4 : 1); ++mi) {
      RefVal v; v.pv.assign(S.dim, ZZ(0));
      for (int j = 0; j < p; ++j) v.pv[small[j]] = cur[j];
      if (S.big >= 0) { v.pv[S.big] = ZZ(BIGM[mi]); v.mclass = mi < 2 ? 1 : 2; }
      R.vals.push_back(v);
    }
    int j = p - 1; while (j >= 0 && cur[j] == K) { cur[j] = 0; --j; } if (j < 0) break; ++cur[j];
  }
}

static void compute_reference(const Stage& S, StageRef& R) {
  make_valuations(S, R);
  std::vector<int> V = S.vars(); int nv = V.size();
  for (size_t vi = 0; vi < R.vals.size(); ++vi) {
    RefVal& v = R.vals[vi];
    v.ctx = ctx_ok(S, v.pv);
    if (!v.ctx) { hx::count("valuations.outside_context"); continue; }
    hx::count("valuations.in_context");
    v.st = ilp::lexmin(nv, rows_for(S, v.pv), v.pt);
    if (v.st == ilp::CAP) { hx::inconclusive("ilp_cap"); continue; }
    // self-validation of the oracle (plain arithmetic + window brute force)
    if (v.st == ilp::OPT && !point_ok(S, v.pv, v.pt)) { hx::violation("harness.bug.ilp_point_infeasible", S.text() + " at " + showpv(S, v.pv) + " ref=" + showz(v.pt)); return; }
    if (S.big < 0 && nv <= 4) {
      int W = nv <= 2 ? 12 : nv == 3 ? 7 : 4; ZVec bf;
      bool found = brute_first(S, v.pv, W, bf); hx::count("ref.bruteforce_crosschecks");
      if (found && v.st == ilp::INFEAS) { hx::violation("harness.bug.ilp_infeasible_but_point", S.text() + " at " + showpv(S, v.pv) + " brute=" + showz(bf)); return; }
      if (found && lexcmp(bf, v.pt) < 0) { hx::violation("harness.bug.ilp_not_minimal", S.text() + " at " + showpv(S, v.pv) + " brute=" + showz(bf) + " ilp=" + showz(v.pt)); return; }
      if (v.st == ilp::OPT) { bool inwin = true; for (int j = 0; j < nv; ++j) if (v.pt[j] > W) inwin = false; if (inwin && (!found || lexcmp(bf, v.pt) != 0)) { hx::violation("harness.bug.brute_disagrees", S.text() + " at " + showpv(S, v.pv)); return; } }
    }
    if (v.st == ilp::OPT) R.any_feasible = true;
  }
  // joint integer feasibility over (variables, parameters): decides "bottom for all assignments"
  if (S.big < 0) {
    std::vector<ilp::Row> rows;
    for (size_t i = 0; i < S.all.size(); ++i) { const ICon& c = S.all[i]; ilp::Row r; r.a.assign(S.dim, ZZ(0)); for (int d = 0; d < S.dim && d < (int) c.a.size(); ++d) r.a[d] = -c.a[d]; r.b = c.b; r.eq = c.rel == 1; if (c.rel == 2) r.b -= 1; rows.push_back(r); }
    for (int d = 0; d < S.dim; ++d) { ilp::Row r; r.a.assign(S.dim, ZZ(0)); r.a[d] = -1; r.b = 0; rows.push_back(r); }
    R.joint = ilp::feasible(S.dim, rows, R.jointpt);
    if (R.joint == ilp::OPT) { for (size_t i = 0; i < S.all.size(); ++i) if (!holds(S.all[i], R.jointpt)) { hx::violation("harness.bug.joint_point_infeasible", S.text()); return; } }
    if (R.joint == ilp::INFEAS && R.any_feasible) { hx::violation("harness.bug.joint_infeasible_but_valuation_feasible", S.text()); return; }
    if (R.joint == ilp::CAP) hx::inconclusive("joint_ilp_cap");
  }
}

// ===================================================================================================
// The documented tree walk.
// ===================================================================================================
struct Walk { char kind; ZVec v; std::string err; Walk() : kind('b') {} };   // 'b' bottom, 'p' point, 'e' malformed tree
static bool same(const Walk& a, const Walk& b) { return a.kind == b.kind && (a.kind != 'p' || a.v == b.v) && (a.kind != 'e' || a.err == b.err); }
static std::string show(const Walk& w) { return w.kind == 'b' ? std::string("bottom") : w.kind == 'p' ? showz(w.v) : "error:" + w.err; }

struct Env { ZVec val; std::vector<char> defined; };
static bool eval_expr(const Linear_Expression& e, const Env& env, ZZ& out, std::string& err) {
  out = ZZ(e.inhomogeneous_term());
  for (dimension_type i = 0; i < e.space_dimension(); ++i) {
    const Coefficient& c = e.coefficient(Variable(i));
    if (c == 0) continue;
    if (i >= env.val.size()) { err = "undeclared_parameter"; return false; }
    if (!env.defined[i]) { err = "mentions_problem_variable"; return false; }
    out += ZZ(c) * env.val[i];
  }
  return true;
}
static Walk walk_tree(const PIP_Tree_Node* node, const Stage& S, const ZVec& pv) {
  Walk w; Env env; env.val = pv; env.defined.assign(S.dim, 0);
  for (int i = 0; i < S.dim; ++i) env.defined[i] = S.is_param[i];
  std::vector<int> V = S.vars();
  for (int depth = 0; depth < 10000; ++depth) {
    if (node == 0) { w.kind = 'b'; return w; }
    for (PIP_Tree_Node::Artificial_Parameter_Sequence::const_iterator ap = node->art_parameter_begin(); ap != node->art_parameter_end(); ++ap) {
      ZZ num; if (!eval_expr(*ap, env, num, w.err)) { w.kind = 'e'; w.err = "art_param." + w.err; return w; }
      ZZ den = ZZ(ap->denominator()); if (den <= 0) { w.kind = 'e'; w.err = "art_param.nonpositive_denominator"; return w; }
      env.val.push_back(ilp::fdiv(num, den)); env.defined.push_back(1);
    }
    bool all = true;
    const Constraint_System& cs = node->constraints();
    for (Constraint_System::const_iterator i = cs.begin(), e = cs.end(); i != e; ++i) {
      Linear_Expression le(i->expression()); ZZ v;
      if (!eval_expr(le, env, v, w.err)) { w.kind = 'e'; w.err = "node_constraint." + w.err; return w; }
      bool h = i->is_equality() ? v == 0 : i->is_strict_inequality() ? v > 0 : v >= 0;
      if (!h) all = false;
    }
    if (const PIP_Decision_Node* d = node->as_decision()) { node = d->child_node(all); continue; }
    const PIP_Solution_Node* s = node->as_solution();
    if (!s) { w.kind = 'e'; w.err = "node_is_neither_decision_nor_solution"; return w; }
    if (!all) { w.kind = 'b'; return w; }
    w.kind = 'p'; w.v.clear();
    for (size_t k = 0; k < V.size(); ++k) {
      ZZ v; if (!eval_expr(s->parametric_values(Variable(V[k])), env, v, w.err)) { w.kind = 'e'; w.err = "parametric_values." + w.err; return w; }
      w.v.push_back(v);
    }
    return w;
  }
  w.kind = 'e'; w.err = "walk_does_not_end"; return w;
}
struct Shape { int dec, art, bottoms, sols, multi_false, no_true, depth; Shape() : dec(0), art(0), bottoms(0), sols(0), multi_false(0), no_true(0), depth(0) {} };
static void shape_of(const PIP_Tree_Node* n, Shape& s, int depth) {
  if (depth > s.depth) s.depth = depth;
  if (!n) { ++s.bottoms; return; }
  s.art += n->art_parameter_count();
  if (const PIP_Decision_Node* d = n->as_decision()) {
    ++s.dec;
    int nc = 0; for (Constraint_System::const_iterator i = n->constraints().begin(), e = n->constraints().end(); i != e; ++i) ++nc;
    if (nc >= 2 && d->child_node(false)) ++s.multi_false;
    if (!d->child_node(true)) ++s.no_true;
    if (depth < 200) { shape_of(d->child_node(true), s, depth + 1); shape_of(d->child_node(false), s, depth + 1); }
  } else { ++s.sols; if (!n->constraints().empty()) ++s.bottoms; }
}

// ===================================================================================================
// One strategy run of the whole history. Pure with respect to hx state: everything observed is
// emitted as text records through `put` (collected in process, or written to a pipe by a child).
// ===================================================================================================
static std::string esc(const std::string& s) { std::string o; for (size_t i = 0; i < s.size(); ++i) { char c = s[i]; if (c == '\\') o += "\\\\"; else if (c == '\n') o += "\\n"; else if (c == '\t') o += "\\t"; else o += c; } return o; }
static std::string unesc(const std::string& s) { std::string o; for (size_t i = 0; i < s.size(); ++i) { if (s[i] == '\\' && i + 1 < s.size()) { ++i; o += s[i] == 'n' ? '\n' : s[i] == 't' ? '\t' : s[i]; } else o += s[i]; } return o; }

struct SolveOut { int stage; bool fresh; int status; bool ok; std::string shape, tree; std::vector<Walk> w; SolveOut() : stage(0), fresh(false), status(-1), ok(true) {} };
struct Finding { std::string key, detail; };
struct StratOut { std::vector<SolveOut> solves; std::vector<Finding> findings; std::map<std::string, unsigned long> counters; bool complete; unsigned inconclusive; StratOut() : complete(false), inconclusive(0) {} };
typedef std::function<void(const std::string&)> Put;

static const char* const CUTN[3] = { "first", "deepest", "all" };
static const char* const PIVN[2] = { "first", "max_column" };
static std::string strat_name(int s) { return std::string("cut_") + CUTN[s % 3] + "+pivot_" + PIVN[s / 3]; }
static void set_strategy(PIP_Problem& p, int s) {
  p.set_control_parameter(s % 3 == 0 ? PIP_Problem::CUTTING_STRATEGY_FIRST : s % 3 == 1 ? PIP_Problem::CUTTING_STRATEGY_DEEPEST : PIP_Problem::CUTTING_STRATEGY_ALL);
  p.set_control_parameter(s / 3 == 0 ? PIP_Problem::PIVOT_ROW_STRATEGY_FIRST : PIP_Problem::PIVOT_ROW_STRATEGY_MAX_COLUMN);
}
static Variables_Set params_of(const Stage& S) { Variables_Set v; for (int i = 0; i < S.dim; ++i) if (S.is_param[i]) v.insert(Variable(i)); return v; }
static std::string dump(const PIP_Problem& p) { std::ostringstream o; p.ascii_dump(o); return o.str(); }

struct Runner {
  const std::vector<Stage>& st; const std::vector<StageRef>& ref; const Plan& plan; int strat; Put put;
  Runner(const std::vector<Stage>& s, const std::vector<StageRef>& r, const Plan& p, int sg, Put pt, bool child = false) : st(s), ref(r), plan(p), strat(sg), put(pt), in_child(child) {}
  void finding(const std::string& key, const std::string& detail) { put("F\t" + esc(key) + "\t" + esc(detail)); }
  void counter(const std::string& name, unsigned long n = 1) { put("C\t" + name + "\t" + std::to_string(n)); }

  // solve under the logical-time watchdog; returns false when the problem must not be used any further
  bool guarded_solve(const PIP_Problem& p, int& status, const std::string& site) {
    try {
      Weight_Guard wg((unsigned long long) hx::opt().geti("budget", 20000000L));
      PIP_Problem_Status s = p.solve();
      { unsigned long long u = wg.used(); int b = 0; while (u >= 10) { u /= 10; ++b; } counter("solve_weight.1e" + std::to_string(b)); }
      status = s == OPTIMIZED_PIP_PROBLEM ? 1 : 0;
      return true;
    } catch (const Logical_Timeout&) { counter("inconclusive.solve_budget_exceeded"); put("I\tsolve_budget_exceeded"); }   // PIP is exponential: a heavy solve is not a refutation of C07
    catch (const std::exception& e) { finding("C07.unexpected_exception.solve." + site, std::string(typeid(e).name()) + ": " + e.what()); }
    return false;
  }
  // observe a solved problem: status consistency, OK(), tree walk for every valuation of the stage
  bool observe(const PIP_Problem& p, int si, bool fresh, int status, SolveOut& so, bool emit) {
    const Stage& S = st[si];
    so.stage = si; so.fresh = fresh; so.status = status;
    so.ok = p.OK();
    const PIP_Tree_Node* root = p.solution();
    if (p.optimizing_solution() != root) finding("C07.api.optimizing_solution_differs", "optimizing_solution() != solution()");
    if (p.is_satisfiable() != (status == 1)) finding("C07.api.is_satisfiable_vs_status", "is_satisfiable() disagrees with solve()");
    if ((root != 0) != (status == 1)) finding("C07.api.solution_null_vs_status", std::string("solve() says ") + (status ? "optimized" : "unfeasible") + " but solution() is " + (root ? "non-null" : "null"));
    if ((int) p.space_dimension() != S.dim) finding("C07.api.space_dimension", "space_dimension() " + std::to_string(p.space_dimension()) + " expected " + std::to_string(S.dim));
    { const Variables_Set& ps = p.parameter_space_dimensions(); bool okp = ps.size() == S.pars().size(); for (int i = 0; i < S.dim; ++i) if ((ps.count(i) != 0) != (S.is_param[i] != 0)) okp = false; if (!okp) finding("C07.api.parameter_space_dimensions", "parameter set differs from what was declared"); }
    if ((size_t) std::distance(p.constraints_begin(), p.constraints_end()) != S.all.size()) counter("api.constraint_count_differs");
    Shape sh; shape_of(root, sh, 0);
    std::ostringstream o; o << "D" << std::min(sh.dec, 3) << "A" << std::min(sh.art, 2) << "B" << (sh.bottoms ? 1 : 0) << (status ? "" : "U");
    so.shape = o.str();
    counter("tree.decision_nodes", sh.dec); counter("tree.artificial_parameters", sh.art); counter("tree.solution_nodes", sh.sols);
    if (sh.multi_false) counter("doc.multi_test_decision_with_false_child", sh.multi_false);
    if (sh.no_true) counter("doc.decision_without_true_child", sh.no_true);
    if (sh.art) counter("tree.with_cuts"); if (sh.dec) counter("tree.with_splits");
    try { std::ostringstream t; p.print_solution(t); so.tree = t.str(); } catch (const std::exception& e) { finding("C07.unexpected_exception.print_solution", e.what()); }
    so.w.clear();
    const StageRef& R = ref[si];
    for (size_t vi = 0; vi < R.vals.size(); ++vi) {
      Walk w;
      if (R.vals[vi].ctx) { try { w = walk_tree(root, S, R.vals[vi].pv); } catch (const std::exception& e) { w.kind = 'e'; w.err = std::string("exception.") + typeid(e).name(); } }
      so.w.push_back(w);
    }
    if (emit) emit_solve(so);
    return so.ok;
  }
  void emit_solve(const SolveOut& so) {
    std::ostringstream o; o << "S\t" << so.stage << "\t" << (so.fresh ? 1 : 0) << "\t" << so.status << "\t" << (so.ok ? 1 : 0) << "\t" << so.shape << "\t" << esc(so.tree) << "\t" << so.w.size();
    put(o.str());
    for (size_t i = 0; i < so.w.size(); ++i) {
      const Walk& w = so.w[i];
      if (w.kind == 'b') put("b"); else if (w.kind == 'e') put("e\t" + esc(w.err));
      else { std::string l = "p"; for (size_t j = 0; j < w.v.size(); ++j) l += "\t" + w.v[j].get_str(); put(l); }
    }
  }
  static bool same_walks(const SolveOut& a, const SolveOut& b, std::string& why, const StageRef& R, const Stage& S) {
    if (a.status != b.status) { why = "status " + std::to_string(a.status) + " vs " + std::to_string(b.status); return false; }
    for (size_t i = 0; i < a.w.size() && i < b.w.size(); ++i) if (!same(a.w[i], b.w[i])) { why = "at " + showpv(S, R.vals[i].pv) + ": " + show(a.w[i]) + " vs " + show(b.w[i]); return false; }
    return true;
  }
  PIP_Problem* build_fresh(int si) {
    const Stage& S = st[si]; std::vector<Constraint> cs; for (size_t i = 0; i < S.all.size(); ++i) cs.push_back(to_ppl(S.all[i]));
    PIP_Problem* p = new PIP_Problem(S.dim, cs.begin(), cs.end(), params_of(S));
    set_strategy(*p, strat); if (S.big >= 0) p->set_big_parameter_dimension(S.big);
    return p;
  }

  // C13.pip.*: copies, assignment, swap. `p` is solved (stage si), `base` are its observations.
  void c13_checks(PIP_Problem& p, int si, const SolveOut& base) {
    const Stage& S = st[si]; const StageRef& R = ref[si]; std::string why; int kind = plan.c13_kind;
    counter("c13.checks");
    if (kind == 0) {            // copy construction + independence of the original
      hx::tr(" [copy-construct, mutate the copy]"); counter("op.copy_construct");
      PIP_Problem q(p); SolveOut so; int s2 = -1;
      if (!q.OK()) { finding("C13.pip.copy_not_OK", "copy of a solved problem fails OK(): " + S.text()); return; }
      if (!guarded_solve(q, s2, "copy")) return;
      observe(q, si, false, s2, so, false);
      if (!same_walks(base, so, why, R, S)) { finding("C13.pip.copy_differs", "copy-constructed problem evaluates differently (" + why + "): " + S.text()); return; }
      if (dump(q) != dump(p)) counter("c13.copy_dump_text_differs");
      q.add_constraint(to_ppl(plan.extra_by_stage[si])); int s3 = -1; if (!guarded_solve(q, s3, "copy_mutated")) return;
      SolveOut again; int s4 = -1; if (!guarded_solve(p, s4, "original_after_copy_mutation")) return; observe(p, si, false, s4, again, false);
      if (!same_walks(base, again, why, R, S)) finding("C13.pip.original_changed_by_copy_mutation", "(" + why + "): " + S.text());
    } else if (kind == 1 || kind == 2) {   // assignment over a solved problem of another shape / self-assignment
      hx::tr(kind == 1 ? " [assign]" : " [self-assign]"); counter(kind == 1 ? "op.assign" : "op.self_assign");
      if (kind == 1) {
        PIP_Problem q(2); q.add_constraint(Variable(0) + Variable(1) >= 1); int sq = -1; if (!guarded_solve(q, sq, "assign_target")) return;
        q = p;
        if (!q.OK()) { finding("C13.pip.assign_not_OK:tree-owner-not-updated", "after `q = p` (p solved, tree non-null: " + std::string(base.status ? "yes" : "no") + ") q.OK() is false: " + S.text()); return; }
        SolveOut so; int s2 = -1; if (!guarded_solve(q, s2, "assigned")) return; observe(q, si, false, s2, so, false);
        if (!same_walks(base, so, why, R, S)) finding("C13.pip.assign_differs", "(" + why + "): " + S.text());
      } else {
        PIP_Problem& r = p; p = r;
        if (!p.OK()) { finding("C13.pip.self_assign_not_OK:tree-owner-not-updated", "after `p = p` p.OK() is false: " + S.text()); throw 1; }
        SolveOut so; int s2 = -1; if (!guarded_solve(p, s2, "self_assigned")) return; observe(p, si, false, s2, so, false);
        if (!same_walks(base, so, why, R, S)) finding("C13.pip.self_assign_differs", "(" + why + "): " + S.text());
      }
    } else {                    // swap with a copy that carries one more constraint
      hx::tr(kind == 3 ? " [m_swap]" : " [swap]"); counter(kind == 3 ? "op.m_swap" : "op.swap");
      PIP_Problem a(p), b(p);
      if (!a.OK() || !b.OK()) { finding("C13.pip.copy_not_OK", S.text()); return; }
      Stage S2 = S; S2.all.push_back(plan.extra_by_stage[si]);
      b.add_constraint(to_ppl(plan.extra_by_stage[si])); int sb = -1; if (!guarded_solve(b, sb, "swap_operand")) return;
      const PIP_Tree_Node* rb = b.solution(); std::vector<Walk> wb; for (size_t vi = 0; vi < R.vals.size(); ++vi) { Walk w; if (R.vals[vi].ctx) w = walk_tree(rb, S, R.vals[vi].pv); wb.push_back(w); }
      if (kind == 3) a.m_swap(b); else { using std::swap; swap(a, b); }
      bool aok = a.OK(), bok = b.OK();
      if (!aok || !bok) { finding(std::string("C13.pip.") + (kind == 3 ? "m_swap" : "swap") + "_not_OK:tree-owner-not-updated", std::string("after swapping two solved problems OK() is ") + (aok ? "true" : "false") + "/" + (bok ? "true" : "false") + ": " + S.text()); return; }
      int sa2 = -1, sb2 = -1; if (!guarded_solve(a, sa2, "swapped") || !guarded_solve(b, sb2, "swapped")) return;
      SolveOut sob; observe(b, si, false, sb2, sob, false);
      if (!same_walks(base, sob, why, R, S)) { finding("C13.pip.swap_differs", "(" + why + "): " + S.text()); return; }
      const PIP_Tree_Node* ra = a.solution();
      for (size_t vi = 0; vi < R.vals.size(); ++vi) if (R.vals[vi].ctx) { Walk w = walk_tree(ra, S, R.vals[vi].pv); if (!same(w, wb[vi]) || sa2 != sb) { finding("C13.pip.swap_differs", "second operand: " + show(w) + " vs " + show(wb[vi]) + ": " + S.text()); return; } }
    }
  }
  // C15.pip.*: ascii_dump / ascii_load round trip incl. the solution tree, then lock-step continuation
  void c15_checks(PIP_Problem& p, int si, bool solved, const SolveOut* base) {
    const Stage& S = st[si]; const StageRef& R = ref[si]; std::string why;
    hx::tr(solved ? " [ascii round trip]" : " [ascii round trip, pending]"); counter("c15.roundtrips");
    std::string t1 = dump(p);
    PIP_Problem l; std::istringstream in(t1);
    bool okl = false;
    try { okl = l.ascii_load(in); } catch (const std::exception& e) { finding("C15.pip.load_threw", std::string(e.what()) + ": " + S.text()); return; }
    if (!okl) { finding(std::string("C15.pip.load_failed") + (solved ? "" : ":pending"), "ascii_load rejected the text produced by ascii_dump: " + S.text() + "\n" + t1); return; }
    if (!l.OK()) { finding("C15.pip.loaded_not_OK", S.text()); return; }
    std::string t2 = dump(l);
    if (t1 != t2) { size_t k = 0; while (k < t1.size() && k < t2.size() && t1[k] == t2[k]) ++k; finding(std::string("C15.pip.redump_differs") + (solved ? "" : ":pending"), "first difference at offset " + std::to_string(k) + ": ..." + t1.substr(k > 60 ? k - 60 : 0, 160) + "... vs ..." + t2.substr(k > 60 ? k - 60 : 0, 160) + "... problem " + S.text()); return; }
    // behaviour of the loaded object
    int sl = -1, sp = -1; if (!guarded_solve(l, sl, "loaded")) return;
    SolveOut sol; observe(l, si, false, sl, sol, false);
    SolveOut mine;
    PIP_Problem c(p);       // the twin of the loaded object goes through exactly the same calls (solve, add_constraint, solve)
    if (!guarded_solve(c, sp, "twin_copy")) return;
    if (base) mine = *base; else observe(c, si, false, sp, mine, false);
    if (!same_walks(mine, sol, why, R, S)) { finding(std::string("C15.pip.loaded_tree_differs") + (solved ? "" : ":pending"), "(" + why + "): " + S.text()); return; }
    // lock-step: same further constraint on the loaded object and on the twin
    c.add_constraint(to_ppl(plan.extra_by_stage[si])); l.add_constraint(to_ppl(plan.extra_by_stage[si]));
    int s1 = -1, s2 = -1; if (!guarded_solve(c, s1, "lockstep") || !guarded_solve(l, s2, "lockstep")) return;
    counter("c15.lockstep_checks");
    const PIP_Tree_Node* rc = c.solution(); const PIP_Tree_Node* rl = l.solution();
    if (s1 != s2) { finding("C15.pip.lockstep_diverged", "status differs after add_constraint(" + show(plan.extra_by_stage[si]) + "): " + S.text()); return; }
    for (size_t vi = 0; vi < R.vals.size(); ++vi) if (R.vals[vi].ctx) { Walk a = walk_tree(rc, S, R.vals[vi].pv), b = walk_tree(rl, S, R.vals[vi].pv); if (!same(a, b)) { finding("C15.pip.lockstep_diverged", "after add_constraint(" + show(plan.extra_by_stage[si]) + ") at " + showpv(S, R.vals[vi].pv) + ": " + show(a) + " vs loaded " + show(b) + ": " + S.text()); return; } }
    if (dump(c) != dump(l)) counter("c15.lockstep_text_diverged");
  }

  // reach counters of the hooks in /repo live in the process that ran the code: a child reports its own
  bool in_child;
  void emit_reach(const std::vector<unsigned long>& before) {
#ifdef BUGSENG_PPL_VERIF
    namespace V = Parma_Polyhedra_Library::Implementation::Verif;
    if (in_child) for (int i = 0; i < V::PPL_VR_COUNT; ++i) if (V::reach[i] > before[i]) counter(std::string("reach.") + V::reach_names[i], V::reach[i] - before[i]);
#endif
  }
  void run() {
    std::vector<unsigned long> before;
#ifdef BUGSENG_PPL_VERIF
    { namespace V = Parma_Polyhedra_Library::Implementation::Verif; before.assign(V::reach, V::reach + V::PPL_VR_COUNT); }
#endif
    run_history();
    emit_reach(before);
  }
  void run_history() {
    PIP_Problem* P = 0;
    struct Del { PIP_Problem*& p; ~Del() { delete p; } } del = { P };
    try {
      const Stage& S0 = st[0];
      hx::tr(" || " + strat_name(strat) + ":");
      if (plan.ctor_kind == 0) { std::vector<Constraint> cs; for (size_t i = 0; i < S0.all.size(); ++i) cs.push_back(to_ppl(S0.all[i])); P = new PIP_Problem(S0.dim, cs.begin(), cs.end(), params_of(S0)); }
      else { P = new PIP_Problem(S0.dim); P->add_to_parameter_space_dimensions(params_of(S0)); for (size_t i = 0; i < S0.all.size(); ++i) P->add_constraint(to_ppl(S0.all[i])); }
      set_strategy(*P, strat);
      if (S0.big >= 0) P->set_big_parameter_dimension(S0.big);
      if (!P->OK()) { finding("C07.ok.after_construction", S0.text()); return; }
      for (size_t si = 0; si < st.size(); ++si) {
        const Stage& S = st[si];
        if (si > 0) {
          hx::tr(" " + S.op);
          if (S.add_vars || S.add_params) P->add_space_dimensions_and_embed(S.add_vars, S.add_params);
          if (!S.to_params.empty()) { Variables_Set v; for (size_t i = 0; i < S.to_params.size(); ++i) v.insert(Variable(S.to_params[i])); P->add_to_parameter_space_dimensions(v); }
          if (S.set_big >= 0) P->set_big_parameter_dimension(S.set_big);
          if (S.op == "add_constraints") { Constraint_System cs; for (size_t i = 0; i < S.cons.size(); ++i) cs.insert(to_ppl(S.cons[i])); P->add_constraints(cs); }
          else for (size_t i = 0; i < S.cons.size(); ++i) P->add_constraint(to_ppl(S.cons[i]));
          if (!P->OK()) { finding("C07.ok.after_" + S.op, S.text()); return; }
          if ((int) P->get_big_parameter_dimension() != (S.big >= 0 ? S.big : (int) not_a_dimension())) finding("C07.api.big_parameter_dimension", S.text());
        }
        if (plan.c15_stage == (int) si && plan.c15_kind == 1) c15_checks(*P, si, false, 0);
        hx::tr(" solve#" + std::to_string(si));
        int status = -1;
        if (!guarded_solve(*P, status, si == 0 ? "initial" : "incremental." + S.op)) return;
        SolveOut so;
        if (!observe(*P, si, false, status, so, true)) { finding("C07.ok.after_solve" + std::string(si ? "." + S.op : ""), S.text()); return; }
        if (si > 0) {
          hx::tr(" fresh#" + std::to_string(si));
          PIP_Problem* F = build_fresh(si); struct DelF { PIP_Problem* p; ~DelF() { delete p; } } delf = { F };
          int fs = -1; if (!guarded_solve(*F, fs, "fresh")) return;
          SolveOut fo; if (!observe(*F, si, true, fs, fo, true)) { finding("C07.ok.after_solve", S.text()); return; }
        }
        if (plan.c15_stage == (int) si && plan.c15_kind == 0) c15_checks(*P, si, true, &so);
        if (plan.c13_stage == (int) si) c13_checks(*P, si, so);
      }
      put("Z");
    } catch (int) { /* object declared unusable by a finding */ }
    catch (const Logical_Timeout&) { finding("C07.hang.walk:" + strat_name(strat), "logical-time budget exceeded outside solve()"); }
    catch (const std::exception& e) { finding(std::string("C07.unexpected_exception.") + typeid(e).name(), e.what()); }
  }
};

// ---------------- record parser ----------------
static std::vector<std::string> split_tab(const std::string& s) { std::vector<std::string> v; size_t p = 0; for (;;) { size_t q = s.find('\t', p); if (q == std::string::npos) { v.push_back(s.substr(p)); break; } v.push_back(s.substr(p, q - p)); p = q + 1; } return v; }
static void parse_records(const std::vector<std::string>& lines, StratOut& out) {
  for (size_t i = 0; i < lines.size(); ++i) {
    std::vector<std::string> f = split_tab(lines[i]);
    if (f[0] == "Z") out.complete = true;
    else if (f[0] == "F" && f.size() >= 3) { Finding x; x.key = unesc(f[1]); x.detail = unesc(f[2]); out.findings.push_back(x); }
    else if (f[0] == "C" && f.size() >= 3) out.counters[f[1]] += strtoul(f[2].c_str(), 0, 10);
    else if (f[0] == "I") ++out.inconclusive;
    else if (f[0] == "S" && f.size() >= 8) {
      SolveOut so; so.stage = atoi(f[1].c_str()); so.fresh = f[2] == "1"; so.status = atoi(f[3].c_str()); so.ok = f[4] == "1"; so.shape = f[5]; so.tree = unesc(f[6]);
      size_t nw = strtoul(f[7].c_str(), 0, 10); bool torn = false;
      for (size_t k = 0; k < nw; ++k) {
        if (++i >= lines.size()) { torn = true; break; }
        std::vector<std::string> g = split_tab(lines[i]); Walk w;
        if (g[0] == "b") w.kind = 'b'; else if (g[0] == "e") { w.kind = 'e'; w.err = g.size() > 1 ? unesc(g[1]) : ""; }
        else if (g[0] == "p") { w.kind = 'p'; for (size_t j = 1; j < g.size(); ++j) w.v.push_back(ZZ(g[j])); }
        else { torn = true; break; }
        so.w.push_back(w);
      }
      if (!torn) out.solves.push_back(so);
    }
  }
}

// ---------------- forked execution (PIVOT_ROW_STRATEGY_MAX_COLUMN) ----------------
struct ChildEnd { bool hang, crashed; std::string cls, report; ChildEnd() : hang(false), crashed(false) {} };
static std::string san_class(const std::string& err, int status) {
  std::string kind; std::string frame;
  std::istringstream in(err); std::string l;
  while (std::getline(in, l)) {
    size_t p;
    if (kind.empty() && (p = l.find("ERROR: AddressSanitizer: ")) != std::string::npos) { size_t b = p + 25, e = l.find_first_of(" \r\n", b); kind = l.substr(b, e == std::string::npos ? e : e - b); }
    if (kind.empty() && (p = l.find("runtime error: ")) != std::string::npos) {
      std::string msg = l.substr(p + 15), file = l.substr(0, l.find(':')); size_t sl = file.rfind('/'); if (sl != std::string::npos) file = file.substr(sl + 1);
      std::string what = msg.find("null pointer") != std::string::npos ? "null-pointer" : msg.find("overflow") != std::string::npos ? "overflow" : msg.find("out of bounds") != std::string::npos ? "out-of-bounds" : "other";
      kind = "ubsan." + what + "@" + file; frame = "-";     // (stack frames depend on UBSAN_OPTIONS: not used in the key)
    }
    if (frame.empty() && l.find(" in ") != std::string::npos && l.find("/repo/src/") != std::string::npos && l.find("#") != std::string::npos) {
      size_t b = l.find(" in ") + 4, e = l.find_first_of("( ", b); std::string fn = l.substr(b, e == std::string::npos ? e : e - b);
      size_t ns; while ((ns = fn.find("Parma_Polyhedra_Library::")) != std::string::npos) fn.erase(ns, 25);
      frame = fn;
    }
  }
  if (kind.empty()) { if (WIFSIGNALED(status)) kind = "signal" + std::to_string(WTERMSIG(status)); else kind = "exit" + std::to_string(WEXITSTATUS(status)); }
  return (frame.empty() || frame == "-") ? kind : kind + "@" + frame;
}
// Runs `body(strategy, put)` for each strategy of `group` in ONE forked child (the CPU-time alarm is re-armed per strategy).
// Returns the index in `group` of the strategy during which the child died (group.size() if it ended normally).
static size_t run_group_in_child(const std::vector<int>& group, const std::function<void(int, const Put&)>& body, std::vector<StratOut>& out, ChildEnd& end, int cpu_secs) {
  int po[2], pe[2];
  if (pipe(po) || pipe(pe)) { hx::violation("harness.bug.pipe", strerror(errno)); return group.size(); }
  fflush(0);
  pid_t pid = fork();
  if (pid < 0) { hx::violation("harness.bug.fork", strerror(errno)); return group.size(); }
  if (pid == 0) {
    close(po[0]); close(pe[0]); dup2(pe[1], 2);
    if (__sanitizer_set_report_path) __sanitizer_set_report_path("stderr");
    signal(SIGVTALRM, SIG_DFL); signal(SIGALRM, SIG_DFL);
    int fd = po[1];
    Put put = [fd](const std::string& l) { std::string s = l + "\n"; size_t o = 0; while (o < s.size()) { ssize_t k = write(fd, s.data() + o, s.size() - o); if (k <= 0) _exit(3); o += k; } };
    for (size_t g = 0; g < group.size(); ++g) {
      struct itimerval it; memset(&it, 0, sizeof it); it.it_value.tv_sec = cpu_secs; setitimer(ITIMER_VIRTUAL, &it, 0);
      alarm(cpu_secs * 10 + 20);
      put("G\t" + std::to_string(g));
      body(group[g], put);
    }
    _exit(0);
  }
  close(po[1]); close(pe[1]);
  std::string so, se; struct pollfd fds[2] = { { po[0], POLLIN, 0 }, { pe[0], POLLIN, 0 } }; int open_n = 2; char buf[8192];
  while (open_n > 0) {
    int r = poll(fds, 2, -1); if (r < 0) { if (errno == EINTR) continue; break; }
    for (int k = 0; k < 2; ++k) if (fds[k].fd >= 0 && (fds[k].revents & (POLLIN | POLLHUP | POLLERR))) {
      ssize_t n = read(fds[k].fd, buf, sizeof buf);
      if (n > 0) (k == 0 ? so : se).append(buf, n); else { close(fds[k].fd); fds[k].fd = -1; --open_n; }
    }
  }
  for (int k = 0; k < 2; ++k) if (fds[k].fd >= 0) close(fds[k].fd);
  int status = 0; while (waitpid(pid, &status, 0) < 0 && errno == EINTR) {}
  std::vector<std::vector<std::string> > lines(group.size()); long cur = -1;
  { size_t p = 0; for (;;) { size_t q = so.find('\n', p); if (q == std::string::npos) break; std::string l = so.substr(p, q - p); p = q + 1;
      if (l.compare(0, 2, "G\t") == 0) cur = atol(l.c_str() + 2); else if (cur >= 0 && cur < (long) group.size()) lines[cur].push_back(l); } }
  for (size_t g = 0; g < group.size(); ++g) parse_records(lines[g], out[group[g]]);
  if (hx::opt().verbose && !se.empty()) fputs(se.c_str(), stderr);
  if (WIFEXITED(status) && WEXITSTATUS(status) == 0) return group.size();
  if (WIFSIGNALED(status) && (WTERMSIG(status) == SIGVTALRM || WTERMSIG(status) == SIGALRM)) { end.hang = true; end.report = se.size() > 600 ? se.substr(se.size() - 600) : se; }
  else { end.crashed = true; end.cls = san_class(se, status); size_t e = se.find("ERROR: "); if (e == std::string::npos) e = se.find("runtime error"); if (e == std::string::npos) e = 0; else e = se.rfind('\n', e) == std::string::npos ? 0 : se.rfind('\n', e) + 1; end.report = se.substr(e, 1500); }
  return cur < 0 ? 0 : (size_t) cur;
}

// ===================================================================================================
// Case generation.
// ===================================================================================================
static int nz(int m) { int v = rnd(1, m); return coin() ? v : -v; }
static std::vector<int> g_wit;   // hidden witness point (variables and parameters): most constraints are made to hold there, so that most problems are feasible somewhere
static int wit_dot(const ICon& c) { int s = 0; for (size_t i = 0; i < c.a.size() && i < g_wit.size(); ++i) s += c.a[i] * g_wit[i]; return s; }
static ICon gen_con(int dim, const std::vector<char>& isp, const std::vector<int>& must /* dims at least one of which must occur (may be empty) */) {
  while ((int) g_wit.size() < dim) g_wit.push_back(isp[g_wit.size()] ? rnd(0, 3) : rnd(0, 2));
  std::vector<int> V, P; for (int i = 0; i < dim; ++i) (isp[i] ? P : V).push_back(i);
  for (int attempt = 0; ; ++attempt) {
    ICon c; c.a.assign(dim, 0);
    int kind = rnd(0, 99); bool use_v = kind < 82 && !V.empty(), use_p = (kind < 68 || kind >= 82) && !P.empty();
    if (!use_v && !use_p) { use_v = !V.empty(); use_p = V.empty(); }
    if (use_v) { for (size_t i = 0; i < V.size(); ++i) if (!coin(35)) c.a[V[i]] = nz(3); bool any = false; for (size_t i = 0; i < V.size(); ++i) if (c.a[V[i]]) any = true; if (!any) c.a[V[rnd(0, V.size() - 1)]] = nz(3); }
    if (use_p) { for (size_t i = 0; i < P.size(); ++i) if (!coin(40)) c.a[P[i]] = nz(3); }
    c.b = rnd(-4, 4);
    int r = rnd(0, 99); c.rel = r < 62 ? 0 : r < 86 ? 1 : 2;
    int fl = rnd(0, 99); bool fit = coin(72);
    if (use_v && use_p && fl < 28) {          // parametric part: all signs equal, zero constant
      int sg = coin() ? 1 : -1; bool any = false;
      for (size_t i = 0; i < P.size(); ++i) { c.a[P[i]] = sg * std::abs(c.a[P[i]]); if (c.a[P[i]]) any = true; }
      if (!any) c.a[P[rnd(0, P.size() - 1)]] = sg * rnd(1, 3);
      c.b = 0; fit = false;
    } else if (use_v && fl < 45) {            // parity obstruction: even variable coefficients (Gomory cuts)
      bool any = false; for (size_t i = 0; i < V.size(); ++i) { if (c.a[V[i]]) { c.a[V[i]] = 2 * (c.a[V[i]] > 0 ? 1 : -1); any = true; } }
      if (!any) c.a[V[0]] = 2;
      if (coin(70)) c.rel = 1;
      if (coin(50)) fit = false;
    } else if (fl < 50) { c.b = 0; fit = false; }
    if (!must.empty()) { bool hit = false; for (size_t i = 0; i < must.size(); ++i) if (c.a[must[i]]) hit = true; if (!hit) { if (attempt < 8) continue; c.a[must[rnd(0, must.size() - 1)]] = nz(3); } }
    if (fit) { int d = wit_dot(c); c.b = c.rel == 1 ? -d : c.rel == 0 ? -d + (coin(40) ? 0 : rnd(0, 3)) : -d + rnd(1, 3); }
    return c;
  }
}
static void gen_bounds(int dim, const std::vector<char>& isp, const std::vector<int>& vars, std::vector<ICon>& out) {
  std::vector<int> P; for (int i = 0; i < dim; ++i) if (isp[i]) P.push_back(i);
  for (size_t i = 0; i < vars.size(); ++i) {
    ICon c; c.a.assign(dim, 0); c.a[vars[i]] = -1; c.rel = 0;
    if (!P.empty() && coin(35)) { c.a[P[rnd(0, P.size() - 1)]] = rnd(1, 2); c.b = rnd(0, 3); } else c.b = rnd(1, 6);
    out.push_back(c);
  }
}
static void widen(std::vector<ICon>& cs, int dim) { for (size_t i = 0; i < cs.size(); ++i) cs[i].a.resize(dim, 0); }

static void generate(std::vector<Stage>& st, Plan& plan) {
  const std::string& profile = hx::opt().profile; g_wit.clear();
  Stage s; s.op = "init";
  int nv = rnd(1, 3), k = rnd(0, 99), np = k < 18 ? 0 : k < 55 ? 1 : k < 85 ? 2 : 3;
  s.dim = nv + np; s.is_param.assign(s.dim, 0);
  if (coin(70)) for (int i = nv; i < s.dim; ++i) s.is_param[i] = 1;      // trailing parameters (the usual layout)
  else { int left = np; while (left > 0) { int d = rnd(0, s.dim - 1); if (!s.is_param[d]) { s.is_param[d] = 1; --left; } } }
  int m = rnd(1, 5);
  for (int i = 0; i < m; ++i) s.all.push_back(gen_con(s.dim, s.is_param, std::vector<int>()));
  if (coin(22) && !s.all.empty()) s.all.push_back(s.all[rnd(0, s.all.size() - 1)]);   // duplicated constraint
  if (coin(45)) gen_bounds(s.dim, s.is_param, s.vars(), s.all);
  if (np > 0 && coin(25)) { std::vector<int> P = s.pars(); s.big = s.set_big = P[rnd(0, P.size() - 1)];
    if (coin(60)) { std::vector<int> V = s.vars(); ICon c; c.a.assign(s.dim, 0); int v = V[rnd(0, V.size() - 1)]; c.a[s.big] = 1; c.a[v] = -1; c.rel = 0; if (V.size() > 1 && coin()) c.a[V[rnd(0, V.size() - 1)]] += rnd(-2, 2); c.b = rnd(-3, 3); s.all.push_back(c); } }   // the documented use: x' = M - x
  s.cons = s.all;
  st.push_back(s);
  int extra = rnd(0, 99); int ns = extra < 30 ? 0 : extra < 72 ? 1 : 2;
  for (int e = 0; e < ns; ++e) {
    Stage t = st.back(); t.cons.clear(); t.add_vars = t.add_params = 0; t.to_params.clear(); t.set_big = -1;
    int nvars = t.vars().size(), npars = t.pars().size();
    int o = rnd(0, 99);
    if (o < 35) { t.op = "add_constraint"; t.cons.push_back(gen_con(t.dim, t.is_param, std::vector<int>())); }
    else if (o < 55) { t.op = "add_constraints"; int c = rnd(1, 3); for (int i = 0; i < c; ++i) t.cons.push_back(gen_con(t.dim, t.is_param, std::vector<int>())); }
    else {
      bool viaset = o >= 80; int av = 0, ap = 0; std::vector<int> fresh;
      if (!viaset) { t.op = "add_dims"; av = nvars < 4 ? rnd(0, 1) : 0; ap = npars < 4 ? rnd(0, 1) : 0; if (av + ap == 0) { if (nvars < 4) av = 1; else if (npars < 4) ap = 1; }
        t.add_vars = av; t.add_params = ap; for (int i = 0; i < av; ++i) { t.is_param.push_back(0); fresh.push_back(t.dim++); } for (int i = 0; i < ap; ++i) { t.is_param.push_back(1); fresh.push_back(t.dim++); } }
      else { t.op = "add_params"; int tot = (nvars < 4 && npars < 3) ? rnd(1, 2) : 1; if (npars >= 4) { tot = nvars < 4 ? 1 : 0; }
        t.add_vars = tot; for (int i = 0; i < tot; ++i) { t.is_param.push_back(0); fresh.push_back(t.dim++); }
        if (npars < 4 && tot > 0) { int which = fresh[rnd(0, fresh.size() - 1)]; t.to_params.push_back(which); t.is_param[which] = 1; } }
      if (fresh.empty()) { t.op = "add_constraint"; t.cons.push_back(gen_con(t.dim, t.is_param, std::vector<int>())); }
      else {
        widen(t.all, t.dim);
        int c = rnd(0, 2); for (int i = 0; i < c; ++i) t.cons.push_back(gen_con(t.dim, t.is_param, fresh));
        if (t.big < 0 && coin(25)) for (size_t i = 0; i < fresh.size(); ++i) if (t.is_param[fresh[i]]) { t.big = t.set_big = fresh[i]; break; }
      }
    }
    for (size_t i = 0; i < t.cons.size(); ++i) t.all.push_back(t.cons[i]);
    st.push_back(t);
  }
  plan.ctor_kind = coin(30) ? 1 : 0;
  int p13 = profile == "alias" ? 100 : 35, p15 = profile == "ascii" ? 100 : 35;
  if (coin(p13)) { plan.c13_stage = rnd(0, st.size() - 1); plan.c13_kind = rnd(0, 4); }
  if (coin(p15)) { plan.c15_stage = rnd(0, st.size() - 1); plan.c15_kind = coin(30) ? 1 : 0; }
  for (size_t i = 0; i < st.size(); ++i) plan.extra_by_stage.push_back(gen_con(st[i].dim, st[i].is_param, std::vector<int>()));
}

// ===================================================================================================
// Judging what the six runs observed.
// ===================================================================================================
// Triage class of a wrongly reported bottom (deterministic predicate on the input and the failing valuation).
static std::string bottom_class(const Stage& S, const ZVec& pv) {
  bool some_zero = false; std::vector<int> P = S.pars();
  for (size_t i = 0; i < P.size(); ++i) if (pv[P[i]] == 0) some_zero = true;
  for (size_t i = 0; i < S.all.size(); ++i) {
    const ICon& c = S.all[i]; bool has_var = false; for (int d = 0; d < (int) c.a.size(); ++d) if (c.a[d] && !S.is_param[d]) has_var = true;
    if (!has_var) continue;
    for (int sg = 1; sg >= -1; sg -= 2) {
      if (sg == -1 && c.rel != 1) break;
      bool nonpos = true, anyneg = false; ZZ val = sg * c.b - (c.rel == 2 ? 1 : 0);
      if (val > 0) continue;
      for (int d = 0; d < (int) c.a.size(); ++d) if (c.a[d] && S.is_param[d]) { int a = sg * c.a[d]; if (a > 0) nonpos = false; else anyneg = true; val += a * pv[d]; }
      if (nonpos && anyneg && val == 0) return "row-nonpositive-params";
    }
  }
  return some_zero ? "some-parameter-zero" : "other";
}

struct Verdict { bool bad; std::string what, cls, detail; Verdict() : bad(false) {} };
static Verdict judge_solve(const Stage& S, const StageRef& R, const SolveOut& so) {
  Verdict v; const std::string mon = S.big >= 0 ? "bigparam" : "tree";
  std::string small_m_fail;
  for (size_t vi = 0; vi < R.vals.size() && vi < so.w.size(); ++vi) {
    const RefVal& rv = R.vals[vi]; if (!rv.ctx) continue;
    const Walk& w = so.w[vi];
    std::string what, cls, why;
    if (w.kind == 'e') { what = "malformed." + w.err; why = "the documented walk cannot be carried out"; }
    else if (rv.st == ilp::CAP) { hx::checked(); continue; }
    else {
      hx::checked();
      if (w.kind == 'p') { bool neg = false; for (size_t j = 0; j < w.v.size(); ++j) if (w.v[j] < 0) neg = true; if (neg) { what = "negative_value"; why = "solution node yields a negative variable value"; } }
      if (what.empty()) {
        if (w.kind == 'b' && rv.st == ilp::OPT) {
          what = "bottom_but_feasible"; cls = bottom_class(S, rv.pv); why = "reference point " + showz(rv.pt) + " satisfies every constraint";
          if (S.big >= 0) for (size_t o = 0; o < R.vals.size(); ++o) {      // does feasibility depend on the residue of the big parameter?
            const RefVal& ov = R.vals[o]; if (o == vi || !ov.ctx || ov.mclass != 2 || ov.st != ilp::INFEAS) continue;
            bool same_small = true; for (int d = 0; d < S.dim; ++d) if (d != S.big && ov.pv[d] != rv.pv[d]) same_small = false;
            if (same_small) { cls = "feasibility-depends-on-residue-of-big-parameter"; break; }
          }
        }
        else if (w.kind == 'p' && rv.st == ilp::INFEAS) {
          if (point_ok(S, rv.pv, w.v)) { hx::violation("harness.bug.reference_infeasible_but_tree_point_valid", S.text() + " at " + showpv(S, rv.pv) + " tree=" + showz(w.v)); v.bad = true; v.what = "harness"; return v; }
          what = "point_but_infeasible"; why = "no non-negative integer point exists";
        }
        else if (w.kind == 'p' && rv.st == ilp::OPT && w.v != rv.pt) {
          if (!point_ok(S, rv.pv, w.v)) { what = "point_outside_region"; why = "the tree's point violates a constraint; lexmin is " + showz(rv.pt); }
          else if (lexcmp(w.v, rv.pt) < 0) { hx::violation("harness.bug.reference_not_minimal", S.text() + " at " + showpv(S, rv.pv) + " tree=" + showz(w.v) + " ref=" + showz(rv.pt)); v.bad = true; v.what = "harness"; return v; }
          else { what = "not_lexmin"; why = "feasible but lexicographically greater than " + showz(rv.pt); }
        }
      }
    }
    if (what.empty()) continue;
    if (rv.mclass == 1) { if (small_m_fail.empty()) small_m_fail = what; continue; }     // big parameter not yet "sufficiently large": not a refutation
    v.bad = true; v.what = mon + "." + what; v.cls = cls;
    v.detail = S.text() + " | at " + showpv(S, rv.pv) + " the tree gives " + show(w) + ": " + why + " | tree:\n" + so.tree;
    return v;
  }
  if (!small_m_fail.empty()) hx::inconclusive("bigparam_fails_only_for_small_M." + small_m_fail);
  // overall status
  if (so.status == 0) {
    if (R.any_feasible) { for (size_t vi = 0; vi < R.vals.size(); ++vi) if (R.vals[vi].ctx && R.vals[vi].st == ilp::OPT && R.vals[vi].mclass != 1) { v.bad = true; v.what = "status.unfeasible_but_feasible"; v.cls = bottom_class(S, R.vals[vi].pv); v.detail = S.text() + " | solve() says UNFEASIBLE but at " + showpv(S, R.vals[vi].pv) + " the point " + showz(R.vals[vi].pt) + " is feasible"; return v; } }
    else if (R.joint == ilp::OPT) { ZVec pv = R.jointpt; v.bad = true; v.what = "status.unfeasible_but_feasible"; v.cls = bottom_class(S, pv); v.detail = S.text() + " | solve() says UNFEASIBLE but (variables and parameters) = " + showz(R.jointpt) + " satisfies every constraint"; return v; }
  } else if (so.status == 1 && S.big < 0 && R.joint == ilp::INFEAS) {
    v.bad = true; v.what = "status.optimized_but_never_feasible"; v.detail = S.text() + " | solve() says OPTIMIZED but no non-negative integer (variables, parameters) point satisfies the constraints | tree:\n" + so.tree; return v;
  }
  hx::checked();
  return v;
}

static const SolveOut* find_solve(const StratOut& o, int stage, bool fresh) { for (size_t i = 0; i < o.solves.size(); ++i) if (o.solves[i].stage == stage && o.solves[i].fresh == fresh) return &o.solves[i]; return 0; }

static void run_case(uint64_t) {
  std::vector<Stage> st; Plan plan;
  generate(st, plan);
  { std::ostringstream o; o << "PIP " << st[0].text() << (plan.ctor_kind ? " (built by add_*)" : "");
    for (size_t i = 1; i < st.size(); ++i) { const Stage& S = st[i]; o << " ; then " << S.op; if (S.add_vars || S.add_params) o << " embed(" << S.add_vars << "," << S.add_params << ")"; if (!S.to_params.empty()) o << " to_params{" << vname(S.to_params[0]) << "}"; if (S.set_big >= 0) o << " big=" << vname(S.set_big); o << " {"; for (size_t j = 0; j < S.cons.size(); ++j) o << (j ? "; " : "") << show(S.cons[j]); o << "}"; }
    hx::tr(o.str()); }
  hx::count("cases"); hx::count(st[0].big >= 0 ? "mode.bigparam" : "mode.plain");
  for (size_t i = 1; i < st.size(); ++i) hx::count("op." + st[i].op);
  // reference values, once per stage
  std::vector<StageRef> ref(st.size());
  for (size_t i = 0; i < st.size(); ++i) { compute_reference(st[i], ref[i]); if (hx::st().case_tainted) return; }
  // the six strategy runs. Default: all of them in one forked child (the pinned tree also dies under PIVOT_ROW_STRATEGY_FIRST,
  // and one fork per case costs nothing measurable); --kv inproc=1 keeps the PIVOT_ROW_STRATEGY_FIRST runs in this process.
  const bool fork_maxcol = hx::opt().geti("nofork", 0) == 0, fork_all = hx::opt().geti("inproc", 0) == 0; const int nstrat = hx::opt().geti("maxcol", 1) ? 6 : 3;
  std::vector<StratOut> out(6);
  std::vector<int> forked;
  for (int s = 0; s < nstrat; ++s) {
    hx::count("runs." + strat_name(s));
    if ((s >= 3 && fork_maxcol) || fork_all) { forked.push_back(s); continue; }
    std::vector<std::string> lines;
    Runner r(st, ref, plan, s, [&](const std::string& l) { lines.push_back(l); }); r.run();
    parse_records(lines, out[s]);
  }
  while (!forked.empty()) {        // one child for the whole group; a new child for what is left after a death
    ChildEnd end; hx::count("child.forks");
    { std::string names; for (size_t g = 0; g < forked.size(); ++g) names += (g ? ", " : "") + strat_name(forked[g]); hx::tr(" || in a forked child, same history: " + names); }
    size_t died = run_group_in_child(forked, [&](int s, const Put& put) { Runner r(st, ref, plan, s, put, true); r.run(); }, out, end, (int) hx::opt().geti("alarm", 5));
    if (died >= forked.size()) break;
    int s = forked[died]; const std::string site = s >= 3 ? "max_column" : "pivot_first";
    size_t done = out[s].solves.size(); const Stage& at = st.back();
    if (end.hang) { hx::count("child.hang"); hx::violation("C07.hang." + site, strat_name(s) + ": no answer within the CPU-time limit (a loop without abandonment checkpoint) | solves completed: " + std::to_string(done) + " | history ends as " + at.text() + " | " + end.report); }
    else { hx::count("child.crash"); hx::violation("C07.crash." + site + ":" + end.cls, strat_name(s) + " | solves completed: " + std::to_string(done) + " | history ends as " + at.text() + " | " + end.report); }
    forked.erase(forked.begin(), forked.begin() + died + 1);
    if (end.hang) { hx::count("child.skipped_after_hang", forked.size()); forked.clear(); }   // the remaining settings share the looping code: do not pay the alarm again
  }
  for (int s = 0; s < nstrat; ++s) { for (std::map<std::string, unsigned long>::iterator c = out[s].counters.begin(); c != out[s].counters.end(); ++c) hx::count(c->first, c->second); hx::st().inconclusive += out[s].inconclusive; }
  // findings raised by the runs themselves (C13 / C15 / OK / exceptions / logical hangs)
  // (a finding about a copy / loaded twin does not invalidate the monitored problem itself: only C07.* findings end the case)
  bool stop = false; std::set<std::string> seen;
  for (int s = 0; s < nstrat; ++s) for (size_t i = 0; i < out[s].findings.size(); ++i) {
    const Finding& f = out[s].findings[i];
    if (seen.insert(f.key).second) hx::violation(f.key, strat_name(s) + " | " + f.detail);
    if (f.key.compare(0, 4, "C07.") == 0) stop = true;
  }
  if (stop) return;
  // trees against the reference, stage by stage
  for (size_t si = 0; si < st.size(); ++si) {
    const Stage& S = st[si]; const StageRef& R = ref[si];
    bool base_ok = false;
    for (int s = 0; s < nstrat; ++s) {             // fresh problems (stage 0: the problem itself)
      const SolveOut* so = find_solve(out[s], si, si > 0); if (!so) continue;
      hx::count("solves"); hx::count(so->status ? "status.optimized" : "status.unfeasible");
      for (size_t vi = 0; vi < so->w.size(); ++vi) if (R.vals[vi].ctx) hx::count(so->w[vi].kind == 'p' ? "walk.point" : so->w[vi].kind == 'b' ? "walk.bottom" : "walk.error");
      if (so->shape != "D0A0B0") hx::distinct(strat_name(s) + "|" + S.op + "|nv" + std::to_string(S.vars().size()) + "|np" + std::to_string(S.pars().size()) + (S.big >= 0 ? "|big|" : "|") + so->shape);
      Verdict v = judge_solve(S, R, *so);
      if (v.what == "harness") return;
      if (s == 0) base_ok = !v.bad;
      if (v.bad) {
        std::string key = (s > 0 && base_ok) ? "C07.strategy_disagree." + strat_name(s) + "." + v.what : "C07." + v.what;
        if (!v.cls.empty()) key += ":" + v.cls;
        hx::violation(key, strat_name(s) + " | " + v.detail); return;
      }
    }
    if (si > 0) for (int s = 0; s < nstrat; ++s) {  // the incrementally updated problem
      const SolveOut* so = find_solve(out[s], si, false); if (!so) continue;
      hx::count("solves.incremental");
      Verdict v = judge_solve(S, R, *so);
      if (v.what == "harness") return;
      if (v.bad) {
        std::string coarse = v.what.find("malformed") != std::string::npos ? "malformed_tree" : v.what.find("status.") != std::string::npos ? "status" : "wrong_answer";
        std::string key = "C07.incremental_vs_fresh." + S.op + "." + coarse;
        const SolveOut* prev = find_solve(out[s], si - 1, false);     // triage class: what the tree looked like before the update
        std::string pc = !prev ? "prior-unknown" : prev->status == 0 ? "prior-unfeasible" : prev->shape.find("A0") == std::string::npos ? "prior-tree-has-artificials" : prev->shape.find("D0") == std::string::npos ? "prior-tree-has-decisions" : "prior-tree-plain";
        key += ":" + pc; v.detail = "[" + v.what + (v.cls.empty() ? "" : ":" + v.cls) + "] " + v.detail; hx::violation(key, strat_name(s) + " | the fresh problem is right, the incrementally updated one is not | " + v.detail); return; }
    }
    // differential where the reference was inconclusive
    for (size_t vi = 0; vi < R.vals.size(); ++vi) if (R.vals[vi].ctx && R.vals[vi].st == ilp::CAP) {
      const SolveOut* b = find_solve(out[0], si, si > 0); if (!b || vi >= b->w.size()) break;
      for (int s = 0; s < nstrat; ++s) for (int fr = 0; fr < 2; ++fr) {
        if (si == 0 && fr == 1) continue;
        const SolveOut* so = find_solve(out[s], si, fr == 1); if (!so || so == b || vi >= so->w.size()) continue;
        hx::checked(); hx::count("differential_checks");
        if (!same(so->w[vi], b->w[vi])) { hx::violation(fr == 1 || si == 0 ? "C07.strategy_disagree." + strat_name(s) + ".differential" : "C07.incremental_vs_fresh." + S.op + ".differential", S.text() + " at " + showpv(S, R.vals[vi].pv) + ": " + show(so->w[vi]) + " vs " + show(b->w[vi]) + " (reference inconclusive)"); return; }
      }
    }
  }
}

int main(int argc, char** argv) {
  signal(SIGPIPE, SIG_IGN);
  return hx::main_loop(argc, argv, run_case, []() {
    hx::count("lp_solves", ref::lp_counters().solves); hx::count("lp_pivots", ref::lp_counters().pivots);
    hx::count("ilp.solves", ilp::stats().ilps); hx::count("ilp.nodes", ilp::stats().nodes); hx::count("ilp.caps", ilp::stats().caps); hx::count("ilp.row_branchings", ilp::stats().row_branchings);
  });
}
