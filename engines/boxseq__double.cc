// boxseq: instantiation of the box adapter for Parma_Polyhedra_Library::Double_Box (see boxseq.hh).
#include "boxseq.hh"
BOXSEQ_REGISTER(double, 9, Parma_Polyhedra_Library::Double_Box)
