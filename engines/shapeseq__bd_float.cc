// shapeseq: instantiation of the shape adapter for BD_Shape<float> (see shapeseq.hh).
#include "shapeseq.hh"
SHAPESEQ_REGISTER(bd_float, Parma_Polyhedra_Library::BD_Shape<float>)
