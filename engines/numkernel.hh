// numkernel — shared part: exact extended-rational oracle for PPL's checked-number kernel (property C11).
//
// Every checked operation  r = op_assign_r(to, x[, y], dir)  is judged against the exact mathematical
// result e (an extended rational, possibly a square root) computed with GMP only:
//   rel   the relation bits of r must contain the true relation  e REL stored(to)
//   dir   ROUND_UP never stores below e, ROUND_DOWN never above; with ROUND_STRICT_RELATION the relation is one of =,<,>
//   ovf   overflow codes / infinities only when e is really outside the finite range of the destination, on that side;
//         V_UNKNOWN_{NEG,POS}_OVERFLOW only when the intermediate product of a fused op really overflows on that side
//   nan   undefined inputs (fed only to policies that declare the matching check_* flag) give a VC_NAN result,
//         defined inputs never do
// Oracles never use floating point: float operands are decoded from their bit patterns into mpq_class.
#ifndef NUMKERNEL_HH
#define NUMKERNEL_HH
#include "pplx.hh"
#include <gmpxx.h>
#include <unordered_set>
#include <sys/wait.h>
#include <type_traits>
#include <limits>

namespace nk {
using namespace Parma_Polyhedra_Library;
typedef mpq_class Q;
typedef mpz_class Z;

// ---------------------------------------------------------------- policies
// Clone of Bounded_Integer_Coefficient_Policy (only declared in checked-integer builds; values copied from
// src/Coefficient_types.hh, handle_result from src/Coefficient_inlines.hh).
struct Bounded_Policy {
  const_bool_nodef(check_overflow, true);
  const_bool_nodef(check_inf_add_inf, false);
  const_bool_nodef(check_inf_sub_inf, false);
  const_bool_nodef(check_inf_mul_zero, false);
  const_bool_nodef(check_div_zero, false);
  const_bool_nodef(check_inf_div_inf, false);
  const_bool_nodef(check_inf_mod, false);
  const_bool_nodef(check_sqrt_neg, false);
  const_bool_nodef(has_nan, false);
  const_bool_nodef(has_infinity, false);
  const_bool_nodef(convertible, true);
  const_bool_nodef(check_fpu_inexact, false);
  const_bool_nodef(check_fpu_nan_result, true);
  static const Rounding_Dir ROUND_DEFAULT_CONSTRUCTOR = ROUND_NATIVE;
  static const Rounding_Dir ROUND_DEFAULT_OPERATOR = ROUND_NATIVE;
  static const Rounding_Dir ROUND_DEFAULT_INPUT = ROUND_NATIVE;
  static const Rounding_Dir ROUND_DEFAULT_OUTPUT = ROUND_NATIVE;
  static const Rounding_Dir ROUND_DEFAULT_FUNCTION = ROUND_NATIVE;
  static void handle_result(Result r) { if (result_overflow(r) || result_class(r) == VC_NAN) throw_result_exception(r); }
};
typedef Debug_WRD_Extended_Number_Policy PX;   // every check on, has nan and infinities
typedef WRD_Extended_Number_Policy PW;         // production policy of the weakly-relational domains
typedef Extended_Number_Policy PE;             // the extended-number policy
typedef Bounded_Policy PB;                     // bounded coefficients

// ---------------------------------------------------------------- exact extended values
struct XQ {
  enum K { FIN = 0, MINF = 1, PINF = 2, NaN = 3 };
  K k; Q q; bool root;   // FIN && root: the value is sqrt(q), q >= 0
  XQ() : k(FIN), q(0), root(false) {}
  explicit XQ(const Q& v) : k(FIN), q(v), root(false) {}
  explicit XQ(Q&& v) : k(FIN), q(std::move(v)), root(false) {}
  explicit XQ(K kk) : k(kk), q(0), root(false) {}
  bool fin() const { return k == FIN; }
  bool inf() const { return k == MINF || k == PINF; }
  bool nan() const { return k == NaN; }
  int isgn() const { return k == MINF ? -1 : k == PINF ? 1 : 0; }
  int sgn() const { return k == MINF ? -1 : k == PINF ? 1 : ::sgn(q); }   // not for NaN
};
inline XQ xinf(int s) { return XQ(s < 0 ? XQ::MINF : XQ::PINF); }
inline XQ xnan() { return XQ(XQ::NaN); }
inline std::string show(const XQ& x) {
  if (x.k == XQ::NaN) return "nan"; if (x.k == XQ::MINF) return "-inf"; if (x.k == XQ::PINF) return "+inf";
  std::string s = x.q.get_str(); return x.root ? "sqrt(" + s + ")" : s;
}
inline int sg3(int c) { return (c > 0) - (c < 0); }
// compare exact e (may be a root) with a rational/infinite s (never a root): -1, 0, 1, or 2 = incomparable.
inline int xcmp(const XQ& e, const XQ& s) {
  if (e.nan() || s.nan()) return 2;
  if (e.k == XQ::MINF) return s.k == XQ::MINF ? 0 : -1;
  if (e.k == XQ::PINF) return s.k == XQ::PINF ? 0 : 1;
  if (s.k == XQ::MINF) return 1;
  if (s.k == XQ::PINF) return -1;
  if (!e.root) return sg3(cmp(e.q, s.q));
  if (::sgn(s.q) < 0) return 1;
  Q s2 = s.q * s.q; return sg3(cmp(e.q, s2));
}
inline int xcmp(const XQ& e, const Q& s) {
  if (e.nan()) return 2; if (e.k == XQ::MINF) return -1; if (e.k == XQ::PINF) return 1;
  if (!e.root) return sg3(cmp(e.q, s));
  if (::sgn(s) < 0) return 1;
  Q s2 = s * s; return sg3(cmp(e.q, s2));
}

enum Undef { U_NONE = 0, U_NAN_OPERAND, U_INF_ADD_INF, U_INF_SUB_INF, U_INF_MUL_ZERO, U_DIV_ZERO, U_INF_DIV_INF, U_INF_MOD, U_MOD_ZERO, U_SQRT_NEG, U_SILENT };
static const char* const UNDEF_NAME[] = { "defined", "nan-operand", "inf+(-inf)", "inf-inf", "inf*0", "div-by-zero", "inf/inf", "inf-mod", "mod-zero", "sqrt-neg", "doc-silent" };
struct Ex {
  XQ v; Undef u; bool has_prod; XQ prod; bool acc_inf;   // fused ops: the intermediate product, and whether the accumulator was infinite
  Ex() : u(U_NONE), has_prod(false), acc_inf(false) {}
  explicit Ex(const XQ& x) : v(x), u(U_NONE), has_prod(false), acc_inf(false) {}
  explicit Ex(XQ&& x) : v(std::move(x)), u(U_NONE), has_prod(false), acc_inf(false) {}
  explicit Ex(const Q& x) : v(x), u(U_NONE), has_prod(false), acc_inf(false) {}
  explicit Ex(Q&& x) : v(std::move(x)), u(U_NONE), has_prod(false), acc_inf(false) {}
  explicit Ex(Undef uu) : v(xnan()), u(uu), has_prod(false), acc_inf(false) {}
};
inline Result undef_code(Undef u) {
  switch (u) { case U_NAN_OPERAND: return V_NAN; case U_INF_ADD_INF: return V_INF_ADD_INF; case U_INF_SUB_INF: return V_INF_SUB_INF; case U_INF_MUL_ZERO: return V_INF_MUL_ZERO;
    case U_DIV_ZERO: return V_DIV_ZERO; case U_INF_DIV_INF: return V_INF_DIV_INF; case U_INF_MOD: return V_INF_MOD; case U_MOD_ZERO: return V_MOD_ZERO; case U_SQRT_NEG: return V_SQRT_NEG; default: return V_NAN; }
}

// ---- reference semantics of the operations on extended rationals (operands are never roots)
inline Ex ex_neg(const XQ& a) { if (a.nan()) return Ex(U_NAN_OPERAND); if (a.inf()) return Ex(xinf(-a.isgn())); return Ex(Q(-a.q)); }
inline Ex ex_id(const XQ& a) { if (a.nan()) return Ex(U_NAN_OPERAND); return Ex(a); }
inline Ex ex_abs(const XQ& a) { if (a.nan()) return Ex(U_NAN_OPERAND); if (a.inf()) return Ex(xinf(1)); return Ex(Q(abs(a.q))); }
inline Ex ex_add(const XQ& a, const XQ& b) {
  if (a.nan() || b.nan()) return Ex(U_NAN_OPERAND);
  if (a.inf() && b.inf()) return a.k == b.k ? Ex(a) : Ex(U_INF_ADD_INF);
  if (a.inf()) return Ex(a); if (b.inf()) return Ex(b);
  return Ex(Q(a.q + b.q));
}
inline Ex ex_sub(const XQ& a, const XQ& b) {
  if (a.nan() || b.nan()) return Ex(U_NAN_OPERAND);
  if (a.inf() && b.inf()) return a.k != b.k ? Ex(a) : Ex(U_INF_SUB_INF);
  if (a.inf()) return Ex(a); if (b.inf()) return Ex(xinf(-b.isgn()));
  return Ex(Q(a.q - b.q));
}
inline Ex ex_mul(const XQ& a, const XQ& b) {
  if (a.nan() || b.nan()) return Ex(U_NAN_OPERAND);
  if (a.inf() || b.inf()) { int s = a.sgn() * b.sgn(); return s == 0 ? Ex(U_INF_MUL_ZERO) : Ex(xinf(s)); }
  return Ex(Q(a.q * b.q));
}
inline Ex ex_div(const XQ& a, const XQ& b) {
  if (a.nan() || b.nan()) return Ex(U_NAN_OPERAND);
  if (a.inf() && b.inf()) return Ex(U_INF_DIV_INF);
  if (b.fin() && ::sgn(b.q) == 0) return Ex(U_DIV_ZERO);
  if (a.inf()) return Ex(xinf(a.sgn() * b.sgn()));
  if (b.inf()) return Ex(Q(0));
  return Ex(Q(a.q / b.q));
}
inline Q q_trunc(const Q& x) { Z t; mpz_tdiv_q(t.get_mpz_t(), x.get_num_mpz_t(), x.get_den_mpz_t()); return Q(t); }
inline Q q_floor(const Q& x) { Z t; mpz_fdiv_q(t.get_mpz_t(), x.get_num_mpz_t(), x.get_den_mpz_t()); return Q(t); }
inline Q q_ceil(const Q& x) { Z t; mpz_cdiv_q(t.get_mpz_t(), x.get_num_mpz_t(), x.get_den_mpz_t()); return Q(t); }
inline Ex ex_idiv(const XQ& a, const XQ& b) { Ex e = ex_div(a, b); if (e.u == U_NONE && e.v.fin()) e.v.q = q_trunc(e.v.q); return e; }
inline Ex ex_rem(const XQ& a, const XQ& b) {   // x - trunc(x/y)*y
  if (a.nan() || b.nan()) return Ex(U_NAN_OPERAND);
  if (a.inf()) return Ex(U_INF_MOD);
  if (b.inf()) return Ex(a);
  if (::sgn(b.q) == 0) return Ex(U_MOD_ZERO);
  Q t = q_trunc(Q(a.q / b.q)); return Ex(Q(a.q - t * b.q));
}
inline Ex ex_floor(const XQ& a) { if (a.nan()) return Ex(U_NAN_OPERAND); if (a.inf()) return Ex(a); return Ex(q_floor(a.q)); }
inline Ex ex_ceil(const XQ& a) { if (a.nan()) return Ex(U_NAN_OPERAND); if (a.inf()) return Ex(a); return Ex(q_ceil(a.q)); }
inline Ex ex_trunc(const XQ& a) { if (a.nan()) return Ex(U_NAN_OPERAND); if (a.inf()) return Ex(a); return Ex(q_trunc(a.q)); }
inline Ex ex_sqrt(const XQ& a) {
  if (a.nan()) return Ex(U_NAN_OPERAND);
  if (a.k == XQ::MINF) return Ex(U_SQRT_NEG); if (a.k == XQ::PINF) return Ex(a);
  if (::sgn(a.q) < 0) return Ex(U_SQRT_NEG);
  // exact root if both numerator and denominator are perfect squares
  if (mpz_perfect_square_p(a.q.get_num_mpz_t()) && mpz_perfect_square_p(a.q.get_den_mpz_t())) { Q r; mpz_sqrt(r.get_num_mpz_t(), a.q.get_num_mpz_t()); mpz_sqrt(r.get_den_mpz_t(), a.q.get_den_mpz_t()); return Ex(r); }
  Ex e; e.v.q = a.q; e.v.root = true; return e;
}
inline Q q_2exp(unsigned int e) { Z z(1); mpz_mul_2exp(z.get_mpz_t(), z.get_mpz_t(), e); return Q(z); }
inline Ex ex_add_2exp(const XQ& a, unsigned int e) { if (a.nan()) return Ex(U_NAN_OPERAND); if (a.inf()) return Ex(a); return Ex(Q(a.q + q_2exp(e))); }
inline Ex ex_sub_2exp(const XQ& a, unsigned int e) { if (a.nan()) return Ex(U_NAN_OPERAND); if (a.inf()) return Ex(a); return Ex(Q(a.q - q_2exp(e))); }
inline Ex ex_mul_2exp(const XQ& a, unsigned int e) { if (a.nan()) return Ex(U_NAN_OPERAND); if (a.inf()) return Ex(a); return Ex(Q(a.q * q_2exp(e))); }
inline Ex ex_div_2exp(const XQ& a, unsigned int e) { if (a.nan()) return Ex(U_NAN_OPERAND); if (a.inf()) return Ex(a); return Ex(Q(a.q / q_2exp(e))); }
inline Ex ex_umod_2exp(const XQ& a, unsigned int e) { if (a.nan()) return Ex(U_NAN_OPERAND); if (a.inf()) return Ex(U_INF_MOD); Q m = q_2exp(e); return Ex(Q(a.q - m * q_floor(Q(a.q / m)))); }
inline Ex ex_smod_2exp(const XQ& a, unsigned int e) { Ex r = ex_umod_2exp(a, e); if (r.u != U_NONE) return r; Q m = q_2exp(e); if (r.v.q >= m / 2) r.v.q -= m; return r; }
inline Ex ex_gcd(const XQ& a, const XQ& b) {
  if (a.nan() || b.nan()) return Ex(U_NAN_OPERAND);
  if (a.inf() || b.inf()) return Ex(U_SILENT);
  if (a.q.get_den() != 1 || b.q.get_den() != 1) return Ex(U_SILENT);
  Z g; mpz_gcd(g.get_mpz_t(), a.q.get_num_mpz_t(), b.q.get_num_mpz_t()); return Ex(Q(g));
}
inline Ex ex_lcm(const XQ& a, const XQ& b) {
  if (a.nan() || b.nan()) return Ex(U_NAN_OPERAND);
  if (a.inf() || b.inf()) return Ex(U_SILENT);
  if (a.q.get_den() != 1 || b.q.get_den() != 1) return Ex(U_SILENT);
  Z g; mpz_lcm(g.get_mpz_t(), a.q.get_num_mpz_t(), b.q.get_num_mpz_t()); return Ex(Q(g));
}
// to + x*y  /  to - x*y  (product first, as PPL's *_ext do)
inline Ex ex_fused(const XQ& to, const XQ& a, const XQ& b, bool sub) {
  if (to.nan() || a.nan() || b.nan()) return Ex(U_NAN_OPERAND);
  Ex p = ex_mul(a, b); if (p.u != U_NONE) return p;
  Ex r = sub ? ex_sub(to, p.v) : ex_add(to, p.v);
  r.has_prod = true; r.prod = p.v; r.acc_inf = to.inf(); return r;
}

// ---------------------------------------------------------------- decoding stored values (independent of PPL's predicates)
template <typename T> struct IsInt : std::integral_constant<bool, std::is_integral<T>::value> {};
template <typename T> struct IsFlt : std::integral_constant<bool, std::is_floating_point<T>::value> {};

// finite range and special encodings of an extended native integer (layout documented in checked_int_inlines.hh, Extended_Int)
template <typename T> struct IntLayout {
  long double dummy;
  static void get(bool has_nan, bool has_inf, Z& lo, Z& hi, Z& pinf, Z& minf, Z& nan) {
    Z mn, mx;
    if (std::is_signed<T>::value) { mn = Z((long) std::numeric_limits<T>::min()); mx = Z((long) std::numeric_limits<T>::max()); }
    else { mn = 0; mx = Z((unsigned long) std::numeric_limits<T>::max()); }
    int hi_ = has_inf ? 1 : 0, hn = has_nan ? 1 : 0;
    pinf = mx;
    if (std::is_signed<T>::value) { minf = mn; nan = mn + hi_; lo = mn + hi_ + hn; hi = mx - hi_; }
    else { minf = mx - 1; nan = mx - 2 * hi_; lo = 0; hi = mx - 2 * hi_ - hn; }
  }
};
template <typename T> inline Z int_to_Z(T v) { if (std::is_signed<T>::value) return Z((long) v); return Z((unsigned long) v); }

template <typename T> inline typename std::enable_if<IsInt<T>::value, XQ>::type
decode(const T& v, bool has_nan, bool has_inf) {
  Z z = int_to_Z(v);
  if (has_nan || has_inf) {
    Z lo, hi, pi, mi, na; IntLayout<T>::get(has_nan, has_inf, lo, hi, pi, mi, na);
    if (has_nan && z == na) return xnan();
    if (has_inf && z == pi) return xinf(1);
    if (has_inf && z == mi) return xinf(-1);
  }
  return XQ(Q(z));
}
// IEEE bit decoders
inline XQ decode_bits(bool neg, unsigned long mant, long e2, bool is_inf, bool is_nan) {
  if (is_nan) return xnan(); if (is_inf) return xinf(neg ? -1 : 1);
  Z mz(mant); Q q(mz); if (e2 >= 0) q *= q_2exp((unsigned) e2); else q /= q_2exp((unsigned) -e2);
  if (neg) q = -q; return XQ(q);
}
inline XQ decode(const float& v, bool, bool) {
  uint32_t b; memcpy(&b, &v, 4); bool neg = b >> 31; unsigned ex = (b >> 23) & 0xff; unsigned long m = b & 0x7fffff;
  if (ex == 0xff) return decode_bits(neg, 0, 0, m == 0, m != 0);
  if (ex == 0) return decode_bits(neg, m, -149, false, false);
  return decode_bits(neg, m | 0x800000UL, (long) ex - 127 - 23, false, false);
}
inline XQ decode(const double& v, bool, bool) {
  uint64_t b; memcpy(&b, &v, 8); bool neg = b >> 63; unsigned ex = (b >> 52) & 0x7ff; unsigned long m = b & 0xfffffffffffffUL;
  if (ex == 0x7ff) return decode_bits(neg, 0, 0, m == 0, m != 0);
  if (ex == 0) return decode_bits(neg, m, -1074, false, false);
  return decode_bits(neg, m | (1UL << 52), (long) ex - 1023 - 52, false, false);
}
inline XQ decode(const long double& v, bool, bool) {   // x87 80-bit extended
  unsigned char raw[16]; memset(raw, 0, 16); memcpy(raw, &v, sizeof(long double)); uint64_t m; uint16_t se; memcpy(&m, raw, 8); memcpy(&se, raw + 8, 2);
  bool neg = se >> 15; unsigned ex = se & 0x7fff;
  if (ex == 0x7fff) return decode_bits(neg, 0, 0, (m << 1) == 0, (m << 1) != 0);
  if (ex == 0) return decode_bits(neg, m, -16382 - 63, false, false);
  return decode_bits(neg, m, (long) ex - 16383 - 63, false, false);
}
// GMP values: the encodings of the specials are private to PPL, so PPL's predicates are used here
template <typename P> inline XQ decode_gmp(const Z& v) {
  if (Checked::is_nan<P>(v)) return xnan(); if (Checked::is_minf<P>(v)) return xinf(-1); if (Checked::is_pinf<P>(v)) return xinf(1); return XQ(Q(v));
}
template <typename P> inline XQ decode_gmp(const Q& v) {
  if (Checked::is_nan<P>(v)) return xnan(); if (Checked::is_minf<P>(v)) return xinf(-1); if (Checked::is_pinf<P>(v)) return xinf(1); return XQ(v);
}

// ---------------------------------------------------------------- number kinds
template <typename T> struct TName;
#define NK_TNAME(T, S) template <> struct TName<T> { static const char* n() { return S; } };
NK_TNAME(signed char, "int8") NK_TNAME(unsigned char, "uint8") NK_TNAME(short, "int16") NK_TNAME(unsigned short, "uint16")
NK_TNAME(int, "int32") NK_TNAME(unsigned int, "uint32") NK_TNAME(long, "int64") NK_TNAME(unsigned long, "uint64")
NK_TNAME(long long, "int64ll") NK_TNAME(unsigned long long, "uint64ll")
NK_TNAME(float, "float") NK_TNAME(double, "double") NK_TNAME(long double, "ldouble") NK_TNAME(Z, "mpz") NK_TNAME(Q, "mpq")
template <typename P> struct PName { static const char* n() { return "raw"; } };
template <> struct PName<PX> { static const char* n() { return "X"; } };
template <> struct PName<PW> { static const char* n() { return "W"; } };
template <> struct PName<PE> { static const char* n() { return "E"; } };
template <> struct PName<PB> { static const char* n() { return "B"; } };

template <typename N> struct Kind {   // raw native / raw GMP
  typedef N raw_t; typedef typename Native_Checked_To_Wrapper<N>::Policy TP; typedef void CP; static const bool checked = false;
  static raw_t& rv(N& n) { return n; } static const raw_t& rv(const N& n) { return n; }
  static const char* pol() { return "raw"; }
};
template <typename T, typename P> struct Kind<Checked_Number<T, P> > {
  typedef T raw_t; typedef P TP; typedef P CP; static const bool checked = true; typedef Checked_Number<T, P> N;
  static raw_t& rv(N& n) { return n.raw_value(); } static const raw_t& rv(const N& n) { return n.raw_value(); }
  static const char* pol() { return PName<P>::n(); }
};
template <typename N> inline const char* tname() { return TName<typename Kind<N>::raw_t>::n(); }
template <typename N> inline std::string kname() { return std::string(tname<N>()) + "/" + Kind<N>::pol(); }

template <typename N> inline typename std::enable_if<!std::is_class<typename Kind<N>::raw_t>::value, XQ>::type
dec(const N& n) { typedef typename Kind<N>::TP P; return decode(Kind<N>::rv(n), P::has_nan, P::has_infinity); }
template <typename N> inline typename std::enable_if<std::is_class<typename Kind<N>::raw_t>::value, XQ>::type
dec(const N& n) { typedef typename Kind<N>::TP P; return decode_gmp<P>(Kind<N>::rv(n)); }

struct Lim { bool bounded; Q lo, hi; };
template <typename T> inline typename std::enable_if<IsInt<T>::value, Lim>::type mk_lim(bool hn, bool hi_) {
  Z lo, hi, a, b, c; IntLayout<T>::get(hn, hi_, lo, hi, a, b, c); Lim l; l.bounded = true; l.lo = Q(lo); l.hi = Q(hi); return l;
}
template <typename T> inline typename std::enable_if<IsFlt<T>::value, Lim>::type mk_lim(bool, bool) {
  volatile T m = std::numeric_limits<T>::max(); T mm = m; Lim l; l.bounded = true; l.hi = decode(mm, true, true).q; l.lo = -l.hi; return l;
}
template <typename T> inline typename std::enable_if<std::is_class<T>::value, Lim>::type mk_lim(bool, bool) { Lim l; l.bounded = false; return l; }
template <typename N> inline const Lim& lim() { typedef typename Kind<N>::TP P; static Lim l = mk_lim<typename Kind<N>::raw_t>(P::has_nan, P::has_infinity); return l; }

// ---------------------------------------------------------------- run-time description of a number kind
// (everything the non-template cores in numkernel.cc need to know about N)
template <typename T> inline typename std::enable_if<IsInt<T>::value, bool>::type repr_T(const Q& q, const Lim& L) { return q.get_den() == 1 && q >= L.lo && q <= L.hi; }
template <typename T> struct FltFmt;
template <> struct FltFmt<float> { enum { P = 24, EMIN = -149, EMAX = 128 }; };
template <> struct FltFmt<double> { enum { P = 53, EMIN = -1074, EMAX = 1024 }; };
template <> struct FltFmt<long double> { enum { P = 64, EMIN = -16445, EMAX = 16384 }; };
template <typename T> inline typename std::enable_if<IsFlt<T>::value, bool>::type repr_T(const Q& q, const Lim&) {
  if (::sgn(q) == 0) return true;
  const Z& d = q.get_den(); if (mpz_popcount(d.get_mpz_t()) != 1) return false;
  Z n = abs(q.get_num()); long tz = (long) mpz_scan1(n.get_mpz_t(), 0); long e = tz - (long) (mpz_sizeinbase(d.get_mpz_t(), 2) - 1);
  long bl = (long) mpz_sizeinbase(n.get_mpz_t(), 2) - tz;   // bits of the odd part
  return bl <= FltFmt<T>::P && e >= FltFmt<T>::EMIN && bl + e <= FltFmt<T>::EMAX;
}
template <typename T> inline typename std::enable_if<std::is_same<T, Z>::value, bool>::type repr_T(const Q& q, const Lim&) { return q.get_den() == 1; }
template <typename T> inline typename std::enable_if<std::is_same<T, Q>::value, bool>::type repr_T(const Q&, const Lim&) { return true; }

struct KindInfo {
  const char* tname; const char* pol; Lim lim;
  bool is_int, is_flt, is_mpz, is_mpq, is_signed; int bits;
  bool has_nan, has_inf, check_overflow, c_inf_add_inf, c_inf_sub_inf, c_inf_mul_zero, c_div_zero, c_inf_div_inf, c_inf_mod, c_sqrt_neg, c_fpu_inexact, c_fpu_nan;
  bool (*repr)(const Q&, const Lim&);
  XQ (*dec_at)(const void* vec, size_t i);   // vec is a const std::vector<N>*
  size_t (*size)(const void* vec);
  std::string kname() const { return std::string(tname) + "/" + pol; }
  bool representable(const XQ& e) const { return e.fin() && !e.root && repr(e.q, lim); }
  // is the undefined input class u inside the contract of this destination policy ?
  bool in_contract(Undef u) const {
    switch (u) {
    case U_NONE: return true;
    case U_SILENT: return false;
    case U_NAN_OPERAND: return is_flt ? c_fpu_nan : has_nan;
    case U_INF_ADD_INF: return c_inf_add_inf; case U_INF_SUB_INF: return c_inf_sub_inf; case U_INF_MUL_ZERO: return c_inf_mul_zero;
    case U_DIV_ZERO: case U_MOD_ZERO: return c_div_zero; case U_INF_DIV_INF: return c_inf_div_inf; case U_INF_MOD: return c_inf_mod; case U_SQRT_NEG: return c_sqrt_neg;
    }
    return false;
  }
};
template <typename N> struct VecThunk {
  static XQ dec_at(const void* v, size_t i) { return dec((*static_cast<const std::vector<N>*>(v))[i]); }
  static size_t size(const void* v) { return static_cast<const std::vector<N>*>(v)->size(); }
  static const N& at(const void* v, size_t i) { return (*static_cast<const std::vector<N>*>(v))[i]; }
};
template <typename N> inline const KindInfo& kinfo() {
  typedef typename Kind<N>::TP P; typedef typename Kind<N>::raw_t T;
  static KindInfo k = { tname<N>(), Kind<N>::pol(), lim<N>(),
    IsInt<T>::value, IsFlt<T>::value, std::is_same<T, Z>::value, std::is_same<T, Q>::value, std::is_signed<T>::value, std::is_class<T>::value ? 0 : (int) (sizeof(T) * 8),
    P::has_nan, P::has_infinity, P::check_overflow, P::check_inf_add_inf, P::check_inf_sub_inf, P::check_inf_mul_zero, P::check_div_zero, P::check_inf_div_inf, P::check_inf_mod, P::check_sqrt_neg,
    P::check_fpu_inexact, P::check_fpu_nan_result, &repr_T<T>, &VecThunk<N>::dec_at, &VecThunk<N>::size };
  return k;
}

// ---------------------------------------------------------------- rounding directions under test
struct DirInfo { Rounding_Dir d; const char* name; };
static const DirInfo DIRS[] = {
  { ROUND_UP, "UP" }, { ROUND_DOWN, "DOWN" }, { ROUND_IGNORE, "IGNORE" },
  { static_cast<Rounding_Dir>(ROUND_UP | ROUND_STRICT_RELATION), "UP|STRICT" }, { static_cast<Rounding_Dir>(ROUND_DOWN | ROUND_STRICT_RELATION), "DOWN|STRICT" },
  { ROUND_NOT_NEEDED, "NOT_NEEDED" } };
static const int NDIRS = 5;          // ROUND_NOT_NEEDED (index 5) only where the result is exact and representable
inline const char* dir_name(Rounding_Dir d) { for (int i = 0; i < 6; ++i) if (DIRS[i].d == d) return DIRS[i].name; return "?"; }
std::string result_name(Result r);
inline bool g_verbose() { return hx::opt().verbose; }
const char* intern(const std::string& s);

// Operand text, built lazily (only when a violation is reported or in verbose mode).
struct Desc {
  const XQ* a; const XQ* b; const XQ* t; long e; const char* txt;
  Desc() : a(0), b(0), t(0), e(-1), txt(0) {}
  std::string operator()() const {
    std::string s; if (txt) s = txt; if (t) s += "to=" + show(*t); if (a) s += (s.empty() ? "" : ", ") + show(*a); if (b) s += ", " + show(*b); if (e >= 0) s += ", exp=" + std::to_string(e); return s;
  }
};
inline Desc desc1(const XQ& a) { Desc d; d.a = &a; return d; }
inline Desc desc2(const XQ& a, const XQ& b) { Desc d; d.a = &a; d.b = &b; return d; }
inline Desc desc3(const XQ& t, const XQ& a, const XQ& b) { Desc d; d.t = &t; d.a = &a; d.b = &b; return d; }
inline Desc desce(const XQ& a, unsigned e) { Desc d; d.a = &a; d.e = e; return d; }
inline Desc desct(const char* t) { Desc d; d.txt = t; return d; }

struct Site { const char* op; const char* type; const char* pol; };   // all three interned / static strings

// ---------------------------------------------------------------- non-template cores (numkernel.cc)
// Run f in a forked child; false (and `why`) if the child died (sanitizer report, signal).
bool survives(const std::function<void()>& f, std::string& why);
// The oracle.  `stored` is the decoded destination (ignored when r carries V_UNREPRESENTABLE).  False if a violation was reported.
bool verify_core(const KindInfo& K, const Site& s, Rounding_Dir dir, const char* cls, Result r, const XQ& stored, const Ex& ex, const Desc& desc);
const char* res_class(const KindInfo& K, const Ex& ex, bool special_operand);

// thunk signatures: perform one PPL call on operands taken from type-erased std::vector<N>s, decode the destination
typedef Result (*BinRun)(const void* xs, size_t i, const void* ys, size_t j, Rounding_Dir d, XQ& stored);
typedef Result (*UnRun)(const void* xs, size_t i, Rounding_Dir d, XQ& stored);
typedef Result (*E2Run)(const void* xs, size_t i, unsigned e, Rounding_Dir d, XQ& stored);
typedef Result (*FuRun)(const void* accs, size_t k, const void* xs, size_t i, const void* ys, size_t j, Rounding_Dir d, XQ& stored);
typedef Result (*SpRun)(int which, Rounding_Dir d, XQ& stored);
struct CmpOut { bool p[6]; int c; bool has_cmp; };
typedef CmpOut (*CmpRun)(const void* xs, size_t i, const void* ys, size_t j, bool ordered);
typedef int (*SgnRun)(const void* xs, size_t i);

void run_binary_core(const KindInfo& K, const char* op, BinRun run, Ex (*exact)(const XQ&, const XQ&), const void* xs, const void* ys, bool try_not_needed);
void run_unary_core(const KindInfo& K, const char* op, UnRun run, Ex (*exact)(const XQ&), const void* xs, bool try_not_needed);
void run_2exp_core(const KindInfo& K, const char* op, E2Run run, Ex (*exact)(const XQ&, unsigned), const void* xs, const std::vector<unsigned>& exps);
void run_fused_core(const KindInfo& K, const char* op, bool sub, FuRun run, const void* accs, const void* xs, const void* ys);
void run_convert_core(const KindInfo& To, const KindInfo& From, BinRun assign, BinRun construct, const void* xs);   // the BinRun's ignore ys/j
void run_specials_core(const KindInfo& K, SpRun run);
void run_compare_core(const KindInfo& A, const KindInfo& B, CmpRun run, SgnRun sg, const void* xs, const void* ys);

} // namespace nk
#endif
