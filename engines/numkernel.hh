// numkernel — shared part: exact extended-rational oracle for PPL's checked-number kernel (property C11).
//
// Every checked operation  r = op_assign_r(to, x[, y], dir)  is judged against the exact mathematical
// result e (an extended rational, possibly a square root) computed with GMP only:
//   rel   the relation bits of r must contain the true relation  e REL stored(to)
//   dir   ROUND_UP never stores below e, ROUND_DOWN never above; with ROUND_STRICT_RELATION the relation is one of =,<,>
//   ovf   overflow codes / infinities only when e is really outside the finite range of the destination, on that side;
//         V_UNKNOWN_{NEG,POS}_OVERFLOW only when the intermediate product of a fused op really overflows on that side
//   nan   undefined inputs (fed only to policies that declare the matching check_* flag) give a VC_NAN result,
//         defined inputs never do
// Oracles never use floating point: float operands are decoded from their bit patterns into mpq_class.
#ifndef NUMKERNEL_HH
#define NUMKERNEL_HH
#include "pplx.hh"
#include <gmpxx.h>
#include <unordered_set>
#include <sys/wait.h>
#include <type_traits>
#include <limits>

namespace nk {
using namespace Parma_Polyhedra_Library;
typedef mpq_class Q;
typedef mpz_class Z;

// ---------------------------------------------------------------- policies
// Clone of Bounded_Integer_Coefficient_Policy (only declared in checked-integer builds; values copied from
// src/Coefficient_types.hh, handle_result from src/Coefficient_inlines.hh).
struct Bounded_Policy {
  const_bool_nodef(check_overflow, true);
  const_bool_nodef(check_inf_add_inf, false);
  const_bool_nodef(check_inf_sub_inf, false);
  const_bool_nodef(check_inf_mul_zero, false);
  const_bool_nodef(check_div_zero, false);
  const_bool_nodef(check_inf_div_inf, false);
  const_bool_nodef(check_inf_mod, false);
  const_bool_nodef(check_sqrt_neg, false);
  const_bool_nodef(has_nan, false);
  const_bool_nodef(has_infinity, false);
  const_bool_nodef(convertible, true);
  const_bool_nodef(check_fpu_inexact, false);
  const_bool_nodef(check_fpu_nan_result, true);
  static const Rounding_Dir ROUND_DEFAULT_CONSTRUCTOR = ROUND_NATIVE;
  static const Rounding_Dir ROUND_DEFAULT_OPERATOR = ROUND_NATIVE;
  static const Rounding_Dir ROUND_DEFAULT_INPUT = ROUND_NATIVE;
  static const Rounding_Dir ROUND_DEFAULT_OUTPUT = ROUND_NATIVE;
  static const Rounding_Dir ROUND_DEFAULT_FUNCTION = ROUND_NATIVE;
  static void handle_result(Result r) { if (result_overflow(r) || result_class(r) == VC_NAN) throw_result_exception(r); }
};
typedef Debug_WRD_Extended_Number_Policy PX;   // every check on, has nan and infinities
typedef WRD_Extended_Number_Policy PW;         // production policy of the weakly-relational domains
typedef Extended_Number_Policy PE;             // the extended-number policy
typedef Bounded_Policy PB;                     // bounded coefficients

// ---------------------------------------------------------------- exact extended values
struct XQ {
  enum K { FIN = 0, MINF = 1, PINF = 2, NaN = 3 };
  K k; Q q; bool root;   // FIN && root: the value is sqrt(q), q >= 0
  XQ() : k(FIN), q(0), root(false) {}
  explicit XQ(const Q& v) : k(FIN), q(v), root(false) {}
  explicit XQ(K kk) : k(kk), q(0), root(false) {}
  bool fin() const { return k == FIN; }
  bool inf() const { return k == MINF || k == PINF; }
  bool nan() const { return k == NaN; }
  int isgn() const { return k == MINF ? -1 : k == PINF ? 1 : 0; }
  int sgn() const { return k == MINF ? -1 : k == PINF ? 1 : ::sgn(q); }   // not for NaN
};
inline XQ xinf(int s) { return XQ(s < 0 ? XQ::MINF : XQ::PINF); }
inline XQ xnan() { return XQ(XQ::NaN); }
inline std::string show(const XQ& x) {
  if (x.k == XQ::NaN) return "nan"; if (x.k == XQ::MINF) return "-inf"; if (x.k == XQ::PINF) return "+inf";
  std::string s = x.q.get_str(); return x.root ? "sqrt(" + s + ")" : s;
}
// compare exact e (may be a root) with a rational/infinite s (never a root). 2 = incomparable.
inline int xcmp(const XQ& e, const XQ& s) {
  if (e.nan() || s.nan()) return 2;
  if (e.k == XQ::MINF) return s.k == XQ::MINF ? 0 : -1;
  if (e.k == XQ::PINF) return s.k == XQ::PINF ? 0 : 1;
  if (s.k == XQ::MINF) return 1;
  if (s.k == XQ::PINF) return -1;
  if (!e.root) return cmp(e.q, s.q);
  if (::sgn(s.q) < 0) return 1;
  Q s2 = s.q * s.q; return cmp(e.q, s2);
}
inline int xcmp(const XQ& e, const Q& s) { return xcmp(e, XQ(s)); }

enum Undef { U_NONE = 0, U_NAN_OPERAND, U_INF_ADD_INF, U_INF_SUB_INF, U_INF_MUL_ZERO, U_DIV_ZERO, U_INF_DIV_INF, U_INF_MOD, U_MOD_ZERO, U_SQRT_NEG, U_SILENT };
static const char* const UNDEF_NAME[] = { "defined", "nan-operand", "inf+(-inf)", "inf-inf", "inf*0", "div-by-zero", "inf/inf", "inf-mod", "mod-zero", "sqrt-neg", "doc-silent" };
struct Ex {
  XQ v; Undef u; bool has_prod; XQ prod;
  Ex() : u(U_NONE), has_prod(false) {}
  explicit Ex(const XQ& x) : v(x), u(U_NONE), has_prod(false) {}
  explicit Ex(const Q& x) : v(x), u(U_NONE), has_prod(false) {}
  explicit Ex(Undef uu) : v(xnan()), u(uu), has_prod(false) {}
};
inline Result undef_code(Undef u) {
  switch (u) { case U_NAN_OPERAND: return V_NAN; case U_INF_ADD_INF: return V_INF_ADD_INF; case U_INF_SUB_INF: return V_INF_SUB_INF; case U_INF_MUL_ZERO: return V_INF_MUL_ZERO;
    case U_DIV_ZERO: return V_DIV_ZERO; case U_INF_DIV_INF: return V_INF_DIV_INF; case U_INF_MOD: return V_INF_MOD; case U_MOD_ZERO: return V_MOD_ZERO; case U_SQRT_NEG: return V_SQRT_NEG; default: return V_NAN; }
}

// ---- reference semantics of the operations on extended rationals (operands are never roots)
inline Ex ex_neg(const XQ& a) { if (a.nan()) return Ex(U_NAN_OPERAND); if (a.inf()) return Ex(xinf(-a.isgn())); return Ex(Q(-a.q)); }
inline Ex ex_id(const XQ& a) { if (a.nan()) return Ex(U_NAN_OPERAND); return Ex(a); }
inline Ex ex_abs(const XQ& a) { if (a.nan()) return Ex(U_NAN_OPERAND); if (a.inf()) return Ex(xinf(1)); return Ex(Q(abs(a.q))); }
inline Ex ex_add(const XQ& a, const XQ& b) {
  if (a.nan() || b.nan()) return Ex(U_NAN_OPERAND);
  if (a.inf() && b.inf()) return a.k == b.k ? Ex(a) : Ex(U_INF_ADD_INF);
  if (a.inf()) return Ex(a); if (b.inf()) return Ex(b);
  return Ex(Q(a.q + b.q));
}
inline Ex ex_sub(const XQ& a, const XQ& b) {
  if (a.nan() || b.nan()) return Ex(U_NAN_OPERAND);
  if (a.inf() && b.inf()) return a.k != b.k ? Ex(a) : Ex(U_INF_SUB_INF);
  if (a.inf()) return Ex(a); if (b.inf()) return Ex(xinf(-b.isgn()));
  return Ex(Q(a.q - b.q));
}
inline Ex ex_mul(const XQ& a, const XQ& b) {
  if (a.nan() || b.nan()) return Ex(U_NAN_OPERAND);
  if (a.inf() || b.inf()) { int s = a.sgn() * b.sgn(); return s == 0 ? Ex(U_INF_MUL_ZERO) : Ex(xinf(s)); }
  return Ex(Q(a.q * b.q));
}
inline Ex ex_div(const XQ& a, const XQ& b) {
  if (a.nan() || b.nan()) return Ex(U_NAN_OPERAND);
  if (a.inf() && b.inf()) return Ex(U_INF_DIV_INF);
  if (b.fin() && ::sgn(b.q) == 0) return Ex(U_DIV_ZERO);
  if (a.inf()) return Ex(xinf(a.sgn() * b.sgn()));
  if (b.inf()) return Ex(Q(0));
  return Ex(Q(a.q / b.q));
}
inline Q q_trunc(const Q& x) { Z t; mpz_tdiv_q(t.get_mpz_t(), x.get_num_mpz_t(), x.get_den_mpz_t()); return Q(t); }
inline Q q_floor(const Q& x) { Z t; mpz_fdiv_q(t.get_mpz_t(), x.get_num_mpz_t(), x.get_den_mpz_t()); return Q(t); }
inline Q q_ceil(const Q& x) { Z t; mpz_cdiv_q(t.get_mpz_t(), x.get_num_mpz_t(), x.get_den_mpz_t()); return Q(t); }
inline Ex ex_idiv(const XQ& a, const XQ& b) { Ex e = ex_div(a, b); if (e.u == U_NONE && e.v.fin()) e.v.q = q_trunc(e.v.q); return e; }
inline Ex ex_rem(const XQ& a, const XQ& b) {   // x - trunc(x/y)*y
  if (a.nan() || b.nan()) return Ex(U_NAN_OPERAND);
  if (a.inf()) return Ex(U_INF_MOD);
  if (b.inf()) return Ex(a);
  if (::sgn(b.q) == 0) return Ex(U_MOD_ZERO);
  Q t = q_trunc(Q(a.q / b.q)); return Ex(Q(a.q - t * b.q));
}
inline Ex ex_floor(const XQ& a) { if (a.nan()) return Ex(U_NAN_OPERAND); if (a.inf()) return Ex(a); return Ex(q_floor(a.q)); }
inline Ex ex_ceil(const XQ& a) { if (a.nan()) return Ex(U_NAN_OPERAND); if (a.inf()) return Ex(a); return Ex(q_ceil(a.q)); }
inline Ex ex_trunc(const XQ& a) { if (a.nan()) return Ex(U_NAN_OPERAND); if (a.inf()) return Ex(a); return Ex(q_trunc(a.q)); }
inline Ex ex_sqrt(const XQ& a) {
  if (a.nan()) return Ex(U_NAN_OPERAND);
  if (a.k == XQ::MINF) return Ex(U_SQRT_NEG); if (a.k == XQ::PINF) return Ex(a);
  if (::sgn(a.q) < 0) return Ex(U_SQRT_NEG);
  // exact root if both numerator and denominator are perfect squares
  if (mpz_perfect_square_p(a.q.get_num_mpz_t()) && mpz_perfect_square_p(a.q.get_den_mpz_t())) { Q r; mpz_sqrt(r.get_num_mpz_t(), a.q.get_num_mpz_t()); mpz_sqrt(r.get_den_mpz_t(), a.q.get_den_mpz_t()); return Ex(r); }
  Ex e; e.v.q = a.q; e.v.root = true; return e;
}
inline Q q_2exp(unsigned int e) { Z z(1); mpz_mul_2exp(z.get_mpz_t(), z.get_mpz_t(), e); return Q(z); }
inline Ex ex_add_2exp(const XQ& a, unsigned int e) { if (a.nan()) return Ex(U_NAN_OPERAND); if (a.inf()) return Ex(a); return Ex(Q(a.q + q_2exp(e))); }
inline Ex ex_sub_2exp(const XQ& a, unsigned int e) { if (a.nan()) return Ex(U_NAN_OPERAND); if (a.inf()) return Ex(a); return Ex(Q(a.q - q_2exp(e))); }
inline Ex ex_mul_2exp(const XQ& a, unsigned int e) { if (a.nan()) return Ex(U_NAN_OPERAND); if (a.inf()) return Ex(a); return Ex(Q(a.q * q_2exp(e))); }
inline Ex ex_div_2exp(const XQ& a, unsigned int e) { if (a.nan()) return Ex(U_NAN_OPERAND); if (a.inf()) return Ex(a); return Ex(Q(a.q / q_2exp(e))); }
inline Ex ex_umod_2exp(const XQ& a, unsigned int e) { if (a.nan()) return Ex(U_NAN_OPERAND); if (a.inf()) return Ex(U_INF_MOD); Q m = q_2exp(e); return Ex(Q(a.q - m * q_floor(Q(a.q / m)))); }
inline Ex ex_smod_2exp(const XQ& a, unsigned int e) { Ex r = ex_umod_2exp(a, e); if (r.u != U_NONE) return r; Q m = q_2exp(e); if (r.v.q >= m / 2) r.v.q -= m; return r; }
inline Ex ex_gcd(const XQ& a, const XQ& b) {
  if (a.nan() || b.nan()) return Ex(U_NAN_OPERAND);
  if (a.inf() || b.inf()) return Ex(U_SILENT);
  if (a.q.get_den() != 1 || b.q.get_den() != 1) return Ex(U_SILENT);
  Z g; mpz_gcd(g.get_mpz_t(), a.q.get_num_mpz_t(), b.q.get_num_mpz_t()); return Ex(Q(g));
}
inline Ex ex_lcm(const XQ& a, const XQ& b) {
  if (a.nan() || b.nan()) return Ex(U_NAN_OPERAND);
  if (a.inf() || b.inf()) return Ex(U_SILENT);
  if (a.q.get_den() != 1 || b.q.get_den() != 1) return Ex(U_SILENT);
  Z g; mpz_lcm(g.get_mpz_t(), a.q.get_num_mpz_t(), b.q.get_num_mpz_t()); return Ex(Q(g));
}
// to + x*y  /  to - x*y  (product first, as PPL's *_ext do)
inline Ex ex_fused(const XQ& to, const XQ& a, const XQ& b, bool sub) {
  if (to.nan() || a.nan() || b.nan()) return Ex(U_NAN_OPERAND);
  Ex p = ex_mul(a, b); if (p.u != U_NONE) return p;
  Ex r = sub ? ex_sub(to, p.v) : ex_add(to, p.v);
  r.has_prod = true; r.prod = p.v; return r;
}

// ---------------------------------------------------------------- decoding stored values (independent of PPL's predicates)
template <typename T> struct IsInt : std::integral_constant<bool, std::is_integral<T>::value> {};
template <typename T> struct IsFlt : std::integral_constant<bool, std::is_floating_point<T>::value> {};

// finite range and special encodings of an extended native integer (layout documented in checked_int_inlines.hh, Extended_Int)
template <typename T> struct IntLayout {
  long double dummy;
  static void get(bool has_nan, bool has_inf, Z& lo, Z& hi, Z& pinf, Z& minf, Z& nan) {
    Z mn, mx;
    if (std::is_signed<T>::value) { mn = Z((long) std::numeric_limits<T>::min()); mx = Z((long) std::numeric_limits<T>::max()); }
    else { mn = 0; mx = Z((unsigned long) std::numeric_limits<T>::max()); }
    int hi_ = has_inf ? 1 : 0, hn = has_nan ? 1 : 0;
    pinf = mx;
    if (std::is_signed<T>::value) { minf = mn; nan = mn + hi_; lo = mn + hi_ + hn; hi = mx - hi_; }
    else { minf = mx - 1; nan = mx - 2 * hi_; lo = 0; hi = mx - 2 * hi_ - hn; }
  }
};
template <typename T> inline Z int_to_Z(T v) { if (std::is_signed<T>::value) return Z((long) v); return Z((unsigned long) v); }

template <typename T> inline typename std::enable_if<IsInt<T>::value, XQ>::type
decode(const T& v, bool has_nan, bool has_inf) {
  Z z = int_to_Z(v);
  if (has_nan || has_inf) {
    Z lo, hi, pi, mi, na; IntLayout<T>::get(has_nan, has_inf, lo, hi, pi, mi, na);
    if (has_nan && z == na) return xnan();
    if (has_inf && z == pi) return xinf(1);
    if (has_inf && z == mi) return xinf(-1);
  }
  return XQ(Q(z));
}
// IEEE bit decoders
inline XQ decode_bits(bool neg, unsigned long mant, long e2, bool is_inf, bool is_nan) {
  if (is_nan) return xnan(); if (is_inf) return xinf(neg ? -1 : 1);
  Z mz(mant); Q q(mz); if (e2 >= 0) q *= q_2exp((unsigned) e2); else q /= q_2exp((unsigned) -e2);
  if (neg) q = -q; return XQ(q);
}
inline XQ decode(const float& v, bool, bool) {
  uint32_t b; memcpy(&b, &v, 4); bool neg = b >> 31; unsigned ex = (b >> 23) & 0xff; unsigned long m = b & 0x7fffff;
  if (ex == 0xff) return decode_bits(neg, 0, 0, m == 0, m != 0);
  if (ex == 0) return decode_bits(neg, m, -149, false, false);
  return decode_bits(neg, m | 0x800000UL, (long) ex - 127 - 23, false, false);
}
inline XQ decode(const double& v, bool, bool) {
  uint64_t b; memcpy(&b, &v, 8); bool neg = b >> 63; unsigned ex = (b >> 52) & 0x7ff; unsigned long m = b & 0xfffffffffffffUL;
  if (ex == 0x7ff) return decode_bits(neg, 0, 0, m == 0, m != 0);
  if (ex == 0) return decode_bits(neg, m, -1074, false, false);
  return decode_bits(neg, m | (1UL << 52), (long) ex - 1023 - 52, false, false);
}
inline XQ decode(const long double& v, bool, bool) {   // x87 80-bit extended
  unsigned char raw[16]; memset(raw, 0, 16); memcpy(raw, &v, sizeof(long double)); uint64_t m; uint16_t se; memcpy(&m, raw, 8); memcpy(&se, raw + 8, 2);
  bool neg = se >> 15; unsigned ex = se & 0x7fff;
  if (ex == 0x7fff) return decode_bits(neg, 0, 0, (m << 1) == 0, (m << 1) != 0);
  if (ex == 0) return decode_bits(neg, m, -16382 - 63, false, false);
  return decode_bits(neg, m, (long) ex - 16383 - 63, false, false);
}
// GMP values: the encodings of the specials are private to PPL, so PPL's predicates are used here
template <typename P> inline XQ decode_gmp(const Z& v) {
  if (Checked::is_nan<P>(v)) return xnan(); if (Checked::is_minf<P>(v)) return xinf(-1); if (Checked::is_pinf<P>(v)) return xinf(1); return XQ(Q(v));
}
template <typename P> inline XQ decode_gmp(const Q& v) {
  if (Checked::is_nan<P>(v)) return xnan(); if (Checked::is_minf<P>(v)) return xinf(-1); if (Checked::is_pinf<P>(v)) return xinf(1); return XQ(v);
}

// ---------------------------------------------------------------- number kinds
template <typename T> struct TName;
#define NK_TNAME(T, S) template <> struct TName<T> { static const char* n() { return S; } };
NK_TNAME(signed char, "int8") NK_TNAME(unsigned char, "uint8") NK_TNAME(short, "int16") NK_TNAME(unsigned short, "uint16")
NK_TNAME(int, "int32") NK_TNAME(unsigned int, "uint32") NK_TNAME(long, "int64") NK_TNAME(unsigned long, "uint64")
NK_TNAME(long long, "int64ll") NK_TNAME(unsigned long long, "uint64ll")
NK_TNAME(float, "float") NK_TNAME(double, "double") NK_TNAME(long double, "ldouble") NK_TNAME(Z, "mpz") NK_TNAME(Q, "mpq")
template <typename P> struct PName { static const char* n() { return "raw"; } };
template <> struct PName<PX> { static const char* n() { return "X"; } };
template <> struct PName<PW> { static const char* n() { return "W"; } };
template <> struct PName<PE> { static const char* n() { return "E"; } };
template <> struct PName<PB> { static const char* n() { return "B"; } };

template <typename N> struct Kind {   // raw native / raw GMP
  typedef N raw_t; typedef typename Native_Checked_To_Wrapper<N>::Policy TP; typedef void CP; static const bool checked = false;
  static raw_t& rv(N& n) { return n; } static const raw_t& rv(const N& n) { return n; }
  static const char* pol() { return "raw"; }
};
template <typename T, typename P> struct Kind<Checked_Number<T, P> > {
  typedef T raw_t; typedef P TP; typedef P CP; static const bool checked = true; typedef Checked_Number<T, P> N;
  static raw_t& rv(N& n) { return n.raw_value(); } static const raw_t& rv(const N& n) { return n.raw_value(); }
  static const char* pol() { return PName<P>::n(); }
};
template <typename N> inline const char* tname() { return TName<typename Kind<N>::raw_t>::n(); }
template <typename N> inline std::string kname() { return std::string(tname<N>()) + "/" + Kind<N>::pol(); }

template <typename N> inline typename std::enable_if<!std::is_class<typename Kind<N>::raw_t>::value, XQ>::type
dec(const N& n) { typedef typename Kind<N>::TP P; return decode(Kind<N>::rv(n), P::has_nan, P::has_infinity); }
template <typename N> inline typename std::enable_if<std::is_class<typename Kind<N>::raw_t>::value, XQ>::type
dec(const N& n) { typedef typename Kind<N>::TP P; return decode_gmp<P>(Kind<N>::rv(n)); }

struct Lim { bool bounded; Q lo, hi; };
template <typename T> inline typename std::enable_if<IsInt<T>::value, Lim>::type mk_lim(bool hn, bool hi_) {
  Z lo, hi, a, b, c; IntLayout<T>::get(hn, hi_, lo, hi, a, b, c); Lim l; l.bounded = true; l.lo = Q(lo); l.hi = Q(hi); return l;
}
template <typename T> inline typename std::enable_if<IsFlt<T>::value, Lim>::type mk_lim(bool, bool) {
  volatile T m = std::numeric_limits<T>::max(); T mm = m; Lim l; l.bounded = true; l.hi = decode(mm, true, true).q; l.lo = -l.hi; return l;
}
template <typename T> inline typename std::enable_if<std::is_class<T>::value, Lim>::type mk_lim(bool, bool) { Lim l; l.bounded = false; return l; }
template <typename N> inline const Lim& lim() { typedef typename Kind<N>::TP P; static Lim l = mk_lim<typename Kind<N>::raw_t>(P::has_nan, P::has_infinity); return l; }

// is the undefined input class u inside the contract of destination policy P ?
template <typename P, typename T> inline bool in_contract(Undef u) {
  switch (u) {
  case U_NONE: return true;
  case U_SILENT: return false;
  case U_NAN_OPERAND: return IsFlt<T>::value ? (bool) P::check_fpu_nan_result : (bool) P::has_nan;
  case U_INF_ADD_INF: return P::check_inf_add_inf; case U_INF_SUB_INF: return P::check_inf_sub_inf; case U_INF_MUL_ZERO: return P::check_inf_mul_zero;
  case U_DIV_ZERO: case U_MOD_ZERO: return P::check_div_zero; case U_INF_DIV_INF: return P::check_inf_div_inf; case U_INF_MOD: return P::check_inf_mod; case U_SQRT_NEG: return P::check_sqrt_neg;
  }
  return false;
}

// ---------------------------------------------------------------- rounding directions under test
struct DirInfo { Rounding_Dir d; const char* name; };
static const DirInfo DIRS[] = {
  { ROUND_UP, "UP" }, { ROUND_DOWN, "DOWN" }, { ROUND_IGNORE, "IGNORE" },
  { static_cast<Rounding_Dir>(ROUND_UP | ROUND_STRICT_RELATION), "UP|STRICT" }, { static_cast<Rounding_Dir>(ROUND_DOWN | ROUND_STRICT_RELATION), "DOWN|STRICT" },
  { ROUND_NOT_NEEDED, "NOT_NEEDED" } };
static const int NDIRS = 5;          // ROUND_NOT_NEEDED (index 5) only where the result is exact and representable
inline const char* dir_name(Rounding_Dir d) { for (int i = 0; i < 6; ++i) if (DIRS[i].d == d) return DIRS[i].name; return "?"; }

inline std::string result_name(Result r) {
  std::string s; unsigned u = (unsigned) r; Result_Class c = result_class(r); Result_Relation rel = result_relation(r);
  static const char* const RN[8] = { "EMPTY", "EQ", "LT", "LE", "GT", "GE", "NE", "LGE" };
  // bit order: EQ=1, LT=2, GT=4
  static const char* const RB[8] = { "V_EMPTY", "V_EQ", "V_LT", "V_LE", "V_GT", "V_GE", "V_NE", "V_LGE" };
  (void) RN;
  if (c == VC_NAN) {
    switch (r - V_UNREPRESENTABLE) { case V_NAN: s = "V_NAN"; break; case V_CVT_STR_UNK: s = "V_CVT_STR_UNK"; break; case V_DIV_ZERO: s = "V_DIV_ZERO"; break; case V_INF_ADD_INF: s = "V_INF_ADD_INF"; break;
      case V_INF_DIV_INF: s = "V_INF_DIV_INF"; break; case V_INF_MOD: s = "V_INF_MOD"; break; case V_INF_MUL_ZERO: s = "V_INF_MUL_ZERO"; break; case V_INF_SUB_INF: s = "V_INF_SUB_INF"; break;
      case V_MOD_ZERO: s = "V_MOD_ZERO"; break; case V_SQRT_NEG: s = "V_SQRT_NEG"; break; case V_UNKNOWN_NEG_OVERFLOW: s = "V_UNKNOWN_NEG_OVERFLOW"; break; case V_UNKNOWN_POS_OVERFLOW: s = "V_UNKNOWN_POS_OVERFLOW"; break;
      default: { char b[32]; snprintf(b, sizeof b, "NAN?0x%x", u); s = b; } }
  }
  else {
    s = RB[(unsigned) rel & 7];
    if (c == VC_MINUS_INFINITY) s += "_MINUS_INFINITY"; else if (c == VC_PLUS_INFINITY) s += "_PLUS_INFINITY";
    if (u & (unsigned) V_OVERFLOW) s += "|OVERFLOW";
  }
  if (u & (unsigned) V_UNREPRESENTABLE) s += "|UNREPRESENTABLE";
  return s;
}

// ---------------------------------------------------------------- bookkeeping
struct Site { const char* op; std::string type; const char* pol; };
inline void reg_distinct(const Site& s, const char* dirn, const char* cls, Result r) {
  // non-trivial configuration = (operation, type, policy, direction, triage class of the operands/exact result, result code);
  // registered once per engine process, hashed by hx.
  static std::unordered_set<uint64_t> seen;
  uint64_t h = hx::fnv(s.op); h = hx::splitmix(h ^ hx::fnv(s.type)); h = hx::splitmix(h ^ hx::fnv(s.pol)); h = hx::splitmix(h ^ hx::fnv(dirn)); h = hx::splitmix(h ^ hx::fnv(cls)); h = hx::splitmix(h ^ (uint64_t) r);
  if (seen.insert(h).second) hx::distinct(std::string(s.op) + "|" + s.type + "|" + s.pol + "|" + dirn + "|" + cls + "|" + result_name(r));
}
inline bool g_verbose() { return hx::opt().verbose; }

// Run f in a forked child; false (and `why`) if the child died (sanitizer report, signal).  Used for inputs
// that were seen to trigger undefined behaviour inside PPL, so that the engine survives and can key the report.
template <typename F> inline bool survives(F f, std::string& why) {
  int pfd[2]; if (pipe(pfd) != 0) return true;
  fflush(0);
  pid_t pid = fork();
  if (pid < 0) { close(pfd[0]); close(pfd[1]); return true; }
  if (pid == 0) { close(pfd[0]); dup2(pfd[1], 2); close(pfd[1]); f(); _exit(0); }
  close(pfd[1]); std::string err; char buf[512]; ssize_t n;
  while ((n = read(pfd[0], buf, sizeof buf)) > 0) if (err.size() < 8192) err.append(buf, (size_t) n);
  close(pfd[0]); int st = 0; waitpid(pid, &st, 0);
  hx::count("fork_probes");
  if (WIFEXITED(st) && WEXITSTATUS(st) == 0) return true;
  size_t p = err.find("runtime error:"); if (p == std::string::npos) p = err.find("ERROR: AddressSanitizer"); if (p == std::string::npos) p = 0;
  size_t b = err.rfind('\n', p); b = (b == std::string::npos) ? 0 : b + 1; size_t e = err.find('\n', p); why = err.substr(b, (e == std::string::npos ? err.size() : e) - b);
  if (why.size() > 300) why.resize(300);
  if (WIFSIGNALED(st)) why += " [signal " + std::to_string(WTERMSIG(st)) + "]";
  return false;
}

// ---------------------------------------------------------------- the oracle
// Operand text, built lazily (only when a violation is reported or in verbose mode).
struct Desc {
  const XQ* a; const XQ* b; const XQ* t; long e; const char* txt;
  Desc() : a(0), b(0), t(0), e(-1), txt(0) {}
  std::string operator()() const {
    std::string s; if (txt) s = txt; if (t) s += "to=" + show(*t); if (a) s += (s.empty() ? "" : ", ") + show(*a); if (b) s += ", " + show(*b); if (e >= 0) s += ", exp=" + std::to_string(e); return s;
  }
};
inline Desc desc1(const XQ& a) { Desc d; d.a = &a; return d; }
inline Desc desc2(const XQ& a, const XQ& b) { Desc d; d.a = &a; d.b = &b; return d; }
inline Desc desc3(const XQ& t, const XQ& a, const XQ& b) { Desc d; d.t = &t; d.a = &a; d.b = &b; return d; }
inline Desc desce(const XQ& a, unsigned e) { Desc d; d.a = &a; d.e = e; return d; }
inline Desc desct(const char* t) { Desc d; d.txt = t; return d; }

// Returns false if a violation was reported.
template <typename N>
bool verify(const Site& s, Rounding_Dir dir, const char* cls, Result r, const N& to, const Ex& ex, const Desc& desc) {
  typedef typename Kind<N>::TP P; typedef typename Kind<N>::raw_t T;
  hx::checked();
  const Lim& L = lim<N>();
  Result_Class rc = result_class(r); Result_Relation rel = result_relation(r);
  bool unrep = !result_representable(r);
  const char* dn = dir_name(dir);
  static unsigned long& c_nan = hx::st().counters["ok.nan"]; static unsigned long& c_unk = hx::st().counters["ok.unknown_overflow"]; static unsigned long& c_unrep = hx::st().counters["ok.unrepresentable"];
  static unsigned long& c_ovf = hx::st().counters["ok.overflow"]; static unsigned long& c_exact = hx::st().counters["ok.exact"]; static unsigned long& c_inexact = hx::st().counters["ok.inexact"];
#define NK_FAIL(MON, WHAT) do { XQ st_ = unrep ? XQ() : dec(to); hx::violation(std::string("C11.") + MON + "." + s.op + "." + s.type + ":" + cls, \
    std::string(WHAT) + ": " + s.op + "<" + s.type + "/" + s.pol + ">(" + desc() + ", ROUND_" + dn + ") returned " + result_name(r) + " stored=" + (unrep ? "(unrepresentable)" : show(st_)) + " exact=" + (ex.u ? UNDEF_NAME[ex.u] : show(ex.v)) \
    + (ex.has_prod ? " product=" + show(ex.prod) : "") + (L.bounded ? " range=[" + L.lo.get_str() + "," + L.hi.get_str() + "]" : "")); return false; } while (0)
  reg_distinct(s, dn, cls, r);
  // --- undefined input
  if (ex.u != U_NONE) {
    if (rc != VC_NAN) NK_FAIL("nan", "undefined-not-nan");
    if (r == V_UNKNOWN_NEG_OVERFLOW || r == V_UNKNOWN_POS_OVERFLOW) NK_FAIL("nan", "undefined-reported-as-overflow");
    if (!unrep && P::has_nan && !dec(to).nan()) NK_FAIL("nan", "nan-result-but-stored-not-nan");
    ++c_nan;
    return true;
  }
  // --- defined input
  if (rc == VC_NAN) {
    if (r == V_UNKNOWN_NEG_OVERFLOW || r == V_UNKNOWN_POS_OVERFLOW) {
      if (!ex.has_prod || !L.bounded) NK_FAIL("ovf", "unknown-overflow-without-intermediate");
      bool neg = xcmp(ex.prod, L.lo) < 0, pos = xcmp(ex.prod, L.hi) > 0;
      if ((r == V_UNKNOWN_NEG_OVERFLOW && !neg) || (r == V_UNKNOWN_POS_OVERFLOW && !pos)) NK_FAIL("ovf", "unknown-overflow-claim-false");
      ++c_unk;
      return true;
    }
    NK_FAIL("nan", "nan-on-defined");
  }
  int true_rel;   // relation  exact REL stored  as a Result_Relation bit
  if (unrep) {
    // nothing stored: the class must be an infinity and say on which side the exact result left the range
    if (rc == VC_MINUS_INFINITY) { int c = ex.v.k == XQ::MINF ? 0 : 1; true_rel = c == 0 ? VR_EQ : VR_GT; if (!(rel & true_rel)) NK_FAIL("rel", "relation-false"); if (c != 0 && !(L.bounded && xcmp(ex.v, L.lo) < 0)) NK_FAIL("ovf", "overflow-claimed-in-range"); }
    else if (rc == VC_PLUS_INFINITY) { int c = ex.v.k == XQ::PINF ? 0 : -1; true_rel = c == 0 ? VR_EQ : VR_LT; if (!(rel & true_rel)) NK_FAIL("rel", "relation-false"); if (c != 0 && !(L.bounded && xcmp(ex.v, L.hi) > 0)) NK_FAIL("ovf", "overflow-claimed-in-range"); }
    else NK_FAIL("rel", "unrepresentable-normal-result");
    ++c_unrep;
    return true;
  }
  XQ st = dec(to);
  if (st.nan()) NK_FAIL("nan", "stored-nan-on-defined");
  if (rc == VC_MINUS_INFINITY && st.k != XQ::MINF) NK_FAIL("rel", "class-minus-infinity-but-stored-differs");
  if (rc == VC_PLUS_INFINITY && st.k != XQ::PINF) NK_FAIL("rel", "class-plus-infinity-but-stored-differs");
  int c = xcmp(ex.v, st);
  true_rel = c < 0 ? VR_LT : c > 0 ? VR_GT : VR_EQ;
  if (!(rel & true_rel)) {
    // wrong side of a directed rounding is the more specific diagnosis
    if (round_up(dir) && c > 0) NK_FAIL("dir", "round-up-below-exact");
    if (round_down(dir) && c < 0) NK_FAIL("dir", "round-down-above-exact");
    NK_FAIL("rel", "relation-false");
  }
  if (round_up(dir) && c > 0) NK_FAIL("dir", "round-up-below-exact");
  if (round_down(dir) && c < 0) NK_FAIL("dir", "round-down-above-exact");
  // overflow codes and infinities produced from finite exact results
  bool ovf_code = ((unsigned) r & (unsigned) V_OVERFLOW) != 0;
  if (ovf_code || (st.inf() && ex.v.fin())) {
    if (!L.bounded) NK_FAIL("ovf", "overflow-in-unbounded-type");
    bool below = xcmp(ex.v, L.lo) < 0, above = xcmp(ex.v, L.hi) > 0;
    bool claims_neg = (rel == VR_LT && ovf_code) || st.k == XQ::MINF;   // V_LT_INF: exact < min ; stored -inf
    bool claims_pos = (rel == VR_GT && ovf_code) || st.k == XQ::PINF;
    if (ovf_code && rel == VR_LT && !(st.fin() && st.q == L.lo)) NK_FAIL("ovf", "lt-inf-but-stored-not-min");
    if (ovf_code && rel == VR_GT && !(st.fin() && st.q == L.hi)) NK_FAIL("ovf", "gt-sup-but-stored-not-max");
    if (claims_neg && !below) NK_FAIL("ovf", above ? "overflow-wrong-side" : "overflow-claimed-in-range");
    if (claims_pos && !above) NK_FAIL("ovf", below ? "overflow-wrong-side" : "overflow-claimed-in-range");
    ++c_ovf;
  }
  // strict relation requested: the library must commit to one of = < >
  if (round_strict_relation(dir) && (round_up(dir) || round_down(dir)) && (!IsFlt<T>::value || P::check_fpu_inexact))
    if (rel != VR_EQ && rel != VR_LT && rel != VR_GT) NK_FAIL("rel", "strict-not-exact");
  // a stored finite value must lie inside the finite range of the destination
  if (L.bounded && st.fin() && (st.q < L.lo || st.q > L.hi)) NK_FAIL("ovf", "stored-outside-finite-range");
  ++(c == 0 ? c_exact : c_inexact);
  return true;
#undef NK_FAIL
}

} // namespace nk
#endif
