// psetseq_dom.hh — the six disjunct domains: names, random elements, domain-shaped arguments.
#ifndef PSETSEQ_DOM_HH
#define PSETSEQ_DOM_HH
#include "psetseq_model.hh"

namespace psq {

// mild random constraint (small coefficients): e REL 0
inline Linear_Expression mild_expr(int n, int maxc = 2, int maxb = 4) {
  Linear_Expression e;
  for (int i = 0; i < n; ++i) if (coin(65)) e += rnd(-maxc, maxc) * Variable(i);
  e += rnd(-maxb, maxb);
  return e;
}
inline Constraint mild_con(int n, bool strict_ok) {
  if (coin(12)) return rand_con(n, strict_ok);
  Linear_Expression e = mild_expr(n);
  int k = rnd(0, 99);
  if (k < 12) return e == 0;
  if (strict_ok && k < 35) return e > 0;
  return e >= 0;
}
inline Congruence mild_cg(int n) {
  Linear_Expression e;
  for (int i = 0; i < n; ++i) if (coin(65)) e += rnd(-2, 2) * Variable(i);
  e += rnd(-3, 3);
  int m = rnd(0, 99) < 22 ? 0 : rnd(1, 4);
  return (e %= 0) / m;
}
// c*(+-x_i [+- x_j]) + b REL 0 in the shape of the domain
inline Constraint shaped_con(int n, Kind k, bool strict_ok) {
  Linear_Expression e; int c = coin(75) ? 1 : rnd(2, 3);
  if (n > 0) {
    int i = rnd(0, n - 1); int si = coin() ? 1 : -1; e += (si * c) * Variable(i);
    if (k != K_BOX && n >= 2 && coin(60)) { int j = rnd(0, n - 2); if (j >= i) ++j; int sj = (k == K_BDS) ? -si : (coin() ? 1 : -1); e += (sj * c) * Variable(j); }
  }
  e += rnd(-6, 6);
  int r = rnd(0, 9);
  if (r < 6) return e >= 0;
  if (r < 8) return e == 0;
  return strict_ok ? Constraint(e > 0) : Constraint(e >= 0);
}

template <class D> inline D poly_rand(int n, bool nnc) {
  int how = rnd(0, 9);
  if (how < 7) {
    D p(n); int k = rnd(1, 3);
    for (int j = 0; j < k; ++j) p.add_constraint(mild_con(n, nnc));
    if (coin(70)) for (int i = 0; i < n; ++i) { p.add_constraint(Variable(i) >= rnd(-5, 0)); if (nnc && coin(25)) p.add_constraint(Variable(i) < rnd(1, 5)); else p.add_constraint(Variable(i) <= rnd(0, 5)); }
    return p;
  }
  D p(n, EMPTY); p.add_generator(rand_gen(n, nnc, true));
  int k = rnd(0, 3); for (int j = 0; j < k; ++j) p.add_generator(rand_gen(n, nnc, false));
  return p;
}
template <class D> inline D shape_rand(int n, Kind kind, bool strict_ok) {
  D p(n); int k = rnd(1, 3);
  for (int j = 0; j < k; ++j) p.refine_with_constraint(shaped_con(n, kind, strict_ok));
  if (coin(70)) for (int i = 0; i < n; ++i) { p.refine_with_constraint(Variable(i) >= rnd(-5, 0)); if (strict_ok && coin(25)) p.refine_with_constraint(Variable(i) < rnd(1, 5)); else p.refine_with_constraint(Variable(i) <= rnd(0, 5)); }
  return p;
}
inline Linear_Expression nonzero_hom(int n) {
  Linear_Expression e; bool nz = false;
  for (int i = 0; i < n; ++i) if (coin(60)) { int c = rnd(-2, 2); if (c) nz = true; e += c * Variable(i); }
  if (!nz) e += Variable(rnd(0, n - 1));
  return e;
}
inline Grid grid_rand(int n) {
  int how = rnd(0, 9);
  if (how < 6 || n == 0) { Grid g(n); int k = rnd(0, 3); for (int j = 0; j < k; ++j) g.add_congruence(mild_cg(n)); return g; }
  Grid g(n, EMPTY);
  Linear_Expression e; for (int i = 0; i < n; ++i) if (coin(60)) e += rnd(-3, 3) * Variable(i);
  g.add_grid_generator(grid_point(e, rnd(1, 3)));
  int k = rnd(0, 2); for (int j = 0; j < k; ++j) g.add_grid_generator(parameter(nonzero_hom(n), rnd(1, 2)));
  if (coin(30)) g.add_grid_generator(grid_line(nonzero_hom(n)));
  return g;
}

struct DomCPoly { typedef C_Polyhedron D; typedef ConvexModel M; static const Kind kind = K_CPOLY; static const bool strict_ok = false; static const char* name() { return "cpoly"; }
  static D rand_elem(int n) { return poly_rand<D>(n, false); } static Constraint rand_c(int n) { return mild_con(n, false); } };
struct DomNNC { typedef NNC_Polyhedron D; typedef ConvexModel M; static const Kind kind = K_NNC; static const bool strict_ok = true; static const char* name() { return "nncpoly"; }
  static D rand_elem(int n) { return poly_rand<D>(n, true); } static Constraint rand_c(int n) { return mild_con(n, true); } };
struct DomGrid { typedef Grid D; typedef GridModel M; static const Kind kind = K_GRID; static const bool strict_ok = false; static const char* name() { return "grid"; }
  static D rand_elem(int n) { return grid_rand(n); } static Constraint rand_c(int n) { return mild_expr(n) == 0; } };
struct DomBDS { typedef BD_Shape<mpq_class> D; typedef ConvexModel M; static const Kind kind = K_BDS; static const bool strict_ok = false; static const char* name() { return "bds"; }
  static D rand_elem(int n) { return shape_rand<D>(n, K_BDS, false); } static Constraint rand_c(int n) { return shaped_con(n, K_BDS, false); } };
struct DomOct { typedef Octagonal_Shape<mpq_class> D; typedef ConvexModel M; static const Kind kind = K_OCT; static const bool strict_ok = false; static const char* name() { return "oct"; }
  static D rand_elem(int n) { return shape_rand<D>(n, K_OCT, false); } static Constraint rand_c(int n) { return shaped_con(n, K_OCT, false); } };
struct DomBox { typedef Rational_Box D; typedef ConvexModel M; static const Kind kind = K_BOX; static const bool strict_ok = true; static const char* name() { return "box"; }
  static D rand_elem(int n) { return shape_rand<D>(n, K_BOX, true); } static Constraint rand_c(int n) { return shaped_con(n, K_BOX, true); } };

// shrink an element by one more domain-shaped constraint
template <class DOM> inline void restrict_elem(typename DOM::D& d, int n) {
  if constexpr (DOM::kind == K_GRID) d.add_congruence(mild_cg(n));
  else d.refine_with_constraint(DOM::rand_c(n));
}
// two adjacent pieces of d
template <class DOM> inline void split_elem(const typename DOM::D& d, typename DOM::D& d1, typename DOM::D& d2, int n) {
  d1 = d; d2 = d;
  if constexpr (DOM::kind == K_GRID) {
    Linear_Expression e = n > 0 ? nonzero_hom(n) : Linear_Expression(0); int m = rnd(2, 3);
    d1.add_congruence((e %= 0) / m); d2.add_congruence((e %= 1) / m);
  } else {
    Constraint c = DOM::rand_c(n); Linear_Expression le(c.expression());
    d1.refine_with_constraint(le >= 0);
    if (DOM::strict_ok && coin()) d2.refine_with_constraint(le < 0); else d2.refine_with_constraint(le <= 0);
  }
}
template <class DOM> inline typename DOM::D undetected_empty(int n) {
  typedef typename DOM::D D;
  if (n == 0 || coin(30)) return D(n, EMPTY);
  D d(n); Variable x(rnd(0, n - 1));
  if constexpr (DOM::kind == K_GRID) { d.add_congruence((x %= 0) / 2); d.add_congruence((x %= 1) / 2); }
  else { d.refine_with_constraint(x >= 1); d.refine_with_constraint(x <= 0); }
  return d;
}

// entry points of the per-domain translation units
void run_cpoly(); void run_nncpoly(); void run_grid(); void run_bds(); void run_oct(); void run_box();

} // namespace psq
#endif
