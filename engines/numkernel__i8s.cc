// numkernel part: exhaustive 8-bit units, signed char
#include "numkernel_i8.hh"
namespace nk { void i8_register_signed(Units& q, Units& t) { i8_register<signed char>(q, t); } }
