// wrapseq: instantiation of the domain adapter for BD_Shape<mpz_class> (see wrapseq.hh).
#include "wrapseq.hh"
WRAPSEQ_REGISTER(bd_mpz, Parma_Polyhedra_Library::BD_Shape<mpz_class>)
