// prodseq, pair (C_Polyhedron, Grid): the five reduction policies of this pair.
#include "prodseq.hh"
namespace prodseq {
IFactory* factory_cpoly_grid(int red) { return pair_factory<C_Polyhedron, Grid >("cpoly_grid", red); }
}
