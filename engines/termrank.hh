// termrank — shared header of the termination-analysis engine (property C18).
//
// engines/termrank.cc holds the workload generator and the oracle (RefLP only,
// no PPL code involved in any decision); this header holds the description of
// one loop relation (`Loop`), the record of what PPL answered (`Out`) and the
// template `run_calls<PSET>` that builds the pointset(s) and performs the
// fourteen termination entry points on it.  One TU per PSET family
// (termrank.cc: C/NNC polyhedra, termrank__bd.cc, termrank__oct.cc,
// termrank__box.cc) so that the big templates compile in parallel.
#ifndef TERMRANK_HH
#define TERMRANK_HH
#include "pplx.hh"
#include <type_traits>

namespace termrank {
using namespace pplx;

enum Kind { K_C = 0, K_NNC, K_BD, K_OCT, K_BOX, K_COUNT };
inline const char* kind_name(int k) {
  static const char* const nm[K_COUNT] = { "C_Polyhedron", "NNC_Polyhedron", "BD_Shape<mpq_class>", "Octagonal_Shape<mpq_class>", "Rational_Box" };
  return nm[k];
}

// One linear constraint   a.z + b  REL  0    (REL: 0 '>=', 1 '>', 2 '==').
struct LC {
  std::vector<mpz_class> a; mpz_class b; int rel;
  LC() : b(0), rel(0) {}
  LC(int dim, int r) : a(dim), b(0), rel(r) {}
};

// A loop over n program variables.
//   guard : constraints over x            (dims 0..n-1 = x_1..x_n)
//   upd   : constraints over (x', x)      (dims 0..n-1 = x', n..2n-1 = x)  [documented layout]
// One-pointset form: the relation is guard (shifted by n) /\ upd in a 2n-dimensional pointset.
// Two-pointset form: pset_before = guard (n dims), pset_after = upd (2n dims).
struct Loop {
  int n, kind; bool two;
  std::vector<LC> guard, upd;
  bool empty_ctor_before, empty_ctor_after;   // build that pointset with the EMPTY constructor
  int build_mode_a, build_mode_b;             // how the pointset is built / which lazy state it is left in
  int call_mask;                              // which entry points to call (bit per call)
  unsigned order_seed;                        // permutation of the calls
  int fresh_mask;                             // calls made on a fresh copy of the pointset(s)
  std::string tmpl;                           // name of the workload template (for traces / distinct tokens)
  Loop() : n(0), kind(0), two(false), empty_ctor_before(false), empty_ctor_after(false), build_mode_a(0), build_mode_b(0), call_mask(0x7f), order_seed(0), fresh_mask(0) {}
};

enum CallId { CALL_TEST_MS = 0, CALL_TEST_PR, CALL_ONE_MS, CALL_ONE_PR, CALL_ALL_MS, CALL_ALL_PR, CALL_QUASI_MS, CALL_COUNT };
inline const char* call_base(int c) {
  static const char* const nm[CALL_COUNT] = { "test_MS", "test_PR", "one_MS", "one_PR", "all_MS", "all_PR", "quasi_MS" };
  return nm[c];
}

struct Out {
  bool built;                 // pointsets constructed without incident
  int done;                   // bit per call that returned normally
  bool verdict[CALL_COUNT];   // test_* / one_* return values
  Generator mu_ms, mu_pr;
  C_Polyhedron s_ms, s_dec, s_bnd;
  NNC_Polyhedron s_pr;
  Sys reported;               // closure of the PPL-reported constraints of the relation, over (x', x)
  bool reported_ok;
  bool pset_empty;            // PPL's own is_empty() of the relation (one form) / of pset_before (two form)
  std::string state_word;     // lazy-state word of the pointset before the first call (polyhedra: ascii_dump status line)
  Out() : built(false), done(0), mu_ms(point()), mu_pr(point()), s_ms(0, EMPTY), s_dec(0, EMPTY), s_bnd(0, EMPTY), s_pr(0, EMPTY), reported_ok(false), pset_empty(false) {
    for (int i = 0; i < CALL_COUNT; ++i) verdict[i] = false;
  }
};

inline std::string method_name(int call, bool two) { return std::string(call_base(call)) + (two ? "_2" : ""); }

inline Constraint to_ppl(const LC& c) {
  Linear_Expression e;
  for (size_t i = 0; i < c.a.size(); ++i) if (c.a[i] != 0) e += Coefficient(c.a[i]) * Variable(i);
  e += Coefficient(c.b);
  return c.rel == 2 ? Constraint(e == 0) : c.rel == 1 ? Constraint(e > 0) : Constraint(e >= 0);
}
inline std::string show_lc(const LC& c, int n, bool guard_only) {
  std::ostringstream o; bool first = true;
  for (size_t i = 0; i < c.a.size(); ++i) if (c.a[i] != 0) {
    mpz_class v = c.a[i];
    if (v < 0) o << (first ? "-" : " - "); else if (!first) o << " + ";
    if (abs(v) != 1) o << abs(v) << "*";
    if (guard_only) o << "x" << i; else if ((int) i < n) o << "x" << i << "'"; else o << "x" << (i - n);
    first = false;
  }
  if (first) o << c.b; else if (c.b != 0) o << (c.b < 0 ? " - " : " + ") << abs(c.b);
  o << (c.rel == 2 ? " = 0" : c.rel == 1 ? " > 0" : " >= 0");
  return o.str();
}

// The engine-side step wrapper (defined in termrank.cc): trace, count, weight budget, exception policy.
bool step(const std::string& name, const std::function<void()>& f);
// Expected-exception step: the call must throw std::invalid_argument.
void step_expect_invalid(const std::string& name, const std::function<void()>& f);

template <typename PSET> struct is_poly { static const bool value = std::is_base_of<Polyhedron, PSET>::value; };

template <typename PSET>
inline std::string state_word_of(const PSET& p) {
  std::ostringstream o; p.ascii_dump(o); std::string s = o.str();
  if (is_poly<PSET>::value) {
    // second line of a polyhedron dump is the status line: "-ZE -EM +CM ..."
    size_t a = s.find('\n'); if (a == std::string::npos) return "?";
    size_t b = s.find('\n', a + 1); return s.substr(a + 1, b == std::string::npos ? std::string::npos : b - a - 1);
  }
  // shapes / boxes: first status-looking line (contains +/- flags), else a hash-free constant
  size_t pos = 0;
  for (int line = 0; line < 4 && pos < s.size(); ++line) {
    size_t e = s.find('\n', pos); std::string l = s.substr(pos, e == std::string::npos ? std::string::npos : e - pos);
    if (!l.empty() && (l[0] == '+' || l[0] == '-') && l.size() > 2 && isalpha((unsigned char) l[1])) return l;
    if (e == std::string::npos) break; pos = e + 1;
  }
  return "-";
}

// Builds a pointset of dimension `dim` whose point set is exactly { z | all cs } (cs are representable in PSET by
// construction of the workload), leaving it in one of several lazy states.
template <typename PSET>
inline PSET build(int dim, const std::vector<LC>& cs, bool empty_ctor, int mode) {
  if (empty_ctor) { PSET e(dim, EMPTY); return e; }
  PSET p(dim, UNIVERSE);
  if (mode % 2 == 0) { for (size_t i = 0; i < cs.size(); ++i) p.add_constraint(to_ppl(cs[i])); }
  else { Constraint_System sys; for (size_t i = 0; i < cs.size(); ++i) sys.insert(to_ppl(cs[i])); p.add_constraints(sys); }
  switch (mode / 2) {
  case 0: break;                                           // constraints just added, nothing computed
  case 1: (void) p.minimized_constraints(); break;         // minimised
  case 2: (void) p.is_empty(); break;                      // emptiness known
  case 3:
    if constexpr (is_poly<PSET>::value) {                  // rebuilt from its generators: only generators up to date
      PSET c(p);
      if (c.is_empty()) return PSET(dim, EMPTY);
      Generator_System gs = c.generators();
      PSET q(gs);
      if ((int) q.space_dimension() < dim) q.add_space_dimensions_and_project(dim - q.space_dimension());
      return q;
    } else { (void) p.constraints(); }
    break;
  default:
    if constexpr (is_poly<PSET>::value) { (void) p.minimized_generators(); } else { (void) p.is_universe(); }
    break;
  }
  return p;
}

template <typename PSET>
inline void run_calls(const Loop& L, Out& O) {
  const int n = L.n;
  std::vector<LC> all;            // one-form relation: guard shifted to the unprimed half, then upd
  for (size_t i = 0; i < L.guard.size(); ++i) { LC c(2 * n, L.guard[i].rel); c.b = L.guard[i].b; for (int j = 0; j < n; ++j) c.a[n + j] = L.guard[i].a[j]; all.push_back(c); }
  for (size_t i = 0; i < L.upd.size(); ++i) all.push_back(L.upd[i]);

  // Pointsets live on the heap so that a failed construction leaves a well-defined state.
  struct Holder { PSET* p; Holder() : p(0) {} ~Holder() { delete p; } } A, B;
  if (!step("build", [&]() {
        if (L.two) { B.p = new PSET(build<PSET>(n, L.guard, L.empty_ctor_before, L.build_mode_b)); A.p = new PSET(build<PSET>(2 * n, L.upd, L.empty_ctor_after, L.build_mode_a)); }
        else A.p = new PSET(build<PSET>(2 * n, all, L.empty_ctor_after || L.empty_ctor_before, L.build_mode_a));
      })) return;
  O.built = true;
  O.state_word = state_word_of(*A.p);
  // PPL-reported constraints (through copies): used only to re-validate witnesses by plain arithmetic.
  if (!step("observe", [&]() {
        PSET ca(*A.p); Sys sa = ref::conv(ca.constraints(), 2 * n);
        O.reported = ref::closure_of(sa);
        if (L.two) { PSET cb(*B.p); Sys sb = ref::conv(cb.constraints(), n); sb = ref::closure_of(sb); for (size_t i = 0; i < sb.size(); ++i) O.reported.push_back(ref::shift(sb[i], 2 * n, n)); PSET cb2(*B.p); O.pset_empty = cb2.is_empty(); }
        else { PSET c2(*A.p); O.pset_empty = c2.is_empty(); }
        O.reported_ok = true;
      })) return;

  std::vector<int> order; for (int c = 0; c < CALL_COUNT; ++c) if (L.call_mask & (1 << c)) order.push_back(c);
  { std::mt19937 g(L.order_seed); for (size_t i = order.size(); i > 1; --i) std::swap(order[i - 1], order[g() % i]); }
  for (size_t k = 0; k < order.size() && !hx::st().case_tainted; ++k) {
    const int c = order[k];
    Holder FA, FB;               // fresh copies for this call, if asked
    const PSET* pa = A.p; const PSET* pb = B.p;
    if (L.fresh_mask & (1 << c)) { FA.p = new PSET(*A.p); pa = FA.p; if (L.two) { FB.p = new PSET(*B.p); pb = FB.p; } }
    const std::string nm = method_name(c, L.two);
    bool ok = false;
    switch (c) {
    case CALL_TEST_MS: ok = step(nm, [&]() { O.verdict[c] = L.two ? termination_test_MS_2(*pb, *pa) : termination_test_MS(*pa); }); break;
    case CALL_TEST_PR: ok = step(nm, [&]() { O.verdict[c] = L.two ? termination_test_PR_2(*pb, *pa) : termination_test_PR(*pa); }); break;
    case CALL_ONE_MS: O.mu_ms = point(77 * Variable(0)); ok = step(nm, [&]() { O.verdict[c] = L.two ? one_affine_ranking_function_MS_2(*pb, *pa, O.mu_ms) : one_affine_ranking_function_MS(*pa, O.mu_ms); }); break;
    case CALL_ONE_PR: O.mu_pr = point(-77 * Variable(5)); ok = step(nm, [&]() { O.verdict[c] = L.two ? one_affine_ranking_function_PR_2(*pb, *pa, O.mu_pr) : one_affine_ranking_function_PR(*pa, O.mu_pr); }); break;
    case CALL_ALL_MS: O.s_ms = C_Polyhedron(5, UNIVERSE); ok = step(nm, [&]() { if (L.two) all_affine_ranking_functions_MS_2(*pb, *pa, O.s_ms); else all_affine_ranking_functions_MS(*pa, O.s_ms); }); break;
    case CALL_ALL_PR: O.s_pr = NNC_Polyhedron(1, EMPTY); ok = step(nm, [&]() { if (L.two) all_affine_ranking_functions_PR_2(*pb, *pa, O.s_pr); else all_affine_ranking_functions_PR(*pa, O.s_pr); }); break;
    case CALL_QUASI_MS: O.s_dec = C_Polyhedron(7, EMPTY); O.s_bnd = C_Polyhedron(2, UNIVERSE);
      ok = step(nm, [&]() { if (L.two) all_affine_quasi_ranking_functions_MS_2(*pb, *pa, O.s_dec, O.s_bnd); else all_affine_quasi_ranking_functions_MS(*pa, O.s_dec, O.s_bnd); }); break;
    }
    if (ok) { O.done |= (1 << c); if (c <= CALL_ONE_PR) hx::trace() += (O.verdict[c] ? "=true" : "=false"); }
  }
}

// Ill-dimensioned calls: documented to throw std::invalid_argument.
template <typename PSET>
inline void run_bad_dims(int n, bool two) {
  if (two) {
    PSET b(n, UNIVERSE), a(2 * n + 1, UNIVERSE); Generator mu(point()); C_Polyhedron s(0); NNC_Polyhedron t(0); C_Polyhedron d(0), e(0);
    step_expect_invalid("test_MS_2:dims", [&]() { (void) termination_test_MS_2(b, a); });
    step_expect_invalid("test_PR_2:dims", [&]() { (void) termination_test_PR_2(b, a); });
    step_expect_invalid("one_MS_2:dims", [&]() { (void) one_affine_ranking_function_MS_2(b, a, mu); });
    step_expect_invalid("one_PR_2:dims", [&]() { (void) one_affine_ranking_function_PR_2(b, a, mu); });
    step_expect_invalid("all_MS_2:dims", [&]() { all_affine_ranking_functions_MS_2(b, a, s); });
    step_expect_invalid("all_PR_2:dims", [&]() { all_affine_ranking_functions_PR_2(b, a, t); });
    step_expect_invalid("quasi_MS_2:dims", [&]() { all_affine_quasi_ranking_functions_MS_2(b, a, d, e); });
  } else {
    PSET a(2 * n + 1, UNIVERSE); Generator mu(point()); C_Polyhedron s(0); NNC_Polyhedron t(0); C_Polyhedron d(0), e(0);
    step_expect_invalid("test_MS:dims", [&]() { (void) termination_test_MS(a); });
    step_expect_invalid("test_PR:dims", [&]() { (void) termination_test_PR(a); });
    step_expect_invalid("one_MS:dims", [&]() { (void) one_affine_ranking_function_MS(a, mu); });
    step_expect_invalid("one_PR:dims", [&]() { (void) one_affine_ranking_function_PR(a, mu); });
    step_expect_invalid("all_MS:dims", [&]() { all_affine_ranking_functions_MS(a, s); });
    step_expect_invalid("all_PR:dims", [&]() { all_affine_ranking_functions_PR(a, t); });
    step_expect_invalid("quasi_MS:dims", [&]() { all_affine_quasi_ranking_functions_MS(a, d, e); });
  }
}

// Per-family entry points (one TU each).
void run_calls_C(const Loop&, Out&);    void run_bad_dims_C(int n, bool two);
void run_calls_NNC(const Loop&, Out&);  void run_bad_dims_NNC(int n, bool two);
void run_calls_BD(const Loop&, Out&);   void run_bad_dims_BD(int n, bool two);
void run_calls_OCT(const Loop&, Out&);  void run_bad_dims_OCT(int n, bool two);
void run_calls_BOX(const Loop&, Out&);  void run_bad_dims_BOX(int n, bool two);

} // namespace termrank
#endif
