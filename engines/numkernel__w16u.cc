// numkernel part: 16-bit native integers (unsigned short), boundary-biased random cases (profile wide)
#include "numkernel_units.hh"
namespace nk {
void w16u_case() {
  typedef unsigned short T;
  switch (hx::rnd(0, 8)) {
  case 0: case 1: full_case<Checked_Number<T, PX> >(); break;
  case 2: case 3: full_case<Checked_Number<T, PW> >(); break;
  case 4: case 5: full_case<Checked_Number<T, PB> >(); break;
  case 6: case 7: full_case<T>(); break;
  default: { hx::tr("bounded throwing interface <" + kname<Checked_Number<T, PB> >() + "> 24x48 biased operands"); typedef Checked_Number<T, PB> NB; BoundedMon<T>::run(biased<NB>(24), biased<NB>(48), biased<NB>(3)); }
  }
}
}
