// ivalencl, policy mpz_c: Interval<mpz_class, Z_Box_Interval_Info>
#include "ivalencl_impl.hh"
#include "interfaces/interfaced_boxes.hh"
namespace ivx { void case_mpz() { run_policy<Interval<mpz_class, Z_Box_Interval_Info> >("mpz_c", K_EXACT_C); } }
