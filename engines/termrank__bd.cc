// termrank: instantiation of the termination entry points for BD_Shape<mpq_class> (see termrank.hh).
#include "termrank.hh"
namespace termrank {
void run_calls_BD(const Loop& L, Out& O) { run_calls<Parma_Polyhedra_Library::BD_Shape<mpq_class> >(L, O); }
void run_bad_dims_BD(int n, bool two) { run_bad_dims<Parma_Polyhedra_Library::BD_Shape<mpq_class> >(n, two); }
}
