// shapeseq: instantiation of the shape adapter for Octagonal_Shape<double> (see shapeseq.hh).
#include "shapeseq.hh"
SHAPESEQ_REGISTER(oct_double, Parma_Polyhedra_Library::Octagonal_Shape<double>)
