// numkernel — work units.  A "case" of the framework runs exactly one unit.
//   profile i8   : the units enumerate the 8-bit operand space exhaustively (case index -> unit index, no randomness)
//   other profiles: a unit draws boundary-biased operands from hx::rng()
#ifndef NUMKERNEL_UNITS_HH
#define NUMKERNEL_UNITS_HH
#include "numkernel_ops.hh"

namespace nk {

struct Unit { std::string name; std::function<void()> run; };
typedef std::vector<Unit> Units;

// registration entry points implemented by the part TUs
#define NK_I8_PARTS(X) X(sX) X(sW) X(sB) X(sR) X(sC) X(uX) X(uW) X(uB) X(uR) X(uC)
#define NK_DECL(P) void i8_register_##P(Units& quick, Units& thorough);
NK_I8_PARTS(NK_DECL)
#undef NK_DECL
void w16_case(); void w32_case(); void w64_case();
void float_case_f(); void float_case_d(); void float_case_l();
void gmp_case();

// ---------------------------------------------------------------- operand generators
template <typename N> inline N from_bits8(unsigned b) { N n = fresh<N>(); typedef typename Kind<N>::raw_t T; Kind<N>::rv(n) = (T) (unsigned char) b; return n; }
template <typename N> inline std::vector<N> range8(unsigned lo, unsigned hi) { std::vector<N> v; for (unsigned b = lo; b <= hi; ++b) v.push_back(from_bits8<N>(b)); return v; }

static const unsigned EXPS8[] = { 0, 1, 2, 3, 4, 5, 6, 7, 8, 9, 10, 15, 16, 17, 31, 32, 33, 63, 64, 65, 1000, 0x7fffffffU, 0x80000000U, 0xffffffffU };

// boundary-biased integer of a native integer type T (as raw bit pattern, so the specials of extended policies are hit too)
template <typename T> inline T biased_int() {
  typedef typename std::make_unsigned<T>::type U; const int bits = sizeof(T) * 8;
  U mx = std::numeric_limits<T>::max(), mn = (U) std::numeric_limits<T>::min();
  int k = hx::rnd(0, 99); U v;
  if (k < 12) v = (U) (mn + (U) hx::rnd(0, 3));                       // min, min+1.. (the encodings of -inf, nan for signed)
  else if (k < 24) v = (U) (mx - (U) hx::rnd(0, 3));                  // max, max-1.. (+inf; unsigned: -inf, nan)
  else if (k < 36) v = (U) (T) hx::rnd(-3, 3);                        // around zero
  else if (k < 52) { int e = hx::rnd(1, bits - 1); v = (U) (((U) 1 << e) + (U) (T) hx::rnd(-2, 2)); if (hx::coin() && std::is_signed<T>::value) v = (U) (0 - v); }   // +-2^e +-2
  else if (k < 64) { int e = hx::rnd(1, bits / 2 + 1); v = (U) (((U) 1 << e) - 1 + (U) hx::rnd(0, 2)); v = (U) (v * (U) hx::rnd(1, 3)); if (hx::coin() && std::is_signed<T>::value) v = (U) (0 - v); } // sqrt-of-limit area
  else if (k < 72) { U r = (U) hx::rng()(); int sh = hx::rnd(0, bits - 1); v = (U) (r >> sh); if (hx::coin() && std::is_signed<T>::value) v = (U) (0 - v); }           // random magnitude
  else if (k < 80) { U d = (U) hx::rnd(2, 9); v = (U) (mx / d + (U) (T) hx::rnd(-1, 1)); if (hx::coin() && std::is_signed<T>::value) v = (U) (0 - v); }               // limit / small
  else v = (U) hx::rng()();
  return (T) v;
}
template <typename N> inline std::vector<N> biased_ints(int n) { typedef typename Kind<N>::raw_t T; std::vector<N> v; for (int i = 0; i < n; ++i) { N x = fresh<N>(); Kind<N>::rv(x) = biased_int<T>(); v.push_back(x); } return v; }
template <typename T> inline std::vector<unsigned> biased_exps(int n) {
  const unsigned bits = std::is_class<T>::value ? 64 : sizeof(T) * 8; std::vector<unsigned> v;
  for (int i = 0; i < n; ++i) { int k = hx::rnd(0, 99); unsigned e;
    if (k < 10) e = 0; else if (k < 50) e = (unsigned) hx::rnd(1, (int) bits - 2); else if (k < 80) e = bits - 2 + (unsigned) hx::rnd(0, 4);
    else if (k < 90) e = (unsigned) hx::rnd(0, 200); else e = hx::coin() ? 0xffffffffU - (unsigned) hx::rnd(0, 2) : 0x80000000U - 1 + (unsigned) hx::rnd(0, 2);
    v.push_back(e); }
  return v;
}

// ---------------------------------------------------------------- throwing interface of bounded coefficients
// Checked_Number<T, Bounded policy>: operators and *_assign functions either give the value the unbounded (GMP)
// configuration gives, or throw std::overflow_error; they never return a different value.
template <typename T> struct BoundedMon {
  typedef Checked_Number<T, PB> N;
  static std::string nm(const char* op) { return std::string(op); }
  static void judge(const char* op, const char* cls, const Ex& ex, bool threw_overflow, bool threw_other, const std::string& what, const N* got, const Desc& d) {
    hx::checked();
    const Lim& L = lim<N>();
    std::string key = std::string("C11.ovf.") + op + "." + tname<N>() + ":" + cls;
    std::string head = std::string(op) + "<" + kname<N>() + ">(" + d() + ")";
    bool exact_fits = ex.u == U_NONE && kinfo<N>().representable(ex.v);
    bool prod_ovf = ex.has_prod && (xcmp(ex.prod, L.lo) < 0 || xcmp(ex.prod, L.hi) > 0);
    if (threw_other) { hx::violation(std::string("C11.rel.") + op + "." + tname<N>() + ":" + cls, head + " threw " + what + ", exact=" + show(ex.v)); return; }
    if (threw_overflow) { if (exact_fits && !prod_ovf) hx::violation(key, head + " threw std::overflow_error(" + what + ") although the exact result " + show(ex.v) + " is representable"); return; }
    XQ st = dec(*got);
    if (!exact_fits || xcmp(ex.v, st) != 0) hx::violation(std::string("C11.rel.") + op + "." + tname<N>() + ":" + cls, head + " returned " + show(st) + " without an exception, exact=" + show(ex.v));
  }
  template <typename F> static void one(const char* op, const Ex& ex, const Desc& d, F f) {
    const char* cls = intern(res_class(kinfo<N>(), ex, false));
    if (g_verbose()) fprintf(stderr, "op: %s<%s>(%s)\n", op, kname<N>().c_str(), d().c_str());
    N got; bool to = false, other = false; std::string what;
    try { got = f(); }
    catch (const std::overflow_error& e) { to = true; what = e.what(); }
    catch (const std::exception& e) { other = true; what = std::string(typeid(e).name()) + ": " + e.what(); }
    judge(op, cls, ex, to, other, what, &got, d);
  }
  static void run(const std::vector<N>& xs, const std::vector<N>& ys, const std::vector<N>& accs) {
    unsigned long done = 0;
    for (size_t i = 0; i < xs.size(); ++i) {
      const N& x = xs[i]; XQ ax = dec(x); Desc d1 = desc1(ax);
      one("operator-neg", ex_neg(ax), d1, [&]() { return -x; }); one("neg_assign", ex_neg(ax), d1, [&]() { N r; neg_assign(r, x); return r; });
      one("abs_assign", ex_abs(ax), d1, [&]() { N r; abs_assign(r, x); return r; });
      one("operator++", ex_add(ax, XQ(Q(1))), d1, [&]() { N r(x); ++r; return r; }); one("operator--", ex_sub(ax, XQ(Q(1))), d1, [&]() { N r(x); --r; return r; });
      if (::sgn(ax.q) >= 0) { Ex e = ex_sqrt(ax); if (e.v.root) { e.v.root = false; Z z; mpz_sqrt(z.get_mpz_t(), ax.q.get_num_mpz_t()); e.v.q = Q(z); }   // GMP configuration: integer square root (floor)
        one("sqrt_assign", e, d1, [&]() { N r; sqrt_assign(r, x); return r; }); }
      done += 6;
      for (unsigned e = 0; e < 10; ++e) { Desc de = desce(ax, e);
        one("mul_2exp_assign", ex_mul_2exp(ax, e), de, [&]() { N r; mul_2exp_assign(r, x, e); return r; });
        done += 1; }
      for (size_t j = 0; j < ys.size(); ++j) {
        const N& y = ys[j]; XQ ay = dec(y); Desc d2 = desc2(ax, ay);
        one("operator+", ex_add(ax, ay), d2, [&]() { return x + y; }); one("operator-", ex_sub(ax, ay), d2, [&]() { return x - y; }); one("operator*", ex_mul(ax, ay), d2, [&]() { return x * y; });
        one("operator+=", ex_add(ax, ay), d2, [&]() { N r(x); r += y; return r; }); one("operator-=", ex_sub(ax, ay), d2, [&]() { N r(x); r -= y; return r; }); one("operator*=", ex_mul(ax, ay), d2, [&]() { N r(x); r *= y; return r; });
        one("gcd_assign", ex_gcd(ax, ay), d2, [&]() { N r; gcd_assign(r, x, y); return r; }); one("lcm_assign", ex_lcm(ax, ay), d2, [&]() { N r; lcm_assign(r, x, y); return r; });
        done += 8;
        if (::sgn(ay.q) != 0) {   // policy contract: check_div_zero is off
          one("operator/", ex_idiv(ax, ay), d2, [&]() { return x / y; }); one("operator%", ex_rem(ax, ay), d2, [&]() { return x % y; });
          one("operator/=", ex_idiv(ax, ay), d2, [&]() { N r(x); r /= y; return r; }); one("operator%=", ex_rem(ax, ay), d2, [&]() { N r(x); r %= y; return r; });
          done += 4;
          if (::sgn(ex_rem(ax, ay).v.q) == 0) { one("exact_div_assign", ex_div(ax, ay), d2, [&]() { N r; exact_div_assign(r, x, y); return r; }); ++done; }
        }
        for (size_t k = 0; k < accs.size(); ++k) { const N& a = accs[k]; XQ at = dec(a); Desc d3 = desc3(at, ax, ay);
          one("add_mul_assign", ex_fused(at, ax, ay, false), d3, [&]() { N r(a); add_mul_assign(r, x, y); return r; });
          one("sub_mul_assign", ex_fused(at, ax, ay, true), d3, [&]() { N r(a); sub_mul_assign(r, x, y); return r; }); done += 2; }
      }
    }
    hx::count("op.bounded_throwing_interface", done);
    hx::distinct(std::string("bounded-throwing-interface|") + tname<N>());
  }
};

} // namespace nk
#endif
