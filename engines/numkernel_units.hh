// numkernel — work units.  A "case" of the framework runs exactly one unit.
//   profile i8   : the units enumerate the 8-bit operand space exhaustively (case index -> unit index, no randomness)
//   other profiles: a unit draws boundary-biased operands from hx::rng()
#ifndef NUMKERNEL_UNITS_HH
#define NUMKERNEL_UNITS_HH
#include "numkernel_ops.hh"

namespace nk {

struct Unit { std::string name; std::function<void()> run; };
typedef std::vector<Unit> Units;

// registration entry points implemented by the part TUs
#define NK_I8_PARTS(X) X(sX) X(sW) X(sB) X(sR) X(sC) X(uX) X(uW) X(uB) X(uR) X(uC)
#define NK_DECL(P) void i8_register_##P(Units& quick, Units& thorough);
NK_I8_PARTS(NK_DECL)
#undef NK_DECL
void w16s_case(); void w16u_case(); void w32s_case(); void w32u_case(); void w64s_case(); void w64u_case(); void w64ll_case();
void float_case_f(); void float_case_d(); void float_case_l();
void gmp_case_z(); void gmp_case_q();

// ---------------------------------------------------------------- operand generators
template <typename N> inline N from_bits8(unsigned b) { N n = fresh<N>(); typedef typename Kind<N>::raw_t T; Kind<N>::rv(n) = (T) (unsigned char) b; return n; }
template <typename N> inline std::vector<N> range8(unsigned lo, unsigned hi) { std::vector<N> v; for (unsigned b = lo; b <= hi; ++b) v.push_back(from_bits8<N>(b)); return v; }

static const unsigned EXPS8[] = { 0, 1, 2, 3, 4, 5, 6, 7, 8, 9, 10, 15, 16, 17, 31, 32, 33, 63, 64, 65, 1000, 0x7fffffffU, 0x80000000U, 0xffffffffU };

// boundary-biased integer of a native integer type T (as raw bit pattern, so the specials of extended policies are hit too)
template <typename T> inline T biased_int() {
  typedef typename std::make_unsigned<T>::type U; const int bits = sizeof(T) * 8;
  U mx = std::numeric_limits<T>::max(), mn = (U) std::numeric_limits<T>::min();
  int k = hx::rnd(0, 99); U v;
  if (k < 12) v = (U) (mn + (U) hx::rnd(0, 3));                       // min, min+1.. (the encodings of -inf, nan for signed)
  else if (k < 24) v = (U) (mx - (U) hx::rnd(0, 3));                  // max, max-1.. (+inf; unsigned: -inf, nan)
  else if (k < 36) v = (U) (T) hx::rnd(-3, 3);                        // around zero
  else if (k < 52) { int e = hx::rnd(1, bits - 1); v = (U) (((U) 1 << e) + (U) (T) hx::rnd(-2, 2)); if (hx::coin() && std::is_signed<T>::value) v = (U) (0 - v); }   // +-2^e +-2
  else if (k < 64) { int e = hx::rnd(1, bits / 2 + 1); v = (U) (((U) 1 << e) - 1 + (U) hx::rnd(0, 2)); v = (U) (v * (U) hx::rnd(1, 3)); if (hx::coin() && std::is_signed<T>::value) v = (U) (0 - v); } // sqrt-of-limit area
  else if (k < 72) { U r = (U) hx::rng()(); int sh = hx::rnd(0, bits - 1); v = (U) (r >> sh); if (hx::coin() && std::is_signed<T>::value) v = (U) (0 - v); }           // random magnitude
  else if (k < 80) { U d = (U) hx::rnd(2, 9); v = (U) (mx / d + (U) (T) hx::rnd(-1, 1)); if (hx::coin() && std::is_signed<T>::value) v = (U) (0 - v); }               // limit / small
  else v = (U) hx::rng()();
  return (T) v;
}
template <typename N> inline std::vector<N> biased_ints(int n) { typedef typename Kind<N>::raw_t T; std::vector<N> v; for (int i = 0; i < n; ++i) { N x = fresh<N>(); Kind<N>::rv(x) = biased_int<T>(); v.push_back(x); } return v; }
template <typename T> inline std::vector<unsigned> biased_exps(int n) {
  const unsigned bits = std::is_class<T>::value ? 64 : sizeof(T) * 8; std::vector<unsigned> v;
  for (int i = 0; i < n; ++i) { int k = hx::rnd(0, 99); unsigned e;
    if (k < 10) e = 0; else if (k < 50) e = (unsigned) hx::rnd(1, (int) bits - 2); else if (k < 80) e = bits - 2 + (unsigned) hx::rnd(0, 4);
    else if (k < 90) e = (unsigned) hx::rnd(0, 200); else e = hx::coin() ? 0xffffffffU - (unsigned) hx::rnd(0, 2) : 0x80000000U - 1 + (unsigned) hx::rnd(0, 2);
    v.push_back(e); }
  return v;
}

// ---- floating point operands, composed from bit fields (never from FPU arithmetic); read back through volatile
template <typename F> struct FBits;
template <> struct FBits<float> { enum { EB = 8, MB = 23, BIAS = 127 }; static float make(bool neg, unsigned e, uint64_t m) { uint32_t b = ((uint32_t) neg << 31) | ((e & 0xffu) << 23) | (uint32_t) (m & 0x7fffffu); float f; memcpy(&f, &b, 4); return f; } };
template <> struct FBits<double> { enum { EB = 11, MB = 52, BIAS = 1023 }; static double make(bool neg, unsigned e, uint64_t m) { uint64_t b = ((uint64_t) neg << 63) | ((uint64_t) (e & 0x7ffu) << 52) | (m & 0xfffffffffffffULL); double f; memcpy(&f, &b, 8); return f; } };
template <> struct FBits<long double> { enum { EB = 15, MB = 63, BIAS = 16383 };   // x87: explicit integer bit; only valid encodings are produced
  static long double make(bool neg, unsigned e, uint64_t m) { e &= 0x7fffu; m &= 0x7fffffffffffffffULL; uint64_t mant = (e == 0) ? m : (m | 0x8000000000000000ULL); if (e == 0x7fff && m != 0) mant |= 0xC000000000000000ULL;
    unsigned char raw[16]; memset(raw, 0, 16); uint16_t se = (uint16_t) (((unsigned) neg << 15) | e); memcpy(raw, &mant, 8); memcpy(raw + 8, &se, 2); long double f; memcpy(&f, raw, sizeof f); return f; } };
// value 2^k (k may be outside the normal range -> denormal or infinity)
template <typename F> inline F f_pow2(int k, bool neg, int ulps) {
  typedef FBits<F> B; int emax = (1 << B::EB) - 1; long be = (long) k + B::BIAS; uint64_t m = 0; unsigned e;
  if (be >= emax) { e = (unsigned) emax; m = 0; }
  else if (be <= 0) { e = 0; long sh = (long) B::MB - 1 + be; m = sh >= 0 ? (1ULL << sh) : 0; }
  else e = (unsigned) be;
  // step `ulps` representable neighbours up or down in magnitude (on the bit pattern)
  if (e != (unsigned) emax) { __int128 v = ((__int128) e << B::MB) | m; v += ulps; if (v < 0) v = 0; __int128 top = ((__int128) emax << B::MB); if (v > top) v = top; e = (unsigned) (v >> B::MB); m = (uint64_t) (v & (((__int128) 1 << B::MB) - 1)); }
  return B::make(neg, e, m);
}
template <typename F> inline F biased_flt(bool specials = true) {
  typedef FBits<F> B; const int emax = (1 << B::EB) - 1; const uint64_t mmask = (B::MB == 63) ? 0x7fffffffffffffffULL : ((1ULL << B::MB) - 1);
  int k = hx::rnd(0, 99); bool neg = hx::coin(); F v;
  if (k < 5) v = B::make(neg, 0, 0);                                                          // +-0
  else if (k < 12) v = B::make(neg, 0, (uint64_t) hx::rnd(1, 5) | (hx::coin(30) ? (hx::rng()() & mmask) : 0));   // denormals
  else if (k < 16) v = B::make(neg, 1, (uint64_t) hx::rnd(0, 3));                                // smallest normals
  else if (k < 22) v = B::make(neg, (unsigned) emax - 1, mmask - (uint64_t) hx::rnd(0, 3));        // largest finite
  else if (k < 26) v = specials ? B::make(neg, (unsigned) emax, 0) : B::make(neg, B::BIAS, 0);     // infinities
  else if (k < 29) v = specials ? B::make(neg, (unsigned) emax, 1ULL << (B::MB - 1)) : B::make(neg, B::BIAS + 1, 0);   // quiet NaN
  else if (k < 45) { static const int IL[] = { 7, 8, 15, 16, 31, 32, 63, 64, 0, 1, 24, 53, 127, 128 }; v = f_pow2<F>(IL[hx::rnd(0, 13)], neg, hx::rnd(-2, 2)); }   // integer-type limits and neighbours
  else if (k < 55) v = f_pow2<F>(hx::rnd(-(int) B::BIAS - (int) B::MB, (int) B::BIAS + 1), neg, hx::rnd(-1, 1));                                     // any power of two +- 1ulp
  else if (k < 65) { int iv = hx::rnd(0, 300); uint64_t frac = hx::coin() ? (1ULL << (B::MB - 1)) : (hx::coin() ? 1 : mmask);   // small integers +- .5 / tiny
    int lz = 0; while ((iv >> lz) > 1) ++lz; if (iv == 0) v = B::make(neg, B::BIAS - 1, frac); else { uint64_t m = (((uint64_t) iv << (B::MB - lz)) & mmask) | (hx::coin() ? (frac >> (lz + 1)) : 0); v = B::make(neg, (unsigned) (B::BIAS + lz), m); } }
  else if (k < 88) v = B::make(neg, (unsigned) (B::BIAS + hx::rnd(-40, 40)), hx::rng()() & mmask & (hx::coin(30) ? ~0xfffULL : ~0ULL));         // random mantissa, moderate exponent
  else v = B::make(neg, (unsigned) hx::rnd(1, emax - 1), hx::rng()() & mmask);                                                                // random everything
  volatile F vv = v; return vv;
}
template <typename N> inline typename std::enable_if<IsFlt<typename Kind<N>::raw_t>::value, std::vector<N> >::type biased(int n) {
  typedef typename Kind<N>::raw_t T; std::vector<N> v; for (int i = 0; i < n; ++i) { N x = fresh<N>(); Kind<N>::rv(x) = biased_flt<T>(); v.push_back(x); } return v; }
template <typename N> inline typename std::enable_if<IsInt<typename Kind<N>::raw_t>::value, std::vector<N> >::type biased(int n) { return biased_ints<N>(n); }
inline Z biased_Z() {
  int k = hx::rnd(0, 99); Z z;
  if (k < 10) z = hx::rnd(-2, 2);
  else if (k < 45) { static const int IL[] = { 7, 8, 15, 16, 31, 32, 63, 64, 24, 53, 127, 128, 1024, 16384 }; z = 1; mpz_mul_2exp(z.get_mpz_t(), z.get_mpz_t(), (unsigned long) IL[hx::rnd(0, 13)]); z += hx::rnd(-3, 3); if (hx::coin()) z = -z; }
  else if (k < 60) { z = 1; mpz_mul_2exp(z.get_mpz_t(), z.get_mpz_t(), (unsigned long) hx::rnd(1, 200)); z += hx::rnd(-2, 2); if (hx::coin()) z = -z; }
  else if (k < 75) z = hx::rnd(-1000, 1000);
  else { int limbs = hx::rnd(1, 4); z = 0; for (int i = 0; i < limbs; ++i) { z <<= 64; z += Z((unsigned long) hx::rng()()); } z >>= hx::rnd(0, 63); if (hx::coin()) z = -z; }
  return z;
}
inline Q biased_Q() {
  int k = hx::rnd(0, 99); Q q;
  if (k < 25) q = Q(biased_Z());
  else if (k < 50) { Z d; static const int DL[] = { 2, 3, 4, 5, 7, 10, 16, 1000 }; d = DL[hx::rnd(0, 7)]; q = Q(biased_Z() * d + hx::rnd(-(int) 3, 3), d); }   // integer limits +- small fraction
  else if (k < 65) { Z d(1); mpz_mul_2exp(d.get_mpz_t(), d.get_mpz_t(), (unsigned long) hx::rnd(1, 1100)); q = Q(biased_Z(), d); }                               // dyadic, possibly tiny
  else if (k < 80) q = Q(Z(hx::rnd(-2000, 2000)), Z(hx::rnd(1, 1000)));
  else { Z d = abs(biased_Z()) + 1; q = Q(biased_Z(), d); }
  q.canonicalize(); return q;
}
// GMP kinds: finite values; the checked kinds with extended policies additionally get the special values
template <typename N> inline typename std::enable_if<std::is_same<typename Kind<N>::raw_t, Z>::value, std::vector<N> >::type biased(int n) {
  typedef typename Kind<N>::TP P; std::vector<N> v;
  for (int i = 0; i < n; ++i) { N x = fresh<N>(); int k = hx::rnd(0, 99);
    if (Kind<N>::checked && P::has_infinity && k < 2) assign_r(x, PLUS_INFINITY, ROUND_IGNORE); else if (Kind<N>::checked && P::has_infinity && k < 4) assign_r(x, MINUS_INFINITY, ROUND_IGNORE); else if (Kind<N>::checked && P::has_nan && k < 6) assign_r(x, NOT_A_NUMBER, ROUND_IGNORE); else Kind<N>::rv(x) = biased_Z();
    v.push_back(x); }
  return v; }
template <typename N> inline typename std::enable_if<std::is_same<typename Kind<N>::raw_t, Q>::value, std::vector<N> >::type biased(int n) {
  typedef typename Kind<N>::TP P; std::vector<N> v;
  for (int i = 0; i < n; ++i) { N x = fresh<N>(); int k = hx::rnd(0, 99);
    if (Kind<N>::checked && P::has_infinity && k < 2) assign_r(x, PLUS_INFINITY, ROUND_IGNORE); else if (Kind<N>::checked && P::has_infinity && k < 4) assign_r(x, MINUS_INFINITY, ROUND_IGNORE); else if (Kind<N>::checked && P::has_nan && k < 6) assign_r(x, NOT_A_NUMBER, ROUND_IGNORE); else Kind<N>::rv(x) = biased_Q();
    v.push_back(x); }
  return v; }

// ---------------------------------------------------------------- one random case on a kind N (profiles wide, float, gmp)
template <typename N> struct KindCase {
  typedef typename Kind<N>::raw_t T;
  static void binary(int which, int nx, int ny) {
    std::vector<N> xs = biased<N>(nx), ys = biased<N>(ny);
    if (hx::coin(20)) ys = xs;      // equal / related operands
    switch (which) {
    case 0: run_binary<N, Op_add>(xs, ys); break; case 1: run_binary<N, Op_sub>(xs, ys); break; case 2: run_binary<N, Op_mul>(xs, ys); break; case 3: run_binary<N, Op_div>(xs, ys); break;
    case 4: idiv(xs, ys); break; case 5: run_binary<N, Op_rem>(xs, ys); break;
    case 6: gcdlcm(xs, ys, true); break; default: gcdlcm(xs, ys, false); break; }
  }
  template <typename U = T> static typename std::enable_if<IsFlt<U>::value>::type idiv(const std::vector<N>& xs, const std::vector<N>& ys) { run_binary<N, Op_div>(xs, ys); }   // idiv_assign_r is not provided for floating point types
  template <typename U = T> static typename std::enable_if<!IsFlt<U>::value>::type idiv(const std::vector<N>& xs, const std::vector<N>& ys) { run_binary<N, Op_idiv>(xs, ys); }
  template <typename U = T> static typename std::enable_if<IsFlt<U>::value || std::is_same<U, Q>::value>::type gcdlcm(const std::vector<N>& xs, const std::vector<N>& ys, bool) { run_binary<N, Op_add>(xs, ys); }   // gcd/lcm are integer operations
  template <typename U = T> static typename std::enable_if<!(IsFlt<U>::value || std::is_same<U, Q>::value)>::type gcdlcm(const std::vector<N>& xs, const std::vector<N>& ys, bool g) { if (g) run_binary<N, Op_gcd>(xs, ys); else run_binary<N, Op_lcm>(xs, ys); }
  static void unary(int n) {
    std::vector<N> xs = biased<N>(n);
    run_unary<N, Op_assign>(xs); run_unary<N, Op_neg>(xs); run_unary<N, Op_abs>(xs); run_unary<N, Op_floor>(xs); run_unary<N, Op_ceil>(xs); run_unary<N, Op_trunc>(xs); run_unary<N, Op_sqrt>(xs);
    run_specials<N>();
  }
  static void twoexp(int which, int n, int ne) {
    std::vector<N> xs = biased<N>(n); std::vector<unsigned> ex = biased_exps<T>(ne);
    switch (which) { case 0: run_2exp<N, Op_add_2exp>(xs, ex); break; case 1: run_2exp<N, Op_sub_2exp>(xs, ex); break; case 2: run_2exp<N, Op_mul_2exp>(xs, ex); break;
      case 3: run_2exp<N, Op_div_2exp>(xs, ex); break; case 4: run_2exp<N, Op_smod_2exp>(xs, ex); break; default: run_2exp<N, Op_umod_2exp>(xs, ex); break; }
  }
  static void fused(bool sub, int n) {
    std::vector<N> as = biased<N>(n), xs = biased<N>(n), ys = biased<N>(n);
    if (sub) run_fused<N, Op_sub_mul>(as, xs, ys); else run_fused<N, Op_add_mul>(as, xs, ys);
  }
  static void compare(int n) { std::vector<N> xs = biased<N>(n), ys = biased<N>(n); if (hx::coin(30)) ys = xs; run_compare<N, N>(xs, ys); }
  // a case of the common operation groups; returns false if the caller should do one of its own groups (conversions, cross comparisons)
  static bool common() {
    int g = hx::rnd(0, 99);
    if (g < 40) { int w = hx::rnd(0, 7); hx::tr(std::string("binary op #") + std::to_string(w) + " <" + kname<N>() + "> 64x64 biased operands, all directions"); binary(w, 64, 64); return true; }
    if (g < 50) { hx::tr("unary ops + specials <" + kname<N>() + "> 512 biased operands"); unary(512); return true; }
    if (g < 62) { int w = hx::rnd(0, 5); hx::tr(std::string("2exp op #") + std::to_string(w) + " <" + kname<N>() + "> 128 operands x 24 exponents"); twoexp(w, 128, 24); return true; }
    if (g < 74) { bool sb = hx::coin(); hx::tr(std::string(sb ? "sub_mul" : "add_mul") + " <" + kname<N>() + "> 16x16x16 biased operands"); fused(sb, 16); return true; }
    if (g < 80) { hx::tr("comparisons <" + kname<N>() + "> 64x64"); compare(64); return true; }
    return false;
  }
};
template <typename To, typename From> inline void conv_case(int n) { hx::tr("conversions <" + kname<To>() + "> <- <" + kname<From>() + "> " + std::to_string(n) + " biased values"); run_convert<To, From>(biased<From>(n)); }
template <typename A, typename B> inline void cmp_case(int n) { hx::tr("comparisons <" + kname<A>() + "> vs <" + kname<B>() + "> " + std::to_string(n) + "x" + std::to_string(n)); run_compare<A, B>(biased<A>(n), biased<B>(n)); }
// conversions into To from every numeric family
template <typename To> inline void conv_into(int n) {
  switch (hx::rnd(0, 21)) {
  case 0: conv_case<To, signed char>(n); break; case 1: conv_case<To, unsigned char>(n); break; case 2: conv_case<To, short>(n); break; case 3: conv_case<To, unsigned short>(n); break;
  case 4: conv_case<To, int>(n); break; case 5: conv_case<To, unsigned int>(n); break; case 6: conv_case<To, long>(n); break; case 7: conv_case<To, unsigned long>(n); break;
  case 8: conv_case<To, long long>(n); break; case 9: conv_case<To, unsigned long long>(n); break;
  case 10: conv_case<To, Checked_Number<int, PX> >(n); break; case 11: conv_case<To, Checked_Number<unsigned long, PX> >(n); break; case 12: conv_case<To, Checked_Number<signed char, PX> >(n); break;
  case 13: conv_case<To, float>(n); break; case 14: conv_case<To, double>(n); break; case 15: conv_case<To, long double>(n); break; case 16: conv_case<To, Checked_Number<double, PX> >(n); break; case 17: conv_case<To, Checked_Number<float, PW> >(n); break;
  case 18: conv_case<To, Z>(n); break; case 19: conv_case<To, Q>(n); break; case 20: conv_case<To, Checked_Number<Z, PX> >(n); break; default: conv_case<To, Checked_Number<Q, PX> >(n); break; }
}
// comparisons of A with every numeric family
template <typename A> inline void cmp_with(int n) {
  switch (hx::rnd(0, 13)) {
  case 0: cmp_case<A, signed char>(n); break; case 1: cmp_case<A, unsigned char>(n); break; case 2: cmp_case<A, short>(n); break; case 3: cmp_case<A, unsigned short>(n); break;
  case 4: cmp_case<A, int>(n); break; case 5: cmp_case<A, unsigned int>(n); break; case 6: cmp_case<A, long>(n); break; case 7: cmp_case<A, unsigned long>(n); break;
  case 8: cmp_case<A, float>(n); break; case 9: cmp_case<A, double>(n); break; case 10: cmp_case<A, long double>(n); break;
  case 11: cmp_case<A, Z>(n); break; case 12: cmp_case<A, Q>(n); break; default: cmp_case<A, Checked_Number<double, PX> >(n); break; }
}
template <typename N> inline void full_case() { if (KindCase<N>::common()) return; if (hx::coin(70)) conv_into<N>(768); else cmp_with<N>(48); }

// ---------------------------------------------------------------- throwing interface of bounded coefficients
// Checked_Number<T, Bounded policy>: operators and *_assign functions either give the value the unbounded (GMP)
// configuration gives, or throw std::overflow_error; they never return a different value.
template <typename T> struct BoundedMon {
  typedef Checked_Number<T, PB> N;
  static std::string nm(const char* op) { return std::string(op); }
  static void judge(const char* op, const char* cls, const Ex& ex, bool threw_overflow, bool threw_other, const std::string& what, const N* got, const Desc& d) {
    hx::checked();
    const Lim& L = lim<N>();
    std::string key = std::string("C11.ovf.") + op + "." + tname<N>() + ":" + cls;
    std::string head = std::string(op) + "<" + kname<N>() + ">(" + d() + ")";
    bool exact_fits = ex.u == U_NONE && kinfo<N>().representable(ex.v);
    bool prod_ovf = ex.has_prod && (xcmp(ex.prod, L.lo) < 0 || xcmp(ex.prod, L.hi) > 0);
    if (threw_other) { hx::violation(std::string("C11.rel.") + op + "." + tname<N>() + ":" + cls, head + " threw " + what + ", exact=" + show(ex.v)); return; }
    if (threw_overflow) { if (exact_fits && !prod_ovf) hx::violation(key, head + " threw std::overflow_error(" + what + ") although the exact result " + show(ex.v) + " is representable"); return; }
    XQ st = dec(*got);
    if (!exact_fits || xcmp(ex.v, st) != 0) hx::violation(std::string("C11.rel.") + op + "." + tname<N>() + ":" + cls, head + " returned " + show(st) + " without an exception, exact=" + show(ex.v));
  }
  template <typename F> static void one(const char* op, const Ex& ex, const Desc& d, F f) {
    const char* cls = intern(res_class(kinfo<N>(), ex, false));
    if (g_verbose()) fprintf(stderr, "op: %s<%s>(%s)\n", op, kname<N>().c_str(), d().c_str());
    N got; bool to = false, other = false; std::string what;
    try { got = f(); }
    catch (const std::overflow_error& e) { to = true; what = e.what(); }
    catch (const std::exception& e) { other = true; what = std::string(typeid(e).name()) + ": " + e.what(); }
    judge(op, cls, ex, to, other, what, &got, d);
  }
  static void run(const std::vector<N>& xs, const std::vector<N>& ys, const std::vector<N>& accs) {
    unsigned long done = 0;
    for (size_t i = 0; i < xs.size(); ++i) {
      const N& x = xs[i]; XQ ax = dec(x); Desc d1 = desc1(ax);
      one("operator-neg", ex_neg(ax), d1, [&]() { return -x; }); one("neg_assign", ex_neg(ax), d1, [&]() { N r; neg_assign(r, x); return r; });
      one("abs_assign", ex_abs(ax), d1, [&]() { N r; abs_assign(r, x); return r; });
      one("operator++", ex_add(ax, XQ(Q(1))), d1, [&]() { N r(x); ++r; return r; }); one("operator--", ex_sub(ax, XQ(Q(1))), d1, [&]() { N r(x); --r; return r; });
      if (::sgn(ax.q) >= 0) { Ex e = ex_sqrt(ax); if (e.v.root) { e.v.root = false; Z z; mpz_sqrt(z.get_mpz_t(), ax.q.get_num_mpz_t()); e.v.q = Q(z); }   // GMP configuration: integer square root (floor)
        static bool crashed = false; bool skip = crashed;
        if (crashed && std::is_signed<T>::value && sizeof(T) >= 4 && ax.q * 4 > lim<N>().hi) hx::count("skipped.known_ub_class");
        else skip = false;
        if (!skip && std::is_signed<T>::value && sizeof(T) >= 4 && ax.q * 4 > lim<N>().hi) {   // isqrt_rem overflows a signed T for radicands >= 2^(bits-2): run in a child first
          std::string why; if (!survives([&]() { N r; sqrt_assign(r, x); }, why)) { skip = true; crashed = true; hx::checked(); hx::violation(std::string("C11.ub.sqrt_assign.") + tname<N>() + ":radicand-top-quarter", "sanitizer report / crash inside sqrt_assign<" + kname<N>() + ">(" + show(ax) + "): " + why); } }
        if (!skip) one("sqrt_assign", e, d1, [&]() { N r; sqrt_assign(r, x); return r; }); }
      done += 6;
      for (unsigned e = 0; e < 10; ++e) { Desc de = desce(ax, e);
        one("mul_2exp_assign", ex_mul_2exp(ax, e), de, [&]() { N r; mul_2exp_assign(r, x, e); return r; });
        done += 1; }
      for (size_t j = 0; j < ys.size(); ++j) {
        const N& y = ys[j]; XQ ay = dec(y); Desc d2 = desc2(ax, ay);
        one("operator+", ex_add(ax, ay), d2, [&]() { return x + y; }); one("operator-", ex_sub(ax, ay), d2, [&]() { return x - y; }); one("operator*", ex_mul(ax, ay), d2, [&]() { return x * y; });
        one("operator+=", ex_add(ax, ay), d2, [&]() { N r(x); r += y; return r; }); one("operator-=", ex_sub(ax, ay), d2, [&]() { N r(x); r -= y; return r; }); one("operator*=", ex_mul(ax, ay), d2, [&]() { N r(x); r *= y; return r; });
        one("gcd_assign", ex_gcd(ax, ay), d2, [&]() { N r; gcd_assign(r, x, y); return r; }); one("lcm_assign", ex_lcm(ax, ay), d2, [&]() { N r; lcm_assign(r, x, y); return r; });
        done += 8;
        if (::sgn(ay.q) != 0) {   // policy contract: check_div_zero is off
          one("operator/", ex_idiv(ax, ay), d2, [&]() { return x / y; }); one("operator%", ex_rem(ax, ay), d2, [&]() { return x % y; });
          one("operator/=", ex_idiv(ax, ay), d2, [&]() { N r(x); r /= y; return r; }); one("operator%=", ex_rem(ax, ay), d2, [&]() { N r(x); r %= y; return r; });
          done += 4;
          if (::sgn(ex_rem(ax, ay).v.q) == 0) { one("exact_div_assign", ex_div(ax, ay), d2, [&]() { N r; exact_div_assign(r, x, y); return r; }); ++done; }
        }
        for (size_t k = 0; k < accs.size(); ++k) { const N& a = accs[k]; XQ at = dec(a); Desc d3 = desc3(at, ax, ay);
          one("add_mul_assign", ex_fused(at, ax, ay, false), d3, [&]() { N r(a); add_mul_assign(r, x, y); return r; });
          one("sub_mul_assign", ex_fused(at, ax, ay, true), d3, [&]() { N r(a); sub_mul_assign(r, x, y); return r; }); done += 2; }
      }
    }
    hx::count("op.bounded_throwing_interface", done);
    hx::distinct(std::string("bounded-throwing-interface|") + tname<N>());
  }
};

} // namespace nk
#endif
