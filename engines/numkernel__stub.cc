#include "numkernel_units.hh"
namespace nk { void w16_case() {} void w32_case() {} void w64_case() {} void float_case_f() {} void float_case_d() {} void float_case_l() {} void gmp_case() {} }
