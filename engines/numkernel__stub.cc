#include "numkernel_units.hh"
namespace nk { void float_case_f() {} void float_case_d() {} void float_case_l() {} void gmp_case() {} }
