// psetseq, instantiation for cpoly (see psetseq.hh)
#include "psetseq.hh"
void psq::run_cpoly() { psq::Engine<psq::DomCPoly>::run_case(); }
