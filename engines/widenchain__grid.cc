// widenchain — Grid: congruence_widening_assign, generator_widening_assign, widening_assign and
// the three limited_*_extrapolation_assign; oracle = RefGrid (own Hermite normal form).
#include "wc_grid.hh"

using namespace wc;

namespace {

struct GOp {
  std::string name; int flavour;   // 0 congruence, 1 generator, 2 implementation's choice
  std::function<void(Grid&, const Grid&, unsigned*)> call;
  std::string lim_name;
  std::function<void(Grid&, const Grid&, const Congruence_System&, unsigned*)> lim;
};
static std::vector<GOp> gops() {
  std::vector<GOp> v;
  { GOp o; o.name = "congruence_widening_assign"; o.flavour = 0; o.call = [](Grid& x, const Grid& y, unsigned* tp) { x.congruence_widening_assign(y, tp); };
    o.lim_name = "limited_congruence_extrapolation_assign"; o.lim = [](Grid& x, const Grid& y, const Congruence_System& cs, unsigned* tp) { x.limited_congruence_extrapolation_assign(y, cs, tp); }; v.push_back(o); }
  { GOp o; o.name = "generator_widening_assign"; o.flavour = 1; o.call = [](Grid& x, const Grid& y, unsigned* tp) { x.generator_widening_assign(y, tp); };
    o.lim_name = "limited_generator_extrapolation_assign"; o.lim = [](Grid& x, const Grid& y, const Congruence_System& cs, unsigned* tp) { x.limited_generator_extrapolation_assign(y, cs, tp); }; v.push_back(o); }
  { GOp o; o.name = "widening_assign"; o.flavour = 2; o.call = [](Grid& x, const Grid& y, unsigned* tp) { x.widening_assign(y, tp); };
    o.lim_name = "limited_extrapolation_assign"; o.lim = [](Grid& x, const Grid& y, const Congruence_System& cs, unsigned* tp) { x.limited_extrapolation_assign(y, cs, tp); }; v.push_back(o); }
  return v;
}

static std::string key(const char* mon, const std::string& op, const std::string& what = "") { return std::string("C08.") + mon + ".Grid." + op + what; }

struct GridChain {
  int n; bool twin_reported;
  GridChain() : n(0), twin_reported(false) {}

  // a congruence in a random direction; mostly one that holds on x
  Congruence limiting_cg(const Lattice& LX) {
    Cg c; c.a.assign(n, Q(0)); for (int i = 0; i < n; ++i) if (coin(65)) c.a[i] = rnd(-3, 3);
    int mode = rnd(0, 9);
    if (LX.empty || mode < 3) { c.b = rnd(-3, 3); c.m = coin(20) ? 0 : rnd(1, 4); return cg_from(c, n); }
    Lattice l = LX; ref::canonicalize(l);
    bool free_dir = false; for (size_t i = 0; i < l.lines.size(); ++i) if (ref::dot(c.a, l.lines[i]) != 0) free_dir = true;
    if (free_dir) { c.b = rnd(-3, 3); c.m = rnd(1, 3); return cg_from(c, n); }
    c.b = ref::dot(c.a, l.p);
    // modulus: a common "divisor" of the parameter values
    Q g = 0;
    for (size_t i = 0; i < l.params.size(); ++i) { Q v = abs(ref::dot(c.a, l.params[i])); if (v == 0) continue; if (g == 0) { g = v; continue; }
      // rational gcd: gcd(p1/q1, p2/q2) = gcd(p1 q2, p2 q1) / (q1 q2)
      mpz_class x = g.get_num() * v.get_den(), y = v.get_num() * g.get_den(), d; mpz_gcd(d.get_mpz_t(), x.get_mpz_t(), y.get_mpz_t()); g = Q(d, g.get_den() * v.get_den()); g.canonicalize(); }
    if (g == 0) c.m = coin() ? Q(0) : Q(rnd(1, 3)); else { c.m = g / Q(rnd(1, 2)); if (mode >= 8) c.m = g * Q(2); }
    return cg_from(c, n);
  }

  bool in_set(const Lattice& z, const std::vector<Lattice>& opts) { for (size_t i = 0; i < opts.size(); ++i) if (ref::same(z, opts[i])) return true; return false; }

  bool step(const GOp& op, const Grid& y, const Grid& x, Grid& z, bool& stationary, bool full) {
    Lattice LY, LX;
    if (!obs_grid(y, LY) || !obs_grid(x, LX)) { hx::inconclusive("grid_descriptions_disagree"); return false; }
    checked();
    if (!ref::included(LY, LX)) { violation("harness.bug.precondition.Grid", "y not contained in x: y=" + show(LY) + " x=" + show(LX)); return false; }
    std::string stx = status_of(x), sty = status_of(y);
    hx::count("op." + op.name); hx::count("status.Grid." + stx);
    Grid yc(y), y_tok(y), y_lim(y), x_tok(x), x_lim(x), x_c(x), y_c(y), x_g(x), y_g(y), x_t(x), y_t(y);
    z = x;
    tr(" | z=x; z." + op.name + "(y)");
    op.call(z, yc, 0);
    Lattice LZ; if (!obs_grid(z, LZ)) { hx::inconclusive("grid_descriptions_disagree"); return false; }
    checked(); hx::count("superset_checks");
    if (!ref::included(LX, LZ)) { violation(key("superset", op.name), "larger argument " + show(LX) + " is not contained in the result " + show(LZ) + "; y=" + show(LY)); return false; }
    Lattice LY2; checked();
    if (!obs_grid(yc, LY2) || !ref::same(LY, LY2)) { violation(key("argument", op.name), "the smaller argument changed value: " + show(LY) + " -> " + show(LY2)); return false; }
    stationary = ref::included(LZ, LY);
    bool changed = !ref::included(LZ, LX);
    bool x_univ = !LX.empty && (int) LX.lines.size() == n && n > 0;
    if (!LX.empty && !x_univ) hx::distinct("step|Grid|" + op.name + "|" + stx + "|" + sty + "|" + (LY.empty ? "y-empty" : stationary ? "stationary" : changed ? "widened" : "kept"));
    if (changed) hx::count("widened." + op.name);
    // reference results of the two documented flavours (for widening_assign, whose choice is left to the implementation)
    std::vector<Lattice> flavours;
    if (op.flavour == 2) {
      x_c.congruence_widening_assign(y_c); x_g.generator_widening_assign(y_g);
      Lattice a, b; if (obs_grid(x_c, a)) flavours.push_back(a); if (obs_grid(x_g, b)) flavours.push_back(b);
      checked();
      if (!in_set(LZ, flavours)) { violation(key("twin", op.name, ":neither-flavour"), "result " + show(LZ) + " is neither the congruence widening nor the generator widening of x=" + show(LX) + " y=" + show(LY)); return false; }
    }
    // ---- certificate ----
    if (!stationary) {
      GMeas my = grid_measure(LY), mz = grid_measure(LZ); checked(); hx::count("certificate_checks");
      if (grid_decrease(my, mz) != 1) { violation(key("certificate", op.name), "non-stationary step without strict decrease: y " + show(my) + " result " + show(mz) + "; y=" + show(LY) + " x=" + show(LX) + " result=" + show(LZ)); return false; }
      if (!LY.empty) { Grid c1(y), c2(z); Grid_Certificate gc(c1); int pc = gc.compare(c2); checked(); hx::count("certificate_ppl_compares");
        if (pc != 1) { violation(key("certificate", op.name, ":ppl-compare"), "Grid_Certificate(y).compare(result) = " + std::to_string(pc) + "; own y " + show(my) + " result " + show(mz)); return false; } }
    }
    if (!full) return true;
    // ---- tokens ----
    if (coin(60)) {
      unsigned t0 = rnd(1, 3), tp = t0;
      tr(" | tok=x; tok." + op.name + "(y, tp=" + std::to_string(t0) + ")");
      op.call(x_tok, y_tok, &tp);
      Lattice LT; checked(2); hx::count("token_checks");
      if (!obs_grid(x_tok, LT)) { hx::inconclusive("grid_descriptions_disagree"); return false; }
      if (tp != t0 && tp != t0 - 1) { violation(key("token", op.name, ".count"), std::to_string(t0) + " -> " + std::to_string(tp)); return false; }
      bool consumed = tp == t0 - 1;
      // for widening_assign the lossy/precise verdict is taken from the flavour actually observed above
      if (consumed && !changed) { violation(key("token", op.name, ".consumed_but_precise"), "x=" + show(LX) + " y=" + show(LY)); return false; }
      if (!consumed && changed) { violation(key("token", op.name, ".not_consumed_but_lossy"), "plain result " + show(LZ) + " x=" + show(LX) + " y=" + show(LY)); return false; }
      if (!ref::same(LT, LX)) { violation(key("token", op.name, consumed ? ".receiver_changed" : ".result_differs"), "result " + show(LT) + " x=" + show(LX)); return false; }
    }
    // ---- limited extrapolation ----
    if (coin(65)) {
      std::vector<Congruence> cv; Congruence_System cs; int k = rnd(0, 3);
      for (int i = 0; i < k; ++i) cv.push_back(limiting_cg(LX));
      for (size_t i = 0; i < cv.size(); ++i) cs.insert(cv[i]);
      std::ostringstream t; t << " | lim=x; lim." << op.lim_name << "(y, {"; for (size_t i = 0; i < cv.size(); ++i) t << (i ? ", " : "") << str(cv[i]); t << "}";
      unsigned t0 = coin(25) ? rnd(1, 2) : 0, tp = t0; bool with_tp = coin(40);
      if (with_tp) t << ", tp=" << t0; t << ")"; tr(t.str());
      bool nonunit = false; std::string xgens;
      { Grid c(x_lim); Grid_Generator_System gs = c.grid_generators(); xgens = str(gs); for (Grid_Generator_System::const_iterator i = gs.begin(); i != gs.end(); ++i) if (i->is_point() && i->divisor() != 1) nonunit = true; }
      op.lim(x_lim, y_lim, cs, with_tp ? &tp : 0);
      Lattice LL; hx::count("limited_checks"); hx::count("op." + op.lim_name); checked(3);
      if (!obs_grid(x_lim, LL)) { hx::inconclusive("grid_descriptions_disagree"); return false; }
      if (!ref::included(LX, LL)) {
        // triage: Grid::relation_with(Congruence) (used to select the congruences to keep) is known to ignore the divisor of point generators
        std::string wrongly; for (size_t i = 0; i < cv.size(); ++i) { Cg c = conv_cg(cv[i], n); if (!lat_satisfies(LX, c) && lat_satisfies(LL, c)) wrongly += (wrongly.empty() ? "" : ", ") + str(cv[i]); }
        violation(key("limited", op.lim_name, std::string(".below_argument") + (nonunit ? ":point-divisor-not-1" : "")), "x=" + show(LX) + " (PPL generators " + xgens + ") is not contained in the result " + show(LL) + "; y=" + show(LY) + "; kept although false on x: {" + wrongly + "}"); if (!nonunit) return false; goto limited_done; }
      if (with_tp && t0 > 0) {
        bool consumed = tp == t0 - 1;
        if (tp != t0 && !consumed) { violation(key("token", op.lim_name, ".count"), std::to_string(t0) + " -> " + std::to_string(tp)); return false; }
        if (op.flavour != 2 || cv.empty()) { if (consumed != changed) { violation(key("token", op.lim_name, std::string(consumed ? ".consumed_but_precise" : ".not_consumed_but_lossy") + (cv.empty() ? ":empty-limiting-system" : "")), "x=" + show(LX) + " y=" + show(LY)); return false; } }
        if (!ref::same(LL, LX)) { violation(key("token", op.lim_name, consumed ? ".receiver_changed" : ".result_differs"), "result " + show(LL) + " x=" + show(LX)); return false; }
      } else {
        bool below_plain = ref::included(LL, LZ);
        if (!below_plain && op.flavour == 2) for (size_t i = 0; i < flavours.size(); ++i) if (ref::included(LL, flavours[i])) below_plain = true;
        if (!below_plain) { violation(key("limited", op.lim_name, std::string(".above_widening") + (cv.empty() ? ":empty-limiting-system" : "")), "result " + show(LL) + " is not contained in the plain widening " + show(LZ) + "; x=" + show(LX) + " y=" + show(LY)); return false; }
        for (size_t i = 0; i < cv.size(); ++i) {
          Cg c = conv_cg(cv[i], n);
          if (!lat_satisfies(LX, c)) { hx::count("limiting.unsatisfied"); continue; }
          hx::count("limiting.satisfied"); checked();
          if (!lat_satisfies(LL, c)) {
            violation(key("limited", op.lim_name, std::string(".dropped_congruence") + (nonunit ? ":point-divisor-not-1" : "")), "supplied congruence " + str(cv[i]) + " holds on the larger argument " + show(LX) + " but not on the result " + show(LL) + "; y=" + show(LY)); return false; }
        }
      }
    }
    limited_done:
    // ---- representation twins ----
    if (!twin_reported && coin(75)) {
      int hx_ = rnd(0, 9), hy_ = rnd(0, 9); std::string dx, dy;
      Grid x2 = grid_twin(x_t, hx_, dx), y2 = grid_twin(y_t, hy_, dy);
      Lattice a, b; checked(2);
      if (!obs_grid(x2, a) || !obs_grid(y2, b) || !ref::same(a, LX) || !ref::same(b, LY)) { hx::inconclusive("twin_build_mismatch.Grid"); }
      else {
        std::string s2x = status_of(x2), s2y = status_of(y2);
        // the convergence certificate must depend on the value only: same certificate on every representation
        if (!LY.empty) {
          Grid ya(y_t), yb(y2); Grid_Certificate ca(ya), cb(yb); checked(); hx::count("certificate_twin_compares");
          int c1 = ca.compare(cb), c2 = cb.compare(ca);
          if (c1 != 0 || c2 != 0) { violation(key("certificate", op.name, ":differs-on-representation-twin"), "Grid_Certificate of y [" + status_of(y_t) + "] vs its twin (" + dy + ") [" + s2y + "]: compare = " + std::to_string(c1) + "/" + std::to_string(c2) + "; y=" + show(LY)); return false; }
        }
        tr(" | x'=twin(x:" + dx + "); y'=twin(y:" + dy + "); x'." + op.name + "(y')");
        op.call(x2, y2, 0);
        Lattice LZ2; checked(); hx::count("twin_checks"); hx::count("twin." + dx); hx::count("twin." + dy);
        if (!obs_grid(x2, LZ2)) { hx::inconclusive("grid_descriptions_disagree"); return false; }
        if (!LX.empty && !x_univ) hx::distinct("twin|Grid|" + op.name + "|" + s2x + "|" + s2y + "|" + dx + "|" + dy);
        bool ok = op.flavour == 2 ? in_set(LZ2, flavours) : ref::same(LZ, LZ2);
        if (!ok) { twin_reported = true; violation(key("twin", op.name), "x " + show(LX) + " y " + show(LY) + ": result " + show(LZ) + " but on twins (x:" + dx + ", y:" + dy + ") " + show(LZ2)); return false; }
      }
    }
    return true;
  }

  Grid grow(const Grid& y, const Lattice& LY, int it, std::string& text) {
    Grid x(y); std::ostringstream t; int m = rnd(0, 99);
    if (n == 0) { if (LY.empty && coin()) { x = Grid(0); t << "universe"; } else t << "same"; text = t.str(); return x; }
    if (LY.empty || m < 25) { Vec v(n); for (int d = 0; d < n; ++d) { v[d] = Q(rnd(-4 - it, 4 + it), rnd(1, 3)); v[d].canonicalize(); } Grid_Generator g = gg_from(v, n, 0); Grid inc(n, EMPTY); inc.add_grid_generator(g); x.upper_bound_assign(inc); t << "+" << str(g); }
    else if (m < 45) { Grid im(y); Variable v(rnd(0, n - 1)); Linear_Expression e = small_expr(n, 2); int den = rnd(1, 3); im.affine_image(v, e, den); x.upper_bound_assign(im); t << "hull-image(" << str(v) << ":=(" << str(e) << ")/" << den << ")"; }
    else if (m < 65) { // refine the lattice: shift by a fraction of a parameter / by a rational
      Grid im(y); Variable v(rnd(0, n - 1)); int den = rnd(2, 4); im.affine_image(v, den * Linear_Expression(v) + 1, den); x.upper_bound_assign(im); t << "shift(" << str(v) << ",1/" << den << ")"; }
    else if (m < 75) { Vec v(n); for (int d = 0; d < n; ++d) v[d] = rnd(-2, 2); bool z = true; for (int d = 0; d < n; ++d) if (v[d] != 0) z = false; if (z) v[rnd(0, n - 1)] = 1; Lattice l = LY; ref::canonicalize(l); Grid inc(n, EMPTY); inc.add_grid_generator(gg_from(l.p, n, 0)); inc.add_grid_generator(gg_from(v, n, 2)); x.upper_bound_assign(inc); t << "+line" << show(v); }
    else if (m < 88) { Vec v(n); for (int d = 0; d < n; ++d) { v[d] = Q(rnd(-3, 3), rnd(1, 2)); v[d].canonicalize(); } bool z = true; for (int d = 0; d < n; ++d) if (v[d] != 0) z = false; if (z) v[rnd(0, n - 1)] = Q(1, 2); Lattice l = LY; ref::canonicalize(l); Vec p2 = l.p; for (int d = 0; d < n; ++d) p2[d] += v[d]; Grid inc(n, EMPTY); inc.add_grid_generator(gg_from(p2, n, 0)); x.upper_bound_assign(inc); t << "+param" << show(v); }
    else if (m < 94) { Variable v(rnd(0, n - 1)); x.unconstrain(v); t << "unconstrain(" << str(v) << ")"; }
    else t << "same";
    text = t.str(); return x;
  }

  Grid initial(std::string& text) {
    std::ostringstream t; int k = rnd(0, 99);
    if (k < 5) { text = "empty"; return Grid(n, EMPTY); }
    if (k < 8) { text = "universe"; return Grid(n); }
    if (k < 55 || n == 0) {
      Grid g(n, EMPTY); t << "gens{"; int np = rnd(0, 3);
      Vec p(n); for (int d = 0; d < n; ++d) { p[d] = Q(rnd(-3, 3), rnd(1, 3)); p[d].canonicalize(); }
      Grid_Generator g0 = gg_from(p, n, 0); g.add_grid_generator(g0); t << str(g0);
      for (int i = 0; i < np && n > 0; ++i) { Vec v(n); for (int d = 0; d < n; ++d) { v[d] = Q(rnd(-4, 4), rnd(1, 3)); v[d].canonicalize(); } bool z = true; for (int d = 0; d < n; ++d) if (v[d] != 0) z = false; if (z) continue; Grid_Generator gg = gg_from(v, n, coin(85) ? 1 : 2); g.add_grid_generator(gg); t << ", " << str(gg); }
      t << "}"; text = t.str(); return g;
    }
    Grid g(n); t << "cgs{"; int nc = rnd(1, 4);
    for (int i = 0; i < nc; ++i) { Cg c; c.a.assign(n, Q(0)); for (int d = 0; d < n; ++d) if (coin(65)) c.a[d] = rnd(-3, 3); c.b = rnd(-3, 3); c.m = coin(20) ? 0 : rnd(1, 5); Congruence cg = cg_from(c, n); g.add_congruence(cg); t << (i ? ", " : "") << str(cg); }
    t << "}"; text = t.str(); return g;
  }

  void run() {
    int dk = rnd(0, 99); n = dk < 4 ? 0 : dk < 30 ? 1 : dk < 72 ? 2 : 3; if (hx::opt().thorough && dk >= 93) n = 4;
    std::vector<GOp> ops = gops(); const GOp& op = ops[rnd(0, 2)];
    std::string t0; Grid y = initial(t0);
    tr("Grid n=" + std::to_string(n) + " chain of " + op.name + " y0=" + t0);
    hx::count("chains.Grid." + op.name);
    int cap = (int) hx::opt().geti("cap", 200), quiet = 0, len = 0, it = 0;
    for (; it < cap; ++it) {
      hx::count("steps");
      try {
        Weight_Guard wg(200000000ULL);
        Lattice LY; if (!obs_grid(y, LY)) { hx::inconclusive("grid_descriptions_disagree"); return; }
        std::string gt; Grid x = grow(y, LY, it, gt);
        tr(" || x=y (+) " + gt);
        Grid z(x); bool stationary = false;
        if (!step(op, y, x, z, stationary, it < 12 || coin(15))) return;
        if (stationary) { if (++quiet >= 3) break; } else { quiet = 0; ++len; }
        if (coin(30)) { std::string d; Grid zt = grid_twin(z, rnd(0, 9), d); Lattice a, b; if (obs_grid(zt, a) && obs_grid(z, b) && ref::same(a, b)) { y = zt; tr(" || y=twin(z:" + d + ")"); hx::count("alternations"); } else { hx::inconclusive("twin_build_mismatch.Grid"); y = z; } }
        else y = z;
      } catch (const Logical_Timeout&) { violation(key("hang", op.name), "logical-time budget exceeded"); return;
      } catch (const std::exception& e) { violation(key("unexpected_exception", op.name, std::string(".") + typeid(e).name()), e.what()); return; }
    }
    if (it >= cap) hx::inconclusive("chain_cap.Grid");
    std::map<std::string, unsigned long>& c = hx::st().counters; std::string k = "max_chain_len.Grid." + op.name; if (c[k] < (unsigned long) len) c[k] = len;
    hx::count("nonstationary_steps", len);
  }
};
} // namespace

void wc::run_grid_case() { GridChain c; c.run(); }
