// wrapseq — shared header of the integer-aware-operator engine (property C17).
//
// The case generator and the oracle (engines/wrapseq.cc) are written once
// against the abstract interface `IDom`; `DomImpl<D>` is the template adapter
// that builds an element of the real PPL class D from an `ArgSpec`, reads it
// back through a COPY into a `Shadow` (disjunction of constraint systems and
// congruence systems, all exact rationals) and forwards wrap_assign /
// drop_some_non_integer_points / contains_integer_point.  Each translation unit
// engines/wrapseq__<inst>.cc instantiates DomImpl for ONE PPL class and
// registers it (WRAPSEQ_REGISTER), so the big template instantiations compile
// in parallel.
#ifndef WRAPSEQ_HH
#define WRAPSEQ_HH
#include "pplx.hh"
#include "refgrid.hh"
#include <memory>
#include <type_traits>

namespace wrapseq {
using namespace pplx;
typedef mpz_class Z;
using ref::Cg;

// ---------- exact shadow of a PPL element ----------
struct Disj { Sys cons; std::vector<Cg> cgs; };
struct Shadow {
  int n; std::vector<Disj> d;
  Shadow() : n(0) {}
  bool member(const Vec& x) const {
    for (size_t k = 0; k < d.size(); ++k) if (ref::sat(d[k].cons, x) && ref::sat_all(d[k].cgs, x)) return true;
    return false;
  }
};

// ---------- description of the argument to build ----------
struct GGen { char kind; std::vector<Z> num; Z den; };   // grid generator: 'p' point, 'q' parameter, 'l' line
struct DisjSpec { std::vector<Constraint> cons; };
struct ArgSpec {
  int n;
  std::vector<DisjSpec> disj;        // one entry except for powersets
  std::vector<Congruence> cgs;       // grids and products
  bool from_gens; std::vector<GGen> gens;   // grids only: build from a generator system instead
  ArgSpec() : n(0), from_gens(false) {}
};

enum Family { F_POLY, F_BD, F_OCT, F_GRID, F_PSET, F_PROD };

struct IDom {
  virtual ~IDom() {}
  virtual void build(const ArgSpec& a) = 0;
  virtual void prep(int how) = 0;                 // drive the element into another lazy state (value unchanged)
  virtual Shadow observe() const = 0;              // through a copy
  virtual std::string status() const = 0;          // state word of ascii_dump (true observer)
  virtual bool empty_through_copy() const = 0;
  virtual void wrap(const Variables_Set& vars, Bounded_Integer_Type_Width w, Bounded_Integer_Type_Representation r,
                    Bounded_Integer_Type_Overflow o, const Constraint_System* cs_p, unsigned thr, bool indiv) = 0;
  virtual void drop(const Variables_Set* vars, Complexity_Class c) = 0;
  virtual bool cip() const = 0;
  virtual bool copy_contains_point(const Vec& q) const = 0;   // PPL's own opinion, used only to re-validate a witness
  virtual bool ok() const = 0;
};

struct Entry {
  std::string short_name; // --kv inst=<short_name>
  std::string inst;      // key component
  Family family;
  bool nnc, integer_coeff, has_wrap, has_cip;
  IDom* (*make)();
};
std::vector<Entry>& table();   // defined in wrapseq.cc

// ---------- PPL -> reference model ----------
inline Cg conv_cg(const Congruence& c, int n) {
  Cg r; r.a.assign(n, Q(0));
  for (int i = 0; i < n && i < (int) c.space_dimension(); ++i) r.a[i] = ref::toQ(c.coefficient(Variable(i)));
  r.b = -ref::toQ(c.inhomogeneous_term()); r.m = ref::toQ(c.modulus());
  return r;
}
inline std::vector<Cg> conv_cgs(const Congruence_System& cs, int n) {
  std::vector<Cg> v;
  for (Congruence_System::const_iterator i = cs.begin(), e = cs.end(); i != e; ++i) v.push_back(conv_cg(*i, n));
  return v;
}
inline Linear_Expression lin(const std::vector<Z>& a) {
  Linear_Expression e;
  for (size_t i = 0; i < a.size(); ++i) if (a[i] != 0) e += Coefficient(a[i]) * Variable(i);
  return e;
}
// den_i * x_i == num_i for every i
inline std::vector<Constraint> point_equalities(const Vec& q) {
  std::vector<Constraint> v;
  for (size_t i = 0; i < q.size(); ++i) v.push_back(Coefficient(q[i].get_den()) * Variable(i) == Coefficient(q[i].get_num()));
  return v;
}

// ---------- per-class traits ----------
template <typename D> struct Traits;   // family, names
template <> struct Traits<C_Polyhedron> { static Family family() { return F_POLY; } static const char* inst() { return "C_Polyhedron"; } static bool nnc() { return false; } static bool integer_coeff() { return false; } };
template <> struct Traits<NNC_Polyhedron> { static Family family() { return F_POLY; } static const char* inst() { return "NNC_Polyhedron"; } static bool nnc() { return true; } static bool integer_coeff() { return false; } };
template <> struct Traits<BD_Shape<mpq_class> > { static Family family() { return F_BD; } static const char* inst() { return "BD_Shape<mpq_class>"; } static bool nnc() { return false; } static bool integer_coeff() { return false; } };
template <> struct Traits<BD_Shape<mpz_class> > { static Family family() { return F_BD; } static const char* inst() { return "BD_Shape<mpz_class>"; } static bool nnc() { return false; } static bool integer_coeff() { return true; } };
template <> struct Traits<Octagonal_Shape<mpq_class> > { static Family family() { return F_OCT; } static const char* inst() { return "Octagonal_Shape<mpq_class>"; } static bool nnc() { return false; } static bool integer_coeff() { return false; } };
template <> struct Traits<Octagonal_Shape<mpz_class> > { static Family family() { return F_OCT; } static const char* inst() { return "Octagonal_Shape<mpz_class>"; } static bool nnc() { return false; } static bool integer_coeff() { return true; } };
template <> struct Traits<Grid> { static Family family() { return F_GRID; } static const char* inst() { return "Grid"; } static bool nnc() { return false; } static bool integer_coeff() { return false; } };
typedef Pointset_Powerset<C_Polyhedron> PSet_C;
template <> struct Traits<PSet_C> { static Family family() { return F_PSET; } static const char* inst() { return "Pointset_Powerset<C_Polyhedron>"; } static bool nnc() { return false; } static bool integer_coeff() { return false; } };
typedef Domain_Product<C_Polyhedron, Grid>::Constraints_Product Prod_CG;
template <> struct Traits<Prod_CG> { static Family family() { return F_PROD; } static const char* inst() { return "Constraints_Product<C_Polyhedron,Grid>"; } static bool nnc() { return false; } static bool integer_coeff() { return false; } };

// ---------- observation helpers (always applied to a private copy) ----------
template <typename P> inline void observe_simple(P& c, int n, Shadow& S) {   // polyhedra, BD shapes, octagons
  if (c.is_empty()) return;
  Disj d; d.cons = ref::conv(c.constraints(), n); S.d.push_back(d);
}
// the state word of an ascii_dump: the first of the leading lines that looks like a status line
inline std::string second_line(const std::string& s) {
  size_t pos = 0;
  for (int k = 0; k < 3 && pos < s.size(); ++k) {
    size_t e = s.find('\n', pos); if (e == std::string::npos) e = s.size();
    std::string l = s.substr(pos, e - pos);
    if (l.size() <= 60 && (l.find("EM") != std::string::npos || l.find("reduced") != std::string::npos)) return l;
    pos = e + 1;
  }
  return "";
}

template <typename D> struct DomImpl : IDom {
  std::unique_ptr<D> x; int n;
  DomImpl() : n(0) {}
  static Family fam() { return Traits<D>::family(); }

  void build(const ArgSpec& a) {
    n = a.n;
    if constexpr (std::is_same<D, Grid>::value) {
      if (a.from_gens) {
        x.reset(new Grid(n, EMPTY));
        for (size_t i = 0; i < a.gens.size(); ++i) {
          const GGen& g = a.gens[i]; Linear_Expression e = lin(g.num);
          if (g.kind == 'p') x->add_grid_generator(grid_point(e, Coefficient(g.den)));
          else if (g.kind == 'q') x->add_grid_generator(parameter(e, Coefficient(g.den)));
          else x->add_grid_generator(grid_line(e));
        }
      } else {
        x.reset(new Grid(n));
        for (size_t i = 0; i < a.cgs.size(); ++i) x->add_congruence(a.cgs[i]);
      }
      for (size_t i = 0; i < a.disj[0].cons.size(); ++i) x->refine_with_constraint(a.disj[0].cons[i]);
    } else if constexpr (std::is_same<D, PSet_C>::value) {
      x.reset(new PSet_C(n, EMPTY));
      for (size_t k = 0; k < a.disj.size(); ++k) {
        C_Polyhedron ph(n);
        for (size_t i = 0; i < a.disj[k].cons.size(); ++i) ph.add_constraint(a.disj[k].cons[i]);
        x->add_disjunct(ph);
      }
    } else if constexpr (std::is_same<D, Prod_CG>::value) {
      x.reset(new Prod_CG(n));
      for (size_t i = 0; i < a.disj[0].cons.size(); ++i) x->refine_with_constraint(a.disj[0].cons[i]);
      for (size_t i = 0; i < a.cgs.size(); ++i) x->refine_with_congruence(a.cgs[i]);
    } else {
      x.reset(new D(n));
      for (size_t i = 0; i < a.disj[0].cons.size(); ++i) x->add_constraint(a.disj[0].cons[i]);
    }
  }

  void prep(int how) {
    if (how == 0) return;
    if constexpr (std::is_same<D, C_Polyhedron>::value || std::is_same<D, NNC_Polyhedron>::value) {
      if (how == 1) (void) x->generators();
      else if (how == 2) (void) x->minimized_constraints();
      else if (how == 3) { (void) x->minimized_generators(); }
      else { D y(x->generators()); if ((int) y.space_dimension() == n) x->m_swap(y); }   // generators only
    } else if constexpr (std::is_same<D, Grid>::value) {
      if (how == 1) (void) x->grid_generators();
      else if (how == 2) (void) x->minimized_congruences();
      else if (how == 3) (void) x->minimized_grid_generators();
      else { Grid y(x->grid_generators()); if ((int) y.space_dimension() == n) x->m_swap(y); }
    } else if constexpr (std::is_same<D, PSet_C>::value) {
      if (how == 1) x->omega_reduce();
      else if (how == 2) x->pairwise_reduce();
    } else if constexpr (std::is_same<D, Prod_CG>::value) {
      if (how == 1) (void) x->is_empty();
      else if (how == 2) (void) x->domain1();
    } else {
      if (how == 1) (void) x->is_empty();               // closure
      else if (how == 2) (void) x->minimized_constraints();
    }
  }

  static Shadow observe_of(const D& orig, int n) {
    Shadow S; S.n = n;
    D c(orig);
    if constexpr (std::is_same<D, Grid>::value) {
      if (c.is_empty()) return S;
      Disj d; d.cgs = conv_cgs(c.congruences(), n); S.d.push_back(d);
    } else if constexpr (std::is_same<D, PSet_C>::value) {
      for (typename D::const_iterator i = c.begin(), e = c.end(); i != e; ++i) { C_Polyhedron p(i->pointset()); observe_simple(p, n, S); }
    } else if constexpr (std::is_same<D, Prod_CG>::value) {
      if (c.is_empty()) return S;
      Disj d;
      { C_Polyhedron p(c.domain1()); if (p.is_empty()) return S; d.cons = ref::conv(p.constraints(), n); }
      { Grid g(c.domain2()); if (g.is_empty()) return S; d.cgs = conv_cgs(g.congruences(), n); }
      S.d.push_back(d);
    } else {
      observe_simple(c, n, S);
    }
    return S;
  }
  Shadow observe() const { return observe_of(*x, n); }
  std::string status() const { std::ostringstream o; x->ascii_dump(o); return second_line(o.str()); }
  bool empty_through_copy() const { D c(*x); return c.is_empty(); }

  void wrap(const Variables_Set& vars, Bounded_Integer_Type_Width w, Bounded_Integer_Type_Representation r,
            Bounded_Integer_Type_Overflow o, const Constraint_System* cs_p, unsigned thr, bool indiv) {
    if constexpr (std::is_same<D, Prod_CG>::value) { (void) vars; (void) w; (void) r; (void) o; (void) cs_p; (void) thr; (void) indiv; }
    else x->wrap_assign(vars, w, r, o, cs_p, thr, indiv);
  }
  void drop(const Variables_Set* vars, Complexity_Class c) {
    if (vars) x->drop_some_non_integer_points(*vars, c); else x->drop_some_non_integer_points(c);
  }
  bool cip() const {
    if constexpr (std::is_same<D, Prod_CG>::value) return false;
    else return x->contains_integer_point();
  }
  bool copy_contains_point(const Vec& q) const {
    D c(*x);
    std::vector<Constraint> eq = point_equalities(q);
    if constexpr (std::is_same<D, PSet_C>::value) {
      C_Polyhedron s(n); for (size_t i = 0; i < eq.size(); ++i) s.add_constraint(eq[i]);
      PSet_C sp(n, EMPTY); sp.add_disjunct(s);
      return c.contains(sp);
    } else {
      D s(n); for (size_t i = 0; i < eq.size(); ++i) s.refine_with_constraint(eq[i]);
      return c.contains(s);
    }
  }
  bool ok() const { return x->OK(); }
};

template <typename D> IDom* make_dom() { return new DomImpl<D>(); }
template <typename D> struct Registrar {
  explicit Registrar(const char* short_name) {
    Entry e; e.short_name = short_name; e.inst = Traits<D>::inst(); e.family = Traits<D>::family(); e.nnc = Traits<D>::nnc(); e.integer_coeff = Traits<D>::integer_coeff();
    e.has_wrap = e.family != F_PROD; e.has_cip = e.family != F_PROD;
    e.make = &make_dom<D>;
    table().push_back(e);
  }
};
#define WRAPSEQ_REGISTER(SHORT, ...) static wrapseq::Registrar<__VA_ARGS__ > wrapseq_registrar_##SHORT(#SHORT);

} // namespace wrapseq
#endif
