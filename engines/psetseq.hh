// psetseq.hh — random operation histories on Pointset_Powerset<D>, every step checked against the
// union of the verified shadows of the disjuncts (see psetseq_model.hh).  One TU per D instantiates
// Engine<Dom>::run_case.
//
// Monitors (key prefixes):
//   C09.<inst>.<op>.<what>[:class]   what in lost_points / extra_points / union_changed / size_increased / not_exact /
//                                    wrong_boolean / wrong_value / wrong_dimension / wrong_iterator / flag_stale /
//                                    not_reduced / not_OK / base_crash / unexpected_exception
//                                    class: alias | base-level-* (the base-level operator, not the powerset layer,
//                                    misbehaves on one disjunct; decided by re-running it on copies of the disjuncts) | ...
//   C09.hang.<inst>.<op>             logical-time budget exceeded
//   C13.pset.alias.<op>:<inst>       ps.op(ps) differs from ps.op(copy)
//   C13.pset.<what>.<op>:<inst>      copy_changed (snapshot), bystander_changed, const_argument_changed,
//                                    original_changed_by_mutating_copy, changed_by_observer, copy_differs, assign_differs, swap_differs
//   C15.pset.<what>[.<op>]:<inst>-{powerset,base}-level   ascii round trip and lock-step continuation of the loaded twin
// Oracle: disjunct-wise operators are checked differentially against the base-level operator applied to copies of the
// disjuncts taken before the call (the property's own wording); meet, upper bound, add_disjunct, reductions, collapse,
// difference, geometric comparisons and context simplification are checked against the set-theoretic definition on the
// shadows.  Profiles (operation mix only): default | cow | alias | ascii | geom.   --kv inst=cpoly|nncpoly|grid|bds|oct|box|all
// distinct_nontrivial token: inst | operation | state word (reduced flag R/u, size class 0-3, shares a representation S/-,
// has an empty disjunct E/-) | argument class; counted only when the receiver has at least two non-empty disjuncts.
#ifndef PSETSEQ_HH
#define PSETSEQ_HH
#include "psetseq_dom.hh"
#include <functional>
#include <csignal>
#include <sys/types.h>
#include <sys/wait.h>

namespace psq {

template <class DOM>
struct Engine {
  typedef typename DOM::D D;
  typedef Pointset_Powerset<D> PS;
  typedef Determinate<D> Det;
  typedef Powerset<Det> Base;
  typedef typename DOM::M M;
  typedef typename M::Sh Sh;
  typedef std::vector<Sh> Un;
  static const Kind kind = DOM::kind;

  struct Peek : PS { static bool flag(const PS& p) { return p.*(&Peek::reduced); } };

  static std::string inst() { return DOM::name(); }
  static std::string key(const std::string& op, const std::string& what, const std::string& cls = "") { return "C09." + inst() + "." + op + "." + what + (cls.empty() ? "" : ":" + cls); }
  static std::string showU(const Un& u) { return show_union<M>(u); }

  // ---------- observation (pure: const iteration, every disjunct read through its own copy) ----------
  static std::vector<D> elems(const PS& p) { std::vector<D> v; for (typename PS::const_iterator i = p.begin(), e = p.end(); i != e; ++i) v.push_back(D(i->pointset())); return v; }
  static Un shadow_of(const std::vector<D>& v) { Un u; for (size_t i = 0; i < v.size(); ++i) u.push_back(M::shadow(v[i], (int) v[i].space_dimension())); return u; }
  static Un shadow(const PS& p) { Un u; int n = p.space_dimension(); for (typename PS::const_iterator i = p.begin(), e = p.end(); i != e; ++i) u.push_back(M::shadow(i->pointset(), n)); return u; }
  static std::string text(const D& d) { D q(d); return str(q); }
  static std::string text(const PS& p) { std::ostringstream o; o << "{"; bool f = true; for (typename PS::const_iterator i = p.begin(), e = p.end(); i != e; ++i) { o << (f ? "" : " | ") << text(i->pointset()); f = false; } o << "}"; return o.str(); }
  static std::string dump(const PS& p) { std::ostringstream o; p.ascii_dump(o); return o.str(); }
  static int nonempty_count(int n, const Un& u) { int c = 0; for (size_t i = 0; i < u.size(); ++i) if (!M::empty(n, u[i])) ++c; return c; }

  // ---------- union comparison ----------
  // 1 equal, 0 violation reported, -1 inconclusive
  static int check_same(const std::string& k_lost, const std::string& k_extra, int n, const Un& E, const Un& R, const std::string& what_e = "expected union", const std::string& what_r = "result") {
    checked();
    if (same_syntax_union<M>(E, R)) { hx::count("cmp.syntactic"); return 1; }
    hx::count("cmp.semantic");
    Vec w; int r = M::included(n, E, R, &w);
    if (r == 0) { violation(k_lost, "point " + show(w) + " of the " + what_e + " is missing from the " + what_r + "; " + what_e + " " + showU(E) + " " + what_r + " " + showU(R)); return 0; }
    if (r < 0) { hx::inconclusive("union_cap"); return -1; }
    r = M::included(n, R, E, &w);
    if (r == 0) { violation(k_extra, "point " + show(w) + " of the " + what_r + " is not in the " + what_e + "; " + what_e + " " + showU(E) + " " + what_r + " " + showU(R)); return 0; }
    if (r < 0) { hx::inconclusive("union_cap"); return -1; }
    return 1;
  }
  static int check_op(const std::string& op, int n, const Un& E, const Un& R, const std::string& cls = "") { hx::count("op_checks"); return check_same(key(op, "lost_points", cls), key(op, "extra_points", cls), n, E, R); }
  static int check_unchanged(const std::string& k, int n, const Un& before, const Un& now, const std::string& what) { return check_same(k, k, n, before, now, what + " before", what + " now"); }

  // ---------- the case state ----------
  struct Snap { PS* p; Un u; };
  struct Case {
    int n; std::vector<PS*> pool, twin; std::vector<Snap> snaps;
    Case() : n(0) {}
    ~Case() { for (size_t i = 0; i < pool.size(); ++i) delete pool[i]; for (size_t i = 0; i < twin.size(); ++i) delete twin[i]; for (size_t i = 0; i < snaps.size(); ++i) delete snaps[i].p; }
  private: Case(const Case&); Case& operator=(const Case&);
  };
  // is some disjunct of p shared (same representation object) with another live powerset?
  static bool shares(const Case& C, const PS& p) {
    std::set<const void*> mine; for (typename PS::const_iterator i = p.begin(), e = p.end(); i != e; ++i) mine.insert(&i->pointset());
    std::vector<const PS*> all; for (size_t i = 0; i < C.pool.size(); ++i) all.push_back(C.pool[i]); for (size_t i = 0; i < C.twin.size(); ++i) if (C.twin[i]) all.push_back(C.twin[i]); for (size_t i = 0; i < C.snaps.size(); ++i) all.push_back(C.snaps[i].p);
    for (size_t k = 0; k < all.size(); ++k) if (all[k] != &p) for (typename PS::const_iterator i = all[k]->begin(), e = all[k]->end(); i != e; ++i) if (mine.count(&i->pointset())) return true;
    return false;
  }
  static std::string state_word(const Case& C, const PS& p, const Un& U) {
    std::ostringstream o; size_t s = p.size();
    o << (Peek::flag(p) ? 'R' : 'u') << (s >= 3 ? 3 : (int) s) << (shares(C, p) ? 'S' : '-') << ((int) U.size() != nonempty_count(C.n, U) ? 'E' : '-');
    return o.str();
  }
  // the reduced flag, when set, must be true of the sequence (no empty disjunct, no disjunct inside another)
  static bool flag_consistent(int n, const PS& p, const Un& U, std::string& why) {
    if (!Peek::flag(p)) return true;
    for (size_t i = 0; i < U.size(); ++i) if (M::empty(n, U[i])) { why = "flag `reduced' set but disjunct " + std::to_string(i) + " is empty"; return false; }
    for (size_t i = 0; i < U.size(); ++i) for (size_t j = 0; j < U.size(); ++j) if (i != j) {
      Un a(1, U[i]), b(1, U[j]); Vec w; if (M::included(n, a, b, &w) == 1) { why = "flag `reduced' set but disjunct " + std::to_string(i) + " " + M::show(U[i]) + " is contained in disjunct " + std::to_string(j) + " " + M::show(U[j]); return false; } }
    return true;
  }
  // post-state sanity of a receiver: OK() and reduced flag
  static bool check_post(const std::string& op, const PS& p, const Un& R) {
    checked();
    std::string why;
    if (!flag_consistent((int) p.space_dimension(), p, R, why)) { violation(key(op, "flag_stale"), why + "; " + showU(R)); return false; }
    if (!p.OK()) {
      bool base = false; for (typename PS::const_iterator i = p.begin(), e = p.end(); i != e; ++i) if (!i->pointset().OK()) base = true;
      // a disjunct whose own OK() is false is a matter of the base-level domain (C03 / C05 monitors), not of the union semantics C09 speaks about: counted
      if (base) { hx::count("base_level_disjunct_not_OK"); return true; }
      violation(key(op, "not_OK", ""), "OK() returned false; " + showU(R)); return false; }
    return true;
  }

  // ---------- random disjunct families ----------
  static D family_elem(const PS& p, int n, std::string& how) {
    std::vector<D> ev = elems(p);
    int k = rnd(0, 99);
    if (ev.empty() || k < 40) { how = "random"; return DOM::rand_elem(n); }
    const D& base = ev[rnd(0, (int) ev.size() - 1)];
    if (k < 52) { how = "duplicate"; return base; }
    if (k < 66) { how = "subset"; D d(base); restrict_elem<DOM>(d, n); return d; }
    if (k < 82) { how = "adjacent"; D d1(n), d2(n); split_elem<DOM>(base, d1, d2, n); return coin() ? d1 : d2; }
    if (k < 90) { how = "empty"; return undetected_empty<DOM>(n); }
    if (k < 94) { how = "universe"; return D(n); }
    how = "superset"; D d(base); d.upper_bound_assign(DOM::rand_elem(n)); return d;
  }
  static PS* random_ps(int n, std::string& desc) {
    int how = rnd(0, 19); PS* p;
    if (how == 0) { p = new PS(n, UNIVERSE); desc = "universe"; }
    else if (how == 1) { D d = DOM::rand_elem(n); p = new PS(d); desc = "from element"; }
    else {
      p = new PS(n, EMPTY); desc = "";
      int kk = rnd(0, 99); int k = kk < 6 ? 0 : kk < 16 ? 1 : kk < 50 ? 2 : kk < 80 ? 3 : 4;
      for (int j = 0; j < k; ++j) {
        std::string h; D d = family_elem(*p, n, h);
        if (h == "adjacent" && (int) p->size() < 4) { std::vector<D> ev = elems(*p); D d1(n), d2(n); split_elem<DOM>(ev[rnd(0, (int) ev.size() - 1)], d1, d2, n); p->add_disjunct(d1); p->add_disjunct(d2); ++j; }
        else p->add_disjunct(d);
        desc += (desc.empty() ? "" : ",") + h;
      }
      if (coin(25)) { p->omega_reduce(); desc += ";omega_reduced"; }
    }
    return p;
  }

  // ---------- operations applied both to the powerset and, disjunct-wise, to base elements ----------
  struct UOp { std::string name, text; std::function<void(PS&)> ps; std::function<void(D&)> d; };
  template <class F> static void set(UOp& op, F f) { op.ps = [f](PS& p) { f(p); }; op.d = [f](D& d) { f(d); }; }
  struct BOp { std::string name; std::function<void(PS&, const PS&)> ps; std::function<void(D&, const D&)> d; };

  static int rel_index() { return DOM::strict_ok ? rnd(0, 4) : rnd(1, 3); }

  static bool make_uop(UOp& op, int n) {
    int k = rnd(0, 99); std::ostringstream t;
    if (k < 24) {
      int which = rnd(0, 3); bool refine = which >= 2; bool sys = which % 2 == 1;
      std::vector<Constraint> cv; int cnt = sys ? rnd(0, 2) : 1;
      for (int i = 0; i < cnt; ++i) cv.push_back((refine && coin(40)) ? mild_con(n, true) : DOM::rand_c(n));
      Constraint_System cs; for (size_t i = 0; i < cv.size(); ++i) cs.insert(cv[i]);
      const char* nm[4] = { "add_constraint", "add_constraints", "refine_with_constraint", "refine_with_constraints" };
      op.name = nm[which]; t << "." << op.name << "("; for (size_t i = 0; i < cv.size(); ++i) t << (i ? ", " : "") << str(cv[i]); t << ")"; op.text = t.str();
      if (which == 0) { Constraint c = cv[0]; set(op, [c](auto& x) { x.add_constraint(c); }); }
      else if (which == 1) set(op, [cs](auto& x) { x.add_constraints(cs); });
      else if (which == 2) { Constraint c = cv[0]; set(op, [c](auto& x) { x.refine_with_constraint(c); }); }
      else set(op, [cs](auto& x) { x.refine_with_constraints(cs); });
      return true;
    }
    if (k < 36) {
      int which = rnd(0, 3); bool refine = which >= 2; bool sys = which % 2 == 1;
      std::vector<Congruence> gv; int cnt = sys ? rnd(0, 2) : 1;
      for (int i = 0; i < cnt; ++i) { Congruence g = mild_cg(n); if (kind != K_GRID && !refine && !g.is_equality()) g = (mild_expr(n) %= 0) / 0; gv.push_back(g); }
      Congruence_System cgs; for (size_t i = 0; i < gv.size(); ++i) cgs.insert(gv[i]);
      const char* nm[4] = { "add_congruence", "add_congruences", "refine_with_congruence", "refine_with_congruences" };
      op.name = nm[which]; t << "." << op.name << "("; for (size_t i = 0; i < gv.size(); ++i) t << (i ? ", " : "") << str(gv[i]); t << ")"; op.text = t.str();
      if (which == 0) { Congruence c = gv[0]; set(op, [c](auto& x) { x.add_congruence(c); }); }
      else if (which == 1) set(op, [cgs](auto& x) { x.add_congruences(cgs); });
      else if (which == 2) { Congruence c = gv[0]; set(op, [c](auto& x) { x.refine_with_congruence(c); }); }
      else set(op, [cgs](auto& x) { x.refine_with_congruences(cgs); });
      return true;
    }
    if (n >= 1 && k < 50) {
      bool pre = coin(); int v = rnd(0, n - 1); Linear_Expression e = coin(80) ? mild_expr(n) : rand_expr(n); int d = rand_den();
      op.name = pre ? "affine_preimage" : "affine_image"; t << "." << op.name << "(" << str(Variable(v)) << ", " << str(e) << ", " << d << ")"; op.text = t.str();
      if (pre) set(op, [v, e, d](auto& x) { x.affine_preimage(Variable(v), e, d); }); else set(op, [v, e, d](auto& x) { x.affine_image(Variable(v), e, d); });
      return true;
    }
    if (n >= 1 && k < 60) {
      bool pre = coin(); int v = rnd(0, n - 1); Linear_Expression e = mild_expr(n); int d = rand_den(); int ri = (kind == K_GRID && coin(60)) ? 2 : rel_index();
      op.name = pre ? "generalized_affine_preimage" : "generalized_affine_image"; t << "." << op.name << "(" << str(Variable(v)) << ", " << REL5S[ri] << ", " << str(e) << ", " << d << ")"; op.text = t.str();
      if (pre) set(op, [v, ri, e, d](auto& x) { x.generalized_affine_preimage(Variable(v), REL5[ri], e, d); }); else set(op, [v, ri, e, d](auto& x) { x.generalized_affine_image(Variable(v), REL5[ri], e, d); });
      return true;
    }
    if (n >= 1 && k < 68) {
      bool pre = coin(); Linear_Expression l = mild_expr(n, 2, 2), r = mild_expr(n); int ri = (kind == K_GRID && coin(60)) ? 2 : rel_index();
      op.name = pre ? "generalized_affine_preimage_lr" : "generalized_affine_image_lr"; t << "." << op.name << "(" << str(l) << ", " << REL5S[ri] << ", " << str(r) << ")"; op.text = t.str();
      if (pre) set(op, [l, ri, r](auto& x) { x.generalized_affine_preimage(l, REL5[ri], r); }); else set(op, [l, ri, r](auto& x) { x.generalized_affine_image(l, REL5[ri], r); });
      return true;
    }
    if (n >= 1 && k < 78) {
      bool pre = coin(); int v = rnd(0, n - 1); Linear_Expression lb = mild_expr(n), ub = mild_expr(n); int d = rand_den();
      op.name = pre ? "bounded_affine_preimage" : "bounded_affine_image"; t << "." << op.name << "(" << str(Variable(v)) << ", " << str(lb) << ", " << str(ub) << ", " << d << ")"; op.text = t.str();
      if (pre) set(op, [v, lb, ub, d](auto& x) { x.bounded_affine_preimage(Variable(v), lb, ub, d); }); else set(op, [v, lb, ub, d](auto& x) { x.bounded_affine_image(Variable(v), lb, ub, d); });
      return true;
    }
    if (n >= 1 && k < 88) {
      bool sets = coin(); Variables_Set vs;
      if (sets) { for (int i = 0; i < n; ++i) if (coin(40)) vs.insert(Variable(i)); } else vs.insert(Variable(rnd(0, n - 1)));
      op.name = sets ? "unconstrain_set" : "unconstrain"; t << "." << op.name << "(" << str(vs) << ")"; op.text = t.str();
      if (sets) set(op, [vs](auto& x) { x.unconstrain(vs); }); else { int v = *vs.begin(); set(op, [v](auto& x) { x.unconstrain(Variable(v)); }); }
      return true;
    }
    if (k < 100) { op.name = "topological_closure_assign"; op.text = ".topological_closure_assign()"; set(op, [](auto& x) { x.topological_closure_assign(); }); return true; }
    return false;
  }
  // dimension-changing operators (applied to a scratch copy)
  static bool make_dimop(UOp& op, int n) {
    int which = rnd(0, 5); std::ostringstream t;
    if (which == 0) { int m = rnd(0, 2); bool proj = coin(); op.name = proj ? "add_space_dimensions_and_project" : "add_space_dimensions_and_embed"; t << "." << op.name << "(" << m << ")"; op.text = t.str();
      if (proj) set(op, [m](auto& x) { x.add_space_dimensions_and_project(m); }); else set(op, [m](auto& x) { x.add_space_dimensions_and_embed(m); }); return true; }
    if (which == 1) { Variables_Set vs; for (int i = 0; i < n; ++i) if (coin(40)) vs.insert(Variable(i)); op.name = "remove_space_dimensions"; t << "." << op.name << "(" << str(vs) << ")"; op.text = t.str();
      set(op, [vs](auto& x) { x.remove_space_dimensions(vs); }); return true; }
    if (which == 2) { int k = rnd(0, n); op.name = "remove_higher_space_dimensions"; t << "." << op.name << "(" << k << ")"; op.text = t.str(); set(op, [k](auto& x) { x.remove_higher_space_dimensions(k); }); return true; }
    if (which == 3 && n >= 1) { int i = rnd(0, n - 1), m = rnd(0, 2); op.name = "expand_space_dimension"; t << "." << op.name << "(" << str(Variable(i)) << ", " << m << ")"; op.text = t.str(); set(op, [i, m](auto& x) { x.expand_space_dimension(Variable(i), m); }); return true; }
    if (which == 4 && n >= 2) { int i = rnd(0, n - 1); Variables_Set vs; for (int j = 0; j < n; ++j) if (j != i && coin(60)) vs.insert(Variable(j)); op.name = "fold_space_dimensions"; t << "." << op.name << "(" << str(vs) << ", " << str(Variable(i)) << ")"; op.text = t.str();
      set(op, [vs, i](auto& x) { x.fold_space_dimensions(vs, Variable(i)); }); return true; }
    if (which == 5 && n >= 1) { Partial_Function pf; std::vector<int> order; for (int j = 0; j < n; ++j) order.push_back(j); std::shuffle(order.begin(), order.end(), hx::rng()); int k = rnd(0, n); std::ostringstream ms;
      for (int j = 0; j < k; ++j) { pf.insert(order[j], j); ms << order[j] << "->" << j << " "; }
      op.name = "map_space_dimensions"; t << "." << op.name << "(" << ms.str() << ")"; op.text = t.str(); set(op, [pf](auto& x) { x.map_space_dimensions(pf); }); return true; }
    return false;
  }

  // base-level pre-run on copies of the disjuncts: expected union, or "skip" when the domain rejects the argument
  // Operators known to kill the process at base level are first tried in a forked child, so that the
  // defect is reported from an observed death and the engine survives it.
  static bool risky(const std::string& name) { return (kind == K_BOX && name == "bounded_affine_preimage") || (kind == K_OCT && name == "simplify_using_context_assign"); }
  static int crash_probe(const std::function<void()>& f) {
    fflush(0);
    pid_t p = fork();
    if (p < 0) return 0;
    if (p == 0) { signal(SIGFPE, SIG_DFL); signal(SIGSEGV, SIG_DFL); signal(SIGABRT, SIG_DFL); signal(SIGBUS, SIG_DFL); signal(SIGILL, SIG_DFL); try { f(); } catch (...) {} _exit(0); }
    int st = 0; if (waitpid(p, &st, 0) != p) return 0;
    return WIFSIGNALED(st) ? WTERMSIG(st) : 0;
  }
  // value computed in a forked child: exit code, or -signal when the child died
  static int probe_value(const std::function<int()>& f) {
    fflush(0);
    pid_t p = fork();
    if (p < 0) return 0;
    if (p == 0) { signal(SIGFPE, SIG_DFL); signal(SIGSEGV, SIG_DFL); signal(SIGABRT, SIG_DFL); signal(SIGBUS, SIG_DFL); signal(SIGILL, SIG_DFL); int r = 0; try { r = f(); } catch (...) {} _exit(r & 127); }
    int st = 0; if (waitpid(p, &st, 0) != p) return 0;
    return WIFSIGNALED(st) ? -WTERMSIG(st) : WEXITSTATUS(st);
  }
  static bool expected_unary(const UOp& op, const std::vector<D>& ev, Un& E) {
    if (risky(op.name)) {
      hx::count("crash_probes");
      int sig = crash_probe([&]() { std::vector<D> w = ev; for (size_t i = 0; i < w.size(); ++i) op.d(w[i]); });
      if (sig) { tr(" | base-level" + op.text); std::string els; for (size_t i = 0; i < ev.size(); ++i) els += (i ? " | " : "") + text(ev[i]);
        violation(key(op.name, "base_crash", "signal-" + std::to_string(sig)), "the base-level operator applied to a copy of a disjunct killed a forked probe process; disjuncts: " + els); return false; }
    }
    try { std::vector<D> w = ev; for (size_t i = 0; i < w.size(); ++i) op.d(w[i]); E = shadow_of(w); return true; }
    catch (const std::invalid_argument&) { hx::count("skipped.invalid_argument." + op.name); return false; }
  }
  // cls: triage class "base-level-maps-empty-to-nonempty" when the base-level operator gives a non-empty result for an empty operand
  static bool expected_pairwise(const BOp& op, const std::vector<D>& ea, const std::vector<D>& eb, Un& E, std::string* cls = 0) {
    try { E.clear(); for (size_t i = 0; i < ea.size(); ++i) for (size_t j = 0; j < eb.size(); ++j) { D z(ea[i]); op.d(z, eb[j]); E.push_back(M::shadow(z, (int) z.space_dimension()));
        if (cls && !M::empty((int) z.space_dimension(), E.back()) && (D(ea[i]).is_empty() || D(eb[j]).is_empty())) *cls = "base-level-maps-empty-to-nonempty"; } return true; }
    catch (const std::invalid_argument&) { hx::count("skipped.invalid_argument." + op.name); return false; }
  }

#include "psetseq_steps.hh"
};

} // namespace psq
#endif
