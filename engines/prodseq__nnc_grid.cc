// prodseq, pair (NNC_Polyhedron, Grid): the five reduction policies of this pair.
#include "prodseq.hh"
namespace prodseq {
IFactory* factory_nnc_grid(int red) { return pair_factory<NNC_Polyhedron, Grid >("nnc_grid", red); }
}
