// numkernel — exhaustive 8-bit units for one 8-bit type T (signed char / unsigned char).
// Every operand is a raw 8-bit pattern, so the encodings of -inf, +inf and NaN of the extended policies are
// enumerated together with the finite values.
#ifndef NUMKERNEL_I8_HH
#define NUMKERNEL_I8_HH
#include "numkernel_units.hh"

namespace nk {

template <typename N> inline std::vector<N> accs8(bool all, unsigned lo = 0, unsigned hi = 255) {
  if (all) return range8<N>(lo, hi);
  typedef typename Kind<N>::raw_t T; std::vector<N> v;
  static const int S[] = { -128, -127, -126, -1, 0, 1, 5, 126, 127 };      // -inf, nan, min, ..., max, +inf of the extended policies
  static const int U[] = { 0, 1, 5, 128, 252, 253, 254, 255 };
  if (std::is_signed<T>::value) for (size_t i = 0; i < sizeof S / sizeof S[0]; ++i) v.push_back(from_bits8<N>((unsigned) (S[i] & 0xff)));
  else for (size_t i = 0; i < sizeof U / sizeof U[0]; ++i) v.push_back(from_bits8<N>((unsigned) U[i]));
  return v;
}

template <typename N, typename Op> inline void reg_bin(Units& u) {
  for (unsigned c = 0; c < 16; ++c)
    u.push_back(Unit{ std::string(Op::name()) + "<" + kname<N>() + "> x in raw[" + std::to_string(16 * c) + "," + std::to_string(16 * c + 15) + "] y in raw[0,255] all directions",
                      [c]() { run_binary<N, Op>(range8<N>(16 * c, 16 * c + 15), range8<N>(0, 255)); } });
}
template <typename N, typename Op> inline void reg_fused(Units& q, Units& t) {
  for (unsigned c = 0; c < 16; ++c)
    q.push_back(Unit{ std::string(Op::name()) + "<" + kname<N>() + "> x in raw[" + std::to_string(16 * c) + "," + std::to_string(16 * c + 15) + "] y in raw[0,255] boundary accumulators",
                      [c]() { run_fused<N, Op>(accs8<N>(false), range8<N>(16 * c, 16 * c + 15), range8<N>(0, 255)); } });
  for (unsigned c = 0; c < 16; ++c) for (unsigned a = 0; a < 16; ++a)
    t.push_back(Unit{ std::string(Op::name()) + "<" + kname<N>() + "> x in raw[" + std::to_string(16 * c) + "," + std::to_string(16 * c + 15) + "] y in raw[0,255] to in raw[" + std::to_string(16 * a) + "," + std::to_string(16 * a + 15) + "]",
                      [c, a]() { run_fused<N, Op>(accs8<N>(true, 16 * a, 16 * a + 15), range8<N>(16 * c, 16 * c + 15), range8<N>(0, 255)); } });
}
template <typename N> inline void reg_kind(Units& q, Units& t) {
  typedef typename Kind<N>::raw_t T;
  reg_bin<N, Op_add>(q); reg_bin<N, Op_sub>(q); reg_bin<N, Op_mul>(q); reg_bin<N, Op_div>(q); reg_bin<N, Op_rem>(q);
  reg_bin<N, Op_idiv>(q); reg_bin<N, Op_gcd>(q); reg_bin<N, Op_lcm>(q);
  reg_fused<N, Op_add_mul>(q, t); reg_fused<N, Op_sub_mul>(q, t);
  q.push_back(Unit{ "unary ops, 2exp ops, special values <" + kname<N>() + "> all 256 operands", []() {
    std::vector<N> all = range8<N>(0, 255);
    run_unary<N, Op_assign>(all); run_unary<N, Op_neg>(all); run_unary<N, Op_abs>(all); run_unary<N, Op_floor>(all); run_unary<N, Op_ceil>(all); run_unary<N, Op_trunc>(all); run_unary<N, Op_sqrt>(all);
    std::vector<unsigned> ex(EXPS8, EXPS8 + sizeof EXPS8 / sizeof EXPS8[0]);
    run_2exp<N, Op_add_2exp>(all, ex); run_2exp<N, Op_sub_2exp>(all, ex); run_2exp<N, Op_mul_2exp>(all, ex); run_2exp<N, Op_div_2exp>(all, ex); run_2exp<N, Op_smod_2exp>(all, ex); run_2exp<N, Op_umod_2exp>(all, ex);
    run_specials<N>();
  } });
  q.push_back(Unit{ "comparisons <" + kname<N>() + "> all 65536 pairs", []() { std::vector<N> all = range8<N>(0, 255); run_compare<N, N>(all, all); } });
  (void) sizeof(T);
}

// conversions between the 8-bit kinds and from/to every other numeric family
template <typename To, typename From> inline void conv_all8() { run_convert<To, From>(range8<From>(0, 255)); }
template <typename N> inline void reg_conv(Units& q) {
  typedef typename Kind<N>::raw_t T; typedef typename std::conditional<std::is_signed<T>::value, unsigned char, signed char>::type OT;
  q.push_back(Unit{ "conversions from <" + kname<N>() + "> (all 256 values) to every numeric family", []() {
    conv_all8<T, N>(); conv_all8<OT, N>(); conv_all8<Checked_Number<T, PX>, N>(); conv_all8<Checked_Number<OT, PX>, N>(); conv_all8<Checked_Number<T, PW>, N>(); conv_all8<Checked_Number<OT, PB>, N>();
    conv_all8<short, N>(); conv_all8<unsigned short, N>(); conv_all8<int, N>(); conv_all8<unsigned int, N>(); conv_all8<long, N>(); conv_all8<unsigned long, N>(); conv_all8<long long, N>(); conv_all8<unsigned long long, N>();
    conv_all8<Checked_Number<short, PX>, N>(); conv_all8<Checked_Number<unsigned long, PX>, N>();
    conv_all8<float, N>(); conv_all8<double, N>(); conv_all8<long double, N>(); conv_all8<Checked_Number<double, PX>, N>();
    conv_all8<Z, N>(); conv_all8<Q, N>(); conv_all8<Checked_Number<Z, PX>, N>(); conv_all8<Checked_Number<Q, PX>, N>();
  } });
}
template <typename To, typename S16> inline void conv_from16(unsigned chunk) {
  std::vector<S16> v; for (unsigned k = 0; k < 16384; ++k) v.push_back((S16) (unsigned short) (chunk * 16384 + k)); run_convert<To, S16>(v);
}
template <typename N> inline void reg_conv16(Units& q) {
  for (unsigned c = 0; c < 4; ++c) {
    q.push_back(Unit{ "conversions <" + kname<N>() + "> <- int16 raw patterns [" + std::to_string(c * 16384) + "," + std::to_string(c * 16384 + 16383) + "]", [c]() { conv_from16<N, short>(c); } });
    q.push_back(Unit{ "conversions <" + kname<N>() + "> <- uint16 [" + std::to_string(c * 16384) + "," + std::to_string(c * 16384 + 16383) + "]", [c]() { conv_from16<N, unsigned short>(c); } });
  }
}

template <typename T> inline void reg_bounded(Units& q) {
  typedef Checked_Number<T, PB> NB;
  for (unsigned c = 0; c < 16; ++c)
    q.push_back(Unit{ std::string("bounded throwing interface <") + kname<NB>() + "> x in raw[" + std::to_string(16 * c) + "," + std::to_string(16 * c + 15) + "] y in raw[0,255]",
                      [c]() { BoundedMon<T>::run(range8<NB>(16 * c, 16 * c + 15), range8<NB>(0, 255), accs8<NB>(false)); } });
}

} // namespace nk
#endif
