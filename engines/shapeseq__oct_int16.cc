// shapeseq: instantiation of the shape adapter for Octagonal_Shape<int16_t> (see shapeseq.hh).
#include "shapeseq.hh"
SHAPESEQ_REGISTER(oct_int16, Parma_Polyhedra_Library::Octagonal_Shape<int16_t>)
