// rowdiff, part 3: Sparse_Row (and its Dense_Row twin) and CO_Tree driven directly,
// against a std::map<dimension_type, Coefficient> model in which an absent key reads 0.
//
//   C16.map.<op>      contents / iteration / search result differ from the model
//   C16.struct.<op>   structural invariant broken after <op>: OK(), keys not strictly
//                     increasing, element count, last key >= row size, reserved size not
//                     2^k-1, density outside [38 %, 91 %] (reserved size is read off
//                     external_memory_in_bytes(), so no hook is needed for this part);
//                     with PPL_VERIF_HAVE_ROW_HOOKS also the private CO_Tree::OK()
//                     through the verif_OK() forwarders.
//   C15.row.*         ascii_dump / ascii_load round trip of rows
//
// Hints: `fresh` = obtained for (about) the key just before use; `stale` = obtained some
// steps earlier for another key and carried across operations that are documented not to
// invalidate iterators (searches, value writes, swap_coefficients(itr,itr), fast_swap,
// add_zeroes_and_shift); `end`.  Iterators are never used after an operation documented
// to invalidate them: that would be the harness' fault.
#include "rowdiff_common.hh"

using namespace rd;

namespace {

typedef std::map<dimension_type, Z> Model;
inline Z val(const Model& m, dimension_type i) { Model::const_iterator it = m.find(i); return it == m.end() ? Z(0) : it->second; }
std::string show(const Model& m, dimension_type n) { std::ostringstream o; o << "{n=" << n; for (Model::const_iterator i = m.begin(); i != m.end(); ++i) o << " " << i->first << ":" << i->second; o << "}"; return o.str(); }
std::string show(const Sparse_Row& r) { std::ostringstream o; o << "{n=" << r.size(); for (Sparse_Row::const_iterator i = r.begin(); i != r.end(); ++i) o << " " << i.index() << ":" << *i; o << "}"; return o.str(); }

// reserved size of a tree, from its memory footprint: (R+1)*sizeof(data) + (R+2)*sizeof(index) + limbs
template <typename It> dimension_type reserved_from_memory(dimension_type mem, It b, It e) {
  dimension_type limbs = 0; for (It i = b; i != e; ++i) limbs += Parma_Polyhedra_Library::external_memory_in_bytes(*i);
  if (mem <= limbs) return 0;
  dimension_type fixed = mem - limbs, per = sizeof(Coefficient) + sizeof(dimension_type), base = sizeof(Coefficient) + 2 * sizeof(dimension_type);
  if (fixed < base || (fixed - base) % per != 0) return (dimension_type) -1;
  return (fixed - base) / per;
}
// the documented density discipline (CO_Tree_defs.hh: max 91 %, min 38 %), as CO_Tree::OK() states it
std::string density_problem(dimension_type size, dimension_type R) {
  if (R == (dimension_type) -1) return "footprint";
  if (R == 0) return size == 0 ? "" : "reserved0";
  if (R < 3 || ((R + 1) & R) != 0) return "reserved-not-2k-1";
  if (size > R) return "size>reserved";
  if (100 * size > 91 * R && R != 3) return "too-dense";
  if (100 * size < 38 * R && !(100 * size > 91 * (R / 2))) return "too-sparse";
  return "";
}

struct Reserved_Track { dimension_type last; Reserved_Track() : last(0) {} void see(dimension_type R, const char* what) { if (R > last) hx::count(std::string(what) + ".reserved_grew"); else if (R < last) hx::count(std::string(what) + ".reserved_shrank"); last = R; } };

// ---------------------------------------------------------------- Sparse_Row / Dense_Row
struct RS {
  Sparse_Row r; Dense_Row d; Model m; dimension_type N; bool exact;   // exact: the model's key set is exactly the stored set
  Reserved_Track rt;
  RS() : N(0), exact(true) {}
};

void dense_from_model(RS& s) { Dense_Row t(s.N, s.N); for (Model::const_iterator i = s.m.begin(); i != s.m.end(); ++i) if (i->second != 0) t[i->first] = i->second; s.d.m_swap(t); }

// full comparison of one row state with its model
bool check_row(RS& s, const std::string& op, bool check_dense = true) {
  checked(); hx::count("row_checks");
  const Sparse_Row& r = s.r;
  if (!r.OK()) { viol("C16.struct." + op + ":OK", "Sparse_Row::OK() false; row " + show(r) + " model " + show(s.m, s.N)); return false; }
#ifdef PPL_VERIF_HAVE_ROW_HOOKS
  if (!r.verif_OK()) { viol("C16.struct." + op + ":tree-OK", "CO_Tree::OK() false; row " + show(r)); return false; }
  hx::count("row.hooked_OK_checks");
#endif
  if (r.size() != s.N) { viol("C16.map." + op + ":size", "size " + std::to_string(r.size()) + " expected " + std::to_string(s.N)); return false; }
  // iteration: strictly increasing keys below the size, values as in the model
  dimension_type cnt = 0, last = 0; std::vector<dimension_type> keys;
  for (Sparse_Row::const_iterator i = r.begin(), e = r.end(); i != e; ++i, ++cnt) {
    dimension_type k = i.index();
    if (cnt > 0 && k <= last) { viol("C16.struct." + op + ":order", "keys not strictly increasing at " + std::to_string(k) + " row " + show(r)); return false; }
    if (k >= s.N) { viol("C16.struct." + op + ":key-beyond-size", "stored key " + std::to_string(k) + " >= size " + std::to_string(s.N)); return false; }
    if (*i != val(s.m, k)) { viol("C16.map." + op + ":value", "element " + std::to_string(k) + " = " + zs(*i) + " expected " + zs(val(s.m, k)) + " row " + show(r) + " model " + show(s.m, s.N)); return false; }
    if (s.exact && !s.m.count(k)) { viol("C16.map." + op + ":stored-extra", "key " + std::to_string(k) + " is stored but should not be; row " + show(r) + " model " + show(s.m, s.N)); return false; }
    last = k; keys.push_back(k);
    if (cnt > s.N) break;
  }
  if (cnt != r.num_stored_elements()) { viol("C16.struct." + op + ":count", "iteration yields " + std::to_string(cnt) + " elements, num_stored_elements() = " + std::to_string(r.num_stored_elements())); return false; }
  for (Model::const_iterator i = s.m.begin(); i != s.m.end(); ++i) if ((s.exact || i->second != 0) && !std::binary_search(keys.begin(), keys.end(), i->first)) { viol("C16.map." + op + ":missing", "key " + std::to_string(i->first) + " (value " + zs(i->second) + ") is not stored; row " + show(r) + " model " + show(s.m, s.N)); return false; }
  if (!s.exact) { Model nm; for (size_t j = 0; j < keys.size(); ++j) nm[keys[j]] = val(s.m, keys[j]); s.m.swap(nm); s.exact = true; }   // adopt the stored set after bulk operations
  // backward iteration
  if (cnt > 0) { Sparse_Row::const_iterator i = r.end(); size_t j = keys.size(); do { --i; --j; if (i.index() != keys[j]) { viol("C16.struct." + op + ":backward", "backward iteration yields " + std::to_string(i.index()) + " expected " + std::to_string(keys[j])); return false; } } while (j > 0); if (i != r.begin()) { viol("C16.struct." + op + ":backward", "backward iteration does not reach begin()"); return false; } }
  // random access (all positions for short rows, a sample for long ones)
  for (dimension_type q = 0, n = s.N; q < n; ++q) { dimension_type k = n <= 64 ? q : (dimension_type) rnd(0, (int) n - 1); if (r.get(k) != val(s.m, k) || r[k] != val(s.m, k)) { viol("C16.map." + op + ":get", "get(" + std::to_string(k) + ") = " + zs(r.get(k)) + " expected " + zs(val(s.m, k))); return false; } if (n > 64 && q >= 48) break; }
  // density discipline
  dimension_type R = reserved_from_memory(r.external_memory_in_bytes(), r.begin(), r.end());
  std::string dp = density_problem(cnt, R);
  if (!dp.empty()) { viol("C16.struct." + op + ":" + dp, "stored " + std::to_string(cnt) + " reserved " + std::to_string(R) + " row " + show(r)); return false; }
  s.rt.see(R, "row");
  if (check_dense) {
    const Dense_Row& d = s.d;
    if (!d.OK() || d.size() != s.N) { viol("C16.map." + op + ":dense-size", "dense twin size " + std::to_string(d.size()) + " expected " + std::to_string(s.N)); return false; }
    for (dimension_type k = 0; k < s.N; ++k) if (d[k] != val(s.m, k)) { viol("C16.map." + op + ":dense-value", "dense twin element " + std::to_string(k) + " = " + zs(d[k]) + " expected " + zs(val(s.m, k))); return false; }
    if (!(r == d) || !(d == r) || (r != d) || (d != r)) { viol("C16.diff.Row.operator_eq:" + op, "sparse row and its dense twin hold equal values but compare different; row " + show(r)); return false; }
  }
  return true;
}

struct Hint { Sparse_Row::iterator it; bool valid; int age; Hint() : valid(false), age(0) {} };

// picks a hint iterator for row r: fresh (near key), stale (kept), far, or end
Sparse_Row::iterator pick_hint(Sparse_Row& r, Hint& h, dimension_type key, std::string& kind) {
  int k = rnd(0, 9);
  if (h.valid && k < 4) { kind = h.age > 0 ? "stale" : "kept"; hx::count(std::string("row.hint.") + kind); return h.it; }
  if (k < 6) { kind = "fresh"; hx::count("row.hint.fresh"); return r.lower_bound(key < r.size() ? key : r.size()); }
  if (k < 7) { kind = "begin"; hx::count("row.hint.begin"); return r.begin(); }
  if (k < 8 && r.num_stored_elements() > 0) { kind = "far"; hx::count("row.hint.far"); Sparse_Row::iterator i = r.begin(); for (int n = rnd(0, (int) r.num_stored_elements() - 1); n-- > 0; ) ++i; return i; }
  kind = "end"; hx::count("row.hint.end"); return r.end();
}

// functors for combine_*: contracts quoted from Sparse_Row_defs.hh
struct F_mul3 { void operator()(Coefficient& x) const { x *= 3; } };                                             // f(c1) == g(c1, 0)
struct G_mul_y3 { void operator()(Coefficient& x, Coefficient_traits::const_reference y) const { x *= (y + 3); } }; // does nothing when x == 0
struct G_add2y { void operator()(Coefficient& x, Coefficient_traits::const_reference y) const { x += 2 * y; } };    // g(c1, 0) does nothing
struct H_set2y { void operator()(Coefficient& x, Coefficient_traits::const_reference y) const { x = 2 * y; } };     // == g when x == 0
struct F_mul2 { void operator()(Coefficient& x) const { x *= 2; } };
struct G_2x3y { void operator()(Coefficient& x, Coefficient_traits::const_reference y) const { x *= 2; x += 3 * y; } };
struct H_3y { void operator()(Coefficient& x, Coefficient_traits::const_reference y) const { x = 3 * y; } };

} // namespace

void rd::case_row() {
  poison().clear();
  const int NR = 2; RS S[NR]; Hint H[NR];
  // size regime: small rows, or rows whose population sweeps across the 3/7/15/31/63/127 reserved sizes
  const int regime = rnd(0, 9);
  const dimension_type N0 = regime < 3 ? rnd(1, 12) : regime < 8 ? rnd(20, 160) : rnd(150, 400);
  for (int i = 0; i < NR; ++i) { S[i].N = i == 0 ? N0 : (coin() ? N0 : (dimension_type) rnd(1, (int) N0)); Sparse_Row t(S[i].N); S[i].r.m_swap(t); dense_from_model(S[i]); }
  const int steps = regime < 3 ? rnd(15, 50) : rnd(60, 260);
  int phase_len = rnd(20, 80); bool growing = true;
  tr("rows n=" + std::to_string(S[0].N) + "," + std::to_string(S[1].N));
  for (int st = 0; st < steps && !hx::st().case_tainted; ++st) {
    if (st % phase_len == phase_len - 1) growing = !growing;
    int a = rnd(0, 3) ? 0 : 1, b = 1 - a; RS& A = S[a]; RS& B = S[b]; Sparse_Row& r = A.r; Dense_Row& d = A.d; Model& m = A.m; Hint& h = H[a];
    dimension_type N = A.N; if (N == 0) { r.resize(3); d.resize(3); A.N = N = 3; h.valid = false; }
    dimension_type i = rnd(0, (int) N - 1), j = rnd(0, (int) N - 1); Z x = rand_z(true);
    std::ostringstream t; t << " | r" << a << "."; std::string op; bool invalidates = true, dense_ok = true;
    // operation mix: growth phases favour insertions, shrink phases favour erasures
    int w = rnd(0, 99); int kind;
    if (growing) kind = w < 45 ? rnd(0, 5) : w < 55 ? rnd(6, 11) : rnd(12, 39);
    else kind = w < 45 ? rnd(6, 11) : w < 55 ? rnd(0, 5) : rnd(12, 39);
    RD_GUARD_BEGIN
    try {
      switch (kind) {
      // ---- insertions
      case 0: { op = "insert_value"; t << op << "(" << i << "," << x << ")"; tr(t.str()); Sparse_Row::iterator it = r.insert(i, x); m[i] = x; d.insert(i, x); if (it == r.end() || it.index() != i || *it != x) { viol("C16.map.insert_value:returned-iterator", "insert(i,x) returned an iterator that is not at i"); return; } h.it = it; h.valid = true; h.age = -1; invalidates = false; break; }
      case 1: { op = "insert_key"; t << op << "(" << i << ")"; tr(t.str()); Sparse_Row::iterator it = r.insert(i); if (!m.count(i)) m[i] = 0; if (it == r.end() || it.index() != i || *it != val(m, i)) { viol("C16.map.insert_key:returned-iterator", "insert(i) returned an iterator that is not at i / changed the value"); return; }
        if (coin()) { *it = x; m[i] = x; d[i] = x; } h.it = it; h.valid = true; h.age = -1; invalidates = false; break; }
      case 2: case 3: { std::string hk; Sparse_Row::iterator hint = pick_hint(r, h, i, hk); op = "insert_hint_value"; t << op << "[" << hk << "](" << i << "," << x << ")"; tr(t.str()); Sparse_Row::iterator it = r.insert(hint, i, x); m[i] = x; d.insert(i, x);
        if (it == r.end() || it.index() != i || *it != x) { viol("C16.map.insert_hint_value:returned-iterator-" + hk + "-hint", "returned iterator not at the inserted key"); return; } h.it = it; h.valid = true; h.age = -1; invalidates = false; op += "." + hk; break; }
      case 4: { std::string hk; Sparse_Row::iterator hint = pick_hint(r, h, i, hk); op = "insert_hint_key"; t << op << "[" << hk << "](" << i << ")"; tr(t.str()); Sparse_Row::iterator it = r.insert(hint, i); if (!m.count(i)) m[i] = 0;
        if (it == r.end() || it.index() != i || *it != val(m, i)) { viol("C16.map.insert_hint_key:returned-iterator-" + hk + "-hint", "returned iterator not at the key / value changed"); return; } h.it = it; h.valid = true; h.age = -1; invalidates = false; op += "." + hk; break; }
      case 5: { op = "subscript_write"; t << op << "(" << i << "," << x << ")"; tr(t.str()); r[i] = x; m[i] = x; d[i] = x; break; }
      // ---- erasures
      case 6: { op = "reset_index"; t << op << "(" << i << ")"; tr(t.str()); r.reset(i); m.erase(i); d.reset(i); break; }
      case 7: { Sparse_Row::iterator it = r.lower_bound(i); if (it == r.end()) { op.clear(); break; } dimension_type k = it.index(); op = "reset_iterator"; t << op << "(" << k << ")"; tr(t.str()); Sparse_Row::iterator nx = r.reset(it); m.erase(k); d.reset(k);
        Model::const_iterator mn = m.upper_bound(k); if (mn == m.end() ? nx != r.end() : (nx == r.end() || nx.index() != mn->first)) { viol("C16.map.reset_iterator:returned-iterator", "reset(itr) did not return the successor of " + std::to_string(k)); return; }
        h.it = nx; h.valid = true; h.age = -1; invalidates = false; break; }
      case 8: { if (i > j) std::swap(i, j); Sparse_Row::iterator f = r.lower_bound(i), l = r.lower_bound(j);
        // Sparse_Row::reset(first,last) asserts last != end() unless the range is empty: reset_after covers the tail case
        if (l == r.end() && f != l) { op.clear(); break; }
        op = "reset_range"; t << op << "(" << i << "," << j << ")"; tr(t.str());
        Sparse_Row::iterator nx = r.reset(f, l); for (Model::iterator q = m.lower_bound(i); q != m.end() && q->first < j; ) m.erase(q++); for (dimension_type k = i; k < j; ++k) d.reset(k);
        Model::const_iterator mn = m.lower_bound(j); if (mn == m.end() ? nx != r.end() : (nx == r.end() || nx.index() != mn->first)) { viol("C16.map.reset_range:returned-iterator", "reset(first,last) did not return the element after the range"); return; } h.it = nx; h.valid = true; h.age = -1; invalidates = false; break; }
      case 9: { op = "erase_during_iteration"; int pct = rnd(10, 90); t << op << "(" << pct << "%)"; tr(t.str());
        Sparse_Row::iterator it = coin() ? r.begin() : r.lower_bound(i); while (it != r.end()) { dimension_type k = it.index(); if (coin(pct)) { it = r.reset(it); m.erase(k); d.reset(k); } else { if (coin(20)) { *it = x; m[k] = x; d[k] = x; } ++it; } } break; }
      case 10: { op = "reset_after"; t << op << "(" << i << ")"; tr(t.str()); r.reset_after(i); for (Model::iterator q = m.lower_bound(i); q != m.end(); ) m.erase(q++); for (dimension_type k = i; k < N; ++k) d.reset(k); break; }
      case 11: { if (coin(80)) { op.clear(); break; } op = "clear"; t << op << "()"; tr(t.str()); r.clear(); m.clear(); d.clear(); break; }
      // ---- searches (const and non-const, hinted or not): no effect, answers against the model
      case 12: case 13: case 14: case 15: { op = "search"; std::string hk; Sparse_Row::iterator hint = pick_hint(r, h, i, hk); t << op << "[" << hk << "](" << i << ")"; tr(t.str()); checked(); invalidates = false; const Sparse_Row& cr = r; Sparse_Row::const_iterator chint = hint;
        Model::const_iterator lb = m.lower_bound(i); bool has = m.count(i) != 0;
        Sparse_Row::iterator f1 = r.find(i), f2 = r.find(hint, i), l1 = r.lower_bound(i), l2 = r.lower_bound(hint, i);
        Sparse_Row::const_iterator f3 = cr.find(i), f4 = cr.find(chint, i), l3 = cr.lower_bound(i), l4 = cr.lower_bound(chint, i);
        bool okf = has ? (f1 != r.end() && f1.index() == i && f2 != r.end() && f2.index() == i && f3 != cr.end() && f3.index() == i && f4 != cr.end() && f4.index() == i && *f1 == m[i] && *f4 == m[i]) : (f1 == r.end() && f2 == r.end() && f3 == cr.end() && f4 == cr.end());
        if (!okf) { viol("C16.map.find:" + hk + "-hint", "find(" + std::to_string(i) + ") wrong; row " + show(r) + " model " + show(m, N)); return; }
        bool okl = lb == m.end() ? (l1 == r.end() && l2 == r.end() && l3 == cr.end() && l4 == cr.end()) : (l1 != r.end() && l1.index() == lb->first && l2 != r.end() && l2.index() == lb->first && l3 != cr.end() && l3.index() == lb->first && l4 != cr.end() && l4.index() == lb->first);
        if (!okl) { viol("C16.map.lower_bound:" + hk + "-hint", "lower_bound(" + std::to_string(i) + ") wrong; row " + show(r) + " model " + show(m, N)); return; }
        // lower_bound(size()) is allowed and is end()
        if (r.lower_bound(N) != r.end() || cr.lower_bound(chint, N) != cr.end()) { viol("C16.map.lower_bound:at-size", "lower_bound(size()) is not end()"); return; }
        if (!h.valid || coin(40)) { h.it = coin() ? l1 : f2; h.valid = true; h.age = -1; } op += "." + hk; break; }
      // ---- swaps inside a row
      case 16: case 17: { op = "swap_coefficients"; if (coin(10)) j = i; t << op << "(" << i << "," << j << ")"; tr(t.str()); r.swap_coefficients(i, j); d.swap_coefficients(i, j);
        bool hi = m.count(i), hj = m.count(j); Z vi = val(m, i), vj = val(m, j); if (hi && hj) { m[i] = vj; m[j] = vi; } else if (hi) { m.erase(i); m[j] = vi; } else if (hj) { m.erase(j); m[i] = vj; } break; }
      case 18: { if (r.num_stored_elements() < 1) { op.clear(); break; } Sparse_Row::iterator p = r.lower_bound(i), q = r.lower_bound(j); if (p == r.end()) p = r.begin(); if (q == r.end()) q = r.begin(); dimension_type pi = p.index(), qi = q.index();
        op = "swap_coefficients_iterators"; t << op << "(" << pi << "," << qi << ")"; tr(t.str()); r.swap_coefficients(p, q); d.swap_coefficients(pi, qi); std::swap(m[pi], m[qi]); invalidates = false;
        if (p.index() != pi || q.index() != qi) { viol("C16.map.swap_coefficients_iterators:iterator-moved", "O(1) swap of values moved an iterator"); return; } break; }
      case 19: { Sparse_Row::iterator p = r.lower_bound(i); if (p == r.end()) { op.clear(); break; } dimension_type k = p.index(); Model::const_iterator pm = m.find(k); dimension_type lo = 0; if (pm != m.begin()) { --pm; lo = pm->first + 1; }
        dimension_type to = (dimension_type) rnd((int) lo, (int) k); op = "fast_swap"; t << op << "(" << to << ",@" << k << ")"; tr(t.str()); p = r.lower_bound(to); r.fast_swap(to, p); Z v = m[k]; m.erase(k); m[to] = v; d.swap_coefficients(to, k); invalidates = false;
        if (p.index() != to || *p != v) { viol("C16.map.fast_swap:iterator", "iterator does not follow the element to its new key"); return; } h.it = p; h.valid = true; h.age = -1; break; }
      // ---- shifts and sizes
      case 20: case 21: { if (N > 600) { op.clear(); break; } dimension_type pos = rnd(0, (int) N), n2 = coin(10) ? 0 : rnd(1, regime < 3 ? 3 : 12); op = "add_zeroes_and_shift"; t << op << "(" << n2 << "," << pos << ")"; tr(t.str());
        dimension_type hk = 0; bool hv = h.valid && h.it != r.end(); if (hv) hk = h.it.index();
        r.add_zeroes_and_shift(n2, pos); d.add_zeroes_and_shift(n2, pos); Model nm; for (Model::const_iterator q = m.begin(); q != m.end(); ++q) nm[q->first >= pos ? q->first + n2 : q->first] = q->second; m.swap(nm); A.N = N + n2; invalidates = false;
        // documented: existing iterators stay valid and follow their (shifted) elements
        if (hv) { checked(); dimension_type want = hk >= pos ? hk + n2 : hk; if (h.it.index() != want || *h.it != val(m, want)) { viol("C16.map.add_zeroes_and_shift:kept-iterator", "iterator at key " + std::to_string(hk) + " now reads key " + std::to_string(h.it.index()) + " expected " + std::to_string(want)); return; } }
        break; }
      case 22: case 23: { if (N < 2) { op.clear(); break; } op = "delete_element_and_shift"; t << op << "(" << i << ")"; tr(t.str()); r.delete_element_and_shift(i); Model nm; for (Model::const_iterator q = m.begin(); q != m.end(); ++q) { if (q->first == i) continue; nm[q->first > i ? q->first - 1 : q->first] = q->second; } m.swap(nm); A.N = N - 1; dense_from_model(A); break; }
      case 24: { dimension_type n2 = coin() ? (dimension_type) rnd(0, (int) N) : N + rnd(0, 20); if (n2 == 0) n2 = 1; int how = rnd(0, 2); op = how == 0 ? "resize" : n2 <= N ? "shrink" : "expand_within_capacity"; t << op << "(" << n2 << ")"; tr(t.str());
        if (op == "resize") r.resize(n2); else if (op == "shrink") r.shrink(n2); else r.expand_within_capacity(n2); d.resize(n2); for (Model::iterator q = m.lower_bound(n2); q != m.end(); ) m.erase(q++); A.N = n2; break; }
      // ---- bulk arithmetic
      case 25: { op = "normalize"; t << op << "()"; tr(t.str()); r.normalize(); d.normalize(); Z g = 0; for (Model::const_iterator q = m.begin(); q != m.end(); ++q) if (q->second != 0) { Z av = abs(q->second); if (g == 0) g = av; else { Z tt; mpz_gcd(tt.get_mpz_t(), g.get_mpz_t(), av.get_mpz_t()); g = tt; } } if (g > 1) for (Model::iterator q = m.begin(); q != m.end(); ++q) q->second /= g; invalidates = false; break; }
      case 26: case 27: case 28: case 29: case 30: { // linear_combine, all overloads and representation mixes
        Z c1 = coin(35) ? Z(1) : rand_z(true), c2 = coin(25) ? Z(coin() ? 1 : -1) : rand_z(true); bool ranged = coin(); int mix = rnd(0, 4);
        // the argument: a copy of the other row, brought to the receiver's size (or, rarely, left shorter: asserted-legal for the free functions)
        bool shorter = !ranged && B.N < N && mix >= 1 && mix <= 3 && risky("shorter", 15);
        Sparse_Row ys(B.r); Model my = B.m; dimension_type yn = B.N; if (!shorter) { ys.resize(N); for (Model::iterator q = my.lower_bound(N); q != my.end(); ) my.erase(q++); yn = N; }
        Dense_Row yd(ys);
        dimension_type s0 = 0, e0 = yn; if (ranged) { s0 = rnd(0, (int) std::min(N, yn)); e0 = rnd(0, (int) std::min(N, yn)); if (s0 > e0) std::swap(s0, e0);
          // Sparse_Row.cc:585/630/674 assert `i == i_end || j == j_end` after a loop that also stops at i.index() >= end:
          // a false assertion (debug builds only) whenever the receiver stores something at or after `end`
          if (assert_safe() && c1 != 1) e0 = N; }
        const char* mixn[5] = { "member_SS", "free_SS", "free_SD", "free_DS_then_copy", "dense_member_then_copy" };
        op = std::string("linear_combine") + (ranged ? "_range." : ".") + mixn[mix]; t << op << "(r" << b << "," << c1 << "," << c2; if (ranged) t << "," << s0 << "," << e0; t << ")" << (shorter ? "[y shorter]" : ""); tr(t.str());
        for (dimension_type k = ranged ? s0 : 0, ke = ranged ? e0 : N; k < ke; ++k) { Z v = val(m, k) * c1 + val(my, k) * c2; if (v != 0 || m.count(k)) m[k] = v; }
        A.exact = false;
        switch (mix) {
        case 0: if (ranged) r.linear_combine(ys, c1, c2, s0, e0); else r.linear_combine(ys, c1, c2); break;
        case 1: if (ranged) linear_combine(r, ys, c1, c2, s0, e0); else linear_combine(r, ys, c1, c2); break;
        case 2: if (ranged) linear_combine(r, yd, c1, c2, s0, e0); else linear_combine(r, yd, c1, c2); break;
        case 3: { Dense_Row xd(r); if (ranged) linear_combine(xd, ys, c1, c2, s0, e0); else linear_combine(xd, ys, c1, c2); r = xd; break; }
        default: { Dense_Row xd(r); if (ranged) xd.linear_combine(yd, c1, c2, s0, e0); else if (!shorter) xd.linear_combine(yd, c1, c2); else linear_combine(xd, ys, c1, c2); Sparse_Row nr(xd); r.m_swap(nr); break; }
        }
        if (shorter) op += "@y-shorter";
        dense_from_model(A); break; }
      case 31: case 32: { int w2 = rnd(0, 2); Sparse_Row ys(B.r); ys.resize(N); Model my = B.m; for (Model::iterator q = my.lower_bound(N); q != my.end(); ) my.erase(q++);
        op = w2 == 0 ? "combine_needs_first" : w2 == 1 ? "combine_needs_second" : "combine"; t << op << "(r" << b << ")"; tr(t.str());
        if (w2 == 0) { r.combine_needs_first(ys, F_mul3(), G_mul_y3()); for (Model::iterator q = m.begin(); q != m.end(); ++q) q->second *= (val(my, q->first) + 3); }
        else if (w2 == 1) { r.combine_needs_second(ys, G_add2y(), H_set2y()); for (Model::const_iterator q = my.begin(); q != my.end(); ++q) m[q->first] = val(m, q->first) + 2 * q->second; }
        else { r.combine(ys, F_mul2(), G_2x3y(), H_3y()); std::set<dimension_type> ks; for (Model::const_iterator q = m.begin(); q != m.end(); ++q) ks.insert(q->first); for (Model::const_iterator q = my.begin(); q != my.end(); ++q) ks.insert(q->first); for (std::set<dimension_type>::const_iterator q = ks.begin(); q != ks.end(); ++q) m[*q] = 2 * val(m, *q) + 3 * val(my, *q); }
        A.exact = false; dense_from_model(A); break; }
      // ---- whole-row operations
      case 33: { int how = rnd(0, 4); op = how == 0 ? "m_swap" : how == 1 ? "swap" : how == 2 ? "swap_sparse_dense" : how == 3 ? "swap_dense_sparse" : "swap_dense_twins"; t << op << "(r" << b << ")"; tr(t.str());
        using std::swap;
        if (how == 0) { r.m_swap(B.r); d.m_swap(B.d); }
        else if (how == 1) { swap(r, B.r); swap(d, B.d); }
        else if (how == 2) { swap(r, B.d); swap(B.r, d); }        // sparse <-> dense exchange, both directions: values travel through the other representation
        else if (how == 3) { swap(B.d, r); swap(d, B.r); }
        else { swap(d, B.d); swap(r, B.r); }
        m.swap(B.m); std::swap(A.N, B.N); std::swap(A.exact, B.exact); A.exact = B.exact = false; H[0].valid = H[1].valid = false; break; }
      case 34: { int how = rnd(0, 6); const char* nm[7] = { "copy_construct", "assign", "from_dense", "assign_dense", "copy_capacity", "copy_size_capacity", "dense_round_trip" }; op = nm[how]; t << op << "(r" << b << ")"; tr(t.str());
        if (how == 0) { Sparse_Row c(B.r); r.m_swap(c); m = B.m; A.N = B.N; A.exact = B.exact; }
        else if (how == 1) { r = B.r; m = B.m; A.N = B.N; A.exact = B.exact; }
        else if (how == 2) { Sparse_Row c(B.d); r.m_swap(c); m = B.m; A.N = B.N; A.exact = false; }
        else if (how == 3) { r = B.d; m = B.m; A.N = B.N; A.exact = false; }
        else if (how == 4) { Sparse_Row c(B.r, B.N + rnd(0, 5)); r.m_swap(c); m = B.m; A.N = B.N; A.exact = B.exact; }
        else if (how == 5) { dimension_type sz = coin() ? (dimension_type) rnd(1, (int) B.N) : B.N + rnd(0, 9); Sparse_Row c(B.r, sz, sz + rnd(0, 3)); r.m_swap(c); m = B.m; for (Model::iterator q = m.lower_bound(sz); q != m.end(); ) m.erase(q++); A.N = sz; A.exact = B.exact; }
        else { Dense_Row c(B.r); Sparse_Row c2(c); Dense_Row c3(c2, c2.size(), c2.size() + 2); r = c3; m = B.m; A.N = B.N; A.exact = false; }
        dense_from_model(A); break; }
      case 35: { // truncating conversions between the two row types
        dimension_type sz = rnd(1, (int) B.N); bool ds = coin(); op = ds ? "sparse_from_dense_truncated" : "dense_from_sparse_truncated"; t << op << "(r" << b << "," << sz << ")"; tr(t.str());
        if (ds && !risky("truncds", 10)) { hx::count("row.skip.truncds"); op.clear(); break; }
        if (ds) { bool beyond = B.m.lower_bound(sz) != B.m.end() && sz < B.N; Sparse_Row c(B.d, sz, sz + 1); r.m_swap(c); if (beyond) hx::count("truncating_dense_to_sparse_conversions") /* the defect this used to poison the case for is repaired in /repo */; }
        else { Dense_Row c(B.r, sz, sz + 1); r = c; }
        m = B.m; for (Model::iterator q = m.lower_bound(sz); q != m.end(); ) m.erase(q++); for (Model::iterator q = m.begin(); q != m.end(); ) if (q->second == 0) m.erase(q++); else ++q; A.N = sz; A.exact = false; dense_from_model(A); break; }
      case 36: { // ascii round trip, both row types
        op = "ascii_load"; t << op << "()"; tr(t.str()); checked(); hx::count("ascii_roundtrips");
        std::string t1 = dump(r); Sparse_Row L(rnd(1, 5)); if (coin()) L.insert(0, Z(7)); std::istringstream in(t1);
        if (!L.ascii_load(in)) { viol("C15.row.Sparse_Row.ascii_load_failed", clip(t1)); return; }
        if (dump(L) != t1) { viol("C15.row.Sparse_Row.redump_differs", clip(t1) + " vs " + clip(dump(L))); return; }
        if (!(L == r) || !L.OK()) { viol("C15.row.Sparse_Row.value_differs", clip(t1)); return; }
        std::string t2 = dump(d); Dense_Row LD; std::istringstream in2(t2);
        if (!LD.ascii_load(in2)) { viol("C15.row.Dense_Row.ascii_load_failed", clip(t2)); return; }
        if (dump(LD) != t2) { viol("C15.row.Dense_Row.redump_differs", clip(t2) + " vs " + clip(dump(LD))); return; }
        if (!(LD == d) || !LD.OK()) { viol("C15.row.Dense_Row.value_differs", clip(t2)); return; }
        r.m_swap(L); d.m_swap(LD); break; }
      case 37: { // burst of insertions at increasing keys with the previous position as hint (the pattern PPL's own clients use)
        op = "insert_burst"; int n = rnd(3, regime < 3 ? 6 : 40); t << op << "(" << n << ")"; tr(t.str()); Sparse_Row::iterator it = coin() ? r.end() : r.begin(); dimension_type k = rnd(0, (int) N - 1);
        for (int q = 0; q < n && k < N; ++q) { Z v = rand_z(true); it = r.insert(it, k, v); m[k] = v; d[k] = v; if (it.index() != k) { viol("C16.map.insert_burst:returned-iterator", "hinted insert returned an iterator at another key"); return; } k += rnd(1, 4); }
        break; }
      case 38: { // burst of erasures
        op = "reset_burst"; int n = rnd(3, regime < 3 ? 6 : 40); t << op << "(" << n << ")"; tr(t.str()); for (int q = 0; q < n && !m.empty(); ++q) { Model::iterator p = m.lower_bound(rnd(0, (int) N - 1)); if (p == m.end()) p = m.begin(); dimension_type k = p->first; if (coin()) r.reset(k); else r.reset(r.find(k)); m.erase(p); d.reset(k); } break; }
      default: { // memory accounting is an observer
        op = "memory"; t << op << "()"; tr(t.str()); invalidates = false; (void) r.total_memory_in_bytes(); (void) r.external_memory_in_bytes(N); (void) r.total_memory_in_bytes(N); (void) d.total_memory_in_bytes(); if (Sparse_Row::max_size() < N) { viol("C16.map.max_size", "max_size() below an existing size"); return; } break; }
      }
    } catch (const Logical_Timeout&) { throw; }
    catch (const std::exception& e) { viol("C16.map." + (op.empty() ? std::string("unknown") : op) + ":unexpected-exception", std::string(typeid(e).name()) + ": " + e.what()); return; }
    RD_GUARD_END("Sparse_Row." + op)
    if (op.empty()) continue;
    if (invalidates) h.valid = false; else if (h.valid) ++h.age;
    std::string opb = op.substr(0, op.find('@'));
    hx::count("op.row." + opb.substr(0, opb.find('.')));
    { dimension_type ns = A.r.num_stored_elements(), R = S[a].rt.last; hx::distinct("row|" + opb + "|R" + std::to_string(R) + "|fill" + std::to_string(R ? (10 * ns) / R : 0)); }
    std::string key_op = opb; if (op.find('@') != std::string::npos && poison().empty()) { poison() = op.substr(op.find('@') + 1); }
    bool ok = check_row(A, key_op, dense_ok) && check_row(B, key_op, dense_ok);
    if (op.find("@y-shorter") != std::string::npos) poison().clear();
    if (!ok) return;
  }
}

// ---------------------------------------------------------------- CO_Tree
namespace {

struct TS { CO_Tree t; Model m; Reserved_Track rt; };

// an input iterator over a Model, with the index() member CO_Tree's sequence constructor wants
struct Model_It {
  Model::const_iterator i;
  explicit Model_It(Model::const_iterator j) : i(j) {}
  Model_It& operator++() { ++i; return *this; }
  Model_It operator++(int) { Model_It t(*this); ++i; return t; }
  Coefficient_traits::const_reference operator*() const { return i->second; }
  dimension_type index() const { return i->first; }
};

bool check_tree(TS& s, const std::string& op) {
  checked(); hx::count("tree_checks");
  const CO_Tree& t = s.t;
#ifdef PPL_VERIF_HAVE_ROW_HOOKS
  if (!t.verif_OK()) { viol("C16.struct." + op + ":tree-OK", "CO_Tree::OK() false"); return false; }
  hx::count("tree.hooked_OK_checks");
#endif
  if (t.size() != s.m.size() || t.empty() != s.m.empty()) { viol("C16.map." + op + ":size", "size " + std::to_string(t.size()) + " expected " + std::to_string(s.m.size())); return false; }
  Model::const_iterator q = s.m.begin(); dimension_type cnt = 0;
  for (CO_Tree::const_iterator i = t.begin(), e = t.end(); i != e; ++i, ++q, ++cnt) {
    if (q == s.m.end()) { viol("C16.struct." + op + ":count", "iteration yields more elements than size()"); return false; }
    if (i.index() != q->first) { viol("C16.map." + op + ":key", "iteration position " + std::to_string(cnt) + " has key " + std::to_string(i.index()) + " expected " + std::to_string(q->first) + " model " + show(s.m, 0)); return false; }
    if (*i != q->second) { viol("C16.map." + op + ":value", "key " + std::to_string(q->first) + " holds " + zs(*i) + " expected " + zs(q->second)); return false; }
  }
  if (q != s.m.end()) { viol("C16.struct." + op + ":count", "iteration yields fewer elements than size()"); return false; }
  if (cnt > 0) { CO_Tree::const_iterator i = t.end(); Model::const_iterator p = s.m.end(); do { --i; --p; if (i.index() != p->first) { viol("C16.struct." + op + ":backward", "backward iteration yields " + std::to_string(i.index()) + " expected " + std::to_string(p->first)); return false; } } while (p != s.m.begin()); if (i != t.begin()) { viol("C16.struct." + op + ":backward", "backward iteration does not reach begin()"); return false; } }
  dimension_type R = reserved_from_memory(t.external_memory_in_bytes(), t.begin(), t.end());
  std::string dp = density_problem(cnt, R);
  if (!dp.empty()) { viol("C16.struct." + op + ":" + dp, "stored " + std::to_string(cnt) + " reserved " + std::to_string(R)); return false; }
  s.rt.see(R, "tree");
  return true;
}

// bisect*: "if found, points to it; otherwise to the immediately preceding or succeeding value; end() iff the tree is empty"
bool bisect_ok(const Model& m, dimension_type key, bool is_end, dimension_type got) {
  if (m.empty()) return is_end;
  if (is_end) return false;
  if (m.count(key)) return got == key;
  Model::const_iterator up = m.lower_bound(key);
  if (up != m.end() && got == up->first) return true;
  if (up != m.begin()) { --up; if (got == up->first) return true; }
  return false;
}

} // namespace

void rd::case_tree() {
  poison().clear();
  TS S[2];
  const int regime = rnd(0, 9);
  const dimension_type KMAX = regime < 3 ? 20 : regime < 8 ? 400 : 100000;      // key universe
  const int steps = regime < 3 ? rnd(20, 60) : rnd(80, 320);
  int phase_len = rnd(25, 90); bool growing = true;
  CO_Tree::iterator kept; bool kept_valid = false; int kept_age = -1;
  tr("tree kmax=" + std::to_string(KMAX));
  for (int st = 0; st < steps && !hx::st().case_tainted; ++st) {
    if (st % phase_len == phase_len - 1) growing = !growing;
    int a = rnd(0, 4) ? 0 : 1; TS& A = S[a]; TS& B = S[1 - a]; CO_Tree& t = A.t; Model& m = A.m;
    dimension_type key = rnd(0, (int) KMAX - 1); Z x = rand_z();
    if (a != 0) kept_valid = false;                        // the kept iterator belongs to tree 0
    std::ostringstream o; o << " | t" << a << "."; std::string op; bool invalidates = true;
    int w = rnd(0, 99); int kind;
    if (growing) kind = w < 55 ? rnd(0, 4) : w < 62 ? rnd(5, 8) : rnd(9, 24);
    else kind = w < 55 ? rnd(5, 8) : w < 62 ? rnd(0, 4) : rnd(9, 24);
    auto hint = [&](std::string& hk) -> CO_Tree::iterator {
      int k = rnd(0, 9);
      if (a == 0 && kept_valid && k < 4) { hk = kept_age ? "stale" : "kept"; hx::count("tree.hint." + hk); return kept; }
      if (k < 6 && !t.empty()) { hk = "fresh"; hx::count("tree.hint.fresh"); return t.bisect(key); }
      if (k < 7) { hk = "begin"; hx::count("tree.hint.begin"); return t.begin(); }
      if (k < 8 && !t.empty()) { hk = "far"; hx::count("tree.hint.far"); CO_Tree::iterator i = t.begin(); for (int n = rnd(0, (int) std::min<dimension_type>(t.size() - 1, 50)); n-- > 0; ) ++i; return i; }
      hk = "end"; hx::count("tree.hint.end"); return t.end();
    };
    RD_GUARD_BEGIN
    try {
      switch (kind) {
      case 0: { op = "insert_key"; o << op << "(" << key << ")"; tr(o.str()); CO_Tree::iterator it = t.insert(key); if (!m.count(key)) m[key] = 0; if (it == t.end() || it.index() != key || *it != m[key]) { viol("C16.map.tree_insert_key:returned-iterator", "wrong iterator / value overwritten"); return; } if (a == 0) { kept = it; kept_valid = true; kept_age = -1; invalidates = false; } break; }
      case 1: { op = "insert_value"; o << op << "(" << key << "," << x << ")"; tr(o.str()); CO_Tree::iterator it = t.insert(key, x); m[key] = x; if (it == t.end() || it.index() != key || *it != x) { viol("C16.map.tree_insert_value:returned-iterator", "wrong iterator"); return; } if (a == 0) { kept = it; kept_valid = true; kept_age = -1; invalidates = false; } break; }
      case 2: { std::string hk; CO_Tree::iterator h = hint(hk); op = "insert_hint_key"; o << op << "[" << hk << "](" << key << ")"; tr(o.str()); CO_Tree::iterator it = t.insert(h, key); if (!m.count(key)) m[key] = 0; if (it == t.end() || it.index() != key || *it != m[key]) { viol("C16.map.tree_insert_hint_key:returned-iterator-" + hk + "-hint", "wrong iterator / value overwritten"); return; } if (a == 0) { kept = it; kept_valid = true; kept_age = -1; invalidates = false; } op += "." + hk; break; }
      case 3: case 4: { std::string hk; CO_Tree::iterator h = hint(hk); op = "insert_hint_value"; o << op << "[" << hk << "](" << key << "," << x << ")"; tr(o.str()); CO_Tree::iterator it = t.insert(h, key, x); m[key] = x; if (it == t.end() || it.index() != key || *it != x) { viol("C16.map.tree_insert_hint_value:returned-iterator-" + hk + "-hint", "wrong iterator"); return; } if (a == 0) { kept = it; kept_valid = true; kept_age = -1; invalidates = false; } op += "." + hk; break; }
      case 5: case 6: { if (!m.empty() && coin(70)) { Model::const_iterator p = m.lower_bound(key); if (p == m.end()) p = m.begin(); key = p->first; } op = "erase_key"; o << op << "(" << key << ")"; tr(o.str()); CO_Tree::iterator nx = t.erase(key); m.erase(key);
        Model::const_iterator mn = m.upper_bound(key); if (mn == m.end() ? nx != t.end() : (nx == t.end() || nx.index() != mn->first)) { viol("C16.map.tree_erase_key:returned-iterator", "erase(key) did not return the next element"); return; } if (a == 0) { kept = nx; kept_valid = true; kept_age = -1; invalidates = false; } break; }
      case 7: { if (m.empty()) { op.clear(); break; } CO_Tree::iterator it = t.bisect(key); dimension_type k = it.index(); op = "erase_iterator"; o << op << "(" << k << ")"; tr(o.str()); CO_Tree::iterator nx = t.erase(it); m.erase(k);
        Model::const_iterator mn = m.upper_bound(k); if (mn == m.end() ? nx != t.end() : (nx == t.end() || nx.index() != mn->first)) { viol("C16.map.tree_erase_iterator:returned-iterator", "erase(itr) did not return the next element"); return; } if (a == 0) { kept = nx; kept_valid = true; kept_age = -1; invalidates = false; } break; }
      case 8: { op = "erase_during_iteration"; int pct = rnd(10, 90); o << op << "(" << pct << "%)"; tr(o.str()); CO_Tree::iterator it = t.begin(); while (it != t.end()) { dimension_type k = it.index(); if (coin(pct)) { it = t.erase(it); m.erase(k); } else ++it; } break; }
      case 9: { op = "erase_element_and_shift_left"; o << op << "(" << key << ")"; tr(o.str()); t.erase_element_and_shift_left(key); Model nm; for (Model::const_iterator q = m.begin(); q != m.end(); ++q) { if (q->first == key) continue; nm[q->first > key ? q->first - 1 : q->first] = q->second; } m.swap(nm); break; }
      case 10: { dimension_type n = rnd(0, regime < 3 ? 3 : 50); op = "increase_keys_from"; o << op << "(" << key << "," << n << ")"; tr(o.str()); dimension_type kk = 0; bool kv = a == 0 && kept_valid && kept != t.end(); if (kv) kk = kept.index();
        t.increase_keys_from(key, n); Model nm; for (Model::const_iterator q = m.begin(); q != m.end(); ++q) nm[q->first >= key ? q->first + n : q->first] = q->second; m.swap(nm); invalidates = false;
        if (kv) { checked(); dimension_type want = kk >= key ? kk + n : kk; if (kept.index() != want) { viol("C16.map.tree_increase_keys_from:kept-iterator", "kept iterator reads key " + std::to_string(kept.index()) + " expected " + std::to_string(want)); return; } } break; }
      case 11: { if (m.empty()) { op.clear(); break; } CO_Tree::iterator it = t.bisect(key); dimension_type k = it.index(); Model::const_iterator pm = m.find(k); dimension_type lo = 0; if (pm != m.begin()) { --pm; lo = pm->first + 1; } dimension_type to = lo + (dimension_type) rnd(0, (int) std::min<dimension_type>(k - lo, 1000));
        op = "fast_shift"; o << op << "(" << to << ",@" << k << ")"; tr(o.str()); t.fast_shift(to, it); Z v = m[k]; m.erase(k); m[to] = v; invalidates = false; if (it.index() != to) { viol("C16.map.tree_fast_shift:iterator", "iterator does not read the new key"); return; } break; }
      case 12: case 13: case 14: case 15: { op = "bisect"; std::string hk; CO_Tree::iterator h = hint(hk); o << op << "[" << hk << "](" << key << ")"; tr(o.str()); checked(); invalidates = false; const CO_Tree& ct = t; CO_Tree::const_iterator ch = h;
        CO_Tree::iterator b1 = t.bisect(key), b2 = t.bisect_near(h, key); CO_Tree::const_iterator b3 = ct.bisect(key), b4 = ct.bisect_near(ch, key);
        if (!bisect_ok(m, key, b1 == t.end(), b1 == t.end() ? 0 : b1.index()) || !bisect_ok(m, key, b3 == ct.end(), b3 == ct.end() ? 0 : b3.index())) { viol("C16.map.tree_bisect", "bisect(" + std::to_string(key) + ") wrong; model " + show(m, 0)); return; }
        if (!bisect_ok(m, key, b2 == t.end(), b2 == t.end() ? 0 : b2.index()) || !bisect_ok(m, key, b4 == ct.end(), b4 == ct.end() ? 0 : b4.index())) { viol("C16.map.tree_bisect_near:" + hk + "-hint", "bisect_near(" + std::to_string(key) + ") wrong; model " + show(m, 0)); return; }
        if (m.size() >= 2) { // bisect_in over a sub-range [first,last] given by two elements
          Model::const_iterator p = m.lower_bound(rnd(0, (int) KMAX - 1)), q2 = m.lower_bound(rnd(0, (int) KMAX - 1)); if (p == m.end()) p = m.begin(); if (q2 == m.end()) { q2 = m.end(); --q2; } if (p->first > q2->first) std::swap(p, q2);
          CO_Tree::iterator f = t.bisect(p->first), l = t.bisect(q2->first); dimension_type kk = p->first + (dimension_type) rnd(0, (int) std::min<dimension_type>(q2->first - p->first, 100000));
          CO_Tree::iterator bi = t.bisect_in(f, l, kk); CO_Tree::const_iterator cf = f, cl = l; CO_Tree::const_iterator bc = ct.bisect_in(cf, cl, kk);
          Model sub(p, ++Model::const_iterator(q2));
          if (bi == t.end() || bc == ct.end() || !bisect_ok(sub, kk, false, bi.index()) || bc.index() != bi.index()) { viol("C16.map.tree_bisect_in", "bisect_in([" + std::to_string(p->first) + "," + std::to_string(q2->first) + "]," + std::to_string(kk) + ") wrong"); return; } }
        if (a == 0 && (!kept_valid || coin(40))) { kept = b2; kept_valid = true; kept_age = -1; } op += "." + hk; break; }
      case 16: { op = "write_through_iterator"; if (m.empty()) { op.clear(); break; } CO_Tree::iterator it = t.bisect(key); o << op << "(@" << it.index() << "," << x << ")"; tr(o.str()); *it = x; m[it.index()] = x; invalidates = false; break; }
      case 17: { int how = rnd(0, 3); op = how == 0 ? "m_swap" : how == 1 ? "swap" : how == 2 ? "copy_construct" : "assign"; o << op << "(other)"; tr(o.str()); using std::swap;
        if (how == 0) { t.m_swap(B.t); m.swap(B.m); } else if (how == 1) { swap(t, B.t); m.swap(B.m); } else if (how == 2) { CO_Tree c(B.t); t.m_swap(c); m = B.m; } else { t = B.t; m = B.m; if (coin(20)) { t = t; } }
        kept_valid = false; break; }
      case 18: { // sequence constructor, sizes of every kind (the density rule picks the reserved size)
        op = "construct_from_sequence"; Model nm; int n = coin() ? rnd(0, 12) : rnd(0, 300); dimension_type k = 0; for (int q = 0; q < n; ++q) { k += rnd(1, 7); nm[k] = rand_z(); } o << op << "(" << n << ")"; tr(o.str()); CO_Tree c(Model_It(nm.begin()), nm.size()); t.m_swap(c); m.swap(nm); break; }
      case 19: { if (coin(70)) { op.clear(); break; } op = "clear"; o << op << "()"; tr(o.str()); t.clear(); m.clear(); break; }
      case 20: { op = "insert_burst"; int n = rnd(3, regime < 3 ? 6 : 60); o << op << "(" << n << ")"; tr(o.str()); CO_Tree::iterator it = coin() ? t.end() : t.begin(); dimension_type k = key; bool up = coin(75);
        for (int q = 0; q < n; ++q) { Z v = rand_z(); it = t.insert(it, k, v); m[k] = v; if (it.index() != k) { viol("C16.map.tree_insert_burst:returned-iterator", "hinted insert returned another key"); return; } dimension_type stp = rnd(1, 5); if (up) k += stp; else { if (k < stp) break; k -= stp; } } break; }
      case 21: { op = "erase_burst"; int n = rnd(3, regime < 3 ? 6 : 60); o << op << "(" << n << ")"; tr(o.str()); for (int q = 0; q < n && !m.empty(); ++q) { Model::iterator p = m.lower_bound(rnd(0, (int) KMAX - 1)); if (p == m.end()) p = m.begin(); dimension_type k = p->first; if (coin()) t.erase(k); else t.erase(t.bisect(k)); m.erase(p); } break; }
      case 22: { op = "iterator_algebra"; o << op << "()"; tr(o.str()); invalidates = false; checked(); if (m.empty()) { if (t.begin() != t.end() || t.cbegin() != t.cend()) { viol("C16.map.tree_iterator_algebra", "begin() != end() on an empty tree"); return; } break; }
        CO_Tree::iterator i = t.bisect(key); CO_Tree::iterator j = i; CO_Tree::const_iterator ci = i; Model::const_iterator p = m.find(i.index());
        ++j; ++p; if (p == m.end() ? j != t.end() : (j == t.end() || j.index() != p->first)) { viol("C16.map.tree_iterator_algebra", "++ goes to a wrong element"); return; }
        --j; if (j != i || j.index() != i.index() || ci.index() != i.index() || *ci != *i) { viol("C16.map.tree_iterator_algebra", "-- after ++ does not come back"); return; }
        CO_Tree::iterator k2 = j++; if (k2 != i) { viol("C16.map.tree_iterator_algebra", "post-increment returns a wrong value"); return; } CO_Tree::iterator k3 = j--; (void) k3; if (j != i) { viol("C16.map.tree_iterator_algebra", "post-decrement wrong"); return; }
        CO_Tree::iterator sw1 = t.begin(), sw2 = i; sw1.m_swap(sw2); if (sw1 != i || sw2 != t.begin()) { viol("C16.map.tree_iterator_algebra", "iterator m_swap wrong"); return; } break; }
      default: { op = "memory"; o << op << "()"; tr(o.str()); invalidates = false; (void) t.external_memory_in_bytes(); if (CO_Tree::max_size() < t.size()) { viol("C16.map.tree_max_size", "max_size() below size()"); return; } break; }
      }
    } catch (const Logical_Timeout&) { throw; }
    catch (const std::exception& e) { viol("C16.map.tree_" + (op.empty() ? std::string("unknown") : op) + ":unexpected-exception", std::string(typeid(e).name()) + ": " + e.what()); return; }
    RD_GUARD_END("CO_Tree." + op)
    if (op.empty()) continue;
    if (invalidates) kept_valid = false; else if (kept_valid) ++kept_age;
    hx::count("op.tree." + op.substr(0, op.find('.')));
    { dimension_type R = A.rt.last; hx::distinct("tree|" + op + "|R" + std::to_string(R) + "|fill" + std::to_string(R ? (10 * A.t.size()) / R : 0)); }
    if (!check_tree(A, "tree_" + op) || !check_tree(B, "tree_" + op)) return;
  }
}
