#include "rowdiff_common.hh"
void rd::case_row() {}
void rd::case_tree() {}
