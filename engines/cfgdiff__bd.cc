// cfgdiff: BD_Shape<mpz_class> instantiation of the shape script.
#include "cfgdiff_shape.hh"
namespace cfg { Script* make_bd_script() { return new Shape_Script<BD_Shape<mpz_class>, false>(); } }
