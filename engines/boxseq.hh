// boxseq — shared header of the Box engine (properties C03, C04, C17; the
// BD-shape / octagon half of C03/C04 lives in engines/shapeseq*).
//
// The interpreter (engines/boxseq.cc) is written once against the abstract
// interface `BoxI`; `BoxImpl<B>` is the template adapter that forwards every
// member of the common domain interface to the real PPL class B = Box<ITV>.
// Each translation unit engines/boxseq__<inst>.cc instantiates BoxImpl for ONE
// Box<ITV> and registers it in the table (BOXSEQ_REGISTER), so the big PPL
// template instantiations compile in parallel.
#ifndef BOXSEQ_HH
#define BOXSEQ_HH
#include "pplx.hh"
#include "interfaces/interfaced_boxes.hh"
#include <memory>
#include <limits>
#include <type_traits>

namespace boxseq {
using namespace pplx;

// A rational box whose boundaries are always closed (the "rational closed" interval policy of the
// C03 quantifier; Rational_Box itself has possibly open boundaries).
struct Rational_Closed_Interval_Info_Policy {
  const_bool_nodef(store_special, true);
  const_bool_nodef(store_open, false);
  const_bool_nodef(cache_empty, true);
  const_bool_nodef(cache_singleton, true);
  const_bool_nodef(cache_normalized, false);
  const_int_nodef(next_bit, 0);
  const_bool_nodef(may_be_empty, true);
  const_bool_nodef(may_contain_infinity, false);
  const_bool_nodef(check_empty_result, false);
  const_bool_nodef(check_inexact, false);
};
typedef Interval_Info_Bitset<unsigned int, Rational_Closed_Interval_Info_Policy> Rational_Closed_Interval_Info;
typedef Box<Interval<mpq_class, Rational_Closed_Interval_Info> > Rational_Closed_Box;

struct TypeInfo {
  bool exact;      // Rational_Box (mpq, open or closed boundaries): the C04 monitors are armed
  bool rational;   // boundary type mpq_class
  bool open;       // boundaries may be open
  bool integer;    // integral boundary type
  int bits;        // native bounded integer width, 0 otherwise
  bool sgn;        // native integer signedness
  int fdigits;     // mantissa digits of a floating point boundary type, 0 otherwise
  int fmaxexp;     // 2^fmaxexp overflows the floating point type
  int fminexp;     // 2^fminexp is the smallest positive (denormal) value
};
template <typename ITV> TypeInfo type_info_of() {
  typedef typename ITV::boundary_type T; typedef std::numeric_limits<T> L;
  TypeInfo t; t.rational = std::is_same<T, mpq_class>::value; t.open = ITV::info_type::store_open; t.exact = t.rational && t.open;
  t.integer = L::is_integer; t.bits = std::is_integral<T>::value ? (int) sizeof(T) * 8 : 0; t.sgn = L::is_signed;
  t.fdigits = std::is_floating_point<T>::value ? L::digits : 0; t.fmaxexp = t.fdigits ? L::max_exponent : 0; t.fminexp = t.fdigits ? L::min_exponent - L::digits : 0;
  return t;
}

// exact reading of one interval
struct Bnd { bool inf; Q v; bool open; Bnd() : inf(true), open(false) {} };
struct Itv { bool empty; Bnd lo, hi; Itv() : empty(false) {} };

// ---------- the abstract common domain interface ----------
struct BoxI {
  virtual ~BoxI() {}
  virtual BoxI* clone() const = 0;
  virtual int dim() const = 0;
  virtual void ascii_dump(std::ostream& s) const = 0;
  virtual bool OK() const = 0;
  // exact reading of the intervals (calls get_interval, hence is_empty: use on a clone); `odd` receives a
  // description of any boundary that could not be read as a rational number
  virtual void intervals(std::vector<Itv>& out, std::string& odd) const = 0;
  virtual Constraint_System constraints() const = 0;
  virtual Constraint_System minimized_constraints() const = 0;
  virtual Congruence_System congruences() const = 0;
  virtual Congruence_System minimized_congruences() const = 0;
  // predicates and queries
  virtual bool is_empty() const = 0;
  virtual bool is_universe() const = 0;
  virtual bool is_bounded() const = 0;
  virtual bool is_discrete() const = 0;
  virtual bool is_topologically_closed() const = 0;
  virtual bool contains_integer_point() const = 0;
  virtual bool contains(const BoxI& y) const = 0;
  virtual bool strictly_contains(const BoxI& y) const = 0;
  virtual bool is_disjoint_from(const BoxI& y) const = 0;
  virtual bool equals(const BoxI& y) const = 0;
  virtual bool constrains(Variable v) const = 0;
  virtual int affine_dimension() const = 0;
  virtual bool bounds_from_above(const Linear_Expression& e) const = 0;
  virtual bool bounds_from_below(const Linear_Expression& e) const = 0;
  virtual bool maximize(const Linear_Expression& e, Coefficient& n, Coefficient& d, bool& mx) const = 0;
  virtual bool maximize(const Linear_Expression& e, Coefficient& n, Coefficient& d, bool& mx, Generator& g) const = 0;
  virtual bool minimize(const Linear_Expression& e, Coefficient& n, Coefficient& d, bool& mn) const = 0;
  virtual bool minimize(const Linear_Expression& e, Coefficient& n, Coefficient& d, bool& mn, Generator& g) const = 0;
  virtual bool frequency(const Linear_Expression& e, Coefficient& fn, Coefficient& fd, Coefficient& vn, Coefficient& vd) const = 0;
  virtual Poly_Con_Relation relation_with(const Constraint& c) const = 0;
  virtual Poly_Con_Relation relation_with(const Congruence& c) const = 0;
  virtual Poly_Gen_Relation relation_with(const Generator& g) const = 0;
  virtual bool has_lower_bound(Variable v, Coefficient& n, Coefficient& d, bool& closed) const = 0;
  virtual bool has_upper_bound(Variable v, Coefficient& n, Coefficient& d, bool& closed) const = 0;
  virtual void misc_observers() const = 0;
  // mutators
  virtual void add_constraint(const Constraint& c) = 0;
  virtual void add_constraints(const Constraint_System& cs) = 0;
  virtual void add_recycled_constraints(Constraint_System& cs) = 0;
  virtual void refine_with_constraint(const Constraint& c) = 0;
  virtual void refine_with_constraints(const Constraint_System& cs) = 0;
  virtual void add_congruence(const Congruence& c) = 0;
  virtual void add_congruences(const Congruence_System& cs) = 0;
  virtual void add_recycled_congruences(Congruence_System& cs) = 0;
  virtual void refine_with_congruence(const Congruence& c) = 0;
  virtual void refine_with_congruences(const Congruence_System& cs) = 0;
  virtual void propagate_constraint(const Constraint& c) = 0;
  virtual void propagate_constraints(const Constraint_System& cs, dimension_type max_iterations) = 0;
  virtual void unconstrain(Variable v) = 0;
  virtual void unconstrain(const Variables_Set& vs) = 0;
  virtual void intersection_assign(const BoxI& y) = 0;
  virtual void upper_bound_assign(const BoxI& y) = 0;
  virtual bool upper_bound_assign_if_exact(const BoxI& y) = 0;
  virtual void difference_assign(const BoxI& y) = 0;
  virtual bool simplify_using_context_assign(const BoxI& y) = 0;
  virtual void affine_image(Variable v, const Linear_Expression& e, const Coefficient& d) = 0;
  virtual void affine_preimage(Variable v, const Linear_Expression& e, const Coefficient& d) = 0;
  virtual void generalized_affine_image(Variable v, Relation_Symbol r, const Linear_Expression& e, const Coefficient& d) = 0;
  virtual void generalized_affine_preimage(Variable v, Relation_Symbol r, const Linear_Expression& e, const Coefficient& d) = 0;
  virtual void generalized_affine_image(const Linear_Expression& l, Relation_Symbol r, const Linear_Expression& e) = 0;
  virtual void generalized_affine_preimage(const Linear_Expression& l, Relation_Symbol r, const Linear_Expression& e) = 0;
  virtual void bounded_affine_image(Variable v, const Linear_Expression& lb, const Linear_Expression& ub, const Coefficient& d) = 0;
  virtual void bounded_affine_preimage(Variable v, const Linear_Expression& lb, const Linear_Expression& ub, const Coefficient& d) = 0;
  virtual void time_elapse_assign(const BoxI& y) = 0;
  virtual void topological_closure_assign() = 0;
  virtual void wrap_assign(const Variables_Set& vars, Bounded_Integer_Type_Width w, Bounded_Integer_Type_Representation r, Bounded_Integer_Type_Overflow o,
                           const Constraint_System* cs_p, unsigned complexity_threshold, bool wrap_individually) = 0;
  virtual void drop_some_non_integer_points(Complexity_Class c) = 0;
  virtual void drop_some_non_integer_points(const Variables_Set& vs, Complexity_Class c) = 0;
  virtual void add_space_dimensions_and_embed(int m) = 0;
  virtual void add_space_dimensions_and_project(int m) = 0;
  virtual void concatenate_assign(const BoxI& y) = 0;
  virtual void remove_space_dimensions(const Variables_Set& vs) = 0;
  virtual void remove_higher_space_dimensions(int k) = 0;
  virtual void map_space_dimensions(const Partial_Function& pf) = 0;
  virtual void expand_space_dimension(Variable v, int m) = 0;
  virtual void fold_space_dimensions(const Variables_Set& vs, Variable dest) = 0;
  virtual void assign(const BoxI& y) = 0;
  virtual void m_swap(BoxI& y) = 0;
  // constructors (all return a new object of the same instantiation)
  virtual BoxI* make(int n, bool empty) const = 0;
  virtual BoxI* from_constraints(const Constraint_System& cs, bool recycle) const = 0;
  virtual BoxI* from_congruences(const Congruence_System& cgs, bool recycle) const = 0;
  virtual BoxI* from_generators(const Generator_System& gs, bool recycle) const = 0;
  virtual BoxI* from_polyhedron(const Polyhedron& ph, Complexity_Class c) const = 0;
  virtual BoxI* from_grid(const Grid& gr, Complexity_Class c) const = 0;
  virtual BoxI* from_bds(const BD_Shape<mpq_class>& x, Complexity_Class c) const = 0;
  virtual BoxI* from_bds(const BD_Shape<double>& x, Complexity_Class c) const = 0;
  virtual BoxI* from_bds(const BD_Shape<int8_t>& x, Complexity_Class c) const = 0;
  virtual BoxI* from_oct(const Octagonal_Shape<mpq_class>& x, Complexity_Class c) const = 0;
  virtual BoxI* from_oct(const Octagonal_Shape<double>& x, Complexity_Class c) const = 0;
  virtual BoxI* from_oct(const Octagonal_Shape<int8_t>& x, Complexity_Class c) const = 0;
  virtual BoxI* from_box(const Rational_Box& x, Complexity_Class c) const = 0;
  virtual BoxI* from_box(const Double_Box& x, Complexity_Class c) const = 0;
};

template <typename B>
struct BoxImpl : public BoxI {
  typedef typename B::interval_type ITV;
  B b;
  BoxImpl(int n, bool empty) : b(n, empty ? EMPTY : UNIVERSE) {}
  explicit BoxImpl(const B& x) : b(x) {}
  static const B& cast(const BoxI& s) { return static_cast<const BoxImpl&>(s).b; }
  static B& cast(BoxI& s) { return static_cast<BoxImpl&>(s).b; }

  BoxI* clone() const { return new BoxImpl(b); }
  int dim() const { return (int) b.space_dimension(); }
  void ascii_dump(std::ostream& s) const { b.ascii_dump(s); }
  bool OK() const { return b.OK(); }
  static void read_bound(const typename ITV::boundary_type& x, Bnd& o, const char* which, int k, std::string& odd) {
    mpq_class q;
    typedef typename ITV::boundary_type T;
    if constexpr (std::is_floating_point<T>::value) {
      if (x != x || x - x != 0) { std::ostringstream s; s << (x != x ? "nan-boundary: " : "misplaced-infinity: ") << which << " boundary of dimension " << k << " is " << (x != x ? "NaN" : "an infinity of the wrong sign"); odd = s.str(); o.inf = true; return; }
    }
    Result r = assign_r(q, x, ROUND_NOT_NEEDED);
    if (result_class(r) != VC_NORMAL) { std::ostringstream s; s << "not-a-number: " << which << " boundary of dimension " << k << " is not a finite number (assign_r result " << (int) r << ")"; odd = s.str(); o.inf = true; return; }
    q.canonicalize(); o.v = q;
  }
  void intervals(std::vector<Itv>& out, std::string& odd) const {
    int n = (int) b.space_dimension(); out.assign(n, Itv());
    for (int k = 0; k < n; ++k) {
      const ITV& i = b.get_interval(Variable(k));
      Itv& o = out[k]; o.empty = i.is_empty();
      if (o.empty) continue;
      o.lo.inf = i.lower_is_boundary_infinity(); o.hi.inf = i.upper_is_boundary_infinity();
      if (!o.lo.inf) { o.lo.open = i.lower_is_open(); read_bound(i.lower(), o.lo, "lower", k, odd); }
      else if (!i.lower_is_open()) { std::ostringstream s; s << "closed-infinite-boundary: lower boundary of dimension " << k << " is -infinity and closed"; odd = s.str(); }
      if (!o.hi.inf) { o.hi.open = i.upper_is_open(); read_bound(i.upper(), o.hi, "upper", k, odd); }
      else if (!i.upper_is_open()) { std::ostringstream s; s << "closed-infinite-boundary: upper boundary of dimension " << k << " is +infinity and closed"; odd = s.str(); }
    }
  }
  Constraint_System constraints() const { return b.constraints(); }
  Constraint_System minimized_constraints() const { return b.minimized_constraints(); }
  Congruence_System congruences() const { return b.congruences(); }
  Congruence_System minimized_congruences() const { return b.minimized_congruences(); }
  bool is_empty() const { return b.is_empty(); }
  bool is_universe() const { return b.is_universe(); }
  bool is_bounded() const { return b.is_bounded(); }
  bool is_discrete() const { return b.is_discrete(); }
  bool is_topologically_closed() const { return b.is_topologically_closed(); }
  bool contains_integer_point() const { return b.contains_integer_point(); }
  bool contains(const BoxI& y) const { return b.contains(cast(y)); }
  bool strictly_contains(const BoxI& y) const { return b.strictly_contains(cast(y)); }
  bool is_disjoint_from(const BoxI& y) const { return b.is_disjoint_from(cast(y)); }
  bool equals(const BoxI& y) const { return b == cast(y); }
  bool constrains(Variable v) const { return b.constrains(v); }
  int affine_dimension() const { return (int) b.affine_dimension(); }
  bool bounds_from_above(const Linear_Expression& e) const { return b.bounds_from_above(e); }
  bool bounds_from_below(const Linear_Expression& e) const { return b.bounds_from_below(e); }
  bool maximize(const Linear_Expression& e, Coefficient& n, Coefficient& dd, bool& mx) const { return b.maximize(e, n, dd, mx); }
  bool maximize(const Linear_Expression& e, Coefficient& n, Coefficient& dd, bool& mx, Generator& g) const { return b.maximize(e, n, dd, mx, g); }
  bool minimize(const Linear_Expression& e, Coefficient& n, Coefficient& dd, bool& mn) const { return b.minimize(e, n, dd, mn); }
  bool minimize(const Linear_Expression& e, Coefficient& n, Coefficient& dd, bool& mn, Generator& g) const { return b.minimize(e, n, dd, mn, g); }
  bool frequency(const Linear_Expression& e, Coefficient& fn, Coefficient& fd, Coefficient& vn, Coefficient& vd) const { return b.frequency(e, fn, fd, vn, vd); }
  Poly_Con_Relation relation_with(const Constraint& c) const { return b.relation_with(c); }
  Poly_Con_Relation relation_with(const Congruence& c) const { return b.relation_with(c); }
  Poly_Gen_Relation relation_with(const Generator& g) const { return b.relation_with(g); }
  bool has_lower_bound(Variable v, Coefficient& n, Coefficient& d, bool& closed) const { return b.has_lower_bound(v, n, d, closed); }
  bool has_upper_bound(Variable v, Coefficient& n, Coefficient& d, bool& closed) const { return b.has_upper_bound(v, n, d, closed); }
  void misc_observers() const { (void) b.hash_code(); (void) b.total_memory_in_bytes(); (void) b.external_memory_in_bytes(); }

  void add_constraint(const Constraint& c) { b.add_constraint(c); }
  void add_constraints(const Constraint_System& cs) { b.add_constraints(cs); }
  void add_recycled_constraints(Constraint_System& cs) { b.add_recycled_constraints(cs); }
  void refine_with_constraint(const Constraint& c) { b.refine_with_constraint(c); }
  void refine_with_constraints(const Constraint_System& cs) { b.refine_with_constraints(cs); }
  void add_congruence(const Congruence& c) { b.add_congruence(c); }
  void add_congruences(const Congruence_System& cs) { b.add_congruences(cs); }
  void add_recycled_congruences(Congruence_System& cs) { b.add_recycled_congruences(cs); }
  void refine_with_congruence(const Congruence& c) { b.refine_with_congruence(c); }
  void refine_with_congruences(const Congruence_System& cs) { b.refine_with_congruences(cs); }
  void propagate_constraint(const Constraint& c) { b.propagate_constraint(c); }
  void propagate_constraints(const Constraint_System& cs, dimension_type mi) { b.propagate_constraints(cs, mi); }
  void unconstrain(Variable v) { b.unconstrain(v); }
  void unconstrain(const Variables_Set& vs) { b.unconstrain(vs); }
  void intersection_assign(const BoxI& y) { b.intersection_assign(cast(y)); }
  void upper_bound_assign(const BoxI& y) { b.upper_bound_assign(cast(y)); }
  bool upper_bound_assign_if_exact(const BoxI& y) { return b.upper_bound_assign_if_exact(cast(y)); }
  void difference_assign(const BoxI& y) { b.difference_assign(cast(y)); }
  bool simplify_using_context_assign(const BoxI& y) { return b.simplify_using_context_assign(cast(y)); }
  void affine_image(Variable v, const Linear_Expression& e, const Coefficient& dd) { b.affine_image(v, e, dd); }
  void affine_preimage(Variable v, const Linear_Expression& e, const Coefficient& dd) { b.affine_preimage(v, e, dd); }
  void generalized_affine_image(Variable v, Relation_Symbol r, const Linear_Expression& e, const Coefficient& dd) { b.generalized_affine_image(v, r, e, dd); }
  void generalized_affine_preimage(Variable v, Relation_Symbol r, const Linear_Expression& e, const Coefficient& dd) { b.generalized_affine_preimage(v, r, e, dd); }
  void generalized_affine_image(const Linear_Expression& l, Relation_Symbol r, const Linear_Expression& e) { b.generalized_affine_image(l, r, e); }
  void generalized_affine_preimage(const Linear_Expression& l, Relation_Symbol r, const Linear_Expression& e) { b.generalized_affine_preimage(l, r, e); }
  void bounded_affine_image(Variable v, const Linear_Expression& lb, const Linear_Expression& ub, const Coefficient& dd) { b.bounded_affine_image(v, lb, ub, dd); }
  void bounded_affine_preimage(Variable v, const Linear_Expression& lb, const Linear_Expression& ub, const Coefficient& dd) { b.bounded_affine_preimage(v, lb, ub, dd); }
  void time_elapse_assign(const BoxI& y) { b.time_elapse_assign(cast(y)); }
  void topological_closure_assign() { b.topological_closure_assign(); }
  void wrap_assign(const Variables_Set& vars, Bounded_Integer_Type_Width w, Bounded_Integer_Type_Representation r, Bounded_Integer_Type_Overflow o,
                   const Constraint_System* cs_p, unsigned ct, bool wi) { b.wrap_assign(vars, w, r, o, cs_p, ct, wi); }
  void drop_some_non_integer_points(Complexity_Class c) { b.drop_some_non_integer_points(c); }
  void drop_some_non_integer_points(const Variables_Set& vs, Complexity_Class c) { b.drop_some_non_integer_points(vs, c); }
  void add_space_dimensions_and_embed(int m) { b.add_space_dimensions_and_embed(m); }
  void add_space_dimensions_and_project(int m) { b.add_space_dimensions_and_project(m); }
  void concatenate_assign(const BoxI& y) { b.concatenate_assign(cast(y)); }
  void remove_space_dimensions(const Variables_Set& vs) { b.remove_space_dimensions(vs); }
  void remove_higher_space_dimensions(int k) { b.remove_higher_space_dimensions(k); }
  void map_space_dimensions(const Partial_Function& pf) { b.map_space_dimensions(pf); }
  void expand_space_dimension(Variable v, int m) { b.expand_space_dimension(v, m); }
  void fold_space_dimensions(const Variables_Set& vs, Variable dest) { b.fold_space_dimensions(vs, dest); }
  void assign(const BoxI& y) { b = cast(y); }
  void m_swap(BoxI& y) { b.m_swap(cast(y)); }

  BoxI* make(int n, bool empty) const { return new BoxImpl(n, empty); }
  BoxI* from_constraints(const Constraint_System& cs, bool recycle) const { if (recycle) { Constraint_System t(cs); return new BoxImpl(B(t, Recycle_Input())); } return new BoxImpl(B(cs)); }
  BoxI* from_congruences(const Congruence_System& cgs, bool recycle) const { if (recycle) { Congruence_System t(cgs); return new BoxImpl(B(t, Recycle_Input())); } return new BoxImpl(B(cgs)); }
  BoxI* from_generators(const Generator_System& gs, bool recycle) const { if (recycle) { Generator_System t(gs); return new BoxImpl(B(t, Recycle_Input())); } return new BoxImpl(B(gs)); }
  BoxI* from_polyhedron(const Polyhedron& ph, Complexity_Class c) const { return new BoxImpl(B(ph, c)); }
  BoxI* from_grid(const Grid& gr, Complexity_Class c) const { return new BoxImpl(B(gr, c)); }
  BoxI* from_bds(const BD_Shape<mpq_class>& x, Complexity_Class c) const { return new BoxImpl(B(x, c)); }
  BoxI* from_bds(const BD_Shape<double>& x, Complexity_Class c) const { return new BoxImpl(B(x, c)); }
  BoxI* from_bds(const BD_Shape<int8_t>& x, Complexity_Class c) const { return new BoxImpl(B(x, c)); }
  BoxI* from_oct(const Octagonal_Shape<mpq_class>& x, Complexity_Class c) const { return new BoxImpl(B(x, c)); }
  BoxI* from_oct(const Octagonal_Shape<double>& x, Complexity_Class c) const { return new BoxImpl(B(x, c)); }
  BoxI* from_oct(const Octagonal_Shape<int8_t>& x, Complexity_Class c) const { return new BoxImpl(B(x, c)); }
  BoxI* from_box(const Rational_Box& x, Complexity_Class c) const { return new BoxImpl(B(x, c)); }
  BoxI* from_box(const Double_Box& x, Complexity_Class c) const { return new BoxImpl(B(x, c)); }
};

// ---------- registration ----------
struct Entry {
  std::string inst;   // short name: rat, ratc, mpz, int8, ... (name of the TU, --kv inst=<name>, violation keys)
  int order;          // position in the rotation used by inst=all
  TypeInfo ti;
  BoxI* (*make)(int n, bool empty);
};
std::vector<Entry>& table();   // defined in boxseq.cc
template <typename B> BoxI* make_box(int n, bool empty) { return new BoxImpl<B>(n, empty); }
template <typename B> struct Registrar {
  Registrar(const char* inst, int order) {
    Entry e; e.inst = inst; e.order = order; e.ti = type_info_of<typename B::interval_type>(); e.make = &make_box<B>;
    table().push_back(e);
  }
};
#define BOXSEQ_REGISTER(INST, ORDER, ...) static boxseq::Registrar<__VA_ARGS__ > boxseq_registrar_##INST(#INST, ORDER);

} // namespace boxseq
#endif
