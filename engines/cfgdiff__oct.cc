// cfgdiff: Octagonal_Shape<mpz_class> instantiation of the shape script.
#include "cfgdiff_shape.hh"
namespace cfg { Script* make_oct_script() { return new Shape_Script<Octagonal_Shape<mpz_class>, true>(); } }
