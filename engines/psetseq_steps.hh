// psetseq_steps.hh — body of Engine<DOM> (included inside the class): the step kinds and run_case.
// No include guard on purpose: it is only ever included from psetseq.hh.

  struct Step { std::string op; std::set<int> changed; bool scratch; Step() : scratch(false) {} };
  typedef std::function<void(PS&, const PS&)> PSBin;

  static PS* deep_copy(const PS& p) { PS* y = new PS(p.space_dimension(), EMPTY); std::vector<D> ev = elems(p); for (size_t i = 0; i < ev.size(); ++i) y->add_disjunct(ev[i]); return y; }
  static std::string ckey(const std::string& what, const std::string& op) { return "C13.pset." + what + "." + op + ":" + inst(); }
  static Un meets(const Un& A, const Un& B) { Un m; for (size_t i = 0; i < A.size(); ++i) for (size_t j = 0; j < B.size(); ++j) m.push_back(M::meet(A[i], B[j])); return m; }
  static void note(const Case& C, const std::string& op, const PS& A, const Un& UA, const std::string& arg = "") {
    hx::count("op." + op);
    if (nonempty_count(C.n, UA) >= 2) hx::distinct(inst() + "|" + op + "|" + state_word(C, A, UA) + "|" + arg);
    else hx::count("trivial_receiver");
  }
  // triage class for disjunct-wise operators: the base-level operator turned an empty disjunct into a non-empty one
  static std::string empty_to_nonempty(int n, const Un& UA, const Un& E, int n2 = -1) {
    if (n2 < 0) n2 = n;
    if (UA.size() == E.size()) for (size_t i = 0; i < UA.size(); ++i) if (M::empty(n, UA[i]) && !M::empty(n2, E[i])) return "base-level-maps-empty-to-nonempty";
    return "";
  }
  static void drop_twin(Case& C, int i) { delete C.twin[i]; C.twin[i] = 0; }

  // A.f(B) with the alias differential (when ai == bi) ; R = shadow of the result
  static bool apply_binary(Case& C, int ai, int bi, const std::string& name, const PSBin& f, Un& R) {
    PS& A = *C.pool[ai]; const PS& B = *C.pool[bi];
    std::unique_ptr<PS> X, Y; if (ai == bi) { X.reset(new PS(A)); Y.reset(deep_copy(A)); }
    f(A, B);
    R = shadow(A);
    if (X) {
      f(*X, *Y); hx::count("alias_checks");
      Un XR = shadow(*X); std::string k = "C13.pset.alias." + name + ":" + inst();
      if (check_same(k, k, (int) A.space_dimension(), XR, R, "value of x.op(copy of x)", "value of x.op(x)") == 0) return false;
    }
    return true;
  }
  static bool lockstep(Case& C, int ai, int bi, const std::string& name, const PSBin& f, const Un& R) {
    if (!C.twin[ai] || hx::st().case_tainted) return true;
    const PS& arg = (bi == ai || bi < 0) ? *C.twin[ai] : *C.pool[bi];
    f(*C.twin[ai], arg); hx::count("lockstep_checks");
    Un L = shadow(*C.twin[ai]); std::string k = "C15.pset.lockstep_diverged." + name + ":" + inst();
    return check_same(k, k, (int) C.twin[ai]->space_dimension(), R, L, "value of the original", "value of the twin loaded from ascii") != 0;
  }

  // ---- 1. disjunct-wise unary operators ----
  static void step_unary(Case& C, int ai, const Un& UA, const std::string& pre, Step& S) {
    PS& A = *C.pool[ai]; int n = C.n;
    UOp op; int tries = 0; while (!make_uop(op, n) && ++tries < 20) op = UOp(); if (tries >= 20) return;
    S.op = op.name;
    std::vector<D> ev = elems(A); Un E; if (!expected_unary(op, ev, E)) return;
    tr(pre + op.text); note(C, op.name, A, UA); S.changed.insert(ai);
    size_t before = A.size();
    op.ps(A);
    Un R = shadow(A);
    if (A.size() != before) { violation(key(op.name, "size_increased"), "disjunct-wise operator changed the number of disjuncts from " + std::to_string(before) + " to " + std::to_string(A.size())); return; }
    if (check_op(op.name, n, E, R, empty_to_nonempty(n, UA, E)) == 0) return;
    if (!check_post(op.name, A, R)) return;
    PSBin f = [&op](PS& x, const PS&) { op.ps(x); };
    lockstep(C, ai, -1, op.name, f, R);
  }

  // ---- 2. pairwise binary operators: meet, time elapse ----
  static void step_pairwise(Case& C, int ai, int bi, const Un& UA, const Un& UB, const std::string& pre, Step& S) {
    PS& A = *C.pool[ai]; const PS& B = *C.pool[bi]; int n = C.n;
    if (UA.size() * UB.size() > 12) { hx::count("skipped.big"); return; }
    BOp op; int w = rnd(0, 9);
    if (w < 5) { op.name = "intersection_assign"; op.ps = [](PS& x, const PS& y) { x.intersection_assign(y); }; op.d = [](D& x, const D& y) { x.intersection_assign(y); }; }
    else if (w < 7) { op.name = "meet_assign"; op.ps = [](PS& x, const PS& y) { x.meet_assign(y); }; op.d = [](D& x, const D& y) { x.intersection_assign(y); }; }
    else { op.name = "time_elapse_assign"; op.ps = [](PS& x, const PS& y) { x.time_elapse_assign(y); }; op.d = [](D& x, const D& y) { x.time_elapse_assign(y); }; }
    S.op = op.name;
    Un E; std::string bcls; if (!expected_pairwise(op, elems(A), elems(B), E, &bcls)) return;
    tr(pre + "." + op.name + "(#" + std::to_string(bi) + ")"); note(C, op.name, A, UA, state_word(C, B, UB) + (ai == bi ? "|alias" : "")); S.changed.insert(ai);
    Un R; if (!apply_binary(C, ai, bi, op.name, op.ps, R)) return;
    if (check_op(op.name, n, E, R, std::string(ai == bi ? "alias" : "") + (bcls.empty() ? "" : (ai == bi ? "-" : "") + bcls)) == 0) return;
    if (op.name != "time_elapse_assign") {   // the meet is exact in every domain: also check against the conjunction of the shadows
      if (check_op(op.name, n, meets(UA, UB), R, ai == bi ? "alias-exact" : "exact") == 0) return;
    }
    if (!check_post(op.name, A, R)) return;
    lockstep(C, ai, bi, op.name, op.ps, R);
  }

  // ---- 3. upper bound = union ----
  static void step_upper_bound(Case& C, int ai, int bi, const Un& UA, const Un& UB, const std::string& pre, Step& S) {
    PS& A = *C.pool[ai]; const PS& B = *C.pool[bi]; int n = C.n;
    int w = rnd(0, 2); const char* nm[3] = { "upper_bound_assign", "least_upper_bound_assign", "upper_bound_assign_if_exact" };
    std::string name = nm[w]; S.op = name; std::shared_ptr<int> res(new int(1));
    PSBin f = [w, res](PS& x, const PS& y) { if (w == 0) x.upper_bound_assign(y); else if (w == 1) x.least_upper_bound_assign(y); else *res = x.upper_bound_assign_if_exact(y) ? 1 : 0; };
    tr(pre + "." + name + "(#" + std::to_string(bi) + ")"); note(C, name, A, UA, state_word(C, B, UB) + (ai == bi ? "|alias" : "")); S.changed.insert(ai);
    Un R; if (!apply_binary(C, ai, bi, name, f, R)) return;
    Un E = UA; E.insert(E.end(), UB.begin(), UB.end());
    if (check_op(name, n, E, R, ai == bi ? "alias" : "") == 0) return;
    checked(); if (*res != 1) { violation(key(name, "wrong_boolean"), "the powerset upper bound is always exact but false was returned"); return; }
    if (nonempty_count(n, R) > nonempty_count(n, UA) + nonempty_count(n, UB)) { violation(key(name, "size_increased"), "more disjuncts than the two arguments together"); return; }
    if (!check_post(name, A, R)) return;
    lockstep(C, ai, bi, name, f, R);
  }

  // ---- 4. add_disjunct ----
  static void step_add_disjunct(Case& C, int ai, int bi, const Un& UA, const Un& UB, const std::string& pre, Step& S) {
    PS& A = *C.pool[ai]; int n = C.n;
    if (A.size() >= 6) { hx::count("skipped.big"); return; }
    std::string how; D d = family_elem(A, n, how); Sh sd = M::shadow(d, n);
    if (coin(25)) {   // one shared representation added to two powersets through the Powerset<Determinate> interface
      S.op = "add_disjunct_shared"; tr(pre + ".Powerset::add_disjunct(shared Determinate " + text(d) + " [" + how + "]) also to #" + std::to_string(bi)); note(C, S.op, A, UA, how);
      S.changed.insert(ai); S.changed.insert(bi);
      Det det(d); A.Base::add_disjunct(det); if (bi != ai) C.pool[bi]->Base::add_disjunct(det);
      Un R = shadow(A); Un E = UA; E.push_back(sd);
      if (check_op(S.op, n, E, R) == 0) return;
      if (bi != ai) { Un RB = shadow(*C.pool[bi]); Un EB = UB; EB.push_back(sd); if (check_op(S.op, n, EB, RB) == 0) return; if (!check_post(S.op, *C.pool[bi], RB)) return; drop_twin(C, bi); }
      check_post(S.op, A, R); drop_twin(C, ai);
      return;
    }
    S.op = "add_disjunct"; tr(pre + ".add_disjunct(" + text(d) + " [" + how + "])"); note(C, S.op, A, UA, how); S.changed.insert(ai);
    size_t before = A.size();
    A.add_disjunct(d);
    Un R = shadow(A); Un E = UA; E.push_back(sd);
    if (check_op(S.op, n, E, R) == 0) return;
    if (A.size() > before + 1) { violation(key(S.op, "size_increased"), "more than one disjunct added"); return; }
    if (!check_post(S.op, A, R)) return;
    PSBin f = [d](PS& x, const PS&) { x.add_disjunct(d); };
    lockstep(C, ai, -1, S.op, f, R);
  }

  // ---- 5. difference ----
  static void step_difference(Case& C, int ai, int bi, const Un& UA, const Un& UB, const std::string& pre, Step& S) {
    PS& A = *C.pool[ai]; const PS& B = *C.pool[bi]; int n = C.n;
    if (UA.size() * UB.size() > 12) { hx::count("skipped.big"); return; }
    S.op = "difference_assign"; PSBin f = [](PS& x, const PS& y) { x.difference_assign(y); };
    tr(pre + ".difference_assign(#" + std::to_string(bi) + ")"); note(C, S.op, A, UA, state_word(C, B, UB) + (ai == bi ? "|alias" : "")); S.changed.insert(ai);
    Un R; if (!apply_binary(C, ai, bi, S.op, f, R)) return;
    checked(); hx::count("op_checks"); hx::count("difference_checks");
    if (R.size() > 40) { hx::inconclusive("difference_result_big"); return; }
    DiffVerdict v = M::check_difference(n, UA, UB, R, kind);
    if (v.what == "inconclusive") { hx::inconclusive("difference_cap"); return; }
    if (!v.what.empty()) {
      std::string cls = ai == bi ? "alias" : "";
      if constexpr (kind == K_GRID) {
        // triage: some congruence expression of the subtrahend takes non-integral values on a minuend disjunct
        bool nonint = false;
        for (size_t i = 0; i < UA.size() && !nonint; ++i) { const ref::Lattice& L = lat(UA[i]); if (L.empty) continue;
          for (size_t j = 0; j < UB.size() && !nonint; ++j) for (size_t c = 0; c < UB[j].cgs.size() && !nonint; ++c) { const ref::Cg& cg = UB[j].cgs[c]; if (cg.m == 0) continue;
            if (!ref::is_int(ref::dot(cg.a, L.p))) nonint = true; for (size_t q = 0; q < L.params.size(); ++q) if (!ref::is_int(ref::dot(cg.a, L.params[q]))) nonint = true; } }
        if (nonint) cls += std::string(cls.empty() ? "" : "-") + "nonintegral-values-on-subtrahend-congruence";
      }
      violation(key(S.op, v.what, cls), v.detail + "; A " + showU(UA) + " B " + showU(UB) + " result " + showU(R)); return;
    }
    if (!check_post(S.op, A, R)) return;
    lockstep(C, ai, bi, S.op, f, R);
  }

  // ---- 6. meet-preserving simplification with a context ----
  static void step_simplify(Case& C, int ai, int bi, const Un& UA, const Un& UB, const std::string& pre, Step& S) {
    PS& A = *C.pool[ai]; const PS& B = *C.pool[bi]; int n = C.n;
    if (UA.size() * UB.size() > 12) { hx::count("skipped.big"); return; }
    S.op = "simplify_using_context_assign"; std::shared_ptr<int> res(new int(-1));
    PSBin f = [res](PS& x, const PS& y) { *res = x.simplify_using_context_assign(y) ? 1 : 0; };
    tr(pre + ".simplify_using_context_assign(#" + std::to_string(bi) + ")"); note(C, S.op, A, UA, state_word(C, B, UB) + (ai == bi ? "|alias" : "")); S.changed.insert(ai);
    if (risky(S.op)) {
      hx::count("crash_probes");
      int sig = crash_probe([&]() { PS X(A); std::unique_ptr<PS> Y(deep_copy(B)); X.simplify_using_context_assign(*Y); if (ai == bi) { PS Z(A); Z.simplify_using_context_assign(Z); } });
      if (sig) { violation(key(S.op, "base_crash", "signal-" + std::to_string(sig)), "the operation applied to copies of the operands killed a forked probe process; A " + text(A) + " context " + text(B)); return; }
    }
    size_t before = A.size(); std::vector<D> evA = elems(A), evB = elems(B);
    Un R; if (!apply_binary(C, ai, bi, S.op, f, R)) return;
    int r = *res;   // value returned by the monitored call (the alias differential ran afterwards on copies)
    hx::count("op_checks"); hx::count("simplify_checks");
    if (R.size() * UB.size() > 40) { hx::inconclusive("simplify_big"); return; }
    Un M1 = meets(UA, UB), M2 = meets(R, UB);
    std::string cls = ai == bi ? "alias" : "";
    { Vec w0; bool bad = !same_syntax_union<M>(M1, M2) && (M::included(n, M1, M2, &w0) == 0 || M::included(n, M2, M1, &w0) == 0);
      if (A.size() > before || (ai != bi && r == 0 && nonempty_count(n, M1) > 0)) bad = true;
      if (bad) {
        // triage: does the base-level simplification of one disjunct in one context disjunct already lose/gain part of the meet,
        // or return false on a non-empty meet?  (both with the plain context disjuncts and with the progressively restricted
        // ones the powerset algorithm uses).  Run in a forked child where the base-level operator is known to abort.
        std::string base_wit;
        std::function<int()> tri = [&]() -> int {
          for (int chain = 0; chain < 2; ++chain) for (size_t i = 0; i < evA.size(); ++i) {
            D enlarged(n);
            for (size_t j = 0; j < evB.size(); ++j) {
              D ctx(evB[j]); if (chain) ctx.intersection_assign(enlarged);
              D z(evA[i]); bool br = z.simplify_using_context_assign(ctx);
              Sh sc = M::shadow(ctx, n); Un m1(1, M::meet(UA[i], sc)), m2(1, M::meet(M::shadow(z, n), sc)); Vec w;
              bool f1 = !br && !M::empty(n, m1[0]);
              if (f1 || M::included(n, m1, m2, &w) == 0 || M::included(n, m2, m1, &w) == 0) { base_wit = "base level: " + text(evA[i]) + " simplified in context " + text(ctx) + " gives " + text(z) + " (returned " + (br ? "true" : "false") + "); "; return f1 ? 1 : 2; }
              enlarged.intersection_assign(z);
            }
          }
          return 0; };
        int t = risky(S.op) ? probe_value(tri) : tri();
        const char* sub = t == 1 ? "base-level-returns-false-on-nonempty-meet" : t == 2 ? "base-level-meet-changed" : t < 0 ? "base-level-crash" : "";
        if (*sub) cls += std::string(cls.empty() ? "" : "-") + sub;
        if (!base_wit.empty()) tr(" [" + base_wit + "]");
      } }
    if (check_same(key(S.op, "union_changed", cls), key(S.op, "union_changed", cls), n, M1, M2, "meet with the context before", "meet with the context after") == 0) return;
    checked(); if (A.size() > before) { violation(key(S.op, "size_increased", cls), "from " + std::to_string(before) + " to " + std::to_string(A.size()) + " disjuncts"); return; }
    checked(); if (ai != bi && r == 0 && nonempty_count(n, M1) > 0) { violation(key(S.op, "wrong_boolean", cls), "false returned although the meet with the context is not empty"); return; }
    if (!check_post(S.op, A, R)) return;
    (void) r;
    lockstep(C, ai, bi, S.op, f, R);
  }

  // ---- 7. reductions ----
  static void step_reduce(Case& C, int ai, const Un& UA, const std::string& pre, Step& S, int force = -1) {
    PS& A = *C.pool[ai]; int n = C.n;
    int w = force >= 0 ? force : (rnd(0, 9) < 5 ? 0 : rnd(1, 2)); const char* nm[3] = { "omega_reduce", "pairwise_reduce", "collapse" };
    S.op = nm[w]; tr(pre + "." + S.op + "()"); note(C, S.op, A, UA); S.changed.insert(ai);
    size_t before = A.size();
    PSBin f = [w](PS& x, const PS&) { if (w == 0) x.omega_reduce(); else if (w == 1) x.pairwise_reduce(); else x.collapse(); };
    std::vector<D> ev = elems(A);
    f(A, A);
    Un R = shadow(A); hx::count("op_checks"); hx::count("reduction_checks");
    checked(); if (A.size() > before) { violation(key(S.op, "size_increased"), "from " + std::to_string(before) + " to " + std::to_string(A.size()) + " disjuncts"); return; }
    if (w < 2) {
      std::string bl;
      if (w == 1 && !same_syntax_union<M>(UA, R)) {   // triage: a base-level upper_bound_assign_if_exact that says `exact' for an inexact join
        for (size_t i = 0; i < ev.size() && bl.empty(); ++i) for (size_t j = 0; j < ev.size() && bl.empty(); ++j) if (i != j) {
          D z(ev[i]); if (!z.upper_bound_assign_if_exact(ev[j])) continue;
          Un zz(1, M::shadow(z, n)), two; two.push_back(UA[i]); two.push_back(UA[j]); Vec wv;
          if (M::included(n, zz, two, &wv) == 0) { bl = "-base-level-inexact-join-accepted"; tr(" [base level: " + text(ev[i]) + ".upper_bound_assign_if_exact(" + text(ev[j]) + ") returned true and gave " + text(z) + "]"); }
        }
      }
      if (check_same(key(S.op, "union_changed", "lost" + bl), key(S.op, "union_changed", "gained" + bl), n, UA, R, "union before", "union after") == 0) return;
      // after a reduction no disjunct is empty and none is contained in another
      checked(); std::string why; bool red = true;
      for (size_t i = 0; i < R.size() && red; ++i) if (M::empty(n, R[i])) { red = false; why = "empty disjunct left"; }
      for (size_t i = 0; i < R.size() && red; ++i) for (size_t j = 0; j < R.size() && red; ++j) if (i != j) { Un a(1, R[i]), b(1, R[j]); if (M::included(n, a, b, 0) == 1) { red = false; why = "disjunct " + M::show(R[i]) + " is contained in " + M::show(R[j]); } }
      if (!red) { violation(key(S.op, "not_reduced"), why + "; " + showU(R)); return; }
    } else {
      // collapse: a single disjunct, the base-level upper bound of all of them; it can only enlarge the union
      checked(); if (before > 0 && A.size() != 1) { violation(key(S.op, "size_increased"), "collapse left " + std::to_string(A.size()) + " disjuncts"); return; }
      Vec wv; int r = M::included(n, UA, R, &wv); checked();
      if (r == 0) { violation(key(S.op, "lost_points"), "point " + show(wv) + " of the union is not in the collapsed element; " + showU(UA) + " -> " + showU(R)); return; }
      if (!ev.empty()) { D ub(ev[0]); for (size_t i = 1; i < ev.size(); ++i) ub.upper_bound_assign(ev[i]); Un E(1, M::shadow(ub, n));
        if (check_same(key(S.op, "not_exact", "smaller-than-upper-bound"), key(S.op, "not_exact", "larger-than-upper-bound"), n, E, R, "base-level upper bound", "collapsed element") == 0) return; }
    }
    if (!check_post(S.op, A, R)) return;
    lockstep(C, ai, -1, S.op, f, R);
  }

  // ---- 8. geometric and entailment-based comparisons ----
  static void step_geom(Case& C, int ai, int bi, const Un& UA, const Un& UB, const std::string& pre, Step& S) {
    PS& A = *C.pool[ai]; const PS& B = *C.pool[bi]; int n = C.n;
    if (UA.size() * UB.size() > 16) { hx::count("skipped.big"); return; }
    S.op = "geom"; tr(pre + ".compare(#" + std::to_string(bi) + ")"); note(C, "geometrically_covers", A, UA, state_word(C, B, UB) + (ai == bi ? "|alias" : ""));
    size_t before = A.size();
    Vec w; int rc = M::included(n, UB, UA, &w), rcb = M::included(n, UA, UB, &w);
    if (rc < 0 || rcb < 0) { hx::inconclusive("union_cap"); return; }
    std::string d = "A " + showU(UA) + " B " + showU(UB); std::string cls = ai == bi ? "alias-" : "";
    if constexpr (kind == K_GRID) {
      // triage (same deterministic predicate as for difference_assign, which shares approximate_partition with the covering test):
      // some congruence expression of one operand takes non-integral values on a disjunct of the other one
      auto nonint_on = [&](const Un& X, const Un& Y) { for (size_t i = 0; i < X.size(); ++i) { const ref::Lattice& L = lat(X[i]); if (L.empty) continue;
        for (size_t j = 0; j < Y.size(); ++j) for (size_t c = 0; c < Y[j].cgs.size(); ++c) { const ref::Cg& cg = Y[j].cgs[c]; if (cg.m == 0) continue;
          if (!ref::is_int(ref::dot(cg.a, L.p))) return true; for (size_t q = 0; q < L.params.size(); ++q) if (!ref::is_int(ref::dot(cg.a, L.params[q]))) return true; } } return false; };
      if (nonint_on(UB, UA) || nonint_on(UA, UB)) cls += "nonintegral-values-on-a-congruence-of-the-other-operand-";
    }
    bool cov = A.geometrically_covers(B); checked(); hx::count("geom_checks");
    if (cov != (rc == 1)) { violation(key("geometrically_covers", "wrong_boolean", cls + (cov ? "ppl-true" : "ppl-false")), d); return; }
    bool ge = A.geometrically_equals(B); checked();
    if (ge != (rc == 1 && rcb == 1)) { violation(key("geometrically_equals", "wrong_boolean", cls + (ge ? "ppl-true" : "ppl-false")), d); return; }
    bool c = A.contains(B); checked(); hx::count("op.contains");
    if (c && rc != 1) { violation(key("contains", "wrong_boolean", cls + "not-geometric"), d); return; }
    bool sc = A.strictly_contains(B); checked(); hx::count("op.strictly_contains");
    if (sc && rc != 1) { violation(key("strictly_contains", "wrong_boolean", cls + "not-geometric"), d); return; }
    bool de = B.definitely_entails(A); checked();
    if (de && rc != 1) { violation(key("definitely_entails", "wrong_boolean", cls + "not-geometric"), d); return; }
    bool eq = (A == B); checked(); hx::count("op.equals");
    if (eq && !(rc == 1 && rcb == 1)) { violation(key("operator_eq", "wrong_boolean", cls + "not-geometric"), d); return; }
    bool em = A.is_empty(); checked();
    if (em != (nonempty_count(n, UA) == 0)) { violation(key("is_empty", "wrong_boolean", em ? "ppl-true" : "ppl-false"), d); return; }
    bool bt = A.is_bottom(); checked();
    if (bt != (nonempty_count(n, UA) == 0)) { violation(key("is_bottom", "wrong_boolean", bt ? "ppl-true" : "ppl-false"), d); return; }
    checked(); if (A.size() > before) { violation(key("geom", "size_increased"), "a comparison increased the number of disjuncts"); return; }
    check_post("geom", A, shadow(A));
  }

  // ---- 9. queries that reduce lazily ----
  static void step_query(Case& C, int ai, const Un& UA, const std::string& pre, Step& S) {
    PS& A = *C.pool[ai]; int n = C.n; size_t before = A.size();
    int w = rnd(0, 7);
    const char* nm[8] = { "is_topologically_closed", "constrains", "bounds_from", "maximize", "minimize", "is_universe", "misc_observers", "iterate" };
    S.op = nm[w]; note(C, S.op, A, UA);
    if (w == 0) { tr(pre + ".is_topologically_closed()"); (void) A.is_topologically_closed(); }
    else if (w == 1) { if (n == 0) return; int v = rnd(0, n - 1); tr(pre + ".constrains(" + str(Variable(v)) + ")"); (void) A.constrains(Variable(v)); }
    else if (w == 2) { Linear_Expression e = mild_expr(n); tr(pre + ".bounds_from_above/below(" + str(e) + ")"); (void) A.bounds_from_above(e); (void) A.bounds_from_below(e); }
    else if (w == 3 || w == 4) {
      bool mx = (w == 3); Linear_Expression e = mild_expr(n); tr(pre + (mx ? ".maximize(" : ".minimize(") + str(e) + ")");
      Coefficient num, den; bool att = false; Generator g(point());
      std::vector<D> ev = elems(A);
      bool ok = mx ? A.maximize(e, num, den, att, g) : A.minimize(e, num, den, att, g);
      Coefficient num2, den2; bool att2 = false; bool ok2 = mx ? A.maximize(e, num2, den2, att2) : A.minimize(e, num2, den2, att2);
      // the extremum over a union is the best of the base-level extrema over the non-empty disjuncts (both overloads)
      for (int ver = 0; ver < 2; ++ver) {
        bool any = false, fail = false, attained = false; Q best;
        for (size_t i = 0; i < ev.size() && !fail; ++i) {
          D q(ev[i]); if (q.is_empty()) continue;
          Coefficient bn, bd; bool bm = false; Generator bg(point());
          bool r = ver == 0 ? (mx ? q.maximize(e, bn, bd, bm, bg) : q.minimize(e, bn, bd, bm, bg)) : (mx ? q.maximize(e, bn, bd, bm) : q.minimize(e, bn, bd, bm));
          if (!r) { fail = true; break; }
          Q v = ref::toQ(bn) / ref::toQ(bd);
          if (!any || (mx ? v > best : v < best)) { best = v; attained = bm; } else if (v == best) attained = attained || bm;
          any = true;
        }
        checked(); hx::count("maxmin_checks");
        bool rok = any && !fail; bool pok = ver == 0 ? ok : ok2; std::string d = str(e) + " over " + showU(UA); std::string vc = ver == 0 ? "with-generator-" : "";
        if (pok != rok) { violation(key(S.op, "wrong_boolean", vc + (pok ? "ppl-true" : "ppl-false")), d); return; }
        if (pok) {
          Q val = ver == 0 ? Q(ref::toQ(num) / ref::toQ(den)) : Q(ref::toQ(num2) / ref::toQ(den2)); bool pa = ver == 0 ? att : att2;
          if (val != best) { std::ostringstream o; o << "PPL " << val << " best base-level value " << best << " for " << d; violation(key(S.op, "wrong_value", vc + "value"), o.str()); return; }
          if (pa != attained) { violation(key(S.op, "wrong_boolean", vc + (pa ? "attained-ppl-true" : "attained-ppl-false")), d); return; }
        }
      }
    }
    else if (w == 5) { tr(pre + ".is_universe()"); bool u = A.is_universe(); (void) u; }
    else if (w == 6) { tr(pre + ".misc_observers()"); (void) A.is_bounded(); (void) A.is_discrete(); (void) A.affine_dimension(); (void) A.hash_code(); (void) A.total_memory_in_bytes(); (void) A.external_memory_in_bytes(); (void) A.space_dimension(); }
    else { tr(pre + ".iterate()"); size_t cnt = 0, rc = 0; for (typename PS::iterator i = A.begin(), e = A.end(); i != e; ++i) { (void) i->pointset().space_dimension(); ++cnt; } for (typename PS::const_reverse_iterator i = static_cast<const PS&>(A).rbegin(), e = static_cast<const PS&>(A).rend(); i != e; ++i) ++rc;
      checked(); if (cnt != A.size() || rc != A.size()) { violation(key("iterate", "wrong_iterator"), "iteration visits a number of disjuncts different from size()"); return; } }
    checked(); if (A.size() > before) { violation(key(S.op, "size_increased"), "a query increased the number of disjuncts"); return; }
    // the union must be unchanged: done by the bystander comparison (nothing is declared changed); sanity of the lazy state here
    check_post(S.op, A, shadow(A));
  }

  // ---- 10. copies, assignments, swaps, snapshots ----
  static void step_copy(Case& C, int ai, int bi, const std::vector<Un>& U, const std::string& pre, Step& S) {
    int n = C.n; int how = rnd(0, 6); std::string bs = "#" + std::to_string(bi);
    if (how == 0) { S.op = "copy_construct"; tr(pre + " = PS(" + bs + ")"); hx::count("op.copy_construct"); if (ai == bi) return;
      delete C.pool[ai]; C.pool[ai] = new PS(*C.pool[bi]); drop_twin(C, ai); S.changed.insert(ai);
      check_same(ckey("copy_differs", S.op), ckey("copy_differs", S.op), n, U[bi], shadow(*C.pool[ai]), "source", "copy"); check_post(S.op, *C.pool[ai], shadow(*C.pool[ai])); }
    else if (how == 1) { S.op = ai == bi ? "self_assign" : "assign"; tr(pre + " = " + bs); hx::count("op." + S.op);
      *C.pool[ai] = *C.pool[bi]; drop_twin(C, ai); S.changed.insert(ai);
      check_same(ckey("assign_differs", S.op), ckey("assign_differs", S.op), n, U[bi], shadow(*C.pool[ai]), "source", "assigned object"); check_post(S.op, *C.pool[ai], shadow(*C.pool[ai])); }
    else if (how == 2 || how == 3) { S.op = how == 2 ? "m_swap" : "swap"; if (ai == bi) S.op = "self_" + S.op; tr(pre + "." + S.op + "(" + bs + ")"); hx::count("op." + S.op);
      if (how == 2) C.pool[ai]->m_swap(*C.pool[bi]); else { using std::swap; swap(*C.pool[ai], *C.pool[bi]); }
      std::swap(C.twin[ai], C.twin[bi]); S.changed.insert(ai); S.changed.insert(bi);
      if (check_same(ckey("swap_differs", S.op), ckey("swap_differs", S.op), n, U[bi], shadow(*C.pool[ai]), "other operand before", "receiver after") == 0) return;
      if (check_same(ckey("swap_differs", S.op), ckey("swap_differs", S.op), n, U[ai], shadow(*C.pool[bi]), "receiver before", "other operand after") == 0) return;
      if (!check_post(S.op, *C.pool[ai], shadow(*C.pool[ai]))) return; check_post(S.op, *C.pool[bi], shadow(*C.pool[bi])); }
    else if (how == 4) { S.op = "snapshot"; tr(pre + ".snapshot()"); hx::count("op.snapshot");
      if (C.snaps.size() >= 3) { delete C.snaps[0].p; C.snaps.erase(C.snaps.begin()); }
      Snap s; s.p = new PS(*C.pool[ai]); s.u = U[ai]; C.snaps.push_back(s); }
    else if (how == 5) { if (C.snaps.empty()) return; int k = rnd(0, (int) C.snaps.size() - 1); S.op = "assign_from_snapshot"; tr(pre + " = snapshot" + std::to_string(k)); hx::count("op.assign_from_snapshot");
      *C.pool[ai] = *C.snaps[k].p; drop_twin(C, ai); S.changed.insert(ai);
      check_same(ckey("assign_differs", S.op), ckey("assign_differs", S.op), n, C.snaps[k].u, shadow(*C.pool[ai]), "snapshot", "assigned object"); }
    else { S.op = "copy_then_mutate_copy"; hx::count("op.copy_then_mutate_copy"); S.scratch = true;
      PS c(*C.pool[ai]); UOp op; if (!make_uop(op, n)) return; Un E; if (!expected_unary(op, elems(c), E)) return;
      tr(pre + ".copy" + op.text + ".omega_reduce()"); op.ps(c); c.omega_reduce(); if (coin()) c.pairwise_reduce(); }
  }

  // ---- 11. iterator-based removal ----
  static void step_iter(Case& C, int ai, const Un& UA, const std::string& pre, Step& S) {
    PS& A = *C.pool[ai]; int n = C.n; size_t sz = A.size();
    int w = rnd(0, 9);
    if (w < 6 && sz > 0) {
      int k = rnd(0, (int) sz - 1); S.op = "drop_disjunct"; tr(pre + ".drop_disjunct(begin()+" + std::to_string(k) + ")"); note(C, S.op, A, UA); S.changed.insert(ai);
      typename PS::iterator it = A.begin(); std::advance(it, k); typename PS::iterator nx = A.drop_disjunct(it);
      checked(); if ((int) std::distance(A.begin(), nx) != k) { violation(key(S.op, "wrong_iterator"), "returned iterator does not designate the successor"); return; }
      Un E = UA; E.erase(E.begin() + k); Un R = shadow(A);
      checked(); if (A.size() != sz - 1) { violation(key(S.op, "size_increased"), "size after dropping one disjunct is " + std::to_string(A.size())); return; }
      if (check_op(S.op, n, E, R) == 0) return; check_post(S.op, A, R);
      PSBin f = [k](PS& x, const PS&) { typename PS::iterator i = x.begin(); std::advance(i, k); x.drop_disjunct(i); };
      if (C.twin[ai] && C.twin[ai]->size() == sz) lockstep(C, ai, -1, S.op, f, R); else drop_twin(C, ai);
    } else if (w < 9 && sz > 0) {
      int k1 = rnd(0, (int) sz), k2 = rnd(k1, (int) sz); S.op = "drop_disjuncts"; tr(pre + ".drop_disjuncts(begin()+" + std::to_string(k1) + ", begin()+" + std::to_string(k2) + ")"); note(C, S.op, A, UA); S.changed.insert(ai);
      typename PS::iterator f1 = A.begin(), f2 = A.begin(); std::advance(f1, k1); std::advance(f2, k2); A.drop_disjuncts(f1, f2);
      Un E = UA; E.erase(E.begin() + k1, E.begin() + k2); Un R = shadow(A);
      checked(); if (A.size() != sz - (k2 - k1)) { violation(key(S.op, "size_increased"), "wrong size after dropping a range"); return; }
      if (check_op(S.op, n, E, R) == 0) return; check_post(S.op, A, R); drop_twin(C, ai);
    } else {
      S.op = "clear"; tr(pre + ".clear()"); note(C, S.op, A, UA); S.changed.insert(ai);
      A.clear(); Un R = shadow(A); checked(); if (!R.empty() || !A.empty()) { violation(key(S.op, "extra_points"), "clear() left disjuncts"); return; }
      check_post(S.op, A, R); drop_twin(C, ai);
    }
  }

  // ---- 12. ascii round trip ----
  static void step_ascii(Case& C, int ai, const Un& UA, const std::string& pre, Step& S) {
    PS& A = *C.pool[ai]; int n = C.n; S.op = "ascii_roundtrip";
    tr(pre + ".ascii_roundtrip()"); note(C, S.op, A, UA); hx::count("ascii_roundtrips"); checked();
    std::string d1 = dump(A); std::istringstream in(d1);
    PS* L = new PS(0, UNIVERSE); std::string k = ":" + inst();
    // triage: does the base-level element round trip already fail (then the powerset layer is not to blame)?
    bool base_ok = true, base_same = true;
    for (typename PS::const_iterator i = A.begin(), e = A.end(); i != e; ++i) {
      std::ostringstream o; i->pointset().ascii_dump(o); std::istringstream bi(o.str()); D q;
      if (!q.ascii_load(bi) || !q.OK()) { base_ok = false; continue; }
      std::ostringstream o2; q.ascii_dump(o2); if (o2.str() != o.str()) base_same = false;
    }
    k += base_ok && base_same ? "-powerset-level" : "-base-level";
    if (!L->ascii_load(in)) { violation("C15.pset.load_failed" + k, d1.substr(0, 400)); delete L; return; }
    if (!L->OK()) { violation("C15.pset.loaded_not_OK" + k, d1.substr(0, 400)); delete L; return; }
    if ((int) L->space_dimension() != n) { violation("C15.pset.dimension_differs" + k, d1.substr(0, 400)); delete L; return; }
    std::string d2 = dump(*L);
    if (d2 != d1) { violation("C15.pset.redump_differs" + k, "first dump:\n" + d1.substr(0, 600) + "\nsecond dump:\n" + d2.substr(0, 600)); delete L; return; }
    if (check_same("C15.pset.value_differs" + k, "C15.pset.value_differs" + k, n, UA, shadow(*L), "dumped powerset", "loaded powerset") == 0) { delete L; return; }
    drop_twin(C, ai); C.twin[ai] = L;
  }

  // ---- 13. dimension-changing operators and concatenation, on a scratch copy ----
  static void step_dims(Case& C, int ai, int bi, const Un& UA, const Un& UB, const std::string& pre, Step& S) {
    const PS& A = *C.pool[ai]; const PS& B = *C.pool[bi]; int n = C.n;
    PS T(A); S.scratch = true;
    if (coin(30)) {
      if (UA.size() * UB.size() > 12) { hx::count("skipped.big"); return; }
      S.op = "concatenate_assign"; tr(pre + ".tmp.concatenate_assign(#" + std::to_string(bi) + ")"); note(C, S.op, A, UA, ai == bi ? "alias" : "");
      std::vector<D> ea = elems(A), eb = elems(B); Un E; std::string bcls;
      BOp cop; cop.name = S.op; cop.d = [](D& x, const D& y) { x.concatenate_assign(y); };
      if (!expected_pairwise(cop, ea, eb, E, &bcls)) return;
      if (ai == bi && coin()) {
        PS X(A); std::unique_ptr<PS> Y(deep_copy(A)); T.concatenate_assign(T); X.concatenate_assign(*Y); hx::count("alias_checks");
        std::string k = "C13.pset.alias.concatenate_assign:" + inst();
        if (check_same(k, k, 2 * n, shadow(X), shadow(T), "value of x.op(copy of x)", "value of x.op(x)") == 0) return;
      } else T.concatenate_assign(B);
      checked(); if ((int) T.space_dimension() != 2 * n) { violation(key(S.op, "wrong_dimension"), "space dimension " + std::to_string(T.space_dimension())); return; }
      Un R = shadow(T); if (check_op(S.op, 2 * n, E, R, std::string(ai == bi ? "alias" : "") + (bcls.empty() ? "" : (ai == bi ? "-" : "") + bcls)) == 0) return; check_post(S.op, T, R);
      return;
    }
    UOp op; int tries = 0; while (!make_dimop(op, n) && ++tries < 20) op = UOp(); if (tries >= 20) return;
    S.op = op.name;
    Un E; if (!expected_unary(op, elems(A), E)) return;
    int n2; try { D u(n); op.d(u); n2 = u.space_dimension(); } catch (const std::invalid_argument&) { return; }
    tr(pre + ".tmp" + op.text); note(C, op.name, A, UA);
    op.ps(T);
    checked(); if ((int) T.space_dimension() != n2) { violation(key(op.name, "wrong_dimension", T.size() == 0 ? "no-disjuncts" : ""), "space dimension " + std::to_string(T.space_dimension()) + " expected " + std::to_string(n2)); return; }
    Un R = shadow(T);
    if (check_op(op.name, n2, E, R, empty_to_nonempty(n, UA, E, n2)) == 0) return;
    check_post(op.name, T, R);
  }

  // ---------------------------------------------------------------- one case
  static void run_case() {
    const std::string profile = hx::opt().profile;
    Case C; int dk = rnd(0, 99); int n = dk < 5 ? 0 : dk < 40 ? 1 : dk < 90 ? 2 : 3;
    if (n == 3 && !hx::opt().thorough && coin()) n = 2;
    C.n = n; const int NP = 3; C.pool.assign(NP, (PS*) 0); C.twin.assign(NP, (PS*) 0);
    {
      std::ostringstream o; o << inst() << " n=" << n << " init:";
      for (int i = 0; i < NP; ++i) { std::string desc; C.pool[i] = random_ps(n, desc); o << " #" << i << "=" << text(*C.pool[i]) << "[" << desc << "]"; }
      tr(o.str());
    }
    int steps = rnd(4, 12);
    for (int stp = 0; stp < steps && !hx::st().case_tainted; ++stp) {
      hx::count("steps");
      int ai = rnd(0, NP - 1), bi = rnd(0, NP - 1);
      if (profile == "alias" && coin(40)) bi = ai;
      std::vector<Un> U(NP); for (int i = 0; i < NP; ++i) U[i] = shadow(*C.pool[i]);
      hx::count(std::string("state.") + state_word(C, *C.pool[ai], U[ai]));
      std::ostringstream pre; pre << " | #" << ai;
      Step S;
      try {
        Weight_Guard wg(200000000ULL);
        struct Note { Weight_Guard& g; ~Note() { note_weight("step", g.used()); } } nt = { wg };
        // weights: unary pairwise ub add diff simp reduce geom query copy iter ascii dims
        int W[13] = { 20, 9, 6, 9, 7, 6, 10, 8, 6, 8, 4, 3, 4 };
        if (profile == "cow") { int X[13] = { 18, 5, 5, 8, 3, 3, 16, 3, 8, 22, 4, 2, 3 }; std::copy(X, X + 13, W); }
        else if (profile == "alias") { int X[13] = { 8, 16, 12, 6, 14, 14, 6, 8, 2, 6, 2, 2, 4 }; std::copy(X, X + 13, W); }
        else if (profile == "ascii") { int X[13] = { 24, 8, 6, 10, 6, 5, 8, 2, 3, 4, 4, 18, 2 }; std::copy(X, X + 13, W); }
        else if (profile == "geom") { int X[13] = { 10, 6, 5, 10, 18, 10, 8, 22, 3, 4, 2, 1, 1 }; std::copy(X, X + 13, W); }
        int tot = 0; for (int i = 0; i < 13; ++i) tot += W[i];
        int r = rnd(0, tot - 1), kindi = 0; while (r >= W[kindi]) { r -= W[kindi]; ++kindi; }
        if (C.pool[ai]->size() == 0 && kindi != 3 && kindi != 9 && coin(60)) { kindi = 3; hx::count("forced_add_disjunct"); }
        if (C.pool[ai]->size() > 6) { step_reduce(C, ai, U[ai], pre.str(), S, C.pool[ai]->size() > 12 ? 2 : (coin() ? 0 : 1)); if (C.pool[ai]->size() > 8 && !hx::st().case_tainted) { Step S2; Un UA2 = shadow(*C.pool[ai]); step_reduce(C, ai, UA2, pre.str(), S2, 2); } }
        else switch (kindi) {
        case 0: step_unary(C, ai, U[ai], pre.str(), S); break;
        case 1: step_pairwise(C, ai, bi, U[ai], U[bi], pre.str(), S); break;
        case 2: step_upper_bound(C, ai, bi, U[ai], U[bi], pre.str(), S); break;
        case 3: step_add_disjunct(C, ai, bi, U[ai], U[bi], pre.str(), S); break;
        case 4: step_difference(C, ai, bi, U[ai], U[bi], pre.str(), S); break;
        case 5: step_simplify(C, ai, bi, U[ai], U[bi], pre.str(), S); break;
        case 6: step_reduce(C, ai, U[ai], pre.str(), S); break;
        case 7: step_geom(C, ai, bi, U[ai], U[bi], pre.str(), S); break;
        case 8: step_query(C, ai, U[ai], pre.str(), S); break;
        case 9: step_copy(C, ai, bi, U, pre.str(), S); break;
        case 10: step_iter(C, ai, U[ai], pre.str(), S); break;
        case 11: step_ascii(C, ai, U[ai], pre.str(), S); break;
        default: step_dims(C, ai, bi, U[ai], U[bi], pre.str(), S); break;
        }
      } catch (const Logical_Timeout&) {
        violation("C09.hang." + inst() + "." + (S.op.empty() ? "unknown" : S.op), "logical-time budget (weight 2e8) exceeded; receiver " + showU(U[ai]) + " argument " + showU(U[bi]));
        return;
      } catch (const std::exception& e) {
        violation(key(S.op.empty() ? "unknown" : S.op, "unexpected_exception", typeid(e).name()), e.what());
        return;
      }
      if (hx::st().case_tainted) return;
      // every object not declared changed keeps its value: bystanders, const arguments, snapshots (copy-on-write)
      std::string opn = S.op.empty() ? "none" : S.op;
      for (int i = 0; i < NP; ++i) if (!S.changed.count(i)) {
        hx::count("bystander_checks");
        std::string k = ckey(i == ai ? (S.scratch ? "original_changed_by_mutating_copy" : "changed_by_observer") : i == bi ? "const_argument_changed" : "bystander_changed", opn);
        Un now = shadow(*C.pool[i]);
        if (check_unchanged(k, n, U[i], now, "object #" + std::to_string(i)) == 0) return;
        if (now.size() > U[i].size()) { violation(key(opn, "size_increased", "untouched-object"), "object #" + std::to_string(i) + " has more disjuncts than before"); return; }
      }
      for (size_t s = 0; s < C.snaps.size(); ++s) {
        hx::count("snapshot_checks");
        if (check_unchanged(ckey("copy_changed", opn), n, C.snaps[s].u, shadow(*C.snaps[s].p), "snapshot " + std::to_string(s)) == 0) return;
      }
    }
  }
