// ivalencl, policy dbl_oc: Interval<double, Floating_Point_Box_Interval_Info>
#include "ivalencl_impl.hh"
#include "interfaces/interfaced_boxes.hh"
namespace ivx { void case_dbl() { run_policy<Interval<double, Floating_Point_Box_Interval_Info> >("dbl_oc", K_FLOAT); } }
