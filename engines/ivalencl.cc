// ivalencl — engine for C12 (interval part): see ivalencl_impl.hh.
// Policies: rat_oc (Rational_Interval, Box.cc), mpz_c / i8_c / u8_c / i32_c / i64_c (interfaces/interfaced_boxes.hh),
// flt_oc / dbl_oc / ldbl_oc (Floating_Point_Box_Interval_Info == tests/ppl_test.hh Floating_Real_Open_Interval_Info).
// --kv policy=<name> restricts the run to one policy.
#include "ivalencl_impl.hh"

static void run_case(uint64_t) {
  static const char* const names[9] = { "rat_oc", "mpz_c", "i8_c", "u8_c", "i32_c", "i64_c", "flt_oc", "dbl_oc", "ldbl_oc" };
  static void (*const fns[9])() = { ivx::case_rat, ivx::case_mpz, ivx::case_i8, ivx::case_u8, ivx::case_i32, ivx::case_i64, ivx::case_flt, ivx::case_dbl, ivx::case_ldbl };
  // weights: the exact and the floating-point policies carry most of the property
  static const int wt[9] = { 26, 10, 6, 5, 4, 4, 15, 18, 12 };
  std::string only = hx::opt().gets("policy", "");
  int pick = -1;
  if (!only.empty()) { for (int i = 0; i < 9; ++i) if (only == names[i]) pick = i; if (pick < 0) { fprintf(stderr, "unknown policy %s\n", only.c_str()); exit(2); } }
  else { int t = hx::rnd(0, 99), acc = 0; for (int i = 0; i < 9; ++i) { acc += wt[i]; if (t < acc) { pick = i; break; } } if (pick < 0) pick = 0; }
  fns[pick]();
}

int main(int argc, char** argv) { return hx::main_loop(argc, argv, run_case); }
