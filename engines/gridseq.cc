// gridseq — random operation histories on rational grids, every step checked
// against the independent lattice model (ref/refgrid.hh: own Hermite normal
// form + exact rational linear algebra).
//
// Monitors (key prefix = property):
//   C05.dd.*   congruences()/minimized_congruences()/grid_generators()/
//              minimized_grid_generators() (each through its own copy) denote
//              one set; OK(); observers are pure.
//   C05.q.*    every query answers what that set dictates.
//   C05.op.*   every operator yields exactly the documented set.
//   C13.grid.* bystanders / const arguments / copies keep their value;
//              x.op(x) equals x.op(copy); self-assignment / self-swap.
//   C15.grid.* ascii_dump/ascii_load round trip in every lazy state and
//              lock-step continuation of the loaded twin.
// Profiles: default | dd | ops | alias | ascii (operation mix only) and
//           selftest (reference model against brute force, no PPL results).
// The second translation unit gridseq__selftest.cc holds the self-test.
#include "pplx.hh"
#include "refgrid.hh"
#include <functional>
#include <memory>

using namespace pplx;
using hx::violation; using hx::tr; using hx::checked;
using ref::Lattice; using ref::Cg; using ref::ValSet; using ref::AffMap;

void gridseq_selftest_case();   // gridseq__selftest.cc

// ---------- printing ----------
static std::string showq(const Q& q) { std::ostringstream o; o << q; return o.str(); }
static std::string show(const Lattice& g0) {
  Lattice g = g0; ref::canonicalize(g);
  std::ostringstream o; o << "[n=" << g.n;
  if (g.empty) { o << " empty]"; return o.str(); }
  o << " p=" << pplx::show(g.p);
  for (size_t i = 0; i < g.params.size(); ++i) o << " q" << pplx::show(g.params[i]);
  for (size_t i = 0; i < g.lines.size(); ++i) o << " l" << pplx::show(g.lines[i]);
  o << "]"; return o.str();
}
static std::string show(const Cg& c) { std::ostringstream o; o << pplx::show(c.a) << ".x == " << c.b << " (mod " << c.m << ")"; return o.str(); }
static std::string show(const std::vector<Cg>& c) { std::ostringstream o; o << "{"; for (size_t i = 0; i < c.size(); ++i) o << (i ? "; " : "") << show(c[i]); o << "}"; return o.str(); }

// ---------- PPL -> reference model ----------
static Cg conv(const Congruence& c, int n) {
  Cg r; r.a.assign(n, Q(0));
  for (int i = 0; i < n && i < (int) c.space_dimension(); ++i) r.a[i] = ref::toQ(c.coefficient(Variable(i)));
  r.b = -ref::toQ(c.inhomogeneous_term()); r.m = ref::toQ(c.modulus());
  return r;
}
static std::vector<Cg> conv(const Congruence_System& cs, int n) {
  std::vector<Cg> v;
  for (Congruence_System::const_iterator i = cs.begin(), e = cs.end(); i != e; ++i) v.push_back(conv(*i, n));
  return v;
}
struct RGen { char kind; Vec v; bool nonunit; };   // 'p' point, 'q' parameter, 'l' line
static RGen conv(const Grid_Generator& g, int n) {
  RGen r; r.kind = g.is_line() ? 'l' : g.is_parameter() ? 'q' : 'p'; r.v.assign(n, Q(0)); r.nonunit = false;
  Q d = 1; if (!g.is_line()) { d = ref::toQ(g.divisor()); r.nonunit = (d != 1); }
  for (int k = 0; k < n && k < (int) g.space_dimension(); ++k) { r.v[k] = ref::toQ(g.coefficient(Variable(k))) / d; r.v[k].canonicalize(); }
  return r;
}
static std::vector<RGen> conv(const Grid_Generator_System& gs, int n) {
  std::vector<RGen> v;
  for (Grid_Generator_System::const_iterator i = gs.begin(), e = gs.end(); i != e; ++i) v.push_back(conv(*i, n));
  return v;
}
static Lattice lattice_of(const std::vector<RGen>& gs, int n) {
  Lattice g = ref::lat_empty(n);
  const Vec* first = 0;
  for (size_t i = 0; i < gs.size(); ++i) if (gs[i].kind == 'p') { first = &gs[i].v; break; }
  if (!first) return g;
  g.empty = false; g.p = *first;
  for (size_t i = 0; i < gs.size(); ++i) {
    if (gs[i].kind == 'l') g.lines.push_back(gs[i].v);
    else if (gs[i].kind == 'q') g.params.push_back(gs[i].v);
    else if (&gs[i].v != first) { Vec q(n); for (int d = 0; d < n; ++d) q[d] = gs[i].v[d] - (*first)[d]; g.params.push_back(q); }
  }
  return g;
}
static void add_gen(Lattice& L, const RGen& g) {   // L non-empty
  if (g.kind == 'l') L.lines.push_back(g.v);
  else if (g.kind == 'q') L.params.push_back(g.v);
  else { Vec q(L.n); for (int d = 0; d < L.n; ++d) q[d] = g.v[d] - L.p[d]; L.params.push_back(q); }
}

static std::string status_line(const Grid& g) {
  std::ostringstream o; g.ascii_dump(o); std::string s = o.str();
  size_t a = s.find('\n'); size_t b = s.find('\n', a + 1);
  std::string w = s.substr(a + 1, b - a - 1);
  // keep the six meaningful flags: ZE EM  CM GM  CS GS
  std::string out; int fields = 0;
  std::istringstream in(w); std::string f; while (in >> f && fields < 6) { out += (fields ? " " : "") + f; ++fields; }
  return out;
}
static std::string dump(const Grid& g) { std::ostringstream o; g.ascii_dump(o); return o.str(); }

// cheap observation (generators of a copy)
static Lattice obs(const Grid& g) { Grid c(g); int n = g.space_dimension(); return lattice_of(conv(c.grid_generators(), n), n); }

// ---------- shadows ----------
struct Shadow {
  Lattice L;                 // verified value (generator form)
  std::vector<Cg> C;         // PPL-reported congruences (verified to denote L)
  std::vector<RGen> G;       // PPL-reported generators
  bool nonunit;              // some reported point/parameter (plain or minimized system) has a divisor != 1
  bool marked;               // the object carries the 'marked empty' flag
  Shadow() : nonunit(false), marked(false) {}
};
static std::string cls_of(const Shadow& s) { return s.L.n == 0 ? "dim0" : s.L.empty ? (s.marked ? "empty-marked" : "empty-unmarked") : s.nonunit ? "point-divisor!=1" : "unit-divisors"; }
static std::string cls_of(const Shadow& a, const Shadow& b) {
  if (a.L.n == 0) return "dim0";
  if (a.L.empty || b.L.empty) return std::string("empty-operand") + (((a.L.empty && !a.marked) || (b.L.empty && !b.marked)) ? ",unmarked" : "") + ((a.nonunit || b.nonunit) ? ",point-divisor!=1" : "");
  return (a.nonunit || b.nonunit) ? "point-divisor!=1" : "unit-divisors";
}
static bool nontrivial(const Lattice& L) { return !L.empty && !ref::is_universe(L); }
static std::string shape_of(const Lattice& L0) {
  if (L0.empty) return "empty";
  Lattice L = L0; ref::canonicalize(L);
  if ((int) L.lines.size() == L.n) return "universe";
  std::ostringstream o; o << "q" << L.params.size() << "l" << L.lines.size();
  return o.str();
}

// generated sample points of a lattice: p, p+q_i, p-2q_i, p + 5/7 l_j
static std::vector<Vec> gen_points(const Lattice& L) {
  std::vector<Vec> pts; if (L.empty) return pts;
  pts.push_back(L.p);
  for (size_t i = 0; i < L.params.size(); ++i) { Vec x = L.p, y = L.p; for (int d = 0; d < L.n; ++d) { x[d] += L.params[i][d]; y[d] -= 2 * L.params[i][d]; } pts.push_back(x); pts.push_back(y); }
  for (size_t i = 0; i < L.lines.size(); ++i) { Vec x = L.p; for (int d = 0; d < L.n; ++d) x[d] += L.lines[i][d] * Q(5, 7); pts.push_back(x); }
  return pts;
}
// a point of X that is not in Y (X not included in Y), if one of the generated points shows it
static bool witness_not_in(const Lattice& X, const Lattice& Y, Vec& w) {
  std::vector<Vec> pts = gen_points(X);
  for (size_t i = 0; i < pts.size(); ++i) if (!ref::member(Y, pts[i])) { w = pts[i]; return true; }
  return false;
}

// ---------- C05 core: the four descriptions denote one set ----------
static bool check_dd(const Grid& g, const std::string& where, Shadow& S) {
  int n = g.space_dimension();
  Grid c1(g), c2(g), c3(g), c4(g);
  S.C = conv(c1.congruences(), n);
  std::vector<Cg> CM = conv(c2.minimized_congruences(), n);
  S.G = conv(c3.grid_generators(), n);
  std::vector<RGen> GM = conv(c4.minimized_grid_generators(), n);
  S.nonunit = false; for (size_t i = 0; i < S.G.size(); ++i) if (S.G[i].nonunit) S.nonunit = true;
  for (size_t i = 0; i < GM.size(); ++i) if (GM[i].nonunit) S.nonunit = true;
  Lattice LG = lattice_of(S.G, n);
  S.L = LG;
  checked(); hx::count("dd_checks");
  std::string st = status_line(g);
  S.marked = st.find("+EM") != std::string::npos;
  std::string cls = n == 0 ? "dim0" : LG.empty ? (S.marked ? "empty-marked" : "empty-unmarked") : S.nonunit ? "point-divisor!=1" : "unit-divisors";
  // 1. every reported generator satisfies every reported congruence (plain arithmetic)
  if (!LG.empty) for (size_t i = 0; i < S.G.size(); ++i) for (size_t k = 0; k < S.C.size(); ++k) {
    const RGen& r = S.G[i]; const Cg& c = S.C[k]; bool ok;
    if (r.kind == 'p') ok = ref::sat_cg(c, r.v);
    else { Q s = ref::dot(c.a, r.v); ok = (r.kind == 'l' || c.m == 0) ? (s == 0) : ref::is_int(Q(s / c.m)); }
    if (!ok) { violation("C05.dd.gens_not_in_cgs@" + where + ":" + cls, std::string("generator ") + r.kind + pplx::show(r.v) + " violates " + show(c) + " status " + st); return false; }
  }
  if (LG.empty && !S.G.empty()) { violation("C05.dd.gens_without_point@" + where + ":" + cls, "generator system has rows but no point; status " + st); return false; }
  // 2. converse by own HNF: the lattice of the congruences is inside the lattice of the generators
  Lattice LC = ref::from_congruences(n, S.C);
  if (!ref::included(LC, LG)) {
    Vec w; bool have = witness_not_in(LC, LG, w);
    if (!have || !ref::sat_all(S.C, w)) { violation("harness.bug.dd_witness", "cgs " + show(S.C) + " gens " + show(LG)); return false; }
    violation("C05.dd.cgs_not_in_gens@" + where + ":" + cls, "point " + pplx::show(w) + " satisfies congruences " + show(S.C) + " but is outside generators " + show(LG) + " status " + st);
    return false;
  }
  if (LG.empty && !LC.empty) { violation("harness.bug.dd_empty", "unreachable"); return false; }
  // 3. minimized views
  checked(2);
  Lattice LCM = ref::from_congruences(n, CM), LGM = lattice_of(GM, n);
  if (!ref::same(LCM, LG)) { violation("C05.dd.minimized_congruences_differ@" + where + ":" + cls, "min cgs " + show(CM) + " denote " + show(LCM) + " expected " + show(LG) + " status " + st); return false; }
  if (!ref::same(LGM, LG)) { violation("C05.dd.minimized_generators_differ@" + where + ":" + cls, "min gens denote " + show(LGM) + " expected " + show(LG) + " status " + st); return false; }
  // 4. minimal forms have the documented sizes (definitions.dox, Minimized Grid Representations)
  if (!LG.empty && n > 0) {
    Lattice c = LG; ref::canonicalize(c);
    size_t want_g = 1 + c.params.size() + c.lines.size();
    if (GM.size() != want_g) { std::ostringstream o; o << "minimized generator system has " << GM.size() << " rows, a minimal one has " << want_g << "; " << show(LG); violation("C05.dd.minimized_generators_not_minimal@" + where + ":" + cls, o.str()); return false; }
    size_t want_c = n - c.lines.size();
    if (CM.size() > want_c) { std::ostringstream o; o << "minimized congruence system has " << CM.size() << " non-trivial rows, a minimal one has " << want_c << "; " << show(CM); violation("C05.dd.minimized_congruences_not_minimal@" + where + ":" + cls, o.str()); return false; }
  }
  if (!g.OK()) { violation("C05.dd.OK@" + where + ":" + cls, "OK() false; status " + st); return false; }
  return true;
}

// result R must equal the expected lattice E
static bool expect_same(const std::string& op, const std::string& cls, const Lattice& E, const Shadow& R, const std::string& ctx) {
  checked(); hx::count("op_checks");
  if (ref::same(E, R.L)) return true;
  Vec w;
  if (!ref::included(E, R.L)) {
    if (!witness_not_in(E, R.L, w)) { violation("harness.bug.lost_witness", op); return false; }
    // independent re-validation against the PPL-reported congruences of the result
    if (ref::sat_all(R.C, w) && !R.L.empty) { violation("harness.bug.lost_witness_satisfies_result", op + " " + pplx::show(w)); return false; }
    violation("C05.op." + op + ".lost_points:" + cls, "point " + pplx::show(w) + " of the defined set " + show(E) + " is not in the result " + show(R.L) + "; " + ctx);
    return false;
  }
  if (!witness_not_in(R.L, E, w)) { violation("harness.bug.extra_witness", op); return false; }
  if (ref::sat_all(ref::to_congruences(E), w)) { violation("harness.bug.extra_witness_in_expected", op + " " + pplx::show(w)); return false; }
  violation("C05.op." + op + ".extra_points:" + cls, "result point " + pplx::show(w) + " is outside the defined set " + show(E) + "; result " + show(R.L) + "; " + ctx);
  return false;
}
// lo subseteq R subseteq hi (operators whose defined set is not a grid: smallest grid .. cylinder)
static bool expect_between(const std::string& op, const std::string& cls, const Lattice& lo, const Lattice& hi, const Shadow& R, const std::string& ctx) {
  checked(); hx::count("op_checks");
  Vec w;
  if (!ref::included(lo, R.L)) { witness_not_in(lo, R.L, w); violation("C05.op." + op + ".lost_points:" + cls, "point " + pplx::show(w) + " of " + show(lo) + " is not in the result " + show(R.L) + "; " + ctx); return false; }
  if (!ref::included(R.L, hi)) { witness_not_in(R.L, hi, w); violation("C05.op." + op + ".extra_points:" + cls, "result point " + pplx::show(w) + " is outside " + show(hi) + "; result " + show(R.L) + "; " + ctx); return false; }
  return true;
}

// ---------- random arguments ----------
static Linear_Expression rexpr(int n, int maxc = 3, int pct_zero = 35) { return pplx::rand_expr(n, maxc, pct_zero); }
static Congruence rcg(int n, int maxmod = 6) {
  Linear_Expression e = rexpr(n);
  int m = rnd(0, maxmod); if (coin(4)) m = -m;
  if (coin(20)) { Linear_Expression r = rexpr(n, 2, 60); return (e %= r) / m; }
  return (e %= 0) / m;
}
static Grid_Generator rgg(int n, bool must_point) {
  Linear_Expression e; for (int i = 0; i < n; ++i) if (coin(70)) e += (coin(95) ? rnd(-4, 4) : rnd(-60, 60)) * Variable(i);
  int k = must_point ? 0 : rnd(0, 9);
  int d = coin(85) ? rnd(1, 3) : (coin() ? -rnd(1, 4) : rnd(4, 12));
  if (k < 4 || n == 0) return grid_point(e, d);
  if (k < 8) { if (e.all_homogeneous_terms_are_zero() && coin(85)) e += Variable(rnd(0, n - 1)); return parameter(e, d); }
  if (e.all_homogeneous_terms_are_zero()) e += Variable(rnd(0, n - 1));
  return grid_line(e);
}
static Vec vec_of(const Linear_Expression& e, int n, Q& b) { Vec a; ref::conv(e, n, a, b); return a; }
static Vec vec_of(const Constraint& c, int n, Q& b) { Vec a(n); for (int i = 0; i < n && i < (int) c.space_dimension(); ++i) a[i] = ref::toQ(c.coefficient(Variable(i))); b = ref::toQ(c.inhomogeneous_term()); return a; }

// ---------- the mutator table ----------
struct Op {
  std::string name, text; bool uses_b;
  std::function<void(Grid&, const Grid&)> apply;
  std::function<void(const Shadow&, const Shadow&, const Shadow&)> verify;   // (A before, B, result)
  Op() : uses_b(false) {}
};

// smallest grid containing { x in L : h.x + hb REL 0 } for a non-trivial REL in {<,<=,>=,>}:
// L when h is not constant on L (a half-space slice of a lattice generates it), else L or empty.
static Lattice hull_halfspace(const Lattice& L, const Vec& h, const Q& hb, int rel5) {
  if (L.empty) return L;
  ValSet v = ref::values(L, h, hb);
  if (v.kind != ValSet::CONST) return L;
  bool ok = rel5 == 0 ? v.base < 0 : rel5 == 1 ? v.base <= 0 : rel5 == 2 ? v.base == 0 : rel5 == 3 ? v.base >= 0 : v.base > 0;
  return ok ? L : ref::lat_empty(L.n);
}
static Lattice cylinder(const Lattice& L, const std::vector<bool>& vars) {
  Lattice R = L; if (L.empty) return R;
  for (int i = 0; i < L.n; ++i) if (vars[i]) { Vec e(L.n); e[i] = 1; R.lines.push_back(e); }
  return R;
}

static bool make_op(Op& op, int n, const Shadow& SA, const std::string& profile) {
  const bool Aempty = SA.L.empty;
  int k = rnd(0, 99);
  std::ostringstream t;
  if (k < 12) { // congruences
    int which = rnd(0, 4);
    int cnt = (which == 0 || which == 3) ? 1 : rnd(0, 3);
    std::vector<Congruence> cv; for (int i = 0; i < cnt; ++i) cv.push_back(rcg(n));
    Congruence_System cgs; for (size_t i = 0; i < cv.size(); ++i) cgs.insert(cv[i]);
    const char* nm[5] = { "add_congruence", "add_congruences", "add_recycled_congruences", "refine_with_congruence", "refine_with_congruences" };
    op.name = nm[which]; t << "." << nm[which] << "("; for (size_t i = 0; i < cv.size(); ++i) t << (i ? ", " : "") << str(cv[i]); t << ")"; op.text = t.str();
    op.apply = [=](Grid& A, const Grid&) {
      switch (which) {
      case 0: A.add_congruence(cv[0]); break;
      case 1: A.add_congruences(cgs); break;
      case 2: { Congruence_System tmp(cgs); A.add_recycled_congruences(tmp); break; }
      case 3: A.refine_with_congruence(cv[0]); break;
      case 4: A.refine_with_congruences(cgs); break;
      }
    };
    op.verify = [=](const Shadow& A, const Shadow&, const Shadow& R) {
      Lattice E = A.L;
      if (!E.empty) { std::vector<Cg> c = ref::to_congruences(A.L); for (size_t i = 0; i < cv.size(); ++i) c.push_back(conv(cv[i], n)); E = ref::from_congruences(n, c); }
      expect_same(op.name, cls_of(A), E, R, "receiver " + show(A.L));
    };
    return true;
  }
  if (k < 20) { // constraints (equalities; trivial inequalities are accepted by add_, any inequality ignored by refine_)
    int which = rnd(0, 4);
    int cnt = (which == 0 || which == 3) ? 1 : rnd(0, 3);
    bool refine = which >= 3;
    std::vector<Constraint> cv;
    for (int i = 0; i < cnt; ++i) {
      int kind = rnd(0, 9);
      if (kind < 7) cv.push_back(rexpr(n) == 0);
      else if (kind < 9) { int c0 = rnd(-2, 2); cv.push_back(coin() ? (Linear_Expression(c0) >= 0) : (Linear_Expression(c0) > 0)); }
      else if (refine) cv.push_back(coin() ? (rexpr(n) >= 0) : (rexpr(n) > 0));
      else cv.push_back(rexpr(n) == 0);
    }
    Constraint_System cs; for (size_t i = 0; i < cv.size(); ++i) cs.insert(cv[i]);
    const char* nm[5] = { "add_constraint", "add_constraints", "add_recycled_constraints", "refine_with_constraint", "refine_with_constraints" };
    op.name = nm[which]; t << "." << nm[which] << "("; for (size_t i = 0; i < cv.size(); ++i) t << (i ? ", " : "") << str(cv[i]); t << ")"; op.text = t.str();
    op.apply = [=](Grid& A, const Grid&) {
      switch (which) {
      case 0: A.add_constraint(cv[0]); break;
      case 1: A.add_constraints(cs); break;
      case 2: { Constraint_System tmp(cs); A.add_recycled_constraints(tmp); break; }
      case 3: A.refine_with_constraint(cv[0]); break;
      case 4: A.refine_with_constraints(cs); break;
      }
    };
    op.verify = [=](const Shadow& A, const Shadow&, const Shadow& R) {
      // exact part: equalities and trivial (constant) inequalities; lower bound additionally honours nothing else
      Lattice E = A.L; bool nontrivial_ineq = false;
      if (!E.empty) {
        std::vector<Cg> c = ref::to_congruences(A.L);
        for (size_t i = 0; i < cv.size(); ++i) {
          if (cv[i].is_equality()) { c.push_back(conv(Congruence(cv[i]), n)); continue; }
          if (cv[i].is_inconsistent()) { Cg f; f.a.assign(n, Q(0)); f.b = 1; f.m = 0; c.push_back(f); continue; }
          if (!cv[i].is_tautological()) nontrivial_ineq = true;
        }
        E = ref::from_congruences(n, c);
      }
      if (!nontrivial_ineq) { expect_same(op.name, cls_of(A), E, R, "receiver " + show(A.L)); return; }
      // refine_ with a proper inequality: "ignored"; anything between (E n halfspaces) and E is a refinement
      Lattice lo = E;
      for (size_t i = 0; i < cv.size() && !lo.empty; ++i) if (!cv[i].is_equality() && !cv[i].is_tautological() && !cv[i].is_inconsistent()) { Q b; Vec a = vec_of(cv[i], n, b); lo = hull_halfspace(lo, a, b, cv[i].is_strict_inequality() ? 4 : 3); }
      expect_between(op.name, cls_of(A), lo, E, R, "receiver " + show(A.L));
    };
    return true;
  }
  if (k < 29) { // generators
    int which = rnd(0, 2);
    int cnt = which == 0 ? 1 : rnd(0, 3);
    std::vector<Grid_Generator> gv; bool have_point = !Aempty;
    for (int i = 0; i < cnt; ++i) { Grid_Generator g = rgg(n, !have_point && (which == 0 || coin(70))); if (g.is_point()) have_point = true; gv.push_back(g); }
    // an empty receiver needs a point among the added generators (else std::invalid_argument is documented)
    bool expect_throw = false;
    // (a generator system silently drops zero parameters: they do not count as rows)
    if (Aempty && !gv.empty()) { bool pt = false; size_t rows = 0; for (size_t i = 0; i < gv.size(); ++i) { if (gv[i].is_point()) pt = true; if (which == 0 || !(gv[i].is_parameter() && gv[i].all_homogeneous_terms_are_zero())) ++rows; } expect_throw = !pt && rows > 0; }
    Grid_Generator_System gs; for (size_t i = 0; i < gv.size(); ++i) gs.insert(gv[i]);
    const char* nm[3] = { "add_grid_generator", "add_grid_generators", "add_recycled_grid_generators" };
    op.name = nm[which]; t << "." << nm[which] << "("; for (size_t i = 0; i < gv.size(); ++i) t << (i ? ", " : "") << str(gv[i]); t << ")"; op.text = t.str();
    std::shared_ptr<int> threw(new int(0));
    op.apply = [=](Grid& A, const Grid&) {
      try {
        if (which == 0) A.add_grid_generator(gv[0]); else if (which == 1) A.add_grid_generators(gs); else { Grid_Generator_System tmp(gs); A.add_recycled_grid_generators(tmp); }
      } catch (const std::invalid_argument&) { if (!expect_throw) throw; *threw = 1; }
    };
    op.verify = [=](const Shadow& A, const Shadow&, const Shadow& R) {
      if (expect_throw) {
        checked();
        if (!*threw) { violation("C05.op." + op.name + ".no_exception:empty-receiver-no-point", "adding generators without a point to an empty grid did not throw std::invalid_argument"); return; }
        expect_same(op.name, "rejected-call", A.L, R, "receiver must be unchanged after the rejected call");
        return;
      }
      std::vector<RGen> rv; for (size_t i = 0; i < gv.size(); ++i) rv.push_back(conv(gv[i], n));
      Lattice E = A.L; bool nu = A.nonunit;
      for (size_t i = 0; i < rv.size(); ++i) if (rv[i].nonunit) nu = true;
      if (E.empty) { std::vector<RGen> all = rv; E = lattice_of(all, n); }
      else for (size_t i = 0; i < rv.size(); ++i) add_gen(E, rv[i]);
      expect_same(op.name, n == 0 ? "dim0" : A.L.empty ? "empty" : nu ? "point-divisor!=1" : "unit-divisors", E, R, "receiver " + show(A.L));
    };
    return true;
  }
  if (k < 35) { op.name = "intersection_assign"; op.uses_b = true; op.text = ".intersection_assign(B)";
    op.apply = [](Grid& A, const Grid& B) { A.intersection_assign(B); };
    op.verify = [=](const Shadow& A, const Shadow& B, const Shadow& R) { expect_same(op.name, cls_of(A, B), ref::intersect(A.L, B.L), R, "A " + show(A.L) + " B " + show(B.L)); };
    return true; }
  if (k < 41) { op.name = "upper_bound_assign"; op.uses_b = true; op.text = ".upper_bound_assign(B)";
    op.apply = [](Grid& A, const Grid& B) { A.upper_bound_assign(B); };
    op.verify = [=](const Shadow& A, const Shadow& B, const Shadow& R) { expect_same(op.name, cls_of(A, B), ref::join(A.L, B.L), R, "A " + show(A.L) + " B " + show(B.L)); };
    return true; }
  if (k < 46) { op.name = "upper_bound_assign_if_exact"; op.uses_b = true; op.text = ".upper_bound_assign_if_exact(B)";
    std::shared_ptr<int> res(new int(-1));
    op.apply = [=](Grid& A, const Grid& B) { *res = A.upper_bound_assign_if_exact(B) ? 1 : 0; };
    op.verify = [=](const Shadow& A, const Shadow& B, const Shadow& R) {
      Lattice J = ref::join(A.L, B.L);
      // A u B is a grid iff the smallest grid containing J \ B lies inside A
      bool err = false; Lattice D = ref::difference(J, B.L, &err);
      if (err) { violation("harness.bug.difference_model", "index computation failed"); return; }
      bool exact = ref::included(D, A.L);
      std::string cls = cls_of(A, B); checked();
      if ((*res == 1) != exact) { violation(std::string("C05.op.upper_bound_assign_if_exact.") + (exact ? "false_but_exact:" : "true_but_not_exact:") + cls, "A " + show(A.L) + " B " + show(B.L) + " join " + show(J)); return; }
      expect_same(op.name, cls, exact ? J : A.L, R, "A " + show(A.L) + " B " + show(B.L));
    };
    return true; }
  if (k < 53) { op.name = "difference_assign"; op.uses_b = true; op.text = ".difference_assign(B)";
    op.apply = [](Grid& A, const Grid& B) { A.difference_assign(B); };
    op.verify = [=](const Shadow& A, const Shadow& B, const Shadow& R) {
      bool err = false; Lattice E = ref::difference(A.L, B.L, &err);
      if (err) { violation("harness.bug.difference_model", "index computation failed"); return; }
      std::string cls = cls_of(A, B);
      if (cls == "unit-divisors" || cls == "point-divisor!=1") { Q kx = 0; Lattice C = ref::intersect(A.L, B.L); if (!C.empty && !ref::included(A.L, B.L)) kx = ref::lattice_index(A.L, C); cls += (C.empty ? ",disjoint" : ref::included(A.L, B.L) ? ",included" : kx == 0 ? ",lower-rank" : kx == 2 ? ",index2" : ",index>=3"); }
      expect_same(op.name, cls, E, R, "A " + show(A.L) + " B " + show(B.L));
    };
    return true; }
  if (k < 57) { op.name = "time_elapse_assign"; op.uses_b = true; op.text = ".time_elapse_assign(B)";
    op.apply = [](Grid& A, const Grid& B) { A.time_elapse_assign(B); };
    op.verify = [=](const Shadow& A, const Shadow& B, const Shadow& R) {
      Lattice E = ref::lat_empty(n);
      if (!A.L.empty && !B.L.empty) { E = A.L; E.params.push_back(B.L.p); E.params.insert(E.params.end(), B.L.params.begin(), B.L.params.end()); E.lines.insert(E.lines.end(), B.L.lines.begin(), B.L.lines.end()); }
      expect_same(op.name, cls_of(A, B), E, R, "A " + show(A.L) + " B " + show(B.L));
    };
    return true; }
  if (k < 60) { op.name = "simplify_using_context_assign"; op.uses_b = true; op.text = ".simplify_using_context_assign(B)";
    std::shared_ptr<int> res(new int(-1));
    op.apply = [=](Grid& A, const Grid& B) { *res = A.simplify_using_context_assign(B) ? 1 : 0; };
    op.verify = [=](const Shadow& A, const Shadow& B, const Shadow& R) {
      checked(); hx::count("op_checks"); std::string cls = cls_of(A, B);
      if (n > 0 && A.L.empty && ref::is_universe(B.L)) cls = "receiver-empty,context-universe";
      Lattice M = ref::intersect(A.L, B.L), MR = ref::intersect(R.L, B.L);
      if ((*res == 1) != !M.empty) { violation("C05.op.simplify_using_context_assign.boolean:" + cls, std::string(M.empty ? "returned true although" : "returned false although") + " the meet is " + show(M)); return; }
      if (!M.empty) {
        if (!ref::same(M, MR)) { violation("C05.op.simplify_using_context_assign.meet_changed:" + cls, "A " + show(A.L) + " B " + show(B.L) + " R " + show(R.L)); return; }
        if (!ref::included(A.L, R.L)) violation("C05.op.simplify_using_context_assign.not_enlarging:" + cls, "A " + show(A.L) + " R " + show(R.L));
      } else if (!MR.empty) violation("C05.op.simplify_using_context_assign.not_disjoint:" + cls, "meet empty but result meets the context: R " + show(R.L) + " B " + show(B.L));
    };
    return true; }
  if (n >= 1 && k < 69) { // affine image / preimage
    bool pre = coin(); int v = rnd(0, n - 1); Linear_Expression e = rexpr(n); int d = rand_den();
    op.name = pre ? "affine_preimage" : "affine_image"; t << "." << op.name << "(" << str(Variable(v)) << ", " << str(e) << ", " << d << ")"; op.text = t.str();
    op.apply = [=](Grid& A, const Grid&) { if (pre) A.affine_preimage(Variable(v), e, d); else A.affine_image(Variable(v), e, d); };
    op.verify = [=](const Shadow& A, const Shadow&, const Shadow& R) {
      Q eb; Vec ea = vec_of(e, n, eb);
      AffMap M = ref::identity_map(n); for (int j = 0; j < n; ++j) M[v][j] = ea[j] / Q(d); M[v][n] = eb / Q(d);
      Lattice E = pre ? ref::preimage(A.L, M, n) : ref::image(A.L, M);
      expect_same(op.name, cls_of(A) + (ea[v] == 0 ? ",non-invertible" : ""), E, R, "receiver " + show(A.L));
    };
    return true; }
  if (n >= 1 && k < 78) { // generalized affine image / preimage, variable form (with modulus)
    bool pre = coin(); int v = rnd(0, n - 1); Linear_Expression e = rexpr(n); int d = rand_den();
    int ri = coin(70) ? 2 : rnd(0, 4); int m = (ri == 2) ? (coin(30) ? 0 : (coin(90) ? rnd(1, 6) : -rnd(1, 6))) : 0;
    op.name = pre ? "generalized_affine_preimage" : "generalized_affine_image"; t << "." << op.name << "(" << str(Variable(v)) << ", " << REL5S[ri] << ", " << str(e) << ", " << d << ", " << m << ")"; op.text = t.str();
    op.apply = [=](Grid& A, const Grid&) { if (pre) A.generalized_affine_preimage(Variable(v), REL5[ri], e, d, m); else A.generalized_affine_image(Variable(v), REL5[ri], e, d, m); };
    op.verify = [=](const Shadow& A, const Shadow&, const Shadow& R) {
      Q eb; Vec ea = vec_of(e, n, eb); Vec lc(n); lc[v] = 1; Vec ra(n); for (int j = 0; j < n; ++j) ra[j] = ea[j] / Q(d); Q rb = eb / Q(d);
      std::string cls = cls_of(A) + (ri != 2 ? ",inequality" : m != 0 ? ",modular" : "") + (ea[v] == 0 ? ",non-invertible" : (pre && m != 0 && ref::qabs(ea[v]) != ref::qabs(Q(d))) ? ",coefficient!=denominator" : "");
      if (ri == 2) { expect_same(op.name, cls, ref::rel_image(A.L, lc, Q(0), ra, rb, Q(m), pre), R, "receiver " + show(A.L)); return; }
      // inequality: the defined set is not a grid; smallest grid containing it .. cylinder on var
      std::vector<bool> vs(n, false); vs[v] = true; Lattice hi = cylinder(A.L, vs), lo = hi;
      if (pre && ea[v] == 0) { Vec h(n); for (int j = 0; j < n; ++j) h[j] = -ra[j]; h[v] += 1; lo = cylinder(hull_halfspace(A.L, h, Q(-rb), ri), vs); }   // w_var REL e(w)/d on L, then free var
      expect_between(op.name, cls, lo, hi, R, "receiver " + show(A.L));
    };
    return true; }
  if (n >= 1 && k < 86) { // generalized affine image / preimage, lhs/rhs form (with modulus)
    bool pre = coin(); Linear_Expression l = rexpr(n, 3, 50), r = rexpr(n);
    int ri = coin(70) ? 2 : rnd(0, 4); int m = (ri == 2) ? (coin(30) ? 0 : (coin(90) ? rnd(1, 6) : -rnd(1, 6))) : 0;
    op.name = pre ? "generalized_affine_preimage_lr" : "generalized_affine_image_lr"; t << "." << op.name << "(" << str(l) << ", " << REL5S[ri] << ", " << str(r) << ", " << m << ")"; op.text = t.str();
    op.apply = [=](Grid& A, const Grid&) { if (pre) A.generalized_affine_preimage(l, REL5[ri], r, m); else A.generalized_affine_image(l, REL5[ri], r, m); };
    op.verify = [=](const Shadow& A, const Shadow&, const Shadow& R) {
      Q lb, rb; Vec la = vec_of(l, n, lb), ra = vec_of(r, n, rb);
      bool lconst = true, common = false; for (int j = 0; j < n; ++j) { if (la[j] != 0) { lconst = false; if (ra[j] != 0) common = true; } }
      std::string cls = cls_of(A) + (ri != 2 ? ",inequality" : m != 0 ? ",modular" : "") + (lconst ? ",lhs-constant" : common ? ",common-variable" : "");
      if (ri == 2) { expect_same(op.name, cls, ref::rel_image(A.L, la, lb, ra, rb, Q(m), pre), R, "receiver " + show(A.L)); return; }
      std::vector<bool> vs(n, false); for (int j = 0; j < n; ++j) if (la[j] != 0) vs[j] = true;
      Lattice hi = cylinder(A.L, vs), lo = hi;
      if (lconst) { Vec h(n); for (int j = 0; j < n; ++j) h[j] = -ra[j]; lo = hull_halfspace(A.L, h, Q(lb - rb), ri); }   // lb REL ra.v + rb, w = v
      else if (pre) {
        // { v | exists w in L: la.w + lb REL ra.v + rb, w_i = v_i off lhs }: when rhs mentions a variable of lhs the v side is free
        // enough to satisfy the relation for every w; otherwise rhs(v) = rhs(w) and the relation restricts L itself.
        if (!common) { Vec h(n); for (int j = 0; j < n; ++j) h[j] = la[j] - ra[j]; lo = cylinder(hull_halfspace(A.L, h, Q(lb - rb), ri), vs); }
      }
      expect_between(op.name, cls, lo, hi, R, "receiver " + show(A.L));
    };
    return true; }
  if (n >= 1 && k < 90) { // bounded affine image / preimage
    bool pre = coin(); int v = rnd(0, n - 1); Linear_Expression lb = rexpr(n), ub = coin(25) ? lb : rexpr(n); int d = rand_den();
    op.name = pre ? "bounded_affine_preimage" : "bounded_affine_image"; t << "." << op.name << "(" << str(Variable(v)) << ", " << str(lb) << ", " << str(ub) << ", " << d << ")"; op.text = t.str();
    op.apply = [=](Grid& A, const Grid&) { if (pre) A.bounded_affine_preimage(Variable(v), lb, ub, d); else A.bounded_affine_image(Variable(v), lb, ub, d); };
    op.verify = [=](const Shadow& A, const Shadow&, const Shadow& R) {
      Q lbb, ubb; Vec la = vec_of(lb, n, lbb), ua = vec_of(ub, n, ubb);
      std::vector<bool> vs(n, false); vs[v] = true; Lattice hi = cylinder(A.L, vs);
      // lower bound by witnesses: pairs (x, y) of the relation with the source in the argument
      std::vector<Vec> pts = gen_points(A.L); Lattice lo = ref::lat_empty(n); std::vector<Vec> found;
      for (size_t i = 0; i < pts.size(); ++i) {
        const Vec& s = pts[i];
        if (!pre) { // y_var in [lb(s)/d, ub(s)/d]
          Q lo_v = (ref::dot(la, s) + lbb) / Q(d), hi_v = (ref::dot(ua, s) + ubb) / Q(d);
          if (lo_v > hi_v) continue;
          Vec y = s; y[v] = lo_v; found.push_back(y); y[v] = hi_v; found.push_back(y); y[v] = (lo_v + hi_v) / 2; found.push_back(y);
        } else { // x with x_i = s_i (i != var) and lb(x)/d <= s_var <= ub(x)/d
          std::vector<Q> cand; cand.push_back(Q(0)); cand.push_back(Q(1)); cand.push_back(Q(-7, 2)); cand.push_back(s[v]);
          Vec x0 = s; x0[v] = 0;
          if (la[v] != 0) cand.push_back(Q((Q(d) * s[v] - ref::dot(la, x0) - lbb) / la[v]));
          if (ua[v] != 0) cand.push_back(Q((Q(d) * s[v] - ref::dot(ua, x0) - ubb) / ua[v]));
          for (size_t c = 0; c < cand.size(); ++c) { Vec x = s; x[v] = cand[c]; Q l = (ref::dot(la, x) + lbb) / Q(d), u = (ref::dot(ua, x) + ubb) / Q(d); if (l <= s[v] && s[v] <= u) found.push_back(x); }
        }
      }
      checked(); hx::count("op_checks");
      std::string cls = cls_of(A);
      for (size_t i = 0; i < found.size(); ++i) if (!ref::member(R.L, found[i])) { violation("C05.op." + op.name + ".lost_points:" + cls, "point " + pplx::show(found[i]) + " is related to a point of the argument " + show(A.L) + " but not in the result " + show(R.L)); return; }
      expect_between(op.name, cls, lo, hi, R, "receiver " + show(A.L));
    };
    return true; }
  if (n >= 1 && k < 95) { // unconstrain
    bool set = coin(); std::vector<bool> vars(n, false); Variables_Set vs;
    if (set) { for (int i = 0; i < n; ++i) if (coin(40)) { vars[i] = true; vs.insert(Variable(i)); } } else { int v = rnd(0, n - 1); vars[v] = true; vs.insert(Variable(v)); }
    op.name = set ? "unconstrain_set" : "unconstrain"; t << "." << op.name << "(" << str(vs) << ")"; op.text = t.str();
    op.apply = [=](Grid& A, const Grid&) { if (set) A.unconstrain(vs); else A.unconstrain(Variable(*vs.begin())); };
    op.verify = [=](const Shadow& A, const Shadow&, const Shadow& R) { expect_same(op.name, cls_of(A), cylinder(A.L, vars), R, "receiver " + show(A.L)); };
    return true; }
  if (k < 98) { op.name = "topological_closure_assign"; op.text = ".topological_closure_assign()";
    op.apply = [](Grid& A, const Grid&) { A.topological_closure_assign(); };
    op.verify = [=](const Shadow& A, const Shadow&, const Shadow& R) { expect_same(op.name, cls_of(A), A.L, R, "receiver " + show(A.L)); };
    return true; }
  (void) profile;
  return false;
}


// ---------- crash containment ----------
// Some defects kill the process (sanitizer report, abort).  Operations on the configurations known to
// be dangerous are first tried in a forked child: if the child dies, the death is reported as a
// violation observed on the real code and the parent does not execute the call.
#include <sys/wait.h>
static bool survives_in_child(const std::function<void()>& f, std::string& report) {
  int fd[2]; if (pipe(fd) != 0) return true;
  fflush(stdout); fflush(stderr); if (hx::st().out) fflush(hx::st().out);
  pid_t pid = fork();
  if (pid < 0) { close(fd[0]); close(fd[1]); return true; }
  if (pid == 0) {
    close(fd[0]); dup2(fd[1], 2); alarm(30);
    try { f(); } catch (...) { }
    _exit(0);
  }
  close(fd[1]);
  char buf[512]; ssize_t r; report.clear();
  while ((r = read(fd[0], buf, sizeof buf)) > 0) if (report.size() < 3000) report.append(buf, r);
  close(fd[0]);
  int st = 0; waitpid(pid, &st, 0);
  if (WIFEXITED(st) && WEXITSTATUS(st) == 0) return true;
  std::ostringstream o; if (WIFSIGNALED(st)) o << "child killed by signal " << WTERMSIG(st); else o << "child exit status " << WEXITSTATUS(st);
  size_t e = report.find("runtime error"); if (e == std::string::npos) e = report.find("ERROR: AddressSanitizer");
  std::string first = e == std::string::npos ? report.substr(0, 300) : report.substr(e, 300);
  size_t fr = report.find("#4 "); std::string frames = fr == std::string::npos ? "" : report.substr(fr, 700);
  report = o.str() + ": " + first + " ... " + frames;
  return false;
}
static bool unmarked_empty(const Grid& g, const Lattice& L) { return L.empty && status_line(g).find("-EM") != std::string::npos; }

// ---------- queries (C05.q.*) ----------
// A wrong answer of a pure query builds no state: report it and let the case go on.
static void qviol(const std::string& key, const std::string& detail) { violation(key, detail); hx::st().case_tainted = false; hx::count("soft_violations"); }
static const char* tf(bool b) { return b ? "true" : "false"; }
static std::string g_query;   // name of the last query group executed (attribution of post-query state checks)

static void run_queries(Grid& A, const Grid& B, int n, const Shadow& SA, const Shadow& SB, const std::string& pre, int ai, int bi) {
  const Lattice& LA = SA.L; const Lattice& LB = SB.L;
  const bool ne = !LA.empty;
  const std::string cls = cls_of(SA), cls2 = cls_of(SA, SB);
  const std::string ctx = " receiver " + show(LA);
  int which = rnd(0, 13);
  switch (which) {
  case 0: {
    g_query = "preds"; tr(pre + ".preds()"); hx::count("q.preds");
    Lattice c = LA; ref::canonicalize(c);
    bool e = A.is_empty(); checked(); if (e != !ne) qviol("C05.q.is_empty:" + cls, std::string("PPL ") + tf(e) + ctx);
    bool u = A.is_universe(); checked(); if (u != (ne && (int) c.lines.size() == n)) qviol("C05.q.is_universe:" + cls, std::string("PPL ") + tf(u) + ctx);
    bool d = A.is_discrete(); checked(); if (d != (!ne || c.lines.empty())) qviol("C05.q.is_discrete:" + cls, std::string("PPL ") + tf(d) + ctx);
    bool b = A.is_bounded(); checked(); if (b != (!ne || (c.lines.empty() && c.params.empty()))) qviol("C05.q.is_bounded:" + cls, std::string("PPL ") + tf(b) + ctx);
    bool t = A.is_topologically_closed(); checked(); if (!t) qviol("C05.q.is_topologically_closed:" + cls, "false" + ctx);
    break; }
  case 1: case 2: {
    g_query = "binary_preds"; tr(pre + ".binary_preds(#" + std::to_string(bi) + ")"); hx::count("q.binary");
    std::string c2 = cls2 + (ai == bi ? ",alias" : "");
    std::string cx = " A " + show(LA) + " B " + show(LB);
    bool rc = ref::included(LB, LA), rcb = ref::included(LA, LB);
    bool c = A.contains(B); checked(); if (c != rc) qviol("C05.q.contains:" + c2, std::string("PPL ") + tf(c) + cx);
    bool sc = A.strictly_contains(B); checked(); if (sc != (rc && !rcb)) qviol("C05.q.strictly_contains:" + c2, std::string("PPL ") + tf(sc) + cx);
    bool dj = A.is_disjoint_from(B); checked(); bool rd = ref::intersect(LA, LB).empty; if (dj != rd) qviol("C05.q.is_disjoint_from:" + c2, std::string("PPL ") + tf(dj) + cx);
    bool eq = (A == B); checked(); if (eq != (rc && rcb)) qviol("C05.q.equals:" + c2, std::string("PPL ") + tf(eq) + cx);
    bool nq = (A != B); checked(); if (nq == eq) qviol("C05.q.not_equals:" + c2, "operator!= agrees with operator==" + cx);
    break; }
  case 3: case 4: {
    Congruence cg = rcg(n);
    g_query = "relation_with_cg"; tr(pre + ".relation_with(" + str(cg) + ")"); hx::count("q.relation_with_cg");
    Poly_Con_Relation r = A.relation_with(cg);
    Cg rc = conv(cg, n);
    bool some, every; ref::vs_vs_modulus(ref::values(LA, rc.a, Q(-rc.b)), rc.m, some, every);
    bool included = every, disjoint = !some;
    bool b_dis = r.implies(Poly_Con_Relation::is_disjoint()), b_inc = r.implies(Poly_Con_Relation::is_included()), b_str = r.implies(Poly_Con_Relation::strictly_intersects()), b_sat = r.implies(Poly_Con_Relation::saturates());
    checked();
    std::string c3 = cls + (cg.is_equality() ? ",equality" : "");
    std::string d = str(cg) + " -> " + str(r) + " expected " + (disjoint ? "disjoint " : "") + (included ? "included " : "") + (!disjoint && !included ? "strictly_intersects" : "") + ctx;
    if (b_dis != disjoint) qviol("C05.q.relation_with_cg.is_disjoint:" + c3, d);
    else if (b_inc != included) qviol("C05.q.relation_with_cg.is_included:" + c3, d);
    else if (b_str != (!disjoint && !included)) qviol("C05.q.relation_with_cg.strictly_intersects:" + c3, d);
    else if (ne && cg.is_equality() && b_sat != included) qviol("C05.q.relation_with_cg.saturates:" + c3, d);
    break; }
  case 5: {
    int kind = rnd(0, 9);
    Linear_Expression e = rexpr(n);
    Constraint c = kind < 3 ? (e == 0) : kind < 7 ? (e >= 0) : (e > 0);
    g_query = std::string("relation_with_c") + (c.is_equality() ? "" : c.is_strict_inequality() ? ".strict" : ".nonstrict"); tr(pre + ".relation_with(" + str(c) + ")"); hx::count("q.relation_with_c");
    Poly_Con_Relation r = A.relation_with(c);
    Q b; Vec a = vec_of(e, n, b);
    ValSet v = ref::values(LA, a, b);
    bool some, every;
    if (c.is_equality()) ref::vs_vs_modulus(v, Q(0), some, every);
    else if (v.kind == ValSet::NONE) { some = false; every = true; }
    else if (v.kind == ValSet::CONST) { some = every = c.is_strict_inequality() ? v.base > 0 : v.base >= 0; }
    else { some = true; every = false; }   // values unbounded in both directions
    bool included = every, disjoint = !some;
    bool b_dis = r.implies(Poly_Con_Relation::is_disjoint()), b_inc = r.implies(Poly_Con_Relation::is_included()), b_str = r.implies(Poly_Con_Relation::strictly_intersects()), b_sat = r.implies(Poly_Con_Relation::saturates());
    checked();
    std::string c3 = cls + (c.is_equality() ? ",equality" : c.is_strict_inequality() ? ",strict" : ",nonstrict") + (((int) c.space_dimension() < n && !c.is_equality()) ? ",constraint-dim<space-dim" : "");
    std::string d = str(c) + " -> " + str(r) + " expected " + (disjoint ? "disjoint " : "") + (included ? "included " : "") + (!disjoint && !included ? "strictly_intersects" : "") + ctx;
    if (b_dis != disjoint) qviol("C05.q.relation_with_c.is_disjoint:" + c3, d);
    else if (b_inc != included) qviol("C05.q.relation_with_c.is_included:" + c3, d);
    else if (b_str != (!disjoint && !included)) qviol("C05.q.relation_with_c.strictly_intersects:" + c3, d);
    else if (ne && c.is_equality() && b_sat != included) qviol("C05.q.relation_with_c.saturates:" + c3, d);
    break; }
  case 6: {
    bool poly = coin(35);
    bool subs; std::string gs; Poly_Gen_Relation r = Poly_Gen_Relation::nothing();
    if (!poly) {
      Grid_Generator g = rgg(n, false);
      // bias towards generators that are subsumed
      if (ne && n > 0 && coin(50)) { Lattice c = LA; ref::canonicalize(c); Vec x = c.p; bool par = coin(35) && !c.params.empty(); if (par) x = c.params[rnd(0, (int) c.params.size() - 1)]; else for (size_t i = 0; i < c.params.size(); ++i) { int m = rnd(-2, 2); for (int d = 0; d < n; ++d) x[d] += m * c.params[i][d]; }
        mpz_class l = 1; for (int d = 0; d < n; ++d) { mpz_class den = x[d].get_den(); mpz_lcm(l.get_mpz_t(), l.get_mpz_t(), den.get_mpz_t()); }
        Linear_Expression e; for (int d = 0; d < n; ++d) { Q v = x[d] * Q(l); e += Coefficient(v.get_num()) * Variable(d); }
        int sc = rnd(1, 2); e *= sc; g = par ? parameter(e, Coefficient(l * sc)) : grid_point(e, Coefficient(l * sc)); }
      g_query = "relation_with_gg"; gs = str(g); tr(pre + ".relation_with(" + gs + ")"); hx::count("q.relation_with_gg");
      r = A.relation_with(g);
      RGen rg = conv(g, n);
      subs = ne && (rg.kind == 'p' ? ref::member(LA, rg.v) : rg.kind == 'q' ? [&]{ Lattice c = LA; ref::canonicalize(c); return ref::dir_member(c, rg.v); }() : ref::line_member(LA, rg.v));
    } else {
      Generator g = rand_gen(n, true, false);
      g_query = "relation_with_g"; gs = str(g); tr(pre + ".relation_with(" + gs + ")"); hx::count("q.relation_with_g");
      r = A.relation_with(g);
      ref::Gen rg = ref::conv(g, n);
      subs = ne && ((rg.kind == ref::Gen::POINT || rg.kind == ref::Gen::CLOSURE_POINT) ? ref::member(LA, rg.v) : ref::line_member(LA, rg.v));
    }
    checked();
    if (r.implies(Poly_Gen_Relation::subsumes()) != subs) qviol(std::string("C05.q.relation_with_g") + (poly ? ".poly:" : ":") + cls, gs + (subs ? " is subsumed, PPL says nothing;" : " is not subsumed, PPL says subsumes;") + ctx);
    break; }
  case 7: case 8: {
    Linear_Expression e = rexpr(n, 3, 40); bool mx = (which == 7);
    g_query = "max_min"; tr(pre + (mx ? ".maximize(" : ".minimize(") + str(e) + ")"); hx::count("q.max_min");
    Coefficient num = 12345, den = 6789; bool att = false; Generator g(point());
    bool ok = mx ? A.maximize(e, num, den, att, g) : A.minimize(e, num, den, att, g);
    Coefficient num2 = 12345, den2 = 6789; bool att2 = false; bool ok2 = mx ? A.maximize(e, num2, den2, att2) : A.minimize(e, num2, den2, att2);
    bool bf = mx ? A.bounds_from_above(e) : A.bounds_from_below(e);
    Q b; Vec a = vec_of(e, n, b); ValSet v = ref::values(LA, a, b);
    bool rb = (v.kind == ValSet::CONST);
    std::string c3 = cls + (b != 0 ? ",inhomogeneous" : "");
    std::string nm = mx ? "maximize" : "minimize";
    checked(3);
    if (ne && bf != rb) { qviol("C05.q.bounds_from:" + cls, std::string("PPL ") + tf(bf) + " for " + str(e) + ctx); break; }
    if (ok != rb) { qviol("C05.q." + nm + ".status:" + c3, std::string("PPL ") + tf(ok) + " for " + str(e) + ctx); break; }
    if (ok2 != ok) { qviol("C05.q." + nm + ".overloads_disagree:" + c3, "status"); break; }
    if (!ok) { if (num != 12345 || den != 6789 || num2 != 12345 || den2 != 6789) qviol("C05.q." + nm + ".outputs_touched:" + c3, "outputs modified although false was returned"); break; }
    if (den == 0) { qviol("C05.q." + nm + ".value:" + c3, "zero denominator"); break; }
    Q val = ref::toQ(num) / ref::toQ(den); val.canonicalize();
    if (val != v.base) { qviol("C05.q." + nm + ".value:" + c3, "PPL " + showq(val) + " expected " + showq(v.base) + " for " + str(e) + ctx); break; }
    if (den2 == 0 || ref::toQ(num2) / ref::toQ(den2) != val || att2 != att) { qviol("C05.q." + nm + ".overloads_disagree:" + c3, "value/flag"); break; }
    if (!att) { qviol("C05.q." + nm + ".attained_flag:" + c3, "extremum reported as not attained"); break; }
    ref::Gen rg = ref::conv(g, n);
    if (!g.is_point() || !ref::member(LA, rg.v)) { qviol("C05.q." + nm + ".witness_member:" + c3, "witness " + str(g) + " is not a point of the grid;" + ctx); break; }
    if (ref::dot(a, rg.v) + b != val) qviol("C05.q." + nm + ".witness_value:" + c3, "witness " + str(g) + " does not evaluate to " + showq(val));
    break; }
  case 9: {
    g_query = "affine_dimension"; tr(pre + ".affine_dimension()"); hx::count("q.affine_dimension");
    int ad = A.affine_dimension(); int rad = ref::affine_dim(LA);
    checked(); if (ad != rad) { std::ostringstream o; o << "PPL " << ad << " expected " << rad << ctx; qviol("C05.q.affine_dimension:" + cls, o.str()); }
    if ((int) A.space_dimension() != n) qviol("C05.q.space_dimension:" + cls, "wrong space dimension");
    break; }
  case 10: {
    if (n == 0) return;
    g_query = "constrains"; int v = rnd(0, n - 1); tr(pre + ".constrains(" + str(Variable(v)) + ")"); hx::count("q.constrains");
    bool c = A.constrains(Variable(v));
    if (!ne) return;   // the documentation is silent about empty grids
    Vec e(n); e[v] = 1; bool rc = !ref::line_member(LA, e);
    bool axis = false; for (size_t i = 0; i < SA.G.size(); ++i) if (SA.G[i].kind == 'l') { bool only = SA.G[i].v[v] != 0; for (int d = 0; d < n; ++d) if (d != v && SA.G[i].v[d] != 0) only = false; if (only) axis = true; }
    checked(); if (c != rc) qviol("C05.q.constrains:" + cls + (axis ? ",axis-line-generator" : ""), std::string("PPL ") + tf(c) + " for " + str(Variable(v)) + ctx);
    break; }
  case 11: case 12: {
    Linear_Expression e = rexpr(n, 3, 40); g_query = "frequency"; tr(pre + ".frequency(" + str(e) + ")"); hx::count("q.frequency");
    Coefficient fn = 777, fd = 778, vn = 779, vd = 780; bool f = A.frequency(e, fn, fd, vn, vd);
    Q b; Vec a = vec_of(e, n, b); ValSet v = ref::values(LA, a, b);
    bool defined = (v.kind == ValSet::CONST || v.kind == ValSet::PERIODIC);
    std::string c3 = cls + (b != 0 ? ",inhomogeneous" : "");
    checked();
    if (f != defined) { qviol("C05.q.frequency.status:" + c3, std::string("PPL ") + tf(f) + " for " + str(e) + ctx); break; }
    if (!f) { if (fn != 777 || fd != 778 || vn != 779 || vd != 780) qviol("C05.q.frequency.outputs_touched:" + c3, "outputs modified although false was returned"); break; }
    if (fd == 0 || vd == 0) { qviol("C05.q.frequency.value:" + c3, "zero denominator"); break; }
    Q fr = ref::toQ(fn) / ref::toQ(fd), val = ref::toQ(vn) / ref::toQ(vd); fr.canonicalize(); val.canonicalize();
    Q rf = v.kind == ValSet::CONST ? Q(0) : v.step;
    if (fr != rf) { qviol("C05.q.frequency.frequency:" + c3, "PPL " + showq(fr) + " expected " + showq(rf) + " for " + str(e) + ctx); break; }
    if (!ref::vs_contains(v, val)) { qviol("C05.q.frequency.value:" + c3 + ",not-a-value", "PPL value " + showq(val) + " is not taken by " + str(e) + " on the grid;" + ctx); break; }
    if (v.kind == ValSet::PERIODIC) { // closest to zero: |val| <= step/2
      if (ref::qabs(val) * 2 > v.step) qviol("C05.q.frequency.value:" + c3 + ",not-closest-to-zero", "PPL value " + showq(val) + " frequency " + showq(v.step) + " for " + str(e) + ctx);
    }
    break; }
  case 13: { // descriptions as constraints: equalities satisfied by the grid, same affine dimension
    g_query = "constraints"; tr(pre + ".constraints()"); hx::count("q.constraints");
    Grid c1(A); Constraint_System cs = coin() ? c1.constraints() : c1.minimized_constraints();
    checked();
    if (!ne) break;
    std::vector<Vec> rows; std::vector<Vec> pts = gen_points(LA);
    for (Constraint_System::const_iterator i = cs.begin(), e = cs.end(); i != e; ++i) {
      if (!i->is_equality()) { if (!i->is_tautological()) { qviol("C05.q.constraints:" + cls, "non-equality " + str(*i) + " reported for a non-empty grid"); return; } continue; }
      Q b; Vec a = vec_of(*i, n, b);
      for (size_t k = 0; k < pts.size(); ++k) if (ref::dot(a, pts[k]) + b != 0) { qviol("C05.q.constraints:" + cls, "equality " + str(*i) + " is violated by grid point " + pplx::show(pts[k]) + ctx); return; }
      rows.push_back(a);
    }
    if (n - ref::rank_of(rows, n) != ref::affine_dim(LA) && n > 0) qviol("C05.q.constraints.affine_dimension:" + cls, "constraints " + str(cs) + " do not have the affine dimension of the grid;" + ctx);
    break; }
  }
}

// ---------- dimension-changing operators (on a scratch copy) ----------
static void dims_op(const Grid& A, const Grid& B, int n, const Shadow& SA, const Shadow& SB, const std::string& pre) {
  Grid T(A);
  const Lattice& LA = SA.L; const std::string cls = cls_of(SA);
  int which = rnd(0, 7);
  Shadow R; std::ostringstream t; t << pre;
  const std::string ctx = "receiver " + show(LA);
  if (which == 0) {
    int m = rnd(0, 2); bool proj = coin();
    t << (proj ? ".tmp.add_space_dimensions_and_project(" : ".tmp.add_space_dimensions_and_embed(") << m << ")"; tr(t.str()); hx::count(proj ? "op.add_space_dimensions_and_project" : "op.add_space_dimensions_and_embed");
    if (proj) T.add_space_dimensions_and_project(m); else T.add_space_dimensions_and_embed(m);
    if ((int) T.space_dimension() != n + m) { violation("C05.op.add_space_dimensions.dimension:" + cls, "wrong space dimension"); return; }
    if (!check_dd(T, "add_dims", R)) return;
    AffMap M(n + m, Vec(n + 1)); for (int i = 0; i < n; ++i) M[i][i] = 1;
    Lattice E = ref::image(LA, M);
    if (!proj && !E.empty) for (int i = n; i < n + m; ++i) { Vec e(n + m); e[i] = 1; E.lines.push_back(e); }
    expect_same(proj ? "add_space_dimensions_and_project" : "add_space_dimensions_and_embed", cls, E, R, ctx);
  } else if (which == 1 || which == 2) {
    std::vector<int> keep; Variables_Set vs; std::string nm;
    if (which == 1) { for (int i = 0; i < n; ++i) { if (coin(40)) vs.insert(Variable(i)); else keep.push_back(i); } nm = "remove_space_dimensions"; t << ".tmp.remove_space_dimensions(" << str(vs) << ")"; }
    else { int k = rnd(0, n); for (int i = 0; i < k; ++i) keep.push_back(i); nm = "remove_higher_space_dimensions"; t << ".tmp.remove_higher_space_dimensions(" << k << ")"; }
    tr(t.str()); hx::count("op." + nm);
    if (which == 2 && status_line(T).find("+GM") != std::string::npos && !LA.empty && keep.size() > 0 && (int) keep.size() < n) {
      // known-dangerous configuration (minimized generators): try it in a child first
      hx::count("preflight"); std::string rep; size_t kk = keep.size();
      if (!survives_in_child([&]() { T.remove_higher_space_dimensions(kk); (void) T.OK(); Grid c(T); (void) c.minimized_grid_generators(); (void) c.minimized_congruences(); }, rep)) {
        violation("C05.crash.remove_higher_space_dimensions:generators-minimized", rep + " | " + ctx); return; }
    }
    if (which == 1) T.remove_space_dimensions(vs); else T.remove_higher_space_dimensions(keep.size());
    if (T.space_dimension() != keep.size()) { violation("C05.op." + nm + ".dimension:" + cls, "wrong space dimension"); return; }
    if (!check_dd(T, "remove_dims", R)) return;
    AffMap M(keep.size(), Vec(n + 1)); for (size_t i = 0; i < keep.size(); ++i) M[i][keep[i]] = 1;
    expect_same(nm, cls, ref::image(LA, M), R, ctx);
  } else if (which == 3 && n >= 1) {
    int i = rnd(0, n - 1), m = rnd(0, 2);
    t << ".tmp.expand_space_dimension(" << str(Variable(i)) << "," << m << ")"; tr(t.str()); hx::count("op.expand_space_dimension");
    T.expand_space_dimension(Variable(i), m);
    if ((int) T.space_dimension() != n + m) { violation("C05.op.expand_space_dimension.dimension:" + cls, "wrong space dimension"); return; }
    if (!check_dd(T, "expand", R)) return;
    // { (x, y_1..y_m) | x in L and x[i := y_j] in L for every j }
    Lattice E = ref::lat_empty(n + m);
    if (!LA.empty) {
      std::vector<Cg> c = ref::to_congruences(LA), sys;
      for (size_t k = 0; k < c.size(); ++k) for (int j = -1; j < m; ++j) { Cg g; g.a.assign(n + m, Q(0)); for (int d = 0; d < n; ++d) g.a[(d == i && j >= 0) ? n + j : d] = c[k].a[d]; g.b = c[k].b; g.m = c[k].m; sys.push_back(g); }
      E = ref::from_congruences(n + m, sys);
    }
    expect_same("expand_space_dimension", cls, E, R, ctx);
  } else if (which == 4 && n >= 2) {
    int i = rnd(0, n - 1); std::vector<int> J; Variables_Set vs; for (int j = 0; j < n; ++j) if (j != i && coin(60)) { J.push_back(j); vs.insert(Variable(j)); }
    t << ".tmp.fold_space_dimensions(" << str(vs) << "," << str(Variable(i)) << ")"; tr(t.str()); hx::count("op.fold_space_dimensions");
    T.fold_space_dimensions(vs, Variable(i)); int k = n - J.size();
    if ((int) T.space_dimension() != k) { violation("C05.op.fold_space_dimensions.dimension:" + cls, "wrong space dimension"); return; }
    if (!check_dd(T, "fold", R)) return;
    std::vector<int> keepidx; for (int j = 0; j < n; ++j) if (std::find(J.begin(), J.end(), j) == J.end()) keepidx.push_back(j);
    std::vector<int> srcs = J; srcs.push_back(i);
    Lattice E = ref::lat_empty(k);
    for (size_t s = 0; s < srcs.size(); ++s) { AffMap M(k, Vec(n + 1)); for (int j = 0; j < k; ++j) M[j][keepidx[j] == i ? srcs[s] : keepidx[j]] = 1; E = ref::join(E, ref::image(LA, M)); }
    expect_same("fold_space_dimensions", cls, E, R, ctx);
  } else if (which == 5) {
    t << ".tmp.concatenate_assign(B)"; tr(t.str()); hx::count("op.concatenate_assign");
    T.concatenate_assign(B);
    if ((int) T.space_dimension() != 2 * n) { violation("C05.op.concatenate_assign.dimension:" + cls, "wrong space dimension"); return; }
    if (!check_dd(T, "concatenate", R)) return;
    const Lattice& LB = SB.L; Lattice E = ref::lat_empty(2 * n);
    if (!LA.empty && !LB.empty) {
      E.empty = false; for (int d = 0; d < n; ++d) { E.p[d] = LA.p[d]; E.p[n + d] = LB.p[d]; }
      auto lift = [&](const Vec& v, int off) { Vec w(2 * n); for (int d = 0; d < n; ++d) w[off + d] = v[d]; return w; };
      for (size_t q = 0; q < LA.params.size(); ++q) E.params.push_back(lift(LA.params[q], 0));
      for (size_t q = 0; q < LB.params.size(); ++q) E.params.push_back(lift(LB.params[q], n));
      for (size_t q = 0; q < LA.lines.size(); ++q) E.lines.push_back(lift(LA.lines[q], 0));
      for (size_t q = 0; q < LB.lines.size(); ++q) E.lines.push_back(lift(LB.lines[q], n));
    }
    expect_same("concatenate_assign", cls_of(SA, SB), E, R, ctx + " B " + show(LB));
  } else if (which == 6 && n >= 1) {
    Partial_Function pf; std::vector<int> img(n, -1); std::vector<int> order; for (int j = 0; j < n; ++j) order.push_back(j); std::shuffle(order.begin(), order.end(), hx::rng());
    int k = rnd(0, n); for (int j = 0; j < k; ++j) img[order[j]] = j;
    std::ostringstream ms; for (int j = 0; j < n; ++j) if (img[j] >= 0) { pf.insert(j, img[j]); ms << j << "->" << img[j] << " "; }
    t << ".tmp.map_space_dimensions(" << ms.str() << ")"; tr(t.str()); hx::count("op.map_space_dimensions");
    T.map_space_dimensions(pf);
    if ((int) T.space_dimension() != k) { violation("C05.op.map_space_dimensions.dimension:" + cls, "wrong space dimension"); return; }
    if (!check_dd(T, "map_dims", R)) return;
    AffMap M(k, Vec(n + 1)); for (int j = 0; j < n; ++j) if (img[j] >= 0) M[img[j]][j] = 1;
    expect_same("map_space_dimensions", cls, ref::image(LA, M), R, ctx);
  } else if (which == 7) { // constructors from the object's own descriptions
    int how = rnd(0, 4);
    const char* nm[5] = { "Grid(cgs)", "Grid(cgs,recycle)", "Grid(ggs)", "Grid(ggs,recycle)", "Grid(cs)" };
    tr(pre + ".rebuild:" + nm[how]); hx::count(std::string("op.construct.") + nm[how]);
    Grid c(A); std::unique_ptr<Grid> Rg;
    if (how <= 1) { Congruence_System cgs = coin() ? c.congruences() : c.minimized_congruences(); if (how == 0) Rg.reset(new Grid(cgs)); else Rg.reset(new Grid(cgs, Recycle_Input())); if ((int) Rg->space_dimension() < n) Rg->add_space_dimensions_and_embed(n - Rg->space_dimension()); }
    else if (how <= 3) { Grid_Generator_System gs = coin() ? c.grid_generators() : c.minimized_grid_generators(); if (how == 2) Rg.reset(new Grid(gs)); else Rg.reset(new Grid(gs, Recycle_Input())); if ((int) Rg->space_dimension() < n) { if (Rg->is_empty()) Rg.reset(new Grid(n, EMPTY)); else Rg->add_space_dimensions_and_project(n - Rg->space_dimension()); } }
    else { Constraint_System cs = c.constraints(); Rg.reset(new Grid(cs)); if ((int) Rg->space_dimension() < n) Rg->add_space_dimensions_and_embed(n - Rg->space_dimension()); }
    if (!check_dd(*Rg, "construct", R)) return;
    if (how == 4 && LA.empty) return;   // constraints() of an empty grid: only 'equalities satisfied by the grid' is promised
    if (how == 4) { // the equalities only: the affine hull of the grid
      Lattice E = LA; if (!E.empty) { E.lines.insert(E.lines.end(), E.params.begin(), E.params.end()); E.params.clear(); }
      expect_same(nm[how], cls, E, R, ctx);
    } else expect_same(nm[how], cls, LA, R, ctx);
  }
}

// ---------- C15: ascii round trip ----------
static Grid* ascii_roundtrip(const Grid& A, int n, const Shadow& SA, const std::string& pre) {
  hx::count("ascii_roundtrips"); checked();
  std::string d1 = dump(A);
  std::istringstream in(d1);
  std::unique_ptr<Grid> L(new Grid(0, UNIVERSE));
  std::string st = status_line(A);
  tr(pre + ".ascii_roundtrip[" + st + "]");
  hx::distinct("ascii|" + st + "|" + std::to_string(n) + "|" + shape_of(SA.L));
  bool okl = L->ascii_load(in);
  if (!okl) { violation("C15.grid.load_failed", st + "\n" + d1); return 0; }
  if (!L->OK()) { violation("C15.grid.loaded_not_OK", st + "\n" + d1); return 0; }
  std::string d2 = dump(*L);
  if (d2 != d1) { violation("C15.grid.redump_differs", st + "\n" + d1 + "\n---\n" + d2); return 0; }
  if ((int) L->space_dimension() != n || !ref::same(obs(*L), SA.L)) { violation("C15.grid.value_differs", st + " loaded " + show(obs(*L)) + " original " + show(SA.L)); return 0; }
  return L.release();
}

// ---------- initial objects ----------
static Grid* make_initial(int n, std::string& how_s) {
  int how = rnd(0, 11); std::ostringstream o;
  if (how < 4) { // from congruences, one by one
    Grid* p = new Grid(n); int k = rnd(0, 4); o << "universe"; for (int j = 0; j < k; ++j) { Congruence c = rcg(n); o << ".add_congruence(" << str(c) << ")"; p->add_congruence(c); } how_s = o.str(); return p; }
  if (how < 6) { // from a congruence system
    Congruence_System cgs; int k = rnd(0, 4); o << "Grid(cgs:"; for (int j = 0; j < k; ++j) { Congruence c = rcg(n); o << " " << str(c) << ";"; cgs.insert(c); }
    bool rec = coin(); Grid* p = rec ? new Grid(cgs, Recycle_Input()) : new Grid(cgs);
    if ((int) p->space_dimension() < n) p->add_space_dimensions_and_embed(n - p->space_dimension());
    o << (rec ? " recycle)" : ")"); how_s = o.str(); return p; }
  if (how < 9) { // from generators, one by one
    Grid* p = new Grid(n, EMPTY); int k = rnd(1, 4); o << "empty"; for (int j = 0; j < k; ++j) { Grid_Generator g = rgg(n, j == 0); o << ".add_grid_generator(" << str(g) << ")"; p->add_grid_generator(g); } how_s = o.str(); return p; }
  if (how < 11) { // from a generator system
    Grid_Generator_System gs; int k = rnd(1, 4); o << "Grid(ggs:"; for (int j = 0; j < k; ++j) { Grid_Generator g = rgg(n, j == 0); o << " " << str(g) << ";"; gs.insert(g); }
    bool rec = coin(); Grid* p = rec ? new Grid(gs, Recycle_Input()) : new Grid(gs);
    if ((int) p->space_dimension() < n) p->add_space_dimensions_and_project(n - p->space_dimension());
    o << (rec ? " recycle)" : ")"); how_s = o.str(); return p; }
  bool e = coin(); how_s = e ? "EMPTY" : "UNIVERSE"; return new Grid(n, e ? EMPTY : UNIVERSE);
}

static void run_case(uint64_t) {
  const std::string profile = hx::opt().profile;
  if (profile == "selftest") { gridseq_selftest_case(); return; }
  int dk = rnd(0, 99); int n = dk < 6 ? 0 : dk < 30 ? 1 : dk < 70 ? 2 : 3;
  if (hx::opt().thorough && dk >= 92) n = 4;
  const int NP = 3;
  std::vector<Grid*> pool(NP, (Grid*) 0), twin(NP, (Grid*) 0);
  struct Cleanup { std::vector<Grid*>& a; std::vector<Grid*>& b; ~Cleanup() { for (size_t i = 0; i < a.size(); ++i) { delete a[i]; delete b[i]; } } } cleanup = { pool, twin };
  {
    std::ostringstream o; o << "Grid n=" << n << " init:";
    for (int i = 0; i < NP; ++i) { std::string how; pool[i] = make_initial(n, how); Grid c(*pool[i]); o << " #" << i << "=" << how << ";"; (void) c; }
    tr(o.str());
  }
  int steps = rnd(4, 12);
  for (int stp = 0; stp < steps && !hx::st().case_tainted; ++stp) {
    hx::count("steps");
    int ai = rnd(0, NP - 1), bi = rnd(0, NP - 1);
    if (profile == "alias" && coin(35)) bi = ai;
    Grid& A = *pool[ai]; Grid& B = *pool[bi];
    std::string stl = status_line(A);
    hx::count("status." + stl);
    std::vector<Shadow> S(NP);
    for (int i = 0; i < NP; ++i) { if (i == ai || i == bi) { if (!check_dd(*pool[i], "pre", S[i])) return; } else S[i].L = obs(*pool[i]); }
    const Shadow& SA = S[ai]; const Shadow& SB = S[bi];
    std::string shp = shape_of(SA.L);
    std::ostringstream pre; pre << " | #" << ai;
    int receiver = ai;
    std::string opn = "step";
    try {
      Weight_Guard wg(200000000ULL);
      struct Note { Weight_Guard& g; ~Note() { note_weight("step", g.used()); } } note = { wg };
      int kind = rnd(0, 99);
      int w_mut = 50, w_query = 24, w_copy = 6, w_obs = 6, w_ascii = 5, w_dims = 9;
      if (profile == "dd") { w_mut = 35; w_query = 25; w_obs = 20; w_ascii = 4; w_dims = 10; w_copy = 6; }
      else if (profile == "ops") { w_mut = 65; w_query = 8; w_obs = 5; w_ascii = 2; w_dims = 15; w_copy = 5; }
      else if (profile == "alias") { w_mut = 50; w_copy = 25; w_query = 8; w_obs = 5; w_ascii = 4; w_dims = 8; }
      else if (profile == "ascii") { w_mut = 50; w_ascii = 25; w_query = 8; w_obs = 8; w_copy = 5; w_dims = 4; }
      if (kind < w_mut) {
        Op op; int tries = 0; while (!make_op(op, n, SA, profile) && ++tries < 20) op = Op();
        if (tries >= 20) continue;
        opn = op.name;
        std::string text = op.text; size_t pb = text.find("(B)"); if (pb != std::string::npos) text.replace(pb, 3, "(#" + std::to_string(bi) + ")");
        tr(pre.str() + text); hx::count("op." + op.name);
        if (nontrivial(SA.L)) hx::distinct("op|" + op.name + "|" + stl + "|" + shp + (SA.nonunit ? "|nu" : "") + (op.uses_b ? "|" + shape_of(SB.L) + (ai == bi ? "|alias" : "") : ""));
        std::unique_ptr<Grid> X, Y;
        if (op.uses_b && ai == bi) { X.reset(new Grid(A)); Y.reset(new Grid(A)); }
        auto preflight = [&](Grid& x, const Grid& y, const char* who) -> bool {
          // add_(recycled_)grid_generators on an empty receiver that is not marked empty indexes an empty row vector;
          // --kv preflight_all=1 extends the net to every mutator on such operands
          static const bool all = hx::opt().geti("preflight_all", 0) != 0;
          bool eu = (all || op.name == "add_grid_generators" || op.name == "add_recycled_grid_generators") && (unmarked_empty(x, SA.L) || (op.uses_b && unmarked_empty(y, SB.L)));
          bool sx = op.name == "simplify_using_context_assign" && (SA.nonunit || SB.nonunit);   // reaches PPL_UNREACHABLE through relation_with(Congruence)
          if (!eu && !sx) return true;
          hx::count("preflight"); std::string rep;
          if (survives_in_child([&]() { op.apply(x, y); (void) x.OK(); Grid c(x); (void) c.minimized_grid_generators(); (void) c.minimized_congruences(); }, rep)) return true;
          violation("C05.crash." + op.name + (eu ? ":empty-unmarked-operand" : ":point-divisor!=1"), rep + " | " + who + " status " + status_line(x) + " receiver congruences " + show(SA.C));
          return false;
        };
        if (!preflight(A, B, "receiver")) return;
        op.apply(A, B);
        if ((int) A.space_dimension() != n) { violation("C05.op." + op.name + ".dimension", "space dimension changed"); return; }
        Shadow R; if (!check_dd(A, op.name, R)) return;
        if (X.get()) {
          op.apply(*X, *Y); checked(); hx::count("alias_checks");
          Lattice XL = obs(*X);
          if (!ref::same(R.L, XL)) { violation("C13.grid.alias." + op.name, "x.op(x) gives " + show(R.L) + " but x.op(copy of x) gives " + show(XL)); return; }
        }
        op.verify(SA, SB, R);
        if (twin[ai] && !hx::st().case_tainted) {
          const Grid& argB = (bi == ai) ? *twin[ai] : B;
          if (!preflight(*twin[ai], argB, "ascii-loaded twin")) return;
          op.apply(*twin[ai], argB); checked(); hx::count("lockstep_checks");
          Lattice TL = obs(*twin[ai]);
          if (!ref::same(R.L, TL)) { violation("C15.grid.lockstep_diverged." + op.name, "loaded twin gives " + show(TL) + " original " + show(R.L)); return; }
          if (dump(*twin[ai]) != dump(A)) hx::count("lockstep_text_diverged");
        }
      }
      else if ((kind -= w_mut) < w_query) { receiver = -1; opn = "query"; g_query = "query"; run_queries(A, B, n, SA, SB, pre.str(), ai, bi); opn = g_query;
        // a query must leave the object in a consistent state denoting the same set
        Shadow R; if (!check_dd(A, "post-query." + g_query, R)) return;
        checked(); if (!ref::same(SA.L, R.L)) { violation("C05.dd.query_changed_value." + g_query + ":" + cls_of(SA), "before " + show(SA.L) + " after " + show(R.L)); return; } if (nontrivial(SA.L)) hx::distinct("query|" + stl + "|" + shp + (SA.nonunit ? "|nu" : "")); }
      else if ((kind -= w_query) < w_copy) {
        int how = rnd(0, 4); opn = "copy";
        if (how == 0) { tr(pre.str() + " = copy(#" + std::to_string(bi) + ")"); hx::count("op.copy_construct"); if (ai != bi) { delete pool[ai]; pool[ai] = new Grid(B); delete twin[ai]; twin[ai] = 0; checked(); Lattice Rl = obs(*pool[ai]); if (!ref::same(Rl, SB.L)) violation("C13.grid.copy_differs", "copy " + show(Rl) + " source " + show(SB.L)); } }
        else if (how == 1) { tr(pre.str() + " = #" + std::to_string(bi)); hx::count("op.assign"); A = B; delete twin[ai]; twin[ai] = 0; checked(); Lattice Rl = obs(A); if (!ref::same(Rl, SB.L)) violation(ai == bi ? "C13.grid.self_assign" : "C13.grid.assign_differs", "assigned " + show(Rl) + " source " + show(SB.L)); }
        else if (how == 2 || how == 3) { tr(pre.str() + (how == 2 ? ".m_swap(#" : ".swap(#") + std::to_string(bi) + ")"); hx::count(how == 2 ? "op.m_swap" : "op.swap"); if (how == 2) A.m_swap(B); else { using std::swap; swap(A, B); } std::swap(twin[ai], twin[bi]); checked(); Lattice RA = obs(A), RB = obs(B); if (!ref::same(RA, SB.L) || !ref::same(RB, SA.L)) violation(ai == bi ? "C13.grid.self_swap" : "C13.grid.swap_differs", "swap did not exchange the values"); receiver = -2; }
        else { tr(pre.str() + ".copy_then_mutate_copy"); hx::count("op.copy_then_mutate"); Grid c(A); c.add_congruence(rcg(n)); if (n > 0 && !c.is_empty()) { c.affine_image(Variable(0), rexpr(n)); c.add_grid_generator(rgg(n, false)); } (void) c.minimized_grid_generators(); receiver = -1; }
      }
      else if ((kind -= w_copy) < w_obs) {
        int k = rnd(0, 6); const char* nm[7] = { "minimized_congruences", "minimized_grid_generators", "congruences", "grid_generators", "is_empty", "hash/memory", "OK" };
        opn = nm[k]; tr(pre.str() + ".observe:" + nm[k]); hx::count(std::string("obs.") + nm[k]); receiver = -1;
        if (k == 0) (void) A.minimized_congruences(); else if (k == 1) (void) A.minimized_grid_generators(); else if (k == 2) (void) A.congruences(); else if (k == 3) (void) A.grid_generators();
        else if (k == 4) (void) A.is_empty(); else if (k == 5) { (void) A.hash_code(); (void) A.total_memory_in_bytes(); (void) A.external_memory_in_bytes(); } else (void) A.OK();
        hx::distinct("obs|" + std::string(nm[k]) + "|" + stl + "|" + shp);
        Shadow R; if (!check_dd(A, "observe", R)) return;
        checked(); if (!ref::same(SA.L, R.L)) { violation(std::string("C05.dd.observer_changed_value.") + nm[k] + ":" + cls_of(SA), "before " + show(SA.L) + " after " + show(R.L)); return; }
      }
      else if ((kind -= w_obs) < w_ascii) { receiver = -1; opn = "ascii"; Grid* L = ascii_roundtrip(A, n, SA, pre.str()); if (L) { delete twin[ai]; twin[ai] = L; } }
      else { receiver = -1; opn = "dims"; dims_op(A, B, n, SA, SB, pre.str()); if (nontrivial(SA.L)) hx::distinct("dims|" + stl + "|" + shp); }
    } catch (const Logical_Timeout&) {
      violation("C05.hang.grid." + opn, "logical-time budget (weight 2e8) exceeded; receiver " + show(SA.L));
      return;
    } catch (const std::exception& e) {
      violation("C05.unexpected_exception." + opn + "." + typeid(e).name(), e.what());
      return;
    }
    if (hx::st().case_tainted) return;
    // every object other than the receiver keeps its value (C13)
    if (receiver != -2) for (int i = 0; i < NP; ++i) if (i != receiver) {
      Lattice now = obs(*pool[i]); checked(); hx::count("bystander_checks");
      if (!ref::same(S[i].L, now)) { violation(std::string(i == bi ? "C13.grid.const_argument_changed." : i == ai ? "C13.grid.query_changed_value." : "C13.grid.bystander_changed.") + opn, "object #" + std::to_string(i) + " changed from " + show(S[i].L) + " to " + show(now)); return; }
    }
  }
}

int main(int argc, char** argv) { return hx::main_loop(argc, argv, run_case); }
