// gridseq — random operation histories on rational grids, every step checked
// against the independent lattice model (ref/refgrid.hh: own Hermite normal
// form + exact rational linear algebra).
//
// Monitors (key prefix = property):
//   C05.dd.*   congruences()/minimized_congruences()/grid_generators()/
//              minimized_grid_generators() (each through its own copy) denote
//              one set; OK(); observers are pure.
//   C05.q.*    every query answers what that set dictates.
//   C05.op.*   every operator yields exactly the documented set.
//   C13.grid.* bystanders / const arguments / copies keep their value;
//              x.op(x) equals x.op(copy); self-assignment / self-swap.
//   C15.grid.* ascii_dump/ascii_load round trip in every lazy state and
//              lock-step continuation of the loaded twin.
// Profiles: default | dd | ops | alias | ascii (operation mix only) and
//           selftest (reference model against brute force, no PPL results).
// The second translation unit gridseq__selftest.cc holds the self-test.
#include "pplx.hh"
#include "refgrid.hh"
#include <functional>
#include <memory>

using namespace pplx;
using hx::violation; using hx::tr; using hx::checked;
using ref::Lattice; using ref::Cg; using ref::ValSet; using ref::AffMap;

void gridseq_selftest_case();   // gridseq__selftest.cc

// ---------- printing ----------
static std::string showq(const Q& q) { std::ostringstream o; o << q; return o.str(); }
static std::string show(const Lattice& g0) {
  Lattice g = g0; ref::canonicalize(g);
  std::ostringstream o; o << "[n=" << g.n;
  if (g.empty) { o << " empty]"; return o.str(); }
  o << " p=" << pplx::show(g.p);
  for (size_t i = 0; i < g.params.size(); ++i) o << " q" << pplx::show(g.params[i]);
  for (size_t i = 0; i < g.lines.size(); ++i) o << " l" << pplx::show(g.lines[i]);
  o << "]"; return o.str();
}
static std::string show(const Cg& c) { std::ostringstream o; o << pplx::show(c.a) << ".x == " << c.b << " (mod " << c.m << ")"; return o.str(); }
static std::string show(const std::vector<Cg>& c) { std::ostringstream o; o << "{"; for (size_t i = 0; i < c.size(); ++i) o << (i ? "; " : "") << show(c[i]); o << "}"; return o.str(); }

// ---------- PPL -> reference model ----------
static Cg conv(const Congruence& c, int n) {
  Cg r; r.a.assign(n, Q(0));
  for (int i = 0; i < n && i < (int) c.space_dimension(); ++i) r.a[i] = ref::toQ(c.coefficient(Variable(i)));
  r.b = -ref::toQ(c.inhomogeneous_term()); r.m = ref::toQ(c.modulus());
  return r;
}
static std::vector<Cg> conv(const Congruence_System& cs, int n) {
  std::vector<Cg> v;
  for (Congruence_System::const_iterator i = cs.begin(), e = cs.end(); i != e; ++i) v.push_back(conv(*i, n));
  return v;
}
struct RGen { char kind; Vec v; bool nonunit; };   // 'p' point, 'q' parameter, 'l' line
static RGen conv(const Grid_Generator& g, int n) {
  RGen r; r.kind = g.is_line() ? 'l' : g.is_parameter() ? 'q' : 'p'; r.v.assign(n, Q(0)); r.nonunit = false;
  Q d = 1; if (!g.is_line()) { d = ref::toQ(g.divisor()); r.nonunit = (d != 1); }
  for (int k = 0; k < n && k < (int) g.space_dimension(); ++k) { r.v[k] = ref::toQ(g.coefficient(Variable(k))) / d; r.v[k].canonicalize(); }
  return r;
}
static std::vector<RGen> conv(const Grid_Generator_System& gs, int n) {
  std::vector<RGen> v;
  for (Grid_Generator_System::const_iterator i = gs.begin(), e = gs.end(); i != e; ++i) v.push_back(conv(*i, n));
  return v;
}
static Lattice lattice_of(const std::vector<RGen>& gs, int n) {
  Lattice g = ref::lat_empty(n);
  const Vec* first = 0;
  for (size_t i = 0; i < gs.size(); ++i) if (gs[i].kind == 'p') { first = &gs[i].v; break; }
  if (!first) return g;
  g.empty = false; g.p = *first;
  for (size_t i = 0; i < gs.size(); ++i) {
    if (gs[i].kind == 'l') g.lines.push_back(gs[i].v);
    else if (gs[i].kind == 'q') g.params.push_back(gs[i].v);
    else if (&gs[i].v != first) { Vec q(n); for (int d = 0; d < n; ++d) q[d] = gs[i].v[d] - (*first)[d]; g.params.push_back(q); }
  }
  return g;
}
static void add_gen(Lattice& L, const RGen& g) {   // L non-empty
  if (g.kind == 'l') L.lines.push_back(g.v);
  else if (g.kind == 'q') L.params.push_back(g.v);
  else { Vec q(L.n); for (int d = 0; d < L.n; ++d) q[d] = g.v[d] - L.p[d]; L.params.push_back(q); }
}

static std::string status_line(const Grid& g) {
  std::ostringstream o; g.ascii_dump(o); std::string s = o.str();
  size_t a = s.find('\n'); size_t b = s.find('\n', a + 1);
  std::string w = s.substr(a + 1, b - a - 1);
  // keep the six meaningful flags: ZE EM  CM GM  CS GS
  std::string out; int fields = 0;
  std::istringstream in(w); std::string f; while (in >> f && fields < 6) { out += (fields ? " " : "") + f; ++fields; }
  return out;
}
static std::string dump(const Grid& g) { std::ostringstream o; g.ascii_dump(o); return o.str(); }

// cheap observation (generators of a copy)
static Lattice obs(const Grid& g) { Grid c(g); int n = g.space_dimension(); return lattice_of(conv(c.grid_generators(), n), n); }

// ---------- shadows ----------
struct Shadow {
  Lattice L;                 // verified value (generator form)
  std::vector<Cg> C;         // PPL-reported congruences (verified to denote L)
  std::vector<RGen> G;       // PPL-reported generators
  bool nonunit;              // some reported point/parameter has a divisor != 1
  Shadow() : nonunit(false) {}
};
static std::string cls_of(const Shadow& s) { return s.L.n == 0 ? "dim0" : s.L.empty ? "empty" : s.nonunit ? "point-divisor!=1" : "unit-divisors"; }
static std::string cls_of(const Shadow& a, const Shadow& b) {
  if (a.L.n == 0) return "dim0";
  if (a.L.empty || b.L.empty) return "empty-operand";
  return (a.nonunit || b.nonunit) ? "point-divisor!=1" : "unit-divisors";
}
static bool nontrivial(const Lattice& L) { return !L.empty && !ref::is_universe(L); }
static std::string shape_of(const Lattice& L0) {
  if (L0.empty) return "empty";
  Lattice L = L0; ref::canonicalize(L);
  if ((int) L.lines.size() == L.n) return "universe";
  std::ostringstream o; o << "q" << L.params.size() << "l" << L.lines.size();
  return o.str();
}

// generated sample points of a lattice: p, p+q_i, p-2q_i, p + 5/7 l_j
static std::vector<Vec> gen_points(const Lattice& L) {
  std::vector<Vec> pts; if (L.empty) return pts;
  pts.push_back(L.p);
  for (size_t i = 0; i < L.params.size(); ++i) { Vec x = L.p, y = L.p; for (int d = 0; d < L.n; ++d) { x[d] += L.params[i][d]; y[d] -= 2 * L.params[i][d]; } pts.push_back(x); pts.push_back(y); }
  for (size_t i = 0; i < L.lines.size(); ++i) { Vec x = L.p; for (int d = 0; d < L.n; ++d) x[d] += L.lines[i][d] * Q(5, 7); pts.push_back(x); }
  return pts;
}
// a point of X that is not in Y (X not included in Y), if one of the generated points shows it
static bool witness_not_in(const Lattice& X, const Lattice& Y, Vec& w) {
  std::vector<Vec> pts = gen_points(X);
  for (size_t i = 0; i < pts.size(); ++i) if (!ref::member(Y, pts[i])) { w = pts[i]; return true; }
  return false;
}

// ---------- C05 core: the four descriptions denote one set ----------
static bool check_dd(const Grid& g, const std::string& where, Shadow& S) {
  int n = g.space_dimension();
  Grid c1(g), c2(g), c3(g), c4(g);
  S.C = conv(c1.congruences(), n);
  std::vector<Cg> CM = conv(c2.minimized_congruences(), n);
  S.G = conv(c3.grid_generators(), n);
  std::vector<RGen> GM = conv(c4.minimized_grid_generators(), n);
  S.nonunit = false; for (size_t i = 0; i < S.G.size(); ++i) if (S.G[i].nonunit) S.nonunit = true;
  Lattice LG = lattice_of(S.G, n);
  S.L = LG;
  checked(); hx::count("dd_checks");
  std::string st = status_line(g);
  std::string cls = n == 0 ? "dim0" : LG.empty ? "empty" : S.nonunit ? "point-divisor!=1" : "unit-divisors";
  // 1. every reported generator satisfies every reported congruence (plain arithmetic)
  if (!LG.empty) for (size_t i = 0; i < S.G.size(); ++i) for (size_t k = 0; k < S.C.size(); ++k) {
    const RGen& r = S.G[i]; const Cg& c = S.C[k]; bool ok;
    if (r.kind == 'p') ok = ref::sat_cg(c, r.v);
    else { Q s = ref::dot(c.a, r.v); ok = (r.kind == 'l' || c.m == 0) ? (s == 0) : ref::is_int(Q(s / c.m)); }
    if (!ok) { violation("C05.dd.gens_not_in_cgs@" + where + ":" + cls, std::string("generator ") + r.kind + pplx::show(r.v) + " violates " + show(c) + " status " + st); return false; }
  }
  if (LG.empty && !S.G.empty()) { violation("C05.dd.gens_without_point@" + where + ":" + cls, "generator system has rows but no point; status " + st); return false; }
  // 2. converse by own HNF: the lattice of the congruences is inside the lattice of the generators
  Lattice LC = ref::from_congruences(n, S.C);
  if (!ref::included(LC, LG)) {
    Vec w; bool have = witness_not_in(LC, LG, w);
    if (!have || !ref::sat_all(S.C, w)) { violation("harness.bug.dd_witness", "cgs " + show(S.C) + " gens " + show(LG)); return false; }
    violation("C05.dd.cgs_not_in_gens@" + where + ":" + cls, "point " + pplx::show(w) + " satisfies congruences " + show(S.C) + " but is outside generators " + show(LG) + " status " + st);
    return false;
  }
  if (LG.empty && !LC.empty) { violation("harness.bug.dd_empty", "unreachable"); return false; }
  // 3. minimized views
  checked(2);
  Lattice LCM = ref::from_congruences(n, CM), LGM = lattice_of(GM, n);
  if (!ref::same(LCM, LG)) { violation("C05.dd.minimized_congruences_differ@" + where + ":" + cls, "min cgs " + show(CM) + " denote " + show(LCM) + " expected " + show(LG) + " status " + st); return false; }
  if (!ref::same(LGM, LG)) { violation("C05.dd.minimized_generators_differ@" + where + ":" + cls, "min gens denote " + show(LGM) + " expected " + show(LG) + " status " + st); return false; }
  // 4. minimal forms have the documented sizes (definitions.dox, Minimized Grid Representations)
  if (!LG.empty && n > 0) {
    Lattice c = LG; ref::canonicalize(c);
    size_t want_g = 1 + c.params.size() + c.lines.size();
    if (GM.size() != want_g) { std::ostringstream o; o << "minimized generator system has " << GM.size() << " rows, a minimal one has " << want_g << "; " << show(LG); violation("C05.dd.minimized_generators_not_minimal@" + where + ":" + cls, o.str()); return false; }
    size_t want_c = n - c.lines.size();
    if (CM.size() > want_c) { std::ostringstream o; o << "minimized congruence system has " << CM.size() << " non-trivial rows, a minimal one has " << want_c << "; " << show(CM); violation("C05.dd.minimized_congruences_not_minimal@" + where + ":" + cls, o.str()); return false; }
  }
  if (!g.OK()) { violation("C05.dd.OK@" + where + ":" + cls, "OK() false; status " + st); return false; }
  return true;
}

// result R must equal the expected lattice E
static bool expect_same(const std::string& op, const std::string& cls, const Lattice& E, const Shadow& R, const std::string& ctx) {
  checked(); hx::count("op_checks");
  if (ref::same(E, R.L)) return true;
  Vec w;
  if (!ref::included(E, R.L)) {
    if (!witness_not_in(E, R.L, w)) { violation("harness.bug.lost_witness", op); return false; }
    // independent re-validation against the PPL-reported congruences of the result
    if (ref::sat_all(R.C, w) && !R.L.empty) { violation("harness.bug.lost_witness_satisfies_result", op + " " + pplx::show(w)); return false; }
    violation("C05.op." + op + ".lost_points:" + cls, "point " + pplx::show(w) + " of the defined set " + show(E) + " is not in the result " + show(R.L) + "; " + ctx);
    return false;
  }
  if (!witness_not_in(R.L, E, w)) { violation("harness.bug.extra_witness", op); return false; }
  if (ref::sat_all(ref::to_congruences(E), w)) { violation("harness.bug.extra_witness_in_expected", op + " " + pplx::show(w)); return false; }
  violation("C05.op." + op + ".extra_points:" + cls, "result point " + pplx::show(w) + " is outside the defined set " + show(E) + "; result " + show(R.L) + "; " + ctx);
  return false;
}
// lo subseteq R subseteq hi (operators whose defined set is not a grid: smallest grid .. cylinder)
static bool expect_between(const std::string& op, const std::string& cls, const Lattice& lo, const Lattice& hi, const Shadow& R, const std::string& ctx) {
  checked(); hx::count("op_checks");
  Vec w;
  if (!ref::included(lo, R.L)) { witness_not_in(lo, R.L, w); violation("C05.op." + op + ".lost_points:" + cls, "point " + pplx::show(w) + " of " + show(lo) + " is not in the result " + show(R.L) + "; " + ctx); return false; }
  if (!ref::included(R.L, hi)) { witness_not_in(R.L, hi, w); violation("C05.op." + op + ".extra_points:" + cls, "result point " + pplx::show(w) + " is outside " + show(hi) + "; result " + show(R.L) + "; " + ctx); return false; }
  return true;
}

// ---------- random arguments ----------
static Linear_Expression rexpr(int n, int maxc = 3, int pct_zero = 35) { return pplx::rand_expr(n, maxc, pct_zero); }
static Congruence rcg(int n, int maxmod = 6) {
  Linear_Expression e = rexpr(n);
  int m = rnd(0, maxmod); if (coin(4)) m = -m;
  if (coin(20)) { Linear_Expression r = rexpr(n, 2, 60); return (e %= r) / m; }
  return (e %= 0) / m;
}
static Grid_Generator rgg(int n, bool must_point) {
  Linear_Expression e; for (int i = 0; i < n; ++i) if (coin(70)) e += (coin(95) ? rnd(-4, 4) : rnd(-60, 60)) * Variable(i);
  int k = must_point ? 0 : rnd(0, 9);
  int d = coin(85) ? rnd(1, 3) : (coin() ? -rnd(1, 4) : rnd(4, 12));
  if (k < 4 || n == 0) return grid_point(e, d);
  if (k < 8) { if (e.all_homogeneous_terms_are_zero() && coin(85)) e += Variable(rnd(0, n - 1)); return parameter(e, d); }
  if (e.all_homogeneous_terms_are_zero()) e += Variable(rnd(0, n - 1));
  return grid_line(e);
}
static Vec vec_of(const Linear_Expression& e, int n, Q& b) { Vec a; ref::conv(e, n, a, b); return a; }

// ---------- the mutator table ----------
struct Op {
  std::string name, text; bool uses_b;
  std::function<void(Grid&, const Grid&)> apply;
  std::function<void(const Shadow&, const Shadow&, const Shadow&)> verify;   // (A before, B, result)
  Op() : uses_b(false) {}
};

// smallest grid containing { x in L : h.x + hb REL 0 } for a non-trivial REL in {<,<=,>=,>}:
// L when h is not constant on L (a half-space slice of a lattice generates it), else L or empty.
static Lattice hull_halfspace(const Lattice& L, const Vec& h, const Q& hb, int rel5) {
  if (L.empty) return L;
  ValSet v = ref::values(L, h, hb);
  if (v.kind != ValSet::CONST) return L;
  bool ok = rel5 == 0 ? v.base < 0 : rel5 == 1 ? v.base <= 0 : rel5 == 2 ? v.base == 0 : rel5 == 3 ? v.base >= 0 : v.base > 0;
  return ok ? L : ref::lat_empty(L.n);
}
static Lattice cylinder(const Lattice& L, const std::vector<bool>& vars) {
  Lattice R = L; if (L.empty) return R;
  for (int i = 0; i < L.n; ++i) if (vars[i]) { Vec e(L.n); e[i] = 1; R.lines.push_back(e); }
  return R;
}

static bool make_op(Op& op, int n, const Shadow& SA, const std::string& profile) {
  const bool Aempty = SA.L.empty;
  int k = rnd(0, 99);
  std::ostringstream t;
  if (k < 12) { // congruences
    int which = rnd(0, 4);
    int cnt = (which == 0 || which == 3) ? 1 : rnd(0, 3);
    std::vector<Congruence> cv; for (int i = 0; i < cnt; ++i) cv.push_back(rcg(n));
    Congruence_System cgs; for (size_t i = 0; i < cv.size(); ++i) cgs.insert(cv[i]);
    const char* nm[5] = { "add_congruence", "add_congruences", "add_recycled_congruences", "refine_with_congruence", "refine_with_congruences" };
    op.name = nm[which]; t << "." << nm[which] << "("; for (size_t i = 0; i < cv.size(); ++i) t << (i ? ", " : "") << str(cv[i]); t << ")"; op.text = t.str();
    op.apply = [=](Grid& A, const Grid&) {
      switch (which) {
      case 0: A.add_congruence(cv[0]); break;
      case 1: A.add_congruences(cgs); break;
      case 2: { Congruence_System tmp(cgs); A.add_recycled_congruences(tmp); break; }
      case 3: A.refine_with_congruence(cv[0]); break;
      case 4: A.refine_with_congruences(cgs); break;
      }
    };
    op.verify = [=](const Shadow& A, const Shadow&, const Shadow& R) {
      Lattice E = A.L;
      if (!E.empty) { std::vector<Cg> c = ref::to_congruences(A.L); for (size_t i = 0; i < cv.size(); ++i) c.push_back(conv(cv[i], n)); E = ref::from_congruences(n, c); }
      expect_same(op.name, cls_of(A), E, R, "receiver " + show(A.L));
    };
    return true;
  }
  if (k < 20) { // constraints (equalities; trivial inequalities are accepted by add_, any inequality ignored by refine_)
    int which = rnd(0, 4);
    int cnt = (which == 0 || which == 3) ? 1 : rnd(0, 3);
    bool refine = which >= 3;
    std::vector<Constraint> cv;
    for (int i = 0; i < cnt; ++i) {
      int kind = rnd(0, 9);
      if (kind < 7) cv.push_back(rexpr(n) == 0);
      else if (kind < 9) { int c0 = rnd(-2, 2); cv.push_back(coin() ? (Linear_Expression(c0) >= 0) : (Linear_Expression(c0) > 0)); }
      else if (refine) cv.push_back(coin() ? (rexpr(n) >= 0) : (rexpr(n) > 0));
      else cv.push_back(rexpr(n) == 0);
    }
    Constraint_System cs; for (size_t i = 0; i < cv.size(); ++i) cs.insert(cv[i]);
    const char* nm[5] = { "add_constraint", "add_constraints", "add_recycled_constraints", "refine_with_constraint", "refine_with_constraints" };
    op.name = nm[which]; t << "." << nm[which] << "("; for (size_t i = 0; i < cv.size(); ++i) t << (i ? ", " : "") << str(cv[i]); t << ")"; op.text = t.str();
    op.apply = [=](Grid& A, const Grid&) {
      switch (which) {
      case 0: A.add_constraint(cv[0]); break;
      case 1: A.add_constraints(cs); break;
      case 2: { Constraint_System tmp(cs); A.add_recycled_constraints(tmp); break; }
      case 3: A.refine_with_constraint(cv[0]); break;
      case 4: A.refine_with_constraints(cs); break;
      }
    };
    op.verify = [=](const Shadow& A, const Shadow&, const Shadow& R) {
      // exact part: equalities and trivial (constant) inequalities; lower bound additionally honours nothing else
      Lattice E = A.L; bool nontrivial_ineq = false;
      if (!E.empty) {
        std::vector<Cg> c = ref::to_congruences(A.L);
        for (size_t i = 0; i < cv.size(); ++i) {
          if (cv[i].is_equality()) { c.push_back(conv(Congruence(cv[i]), n)); continue; }
          if (cv[i].is_inconsistent()) { Cg f; f.a.assign(n, Q(0)); f.b = 1; f.m = 0; c.push_back(f); continue; }
          if (!cv[i].is_tautological()) nontrivial_ineq = true;
        }
        E = ref::from_congruences(n, c);
      }
      if (!nontrivial_ineq) { expect_same(op.name, cls_of(A), E, R, "receiver " + show(A.L)); return; }
      // refine_ with a proper inequality: "ignored"; anything between (E n halfspaces) and E is a refinement
      Lattice lo = E;
      for (size_t i = 0; i < cv.size() && !lo.empty; ++i) if (!cv[i].is_equality() && !cv[i].is_tautological() && !cv[i].is_inconsistent()) { Q b; Vec a = vec_of(Linear_Expression(cv[i]), n, b); lo = hull_halfspace(lo, a, b, cv[i].is_strict_inequality() ? 4 : 3); }
      expect_between(op.name, cls_of(A), lo, E, R, "receiver " + show(A.L));
    };
    return true;
  }
  if (k < 29) { // generators
    int which = rnd(0, 2);
    int cnt = which == 0 ? 1 : rnd(0, 3);
    std::vector<Grid_Generator> gv; bool have_point = !Aempty;
    for (int i = 0; i < cnt; ++i) { Grid_Generator g = rgg(n, !have_point && (which == 0 || coin(70))); if (g.is_point()) have_point = true; gv.push_back(g); }
    // an empty receiver needs a point among the added generators (else std::invalid_argument is documented)
    bool expect_throw = false;
    if (Aempty && !gv.empty()) { bool pt = false; for (size_t i = 0; i < gv.size(); ++i) if (gv[i].is_point()) pt = true; expect_throw = !pt; }
    Grid_Generator_System gs; for (size_t i = 0; i < gv.size(); ++i) gs.insert(gv[i]);
    const char* nm[3] = { "add_grid_generator", "add_grid_generators", "add_recycled_grid_generators" };
    op.name = nm[which]; t << "." << nm[which] << "("; for (size_t i = 0; i < gv.size(); ++i) t << (i ? ", " : "") << str(gv[i]); t << ")"; op.text = t.str();
    std::shared_ptr<int> threw(new int(0));
    op.apply = [=](Grid& A, const Grid&) {
      try {
        if (which == 0) A.add_grid_generator(gv[0]); else if (which == 1) A.add_grid_generators(gs); else { Grid_Generator_System tmp(gs); A.add_recycled_grid_generators(tmp); }
      } catch (const std::invalid_argument&) { if (!expect_throw) throw; *threw = 1; }
    };
    op.verify = [=](const Shadow& A, const Shadow&, const Shadow& R) {
      if (expect_throw) {
        checked();
        if (!*threw) { violation("C05.op." + op.name + ".no_exception:empty-receiver-no-point", "adding generators without a point to an empty grid did not throw std::invalid_argument"); return; }
        expect_same(op.name, "rejected-call", A.L, R, "receiver must be unchanged after the rejected call");
        return;
      }
      std::vector<RGen> rv; for (size_t i = 0; i < gv.size(); ++i) rv.push_back(conv(gv[i], n));
      Lattice E = A.L; bool nu = A.nonunit;
      for (size_t i = 0; i < rv.size(); ++i) if (rv[i].nonunit) nu = true;
      if (E.empty) { std::vector<RGen> all = rv; E = lattice_of(all, n); }
      else for (size_t i = 0; i < rv.size(); ++i) add_gen(E, rv[i]);
      expect_same(op.name, n == 0 ? "dim0" : A.L.empty ? "empty" : nu ? "point-divisor!=1" : "unit-divisors", E, R, "receiver " + show(A.L));
    };
    return true;
  }
  if (k < 35) { op.name = "intersection_assign"; op.uses_b = true; op.text = ".intersection_assign(B)";
    op.apply = [](Grid& A, const Grid& B) { A.intersection_assign(B); };
    op.verify = [=](const Shadow& A, const Shadow& B, const Shadow& R) { expect_same(op.name, cls_of(A, B), ref::intersect(A.L, B.L), R, "A " + show(A.L) + " B " + show(B.L)); };
    return true; }
  if (k < 41) { op.name = "upper_bound_assign"; op.uses_b = true; op.text = ".upper_bound_assign(B)";
    op.apply = [](Grid& A, const Grid& B) { A.upper_bound_assign(B); };
    op.verify = [=](const Shadow& A, const Shadow& B, const Shadow& R) { expect_same(op.name, cls_of(A, B), ref::join(A.L, B.L), R, "A " + show(A.L) + " B " + show(B.L)); };
    return true; }
  if (k < 46) { op.name = "upper_bound_assign_if_exact"; op.uses_b = true; op.text = ".upper_bound_assign_if_exact(B)";
    std::shared_ptr<int> res(new int(-1));
    op.apply = [=](Grid& A, const Grid& B) { *res = A.upper_bound_assign_if_exact(B) ? 1 : 0; };
    op.verify = [=](const Shadow& A, const Shadow& B, const Shadow& R) {
      Lattice J = ref::join(A.L, B.L);
      // A u B is a grid iff the smallest grid containing J \ B lies inside A
      bool err = false; Lattice D = ref::difference(J, B.L, &err);
      if (err) { violation("harness.bug.difference_model", "index computation failed"); return; }
      bool exact = ref::included(D, A.L);
      std::string cls = cls_of(A, B); checked();
      if ((*res == 1) != exact) { violation(std::string("C05.op.upper_bound_assign_if_exact.") + (exact ? "false_but_exact:" : "true_but_not_exact:") + cls, "A " + show(A.L) + " B " + show(B.L) + " join " + show(J)); return; }
      expect_same(op.name, cls, exact ? J : A.L, R, "A " + show(A.L) + " B " + show(B.L));
    };
    return true; }
  if (k < 53) { op.name = "difference_assign"; op.uses_b = true; op.text = ".difference_assign(B)";
    op.apply = [](Grid& A, const Grid& B) { A.difference_assign(B); };
    op.verify = [=](const Shadow& A, const Shadow& B, const Shadow& R) {
      bool err = false; Lattice E = ref::difference(A.L, B.L, &err);
      if (err) { violation("harness.bug.difference_model", "index computation failed"); return; }
      std::string cls = cls_of(A, B);
      if (cls == "unit-divisors" || cls == "point-divisor!=1") { Q kx = 0; Lattice C = ref::intersect(A.L, B.L); if (!C.empty && !ref::included(A.L, B.L)) kx = ref::lattice_index(A.L, C); cls += (C.empty ? ",disjoint" : ref::included(A.L, B.L) ? ",included" : kx == 0 ? ",lower-rank" : kx == 2 ? ",index2" : ",index>=3"); }
      expect_same(op.name, cls, E, R, "A " + show(A.L) + " B " + show(B.L));
    };
    return true; }
  if (k < 57) { op.name = "time_elapse_assign"; op.uses_b = true; op.text = ".time_elapse_assign(B)";
    op.apply = [](Grid& A, const Grid& B) { A.time_elapse_assign(B); };
    op.verify = [=](const Shadow& A, const Shadow& B, const Shadow& R) {
      Lattice E = ref::lat_empty(n);
      if (!A.L.empty && !B.L.empty) { E = A.L; E.params.push_back(B.L.p); E.params.insert(E.params.end(), B.L.params.begin(), B.L.params.end()); E.lines.insert(E.lines.end(), B.L.lines.begin(), B.L.lines.end()); }
      expect_same(op.name, cls_of(A, B), E, R, "A " + show(A.L) + " B " + show(B.L));
    };
    return true; }
  if (k < 60) { op.name = "simplify_using_context_assign"; op.uses_b = true; op.text = ".simplify_using_context_assign(B)";
    std::shared_ptr<int> res(new int(-1));
    op.apply = [=](Grid& A, const Grid& B) { *res = A.simplify_using_context_assign(B) ? 1 : 0; };
    op.verify = [=](const Shadow& A, const Shadow& B, const Shadow& R) {
      checked(); hx::count("op_checks"); std::string cls = cls_of(A, B);
      Lattice M = ref::intersect(A.L, B.L), MR = ref::intersect(R.L, B.L);
      if ((*res == 1) != !M.empty) { violation("C05.op.simplify_using_context_assign.boolean:" + cls, std::string(M.empty ? "returned true although" : "returned false although") + " the meet is " + show(M)); return; }
      if (!M.empty) {
        if (!ref::same(M, MR)) { violation("C05.op.simplify_using_context_assign.meet_changed:" + cls, "A " + show(A.L) + " B " + show(B.L) + " R " + show(R.L)); return; }
        if (!ref::included(A.L, R.L)) violation("C05.op.simplify_using_context_assign.not_enlarging:" + cls, "A " + show(A.L) + " R " + show(R.L));
      } else if (!MR.empty) violation("C05.op.simplify_using_context_assign.not_disjoint:" + cls, "meet empty but result meets the context: R " + show(R.L) + " B " + show(B.L));
    };
    return true; }
  if (n >= 1 && k < 69) { // affine image / preimage
    bool pre = coin(); int v = rnd(0, n - 1); Linear_Expression e = rexpr(n); int d = rand_den();
    op.name = pre ? "affine_preimage" : "affine_image"; t << "." << op.name << "(" << str(Variable(v)) << ", " << str(e) << ", " << d << ")"; op.text = t.str();
    op.apply = [=](Grid& A, const Grid&) { if (pre) A.affine_preimage(Variable(v), e, d); else A.affine_image(Variable(v), e, d); };
    op.verify = [=](const Shadow& A, const Shadow&, const Shadow& R) {
      Q eb; Vec ea = vec_of(e, n, eb);
      AffMap M = ref::identity_map(n); for (int j = 0; j < n; ++j) M[v][j] = ea[j] / Q(d); M[v][n] = eb / Q(d);
      Lattice E = pre ? ref::preimage(A.L, M, n) : ref::image(A.L, M);
      expect_same(op.name, cls_of(A) + (ea[v] == 0 ? ",non-invertible" : ""), E, R, "receiver " + show(A.L));
    };
    return true; }
  if (n >= 1 && k < 78) { // generalized affine image / preimage, variable form (with modulus)
    bool pre = coin(); int v = rnd(0, n - 1); Linear_Expression e = rexpr(n); int d = rand_den();
    int ri = coin(70) ? 2 : rnd(0, 4); int m = (ri == 2) ? (coin(30) ? 0 : (coin(90) ? rnd(1, 6) : -rnd(1, 6))) : 0;
    op.name = pre ? "generalized_affine_preimage" : "generalized_affine_image"; t << "." << op.name << "(" << str(Variable(v)) << ", " << REL5S[ri] << ", " << str(e) << ", " << d << ", " << m << ")"; op.text = t.str();
    op.apply = [=](Grid& A, const Grid&) { if (pre) A.generalized_affine_preimage(Variable(v), REL5[ri], e, d, m); else A.generalized_affine_image(Variable(v), REL5[ri], e, d, m); };
    op.verify = [=](const Shadow& A, const Shadow&, const Shadow& R) {
      Q eb; Vec ea = vec_of(e, n, eb); Vec lc(n); lc[v] = 1; Vec ra(n); for (int j = 0; j < n; ++j) ra[j] = ea[j] / Q(d); Q rb = eb / Q(d);
      std::string cls = cls_of(A) + (ri != 2 ? ",inequality" : m != 0 ? ",modular" : "") + (ea[v] == 0 ? ",non-invertible" : "");
      if (ri == 2) { expect_same(op.name, cls, ref::rel_image(A.L, lc, Q(0), ra, rb, Q(m), pre), R, "receiver " + show(A.L)); return; }
      // inequality: the defined set is not a grid; smallest grid containing it .. cylinder on var
      std::vector<bool> vs(n, false); vs[v] = true; Lattice hi = cylinder(A.L, vs), lo = hi;
      if (pre && ea[v] == 0) { Vec h(n); for (int j = 0; j < n; ++j) h[j] = -ra[j]; h[v] += 1; lo = cylinder(hull_halfspace(A.L, h, Q(-rb), ri), vs); }   // w_var REL e(w)/d on L, then free var
      expect_between(op.name, cls, lo, hi, R, "receiver " + show(A.L));
    };
    return true; }
  if (n >= 1 && k < 86) { // generalized affine image / preimage, lhs/rhs form (with modulus)
    bool pre = coin(); Linear_Expression l = rexpr(n, 3, 50), r = rexpr(n);
    int ri = coin(70) ? 2 : rnd(0, 4); int m = (ri == 2) ? (coin(30) ? 0 : (coin(90) ? rnd(1, 6) : -rnd(1, 6))) : 0;
    op.name = pre ? "generalized_affine_preimage_lr" : "generalized_affine_image_lr"; t << "." << op.name << "(" << str(l) << ", " << REL5S[ri] << ", " << str(r) << ", " << m << ")"; op.text = t.str();
    op.apply = [=](Grid& A, const Grid&) { if (pre) A.generalized_affine_preimage(l, REL5[ri], r, m); else A.generalized_affine_image(l, REL5[ri], r, m); };
    op.verify = [=](const Shadow& A, const Shadow&, const Shadow& R) {
      Q lb, rb; Vec la = vec_of(l, n, lb), ra = vec_of(r, n, rb);
      bool lconst = true, common = false; for (int j = 0; j < n; ++j) { if (la[j] != 0) { lconst = false; if (ra[j] != 0) common = true; } }
      std::string cls = cls_of(A) + (ri != 2 ? ",inequality" : m != 0 ? ",modular" : "") + (lconst ? ",lhs-constant" : common ? ",common-variable" : "");
      if (ri == 2) { expect_same(op.name, cls, ref::rel_image(A.L, la, lb, ra, rb, Q(m), pre), R, "receiver " + show(A.L)); return; }
      std::vector<bool> vs(n, false); for (int j = 0; j < n; ++j) if (la[j] != 0) vs[j] = true;
      Lattice hi = cylinder(A.L, vs), lo = hi;
      if (lconst) { Vec h(n); for (int j = 0; j < n; ++j) h[j] = -ra[j]; lo = hull_halfspace(A.L, h, Q(lb - rb), ri); }   // lb REL ra.v + rb, w = v
      else if (pre) {
        // { v | exists w in L: la.w + lb REL ra.v + rb, w_i = v_i off lhs }: when rhs mentions a variable of lhs the v side is free
        // enough to satisfy the relation for every w; otherwise rhs(v) = rhs(w) and the relation restricts L itself.
        if (!common) { Vec h(n); for (int j = 0; j < n; ++j) h[j] = la[j] - ra[j]; lo = cylinder(hull_halfspace(A.L, h, Q(lb - rb), ri), vs); }
      }
      expect_between(op.name, cls, lo, hi, R, "receiver " + show(A.L));
    };
    return true; }
  if (n >= 1 && k < 90) { // bounded affine image / preimage
    bool pre = coin(); int v = rnd(0, n - 1); Linear_Expression lb = rexpr(n), ub = coin(25) ? lb : rexpr(n); int d = rand_den();
    op.name = pre ? "bounded_affine_preimage" : "bounded_affine_image"; t << "." << op.name << "(" << str(Variable(v)) << ", " << str(lb) << ", " << str(ub) << ", " << d << ")"; op.text = t.str();
    op.apply = [=](Grid& A, const Grid&) { if (pre) A.bounded_affine_preimage(Variable(v), lb, ub, d); else A.bounded_affine_image(Variable(v), lb, ub, d); };
    op.verify = [=](const Shadow& A, const Shadow&, const Shadow& R) {
      Q lbb, ubb; Vec la = vec_of(lb, n, lbb), ua = vec_of(ub, n, ubb);
      std::vector<bool> vs(n, false); vs[v] = true; Lattice hi = cylinder(A.L, vs);
      // lower bound by witnesses: pairs (x, y) of the relation with the source in the argument
      std::vector<Vec> pts = gen_points(A.L); Lattice lo = ref::lat_empty(n); std::vector<Vec> found;
      for (size_t i = 0; i < pts.size(); ++i) {
        const Vec& s = pts[i];
        if (!pre) { // y_var in [lb(s)/d, ub(s)/d]
          Q lo_v = (ref::dot(la, s) + lbb) / Q(d), hi_v = (ref::dot(ua, s) + ubb) / Q(d);
          if (lo_v > hi_v) continue;
          Vec y = s; y[v] = lo_v; found.push_back(y); y[v] = hi_v; found.push_back(y); y[v] = (lo_v + hi_v) / 2; found.push_back(y);
        } else { // x with x_i = s_i (i != var) and lb(x)/d <= s_var <= ub(x)/d
          std::vector<Q> cand; cand.push_back(Q(0)); cand.push_back(Q(1)); cand.push_back(Q(-7, 2)); cand.push_back(s[v]);
          Vec x0 = s; x0[v] = 0;
          if (la[v] != 0) cand.push_back(Q((Q(d) * s[v] - ref::dot(la, x0) - lbb) / la[v]));
          if (ua[v] != 0) cand.push_back(Q((Q(d) * s[v] - ref::dot(ua, x0) - ubb) / ua[v]));
          for (size_t c = 0; c < cand.size(); ++c) { Vec x = s; x[v] = cand[c]; Q l = (ref::dot(la, x) + lbb) / Q(d), u = (ref::dot(ua, x) + ubb) / Q(d); if (l <= s[v] && s[v] <= u) found.push_back(x); }
        }
      }
      checked(); hx::count("op_checks");
      std::string cls = cls_of(A);
      for (size_t i = 0; i < found.size(); ++i) if (!ref::member(R.L, found[i])) { violation("C05.op." + op.name + ".lost_points:" + cls, "point " + pplx::show(found[i]) + " is related to a point of the argument " + show(A.L) + " but not in the result " + show(R.L)); return; }
      expect_between(op.name, cls, lo, hi, R, "receiver " + show(A.L));
    };
    return true; }
  if (n >= 1 && k < 95) { // unconstrain
    bool set = coin(); std::vector<bool> vars(n, false); Variables_Set vs;
    if (set) { for (int i = 0; i < n; ++i) if (coin(40)) { vars[i] = true; vs.insert(Variable(i)); } } else { int v = rnd(0, n - 1); vars[v] = true; vs.insert(Variable(v)); }
    op.name = set ? "unconstrain_set" : "unconstrain"; t << "." << op.name << "(" << str(vs) << ")"; op.text = t.str();
    op.apply = [=](Grid& A, const Grid&) { if (set) A.unconstrain(vs); else A.unconstrain(Variable(*vs.begin())); };
    op.verify = [=](const Shadow& A, const Shadow&, const Shadow& R) { expect_same(op.name, cls_of(A), cylinder(A.L, vars), R, "receiver " + show(A.L)); };
    return true; }
  if (k < 98) { op.name = "topological_closure_assign"; op.text = ".topological_closure_assign()";
    op.apply = [](Grid& A, const Grid&) { A.topological_closure_assign(); };
    op.verify = [=](const Shadow& A, const Shadow&, const Shadow& R) { expect_same(op.name, cls_of(A), A.L, R, "receiver " + show(A.L)); };
    return true; }
  (void) profile;
  return false;
}

