// faultinj: scenarios and rejected calls on BD_Shape<mpq_class> (see harness/faultinj_shapes.hh).
#include "faultinj_shapes.hh"
using namespace Parma_Polyhedra_Library;
FI_REGISTER_SHAPE(BD_Shape<mpq_class>, "BD_Shape<mpq_class>", fi::K_BD, true);
