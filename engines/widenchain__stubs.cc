#include "wc_common.hh"
void wc::run_ppsgrid_case() {}
