#include "wc_common.hh"
void wc::run_grid_case() {}
void wc::run_pps_case(bool) {}
void wc::run_ppsgrid_case() {}
