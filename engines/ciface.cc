// ciface -- property C20: the C interface is a faithful, exception-tight wrapper.
//
// One case = one (entry point, scenario) pair, or (profile seq) a short random
// call sequence on one domain.  Every argument is built through the C
// constructors; the call is made inside try/catch (an escaping exception is a
// violation); results are compared with the C++ twin generated per schema by
// tools/gen_ciface.py, applied to pre-call copies.
//
// profiles: equiv      well-formed arguments, differential against the twin
//           illformed  one ill-formed argument (dimension mismatch, out-of-range
//                      variable, huge dimension, zero denominator, bad enum, ...)
//           alloc      k-th allocation failure (operator new + GMP) inside the call
//           timeout    ppl_set_deterministic_timeout / ppl_set_timeout expired inside the call
//           seq        6-12 calls on a persistent pool of one domain
#include "ciface_eng.hh"
#include <sanitizer/common_interface_defs.h>
#if defined(__SANITIZE_ADDRESS__)
#include <sanitizer/asan_interface.h>
#include <sanitizer/lsan_interface.h>
extern "C" int __sanitizer_get_ownership(const volatile void* p);
extern "C" size_t __sanitizer_get_allocated_size(const volatile void* p);
#define CIF_ASAN 1
#else
#define CIF_ASAN 0
#endif
#include <fcntl.h>
#include <pthread.h>

extern "C" const char* __asan_default_options() { return "allocator_may_return_null=1:detect_leaks=1"; }

namespace cif {

std::string var_str(size_t v) {
  ppl_io_variable_output_function_type* p = 0;
  ppl_io_get_variable_output_function(&p);
  const char* s = p ? p(v) : 0;
  return s ? s : "";
}

enum Mode { M_PLAIN, M_ALLOC, M_TIMEOUT_DET, M_TIMEOUT_REAL };
static void (*g_before_call)() = 0;   // armed after the arguments are built, right before the call

struct Mut { int kind; int arg; Mut() : kind(0), arg(-1) {} };
enum { MUT_NONE = 0, MUT_DIM_MISMATCH, MUT_BIG_VAR, MUT_HUGE, MUT_ZERO_DEN, MUT_BAD_ENUM, MUT_BAD_ARRAY, MUT_TOPO, MUT_NULL_PCS };
static const char* const MUT_NAME[] = { "wellformed", "dim_mismatch", "var_out_of_range", "huge_dimension", "zero_denominator", "bad_enum", "bad_index_in_array", "topology_mismatch", "null_pcs" };

struct Args {
  Val a[MAXA], st[MAXA];
  int obj[MAXA];
  std::vector<size_t> arr[MAXA];
  mpz_class mpz[MAXA];
  FILE* file[MAXA];
  std::string sin;
  bool ok, use_fork, truncated;
  std::vector<int> temps;      // objects to release right after the step (iterators, borrowed)
  Args() : ok(true), use_fork(false), truncated(false) { for (int i = 0; i < MAXA; ++i) { a[i].z = 0; st[i].z = 0; obj[i] = -1; file[i] = 0; } }
};

static bool is_dimensioned(int type) {
  int cat = type_table[type].cat;
  return cat == CAT_LE || cat == CAT_ROW || cat == CAT_SYS || cat == CAT_POLY || cat == CAT_DOM || cat == CAT_PSET;
}
static std::vector<int> enum_values(int enum_id) {
  std::string e = enum_id >= 0 ? enum_names[enum_id] : "";
  std::vector<int> v;
  if (e == "ppl_enum_Constraint_Type") { v.push_back(PPL_CONSTRAINT_TYPE_LESS_THAN); v.push_back(PPL_CONSTRAINT_TYPE_LESS_OR_EQUAL); v.push_back(PPL_CONSTRAINT_TYPE_EQUAL); v.push_back(PPL_CONSTRAINT_TYPE_GREATER_OR_EQUAL); v.push_back(PPL_CONSTRAINT_TYPE_GREATER_THAN); }
  else if (e == "ppl_enum_Generator_Type") { v.push_back(PPL_GENERATOR_TYPE_LINE); v.push_back(PPL_GENERATOR_TYPE_RAY); v.push_back(PPL_GENERATOR_TYPE_POINT); v.push_back(PPL_GENERATOR_TYPE_CLOSURE_POINT); }
  else if (e == "ppl_enum_Grid_Generator_Type") { v.push_back(PPL_GRID_GENERATOR_TYPE_LINE); v.push_back(PPL_GRID_GENERATOR_TYPE_PARAMETER); v.push_back(PPL_GRID_GENERATOR_TYPE_POINT); }
  else if (e == "ppl_enum_Bounded_Integer_Type_Width") { v.push_back(PPL_BITS_8); v.push_back(PPL_BITS_16); v.push_back(PPL_BITS_32); v.push_back(PPL_BITS_64); }
  else if (e == "ppl_enum_Bounded_Integer_Type_Representation") { v.push_back(PPL_UNSIGNED); v.push_back(PPL_SIGNED_2_COMPLEMENT); }
  else if (e == "ppl_enum_Bounded_Integer_Type_Overflow") { v.push_back(PPL_OVERFLOW_WRAPS); v.push_back(PPL_OVERFLOW_UNDEFINED); v.push_back(PPL_OVERFLOW_IMPOSSIBLE); }
  else { v.push_back(0); v.push_back(1); }
  return v;
}
static bool has_name(const ArgSpec& s, const char* n) { return strcmp(s.name, n) == 0; }
static bool schema_has(const Fn* f, const char* sub) { return strstr(f->schema, sub) != 0 || strstr(f->name, sub) != 0; }

// ---- the applicable ill-formed scenarios of a function ----------------------
static std::vector<Mut> mutations_of(const Fn* f) {
  std::vector<Mut> v;
  int first_dimd = -1;
  for (int k = 0; k < f->nargs; ++k) if (f->args[k].kind == K_HIN && is_dimensioned(f->args[k].type)) { first_dimd = k; break; }
  for (int k = 0; k < f->nargs; ++k) {
    const ArgSpec& s = f->args[k]; Mut m; m.arg = k;
    if (s.kind == K_HIN && is_dimensioned(s.type) && first_dimd >= 0 && k > first_dimd && !(f->flags & (F_TERM1 | F_TERM2))
        && !schema_has(f, "concatenate") && !schema_has(f, "assign_@TOPOLOGY@") && !schema_has(f, "ranking_function")) { m.kind = MUT_DIM_MISMATCH; v.push_back(m); }
    if (s.kind == K_HIN && type_table[s.type].cat == CAT_POLY && s.topo == 0 && first_dimd >= 0 && k > first_dimd
        && type_table[f->args[first_dimd].type].cat == CAT_POLY) { m.kind = MUT_TOPO; v.push_back(m); }
    if (s.kind == K_DIM && (has_name(s, "var") || has_name(s, "d") || has_name(s, "m")) && first_dimd >= 0 && !(f->flags & F_INDEX)
        && !strstr(f->name, "_has_")) {
      // (Box::has_upper/lower_bound: `var' in range is an asserted precondition)
      m.kind = MUT_BIG_VAR; v.push_back(m); m.kind = MUT_HUGE; v.push_back(m); }
    if (s.kind == K_DIM && first_dimd < 0 && has_name(s, "d")) { m.kind = MUT_HUGE; v.push_back(m); }
    if (s.kind == K_HIN && type_table[s.type].cat == CAT_COEF && s.is_const && (has_name(s, "d") || has_name(s, "m"))) { m.kind = MUT_ZERO_DEN; v.push_back(m); }
    if (s.kind == K_ENUM || (s.kind == K_INT && has_name(s, "complexity"))) { m.kind = MUT_BAD_ENUM; v.push_back(m); }
    if (s.kind == K_DIMARR && !(f->flags & (F_DIMARR_OUT | F_MAP))) { m.kind = MUT_BAD_ARRAY; v.push_back(m); }
    if (s.kind == K_CSPTR) { m.kind = MUT_NULL_PCS; v.push_back(m); }
  }
  return v;
}

// ---- argument synthesis ------------------------------------------------------
static int pick_pool(Case& c, int type, int dim, int topo, const Args& A) {
  std::vector<int> cand;
  for (size_t i = 0; i < c.objs.size(); ++i) {
    const Obj& o = c.objs[i];
    if (!o.alive || o.stale || !o.owned || o.owner >= 0 || o.type != type) continue;
    if (topo && o.topo != topo) continue;
    if (dim >= 0 && type_table[type].ops->dim(o.h) != dim) continue;
    bool used = false; for (int k = 0; k < MAXA; ++k) if (A.obj[k] == (int) i) used = true;   // never alias two arguments
    if (!used) cand.push_back((int) i);
  }
  if (cand.empty()) return -1;
  return cand[hx::rnd(0, (int) cand.size() - 1)];
}

static long obj_dim(Case& c, int idx) { return idx < 0 ? -1 : type_table[c.objs[idx].type].ops->dim(c.objs[idx].h); }

static void synth(Case& c, const Fn* f, const Mut& mut, bool reuse, Args& A) {
  const flags_t F = f->flags;
  int n = c.dim;
  int term_m = hx::coin(75) ? 1 : 2;
  // pass 1: non-iterator handles
  int recv = -1;          // first dimensioned handle argument
  int topo_call = 0;      // topology shared by the polyhedra of this call
  for (int k = 0; k < f->nargs && !c.failed; ++k) {
    const ArgSpec& s = f->args[k];
    if (s.kind != K_HIN) continue;
    const TypeInfo& ti = type_table[s.type];
    if (ti.cat == CAT_ITER) continue;
    int dim = n, topo = s.topo;
    if (ti.cat == CAT_POLY && !topo) { if (!topo_call) topo_call = c.topo; topo = topo_call; }
    if (F & F_DISJUNCT_TOPO) { if (k == 1) { int t2; disjunct_of(type_table[f->home].name, t2); topo = t2; } }
    if ((F & F_TERM1) && k == 0) dim = 2 * term_m;
    if (F & F_TERM2) { if (k == 0) dim = term_m; else if (k == 1) dim = 2 * term_m; }
    if (((F & F_TERM1) && k >= 1) || ((F & F_TERM2) && k >= 2)) dim = hx::rnd(0, 3);
    if (schema_has(f, "concatenate") && k == 1) dim = hx::rnd(0, 2);
    if (mut.arg == k && mut.kind == MUT_DIM_MISMATCH) dim = n + hx::rnd(1, 2);
    if (mut.arg == k && mut.kind == MUT_TOPO) topo = 3 - topo;
    if (ti.cat == CAT_SYS && topo == 0 && recv >= 0 && c.objs[recv].topo) topo = c.objs[recv].topo;
    int idx = -1;
    bool consumed = (F & F_DELETE) && k == 0;
    if (mut.arg == k && mut.kind == MUT_ZERO_DEN) idx = mk_coef(c, mpz_class(0));
    else if (ti.cat == CAT_COEF && s.is_const && (has_name(s, "d") || has_name(s, "m")) && !schema_has(f, "new_Congruence")) {
      // denominators / moduli: non-zero, occasionally negative
      idx = mk_coef(c, mpz_class(hx::coin(75) ? hx::rnd(1, 3) : -hx::rnd(1, 3)));
    }
    else {
      if (reuse && !consumed && is_dimensioned(s.type) && hx::coin(70)) idx = pick_pool(c, s.type, hx::coin(85) ? dim : -1, topo, A);
      if (idx < 0) idx = mk_object(c, s.type, dim, topo);
    }
    if (idx < 0) { A.ok = false; return; }
    A.obj[k] = idx; A.a[k].p = c.objs[idx].h;
    if (ti.cat == CAT_BORROWED) { A.temps.push_back(idx); }
    if (recv < 0 && is_dimensioned(s.type)) recv = idx;
  }
  if (c.failed) { A.ok = false; return; }
  // preconditions that are only asserted by the C++ library
  if ((F & (F_WIDEN | F_NARROW)) && A.obj[0] >= 0 && A.obj[1] >= 0
      && !((mut.arg == 0 || mut.arg == 1) && (mut.kind == MUT_DIM_MISMATCH || mut.kind == MUT_TOPO))) {
    std::string d = type_table[f->args[0].type].name;
    std::string g = "ppl_" + d + ((F & F_WIDEN) ? "_upper_bound_assign" : "_intersection_assign");
    int r = ccall(c, g, vp(A.a[0].p), vp(A.a[1].p));
    if (r != 0) { if (!c.failed) hx::inconclusive("precondition_not_established"); A.ok = false; return; }
  }
  long rdim = obj_dim(c, recv);
  if (rdim < 0) rdim = n;
  // pass 2: iterators
  int first_it = -1;
  for (int k = 0; k < f->nargs && !c.failed; ++k) {
    const ArgSpec& s = f->args[k];
    if (s.kind != K_HIN || type_table[s.type].cat != CAT_ITER) continue;
    const TypeInfo& ti = type_table[s.type];
    int cont = -1;
    if (first_it >= 0) cont = c.objs[A.obj[first_it]].owner;
    else for (int j = 0; j < f->nargs; ++j) if (f->args[j].kind == K_HIN && f->args[j].type == ti.container && A.obj[j] >= 0) { cont = A.obj[j]; break; }
    if (cont < 0) {
      for (int attempt = 0; attempt < 4 && cont < 0; ++attempt) {
        int x = mk_object(c, ti.container, n, 0);
        if (x < 0) { A.ok = false; return; }
        if (type_table[ti.container].cat == CAT_BORROWED) A.temps.push_back(x);
        if (ti.ops->csize(c.objs[x].h) > 0 || attempt == 3) cont = x;
      }
    }
    int where = 2;
    if (first_it < 0) {
      if (F & (F_ITER_INC | F_ITER_DEREF)) where = 3;
      if (F & F_ITER_DEC) where = 4;
    }
    if (F & F_ITER_SEAT) where = hx::rnd(0, 2);
    long sz = ti.ops->csize(c.objs[cont].h);
    if (where == 4) { if (sz == 0) { hx::inconclusive("empty_container"); A.ok = false; return; } where = 1; }
    int it = mk_iterator(c, s.type, cont, where);
    if (it < 0) { A.ok = false; return; }
    if ((F & F_ITER_DEC) && first_it < 0 && where == 1 && hx::coin(50) && sz > 1) {
      // move somewhere in (begin, end]
    }
    A.obj[k] = it; A.a[k].p = c.objs[it].h; A.temps.push_back(it);
    if (first_it < 0) first_it = k;
    else if (F & F_ITER_RANGE) {
      long p1 = ti.ops->ipos(c.objs[cont].h, c.objs[A.obj[first_it]].h), p2 = ti.ops->ipos(c.objs[cont].h, c.objs[it].h);
      if (p1 > p2) { std::swap(A.obj[first_it], A.obj[k]); std::swap(A.a[first_it].p, A.a[k].p); }
    }
  }
  if (c.failed) { A.ok = false; return; }
  // pass 3: scalars, arrays, outputs
  std::vector<size_t> fold_ds;
  for (int k = 0; k < f->nargs; ++k) {
    const ArgSpec& s = f->args[k];
    bool mutated = mut.arg == k;
    switch (s.kind) {
    case K_HIN: break;
    case K_HOUT: case K_HREF: case K_PSTR: case K_PCSTR: A.st[k].p = 0; A.a[k].p = &A.st[k]; break;
    case K_PDIM: case K_PSIZE: A.st[k].z = 0x5a5a; A.a[k].p = &A.st[k]; break;
    case K_PINT: A.st[k].z = 0; A.st[k].i = -77; A.a[k].p = &A.st[k]; break;
    case K_PUINT:
      A.st[k].z = 0; A.st[k].u = (unsigned) hx::rnd(0, 2);
      A.a[k].p = (has_name(s, "tp") && hx::coin(20)) ? 0 : &A.st[k];
      break;
    case K_DIM: {
      size_t v = 0;
      if (mutated && mut.kind == MUT_HUGE) v = (size_t) -1 - (size_t) hx::rnd(0, 1);
      else if (mutated && mut.kind == MUT_BIG_VAR) v = (size_t) rdim + (size_t) hx::rnd(has_name(s, "var") ? 0 : 1, 3);
      else if (has_name(s, "var")) {
        if (rdim == 0 && strstr(f->name, "_has_")) { hx::inconclusive("no_variable_for_asserted_precondition"); A.ok = false; return; }
        v = rdim > 0 ? (size_t) hx::rnd(0, (int) rdim - 1) : 0;
      }
      else if (has_name(s, "d")) {
        if (schema_has(f, "from_space_dimension") || schema_has(f, "new_MIP_Problem") || schema_has(f, "new_PIP_Problem")) v = (size_t) n;
        else if (schema_has(f, "with_dimension")) v = (size_t) hx::rnd(0, 3);
        else if (schema_has(f, "add_space_dimensions")) v = (size_t) hx::rnd(0, 2);
        else if (schema_has(f, "remove_higher")) v = (size_t) hx::rnd(0, (int) rdim);
        else v = rdim > 0 ? (size_t) hx::rnd(0, (int) rdim - 1) : 0;   // a variable index (expand, fold, big parameter)
      }
      else if (has_name(s, "m")) v = (size_t) hx::rnd(0, 2);
      else if (has_name(s, "i")) {
        long cnt = 0;
        if (type_table[f->args[0].type].cat == CAT_MIP) { const MIP_Problem& p = *static_cast<const MIP_Problem*>(A.a[0].p); cnt = p.constraints_end() - p.constraints_begin(); }
        else { const PIP_Problem& p = *static_cast<const PIP_Problem*>(A.a[0].p); cnt = p.constraints_end() - p.constraints_begin(); }
        if (cnt == 0) { hx::inconclusive("no_constraint_to_index"); A.ok = false; return; }
        v = (size_t) hx::rnd(0, (int) cnt - 1);
      }
      else v = (size_t) hx::rnd(0, 2);
      A.a[k].z = v;
      break;
    }
    case K_SIZE: if (!(k > 0 && f->args[k - 1].kind == K_DIMARR)) A.a[k].z = 0; break;    // filled with the preceding / following array (an array before it has already set it)
    case K_INT: {
      int v = 0;
      if (mutated && mut.kind == MUT_BAD_ENUM) v = hx::coin() ? 7 : -3;
      else if (has_name(s, "complexity")) v = hx::rnd(0, 2);
      else if (has_name(s, "mode") || has_name(s, "m")) v = hx::coin() ? PPL_OPTIMIZATION_MODE_MAXIMIZATION : PPL_OPTIMIZATION_MODE_MINIMIZATION;
      else if (has_name(s, "name")) v = type_table[f->args[0].type].cat == CAT_MIP ? PPL_MIP_PROBLEM_CONTROL_PARAMETER_NAME_PRICING
           : (hx::coin() ? PPL_PIP_PROBLEM_CONTROL_PARAMETER_NAME_CUTTING_STRATEGY : PPL_PIP_PROBLEM_CONTROL_PARAMETER_NAME_PIVOT_ROW_STRATEGY);
      else if (has_name(s, "value")) {
        if (type_table[f->args[0].type].cat == CAT_MIP) { int vv[3] = { PPL_MIP_PROBLEM_CONTROL_PARAMETER_PRICING_STEEPEST_EDGE_FLOAT, PPL_MIP_PROBLEM_CONTROL_PARAMETER_PRICING_STEEPEST_EDGE_EXACT, PPL_MIP_PROBLEM_CONTROL_PARAMETER_PRICING_TEXTBOOK }; v = vv[hx::rnd(0, 2)]; }
        else { int vv[4] = { PPL_PIP_PROBLEM_CONTROL_PARAMETER_CUTTING_STRATEGY_FIRST, PPL_PIP_PROBLEM_CONTROL_PARAMETER_CUTTING_STRATEGY_DEEPEST, PPL_PIP_PROBLEM_CONTROL_PARAMETER_CUTTING_STRATEGY_ALL, PPL_PIP_PROBLEM_CONTROL_PARAMETER_PIVOT_ROW_STRATEGY_FIRST }; v = vv[hx::rnd(0, 3)]; }
      }
      else v = hx::rnd(0, 1);
      A.a[k].i = v;
      break;
    }
    case K_UINT:
      if (has_name(s, "disjuncts")) A.a[k].u = (unsigned) hx::rnd(1, 3);
      else if (has_name(s, "complexity_threshold")) A.a[k].u = (unsigned) hx::rnd(0, 8);
      else if (has_name(s, "p")) A.a[k].u = (unsigned) hx::rnd(1, 200);
      else A.a[k].u = (unsigned) hx::rnd(0, 3);
      break;
    case K_ULONG: A.a[k].ul = (unsigned long) hx::rnd(1, 1000); break;
    case K_ENUM: {
      std::vector<int> vals = enum_values(s.enum_id);
      A.a[k].i = (mutated && mut.kind == MUT_BAD_ENUM) ? (hx::coin() ? 99 : -1) : vals[hx::rnd(0, (int) vals.size() - 1)];
      break;
    }
    case K_DIMARR: {
      std::vector<size_t>& v = A.arr[k];
      if (F & F_DIMARR_OUT) v.assign(16, (size_t) 0x5a5a);
      else if (F & F_MAP) {
        // injective partial function on [0, rdim)
        std::vector<size_t> img; for (long i = 0; i < rdim; ++i) img.push_back((size_t) i);
        std::shuffle(img.begin(), img.end(), hx::rng());
        size_t kept = 0;
        // boundary shapes of the partial function are drawn on purpose: only the first / only the last index
        // defined, everywhere undefined, total; otherwise each index is undefined with probability 1/4
        int shape = hx::rnd(0, 9);
        for (long i = 0; i < rdim; ++i) {
          bool undef = shape == 0 ? (i != 0) : shape == 1 ? (i != rdim - 1) : shape == 2 ? true : shape == 3 ? false : hx::coin(25);
          if (undef) v.push_back(not_a_dimension()); else v.push_back(0), ++kept;
        }
        // images 0..kept-1 in shuffled order
        std::vector<size_t> tgt; for (size_t i = 0; i < kept; ++i) tgt.push_back(i);
        std::shuffle(tgt.begin(), tgt.end(), hx::rng());
        size_t q = 0; for (size_t i = 0; i < v.size(); ++i) if (v[i] != not_a_dimension()) v[i] = tgt[q++];
      }
      else {
        for (long i = 0; i < rdim; ++i) if (hx::coin(40)) v.push_back((size_t) i);
        if (!v.empty() && hx::coin(15)) v.push_back(v[0]);    // duplicates are documented as innocuous
        if (mutated && mut.kind == MUT_BAD_ARRAY) v.push_back((size_t) rdim + (size_t) hx::rnd(0, 2));
        if (schema_has(f, "fold_space_dimensions")) fold_ds = v;
      }
      if (v.empty()) v.reserve(1);
      A.a[k].p = v.empty() ? (void*) &A.st[k] : (void*) &v[0];
      // the element count is the neighbouring size_t argument
      int nk = -1;
      if (k + 1 < f->nargs && f->args[k + 1].kind == K_SIZE) nk = k + 1;
      else if (k > 0 && f->args[k - 1].kind == K_SIZE) nk = k - 1;
      if (nk >= 0 && !(F & F_DIMARR_OUT)) A.a[nk].z = v.size();
      break;
    }
    case K_CSPTR: {
      if ((mutated && mut.kind == MUT_NULL_PCS) || (mut.kind == MUT_NONE && hx::coin(25))) { A.a[k].p = 0; A.use_fork = true; }
      else {
        // a guard over the wrapped variables only (anything else is documented as undefined)
        int cs;
        void* h = 0;
        if (ccall(c, "ppl_new_Constraint_System", vp(&h)) != 0) { A.ok = false; return; }
        cs = add_obj(c, h, type_id("Constraint_System"), true, -1);
        A.obj[k] = cs; A.st[k].p = h; A.a[k].p = &A.st[k];
      }
      break;
    }
    case K_FILE: {
      FILE* fp = tmpfile();
      if (!fp) { hx::inconclusive("tmpfile"); A.ok = false; return; }
      A.file[k] = fp; A.a[k].p = fp;
      break;
    }
    case K_MPZ: A.mpz[k] = mpz_class(hx::rnd(-1000, 1000)); if (hx::coin(15)) A.mpz[k] *= mpz_class("1000000000000000000000"); A.a[k].p = A.mpz[k].get_mpz_t(); break;
    default: break;
    }
  }
  // fold: the destination must not be among the folded dimensions
  if (schema_has(f, "fold_space_dimensions") && mut.kind == MUT_NONE) {
    for (int k = 0; k < f->nargs; ++k) if (f->args[k].kind == K_DIM && has_name(f->args[k], "d")) {
      std::vector<size_t> cand; for (long i = 0; i < rdim; ++i) if (std::find(fold_ds.begin(), fold_ds.end(), (size_t) i) == fold_ds.end()) cand.push_back((size_t) i);
      if (!cand.empty()) A.a[k].z = cand[hx::rnd(0, (int) cand.size() - 1)];
    }
  }
  // ascii_load: the stream holds the dump of another object of the same type
  if (F & F_IO_FILE_IN) {
    const ArgSpec& s0 = f->args[0];
    const TypeInfo& ti = type_table[s0.type];
    if (ti.cat == CAT_BORROWED) A.sin = ti.ops->dump(A.a[0].p);
    else {
      int other = mk_object(c, s0.type, n, c.objs[A.obj[0]].topo);
      if (other < 0) { A.ok = false; return; }
      A.sin = ti.ops->dump(c.objs[other].h);
    }
    if (hx::coin(12)) { A.sin = A.sin.substr(0, A.sin.size() / 2); A.truncated = true; }   // truncated: must be refused with PPL_STDIO_ERROR
    for (int k = 0; k < f->nargs; ++k) if (A.file[k]) { fputs(A.sin.c_str(), A.file[k]); rewind(A.file[k]); }
  }
  const bool casts_topology = schema_has(f, "@UB_EXACT@") || schema_has(f, "positive_time_elapse") || schema_has(f, "linear_@PARTITION@");
  if (mut.kind == MUT_BAD_ENUM || mut.kind == MUT_HUGE || (mut.kind == MUT_TOPO && casts_topology)) A.use_fork = true;   // may corrupt memory instead of being refused: isolated
}

// Genuine defects of the core library (not of the C interface) that kill the process: the call is
// not made, the avoidance is counted, the defect is described in the engine report.
static bool known_core_defect(Case& c, const Fn* f, const Args& A) {
  (void) c;
  const char* home = f->home >= 0 ? type_table[f->home].name : "";
  (void) home; (void) A;   // (none at present: the two that were needed have been repaired in the tree)
  return false;
}

static std::string describe(Case& c, const Fn* f, const Args& A) {
  std::ostringstream o; o << f->name << "(";
  for (int k = 0; k < f->nargs; ++k) {
    const ArgSpec& s = f->args[k]; if (k) o << ", ";
    o << s.name << "=";
    switch (s.kind) {
    case K_HIN:
      if (A.obj[k] >= 0 && type_table[s.type].cat == CAT_ITER && c.objs[A.obj[k]].owner >= 0) {
        const Obj& ow = c.objs[c.objs[A.obj[k]].owner];
        o << type_table[s.type].name << "{at " << type_table[s.type].ops->ipos(ow.h, c.objs[A.obj[k]].h) << " of " << type_table[s.type].ops->csize(ow.h) << "}";
        break;
      }
      { std::string d = A.obj[k] >= 0 ? type_table[s.type].ops->dump(c.objs[A.obj[k]].h) : "?"; if (d.size() > 160) d = d.substr(0, 160) + "..."; for (size_t i = 0; i < d.size(); ++i) if (d[i] == '\n') d[i] = ' '; o << type_table[s.type].name << "{" << d << "}"; break; }
    case K_DIM: case K_SIZE: o << A.a[k].z; break;
    case K_INT: case K_ENUM: o << A.a[k].i; break;
    case K_UINT: o << A.a[k].u; break;
    case K_ULONG: o << A.a[k].ul; break;
    case K_DIMARR: o << "["; for (size_t i = 0; i < A.arr[k].size(); ++i) o << (i ? "," : "") << (long) A.arr[k][i]; o << "]"; break;
    case K_PUINT: if (A.a[k].p) o << "&" << A.st[k].u; else o << "NULL"; break;
    case K_CSPTR: o << (A.a[k].p ? "&cs" : "NULL"); break;
    case K_MPZ: o << A.mpz[k]; break;
    default: o << "out"; break;
    }
  }
  o << ")";
  return o.str();
}

// ---- checks common to every call -------------------------------------------------
static int expected_code_of_exception(int cls) { return cls; }

static bool check_tight(Case& c, const Fn* f, const CallResult& cr, const std::string& what) {
  std::string pat = f->pattern;
  hx::checked(3);
  // triage: the floating point box wrap_assign with 64 bits and wrapping overflow is the C17 finding (1ULL << 64 in the interval code)
  std::string crash_cls;
  if (pat.find("wrap_assign") != std::string::npos && what.compare(0, 15, "ppl_Double_Box_") == 0 && what.find(" w=64,") != std::string::npos && what.find(" o=0,") != std::string::npos) crash_cls = ":float-box+64-bit+wraps";
  if (crash_cls.empty() && what.find("[bad_enum]") != std::string::npos) crash_cls = ":bad_enum";   // an out-of-range enum value that is not rejected (known finding) may also loop or die
  if (cr.crashed) { viol(c, "C20.code." + pat + ".crash" + crash_cls, what + " died in the isolated child (" + (cr.crash_sig > 0 ? "signal " + itos(cr.crash_sig) : "sanitizer report, exit status " + itos(-cr.crash_sig)) + ")"); return false; }
  if (cr.escaped) { viol(c, "C20.escape." + pat, what + " let an exception cross the language boundary: " + cr.exc); return false; }
  if (cr.r < 0) {
    hx::count(std::string("ret.") + code_name(cr.r));
    if (!strcmp(code_name(cr.r), "UNDOCUMENTED_NEGATIVE")) { viol(c, "C20.code." + pat + ".undocumented", what + " returned " + itos(cr.r)); return false; }
    if (cr.r == PPL_STDIO_ERROR) {
      if (cr.hcount != 0) { viol(c, "C20.handler.called_for_stdio_error", what + ": handler called " + itos(cr.hcount) + " times"); return false; }
    }
    else {
      if (cr.hcount == 0) { viol(c, "C20.handler.missing", what + " returned " + code_name(cr.r) + " without invoking the error handler"); return false; }
      if (cr.hcount > 1) { viol(c, "C20.handler.multiple", what + " returned " + code_name(cr.r) + ", handler invoked " + itos(cr.hcount) + " times"); return false; }
      if (cr.hcode != cr.r) { viol(c, "C20.handler.code_mismatch", what + " returned " + code_name(cr.r) + " but the handler received " + code_name(cr.hcode)); return false; }
    }
  }
  else {
    hx::count("ret.OK");
    if (cr.hcount != 0) { viol(c, "C20.handler.called_on_success", what + " returned " + itos(cr.r) + " but the handler was invoked with " + code_name(cr.hcode)); return false; }
  }
  return true;
}

// BD_Shape_mpz_class -> BD_Shape, Pointset_Powerset_C_Polyhedron -> Pointset_Powerset, Double_Box -> Box, ...
static std::string type_family(const std::string& n) {
  if (n.find("Pointset_Powerset") == 0) return "Pointset_Powerset";
  if (n.find("_Product_") != std::string::npos) return n.substr(0, n.find("_Product_") + 8);
  if (n.find("_Box") != std::string::npos) return "Box";
  const char* suf[] = { "_mpz_class", "_mpq_class", "_double", "_float", "_long_double", "_int8_t", "_int16_t", "_int32_t", "_int64_t" };
  for (size_t i = 0; i < sizeof suf / sizeof suf[0]; ++i) { size_t l = strlen(suf[i]); if (n.size() > l && n.compare(n.size() - l, l, suf[i]) == 0) return n.substr(0, n.size() - l); }
  return n;
}

static bool check_handles_ok(Case& c, const Fn* f, const Args& A, const CallResult& cr, const std::string& what, bool isolate) {
  for (int k = 0; k < f->nargs; ++k) {
    if (A.obj[k] < 0) continue;
    Obj& o = c.objs[A.obj[k]];
    if (!o.alive) continue;
    if ((f->flags & F_IO_FILE_IN) && (cr.r < 0 || A.truncated) && k == 0) continue;       // state after a refused ascii_load is unspecified
    const Fn* okf = find_fn(std::string("ppl_") + type_table[o.type].name + "_OK");
    if (!okf || !okf->call) continue;
    int r;
    std::string cls = cr.r < 0 ? std::string("after_error:") + code_name(cr.r) : "after_success";
    if (isolate) {
      // an interrupted operation may leave an object on which OK() itself crashes: look at it from a child process
      Val a[MAXA]; a[0].p = o.h;
      hx::count("calls.forked");
      CallResult k2 = forked([okf, &a]() { return okf->call(a); }, false);
      if (k2.crashed || k2.escaped) {
        viol(c, std::string("C20.handle.not_ok.") + type_family(type_table[o.type].name) + "." + cls + ":crash", what + ": " + okf->name + " on argument " + f->args[k].name + " crashes afterwards");
        o.alive = false; o.owned = false;     // not released: its destructor cannot be trusted either
#if CIF_ASAN
        __lsan_ignore_object(o.h);
#endif
        return false;
      }
      r = k2.r;
    }
    else r = ccall(c, okf->name, vp(o.h));
    hx::checked(1);
    if (c.failed) return false;
    if (r <= 0) {
      // after a call that reported success, a false OK() is a defect of the C++ domain underneath (the business of C01-C10's monitors),
      // not of the interface layer C20 speaks about: counted, and the object is retired; after an error it is C20's "objects stay usable"
      if (cr.r >= 0) { hx::count("handle.not_ok_after_success." + type_family(type_table[o.type].name)); release_obj(c, A.obj[k]); continue; }
      viol(c, std::string("C20.handle.not_ok.") + type_family(type_table[o.type].name) + "." + cls, what + ": argument " + f->args[k].name + " fails " + okf->name + " (" + itos(r) + ")");
      return false;
    }
  }
  return true;
}

static bool heap_object(const void* p, size_t need) {
#if CIF_ASAN
  return p && __sanitizer_get_ownership(p) && __sanitizer_get_allocated_size(p) >= need;
#else
  (void) need; return p != 0;
#endif
}

// True iff p lies in the stack of this thread (below the caller's frames, i.e. in a frame that
// has already returned) or in an ASan fake-stack frame: a handle with such a value is dangling.
static bool dead_stack_address(const void* p) {
  if (!p) return false;
#if CIF_ASAN
  void* beg = 0; void* end = 0;
  void* fs = __asan_get_current_fake_stack();
  if (fs && __asan_addr_is_in_fake_stack(fs, const_cast<void*>(p), &beg, &end)) return true;
  if (__asan_address_is_poisoned(p)) return true;     // a fake-stack frame that has returned (or freed memory)
#endif
  pthread_attr_t at; void* lo = 0; size_t sz = 0;
  if (pthread_getattr_np(pthread_self(), &at) != 0) return false;
  pthread_attr_getstack(&at, &lo, &sz); pthread_attr_destroy(&at);
  return (const char*) p >= (const char*) lo && (const char*) p < (const char*) lo + sz;
}

static int exception_code(const std::exception& e) {
  if (dynamic_cast<const std::bad_alloc*>(&e)) return PPL_ERROR_OUT_OF_MEMORY;
  if (dynamic_cast<const std::invalid_argument*>(&e)) return PPL_ERROR_INVALID_ARGUMENT;
  if (dynamic_cast<const std::domain_error*>(&e)) return PPL_ERROR_DOMAIN_ERROR;
  if (dynamic_cast<const std::length_error*>(&e)) return PPL_ERROR_LENGTH_ERROR;
  if (dynamic_cast<const std::logic_error*>(&e)) return PPL_ERROR_LOGIC_ERROR;
  if (dynamic_cast<const std::overflow_error*>(&e)) return PPL_ARITHMETIC_OVERFLOW;
  if (dynamic_cast<const std::runtime_error*>(&e)) return PPL_ERROR_INTERNAL_ERROR;
  return PPL_ERROR_UNKNOWN_STANDARD_EXCEPTION;
}

static std::string read_file(FILE* fp) { std::string s; rewind(fp); char b[4096]; size_t n; while ((n = fread(b, 1, sizeof b, fp)) > 0) s.append(b, n); return s; }

struct StdoutCapture {
  int saved; FILE* tmp; bool active;
  StdoutCapture() : saved(-1), tmp(0), active(false) {}
  void begin() { fflush(stdout); tmp = tmpfile(); if (!tmp) return; saved = dup(1); if (saved < 0) return; dup2(fileno(tmp), 1); active = true; }
  std::string end() { if (!active) return ""; fflush(stdout); dup2(saved, 1); close(saved); active = false; std::string s = read_file(tmp); fclose(tmp); tmp = 0; return s; }
};

static void release_temps(Case& c, Args& A) {
  for (int k = 0; k < MAXA; ++k) if (A.file[k]) { fclose(A.file[k]); A.file[k] = 0; }
  for (size_t i = A.temps.size(); i-- > 0; ) release_obj(c, A.temps[i]);
  // iterators of a container that may have been modified are never reused: all temps are gone
}

// ---- one call, differential and tightness checks ------------------------------------
struct StepOut { bool called, flag_after, flag_after_reset; CallResult cr; StepOut() : called(false), flag_after(false), flag_after_reset(false) {} };

static StepOut step(Case& c, const Fn* f, const Mut& mut, Mode mode, long arm_k, bool reuse, int dry_r = 0) {
  StepOut so;
  Args A;
  synth(c, f, mut, reuse, A);
  if (!A.ok || c.failed) { release_temps(c, A); return so; }
  if (mut.kind == MUT_NONE && known_core_defect(c, f, A)) { release_temps(c, A); return so; }
  const flags_t F = f->flags;
  std::string what = describe(c, f, A) + " [" + MUT_NAME[mut.kind] + "]";
  hx::tr(what + "\n");
  hx::count(std::string("scenario.") + MUT_NAME[mut.kind]);

  // every argument built through the interface must be a well-formed object before the call
  for (int k = 0; k < f->nargs; ++k) if (A.obj[k] >= 0 && f->args[k].kind == K_HIN) {
    const TypeInfo& ti = type_table[f->args[k].type];
    if (ti.cat == CAT_ITER || ti.cat == CAT_BORROWED) continue;
    int okv = 1;
    try { okv = ti.ops->ok(A.a[k].p); } catch (...) { okv = 0; }
    hx::checked(1);
    if (!okv) {
      // same remark: the builder calls all reported success; a domain-level defect, counted (the call is skipped)
      hx::count("handle.not_ok_built_object." + type_family(ti.name));
      release_temps(c, A); return so;
    }
  }
  // Ill-formed arguments may crash the library instead of being refused: the call is first tried in a
  // child process; only if it survives there are the twin and the real call run in this process.
  if (mode == M_PLAIN && mut.kind != MUT_NONE && !A.use_fork && !(F & F_IO_STDOUT)) {
    Val* pv = A.a;
    hx::count("calls.forked");
    CallResult probe = forked([f, pv]() { return f->call(pv); }, false);
    for (int k = 0; k < MAXA; ++k) if (A.file[k]) {
      if (F & F_IO_FILE_IN) rewind(A.file[k]);
      else { rewind(A.file[k]); if (ftruncate(fileno(A.file[k]), 0) != 0) {} }
    }
    if (probe.crashed) {
      hx::checked(1);
      viol(c, std::string("C20.code.") + f->pattern + ".crash", what + " died in the isolated child (" + (probe.crash_sig > 0 ? "signal " + itos(probe.crash_sig) : "sanitizer report, exit status " + itos(-probe.crash_sig)) + ")");
      release_temps(c, A); so.called = true; so.cr = probe; return so;
    }
  }
  // distinct-configuration rule: a call whose receiver is a domain element counts as non-trivial
  // only if that element is neither empty nor universe (decided on a copy, before the call)
  bool trivial_recv = false; std::string recv_class = "-";
  if (f->nargs > 0 && f->args[0].kind == K_HIN && A.obj[0] >= 0 && type_table[f->args[0].type].ops->trivial) {
    trivial_recv = type_table[f->args[0].type].ops->trivial(A.a[0].p) != 0;
    recv_class = trivial_recv ? "trivial" : "proper";
  }
  // ---- twin on pre-call copies ----
  Twin t; t.f = f; t.a = A.a; t.has_sout = false; t.ret = 0; t.sin = A.sin;
  void* pre[MAXA]; std::string dump_before[MAXA], tdump_before[MAXA];
  for (int k = 0; k < MAXA; ++k) { t.cp[k] = 0; t.obj[k] = 0; t.owned_ref[k] = false; t.out[k] = A.st[k]; pre[k] = 0; }
  bool use_twin = f->twin && mode == M_PLAIN && !(mut.kind == MUT_BAD_ENUM) && !(A.use_fork);
  int texc = 0; std::string twhat;
  if (use_twin) {
    for (int k = 0; k < f->nargs; ++k) {
      const ArgSpec& s = f->args[k];
      if (s.kind == K_HIN && A.obj[k] >= 0) {
        const TypeOps* ops = type_table[s.type].ops;
        t.cp[k] = ops->clone(A.a[k].p);
        if (s.is_const && type_table[s.type].cat != CAT_BORROWED && type_table[s.type].cat != CAT_ITER && type_table[s.type].cat != CAT_MIP && type_table[s.type].cat != CAT_PIP) {
          pre[k] = ops->clone(A.a[k].p);
          dump_before[k] = ops->dump(A.a[k].p); tdump_before[k] = ops->dump(t.cp[k]);
        }
      }
      else if (s.kind == K_MPZ) t.cp[k] = new mpz_class(A.mpz[k]);
      else if (s.kind == K_CSPTR && A.a[k].p) t.cp[k] = type_table[s.type].ops->clone(A.st[k].p);
    }
    try { f->twin(t); }
    catch (const Undefined&) { use_twin = false; hx::count("twin_undefined"); }
    catch (const std::exception& e) { texc = exception_code(e); twhat = e.what(); }
    catch (...) { texc = PPL_ERROR_UNEXPECTED_ERROR; twhat = "non-standard"; }
  }

  // ---- the call ----
  StdoutCapture cap;
  if (F & F_IO_STDOUT) cap.begin();
  hx::count("calls"); hx::count(std::string("calls.") + (f->home >= 0 ? type_table[f->home].name : "core"));
  Val* av = A.a;
  std::function<int()> thunk = [f, av]() { return f->call(av); };
  if (g_before_call) g_before_call();
  CallResult cr = A.use_fork ? forked(thunk, false) : guarded(thunk, mode == M_ALLOC ? arm_k : 0);
  if (A.use_fork) hx::count("calls.forked");
  std::string captured; if (F & F_IO_STDOUT) captured = cap.end();
  so.called = true; so.cr = cr;
  so.flag_after = abandon_expensive_computations != 0;
  if (mode == M_TIMEOUT_DET || mode == M_TIMEOUT_REAL) { ppl_reset_timeout(); ppl_reset_deterministic_timeout(); so.flag_after_reset = abandon_expensive_computations != 0; abandon_expensive_computations = 0; }

  bool ok = check_tight(c, f, cr, what);
  std::string pat = f->pattern, sch = f->schema;
  // an out-of-range enumeration value must be refused, never silently accepted or crash
  if (ok && mut.kind == MUT_BAD_ENUM) {
    hx::checked(1);
    if (cr.r >= 0) {
      bool created_nothing = false;
      for (int k = 0; k < f->nargs; ++k) if (f->args[k].kind == K_HOUT && !A.use_fork && A.st[k].p == 0) created_nothing = true;
      viol(c, "C20.code." + pat + ".bad_enum_accepted", what + " returned " + itos(cr.r) + " for an out-of-range enumeration value" + (created_nothing ? " and created no object" : ""));
      ok = false;
    }
  }
  // a dimension beyond every domain's maximum must be refused (PPL_ERROR_LENGTH_ERROR or INVALID_ARGUMENT)
  if (ok && mut.kind == MUT_HUGE) {
    hx::checked(1);
    if (cr.r >= 0) { viol(c, "C20.code." + pat + ".huge_dimension_accepted", what + " returned " + itos(cr.r)); ok = false; }
  }
  // two polyhedra of different topologies: refused by every C++ operation (invalid_argument)
  if (ok && mut.kind == MUT_TOPO && A.use_fork) {
    hx::checked(1);
    if (cr.r >= 0) { viol(c, "C20.code." + pat + ".topology_mismatch_accepted", what + " returned " + itos(cr.r) + " (the interface static_casts the argument to the receiver's class, so the library's topology check never sees the mismatch)"); ok = false; }
  }
  if (ok && mode == M_ALLOC && cr.fired) {
    hx::checked(1); hx::count("alloc.failure_points");
    if (cr.r >= 0) hx::count("alloc.absorbed");
    else if (cr.r == dry_r) hx::count("alloc.same_error_as_without_failure");
    else if (cr.r != PPL_ERROR_OUT_OF_MEMORY) { viol(c, "C20.code." + pat + ".oom_reported_as_" + code_name(cr.r), what + ": allocation " + itos(arm_k) + " failed, returned " + code_name(cr.r)); ok = false; }
  }

  // ---- differential part ----
  if (ok && use_twin) {
    hx::count("twin_checked"); hx::checked(1);
    if (texc) {
      hx::count(std::string("twin_exception.") + code_name(texc));
      if (cr.r >= 0) { viol(c, "C20.code." + pat + ".error_not_reported:" + code_name(texc), what + ": the C++ operation throws (" + twhat + ") but the C function returned " + itos(cr.r)); ok = false; }
      else if (cr.r != texc) { viol(c, "C20.code." + pat + ".expected_" + code_name(texc) + "_got_" + code_name(cr.r), what + ": C++ exception: " + twhat + "; handler text: " + g_handler.desc); ok = false; }
    }
    else if (t.ret < 0 && cr.r == t.ret) { hx::count("twin_expected_error_return"); }
    else if (cr.r < 0) {
      viol(c, "C20.code." + pat + ".spurious_" + code_name(cr.r), what + ": the C++ operation succeeds, the C function reports " + g_handler.desc); ok = false;
    }
    else {
      // return value: Boolean answers as positive / zero, everything else equal
      bool same = (t.ret == 0 || t.ret == 1) ? ((cr.r > 0) == (t.ret > 0)) : (cr.r == t.ret);
      if (!same) { viol(c, "C20.equiv." + sch + ".return_value", what + ": C returned " + itos(cr.r) + ", C++ twin " + itos(t.ret)); ok = false; }
      if (ok && f->post) { const char* msg = f->post(t); hx::checked(1); if (msg) { viol(c, "C20.equiv." + sch + ".postcondition", what + ": " + msg); ok = false; } }
      for (int k = 0; ok && k < f->nargs; ++k) {
        const ArgSpec& s = f->args[k];
        const TypeOps* ops = s.type >= 0 ? type_table[s.type].ops : 0;
        hx::checked(1);
        // shapes / boxes over floating point bounds: equality goes through a closure that rounds, so "the same value" is not decidable by it
        const std::string tname_k = s.type >= 0 ? std::string(type_table[s.type].name) : std::string();
        const bool inexact_T = tname_k.find("_double") != std::string::npos || tname_k.find("Double_Box") != std::string::npos || tname_k.find("_float") != std::string::npos;
        bool aliases_mutable = false;   // the same handle also passed as a non-const argument: it is allowed to change
        if (s.kind == K_HIN) for (int m2 = 0; m2 < f->nargs; ++m2) if (m2 != k && f->args[m2].kind == K_HIN && !f->args[m2].is_const && A.a[m2].p == A.a[k].p) aliases_mutable = true;
        switch (s.kind) {
        case K_HIN:
          if (!t.cp[k] || (f->skip_cmp & (1u << k)) || ((F & F_CLOBBER1) && k == 1) || ((F & F_DELETE) && k == 0)) break;
          if (!ops->equal(A.a[k].p, t.cp[k])) {
            std::string key = s.is_const ? "C20.const_modified." + pat : "C20.equiv." + sch + ".result";
            viol(c, key, what + ": argument " + s.name + " after the call: C side {" + ops->dump(A.a[k].p).substr(0, 600) + "} twin {" + ops->dump(t.cp[k]).substr(0, 600) + "}");
            ok = false; break;
          }
          if (pre[k] && !aliases_mutable && inexact_T) hx::count("const_check.skipped_inexact_T");
          if (pre[k] && !aliases_mutable && !inexact_T) {
            if (!ops->equal(A.a[k].p, pre[k])) { viol(c, "C20.const_modified." + pat, what + ": const argument " + s.name + " changed value: before {" + dump_before[k].substr(0, 500) + "} after {" + ops->dump(A.a[k].p).substr(0, 500) + "}"); ok = false; break; }
            std::string after = ops->dump(A.a[k].p);
            if (!(F & (F_IO_STDOUT | F_IO_FILE_OUT | F_IO_STR)) && after != dump_before[k] && tdump_before[k] == dump_before[k] && ops->dump(t.cp[k]) == tdump_before[k]) {
              viol(c, "C20.const_modified." + pat, what + ": representation of const argument " + s.name + " changed although the C++ operation leaves it untouched: before {" + dump_before[k].substr(0, 500) + "} after {" + after.substr(0, 500) + "}"); ok = false; break;
            }
          }
          break;
        case K_HOUT:
          if (F & F_PARTITION) break;   // handled below
          if ((t.obj[k] != 0) != (A.st[k].p != 0)) { viol(c, "C20.equiv." + sch + ".object_created", what + ": C side " + (A.st[k].p ? "created" : "did not create") + " an object, twin " + (t.obj[k] ? "did" : "did not")); ok = false; break; }
          if (!A.st[k].p) break;
          if (!heap_object(A.st[k].p, ops->size)) { viol(c, "C20.handle.not_a_heap_object." + pat, what + ": handle written to " + s.name + " is not a live heap object of the right size"); ok = false; A.st[k].p = 0; break; }
          if (!(F & F_NOCMP_OBJ) && !ops->equal(A.st[k].p, t.obj[k])) { viol(c, "C20.equiv." + sch + ".new_object", what + ": created {" + ops->dump(A.st[k].p).substr(0, 600) + "} twin {" + ops->dump(t.obj[k]).substr(0, 600) + "}"); ok = false; }
          break;
        case K_HREF:
          if (dead_stack_address(A.st[k].p)) { viol(c, "C20.handle.dangling_reference." + pat, what + ": the reference written to " + s.name + " points into a stack frame that has already returned (address of a temporary)"); ok = false; break; }
          if ((t.obj[k] != 0) != (A.st[k].p != 0)) { viol(c, "C20.equiv." + sch + ".reference", what + ": null / non-null reference mismatch"); ok = false; break; }
          if (A.st[k].p && !ops->equal(A.st[k].p, t.obj[k])) { viol(c, "C20.equiv." + sch + ".reference", what + ": referenced {" + ops->dump(A.st[k].p).substr(0, 600) + "} twin {" + ops->dump(t.obj[k]).substr(0, 600) + "}"); ok = false; }
          break;
        case K_PDIM: case K_PSIZE:
          if (!(F & F_NOCMP_OUT) && A.st[k].z != t.out[k].z) { viol(c, "C20.equiv." + sch + ".output", what + ": *" + s.name + " = " + itos((long) A.st[k].z) + ", twin " + itos((long) t.out[k].z)); ok = false; }
          break;
        case K_PINT:
          if (A.st[k].i != t.out[k].i) { viol(c, "C20.equiv." + sch + ".output", what + ": *" + s.name + " = " + itos(A.st[k].i) + ", twin " + itos(t.out[k].i)); ok = false; }
          break;
        case K_PUINT:
          if (A.st[k].u != t.out[k].u) { viol(c, "C20.equiv." + sch + ".output", what + ": *" + s.name + " = " + itos(A.st[k].u) + ", twin " + itos(t.out[k].u)); ok = false; }
          break;
        case K_PCSTR:
          if (A.st[k].p != t.out[k].p) { viol(c, "C20.equiv." + sch + ".output", what + ": string pointer differs"); ok = false; }
          break;
        case K_MPZ:
          if (t.cp[k] && mpz_cmp(A.mpz[k].get_mpz_t(), static_cast<mpz_class*>(t.cp[k])->get_mpz_t()) != 0) { viol(c, "C20.equiv." + sch + ".output", what + ": mpz result differs"); ok = false; }
          break;
        case K_DIMARR:
          if (F & F_DIMARR_OUT) for (size_t i = 0; i < t.arr.size() && i < A.arr[k].size(); ++i) if (A.arr[k][i] != t.arr[i]) { viol(c, "C20.equiv." + sch + ".output", what + ": ds[" + itos((long) i) + "] differs"); ok = false; break; }
          break;
        case K_PSTR:
          if (t.has_sout) { const char* sp = (const char*) A.st[k].p; if (!sp || t.sout != sp) { viol(c, "C20.equiv." + sch + ".text", what + ": text {" + (sp ? std::string(sp).substr(0, 300) : "<null>") + "} twin {" + t.sout.substr(0, 300) + "}"); ok = false; } }
          break;
        case K_FILE:
          if (t.has_sout && (F & F_IO_FILE_OUT)) { std::string got = read_file(A.file[k]); if (got != t.sout) { viol(c, "C20.equiv." + sch + ".text", what + ": wrote {" + got.substr(0, 300) + "} twin {" + t.sout.substr(0, 300) + "}"); ok = false; } }
          break;
        default: break;
        }
      }
      if (ok && (F & F_IO_STDOUT) && t.has_sout && captured != t.sout) { viol(c, "C20.equiv." + sch + ".text", what + ": printed {" + captured.substr(0, 300) + "} twin {" + t.sout.substr(0, 300) + "}"); ok = false; }
    }
  }
  // ---- linear_partition: the returned handles must be objects the caller owns ----
  if (ok && (F & F_PARTITION) && cr.r >= 0 && !A.use_fork) {
    for (int k = 0; ok && k < f->nargs; ++k) if (f->args[k].kind == K_HOUT) {
      hx::checked(1);
      const TypeOps* ops = type_table[f->args[k].type].ops;
      if (!heap_object(A.st[k].p, ops->size)) {
        viol(c, "C20.handle.not_a_heap_object." + pat, what + ": the handle written to " + f->args[k].name + " does not designate a live heap object (address of a local of the returning function)");
        ok = false; A.st[k].p = 0;
      }
      else if (use_twin && !texc && !ops->equal(A.st[k].p, t.obj[k])) { viol(c, "C20.equiv." + sch + ".new_object", what + ": " + f->args[k].name + " differs from the twin"); ok = false; }
    }
    if (!ok) for (int k = 0; k < f->nargs; ++k) if (f->args[k].kind == K_HOUT) A.st[k].p = 0;
  }

  // ---- bookkeeping of created / released objects ----
  if (!A.use_fork && !cr.escaped) {
    for (int k = 0; k < f->nargs; ++k) {
      const ArgSpec& s = f->args[k];
      if (s.kind == K_HOUT && cr.r >= 0 && A.st[k].p) {
        if ((F & F_PARTITION) && !heap_object(A.st[k].p, type_table[s.type].ops->size)) continue;   // dangling: never touched
        add_obj(c, A.st[k].p, s.type, true, -1);
      }
      if (s.kind == K_PSTR && A.st[k].p) { free(A.st[k].p); A.st[k].p = 0; }
    }
    if ((F & F_DELETE) && cr.r >= 0 && A.obj[0] >= 0) { c.objs[A.obj[0]].alive = false; ++c.deleted; }
  }
  if (ok && !A.use_fork) ok = check_handles_ok(c, f, A, cr, what, mode != M_PLAIN && cr.r < 0);

  // ---- distinct configurations ----
  if (!trivial_recv) {
    std::string tok = std::string(f->name) + "|" + MUT_NAME[mut.kind] + "|" + (cr.r < 0 ? code_name(cr.r) : "ok") + "|" + itos(c.dim) + "|" + (mode == M_PLAIN ? "plain" : mode == M_ALLOC ? "alloc" : "timeout");
    hx::distinct(tok);
  }
  else hx::count("trivial_receiver");

  // ---- release twin side ----
  for (int k = 0; k < f->nargs; ++k) {
    const ArgSpec& s = f->args[k];
    if (s.kind == K_MPZ) { delete static_cast<mpz_class*>(t.cp[k]); continue; }
    if (s.type < 0) continue;
    const TypeOps* ops = type_table[s.type].ops;
    if (t.cp[k]) ops->destroy(t.cp[k]);
    if (pre[k]) ops->destroy(pre[k]);
    if ((s.kind == K_HOUT || (s.kind == K_HREF && t.owned_ref[k])) && t.obj[k]) ops->destroy(t.obj[k]);
  }
  release_temps(c, A);
  return so;
}

// ---------------------------------------------------------------------------
// special drivers
// ---------------------------------------------------------------------------
static int g_alt_handler_calls = 0;
extern "C" void cif_alt_handler(enum ppl_enum_error_code, const char*) { ++g_alt_handler_calls; }
static const char* my_var_out(ppl_dimension_type v) { static char b[32]; snprintf(b, sizeof b, "v%lu", (unsigned long) v); return b; }

static bool tight_simple(Case& c, const Fn* f, const std::function<int()>& fn, long arm_k, int expect, const std::string& what, CallResult* out = 0) {
  hx::tr(what + "\n"); hx::count("calls"); hx::count("calls.core");
  CallResult cr = guarded(fn, arm_k);
  if (out) *out = cr;
  if (!check_tight(c, f, cr, what)) return false;
  hx::checked(1);
  if (arm_k > 0 && cr.fired) {
    hx::count("alloc.failure_points");
    if (cr.r < 0 && cr.r != PPL_ERROR_OUT_OF_MEMORY) { viol(c, std::string("C20.code.") + f->pattern + ".oom_reported_as_" + code_name(cr.r), what); return false; }
    return true;
  }
  if (expect <= 0 && cr.r != expect && !(expect == 0 && cr.r > 0)) {   // expect > 0: the caller judges the return value
    if (expect == 0) viol(c, std::string("C20.code.") + f->pattern + ".spurious_" + code_name(cr.r), what + " returned " + itos(cr.r) + " (" + g_handler.desc + ")");
    else if (cr.r >= 0) viol(c, std::string("C20.code.") + f->pattern + ".error_not_reported:" + code_name(expect), what + " returned " + itos(cr.r));
    else viol(c, std::string("C20.code.") + f->pattern + ".expected_" + code_name(expect) + "_got_" + code_name(cr.r), what);
    return false;
  }
  return true;
}

static void run_special(Case& c, const Fn* f, Mode mode, long arm_k) {
  std::string n = f->name;
  long k = mode == M_ALLOC ? arm_k : 0;
  hx::distinct(n + "|special|" + itos(mode));
  if (n == "ppl_initialize" || n == "ppl_finalize") {
    // no object of the interface is alive here
    if (!tight_simple(c, f, []() { return ppl_finalize(); }, 0, 0, "ppl_finalize()")) return;
    CallResult cr;
    if (!tight_simple(c, f, []() { return ppl_initialize(); }, n == "ppl_initialize" ? k : 0, 0, "ppl_initialize()", &cr)) { ppl_initialize(); return; }
    if (cr.r < 0) tight_simple(c, f, []() { return ppl_initialize(); }, 0, 0, "ppl_initialize() (again)");
    ppl_set_error_handler(cif_error_handler);
    return;
  }
  if (n == "ppl_thread_initialize" || n == "ppl_thread_finalize") {
    tight_simple(c, f, []() { return ppl_thread_initialize(); }, 0, 0, "ppl_thread_initialize() (already initialised)");
    // finalising the thread destroys the library's per-thread constants: done in a child process only
    hx::tr("ppl_thread_finalize(); ppl_thread_initialize() [isolated]\n"); hx::count("calls"); hx::count("calls.forked");
    CallResult cr = forked([]() { int r = ppl_thread_finalize(); if (r != 0) return r; r = ppl_thread_initialize(); if (r != 0) return r - 100;
                                  ppl_Coefficient_t z = 0; r = ppl_new_Coefficient(&z); if (r != 0) return r - 200; return ppl_delete_Coefficient(z); }, false);
    if (!check_tight(c, f, cr, "ppl_thread_finalize(); ppl_thread_initialize()")) return;
    hx::checked(1);
    if (cr.r != 0) viol(c, "C20.code.ppl_thread_finalize.spurious_error", "finalize / initialize / new Coefficient sequence returned " + itos(cr.r));
    return;
  }
  if (n == "ppl_set_rounding_for_PPL" || n == "ppl_restore_pre_PPL_rounding") {
    if (!tight_simple(c, f, []() { return ppl_restore_pre_PPL_rounding(); }, n == "ppl_restore_pre_PPL_rounding" ? k : 0, 0, "ppl_restore_pre_PPL_rounding()")) { ppl_set_rounding_for_PPL(); return; }
    tight_simple(c, f, []() { return ppl_set_rounding_for_PPL(); }, n == "ppl_set_rounding_for_PPL" ? k : 0, 0, "ppl_set_rounding_for_PPL()");
    ppl_set_rounding_for_PPL();
    return;
  }
  if (n == "ppl_set_error_handler") {
    g_alt_handler_calls = 0;
    if (!tight_simple(c, f, []() { return ppl_set_error_handler(cif_alt_handler); }, k, 0, "ppl_set_error_handler(alt)")) { ppl_set_error_handler(cif_error_handler); return; }
    ppl_Coefficient_t z = 0; ppl_new_Coefficient(&z);
    ppl_Linear_Expression_t le = 0; ppl_new_Linear_Expression(&le);
    ppl_Generator_t g = 0;
    g_handler.count = 0;
    int r = ppl_new_Generator(&g, le, PPL_GENERATOR_TYPE_POINT, z);     // zero divisor
    hx::checked(2);
    if (r != PPL_ERROR_INVALID_ARGUMENT) viol(c, "C20.code.ppl_new_Generator.expected_INVALID_ARGUMENT_got_" + std::string(code_name(r)), "point with zero divisor");
    else if (g_alt_handler_calls != 1 || g_handler.count != 0) viol(c, "C20.handler.not_replaced", "after ppl_set_error_handler(alt): alt called " + itos(g_alt_handler_calls) + " times, previous handler " + itos(g_handler.count));
    ppl_set_error_handler(0);
    r = ppl_new_Generator(&g, le, PPL_GENERATOR_TYPE_POINT, z);
    if (r != PPL_ERROR_INVALID_ARGUMENT && !c.failed) viol(c, "C20.code.ppl_new_Generator.null_handler", "with a null handler returned " + itos(r));
    ppl_set_error_handler(cif_error_handler);
    ppl_delete_Linear_Expression(le); ppl_delete_Coefficient(z);
    return;
  }
  if (n == "ppl_io_set_variable_output_function" || n == "ppl_io_get_variable_output_function") {
    ppl_io_variable_output_function_type* old = 0; ppl_io_variable_output_function_type* cur = 0;
    if (!tight_simple(c, f, [&]() { return ppl_io_get_variable_output_function(&old); }, n == "ppl_io_get_variable_output_function" ? k : 0, 0, "ppl_io_get_variable_output_function(&old)")) return;
    if (!tight_simple(c, f, []() { return ppl_io_set_variable_output_function(my_var_out); }, n == "ppl_io_set_variable_output_function" ? k : 0, 0, "ppl_io_set_variable_output_function(f)")) { ppl_io_set_variable_output_function(old); return; }
    ppl_io_get_variable_output_function(&cur);
    hx::checked(2);
    if (cur != my_var_out) viol(c, "C20.equiv.special:io_variable_output_function.get", "get does not return the function just set");
    char* s = 0; int r = ppl_io_asprint_variable(&s, 3);
    if (!c.failed && (r != 0 || !s || strcmp(s, "v3") != 0)) viol(c, "C20.equiv.special:io_variable_output_function.text", std::string("asprint_variable gives ") + (s ? s : "<null>"));
    free(s);
    // the C++ side must print variables through the same function
    if (!c.failed) { std::string t = print_str(Variable(2)); if (t != "v2") viol(c, "C20.equiv.special:io_variable_output_function.cxx", "C++ output of Variable(2) is " + t); }
    ppl_io_set_variable_output_function(old);
    return;
  }
  if (n == "ppl_io_wrap_string") {
    const char* src = "The quick brown fox jumps over the lazy dog and keeps running for a while longer.";
    unsigned ind = (unsigned) hx::rnd(0, 4), l1 = (unsigned) hx::rnd(10, 40), l2 = (unsigned) hx::rnd(10, 40);
    char* res = 0;
    if (!tight_simple(c, f, [&]() { res = ppl_io_wrap_string(src, ind, l1, l2); return 0; }, k, 0, "ppl_io_wrap_string(text," + itos(ind) + "," + itos(l1) + "," + itos(l2) + ")")) return;
    if (res) {
      std::string exp = IO_Operators::wrap_string(src, ind, l1, l2);
      hx::checked(1);
      if (exp != res) viol(c, "C20.equiv.special:io_wrap_string.text", std::string("got {") + res + "} expected {" + exp + "}");
      free(res);
    }
    return;
  }
  if (n == "ppl_set_timeout" || n == "ppl_reset_timeout") {
    // csecs must be > 0: refused with INVALID_ARGUMENT (isolated: the refusing constructor is checked for leaks)
    if (mode == M_PLAIN) {
      hx::tr("ppl_set_timeout(0) [isolated]\n"); hx::count("calls"); hx::count("calls.forked");
      CallResult cr = forked([]() { return ppl_set_timeout(0); }, true);
      if (!check_tight(c, f, cr, "ppl_set_timeout(0)")) return;
      hx::checked(2);
      if (cr.r != PPL_ERROR_INVALID_ARGUMENT) { viol(c, "C20.code.ppl_set_timeout.zero_csecs_accepted", "ppl_set_timeout(0) returned " + itos(cr.r)); return; }
      if (cr.leaked) { viol(c, "C20.handle.leak.ppl_set_timeout:zero_csecs", "ppl_set_timeout(0) returns PPL_ERROR_INVALID_ARGUMENT and leaks the Handler_Flag allocated in the member initialiser of Watchdog::Watchdog (src/Watchdog_inlines.hh:38) before the argument check throws"); return; }
    }
    CallResult cr;
    if (!tight_simple(c, f, []() { return ppl_set_timeout(50000); }, n == "ppl_set_timeout" ? k : 0, 0, "ppl_set_timeout(50000)", &cr)) { ppl_reset_timeout(); return; }
    if (!tight_simple(c, f, []() { return ppl_set_timeout(40000); }, 0, 0, "ppl_set_timeout(40000) (replaces the pending one)")) { ppl_reset_timeout(); return; }
    tight_simple(c, f, []() { return ppl_reset_timeout(); }, n == "ppl_reset_timeout" ? k : 0, 0, "ppl_reset_timeout()");
    tight_simple(c, f, []() { return ppl_reset_timeout(); }, 0, 0, "ppl_reset_timeout() (nothing set)");
    hx::checked(1);
    if (!c.failed && abandon_expensive_computations != 0) viol(c, "C20.code.ppl_reset_timeout.abandon_flag_left_set", "after ppl_reset_timeout()");
    return;
  }
  if (n == "ppl_set_deterministic_timeout" || n == "ppl_reset_deterministic_timeout") {
    if (mode == M_PLAIN) {
      CallResult cr;
      // documented: PPL_ERROR_INVALID_ARGUMENT if unscaled_weight is zero or the threshold exceeds the maximum
      if (!tight_simple(c, f, []() { return ppl_set_deterministic_timeout(0, 0); }, 0, 1, "ppl_set_deterministic_timeout(0,0)", &cr)) { ppl_reset_deterministic_timeout(); return; }
      ppl_reset_deterministic_timeout();
      if (cr.r != PPL_ERROR_INVALID_ARGUMENT) { viol(c, "C20.code.ppl_set_deterministic_timeout.zero_weight_accepted", "ppl_set_deterministic_timeout(0,0) returned " + itos(cr.r) + "; documented: PPL_ERROR_INVALID_ARGUMENT if unscaled_weight is zero"); return; }
      if (!tight_simple(c, f, []() { return ppl_set_deterministic_timeout(~0UL, 40); }, 0, PPL_ERROR_INVALID_ARGUMENT, "ppl_set_deterministic_timeout(ULONG_MAX,40)")) { ppl_reset_deterministic_timeout(); return; }
      hx::tr("ppl_set_deterministic_timeout(2^63,0) [isolated]\n"); hx::count("calls"); hx::count("calls.forked");
      cr = forked([]() { return ppl_set_deterministic_timeout(1UL << 63, 0); }, true);
      if (!check_tight(c, f, cr, "ppl_set_deterministic_timeout(2^63,0)")) return;
      hx::checked(2);
      if (cr.r != PPL_ERROR_INVALID_ARGUMENT) { viol(c, "C20.code.ppl_set_deterministic_timeout.threshold_wraps_accepted", "ppl_set_deterministic_timeout(2^63,0) returned " + itos(cr.r)); return; }
      if (cr.leaked) { viol(c, "C20.handle.leak.ppl_set_deterministic_timeout:threshold_already_reached", "ppl_set_deterministic_timeout(2^63,0) returns PPL_ERROR_INVALID_ARGUMENT and leaks the Handler_Flag allocated in the member initialiser of Threshold_Watcher (src/Threshold_Watcher_inlines.hh:39)"); return; }
    }
    if (!tight_simple(c, f, []() { return ppl_set_deterministic_timeout(1000000, 10); }, n == "ppl_set_deterministic_timeout" ? k : 0, 0, "ppl_set_deterministic_timeout(1000000,10)")) { ppl_reset_deterministic_timeout(); return; }
    if (!tight_simple(c, f, []() { return ppl_set_deterministic_timeout(2000000, 10); }, 0, 0, "ppl_set_deterministic_timeout(2000000,10) (replaces the pending one)")) { ppl_reset_deterministic_timeout(); return; }
    tight_simple(c, f, []() { return ppl_reset_deterministic_timeout(); }, n == "ppl_reset_deterministic_timeout" ? k : 0, 0, "ppl_reset_deterministic_timeout()");
    tight_simple(c, f, []() { return ppl_reset_deterministic_timeout(); }, 0, 0, "ppl_reset_deterministic_timeout() (nothing set)");
    return;
  }
  hx::count("special.undriven");
}

// ---------------------------------------------------------------------------
// profiles
// ---------------------------------------------------------------------------
static void new_case(Case& c) {
  int k = hx::rnd(0, 99);
  c.dim = k < 8 ? 0 : k < 30 ? 1 : k < 70 ? 2 : 3;
  c.topo = hx::coin(60) ? 1 : 2;
}

static const Fn* fn_of_case(long idx) { const std::vector<const Fn*>& v = all_fns(); return v[(size_t) (idx % (long) v.size())]; }

static bool undefined_entry_point(Case& c, const Fn* f) {
  if (!(f->flags & F_UNDEFINED)) return false;
  hx::checked(1);
  viol(c, std::string("C20.code.") + f->pattern + ".declared_but_not_defined", std::string(f->name) + " is declared in ppl_c.h but defined nowhere in the interface library: a client calling it does not link");
  return true;
}

static void case_equiv(long idx, bool illformed) {
  Case c; new_case(c);
  const Fn* f = fn_of_case(idx);
  if (undefined_entry_point(c, f)) return;
  if (f->flags & F_SPECIAL) { run_special(c, f, M_PLAIN, 0); cleanup(c); return; }
  Mut mut;
  if (illformed) {
    std::vector<Mut> ms = mutations_of(f);
    if (!ms.empty()) mut = ms[(size_t) ((idx / (long) all_fns().size()) + hx::rnd(0, 1000)) % ms.size()];
    else hx::count("illformed.no_applicable_mutation");
  }
  if (!f->twin && !(f->flags & F_DELETE)) hx::count("calls.no_twin");
  step(c, f, mut, M_PLAIN, 0, false);
  cleanup(c);
}

static void case_alloc(long idx) {
  Case c; new_case(c);
  const Fn* f = fn_of_case(idx);
  if (f->flags & F_UNDEFINED) return;
  if (f->flags & F_SPECIAL) {
    for (long k = 1; k <= 3 && !c.failed; ++k) run_special(c, f, M_ALLOC, k);
    cleanup(c); return;
  }
  // dry run to count the allocations of this call, then replay with the k-th one failing
  uint64_t seed = hx::rng()();
  long total = 0; int dry_r = 0;
  {
    hx::rng().seed(seed); Case d; d.dim = c.dim; d.topo = c.topo;
    StepOut so = step(d, f, Mut(), M_ALLOC, 0, false);
    if (so.called) { total = so.cr.allocs; dry_r = so.cr.r; }
    cleanup(d);
    if (d.failed || !so.called) return;
  }
  hx::count("alloc.calls_measured");
  if (total == 0) { hx::count("alloc.calls_without_allocation"); return; }
  long cap = hx::opt().geti("alloc_points", hx::opt().thorough ? 24 : 6);
  std::vector<long> ks;
  if (total <= cap) for (long k = 1; k <= total; ++k) ks.push_back(k);
  else { ks.push_back(1); ks.push_back(2); ks.push_back(total); ks.push_back(total - 1); std::mt19937_64 g(seed ^ 0x5bd1e995); while ((long) ks.size() < cap) ks.push_back(1 + (long) (g() % (uint64_t) total)); }
  for (size_t i = 0; i < ks.size(); ++i) {
    hx::rng().seed(seed); Case d; d.dim = c.dim; d.topo = c.topo;
    hx::tr("-- allocation " + itos(ks[i]) + " of " + itos(total) + " fails\n");
    step(d, f, Mut(), M_ALLOC, ks[i], false, dry_r);
    cleanup(d);
    if (d.failed || hx::st().case_tainted) return;
  }
}

static void case_timeout(long idx) {
  Case c; new_case(c);
  const Fn* f = fn_of_case(idx);
  if (f->flags & F_UNDEFINED) return;
  if (f->flags & F_SPECIAL) { run_special(c, f, M_PLAIN, 0); cleanup(c); return; }
  bool real = hx::opt().geti("real", 0) ? true : ((idx / (long) all_fns().size()) % 8 == 7);
  static bool s_real; s_real = real;
  static bool s_armed_ok; s_armed_ok = true;
  g_before_call = []() {
    if (s_real) {
      if (ppl_set_timeout(1) != 0) { s_armed_ok = false; return; }
      // wait (CPU time) until the watchdog has fired: verdicts never depend on how long this takes
      volatile unsigned long spin = 0;
      for (unsigned long i = 0; i < 4000000000UL && abandon_expensive_computations == 0; ++i) spin += i;
      if (abandon_expensive_computations == 0) s_armed_ok = false;
    }
    else if (ppl_set_deterministic_timeout(1, 0) != 0) s_armed_ok = false;
  };
  StepOut so = step(c, f, Mut(), real ? M_TIMEOUT_REAL : M_TIMEOUT_DET, 0, false);
  g_before_call = 0;
  bool flag_left = so.flag_after;
  if (so.called && !s_armed_ok) hx::inconclusive("timeout_not_armed");
  if (so.called && so.cr.r == PPL_TIMEOUT_EXCEPTION) {
    hx::count(real ? "timeout.fired_real" : "timeout.fired_det");
    hx::checked(1);
    if (!c.failed && flag_left) {
      // the interrupted function must leave the library usable: a second computation must not be interrupted again
      viol(c, std::string("C20.code.") + (real ? "ppl_set_timeout" : "ppl_set_deterministic_timeout") + ".not_reset_after_expiry",
           std::string(f->name) + " returned PPL_TIMEOUT_EXCEPTION but abandon_expensive_computations is still set: every later computation is interrupted until ppl_reset_"
           + (real ? "" : "deterministic_") + "timeout() is called (the CATCH_ALL arm that ran reset the other timeout object)");
    }
  }
  else if (so.called) hx::count("timeout.no_checkpoint");
  ppl_reset_timeout(); ppl_reset_deterministic_timeout();
  if (so.flag_after_reset && !c.failed) viol(c, "C20.code.ppl_reset_deterministic_timeout.abandon_flag_left_set", "after both resets");
  abandon_expensive_computations = 0;
  cleanup(c);
}

static void case_seq(long idx) {
  Case c; new_case(c);
  // one domain per case; its functions plus a few core ones
  std::vector<int> doms; for (int i = 0; i < n_types; ++i) if (type_table[i].is_domain) doms.push_back(i);
  int dom = doms[(size_t) idx % doms.size()];
  std::vector<const Fn*> cand;
  const std::vector<const Fn*>& all = all_fns();
  for (size_t i = 0; i < all.size(); ++i) {
    const Fn* f = all[i];
    if (f->flags & (F_SPECIAL | F_UNDEFINED)) continue;
    if (f->home == dom) cand.push_back(f);
  }
  int steps = hx::rnd(6, 12);
  for (int s = 0; s < steps && !c.failed && !hx::st().case_tainted; ++s) {
    const Fn* f = cand[(size_t) hx::rnd(0, (int) cand.size() - 1)];
    Mut mut;
    if (hx::coin(10)) { std::vector<Mut> ms = mutations_of(f); if (!ms.empty()) mut = ms[(size_t) hx::rnd(0, (int) ms.size() - 1)]; }
    if (mut.kind == MUT_BAD_ENUM || mut.kind == MUT_NULL_PCS) mut = Mut();
    step(c, f, mut, M_PLAIN, 0, true);
    hx::count("seq.steps");
    // keep the pool small
    int alive = 0; for (size_t i = 0; i < c.objs.size(); ++i) if (c.objs[i].alive) ++alive;
    for (size_t i = 0; alive > 8 && i < c.objs.size(); ++i) if (c.objs[i].alive && c.objs[i].owner < 0) { release_obj(c, (int) i); --alive; }
  }
  cleanup(c);
}

static unsigned long g_cases_since_lsan = 0; static bool g_leak_reported = false;
static void leak_check(const char* where) {
#if CIF_ASAN
  if (g_leak_reported) return;
  if (__lsan_do_recoverable_leak_check() != 0) {
    g_leak_reported = true;
    std::string prof = hx::opt().profile;
    hx::violation(prof == "alloc" ? "C20.handle.leak_after_out_of_memory" : prof == "timeout" ? "C20.handle.leak_after_timeout" : "C20.handle.leak",
                  std::string("LeakSanitizer: memory unreachable ") + where + " (every handle created was deleted); cases since the previous clean check: " + itos((long) g_cases_since_lsan));
  }
  hx::count("lsan_checks");
#else
  (void) where;
#endif
}

static void run_case(uint64_t) {
  const std::string& p = hx::opt().profile;
  long idx = hx::st().cur_case;
  if (p == "equiv" || p == "default") case_equiv(idx, false);
  else if (p == "illformed") case_equiv(idx, true);
  else if (p == "alloc") case_alloc(idx);
  else if (p == "timeout") case_timeout(idx);
  else if (p == "seq") case_seq(idx);
  else { fprintf(stderr, "ciface: unknown profile %s\n", p.c_str()); exit(2); }
  ++g_cases_since_lsan;
  long every = hx::opt().geti("lsan_every", p == "alloc" ? 0 : 64);   // leaks inside GMP after an injected failure are not C20's
  if (every > 0 && (long) g_cases_since_lsan >= every) { leak_check("after a case"); g_cases_since_lsan = 0; }
}

static void at_exit() {
  if (hx::opt().profile != "alloc") leak_check("at the end of the run");
  if (hx::opt().first == 0) {
    const std::vector<const Fn*>& v = all_fns();
    unsigned long twin = 0, special = 0, none = 0;
    for (size_t i = 0; i < v.size(); ++i) { if (v[i]->twin) ++twin; else if (v[i]->flags & (F_SPECIAL | F_DELETE)) ++special; else ++none; }
    hx::count("fn.entry_points", v.size()); hx::count("fn.raw_ppl_proto", N_RAW_PROTOS);
    hx::count("fn.with_twin", twin); hx::count("fn.special_or_delete", special); hx::count("fn.not_driven_for_equivalence", none);
  }
}

} // namespace cif

int main(int argc, char** argv) {
  if (argc > 1 && std::string(argv[1]) == "--list") {
    const std::vector<const cif::Fn*>& v = cif::all_fns();
    for (size_t i = 0; i < v.size(); ++i) printf("%zu %s %s %s %s\n", i, v[i]->name, v[i]->pattern, v[i]->schema[0] ? v[i]->schema : "-", v[i]->twin ? "twin" : ((v[i]->flags & cif::F_SPECIAL) ? "special" : "notwin"));
    return 0;
  }
  if (ppl_initialize() < 0) { fprintf(stderr, "ciface: ppl_initialize failed\n"); return 2; }
  ppl_set_error_handler(cif::cif_error_handler);
  cif::install_gmp_allocators();
  int rc = hx::main_loop(argc, argv, cif::run_case, cif::at_exit);
  if (hx::opt().profile == "alloc") { fflush(0); _exit(rc); }   // no at-exit leak report: GMP itself leaks when its allocator throws
  return rc;
}
