// psetseq, instantiation for oct (see psetseq.hh)
#include "psetseq.hh"
void psq::run_oct() { psq::Engine<psq::DomOct>::run_case(); }
