// faultinj: scenarios and rejected calls on C_Polyhedron / NNC_Polyhedron.
#include "faultinj.hh"
using namespace fi;
using pplx::str;

namespace {
int rdim() { return rnd(1, hx::opt().thorough ? 4 : 3); }

template <typename PH> PH fresh(int n) { PH p(n); if (n > 0) { p.add_constraint(Variable(0) >= -1); p.add_constraint(Variable(n - 1) <= 4); } return p; }
template <typename PH> void use(PH& p) {
  int n = (int) p.space_dimension();
  (void) p.is_empty();
  if (n > 0) p.add_constraint(Variable(0) <= 5);
  (void) p.minimized_generators();
  if (n > 0) p.add_generator(point(Variable(n - 1)));
  (void) p.minimized_constraints();
  (void) p.is_bounded();
}
template <typename PH> std::string val(const PH& p) { PH q(p); std::ostringstream o; o << q.space_dimension() << ":" << str(q.minimized_constraints()); return o.str(); }
#define EQ [](const auto& a, const auto& b) { return a.space_dimension() == b.space_dimension() && a == b; }
#define POSTP(name, obj) c.post(name, obj, fresh<PH>((int) (obj).space_dimension()), use<PH>, EQ)

// q included in p (for widenings): p with a few more constraints through the same kind of point
template <typename PH> void chain_pair(int n, PH& small, PH& large) {
  const bool nnc = Is_NNC<PH>::value;
  std::vector<int> pt = rpoint(n);
  Constraint_System cs = rcs_through(n, pt, nnc, rnd(1, 3));
  large = PH(n); large.add_constraints(cs);
  small = large;
  small.add_constraints(rcs_through(n, pt, nnc, rnd(1, 3)));
  if (coin()) (void) small.minimized_generators();
  if (coin()) (void) large.minimized_constraints();
}
struct PFunc {
  std::vector<long> m; // -1: undefined
  bool has_empty_codomain() const { for (size_t i = 0; i < m.size(); ++i) if (m[i] >= 0) return false; return true; }
  dimension_type max_in_codomain() const { long r = 0; for (size_t i = 0; i < m.size(); ++i) if (m[i] > r) r = m[i]; return (dimension_type) r; }
  bool maps(dimension_type i, dimension_type& j) const { if (i >= m.size() || m[i] < 0) return false; j = (dimension_type) m[i]; return true; }
};
PFunc rpfunc(int n) {
  PFunc f; f.m.assign(n, -1);
  std::vector<int> perm; for (int i = 0; i < n; ++i) perm.push_back(i);
  std::shuffle(perm.begin(), perm.end(), hx::rng());
  int keep = rnd(0, n), next = 0;
  for (int i = 0; i < n; ++i) if (perm[i] < keep) f.m[i] = -2;
  // codomain must be 0..k-1: assign a random permutation of 0..k-1 to the kept ones
  std::vector<int> img; for (int i = 0; i < n; ++i) if (f.m[i] == -2) img.push_back(next++);
  std::shuffle(img.begin(), img.end(), hx::rng());
  next = 0; for (int i = 0; i < n; ++i) if (f.m[i] == -2) f.m[i] = img[next++];
  return f;
}

// ---------------------------------------------------------------------------------
// scenarios (template over the topology)
// ---------------------------------------------------------------------------------
template <typename PH> void s_min_from_cons(Ctx& c) {
  int n = rdim(); const bool nnc = Is_NNC<PH>::value;
  PH p(n); p.add_constraints(rcs_through(n, rpoint(n), nnc, rnd(2, 6)));
  c.run([&] { (void) p.minimized_generators(); });
  c.result([&] { return val(p); });
  POSTP("p", p);
}
template <typename PH> void s_min_from_gens(Ctx& c) {
  int n = rdim(); const bool nnc = Is_NNC<PH>::value;
  PH p(n, EMPTY); p.add_generators(rgs(n, nnc, rnd(2, 6)));
  c.run([&] { (void) p.minimized_constraints(); });
  c.result([&] { return val(p); });
  POSTP("p", p);
}
template <typename PH> void s_add_constraint(Ctx& c) {
  int n = rdim(); const bool nnc = Is_NNC<PH>::value;
  PH p = rpoly<PH>(n); Constraint k = coin(70) ? rcon_through(n, rpoint(n), nnc) : pplx::rand_con(n, nnc);
  c.run([&] { p.add_constraint(k); (void) p.is_empty(); });
  c.result([&] { return val(p); });
  POSTP("p", p);
}
template <typename PH> void s_add_constraints(Ctx& c) {
  int n = rdim(); const bool nnc = Is_NNC<PH>::value;
  PH p = rpoly<PH>(n); Constraint_System cs = rcs_through(n, rpoint(n), nnc, rnd(1, 4));
  c.run([&] { p.add_constraints(cs); (void) p.minimized_constraints(); });
  c.result([&] { return val(p); });
  POSTP("p", p);
  c.post("cs", cs, Constraint_System(Variable(0) >= 0), [](Constraint_System& s) { s.insert(Variable(1) <= 2); });
}
template <typename PH> void s_add_recycled_constraints(Ctx& c) {
  int n = rdim(); const bool nnc = Is_NNC<PH>::value;
  PH p = rpoly<PH>(n); Constraint_System cs = rcs_through(n, rpoint(n), nnc, rnd(1, 4));
  cs.insert(Variable(n - 1) >= -100);  // same dimension as p
  c.run([&] { p.add_recycled_constraints(cs); (void) p.is_empty(); });
  c.result([&] { return val(p); });
  POSTP("p", p);
  // the recycled system may hold anything, but it must remain assignable / destructible
  c.post("cs", cs, Constraint_System(Variable(0) >= 0), [](Constraint_System&) {});
}
template <typename PH> void s_add_generator(Ctx& c) {
  int n = rdim(); const bool nnc = Is_NNC<PH>::value;
  PH p = rpoly<PH>(n); (void) p.is_empty();
  bool empty = PH(p).is_empty();
  Generator g = pplx::rand_gen(n, nnc, empty);
  if (g.is_closure_point() && empty) g = point();
  c.run([&] { p.add_generator(g); (void) p.minimized_constraints(); });
  c.result([&] { return val(p); });
  POSTP("p", p);
}
template <typename PH> void s_add_generators(Ctx& c) {
  int n = rdim(); const bool nnc = Is_NNC<PH>::value;
  PH p = rpoly<PH>(n); Generator_System gs = rgs(n, nnc, rnd(1, 4));
  c.run([&] { p.add_generators(gs); (void) p.minimized_generators(); });
  c.result([&] { return val(p); });
  POSTP("p", p);
  c.post("gs", gs, Generator_System(point()), [](Generator_System& s) { s.insert(ray(Variable(0))); });
}
template <typename PH> void s_refine(Ctx& c) {
  int n = rdim();
  PH p = rpoly<PH>(n); Constraint_System cs; for (int i = rnd(1, 3); i > 0; --i) cs.insert(pplx::rand_con(n, true));
  Congruence_System cgs; for (int i = rnd(1, 2); i > 0; --i) cgs.insert(pplx::rand_cg(n));
  c.run([&] { p.refine_with_constraints(cs); p.refine_with_congruences(cgs); (void) p.is_empty(); });
  c.result([&] { return val(p); });
  POSTP("p", p);
}
enum Bin { MEET, HULL, DIFF, TELAPSE, CONCAT, SIMPLIFY, QUERIES };
template <typename PH, int OP> void s_binary(Ctx& c) {
  int n = rdim();
  PH p = rpoly<PH>(n), q = rpoly<PH>(OP == CONCAT ? rnd(0, 2) : n);
  bool b1 = false, b2 = false, b3 = false;
  c.run([&] {
    switch (OP) {
    case MEET: p.intersection_assign(q); break;
    case HULL: p.poly_hull_assign(q); break;
    case DIFF: p.poly_difference_assign(q); break;
    case TELAPSE: p.time_elapse_assign(q); break;
    case CONCAT: p.concatenate_assign(q); break;
    case SIMPLIFY: b1 = p.simplify_using_context_assign(q); break;
    case QUERIES: b1 = p.contains(q); b2 = p.is_disjoint_from(q); b3 = p.strictly_contains(q); break;
    }
    (void) p.minimized_constraints();
  });
  c.result([&] { return val(p) + (b1 ? "T" : "F") + (b2 ? "T" : "F") + (b3 ? "T" : "F"); });
  POSTP("p", p); POSTP("q", q);
}
enum Aff { IMG, PRE, GIMG, GIMG2, GPRE, GPRE2, BIMG, BPRE };
template <typename PH, int OP> void s_affine(Ctx& c) {
  int n = rdim(); const bool nnc = Is_NNC<PH>::value;
  PH p = rpoly<PH>(n); Variable v(rnd(0, n - 1));
  Linear_Expression e = rexpr(n), f = rexpr(n);
  Coefficient d = rcoef(3); if (d == 0) d = -2;
  Relation_Symbol rel = pplx::REL5[nnc ? rnd(0, 4) : rnd(1, 3)];
  c.run([&] {
    switch (OP) {
    case IMG: p.affine_image(v, e, d); break;
    case PRE: p.affine_preimage(v, e, d); break;
    case GIMG: p.generalized_affine_image(v, rel, e, d); break;
    case GIMG2: p.generalized_affine_image(e, rel, f); break;
    case GPRE: p.generalized_affine_preimage(v, rel, e, d); break;
    case GPRE2: p.generalized_affine_preimage(e, rel, f); break;
    case BIMG: p.bounded_affine_image(v, e, f, d); break;
    case BPRE: p.bounded_affine_preimage(v, e, f, d); break;
    }
    (void) p.minimized_generators();
  });
  c.result([&] { return val(p); });
  POSTP("p", p);
  c.post("e", e, Linear_Expression(Variable(0) + 1), [](Linear_Expression& x) { x += Variable(1); x *= 3; });
}
enum Wid { H79, BHRZ03, LIM_H79, LIM_BHRZ03, BND_H79 };
template <typename PH, int OP> void s_widen(Ctx& c) {
  int n = rdim(); const bool nnc = Is_NNC<PH>::value;
  PH small(n), large(n); chain_pair(n, small, large);
  Constraint_System cs = rcs_through(n, rpoint(n), nnc, rnd(1, 3));
  unsigned tokens = rnd(0, 1); bool with_tokens = coin(30);
  c.run([&] {
    unsigned* tp = with_tokens ? &tokens : 0;
    switch (OP) {
    case H79: large.H79_widening_assign(small, tp); break;
    case BHRZ03: large.BHRZ03_widening_assign(small, tp); break;
    case LIM_H79: large.limited_H79_extrapolation_assign(small, cs, tp); break;
    case LIM_BHRZ03: large.limited_BHRZ03_extrapolation_assign(small, cs, tp); break;
    case BND_H79: large.bounded_H79_extrapolation_assign(small, cs, tp); break;
    }
    (void) large.minimized_constraints();
  });
  c.result([&] { return val(large); });
  POSTP("large", large); POSTP("small", small);
}
enum Dim { EMBED, PROJECT, REMOVE, REMOVE_HIGHER, EXPAND, FOLD, MAP, UNCONSTRAIN, TOPCLOSURE, WRAP, DROP_NONINT };
template <typename PH, int OP> void s_dims(Ctx& c) {
  int n = rdim();
  PH p = rpoly<PH>(n);
  Variables_Set vs; for (int i = 0; i < n; ++i) if (coin(40)) vs.insert(Variable(i));
  int m = rnd(1, 3); Variable v(rnd(0, n - 1));
  Variables_Set fold_vs; for (int i = 0; i < n; ++i) if (i != (int) v.id() && coin()) fold_vs.insert(Variable(i));
  PFunc pf = rpfunc(n);
  Constraint_System wcs;   // the guard of wrap_assign may only mention wrapped variables
  if (coin() && !vs.empty()) { Variable wv(*vs.begin()); wcs.insert(wv >= rnd(-3, 0)); if (coin()) wcs.insert(wv <= rnd(1, 200)); }
  c.run([&] {
    switch (OP) {
    case EMBED: p.add_space_dimensions_and_embed(m); break;
    case PROJECT: p.add_space_dimensions_and_project(m); break;
    case REMOVE: p.remove_space_dimensions(vs); break;
    case REMOVE_HIGHER: p.remove_higher_space_dimensions(rnd(0, n)); break;
    case EXPAND: p.expand_space_dimension(v, m); break;
    case FOLD: p.fold_space_dimensions(fold_vs, v); break;
    case MAP: p.map_space_dimensions(pf); break;
    case UNCONSTRAIN: if (coin()) p.unconstrain(v); else p.unconstrain(vs); break;
    case TOPCLOSURE: p.topological_closure_assign(); break;
    case WRAP: p.wrap_assign(vs, BITS_8, coin() ? UNSIGNED : SIGNED_2_COMPLEMENT, coin() ? OVERFLOW_WRAPS : OVERFLOW_UNDEFINED, &wcs, 4, coin()); break;
    case DROP_NONINT: if (coin()) p.drop_some_non_integer_points(); else p.drop_some_non_integer_points(vs); break;
    }
    (void) p.minimized_constraints();
  });
  c.result([&] { return val(p); });
  POSTP("p", p);
}
enum Cpy { COPY, ASSIGN, OTHER_TOPOLOGY, GETTERS, SWAP };
template <typename PH, int OP> void s_copy(Ctx& c) {
  int n = rdim();
  PH p = rpoly<PH>(n), q = rpoly<PH>(rnd(0, 3));
  std::string r;
  c.run([&] {
    switch (OP) {
    case COPY: { PH t(p); (void) t.minimized_generators(); r = "c"; break; }
    case ASSIGN: q = p; break;
    case OTHER_TOPOLOGY: { NNC_Polyhedron a(p); a.topological_closure_assign(); C_Polyhedron b(a); NNC_Polyhedron d(b); (void) d.is_empty(); break; }
    case GETTERS: { Constraint_System cs(p.constraints()); Generator_System gs(p.generators()); Congruence_System cg(p.congruences()); Constraint_System mcs(p.minimized_constraints()); Generator_System mgs(p.minimized_generators()); Congruence_System mcg(p.minimized_congruences()); PH t(cs); PH u(gs); break; }
    case SWAP: { PH t(p); t.m_swap(q); swap(t, q); break; }
    }
  });
  c.result([&] { return val(p) + val(q) + r; });
  POSTP("p", p); POSTP("q", q);
}
enum Io { DUMP, LOAD, PRINT };
template <typename PH, int OP> void s_io(Ctx& c) {
  int n = rdim();
  PH p = rpoly<PH>(n), q(rnd(0, 2));
  std::string text = dump(p), out; bool ok = true;
  c.run([&] {
    switch (OP) {
    case DUMP: { std::ostringstream o; p.ascii_dump(o); out = o.str(); break; }
    case LOAD: { std::istringstream i(text); ok = q.ascii_load(i); break; }
    case PRINT: { std::ostringstream o; using namespace IO_Operators; o << p << p.generators() << p.congruences(); out = o.str(); break; }
    }
  });
  // a failed stream is not a library object: only p and q are checked
  c.result([&] { return val(p) + (OP == LOAD ? val(q) : std::string()) + (ok ? "T" : "F") + (OP == PRINT ? std::string() : out); });
  if (OP == LOAD && !c.threw && c.mode <= COUNT && (!ok || !(q == p))) c.fail("ascii_load_failed", "ascii_load of an ascii_dump failed without any injected failure");
  POSTP("p", p);
  if (OP == LOAD && c.fired && !c.threw) { /* failure absorbed by the stream: q is unspecified but must be usable */ }
  POSTP("q", q);
}
enum Qry { MAXMIN, RELATION, PREDICATES, FREQUENCY };
template <typename PH, int OP> void s_query(Ctx& c) {
  int n = rdim(); const bool nnc = Is_NNC<PH>::value;
  PH p = rpoly<PH>(n);
  Linear_Expression e = rexpr(n); Constraint k = pplx::rand_con(n, true); Generator g = pplx::rand_gen(n, nnc, false); Congruence cg = pplx::rand_cg(n);
  std::ostringstream r;
  c.run([&] {
    Coefficient a, b, f1, f2; bool mx; Generator w = point();
    switch (OP) {
    case MAXMIN: r << p.maximize(e, a, b, mx, w) << p.minimize(e, a, b, mx) << p.bounds_from_above(e) << p.bounds_from_below(e); break;
    case RELATION: r << p.relation_with(k).implies(Poly_Con_Relation::is_included()) << p.relation_with(g).implies(Poly_Gen_Relation::subsumes()) << p.relation_with(cg).implies(Poly_Con_Relation::is_disjoint()); break;
    case PREDICATES: r << p.is_empty() << p.is_universe() << p.is_bounded() << p.is_topologically_closed() << p.is_discrete() << p.contains_integer_point() << p.constrains(Variable(0)) << p.affine_dimension(); break;
    case FREQUENCY: r << p.frequency(e, a, b, f1, f2); break;
    }
  });
  c.result([&] { return val(p) + r.str(); });
  POSTP("p", p);
}
template <typename PH> void s_from_box(Ctx& c) {
  int n = rdim();
  Rational_Box b(n);
  for (int i = 0; i < n; ++i) { if (coin(70)) b.add_constraint(Variable(i) >= rnd(-4, 0)); if (coin(70)) b.add_constraint(3 * Variable(i) <= rnd(0, 9)); }
  Grid g(n); g.add_congruence((Variable(0) %= 1) / 2); if (coin()) g.add_constraint(Variable(n - 1) == 2);
  PH p(n);
  c.run([&] { PH t(b); PH u(g); t.intersection_assign(u); p.m_swap(t); });
  c.result([&] { return val(p); });
  POSTP("p", p);
}

#define REG2(opname, ...) \
  static fi::RegS FI_CAT(regc_, __LINE__)("C_Polyhedron." opname, __VA_ARGS__<C_Polyhedron>); \
  static fi::RegS FI_CAT(regn_, __LINE__)("NNC_Polyhedron." opname, __VA_ARGS__<NNC_Polyhedron>)
#define REG2K(opname, fn, K) \
  static fi::RegS FI_CAT(regc_, __LINE__)("C_Polyhedron." opname, fn<C_Polyhedron, K>); \
  static fi::RegS FI_CAT(regn_, __LINE__)("NNC_Polyhedron." opname, fn<NNC_Polyhedron, K>)

// NNC only: strong minimization of the constraints.  A box that is closed at its lower corner plus several strict
// inequalities that cut away exactly that corner: all but one of them are epsilon-redundant, and once one is removed the
// upper bound of the epsilon dimension has to be re-established with an auxiliary LP (Polyhedron::strongly_minimize_constraints).
static void s_strong_min_constraints(Ctx& c) {
  int n = rnd(2, hx::opt().thorough ? 4 : 3);
  std::vector<int> pt = rpoint(n);
  NNC_Polyhedron p(n);
  // the box is small (sides 1/d, d > 2n) and the coefficients of the strict inequalities are at most 2: the slack of every strict
  // inequality stays below 1 on the whole polyhedron, so that "epsilon <= 1" is redundant and absent from the minimized system
  for (int i = 0; i < n; ++i) { int d = rnd(2 * n + 1, 2 * n + 5); p.add_constraint(Variable(i) >= pt[i]); p.add_constraint(d * Variable(i) <= d * pt[i] + 1); }
  int m = rnd(2, 3);
  for (int j = 0; j < m; ++j) { Linear_Expression e; Coefficient k = 0; for (int i = 0; i < n; ++i) { int a = rnd(1, 2); e += a * Variable(i); k += a * pt[i]; } p.add_constraint(e > k); }
  if (coin(30)) (void) p.minimized_generators();
  c.run([&] { (void) p.minimized_constraints(); });
  c.result([&] { return val(p); });
  c.post("p", p, fresh<NNC_Polyhedron>(n), use<NNC_Polyhedron>, EQ);
}
static fi::RegS reg_strong_min_cons("NNC_Polyhedron.strong_minimization_of_constraints", s_strong_min_constraints);
REG2("minimize_constraints", s_min_from_cons);
REG2("minimize_generators", s_min_from_gens);
REG2("add_constraint", s_add_constraint);
REG2("add_constraints", s_add_constraints);
REG2("add_recycled_constraints", s_add_recycled_constraints);
REG2("add_generator", s_add_generator);
REG2("add_generators", s_add_generators);
REG2("refine_with", s_refine);
REG2K("intersection_assign", s_binary, MEET);
REG2K("poly_hull_assign", s_binary, HULL);
REG2K("poly_difference_assign", s_binary, DIFF);
REG2K("time_elapse_assign", s_binary, TELAPSE);
REG2K("concatenate_assign", s_binary, CONCAT);
REG2K("simplify_using_context_assign", s_binary, SIMPLIFY);
REG2K("contains_disjoint", s_binary, QUERIES);
REG2K("affine_image", s_affine, IMG);
REG2K("affine_preimage", s_affine, PRE);
REG2K("generalized_affine_image", s_affine, GIMG);
REG2K("generalized_affine_image_lhs_rhs", s_affine, GIMG2);
REG2K("generalized_affine_preimage", s_affine, GPRE);
REG2K("generalized_affine_preimage_lhs_rhs", s_affine, GPRE2);
REG2K("bounded_affine_image", s_affine, BIMG);
REG2K("bounded_affine_preimage", s_affine, BPRE);
REG2K("H79_widening_assign", s_widen, H79);
REG2K("BHRZ03_widening_assign", s_widen, BHRZ03);
REG2K("limited_H79_extrapolation_assign", s_widen, LIM_H79);
REG2K("limited_BHRZ03_extrapolation_assign", s_widen, LIM_BHRZ03);
REG2K("bounded_H79_extrapolation_assign", s_widen, BND_H79);
REG2K("add_space_dimensions_and_embed", s_dims, EMBED);
REG2K("add_space_dimensions_and_project", s_dims, PROJECT);
REG2K("remove_space_dimensions", s_dims, REMOVE);
REG2K("remove_higher_space_dimensions", s_dims, REMOVE_HIGHER);
REG2K("expand_space_dimension", s_dims, EXPAND);
REG2K("fold_space_dimensions", s_dims, FOLD);
REG2K("map_space_dimensions", s_dims, MAP);
REG2K("unconstrain", s_dims, UNCONSTRAIN);
REG2K("topological_closure_assign", s_dims, TOPCLOSURE);
REG2K("wrap_assign", s_dims, WRAP);
REG2K("drop_some_non_integer_points", s_dims, DROP_NONINT);
REG2K("copy_construct", s_copy, COPY);
REG2K("assign", s_copy, ASSIGN);
REG2K("convert_topology", s_copy, OTHER_TOPOLOGY);
REG2K("getters", s_copy, GETTERS);
REG2K("swap", s_copy, SWAP);
REG2K("ascii_dump", s_io, DUMP);
REG2K("ascii_load", s_io, LOAD);
REG2K("print", s_io, PRINT);
REG2K("maximize_minimize", s_query, MAXMIN);
REG2K("relation_with", s_query, RELATION);
REG2K("predicates", s_query, PREDICATES);
REG2K("frequency", s_query, FREQUENCY);
REG2("from_box_and_grid", s_from_box);

// ---------------------------------------------------------------------------------
// rejected calls.  Expected types are those of the \exception clauses in
// Polyhedron_defs.hh / C_Polyhedron_defs.hh / NNC_Polyhedron_defs.hh.
// ---------------------------------------------------------------------------------
template <typename PH> PH recv(int n) { PH p = rpoly<PH>(n); return p; }

// one rejected call on a receiver p (dimension 2) with one optional other polyhedron
#define REJ_BODY(PHT, expected, stmt) \
  { typedef PHT PH; const int n = 2; Variable x(0), y(1), z(2); (void) x; (void) y; (void) z; const dimension_type PH_MAXDIM = PH::max_space_dimension(); (void) PH_MAXDIM; \
    PH p = recv<PH>(n); PH q3 = recv<PH>(3); PH p0(p); PH q0(q3); \
    r.call(expected, [&] { stmt; }); \
    r.unchanged("receiver", p, p0); r.unchanged("argument", q3, q0); }
#define REJ2(op, cls, expected, stmt) \
  REJECT("C_Polyhedron", op, cls) REJ_BODY(C_Polyhedron, expected, stmt) \
  REJECT("NNC_Polyhedron", op, cls) REJ_BODY(NNC_Polyhedron, expected, stmt)
#define REJC(op, cls, expected, stmt) REJECT("C_Polyhedron", op, cls) REJ_BODY(C_Polyhedron, expected, stmt)

REJ2("add_constraint", "dim_too_large", "invalid_argument", p.add_constraint(z >= 0))
REJC("add_constraint", "strict_on_closed", "invalid_argument", p.add_constraint(x > 0))
REJ2("add_constraints", "dim_too_large", "invalid_argument", Constraint_System cs; cs.insert(x >= 0); cs.insert(z <= 1); p.add_constraints(cs))
REJC("add_constraints", "strict_on_closed", "invalid_argument", Constraint_System cs; cs.insert(x >= 0); cs.insert(y < 1); p.add_constraints(cs))
REJ2("add_recycled_constraints", "dim_too_large", "invalid_argument", Constraint_System cs; cs.insert(z <= 1); p.add_recycled_constraints(cs))
REJ2("refine_with_constraint", "dim_too_large", "invalid_argument", p.refine_with_constraint(z >= 0))
REJ2("refine_with_congruence", "dim_too_large", "invalid_argument", p.refine_with_congruence((z %= 0) / 2))
REJ2("refine_with_constraints", "dim_too_large", "invalid_argument", Constraint_System cs; cs.insert(z <= 1); p.refine_with_constraints(cs))
REJ2("add_generator", "dim_too_large", "invalid_argument", p.add_generator(point(z)))
REJC("add_generator", "closure_point_on_closed", "invalid_argument", p.add_generator(closure_point(x)))
REJ2("add_generators", "dim_too_large", "invalid_argument", Generator_System gs; gs.insert(point(z)); p.add_generators(gs))
REJC("add_generators", "closure_point_on_closed", "invalid_argument", Generator_System gs; gs.insert(point(x)); gs.insert(closure_point(y)); p.add_generators(gs))
REJ2("add_congruence", "proper_congruence", "invalid_argument", p.add_congruence((x %= 0) / 2))
REJ2("add_congruence", "dim_too_large", "invalid_argument", p.add_congruence((z %= 0) / 0))
REJ2("add_congruences", "proper_congruence", "invalid_argument", Congruence_System cgs; cgs.insert((x %= 0) / 0); cgs.insert((y %= 1) / 3); p.add_congruences(cgs))
REJ2("intersection_assign", "dim_mismatch", "invalid_argument", p.intersection_assign(q3))
REJ2("poly_hull_assign", "dim_mismatch", "invalid_argument", p.poly_hull_assign(q3))
REJ2("upper_bound_assign", "dim_mismatch", "invalid_argument", p.upper_bound_assign(q3))
REJ2("poly_difference_assign", "dim_mismatch", "invalid_argument", p.poly_difference_assign(q3))
REJ2("time_elapse_assign", "dim_mismatch", "invalid_argument", p.time_elapse_assign(q3))
REJ2("simplify_using_context_assign", "dim_mismatch", "invalid_argument", (void) p.simplify_using_context_assign(q3))
REJ2("contains", "dim_mismatch", "invalid_argument", (void) p.contains(q3))
REJ2("strictly_contains", "dim_mismatch", "invalid_argument", (void) p.strictly_contains(q3))
REJ2("is_disjoint_from", "dim_mismatch", "invalid_argument", (void) p.is_disjoint_from(q3))
REJ2("affine_image", "zero_denominator", "invalid_argument", p.affine_image(x, x + y, 0))
REJ2("affine_image", "var_dim_too_large", "invalid_argument", p.affine_image(z, x + y, 1))
REJ2("affine_image", "expr_dim_too_large", "invalid_argument", p.affine_image(x, x + z, 1))
REJ2("affine_preimage", "zero_denominator", "invalid_argument", p.affine_preimage(x, x + y, 0))
REJ2("affine_preimage", "var_dim_too_large", "invalid_argument", p.affine_preimage(z, x + y, 1))
REJ2("affine_preimage", "expr_dim_too_large", "invalid_argument", p.affine_preimage(y, z, 1))
REJC("generalized_affine_image", "strict_on_closed", "invalid_argument", p.generalized_affine_image(x, LESS_THAN, y, 1))
REJ2("generalized_affine_image", "not_equal_relation", "invalid_argument", p.generalized_affine_image(x, NOT_EQUAL, y, 1))
REJ2("generalized_affine_image", "zero_denominator", "invalid_argument", p.generalized_affine_image(x, EQUAL, y, 0))
REJ2("generalized_affine_image", "expr_dim_too_large", "invalid_argument", p.generalized_affine_image(x, EQUAL, z + 1, 1))
REJ2("generalized_affine_image_lhs_rhs", "lhs_dim_too_large", "invalid_argument", p.generalized_affine_image(z + x, EQUAL, y))
REJC("generalized_affine_image_lhs_rhs", "strict_on_closed", "invalid_argument", p.generalized_affine_image(x + y, GREATER_THAN, y))
REJ2("generalized_affine_image_lhs_rhs", "not_equal_relation", "invalid_argument", p.generalized_affine_image(x + y, NOT_EQUAL, y))
REJ2("generalized_affine_preimage", "zero_denominator", "invalid_argument", p.generalized_affine_preimage(x, EQUAL, y, 0))
REJ2("generalized_affine_preimage", "var_dim_too_large", "invalid_argument", p.generalized_affine_preimage(z, EQUAL, y, 1))
REJC("generalized_affine_preimage", "strict_on_closed", "invalid_argument", p.generalized_affine_preimage(x, GREATER_THAN, y, 1))
REJ2("generalized_affine_preimage_lhs_rhs", "rhs_dim_too_large", "invalid_argument", p.generalized_affine_preimage(x, LESS_OR_EQUAL, z))
REJ2("bounded_affine_image", "zero_denominator", "invalid_argument", p.bounded_affine_image(x, y, y + 1, 0))
REJ2("bounded_affine_image", "lb_dim_too_large", "invalid_argument", p.bounded_affine_image(x, z, y + 1, 1))
REJ2("bounded_affine_image", "ub_dim_too_large", "invalid_argument", p.bounded_affine_image(x, y, z + 1, 1))
REJ2("bounded_affine_image", "var_dim_too_large", "invalid_argument", p.bounded_affine_image(z, y, y + 1, 1))
REJ2("bounded_affine_preimage", "zero_denominator", "invalid_argument", p.bounded_affine_preimage(x, y, y + 1, 0))
REJ2("bounded_affine_preimage", "lb_dim_too_large", "invalid_argument", p.bounded_affine_preimage(x, z, y + 1, 1))
REJ2("unconstrain", "dim_too_large", "invalid_argument", p.unconstrain(z))
REJ2("unconstrain_set", "dim_too_large", "invalid_argument", Variables_Set vs; vs.insert(x); vs.insert(z); p.unconstrain(vs))
REJ2("remove_space_dimensions", "dim_too_large", "invalid_argument", Variables_Set vs; vs.insert(z); p.remove_space_dimensions(vs))
REJ2("remove_higher_space_dimensions", "dim_too_large", "invalid_argument", p.remove_higher_space_dimensions(5))
REJ2("expand_space_dimension", "dim_too_large", "invalid_argument", p.expand_space_dimension(z, 1))
REJ2("expand_space_dimension", "space_dimension_overflow", "length_error", p.expand_space_dimension(x, PH_MAXDIM))
REJ2("fold_space_dimensions", "dest_in_set", "invalid_argument", Variables_Set vs; vs.insert(x); p.fold_space_dimensions(vs, x))
REJ2("fold_space_dimensions", "dest_dim_too_large", "invalid_argument", Variables_Set vs; vs.insert(x); p.fold_space_dimensions(vs, z))
REJ2("fold_space_dimensions", "set_dim_too_large", "invalid_argument", Variables_Set vs; vs.insert(z); p.fold_space_dimensions(vs, x))
REJ2("add_space_dimensions_and_embed", "space_dimension_overflow", "length_error", p.add_space_dimensions_and_embed(PH_MAXDIM))
REJ2("add_space_dimensions_and_project", "space_dimension_overflow", "length_error", p.add_space_dimensions_and_project(PH_MAXDIM))
REJ2("concatenate_assign", "space_dimension_overflow", "length_error", PH big(PH_MAXDIM, EMPTY); p.concatenate_assign(big))
REJ2("relation_with_constraint", "dim_too_large", "invalid_argument", (void) p.relation_with(z >= 0))
REJ2("relation_with_generator", "dim_too_large", "invalid_argument", (void) p.relation_with(point(z)))
REJ2("relation_with_congruence", "dim_too_large", "invalid_argument", (void) p.relation_with((z %= 1) / 2))
REJ2("maximize", "dim_too_large", "invalid_argument", Coefficient a; Coefficient b; bool m; (void) p.maximize(z, a, b, m))
REJ2("minimize", "dim_too_large", "invalid_argument", Coefficient a; Coefficient b; bool m; Generator g = point(); (void) p.minimize(z, a, b, m, g))
REJ2("bounds_from_above", "dim_too_large", "invalid_argument", (void) p.bounds_from_above(z))
REJ2("bounds_from_below", "dim_too_large", "invalid_argument", (void) p.bounds_from_below(x + z))
REJ2("frequency", "dim_too_large", "invalid_argument", Coefficient a; Coefficient b; Coefficient cc; Coefficient d; (void) p.frequency(z, a, b, cc, d))
REJ2("constrains", "dim_too_large", "invalid_argument", (void) p.constrains(z))
REJ2("H79_widening_assign", "dim_mismatch", "invalid_argument", p.H79_widening_assign(q3))
REJ2("BHRZ03_widening_assign", "dim_mismatch", "invalid_argument", p.BHRZ03_widening_assign(q3))
REJ2("limited_H79_extrapolation_assign", "cs_dim_too_large", "invalid_argument", PH yy(p); Constraint_System cs; cs.insert(z >= 0); p.limited_H79_extrapolation_assign(yy, cs))
REJ2("limited_H79_extrapolation_assign", "dim_mismatch", "invalid_argument", Constraint_System cs; cs.insert(x >= 0); p.limited_H79_extrapolation_assign(q3, cs))
REJC("limited_H79_extrapolation_assign", "strict_on_closed", "invalid_argument", PH yy(p); Constraint_System cs; cs.insert(x > 0); p.limited_H79_extrapolation_assign(yy, cs))
REJ2("limited_BHRZ03_extrapolation_assign", "cs_dim_too_large", "invalid_argument", PH yy(p); Constraint_System cs; cs.insert(z >= 0); p.limited_BHRZ03_extrapolation_assign(yy, cs))
REJ2("bounded_H79_extrapolation_assign", "cs_dim_too_large", "invalid_argument", PH yy(p); Constraint_System cs; cs.insert(z >= 0); p.bounded_H79_extrapolation_assign(yy, cs))
REJ2("bounded_BHRZ03_extrapolation_assign", "dim_mismatch", "invalid_argument", Constraint_System cs; cs.insert(x >= 0); p.bounded_BHRZ03_extrapolation_assign(q3, cs))
REJ2("wrap_assign", "dim_too_large", "invalid_argument", Variables_Set vs; vs.insert(z); p.wrap_assign(vs, BITS_8, UNSIGNED, OVERFLOW_WRAPS))
REJ2("wrap_assign", "cs_dim_too_large", "invalid_argument", Variables_Set vs; vs.insert(x); Constraint_System cs; cs.insert(z >= 0); p.wrap_assign(vs, BITS_8, UNSIGNED, OVERFLOW_WRAPS, &cs))

// first generator into an empty polyhedron must be a point
#define REJ_EMPTY(PHT, cls, stmt) \
  REJECT(#PHT, "add_generator", cls) { Variable x(0), y(1); PHT p(2, EMPTY); if (coin()) { PHT t(2); t.add_constraint(x >= 1); t.add_constraint(x <= 0); p = t; if (coin()) (void) p.is_empty(); } PHT p0(p); \
    r.call("invalid_argument", [&] { stmt; }); r.unchanged("receiver", p, p0); }
REJ_EMPTY(C_Polyhedron, "ray_into_empty", p.add_generator(ray(x)))
REJ_EMPTY(NNC_Polyhedron, "ray_into_empty", p.add_generator(ray(x)))
REJ_EMPTY(C_Polyhedron, "line_into_empty", p.add_generator(line(x + y)))
REJ_EMPTY(NNC_Polyhedron, "line_into_empty", p.add_generator(line(x + y)))
REJ_EMPTY(NNC_Polyhedron, "closure_point_into_empty", p.add_generator(closure_point(x)))
REJ_EMPTY(C_Polyhedron, "generators_without_point_into_empty", Generator_System gs; gs.insert(ray(x)); gs.insert(line(y)); p.add_generators(gs))
REJ_EMPTY(NNC_Polyhedron, "generators_without_point_into_empty", Generator_System gs; gs.insert(ray(x)); gs.insert(closure_point(y)); p.add_generators(gs))

// constructors
REJECT("C_Polyhedron", "construct", "space_dimension_overflow") { r.call("length_error", [&] { C_Polyhedron p(C_Polyhedron::max_space_dimension() + 1); }); }
REJECT("NNC_Polyhedron", "construct", "space_dimension_overflow") { r.call("length_error", [&] { NNC_Polyhedron p(NNC_Polyhedron::max_space_dimension() + 1, EMPTY); }); }
REJECT("C_Polyhedron", "construct_from_constraints", "strict_on_closed") { Constraint_System cs; cs.insert(Variable(0) > 0); cs.insert(Variable(1) >= 0); Constraint_System cs0(cs);
  r.call("invalid_argument", [&] { C_Polyhedron p(cs); });
  r.unchanged("argument", cs, cs0, [](const Constraint_System& a, const Constraint_System& b) { return str(a) == str(b); }, [](const Constraint_System& a) { return str(a); }); }
REJECT("C_Polyhedron", "construct_from_generators", "closure_point_on_closed") { Generator_System gs; gs.insert(point()); gs.insert(closure_point(Variable(0))); Generator_System gs0(gs);
  r.call("invalid_argument", [&] { C_Polyhedron p(gs); });
  r.unchanged("argument", gs, gs0, [](const Generator_System& a, const Generator_System& b) { return str(a) == str(b); }, [](const Generator_System& a) { return str(a); }); }
REJECT("C_Polyhedron", "construct_from_generators", "no_point") { Generator_System gs; gs.insert(ray(Variable(0))); gs.insert(line(Variable(1)));
  r.call("invalid_argument", [&] { C_Polyhedron p(gs); }); }
REJECT("NNC_Polyhedron", "construct_from_generators", "no_point") { Generator_System gs; gs.insert(ray(Variable(0))); gs.insert(closure_point(Variable(1)));
  r.call("invalid_argument", [&] { NNC_Polyhedron p(gs); }); }
REJECT("Generator", "point", "zero_divisor") { Linear_Expression e = Variable(0) + 2 * Variable(1); Linear_Expression e0(e);
  r.call("invalid_argument", [&] { (void) point(e, 0); });
  r.unchanged("expression", e, e0, [](const Linear_Expression& a, const Linear_Expression& b) { return a.is_equal_to(b); }, [](const Linear_Expression& a) { return str(a); }); }
REJECT("Generator", "closure_point", "zero_divisor") { r.call("invalid_argument", [&] { (void) closure_point(Variable(0), 0); }); }
REJECT("Generator", "ray", "origin_direction") { r.call("invalid_argument", [&] { (void) ray(0 * Variable(1)); }); }
REJECT("Generator", "line", "origin_direction") { r.call("invalid_argument", [&] { (void) line(Linear_Expression(3)); }); }
REJECT("Generator", "divisor", "of_a_ray") { Generator g = ray(Variable(0)); r.call("invalid_argument", [&] { (void) g.divisor(); }); }
REJECT("Generator", "coefficient", "dim_too_large") { Generator g = point(Variable(0)); r.call("invalid_argument", [&] { (void) g.coefficient(Variable(3)); }); }
REJECT("Constraint", "coefficient", "dim_too_large") { Constraint k = (Variable(0) >= 1); r.call("invalid_argument", [&] { (void) k.coefficient(Variable(3)); }); }
REJECT("Congruence", "coefficient", "dim_too_large") { Congruence k = (Variable(0) %= 1) / 3; r.call("invalid_argument", [&] { (void) k.coefficient(Variable(3)); }); }
REJECT("Constraint", "construct_from_congruence", "proper_congruence") { Congruence k = (Variable(0) %= 1) / 3; r.call("invalid_argument", [&] { Constraint c(k); }); }
REJECT("Congruence", "construct_from_constraint", "inequality") { Constraint k = (Variable(0) >= 1); r.call("invalid_argument", [&] { Congruence c(k); }); }
REJECT("Variable", "construct", "id_overflow") { r.call("length_error", [&] { Variable v(Variable::max_space_dimension()); }); }
REJECT("Linear_Expression", "construct_from_variable", "dim_overflow") { if (Variable::max_space_dimension() <= Linear_Expression::max_space_dimension()) { r.call("length_error", [&] { throw std::length_error("n/a: a Variable cannot exceed the expression limit"); }); return; }
  Variable v(Linear_Expression::max_space_dimension()); r.call("length_error", [&] { Linear_Expression e(v); }); }
REJECT("Linear_Expression", "add_variable", "dim_overflow") { if (Variable::max_space_dimension() <= Linear_Expression::max_space_dimension()) { r.call("length_error", [&] { throw std::length_error("n/a"); }); return; }
  Variable v(Linear_Expression::max_space_dimension()); Linear_Expression e = Variable(0) + 3; Linear_Expression e0(e);
  r.call("length_error", [&] { e += v; });
  r.unchanged("expression", e, e0, [](const Linear_Expression& a, const Linear_Expression& b) { return a.is_equal_to(b); }, [](const Linear_Expression& a) { return str(a); }); }
} // namespace
