// psetseq, instantiation for bds (see psetseq.hh)
#include "psetseq.hh"
void psq::run_bds() { psq::Engine<psq::DomBDS>::run_case(); }
