// faultinj — property C14: exceptional exits are clean.
//
//  * alloc   : for a scenario (one library operation on generated arguments) count the N
//              allocations (replacement operator new/new[] + GMP memory functions) of the
//              operation, then for k in a stride over [0,N) + the last 10 (every k with
//              --thorough) rebuild the arguments, make the k-th allocation throw
//              std::bad_alloc, and require: only bad_alloc leaves the call; every object
//              involved is OK(), usable, assignable, destructible; the library still
//              computes (canary); LeakSanitizer finds no unreachable block.
//  * abandon : same with a counting Throwable behind abandon_expensive_computations
//              (every checkpoint index) and with a Threshold_Watcher weight threshold.
//  * reject  : ill-formed calls must throw the documented exception type and leave the
//              value of every object involved unchanged.
//
// Every case runs in a forked child supervised by the worker: a crash (sanitizer report,
// signal, std::terminate) while unwinding / destroying / reusing an object is reported as
// C14.<family>.<scenario>.crash and the worker goes on with the next case.  Inside a case
// the blocks of a reported leak are handed to __lsan_ignore_object(), so that one leak
// blinds neither the remaining failure points of the case nor the rest of the run.
//
// Needs ASAN_OPTIONS=...:detect_leaks=1 (checked at start-up: exit 2 otherwise).
#include "faultinj.hh"
#include <sanitizer/lsan_interface.h>
#include <sanitizer/common_interface_defs.h>
#include <execinfo.h>
#include <sys/mman.h>
#include <sys/wait.h>
#include <sys/stat.h>
#include <fcntl.h>
#include <fstream>

using namespace Parma_Polyhedra_Library;

// The in-process leak checks are the monitor; the end-of-process check would only re-report
// what was already turned into violations (and make the worker look crashed).
extern "C" const char* __lsan_default_options() { return "leak_check_at_exit=0:print_suppressions=0"; }

// ===================================================================================
// 1. Allocation interposer
// ===================================================================================
namespace {
long g_countdown = -1;           // < 0: disarmed
bool g_fired = false;
unsigned long g_allocs = 0;
void* g_fire_pcs[8]; int g_fire_npcs = 0;

// live blocks allocated since track_reset() (open addressing, tombstones; no allocation).
// Addresses are stored complemented: the table lives in global memory, which LeakSanitizer scans
// for roots - a plain copy of the address would make every leaked block "reachable".
const size_t TBITS = 18, TSIZE = size_t(1) << TBITS;
void* g_tab[TSIZE];
inline void* hide(void* p) { return (void*) ~(uintptr_t) p; }
size_t g_tab_used = 0; bool g_track = false, g_tab_overflow = false;
void* const TOMB = (void*) 1;
inline size_t th(void* p) { return (size_t) (((uintptr_t) p >> 4) * 0x9E3779B97F4A7C15ULL >> (64 - TBITS)); }
inline void t_insert(void* p) {
  if (g_tab_used * 2 > TSIZE) { g_tab_overflow = true; return; }
  size_t i = th(p); p = hide(p);
  while (g_tab[i] && g_tab[i] != TOMB) i = (i + 1) & (TSIZE - 1);
  if (!g_tab[i]) ++g_tab_used;
  g_tab[i] = p;
}
inline void t_erase(void* p) {
  if (!g_tab_used || !p) return;
  size_t i = th(p); p = hide(p);
  while (g_tab[i]) { if (g_tab[i] == p) { g_tab[i] = TOMB; return; } i = (i + 1) & (TSIZE - 1); }
}
void track_reset() { memset(g_tab, 0, sizeof g_tab); g_tab_used = 0; g_tab_overflow = false; }

inline bool tick() {
  ++g_allocs;
  if (g_countdown < 0) return false;
  if (g_countdown == 0) {
    g_countdown = -1; g_fired = true;
    g_fire_npcs = backtrace(g_fire_pcs, 8);
    return true;
  }
  --g_countdown;
  return false;
}
inline void* alloc_or_throw(size_t sz) {
  if (tick()) throw std::bad_alloc();
  void* p = malloc(sz ? sz : 1);
  if (!p) throw std::bad_alloc();
  if (g_track) t_insert(p);
  return p;
}
inline void release(void* p) { if (g_track || g_tab_used) t_erase(p); free(p); }
} // namespace

void* operator new(size_t sz) { return alloc_or_throw(sz); }
void* operator new[](size_t sz) { return alloc_or_throw(sz); }
void* operator new(size_t sz, const std::nothrow_t&) noexcept { try { return alloc_or_throw(sz); } catch (...) { return 0; } }
void* operator new[](size_t sz, const std::nothrow_t&) noexcept { try { return alloc_or_throw(sz); } catch (...) { return 0; } }
void operator delete(void* p) noexcept { release(p); }
void operator delete[](void* p) noexcept { release(p); }
void operator delete(void* p, size_t) noexcept { release(p); }
void operator delete[](void* p, size_t) noexcept { release(p); }
void operator delete(void* p, const std::nothrow_t&) noexcept { release(p); }
void operator delete[](void* p, const std::nothrow_t&) noexcept { release(p); }
extern "C" {
static void* fi_gmp_malloc(size_t sz) { return alloc_or_throw(sz); }
static void* fi_gmp_realloc(void* p, size_t, size_t nsz) {
  if (tick()) throw std::bad_alloc();          // the old block stays valid
  void* q = realloc(p, nsz ? nsz : 1);
  if (!q) throw std::bad_alloc();
  if (g_track || g_tab_used) { t_erase(p); if (g_track) t_insert(q); }
  return q;
}
static void fi_gmp_free(void* p, size_t) { release(p); }
}

// ===================================================================================
// 2. Shared progress marker (child -> supervising parent)
// ===================================================================================
namespace {
struct Shared {
  char scen[96]; char mode[16]; long k; char stage[160];
  unsigned long injections;
};
Shared* g_sh = 0;
std::string g_base;            // prefix of scratch files (sanitizer report files)
bool g_in_child = false;
}
namespace fi {
void stage(const char* w) { if (g_sh) { strncpy(g_sh->stage, w, sizeof g_sh->stage - 1); g_sh->stage[sizeof g_sh->stage - 1] = 0; } if (hx::opt().verbose) fprintf(stderr, "  stage: %s\n", w); }
void stage(const std::string& w) { stage(w.c_str()); }
void arm_alloc(long k) { g_fired = false; g_fire_npcs = 0; g_allocs = 0; g_countdown = k; }
bool disarm_alloc() { g_countdown = -1; return g_fired; }
unsigned long alloc_count() { return g_allocs; }
void reset_alloc_count() { g_allocs = 0; }
std::vector<Scen>& scenarios() { static std::vector<Scen> v; return v; }
std::vector<Rej>& rejects() { static std::vector<Rej> v; return v; }

// --- triage of not-OK objects --------------------------------------------------------
// Polyhedron dumps: re-evaluate the structural part of Polyhedron::OK() (Polyhedron_public.cc)
// on the text, in the same order, and name the first clause that fails.
std::string classify_not_ok(const std::string& d) {
  if (d.compare(0, 10, "space_dim ") != 0 || d.find("\ncon_sys (") == std::string::npos || d.find("\nsat_g") == std::string::npos) return "";
  std::istringstream in(d); std::string w;
  long space_dim = -1; in >> w >> space_dim;
  std::map<std::string, bool> fl;
  for (int i = 0; i < 10 && (in >> w); ++i) if (w.size() == 3) fl[w.substr(1)] = w[0] == '+';
  struct Sys { bool up; long rows, cols, pend; bool has_point; Sys() : up(false), rows(0), cols(0), pend(0), has_point(false) {} } cs, gs;
  long satc_r = 0, satc_c = 0, satg_r = 0, satg_c = 0;
  std::string line; Sys* cur = 0;
  while (std::getline(in, line)) {
    if (line.compare(0, 9, "con_sys (") == 0) { cur = &cs; cur->up = line.find("(up-to-date)") != std::string::npos; }
    else if (line.compare(0, 9, "gen_sys (") == 0) { cur = &gs; cur->up = line.find("(up-to-date)") != std::string::npos; }
    else if (line.compare(0, 5, "sat_c") == 0) { std::getline(in, line); sscanf(line.c_str(), "%ld x %ld", &satc_r, &satc_c); cur = 0; }
    else if (line.compare(0, 5, "sat_g") == 0) { std::getline(in, line); sscanf(line.c_str(), "%ld x %ld", &satg_r, &satg_c); cur = 0; }
    else if (cur && line.find(" x ") != std::string::npos && (line.find("DENSE") != std::string::npos || line.find("SPARSE") != std::string::npos)) sscanf(line.c_str(), "%ld x %ld", &cur->rows, &cur->cols);
    else if (cur && line.compare(0, 20, "index_first_pending ") == 0) cur->pend = atol(line.c_str() + 20);
    else if (cur == &gs && line.compare(0, 5, "size ") == 0 && (line.find(" P ") != std::string::npos || line.find(" P(") != std::string::npos || line.find(" P\n") != std::string::npos || line.rfind(" P") == line.size() - 2)) gs.has_point = true;
  }
  // the two systems of a polyhedron have its topology, hence the same one
  { size_t a = d.find("\ncon_sys ("), b = d.find("\ngen_sys (");
    if (a != std::string::npos && b != std::string::npos) {
      size_t ta = d.find("topology ", a), tb = d.find("topology ", b);
      if (ta != std::string::npos && tb != std::string::npos && ta < b) {
        std::string xa = d.substr(ta + 9, d.find('\n', ta) - ta - 9), xb = d.substr(tb + 9, d.find('\n', tb) - tb - 9);
        if (xa != xb) return "con_sys-vs-gen_sys-topology";
      } } }
  const bool ZE = fl["ZE"], EM = fl["EM"], CM = fl["CM"], GM = fl["GM"], CS = fl["CS"], GS = fl["GS"], CP = fl["CP"], GP = fl["GP"], SC = fl["SC"], SG = fl["SG"];
  (void) ZE; (void) CM; (void) GM;
  if (EM) { if (CP || GP) return "empty-with-pending"; if (cs.rows && cs.cols != space_dim) return "space_dim-vs-con_sys"; if (cs.rows > 1) return "empty-with-several-constraints"; return "empty-other"; }
  if (space_dim == 0) return "zero-dim-with-rows-or-pending";
  if (!CS && !GS) return "nothing-up-to-date";
  if (CS) {
    if (cs.cols != space_dim) return "space_dim-vs-con_sys";
    if (SC && cs.pend != satc_c) return "sat_c-size-vs-con_sys";
    if (SG && cs.pend != satg_r) return "sat_g-size-vs-con_sys";
    if (GS && cs.cols != gs.cols) return "con_sys-vs-gen_sys-dimension";
  }
  if (GS) {
    if (gs.cols != space_dim) return "space_dim-vs-gen_sys";
    if (SC && gs.pend != satc_r) return "sat_c-size-vs-gen_sys";
    if (SG && gs.pend != satg_c) return "sat_g-size-vs-gen_sys";
    if (gs.pend == 0) return "gen_sys-all-rows-pending";
    if (gs.rows && !gs.has_point) return "gen_sys-without-point";
  }
  if (CS && cs.pend == 0) return "con_sys-all-rows-pending";
  return "minimized-flag-or-row-content";
}

// --- armed section ------------------------------------------------------------------
static Abandon g_abandon;
static Weight_Exceeded g_wexc;
static pplx::Weightwatch* g_ww = 0;
static unsigned long long g_w0 = 0;
static void* g_ab_pcs[8]; static int g_ab_npcs = 0;

void Ctx::begin() {
  fired = threw = false; exc.clear();
  g_abandon.seen = 0; g_abandon.target = -1;
  if (mode == ABANDON) g_abandon.target = k;
  if (mode == WEIGHT) g_ww = new pplx::Weightwatch(wthreshold, abandon_expensive_computations, g_wexc);
  else abandon_expensive_computations = &g_abandon;        // counts the checkpoints in every other mode
  stage("armed section");
  g_w0 = Weightwatch_Traits::weight;
  // last: from here on only the library allocates
  if (mode == ALLOC) arm_alloc(k); else { g_countdown = -1; g_fired = false; g_allocs = 0; }
}
void Ctx::end() {
  bool f = disarm_alloc();
  n_allocs = g_allocs;
  abandon_expensive_computations = 0;
  n_checkpoints = g_abandon.seen;
  if (mode == ALLOC) fired = f;
  if (g_ww) { delete g_ww; g_ww = 0; }
}
} // namespace fi

// ===================================================================================
// 3. Leak check
// ===================================================================================
namespace {
// overwrite the dead part of the stack (stale copies of pointers would hide a leak from LeakSanitizer until later)
__attribute__((noinline)) void scrub_stack() { volatile char buf[131072]; memset((void*) buf, 0, sizeof buf); buf[sizeof buf - 1] = buf[0]; }

std::string report_file() { char b[32]; snprintf(b, sizeof b, ".%d", (int) getpid()); return g_base + ".rep" + b; }
// the sanitizer runtime keeps the report file open and appends: read what is new since last time
long g_rep_off = 0;
std::string slurp_new(const std::string& path, long* off) {
  std::string s;
  FILE* f = fopen(path.c_str(), "r");
  if (!f) return s;
  if (off) fseek(f, *off, SEEK_SET);
  char buf[4096]; size_t n;
  while ((n = fread(buf, 1, sizeof buf, f)) > 0) s.append(buf, n);
  if (off) *off += (long) s.size();
  fclose(f);
  return s;
}
std::string slurp_and_truncate(const std::string& path) { return slurp_new(path, path == report_file() ? &g_rep_off : 0); }
// "ns::Enable_If<..>::type ns::CO_Tree::CO_Tree<...>(args) const" -> "CO_Tree::CO_Tree<...>"
std::string tidy_fn(std::string f) {
  const std::string ns = "Parma_Polyhedra_Library::";
  for (size_t p; (p = f.find(ns)) != std::string::npos; ) f.erase(p, ns.size());
  // operators: keep "…::operator<sym>"
  size_t op = f.find("operator");
  if (op != std::string::npos && (op == 0 || f[op - 1] == ':' || f[op - 1] == ' ')) {
    size_t e = op + 8; if (f.compare(e, 2, "()") == 0) e += 2; else while (e < f.size() && f[e] != '(') ++e;
    size_t b = f.rfind(' ', op); b = b == std::string::npos ? 0 : b + 1;
    std::string o = f.substr(b, e - b), r; for (size_t i = 0; i < o.size(); ++i) if (o[i] != ' ') r += o[i];
    return r;
  }
  // the name is the last blank-separated token (at nesting depth 0) before the parameter list
  int depth = 0; size_t start = 0, cut = std::string::npos;
  for (size_t i = 0; i < f.size(); ++i) {
    char ch = f[i];
    if (ch == '<' || ch == '[') ++depth; else if (ch == '>' || ch == ']') --depth;
    else if (ch == '(' && depth == 0) { cut = i; break; }
    else if (ch == '(') ++depth; else if (ch == ')') --depth;
    else if (ch == ' ' && depth == 0) start = i + 1;
  }
  f = f.substr(start, cut == std::string::npos ? std::string::npos : cut - start);
  std::string o; for (size_t i = 0; i < f.size(); ++i) if (f[i] != ' ') o += f[i];
  return o.size() > 90 ? o.substr(0, 90) : o;
}
// frames ("function file:line") of the first stack in a sanitizer report
struct Frame { std::string fn, loc; bool ppl; };
std::vector<Frame> first_stack(const std::string& rep, size_t from = 0) {
  std::vector<Frame> fr;
  std::istringstream in(rep.substr(from)); std::string l; bool in_stack = false;
  while (std::getline(in, l)) {
    size_t p = l.find_first_not_of(' ');
    if (p != std::string::npos && l[p] == '#') {
      in_stack = true;
      size_t q = l.find(" in ", p);
      if (q == std::string::npos) continue;
      std::string rest = l.substr(q + 4);
      Frame f; f.ppl = false;
      // the location is the last blank-separated token ("/path/file.cc:123" or "(/lib/x.so+0x1)")
      size_t sp = rest.rfind(' ');
      if (sp != std::string::npos && (rest[sp + 1] == '/' || rest[sp + 1] == '(' || rest.compare(sp + 1, 2, "..") == 0)) { f.loc = rest.substr(sp + 1); rest.erase(sp); }
      f.ppl = f.loc.find("/repo/") != std::string::npos;     // a frame of the library proper (harness frames live in /verif)
      size_t sl = f.loc.rfind('/'); if (sl != std::string::npos) f.loc.erase(0, sl + 1);
      f.fn = tidy_fn(rest);
      fr.push_back(f);
    }
    else if (in_stack) break;
  }
  return fr;
}
std::string top_ppl_frame(const std::vector<Frame>& fr, std::string* context = 0) {
  std::string top;
  for (size_t i = 0; i < fr.size(); ++i) {
    const std::string& f = fr[i].fn;
    if (!fr[i].ppl) continue;
    if (top.empty()) top = f;
    if (context) { if (!context->empty()) *context += " < "; *context += f + " " + fr[i].loc; }
  }
  if (!top.empty()) return top;
  // allocation made by an external library whose frames the unwinder cannot cross (GMP has no frame pointers)
  for (size_t i = 0; i < fr.size(); ++i) {
    const std::string& l = fr[i].loc;
    if (l.compare(0, 3, "lib") == 0 && l.find("asan") == std::string::npos) { size_t e = l.find_first_of(".+"); if (context) *context += fr[i].fn + " " + l; return "extern-" + l.substr(0, e); }
  }
  return "no-PPL-frame";
}

bool g_lsan_ok = false;
// Returns "" if nothing leaked, else "<site>\n<details>".  Leaked blocks are then ignored.
bool leak_check(std::string& site, std::string& detail) {
  fi::stage("leak check");
  hx::checked();
  hx::count("leak_checks");
  if (!__lsan_do_recoverable_leak_check()) return false;
  std::string rep = slurp_and_truncate(report_file());
  if (hx::opt().verbose) fprintf(stderr, "%s\n", rep.c_str());
  // One stack per leaked allocation site.  The key names the first *direct* leak whose allocation
  // was made by library code; blocks allocated inside GMP/gmpxx (no library frame on top) only if there is no other.
  std::string ctx, ext_site, ext_ctx; site.clear();
  for (size_t d = rep.find("Direct leak of "); d != std::string::npos; d = rep.find("Direct leak of ", d + 1)) {
    std::vector<Frame> fr = first_stack(rep, d);
    std::string c1, st; bool ext = false;
    for (size_t i = 0; i < fr.size(); ++i) {
      const Frame& f = fr[i];
      if (f.loc.find("asan_") != std::string::npos || f.loc.find("faultinj.cc") != std::string::npos) continue;   // interposer frames
      if (f.ppl) { st = top_ppl_frame(fr, &c1); }
      else if (f.loc.compare(0, 3, "lib") != 0) continue;            // inlined standard-library code (/usr/include/c++/...)
      else { ext = true; size_t e = f.loc.find_first_of(".+"); st = "extern-" + (f.loc.compare(0, 3, "lib") == 0 ? f.loc.substr(0, e) : std::string("unknown")); c1 = f.fn + " " + f.loc; std::string c2; std::string up = top_ppl_frame(fr, &c2); if (up != "no-PPL-frame" && up.compare(0, 7, "extern-") != 0) c1 += " < " + c2; }
      break;
    }
    if (st.empty()) continue;
    if (!ext) { site = st; ctx = c1; break; }
    if (ext_site.empty()) { ext_site = st; ext_ctx = c1; }
  }
  if (site.empty()) { site = ext_site.empty() ? "no-PPL-frame" : ext_site; ctx = ext_ctx; }
  size_t s = rep.find("SUMMARY:");
  detail = (s == std::string::npos ? std::string("(no report text)") : rep.substr(s, rep.find('\n', s) - s)) + " allocated at: " + ctx;
  // hand every block allocated during this invocation and still live to LSan's ignore list:
  // reachable ones (library caches) are unaffected, the leaked ones stop being re-reported.
  size_t ign = 0;
  for (size_t i = 0; i < TSIZE; ++i) if (g_tab[i] && g_tab[i] != TOMB) { __lsan_ignore_object(hide(g_tab[i])); ++ign; }
  scrub_stack();
  if (hx::opt().verbose) fprintf(stderr, "ignored %zu live blocks (table used %zu, overflow %d)\n", ign, g_tab_used, (int) g_tab_overflow);
  if (g_tab_overflow || __lsan_do_recoverable_leak_check()) { std::string rep2 = slurp_and_truncate(report_file()); if (hx::opt().verbose) fprintf(stderr, "SECOND: %s\n", rep2.c_str()); detail += " [could not isolate the leaked blocks: the case stops here]"; site += ""; hx::count("leak.not_isolated"); return true; }
  hx::count("leak.isolated");
  return true;
}
} // namespace

// ===================================================================================
// 4. Canary: the library still computes
// ===================================================================================
namespace {
std::string canary() {
  fi::stage("canary");
  Variable x(0), y(1);
  try {
    C_Polyhedron t(2);
    t.add_constraint(x + y <= 3); t.add_constraint(x >= 0); t.add_constraint(y >= 0);
    const Generator_System& gs = t.minimized_generators();
    int pts = 0; for (Generator_System::const_iterator i = gs.begin(); i != gs.end(); ++i) if (i->is_point()) ++pts;
    if (pts != 3 || !t.OK() || t.is_empty()) return "triangle has " + std::to_string(pts) + " vertices";
    C_Polyhedron u(2); u.add_constraint(x >= 1); u.add_constraint(x <= 2); u.add_constraint(y == 1);
    t.intersection_assign(u);
    Coefficient n, dd; bool mx;
    if (!t.maximize(3 * x + y, n, dd, mx) || n != 7 * dd || !mx) return "maximize(3x+y) on the slice is wrong";
    MIP_Problem m(2);
    m.add_constraint(x + 2 * y <= 7); m.add_constraint(x <= 3); m.add_constraint(x >= 0); m.add_constraint(y >= 0);
    m.set_objective_function(x + y); m.set_optimization_mode(MAXIMIZATION);
    if (m.solve() != OPTIMIZED_MIP_PROBLEM) return "MIP not optimized";
    m.optimal_value(n, dd);
    if (n != 5 * dd) return "MIP optimum is not 5";
    Linear_Expression e(SPARSE); e += 3 * x; e -= 2 * y; Linear_Expression f(e, DENSE); f += e;
    if (f.coefficient(x) != 6 || f.coefficient(y) != -4) return "linear expression arithmetic is wrong";
    Grid g(2); g.add_congruence((x + y %= 1) / 2);
    if (g.is_empty() || !g.OK()) return "grid is wrong";
  }
  catch (const std::exception& e) { return std::string("exception ") + fi::exc_class(e) + ": " + e.what(); }
  return "";
}
} // namespace

// ===================================================================================
// 5. One case
// ===================================================================================
namespace {
using fi::Ctx; using fi::Mode;

std::vector<const fi::Scen*> g_scen;      // after --kv scen= filter
std::vector<const fi::Rej*> g_rej;

void trace_line(const std::string& s) {
  if (hx::trace().size() < 6000) hx::tr(s); else if (hx::opt().verbose) fprintf(stderr, "op: %s\n", s.c_str());
}

// One invocation of the scenario with the RNG rewound; returns false if the case must stop.
bool invoke(const fi::Scen& sc, hx::Rng saved, Ctx& c, bool& leaked_key_seen, std::set<std::string>& leak_keys) {
  hx::rng() = saved;
  c.scen = sc.name;
  if (g_sh) { strncpy(g_sh->scen, sc.name, sizeof g_sh->scen - 1); strncpy(g_sh->mode, fi::mode_name(c.mode), sizeof g_sh->mode - 1); g_sh->k = c.mode == fi::WEIGHT ? (long) c.wthreshold : c.k; ++g_sh->injections; }
  fi::stage("build arguments");
  g_track = true;      // the table of live blocks accumulates over the whole case (reset in case_body)
  try { sc.fn(c); }
  catch (const std::exception& e) {
    g_track = false; fi::disarm_alloc(); abandon_expensive_computations = 0;
    // after an injected fault has propagated, an exception from the scenario's own follow-up statements (taking the value of the
    // object, building the comparison copy) means the object involved cannot be used: that is the property's business, not a harness bug
    if (c.mode >= fi::ALLOC && (c.threw || c.fired)) c.fail("unusable", std::string("using the objects after the exceptional exit throws ") + fi::exc_class(e) + ": " + e.what());
    else hx::violation(std::string("harness.bug.faultinj.scenario_threw.") + sc.name, c.where() + " :: " + fi::exc_class(e) + ": " + e.what());
    return false;
  }
  g_track = false;
  if (c.runs != 1) { hx::violation(std::string("harness.bug.faultinj.runs.") + sc.name, "scenario executed " + std::to_string(c.runs) + " armed sections"); return false; }
  bool stop = c.failed;
  const bool injected = c.mode >= fi::ALLOC;
  // library still usable?
  if (!stop) {
    hx::checked();
    std::string w = canary();
    if (!w.empty()) { c.fail("library_unusable", "canary computation after the exceptional exit: " + w); stop = true; }
  }
  // leaks?
  std::string site, detail;
  scrub_stack();
  if (leak_check(site, detail)) {
    std::string key = injected ? "C14.leak." + std::string(sc.name) + ":" + site : "nofault." + std::string(sc.name) + ".leak:" + site;
    if (leak_keys.insert(key).second) hx::violation(key, c.where() + " exception=" + (c.threw ? c.exc : "none") + " :: " + detail);
    else hx::count("leak.repeats_in_case");
    leaked_key_seen = true;
    if (detail.find("could not isolate") != std::string::npos) stop = true;
    if (!injected) stop = true;
  }
  return !stop;
}

std::vector<long> pick(long n, long want, long tail) {
  std::vector<long> ks;
  if (n <= 0) return ks;
  if (hx::opt().thorough) want = hx::opt().geti("maxk", 6000);
  if (n <= want + tail) { for (long k = 0; k < n; ++k) ks.push_back(k); return ks; }
  long stride = (n - tail + want - 1) / want; if (stride < 1) stride = 1;
  long off = hx::rnd(0, (int) stride - 1);
  for (long k = off; k < n - tail; k += stride) ks.push_back(k);
  for (long k = n - tail; k < n; ++k) ks.push_back(k);
  return ks;
}

extern "C" char __executable_start, etext;
// failure site = the innermost return addresses inside this (statically linked) executable,
// as load-address independent offsets
std::string pcs_token(void* const* pcs, int n, int skip) {
  std::string t; char b[24]; int got = 0;
  for (int i = skip; i < n && got < 3; ++i) {
    const char* pc = (const char*) pcs[i];
    if (pc < &__executable_start || pc >= &etext) continue;
    snprintf(b, sizeof b, "|%lx", (unsigned long) (pc - &__executable_start)); t += b; ++got;
  }
  return t;
}

void alloc_like_case(const fi::Scen& sc, int kind) {
  hx::Rng saved = hx::rng();
  std::set<std::string> leak_keys; bool leaked = false;
  // dry runs (warm every cache), then count
  Ctx d1; d1.mode = fi::DRY;
  trace_line(std::string("scenario ") + sc.name + " [dry]");
  if (!invoke(sc, saved, d1, leaked, leak_keys)) return;
  Ctx d2; d2.mode = fi::DRY;
  if (!invoke(sc, saved, d2, leaked, leak_keys)) return;
  Ctx cn; cn.mode = fi::COUNT;
  if (!invoke(sc, saved, cn, leaked, leak_keys)) return;
  if (cn.digest != d2.digest) { hx::violation(std::string("harness.bug.faultinj.nondeterministic.") + sc.name, "two un-injected runs on the same arguments gave different results"); return; }
  const long N = (long) cn.n_allocs, M = (long) cn.n_checkpoints; const unsigned long long W = cn.weight_used;
  hx::count(std::string("scen.") + sc.name);
  { std::map<std::string, unsigned long>& C = hx::st().counters; std::string kk = std::string("max_allocs.") + sc.name; if (C[kk] < (unsigned long) N) C[kk] = N; }
  if (kind == fi::ABANDON && M == 0) kind = fi::ALLOC;
  if (kind == fi::WEIGHT && (M == 0 || W == 0)) kind = fi::ALLOC;
  std::ostringstream o; o << " [allocs=" << N << " checkpoints=" << M << " weight=" << W << "] " << fi::mode_name((Mode) kind) << ":";
  trace_line(o.str());

  if (kind == fi::ALLOC) {
    hx::count("alloc.points_total", N);
    // scenarios whose exceptional paths are narrow windows of a long computation get a denser stride
    const bool dense = strstr(sc.name, "strong_minimization") != 0;
    std::vector<long> ks = pick(N, hx::opt().geti("points", dense ? 240 : 24), 10);
    for (size_t i = 0; i < ks.size(); ++i) {
      Ctx c; c.mode = fi::ALLOC; c.k = ks[i];
      trace_line(" k=" + std::to_string(ks[i]));
      bool go = invoke(sc, saved, c, leaked, leak_keys);
      hx::count("inj.alloc");
      if (c.fired && c.threw) { hx::count("alloc.thrown"); hx::distinct(std::string(sc.name) + "|alloc" + pcs_token(g_fire_pcs, g_fire_npcs, 1)); }
      else if (c.fired) hx::count("alloc.swallowed");          // e.g. inside an iostream: the stream goes bad, nothing propagates
      else { hx::count("alloc.not_reached"); if (!c.threw && !c.failed && c.digest != cn.digest) { hx::violation(std::string("harness.bug.faultinj.nondeterministic.") + sc.name, c.where() + ": no fault fired but the result differs"); go = false; } }
      if (!go) break;
    }
  }
  else if (kind == fi::ABANDON) {
    hx::count("abandon.points_total", M);
    std::vector<long> ks = pick(M, hx::opt().geti("points", 24), 6);
    for (size_t i = 0; i < ks.size(); ++i) {
      Ctx c; c.mode = fi::ABANDON; c.k = ks[i];
      trace_line(" j=" + std::to_string(ks[i]));
      bool go = invoke(sc, saved, c, leaked, leak_keys);
      hx::count("inj.abandon");
      if (c.threw) { hx::count("abandon.thrown"); hx::distinct(std::string(sc.name) + "|abandon|" + std::to_string(ks[i] < 40 ? ks[i] : 40 + ks[i] % 7)); }
      else hx::count("abandon.not_reached");
      if (!go) break;
    }
  }
  else {
    // thresholds spread over (0, W]
    std::vector<long> ks = pick((long) (W < 2000000000ULL ? W : 2000000000ULL), hx::opt().thorough ? 400 : 10, 2);
    for (size_t i = 0; i < ks.size(); ++i) {
      Ctx c; c.mode = fi::WEIGHT; c.wthreshold = (unsigned long long) ks[i] + 1;
      trace_line(" w=" + std::to_string(ks[i] + 1));
      bool go = invoke(sc, saved, c, leaked, leak_keys);
      hx::count("inj.weight");
      if (c.threw) { hx::count("weight.thrown"); hx::distinct(std::string(sc.name) + "|weight|" + std::to_string((unsigned long) (c.weight_used * 16 / (W + 1)))); }
      else hx::count("weight.not_reached");
      if (!go) break;
    }
  }
}

void reject_case() {
  int n = hx::opt().geti("rejects", 12);
  for (int i = 0; i < n && !hx::st().case_tainted; ++i) {
    const fi::Rej& R = *g_rej[hx::rnd(0, (int) g_rej.size() - 1)];
    fi::RCtx r; r.dom = R.dom; r.op = R.op; r.cls = R.cls;
    std::string nm = r.dom + "." + r.op + "." + r.cls;
    if (g_sh) { strncpy(g_sh->scen, nm.c_str(), sizeof g_sh->scen - 1); strncpy(g_sh->mode, "reject", sizeof g_sh->mode - 1); g_sh->k = 0; }
    trace_line("reject " + nm + "; ");
    g_track = true;
    try { R.fn(r); }
    catch (const std::exception& e) { g_track = false; hx::violation("harness.bug.faultinj.reject_threw." + nm, fi::exc_class(e) + std::string(": ") + e.what()); return; }
    g_track = false;
    if (!r.done) { hx::violation("harness.bug.faultinj.reject_not_called." + nm, "entry made no call"); return; }
    hx::count("rej." + nm);
    hx::count("rejects");
    if (!r.failed) hx::distinct("reject|" + nm);
    std::string site, detail;
    scrub_stack();
    if (leak_check(site, detail)) { hx::violation("C14.leak.reject." + nm + ":" + site, detail); return; }
  }
}

void case_body() {
  track_reset(); g_rep_off = g_in_child ? 0 : g_rep_off;
  std::string kind = hx::opt().gets("kind", "");
  std::string prof = hx::opt().profile;
  if (kind.empty()) {
    if (prof == "alloc" || prof == "abandon" || prof == "weight" || prof == "reject") kind = prof;
    else { int r = hx::rnd(0, 99); kind = r < 52 ? "alloc" : r < 70 ? "abandon" : r < 80 ? "weight" : "reject"; }
  }
  if (kind == "reject") { if (g_rej.empty()) return; reject_case(); return; }
  if (g_scen.empty()) return;
  // Walk the (alphabetically sorted) scenario table with a stride coprime to its size: any run of
  // consecutive case indices spreads over all domains, and `size` consecutive cases visit every scenario once.
  const unsigned long nsc = g_scen.size();
  static unsigned long stride = 0;
  if (!stride) { stride = (nsc * 618UL / 1000UL) | 1UL; while (std::__gcd(stride, nsc) != 1) stride += 2; }
  const fi::Scen* scp = g_scen[(size_t) ((((unsigned long) hx::st().cur_case % nsc) * stride + (unsigned long) (hx::opt().seed % 1000003) * 7919UL) % nsc)];
  // focus scenarios (rarely taken exceptional paths) are visited more often than the uniform walk would
  if (hx::opt().gets("scen", "").empty() && hx::rnd(0, 99) < 3) for (size_t i = 0; i < g_scen.size(); ++i) if (strstr(g_scen[i]->name, "strong_minimization")) { scp = g_scen[i]; hx::count("focus_cases"); break; }
  const fi::Scen& sc = *scp;
  alloc_like_case(sc, kind == "alloc" ? fi::ALLOC : kind == "abandon" ? fi::ABANDON : fi::WEIGHT);
}

// --- supervision: the case runs in a forked child -------------------------------------
void send_state(int fd) {
  hx::State& S = hx::st();
  std::ostringstream o;
  o << "N " << S.checks << " " << S.violations << " " << S.inconclusive << " " << (S.case_tainted ? 1 : 0) << "\n";
  for (std::map<std::string, unsigned long>::iterator i = S.counters.begin(); i != S.counters.end(); ++i) o << "C " << i->second << " " << i->first << "\n";
  for (std::map<std::string, unsigned long>::iterator i = S.viol_count.begin(); i != S.viol_count.end(); ++i) o << "V " << i->second << " " << i->first << "\n";
  for (size_t i = 0; i < S.distinct_new.size(); ++i) o << "D " << S.distinct_new[i] << "\n";
  std::string t = S.trace.substr(0, 1500); for (size_t i = 0; i < t.size(); ++i) if (t[i] == '\n') t[i] = ' ';
  o << "T " << t << "\n";
  std::string s = o.str();
  size_t off = 0; while (off < s.size()) { ssize_t w = write(fd, s.data() + off, s.size() - off); if (w <= 0) break; off += (size_t) w; }
}
void recv_state(const std::string& blob) {
  hx::State& S = hx::st();
  std::istringstream in(blob); std::string l;
  std::map<std::string, unsigned long> C, V; std::vector<uint64_t> D; bool gotN = false;
  while (std::getline(in, l)) {
    if (l.size() < 2) continue;
    std::istringstream ls(l.substr(2));
    if (l[0] == 'N') { int t; ls >> S.checks >> S.violations >> S.inconclusive >> t; S.case_tainted = t != 0; gotN = true; }
    else if (l[0] == 'C' || l[0] == 'V') { unsigned long v; ls >> v; std::string k; std::getline(ls, k); if (!k.empty() && k[0] == ' ') k.erase(0, 1); (l[0] == 'C' ? C : V)[k] = v; }
    else if (l[0] == 'D') { uint64_t h; ls >> h; D.push_back(h); }
    else if (l[0] == 'T') S.trace = l.substr(2);
  }
  if (!gotN) return;
  S.counters.swap(C); S.viol_count.swap(V);
  S.distinct_new = D; for (size_t i = 0; i < D.size(); ++i) S.distinct_all.insert(D[i]);
}

void lsan_selftest_or_die() {
  // in a throw-away child: leak one block on purpose, LeakSanitizer must see it
  fflush(0);
  pid_t pid = fork();
  if (pid == 0) {
    __sanitizer_set_report_path("/dev/null");
    static volatile uintptr_t hidden;
    // through the interposed allocator with tracking on: the table of live blocks must not make it reachable
    track_reset(); g_track = true;
    { void* p = operator new(123); hidden = ~(uintptr_t) p; }
    g_track = false;
    scrub_stack();
    int r = __lsan_do_recoverable_leak_check();
    _exit(r ? 0 : 9);
  }
  int stt = 0; waitpid(pid, &stt, 0);
  if (!(WIFEXITED(stt) && WEXITSTATUS(stt) == 0)) {
    fprintf(stderr, "faultinj: LeakSanitizer is not active (run with ASAN_OPTIONS=...:detect_leaks=1); the C14 leak monitor would observe nothing\n");
    if (hx::opt().geti("nolsan", 0)) return;
    exit(2);
  }
  g_lsan_ok = true;
}

std::string crash_class(const std::string& rep, std::string& detail) {
  // "ERROR: AddressSanitizer: heap-use-after-free ..." / "runtime error: ..." + top PPL frame
  std::string kind = "died";
  size_t p = rep.find("ERROR: AddressSanitizer: ");
  if (p != std::string::npos) { size_t q = rep.find_first_of(" \n", p + 25); kind = rep.substr(p + 25, q - (p + 25)); }
  else if ((p = rep.find("runtime error: ")) != std::string::npos) { kind = "ubsan"; size_t q = rep.find('\n', p); std::string m = rep.substr(p + 15, q - (p + 15)); std::string t; for (size_t i = 0; i < m.size() && t.size() < 40; ++i) { char ch = m[i]; if (isdigit((unsigned char) ch)) { if (t.empty() || t[t.size() - 1] != 'N') t += 'N'; } else t += (ch == ' ' ? '-' : ch); } kind += "(" + t + ")"; }
  else if (rep.find("terminate called") != std::string::npos) kind = "terminate";
  std::vector<Frame> fr = first_stack(rep);
  std::string ctx; std::string top = top_ppl_frame(fr, &ctx);
  detail = ctx;
  return kind + "@" + top;
}

bool g_started = false;
void run_case(uint64_t) {
  if (!g_started) {
    g_started = true;
    mp_set_memory_functions(fi_gmp_malloc, fi_gmp_realloc, fi_gmp_free);
    { void* pcs[4]; backtrace(pcs, 4); }     // loads libgcc's unwinder now, not inside an armed section
    g_base = hx::opt().out.empty() ? std::string("/tmp/faultinj.") + std::to_string((int) getpid()) : hx::opt().out + ".fi";
    lsan_selftest_or_die();
    std::string filt = hx::opt().gets("scen", "");
    for (size_t i = 0; i < fi::scenarios().size(); ++i) if (filt.empty() || std::string(fi::scenarios()[i].name).find(filt) != std::string::npos) g_scen.push_back(&fi::scenarios()[i]);
    for (size_t i = 0; i < fi::rejects().size(); ++i) { std::string nm = std::string(fi::rejects()[i].dom) + "." + fi::rejects()[i].op + "." + fi::rejects()[i].cls; if (filt.empty() || nm.find(filt) != std::string::npos) g_rej.push_back(&fi::rejects()[i]); }
    std::sort(g_scen.begin(), g_scen.end(), [](const fi::Scen* a, const fi::Scen* b) { return strcmp(a->name, b->name) < 0; });
    std::sort(g_rej.begin(), g_rej.end(), [](const fi::Rej* a, const fi::Rej* b) { int c = strcmp(a->dom, b->dom); if (c) return c < 0; c = strcmp(a->op, b->op); if (c) return c < 0; return strcmp(a->cls, b->cls) < 0; });
    hx::st().counters["table.scenarios"] = g_scen.size();
    hx::st().counters["table.rejects"] = g_rej.size();
    if (hx::opt().geti("list", 0)) { for (size_t i = 0; i < g_scen.size(); ++i) fprintf(stderr, "scenario %s\n", g_scen[i]->name); for (size_t i = 0; i < g_rej.size(); ++i) fprintf(stderr, "reject %s.%s.%s\n", g_rej[i]->dom, g_rej[i]->op, g_rej[i]->cls); }
    g_sh = (Shared*) mmap(0, sizeof(Shared), PROT_READ | PROT_WRITE, MAP_SHARED | MAP_ANONYMOUS, -1, 0);
    if (g_sh == MAP_FAILED) g_sh = 0;
  }
  if (!hx::opt().geti("fork", 1)) {
    __sanitizer_set_report_path((g_base + ".rep").c_str());
    case_body();
    return;
  }
  if (g_sh) memset(g_sh, 0, sizeof *g_sh);
  int pfd[2];
  if (pipe(pfd) != 0) { hx::violation("harness.bug.faultinj.pipe", strerror(errno)); return; }
  fflush(0);
  pid_t pid = fork();
  if (pid < 0) { hx::violation("harness.bug.faultinj.fork", strerror(errno)); close(pfd[0]); close(pfd[1]); return; }
  if (pid == 0) {
    close(pfd[0]);
    g_in_child = true;
    __sanitizer_set_report_path((g_base + ".rep").c_str());     // -> <base>.rep.<pid>
    if (!hx::opt().verbose) {   // UBSan diagnostics and std::terminate messages go to stderr: keep them for the parent
      char eb[32]; snprintf(eb, sizeof eb, ".%d", (int) getpid());
      int efd = open((g_base + ".err" + eb).c_str(), O_WRONLY | O_CREAT | O_TRUNC, 0600);
      if (efd >= 0) { dup2(efd, 2); close(efd); }
    }
    try { case_body(); }
    catch (const std::exception& e) { hx::violation(std::string("harness.uncaught.") + typeid(e).name(), e.what()); }
    send_state(pfd[1]);
    close(pfd[1]);
    fflush(0);
    unlink(report_file().c_str());
    { char eb[32]; snprintf(eb, sizeof eb, ".%d", (int) getpid()); unlink((g_base + ".err" + eb).c_str()); }
    _exit(0);
  }
  close(pfd[1]);
  std::string blob; char buf[8192]; ssize_t n;
  while ((n = read(pfd[0], buf, sizeof buf)) > 0) blob.append(buf, (size_t) n);
  close(pfd[0]);
  int stt = 0; waitpid(pid, &stt, 0);
  if (WIFEXITED(stt) && WEXITSTATUS(stt) == 0) { recv_state(blob); return; }
  // the child died: sanitizer report, signal, std::terminate ...
  char b[32]; snprintf(b, sizeof b, ".%d", (int) pid);
  std::string rf = g_base + ".rep" + b;
  std::string rep = slurp_and_truncate(rf); unlink(rf.c_str());
  { std::string ef = g_base + ".err" + b; std::string err = slurp_new(ef, 0); unlink(ef.c_str()); if (!err.empty()) { fputs(err.c_str(), stderr); rep = err + rep; } }
  std::string ctx, cls = crash_class(rep, ctx);
  std::ostringstream o;
  if (WIFSIGNALED(stt)) o << "child killed by signal " << WTERMSIG(stt); else o << "child exit status " << WEXITSTATUS(stt);
  std::string scen = g_sh ? g_sh->scen : "?", mode = g_sh ? g_sh->mode : "?";
  if (g_sh) o << " at scenario=" << scen << " mode=" << mode << " k=" << g_sh->k << " stage='" << g_sh->stage << "'";
  o << " :: " << ctx << " :: " << rep.substr(0, 1200);
  hx::st().trace = "(child died) scenario " + scen + " mode " + mode + (g_sh ? " k=" + std::to_string(g_sh->k) + " stage " + g_sh->stage : "");
  std::string fam = mode == "reject" ? "reject" : (mode == "abandon" || mode == "weight") ? "abandon" : (mode == "alloc" ? "alloc" : "nofault");
  std::string key = fam == "nofault" ? "nofault." + scen + ".crash:" + cls : "C14." + fam + "." + scen + ".crash:" + cls;
  hx::violation(key, o.str());
  hx::count("child_deaths");
}
} // namespace

int main(int argc, char** argv) {
  return hx::main_loop(argc, argv, run_case, []() {});
}
