// boxseq: instantiation of the box adapter for Parma_Polyhedra_Library::Int32_Box (see boxseq.hh).
#include "boxseq.hh"
BOXSEQ_REGISTER(int32, 5, Parma_Polyhedra_Library::Int32_Box)
