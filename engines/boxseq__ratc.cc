// boxseq: instantiation of the box adapter for boxseq::Rational_Closed_Box (see boxseq.hh).
#include "boxseq.hh"
BOXSEQ_REGISTER(ratc, 1, boxseq::Rational_Closed_Box)
