// ciface engine, runtime part: function registry, error-handler bookkeeping,
// allocation-failure injection, guarded / forked calls, object bookkeeping and
// the builders that create every argument through the C constructors.
#include "ciface_eng.hh"
#include <new>
#include <csignal>
#include <sys/wait.h>
#include <fcntl.h>
#include <sanitizer/common_interface_defs.h>
#include <unordered_map>
#if defined(__SANITIZE_ADDRESS__)
#include <sanitizer/lsan_interface.h>
#endif

// ---------------------------------------------------------------------------
// allocation failure injection: replacement operator new + GMP allocators
// ---------------------------------------------------------------------------
namespace cif {
volatile long g_alloc_countdown = -1;
volatile long g_alloc_count = 0;
static inline bool alloc_should_fail() {
  ++g_alloc_count;
  if (g_alloc_countdown > 0 && --g_alloc_countdown == 0) return true;
  return false;
}
static void* gmp_alloc(size_t n) { if (alloc_should_fail()) throw std::bad_alloc(); void* p = malloc(n ? n : 1); if (!p) throw std::bad_alloc(); return p; }
static void* gmp_realloc(void* q, size_t, size_t n) { if (alloc_should_fail()) throw std::bad_alloc(); void* p = realloc(q, n ? n : 1); if (!p) throw std::bad_alloc(); return p; }
static void gmp_free(void* p, size_t) { free(p); }
void install_gmp_allocators() { mp_set_memory_functions(gmp_alloc, gmp_realloc, gmp_free); }
} // namespace cif

void* operator new(std::size_t n) { if (cif::alloc_should_fail()) throw std::bad_alloc(); void* p = malloc(n ? n : 1); if (!p) throw std::bad_alloc(); return p; }
void* operator new[](std::size_t n) { if (cif::alloc_should_fail()) throw std::bad_alloc(); void* p = malloc(n ? n : 1); if (!p) throw std::bad_alloc(); return p; }
void* operator new(std::size_t n, const std::nothrow_t&) noexcept { if (cif::alloc_should_fail()) return 0; return malloc(n ? n : 1); }
void* operator new[](std::size_t n, const std::nothrow_t&) noexcept { if (cif::alloc_should_fail()) return 0; return malloc(n ? n : 1); }
void operator delete(void* p) noexcept { free(p); }
void operator delete[](void* p) noexcept { free(p); }
void operator delete(void* p, std::size_t) noexcept { free(p); }
void operator delete[](void* p, std::size_t) noexcept { free(p); }
void operator delete(void* p, const std::nothrow_t&) noexcept { free(p); }
void operator delete[](void* p, const std::nothrow_t&) noexcept { free(p); }

namespace cif {

std::string itos(long v) { char b[32]; snprintf(b, sizeof b, "%ld", v); return b; }

// ---------------------------------------------------------------------------
// registry
// ---------------------------------------------------------------------------
static std::vector<const Fn*> g_fns;
static std::unordered_map<std::string, const Fn*> g_byname;
static void build_registry() {
  if (!g_fns.empty()) return;
  for (int g = 0; g < n_fn_groups; ++g)
    for (int i = 0; i < *fn_groups[g].n; ++i) {
      const Fn* f = &fn_groups[g].fns[i];
      g_fns.push_back(f); g_byname[f->name] = f;
    }
}
const std::vector<const Fn*>& all_fns() { build_registry(); return g_fns; }
const Fn* find_fn(const std::string& name) { build_registry(); std::unordered_map<std::string, const Fn*>::const_iterator i = g_byname.find(name); return i == g_byname.end() ? 0 : i->second; }
const Fn* need_fn(const std::string& name) {
  const Fn* f = find_fn(name);
  if (!f || !f->call) hx::violation("harness.bug.missing_function", name);
  return (f && f->call) ? f : 0;
}
int type_id(const std::string& name) { for (int i = 0; i < n_types; ++i) if (name == type_table[i].name) return i; return -1; }

// ---------------------------------------------------------------------------
// error handler
// ---------------------------------------------------------------------------
HandlerState g_handler = { 0, 0, "" };
extern "C" void cif_error_handler(enum ppl_enum_error_code code, const char* description) {
  ++g_handler.count; g_handler.code = (int) code;
  if (description) { strncpy(g_handler.desc, description, sizeof g_handler.desc - 1); g_handler.desc[sizeof g_handler.desc - 1] = 0; }
  else g_handler.desc[0] = 0;
}
const char* code_name(int c) {
  switch (c) {
  case PPL_ERROR_OUT_OF_MEMORY: return "OUT_OF_MEMORY"; case PPL_ERROR_INVALID_ARGUMENT: return "INVALID_ARGUMENT";
  case PPL_ERROR_DOMAIN_ERROR: return "DOMAIN_ERROR"; case PPL_ERROR_LENGTH_ERROR: return "LENGTH_ERROR";
  case PPL_ARITHMETIC_OVERFLOW: return "ARITHMETIC_OVERFLOW"; case PPL_STDIO_ERROR: return "STDIO_ERROR";
  case PPL_ERROR_INTERNAL_ERROR: return "INTERNAL_ERROR"; case PPL_ERROR_UNKNOWN_STANDARD_EXCEPTION: return "UNKNOWN_STANDARD_EXCEPTION";
  case PPL_ERROR_UNEXPECTED_ERROR: return "UNEXPECTED_ERROR"; case PPL_TIMEOUT_EXCEPTION: return "TIMEOUT_EXCEPTION";
  case PPL_ERROR_LOGIC_ERROR: return "LOGIC_ERROR";
  default: return c >= 0 ? "OK" : "UNDOCUMENTED_NEGATIVE";
  }
}

// ---------------------------------------------------------------------------
// guarded / forked call
// ---------------------------------------------------------------------------
CallResult guarded(const std::function<int()>& fn, long arm_k) {
  CallResult cr; cr.r = 0; cr.escaped = false; cr.crashed = false; cr.crash_sig = 0; cr.fired = false; cr.leaked = false;
  cr.exc.reserve(64);
  g_handler.count = 0; g_handler.code = 0; g_handler.desc[0] = 0;
  const char* what = 0; bool esc = false; int r = 0;
  g_alloc_count = 0;
  g_alloc_countdown = arm_k > 0 ? arm_k : -1;
  try { r = fn(); }
  catch (const std::exception& e) { g_alloc_countdown = -1; esc = true; what = typeid(e).name(); }
  catch (...) { g_alloc_countdown = -1; esc = true; what = "non-standard exception"; }
  cr.fired = arm_k > 0 && g_alloc_countdown == 0;
  g_alloc_countdown = -1;
  cr.allocs = g_alloc_count;
  cr.r = r; cr.escaped = esc; if (what) cr.exc = what;
  cr.hcount = g_handler.count; cr.hcode = g_handler.code;
  return cr;
}

static void child_sig(int s) { _exit(100 + (s & 31)); }
CallResult forked(const std::function<int()>& fn, bool leak_check) {
  CallResult cr; cr.r = 0; cr.escaped = false; cr.crashed = false; cr.crash_sig = 0; cr.fired = false; cr.allocs = 0; cr.hcount = 0; cr.hcode = 0; cr.leaked = false;
  int fd[2];
  if (pipe(fd) != 0) { cr.crashed = true; cr.exc = "pipe failed"; return cr; }
  fflush(0);
  pid_t pid = fork();
  if (pid < 0) { close(fd[0]); close(fd[1]); cr.crashed = true; cr.exc = "fork failed"; return cr; }
  if (pid == 0) {
    close(fd[0]);
#if defined(__SANITIZE_ADDRESS__)
    { int nfd = open("/dev/null", O_WRONLY); if (nfd >= 0) { __sanitizer_set_report_fd((void*) (long) nfd); dup2(nfd, 2); } }   // the verdict travels through the pipe
#endif
    signal(SIGSEGV, child_sig); signal(SIGBUS, child_sig); signal(SIGABRT, child_sig); signal(SIGFPE, child_sig); signal(SIGILL, child_sig);
    alarm(20);
    CallResult c = guarded(fn, 0);
    int leak = 0;
#if defined(__SANITIZE_ADDRESS__)
    if (leak_check) leak = __lsan_do_recoverable_leak_check();
#endif
    int msg[5] = { c.r, c.escaped ? 1 : 0, c.hcount, c.hcode, leak };
    if (write(fd[1], msg, sizeof msg) != (ssize_t) sizeof msg) _exit(98);
    _exit(0);
  }
  close(fd[1]);
  int msg[5] = { 0, 0, 0, 0, 0 };
  ssize_t n = read(fd[0], msg, sizeof msg);
  close(fd[0]);
  int st = 0; waitpid(pid, &st, 0);
  if (n == (ssize_t) sizeof msg) { cr.r = msg[0]; cr.escaped = msg[1] != 0; cr.hcount = msg[2]; cr.hcode = msg[3]; cr.leaked = msg[4] != 0; if (cr.escaped) cr.exc = "exception (forked call)"; }
  else {
    cr.crashed = true;
    if (WIFSIGNALED(st)) cr.crash_sig = WTERMSIG(st);
    else if (WIFEXITED(st) && WEXITSTATUS(st) >= 100) cr.crash_sig = WEXITSTATUS(st) - 100;
    else cr.crash_sig = WIFEXITED(st) ? -WEXITSTATUS(st) : -999;
  }
  return cr;
}

// ---------------------------------------------------------------------------
// objects
// ---------------------------------------------------------------------------
void viol(Case& c, const std::string& key, const std::string& detail) { c.failed = true; hx::violation(key, detail); }

int add_obj(Case& c, void* h, int type, bool owned, int owner) {
  Obj o; o.h = h; o.type = type; o.owned = owned; o.alive = true; o.stale = false; o.owner = owner; o.topo = 0;
  if (type >= 0 && type_table[type].cat == CAT_POLY && h)
    o.topo = is_c(*static_cast<const Polyhedron*>(h)) ? 1 : 2;
  if (owned) ++c.created;
  c.objs.push_back(o);
  return (int) c.objs.size() - 1;
}

int ccall(Case& c, const std::string& name, Val a0, Val a1, Val a2, Val a3, Val a4, Val a5) {
  const Fn* f = need_fn(name);
  if (!f) { c.failed = true; return -1000; }
  Val a[MAXA]; a[0] = a0; a[1] = a1; a[2] = a2; a[3] = a3; a[4] = a4; a[5] = a5;
  hx::count("calls.builder");
  CallResult cr = guarded([&]() { return f->call(a); }, 0);
  if (cr.escaped) { viol(c, std::string("C20.escape.") + f->pattern, std::string(f->name) + " (builder call) let " + cr.exc + " escape"); return -1000; }
  return cr.r;
}
int ccall(Case& c, const char* name, Val a0, Val a1, Val a2, Val a3, Val a4, Val a5) { return ccall(c, std::string(name), a0, a1, a2, a3, a4, a5); }

bool release_obj(Case& c, int idx) {
  Obj& o = c.objs[idx];
  if (!o.alive) return true;
  o.alive = false;
  if (!o.owned) return true;
  std::string nm = std::string("ppl_delete_") + type_table[o.type].name;
  int r = ccall(c, nm, vp(o.h));
  if (r != 0) { if (r != -1000) viol(c, "C20.handle.delete_failed", nm + " returned " + itos(r)); return false; }
  ++c.deleted;
  return true;
}
Case::~Case() { if (!cleaned) { try { cleanup(*this); } catch (...) {} } }
void cleanup(Case& c) {
  c.cleaned = true;
  // dependents (iterators, borrowed references) first
  for (int pass = 0; pass < 2; ++pass)
    for (int i = (int) c.objs.size() - 1; i >= 0; --i)
      if (c.objs[i].alive && (pass == 1 || c.objs[i].owner >= 0)) release_obj(c, i);
  if (c.created != c.deleted && !hx::st().case_tainted)
    hx::violation("C20.handle.created_ne_deleted", "created " + itos(c.created) + " deleted " + itos(c.deleted));
  hx::checked(1);
}

// ---------------------------------------------------------------------------
// builders
// ---------------------------------------------------------------------------
static bool builder_ok(Case& c, int r, const char* what) {
  if (r == 0) return true;
  if (r != -1000 && !c.failed) viol(c, "harness.bug.builder_failed", std::string(what) + " returned " + itos(r) + " (" + code_name(r) + ": " + g_handler.desc + ")");
  return false;
}
int mk_coef(Case& c, const mpz_class& v) {
  mpz_class z(v); void* h = 0;
  if (!builder_ok(c, ccall(c, "ppl_new_Coefficient_from_mpz_t", vp(&h), vp(z.get_mpz_t())), "ppl_new_Coefficient_from_mpz_t")) return -1;
  return add_obj(c, h, type_id("Coefficient"), true, -1);
}
int mk_le(Case& c, const Linear_Expression& e) {
  void* h = 0;
  if (!builder_ok(c, ccall(c, "ppl_new_Linear_Expression_with_dimension", vp(&h), vz(e.space_dimension())), "ppl_new_Linear_Expression_with_dimension")) return -1;
  int idx = add_obj(c, h, type_id("Linear_Expression"), true, -1);
  for (dimension_type i = 0; i < e.space_dimension(); ++i) {
    mpz_class k(e.coefficient(Variable(i)));
    if (k == 0) continue;
    int ci = mk_coef(c, k); if (ci < 0) return -1;
    bool ok = builder_ok(c, ccall(c, "ppl_Linear_Expression_add_to_coefficient", vp(h), vz(i), vp(c.objs[ci].h)), "ppl_Linear_Expression_add_to_coefficient");
    release_obj(c, ci); if (!ok) return -1;
  }
  mpz_class k(e.inhomogeneous_term());
  if (k != 0) {
    int ci = mk_coef(c, k); if (ci < 0) return -1;
    bool ok = builder_ok(c, ccall(c, "ppl_Linear_Expression_add_to_inhomogeneous", vp(h), vp(c.objs[ci].h)), "ppl_Linear_Expression_add_to_inhomogeneous");
    release_obj(c, ci); if (!ok) return -1;
  }
  return idx;
}
static mpz_class rand_coef_value() {
  int k = hx::rnd(0, 99);
  if (k < 85) return mpz_class(hx::rnd(-4, 4));
  if (k < 95) return mpz_class(hx::rnd(-1000, 1000));
  mpz_class b; mpz_ui_pow_ui(b.get_mpz_t(), 10, (unsigned) hx::rnd(10, 30)); return hx::coin() ? b : mpz_class(-b);
}
// shape: 0 general, 1 interval/bounded-difference only (accepted by every domain)
static bool shape_allows_bd = true;
static Linear_Expression rand_lhs(int n, int shape) {
  Linear_Expression e;
  if (n == 0) { e += hx::rnd(-3, 3); return e; }
  if (shape == 1) {
    int i = hx::rnd(0, n - 1);
    e += (hx::coin() ? 1 : -1) * Variable(i);
    if (n > 1 && shape_allows_bd && hx::coin(35)) { int j = hx::rnd(0, n - 1); if (j != i) { Linear_Expression f; f += e.coefficient(Variable(i)) * Variable(i); f -= e.coefficient(Variable(i)) * Variable(j); e = f; } }
    e += hx::rnd(-5, 5);
    return e;
  }
  return pplx::rand_expr(n, 3, 35);
}
static int mk_constraint(Case& c, int n, bool strict_ok, int shape) {
  Linear_Expression e = rand_lhs(n, shape);
  int li = mk_le(c, e); if (li < 0) return -1;
  int k = hx::rnd(0, strict_ok ? 9 : 7);
  int t = k < 3 ? PPL_CONSTRAINT_TYPE_GREATER_OR_EQUAL : k < 6 ? PPL_CONSTRAINT_TYPE_LESS_OR_EQUAL : k < 8 ? PPL_CONSTRAINT_TYPE_EQUAL
        : k < 9 ? PPL_CONSTRAINT_TYPE_GREATER_THAN : PPL_CONSTRAINT_TYPE_LESS_THAN;
  if (shape == 1 && t == PPL_CONSTRAINT_TYPE_EQUAL && hx::coin(60)) t = PPL_CONSTRAINT_TYPE_LESS_OR_EQUAL;
  void* h = 0;
  bool ok = builder_ok(c, ccall(c, "ppl_new_Constraint", vp(&h), vp(c.objs[li].h), vi(t)), "ppl_new_Constraint");
  release_obj(c, li); if (!ok) return -1;
  return add_obj(c, h, type_id("Constraint"), true, -1);
}
static int mk_system(Case& c, const char* sysname, const char* insname, std::vector<int>& rows) {
  void* h = 0;
  std::string nm = std::string("ppl_new_") + sysname;
  if (!builder_ok(c, ccall(c, nm, vp(&h)), nm.c_str())) return -1;
  int idx = add_obj(c, h, type_id(sysname), true, -1);
  for (size_t i = 0; i < rows.size(); ++i) {
    if (rows[i] < 0) return -1;
    bool ok = builder_ok(c, ccall(c, insname, vp(h), vp(c.objs[rows[i]].h)), insname);
    release_obj(c, rows[i]); if (!ok) return -1;
  }
  return idx;
}
static int mk_cs(Case& c, int n, bool strict_ok, int shape, int maxrows = 3) {
  std::vector<int> rows; int k = hx::rnd(0, maxrows);
  for (int i = 0; i < k; ++i) rows.push_back(mk_constraint(c, n, strict_ok, shape));
  return mk_system(c, "Constraint_System", "ppl_Constraint_System_insert_Constraint", rows);
}
static Linear_Expression rand_hom(int n, bool nonzero) {
  Linear_Expression e;
  for (int i = 0; i < n; ++i) if (!hx::coin(30)) e += hx::rnd(-4, 4) * Variable(i);
  if (nonzero && e.all_homogeneous_terms_are_zero() && n > 0) e += Variable(hx::rnd(0, n - 1));
  if (n > 0 && hx::coin(50)) e += 0 * Variable(n - 1);
  return e;
}
static int mk_generator(Case& c, int n, bool nnc, bool must_point) {
  int k = must_point ? 0 : hx::rnd(0, nnc ? 9 : 7);
  if (n == 0) k = (k >= 8) ? 8 : 0;
  int t = k < 4 ? PPL_GENERATOR_TYPE_POINT : k < 6 ? PPL_GENERATOR_TYPE_RAY : k < 8 ? PPL_GENERATOR_TYPE_LINE : PPL_GENERATOR_TYPE_CLOSURE_POINT;
  bool dir = (t == PPL_GENERATOR_TYPE_RAY || t == PPL_GENERATOR_TYPE_LINE);
  int li = mk_le(c, rand_hom(n, dir)); if (li < 0) return -1;
  int di = mk_coef(c, mpz_class(hx::rnd(1, 3))); if (di < 0) return -1;
  void* h = 0;
  bool ok = builder_ok(c, ccall(c, "ppl_new_Generator", vp(&h), vp(c.objs[li].h), vi(t), vp(c.objs[di].h)), "ppl_new_Generator");
  release_obj(c, li); release_obj(c, di); if (!ok) return -1;
  return add_obj(c, h, type_id("Generator"), true, -1);
}
static int mk_gs(Case& c, int n, bool nnc) {
  std::vector<int> rows; int k = hx::rnd(1, 3);
  for (int i = 0; i < k; ++i) rows.push_back(mk_generator(c, n, nnc, i == 0));
  return mk_system(c, "Generator_System", "ppl_Generator_System_insert_Generator", rows);
}
static int mk_congruence(Case& c, int n) {
  int li = mk_le(c, pplx::rand_expr(n, 3, 35)); if (li < 0) return -1;
  int mi = mk_coef(c, mpz_class(hx::rnd(0, 3))); if (mi < 0) return -1;
  void* h = 0;
  bool ok = builder_ok(c, ccall(c, "ppl_new_Congruence", vp(&h), vp(c.objs[li].h), vp(c.objs[mi].h)), "ppl_new_Congruence");
  release_obj(c, li); release_obj(c, mi); if (!ok) return -1;
  return add_obj(c, h, type_id("Congruence"), true, -1);
}
static int mk_cgs(Case& c, int n) {
  std::vector<int> rows; int k = hx::rnd(0, 2);
  for (int i = 0; i < k; ++i) rows.push_back(mk_congruence(c, n));
  return mk_system(c, "Congruence_System", "ppl_Congruence_System_insert_Congruence", rows);
}
static int mk_grid_generator(Case& c, int n, bool must_point) {
  int k = must_point ? 0 : hx::rnd(0, 7);
  if (n == 0) k = 0;
  int t = k < 4 ? PPL_GRID_GENERATOR_TYPE_POINT : k < 6 ? PPL_GRID_GENERATOR_TYPE_PARAMETER : PPL_GRID_GENERATOR_TYPE_LINE;
  int li = mk_le(c, rand_hom(n, t == PPL_GRID_GENERATOR_TYPE_LINE)); if (li < 0) return -1;
  int di = mk_coef(c, mpz_class(hx::rnd(1, 3))); if (di < 0) return -1;
  void* h = 0;
  bool ok = builder_ok(c, ccall(c, "ppl_new_Grid_Generator", vp(&h), vp(c.objs[li].h), vi(t), vp(c.objs[di].h)), "ppl_new_Grid_Generator");
  release_obj(c, li); release_obj(c, di); if (!ok) return -1;
  return add_obj(c, h, type_id("Grid_Generator"), true, -1);
}
static int mk_ggs(Case& c, int n) {
  std::vector<int> rows; int k = hx::rnd(1, 3);
  for (int i = 0; i < k; ++i) rows.push_back(mk_grid_generator(c, n, i == 0));
  return mk_system(c, "Grid_Generator_System", "ppl_Grid_Generator_System_insert_Grid_Generator", rows);
}

std::string disjunct_of(const std::string& pset_name, int& topo) {
  std::string d = pset_name.substr(strlen("Pointset_Powerset_"));
  topo = 0;
  if (d == "C_Polyhedron") { topo = 1; return "Polyhedron"; }
  if (d == "NNC_Polyhedron") { topo = 2; return "Polyhedron"; }
  return d;
}

int mk_domain(Case& c, int type, int n, int topo) {
  const TypeInfo& ti = type_table[type];
  std::string nm = ti.name, ctor = nm;
  bool nnc = false;
  if (ti.cat == CAT_POLY) { if (topo == 0) topo = c.topo; nnc = topo == 2; ctor = nnc ? "NNC_Polyhedron" : "C_Polyhedron"; }
  if (ti.cat == CAT_PSET) { int t2; disjunct_of(nm, t2); nnc = t2 == 2; }
  void* h = 0; int idx = -1;
  int variant = hx::rnd(0, 99);
  if (nm.find("Grid") != std::string::npos && variant < 25) variant += 40;   // Grid(cs) only accepts equalities
  if (variant < 25) {
    // from a constraint system of interval / bounded-difference constraints (accepted by every domain)
    shape_allows_bd = nm.find("Box") == std::string::npos;     // boxes only accept interval constraints
    int cs = mk_cs(c, n, false, 1);
    shape_allows_bd = true;
    if (cs < 0) return -1;
    std::string f = "ppl_new_" + ctor + "_from_Constraint_System";
    bool ok = builder_ok(c, ccall(c, f, vp(&h), vp(c.objs[cs].h)), f.c_str());
    release_obj(c, cs); if (!ok) return -1;
    idx = add_obj(c, h, type, true, -1);
    long d = ti.ops->dim(h);
    if (d < n) { std::string g = "ppl_" + nm + "_add_space_dimensions_and_embed"; if (!builder_ok(c, ccall(c, g, vp(h), vz((size_t) (n - d))), g.c_str())) return -1; }
  }
  else {
    std::string f = "ppl_new_" + ctor + "_from_space_dimension";
    int empty = (variant < 35 && hx::coin(40)) ? 1 : 0;
    if (!builder_ok(c, ccall(c, f, vp(&h), vz((size_t) n), vi(empty)), f.c_str())) return -1;
    idx = add_obj(c, h, type, true, -1);
    if (variant >= 35) {
      int cs = mk_cs(c, n, nnc, hx::coin(40) ? 1 : 0); if (cs < 0) return -1;
      std::string g = "ppl_" + nm + "_refine_with_constraints";
      bool ok = builder_ok(c, ccall(c, g, vp(h), vp(c.objs[cs].h)), g.c_str());
      release_obj(c, cs); if (!ok) return -1;
    }
  }
  if ((nm == "Grid" || nm.find("Product") != std::string::npos) && hx::coin(60)) {
    int cg = mk_cgs(c, n); if (cg < 0) return -1;
    std::string g = "ppl_" + nm + "_refine_with_congruences";
    bool ok = builder_ok(c, ccall(c, g, vp(h), vp(c.objs[cg].h)), g.c_str());
    release_obj(c, cg); if (!ok) return -1;
  }
  if (ti.cat == CAT_PSET && hx::coin(60)) {
    int t2; std::string dn = disjunct_of(nm, t2);
    int k = hx::rnd(1, 2);
    for (int i = 0; i < k; ++i) {
      int d = mk_domain(c, type_id(dn), n, t2); if (d < 0) return -1;
      std::string g = "ppl_" + nm + "_add_disjunct";
      bool ok = builder_ok(c, ccall(c, g, vp(h), vp(c.objs[d].h)), g.c_str());
      release_obj(c, d); if (!ok) return -1;
    }
  }
  if (ti.cat == CAT_POLY) c.objs[idx].topo = topo;
  return idx;
}

static int mk_mip(Case& c, int n) {
  int cs = mk_cs(c, n, false, hx::coin(50) ? 1 : 0, 4); if (cs < 0) return -1;
  int le = mk_le(c, pplx::rand_expr(n, 3, 30)); if (le < 0) return -1;
  void* h = 0;
  int mode = hx::coin() ? PPL_OPTIMIZATION_MODE_MAXIMIZATION : PPL_OPTIMIZATION_MODE_MINIMIZATION;
  bool ok = builder_ok(c, ccall(c, "ppl_new_MIP_Problem", vp(&h), vz((size_t) n), vp(c.objs[cs].h), vp(c.objs[le].h), vi(mode)), "ppl_new_MIP_Problem");
  release_obj(c, cs); release_obj(c, le); if (!ok) return -1;
  int idx = add_obj(c, h, type_id("MIP_Problem"), true, -1);
  if (n > 0 && hx::coin(40)) {
    size_t ds[1] = { (size_t) hx::rnd(0, n - 1) };
    if (!builder_ok(c, ccall(c, "ppl_MIP_Problem_add_to_integer_space_dimensions", vp(h), vp(ds), vz(1)), "ppl_MIP_Problem_add_to_integer_space_dimensions")) return -1;
  }
  return idx;
}
// Canned parametric problems (they produce decision nodes resp. artificial parameters) and random ones.
static int mk_pip(Case& c, int n, int canned) {
  void* h = 0;
  if (canned == 0) {
    if (!builder_ok(c, ccall(c, "ppl_new_PIP_Problem_from_space_dimension", vp(&h), vz((size_t) n)), "ppl_new_PIP_Problem_from_space_dimension")) return -1;
    int idx = add_obj(c, h, type_id("PIP_Problem"), true, -1);
    int cs = mk_cs(c, n, false, hx::coin(50) ? 1 : 0, 3); if (cs < 0) return -1;
    bool ok = builder_ok(c, ccall(c, "ppl_PIP_Problem_add_constraints", vp(h), vp(c.objs[cs].h)), "ppl_PIP_Problem_add_constraints");
    release_obj(c, cs); if (!ok) return -1;
    if (n > 0 && hx::coin(60)) {
      size_t ds[1] = { (size_t) (n - 1) };
      if (!builder_ok(c, ccall(c, "ppl_PIP_Problem_add_to_parameter_space_dimensions", vp(h), vp(ds), vz(1)), "ppl_PIP_Problem_add_to_parameter_space_dimensions")) return -1;
    }
    return idx;
  }
  std::vector<Linear_Expression> ge; size_t dim; std::vector<size_t> params;
  if (canned == 1) {
    Variable X1(0), X2(1), I0(2), J0(3), N(4); dim = 5; params.push_back(2); params.push_back(4);
    ge.push_back(-X1 + N - 1); ge.push_back(X1 - X2); ge.push_back(X1 + I0 - N); ge.push_back(-X1 - I0 + N);
    ge.push_back(X2 + J0 - N - 1); ge.push_back(I0 - 1); ge.push_back(N - 1);
  }
  else {
    Variable i(0), j(1), nn(2), m(3); dim = 4; params.push_back(2); params.push_back(3);
    ge.push_back(3*j + 2*i - 8); ge.push_back(4*i - 4 - j); ge.push_back(m - j); ge.push_back(nn - i);
  }
  if (!builder_ok(c, ccall(c, "ppl_new_PIP_Problem_from_space_dimension", vp(&h), vz(dim)), "ppl_new_PIP_Problem_from_space_dimension")) return -1;
  int idx = add_obj(c, h, type_id("PIP_Problem"), true, -1);
  if (!builder_ok(c, ccall(c, "ppl_PIP_Problem_add_to_parameter_space_dimensions", vp(h), vp(&params[0]), vz(params.size())), "ppl_PIP_Problem_add_to_parameter_space_dimensions")) return -1;
  for (size_t k = 0; k < ge.size(); ++k) {
    int li = mk_le(c, ge[k]); if (li < 0) return -1;
    void* ch = 0;
    bool ok = builder_ok(c, ccall(c, "ppl_new_Constraint", vp(&ch), vp(c.objs[li].h), vi(PPL_CONSTRAINT_TYPE_GREATER_OR_EQUAL)), "ppl_new_Constraint");
    release_obj(c, li); if (!ok) return -1;
    int ci = add_obj(c, ch, type_id("Constraint"), true, -1);
    ok = builder_ok(c, ccall(c, "ppl_PIP_Problem_add_constraint", vp(h), vp(ch)), "ppl_PIP_Problem_add_constraint");
    release_obj(c, ci); if (!ok) return -1;
  }
  return idx;
}
// Walks the solution tree through the C interface and collects the nodes.
static void collect_nodes(Case& c, const void* node, std::vector<const void*>& all, std::vector<const void*>& dec, std::vector<const void*>& sol, int depth) {
  if (!node || depth > 6 || c.failed) return;
  all.push_back(node);
  void* d = 0; void* s = 0;
  if (ccall(c, "ppl_PIP_Tree_Node_as_decision", vp(node), vp(&d)) != 0) return;
  if (ccall(c, "ppl_PIP_Tree_Node_as_solution", vp(node), vp(&s)) != 0) return;
  if (s) sol.push_back(s);
  if (d) {
    dec.push_back(d);
    for (int b = 0; b < 2; ++b) { void* ch = 0; if (ccall(c, "ppl_PIP_Decision_Node_get_child_node", vp(d), vi(b), vp(&ch)) == 0) collect_nodes(c, ch, all, dec, sol, depth + 1); }
  }
}
static int mk_borrowed(Case& c, int type) {
  std::string nm = type_table[type].name;
  for (int attempt = 0; attempt < 3; ++attempt) {
    int pip = mk_pip(c, 0, nm == "Artificial_Parameter" ? 2 : hx::rnd(1, 2)); if (pip < 0) return -1;
    void* root = 0;
    if (!builder_ok(c, ccall(c, "ppl_PIP_Problem_solution", vp(c.objs[pip].h), vp(&root)), "ppl_PIP_Problem_solution")) return -1;
    std::vector<const void*> all, dec, sol;
    collect_nodes(c, root, all, dec, sol, 0);
    if (c.failed) return -1;
    const std::vector<const void*>* v = nm == "PIP_Decision_Node" ? &dec : nm == "PIP_Solution_Node" ? &sol : &all;
    if (nm == "Artificial_Parameter" || nm == "Artificial_Parameter_Sequence") {
      for (size_t i = 0; i < all.size(); ++i) {
        size_t k = 0;
        if (ccall(c, "ppl_PIP_Tree_Node_number_of_artificials", vp(all[i]), vp(&k)) != 0 || k == 0) continue;
        int node = add_obj(c, const_cast<void*>(all[i]), type_id("PIP_Tree_Node"), false, pip);
        if (nm == "Artificial_Parameter_Sequence") return node;   // no entry point takes it; placeholder
        int it = mk_iterator(c, type_id("Artificial_Parameter_Sequence_const_iterator"), node, 3); if (it < 0) return -1;
        void* ap = 0;
        if (!builder_ok(c, ccall(c, "ppl_Artificial_Parameter_Sequence_const_iterator_dereference", vp(c.objs[it].h), vp(&ap)), "..._dereference")) return -1;
        return add_obj(c, ap, type, false, pip);
      }
      continue;
    }
    if (v->empty()) continue;
    return add_obj(c, const_cast<void*>((*v)[hx::rnd(0, (int) v->size() - 1)]), type, false, pip);
  }
  hx::inconclusive("no_borrowed_object");
  return -1;
}

int mk_iterator(Case& c, int type, int cont, int where) {
  const TypeInfo& ti = type_table[type];
  std::string nm = ti.name, cn = type_table[ti.container].name;
  void* h = 0;
  std::string f = "ppl_new_" + nm;
  if (!builder_ok(c, ccall(c, f, vp(&h)), f.c_str())) return -1;
  int idx = add_obj(c, h, type, true, cont);
  std::string base, inc;
  if (type_table[ti.container].cat == CAT_PSET) { std::string k = nm.substr(cn.size() + 1); base = "ppl_" + cn + "_" + k + "_"; inc = base + "increment"; }
  else { base = "ppl_" + cn + "_"; inc = "ppl_" + nm + "_increment"; }
  long sz = ti.ops->csize(c.objs[cont].h);
  long pos = where == 0 ? 0 : where == 1 ? sz : where == 2 ? hx::rnd(0, (int) sz) : (sz > 0 ? hx::rnd(0, (int) sz - 1) : -1);
  if (pos < 0) { hx::inconclusive("empty_container"); return -1; }
  std::string seat = base + (pos == sz && sz > 0 ? "end" : "begin");
  if (!builder_ok(c, ccall(c, seat, vp(c.objs[cont].h), vp(h)), seat.c_str())) return -1;
  if (!(pos == sz && sz > 0))
    for (long k = 0; k < pos; ++k) if (!builder_ok(c, ccall(c, inc, vp(h)), inc.c_str())) return -1;
  return idx;
}

int mk_object(Case& c, int type, int n, int topo) {
  const TypeInfo& ti = type_table[type];
  std::string nm = ti.name;
  switch (ti.cat) {
  case CAT_COEF: return mk_coef(c, rand_coef_value());
  case CAT_LE: return mk_le(c, pplx::rand_expr(n, 3, 35));
  case CAT_ROW:
    if (nm == "Constraint") return mk_constraint(c, n, hx::coin(30), hx::coin(40) ? 1 : 0);
    if (nm == "Generator") return mk_generator(c, n, hx::coin(30), false);
    if (nm == "Congruence") return mk_congruence(c, n);
    return mk_grid_generator(c, n, false);
  case CAT_SYS:
    if (nm == "Constraint_System") return mk_cs(c, n, topo == 2 || (topo == 0 && c.topo == 2), hx::coin(40) ? 1 : 0);
    if (nm == "Generator_System") return mk_gs(c, n, topo == 2 || (topo == 0 && c.topo == 2));
    if (nm == "Congruence_System") return mk_cgs(c, n);
    return mk_ggs(c, n);
  case CAT_MIP: return mk_mip(c, n);
  case CAT_PIP: return mk_pip(c, n, hx::coin(30) ? hx::rnd(1, 2) : 0);
  case CAT_BORROWED: return mk_borrowed(c, type);
  case CAT_POLY: case CAT_DOM: case CAT_PSET: return mk_domain(c, type, n, topo);
  case CAT_ITER: {
    int cont = mk_object(c, ti.container, n, topo); if (cont < 0) return -1;
    return mk_iterator(c, type, cont, 2);
  }
  }
  return -1;
}

} // namespace cif
