// wrapseq: instantiation of the domain adapter for Octagonal_Shape<mpq_class> (see wrapseq.hh).
#include "wrapseq.hh"
WRAPSEQ_REGISTER(oct_mpq, Parma_Polyhedra_Library::Octagonal_Shape<mpq_class>)
