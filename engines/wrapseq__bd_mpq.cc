// wrapseq: instantiation of the domain adapter for BD_Shape<mpq_class> (see wrapseq.hh).
#include "wrapseq.hh"
WRAPSEQ_REGISTER(bd_mpq, Parma_Polyhedra_Library::BD_Shape<mpq_class>)
