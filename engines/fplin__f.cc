#include "fplin_impl.hh"
namespace fpl { void case_f() { Lin<float> e("float"); e.run(); } }
