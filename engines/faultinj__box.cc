// faultinj: scenarios and rejected calls on Rational_Box (see harness/faultinj_shapes.hh).
#include "faultinj_shapes.hh"
using namespace Parma_Polyhedra_Library;
FI_REGISTER_SHAPE(Rational_Box, "Rational_Box", fi::K_BOX, true);
