// wrapseq: instantiation of the domain adapter for C_Polyhedron (see wrapseq.hh).
#include "wrapseq.hh"
WRAPSEQ_REGISTER(cpoly, Parma_Polyhedra_Library::C_Polyhedron)
