// widenchain — property C08: widenings are upper bounds, well defined on values,
// and force convergence.
//
// One case = one adversarial ascending chain  y_{k+1} = y_k widen (y_k join F(y_k))
// in one domain with one widening.  At every step the reference model checks
//   C08.superset.*     the result contains the larger argument
//   C08.argument.*     the smaller argument keeps its value
//   C08.certificate.*  a non-stationary step strictly decreases the convergence
//                      certificate (recomputed here; cross-checked with PPL's classes)
//   C08.token.*        widening-with-tokens protocol (differential against the token-free call)
//   C08.limited.*      limited / bounded extrapolations lie between the larger argument and
//                      the plain widening and keep the supplied constraints that hold on it
//   C08.twin.*         the result depends only on the point sets of the arguments
// Domains (one TU each): C/NNC polyhedra (this file), BD shapes, octagons, boxes, grids,
// pointset powersets.  Profiles select a domain family: poly | shape | box | grid | pps | all.
#include "wc_poly.hh"

using namespace wc;

void wc::run_poly_case(bool nnc) {
  if (nnc) { ConvexChain<PolyTR<NNC_Polyhedron> > c; c.run(); }
  else { ConvexChain<PolyTR<C_Polyhedron> > c; c.run(); }
}

static void run_case(uint64_t) {
  const std::string& pf = hx::opt().profile;
  int k = rnd(0, 99);
  const std::string dom = hx::opt().gets("dom", "");   // --kv dom=<x> pins one domain (development aid)
  if (!dom.empty()) {
    if (dom == "cpoly") run_poly_case(false); else if (dom == "nncpoly") run_poly_case(true); else if (dom == "bds") run_bds_case(); else if (dom == "oct") run_oct_case();
    else if (dom == "rbox") run_box_case(false); else if (dom == "dbox") run_box_case(true); else if (dom == "grid") run_grid_case();
    else if (dom == "ppsc") run_pps_case(false); else if (dom == "ppsn") run_pps_case(true); else if (dom == "ppsg") run_ppsgrid_case();
    return;
  }
  if (pf == "poly") { run_poly_case(k < 45); return; }
  if (pf == "shape") { if (k < 50) run_bds_case(); else run_oct_case(); return; }
  if (pf == "box") { run_box_case(k < 50); return; }
  if (pf == "grid") { run_grid_case(); return; }
  if (pf == "pps") { if (k < 40) run_pps_case(false); else if (k < 70) run_pps_case(true); else run_ppsgrid_case(); return; }
  // default / all
  if (k < 18) run_poly_case(false);
  else if (k < 32) run_poly_case(true);
  else if (k < 44) run_bds_case();
  else if (k < 56) run_oct_case();
  else if (k < 64) run_box_case(false);
  else if (k < 70) run_box_case(true);
  else if (k < 82) run_grid_case();
  else if (k < 89) run_pps_case(false);
  else if (k < 95) run_pps_case(true);
  else run_ppsgrid_case();
}

int main(int argc, char** argv) {
  return hx::main_loop(argc, argv, run_case,
    []() { hx::count("lp_solves", ref::lp_counters().solves); hx::count("lp_pivots", ref::lp_counters().pivots); });
}
