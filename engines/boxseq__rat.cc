// boxseq: instantiation of the box adapter for Rational_Box (see boxseq.hh).
#include "boxseq.hh"
BOXSEQ_REGISTER(rat, 0, Parma_Polyhedra_Library::Rational_Box)
