// cfgdiff: operation scripts on rational grids (see cfgdiff.cc).
#include "cfgdiff.hh"

namespace cfg {

static Item obs_grid(const Grid& g) {
  Item it; it.kind = 'L'; it.n = g.space_dimension();
  { Grid c(g); it.a = canon(c.minimized_congruences(), it.n); }
  { Grid c(g); it.b = canon(c.minimized_grid_generators(), it.n); }
  return it;
}

struct RawCg { std::vector<long> a; long b, m; };
static std::string show(const RawCg& c) { return show(c.a, c.b) + "=0 mod " + std::to_string(c.m); }

struct Grid_Script : public Script {
  static const int NP = 3;
  int n; std::unique_ptr<Grid> pool[NP]; bool fresh[NP];
  Grid_Script() { n = rnd(1, G().maxdim); reset(); }
  const char* domain() const { return "grid"; }
  void reset() { for (int i = 0; i < NP; ++i) { pool[i].reset(); pool[i].reset(new Grid(n, UNIVERSE)); fresh[i] = true; } }

  RawCg raw_cg() { RawCg c; c.a = raw_vec(n); c.b = rc(); int k = rnd(0, 9); c.m = k < 3 ? 0 : k < 8 ? (long) rnd(1, (int) G().small + 2) : abs_lim(rc_nz()); return c; }
  Congruence cg(const RawCg& c) { return (le(c.a, c.b, n) %= 0) / Coefficient(c.m); }
  std::vector<RawCg> raw_cgs(int lo, int hi, std::string& t) { std::vector<RawCg> v; int k = rnd(lo, hi); for (int i = 0; i < k; ++i) { v.push_back(raw_cg()); t += (i ? ", " : "") + show(v.back()); } return v; }
  Congruence_System cgs(const std::vector<RawCg>& v) { Congruence_System s; for (size_t i = 0; i < v.size(); ++i) s.insert(cg(v[i])); return s; }
  Grid_Generator raw_gg(int kind /*0 point 1 parameter 2 line*/, std::string& text) {
    std::vector<long> a = raw_vec(n, 30);
    if (kind == 2) { bool z = true; for (int i = 0; i < n; ++i) if (a[i]) z = false; if (z) a[rnd(0, n - 1)] = rc_small_nz(); }
    long d = coin(60) ? 1 : (long) rnd(1, (int) G().small + 2);
    static const char* const nm[3] = { "grid_point", "parameter", "grid_line" };
    text += std::string(nm[kind]) + "(" + show(a, 0) + (kind < 2 ? "," + std::to_string(d) : "") + ")";
    Linear_Expression e = le(a, 0, n);
    switch (kind) { case 0: return grid_point(e, Coefficient(d)); case 1: return parameter(e, Coefficient(d)); default: return grid_line(e); }
  }
  Variables_Set rand_vars(std::string& text, int avoid = -1) {
    Variables_Set vs;
    for (int i = 0; i < n; ++i) if (i != avoid && coin(45)) { vs.insert(Variable(i)); text += (char) ('A' + i); }
    if (vs.empty()) { int i = rnd(0, n - 1); if (i == avoid) i = (i + 1) % n; if (i != avoid) { vs.insert(Variable(i)); text += (char) ('A' + i); } }
    return vs;
  }

  enum Op { BUILD_CGS, BUILD_GGS, ADD_CG, ADD_CGS, ADD_EQ, REFINE_CON, ADD_GG, MEET, JOIN, JOIN_EXACT, DIFF, TIME_ELAPSE, AFF_IMG, AFF_PRE, GEN_IMG, GEN_PRE, GEN_IMG_LR, GEN_PRE_LR,
            BND_IMG, BND_PRE, WIDEN, LIMITED, SIMPLIFY, UNCONSTRAIN, DIMS, QUERY_REL, QUERY_OPT, QUERY_PRED, QUERY_BIN, MINIMIZE, COPYOPS, WRAP, DROP_NONINT, FROM_POLY, NOPS };
  int pick() {
    static const int W[NOPS] = { 6, 4, 8, 4, 3, 2, 5, 7, 7, 2, 4, 2, 8, 6, 4, 3, 3, 2,
                                 2, 2, 5, 3, 2, 2, 6, 5, 5, 3, 4, 4, 2, 1, 1, 2 };
    int tot = 0; for (int i = 0; i < NOPS; ++i) tot += W[i];
    int k = rnd(0, tot - 1);
    for (int i = 0; i < NOPS; ++i) { if (k < W[i]) return i; k -= W[i]; }
    return 0;
  }

  void step(Step_Context& ctx, Items& out) {
    int ai = rnd(0, NP - 1), bi = rnd(0, NP - 1); if (bi == ai) bi = (ai + 1) % NP;
    int op = pick(); if (fresh[ai]) op = coin(60) ? BUILD_CGS : BUILD_GGS;
    Grid& A = *pool[ai]; Grid& B = *pool[bi];
    std::string ra = "#" + std::to_string(ai), rb = "#" + std::to_string(bi), t;
    switch (op) {
    case BUILD_CGS: { std::vector<RawCg> v = raw_cgs(1, n + 1, t); ctx.begin("build_cgs", ra + "=Grid{" + t + "}"); fresh[ai] = false; pool[ai].reset(new Grid(cgs(v))); out.push_back(obs_grid(*pool[ai])); break; }
    case BUILD_GGS: {
      ctx.begin("build_ggs", ra + "=Grid(ggs)"); fresh[ai] = false;
      Grid_Generator_System gs; int nq = rnd(0, n), nl = rnd(0, 1);
      gs.insert(raw_gg(0, t)); for (int i = 0; i < nq; ++i) { t += ","; gs.insert(raw_gg(coin(75) ? 1 : 0, t)); }
      for (int i = 0; i < nl; ++i) { t += ","; gs.insert(raw_gg(2, t)); }
      hx::tr("{" + t + "}");
      pool[ai].reset(new Grid(gs)); out.push_back(obs_grid(*pool[ai])); break; }
    case ADD_CG: { RawCg c = raw_cg(); ctx.begin("add_congruence", ra + ".add_congruence(" + show(c) + ")"); A.add_congruence(cg(c)); out.push_back(obs_grid(A)); break; }
    case ADD_CGS: { std::vector<RawCg> v = raw_cgs(2, 3, t); ctx.begin("add_congruences", ra + ".add_congruences{" + t + "}"); A.add_congruences(cgs(v)); out.push_back(obs_grid(A)); break; }
    case ADD_EQ: { RawCon c = raw_con(n, false); c.rel = 0; ctx.begin("add_constraint", ra + ".add_constraint(" + show(c) + ")"); A.add_constraint(con(c, n)); out.push_back(obs_grid(A)); break; }
    case REFINE_CON: { RawCon c = raw_con(n, true); ctx.begin("refine_with_constraint", ra + ".refine_with_constraint(" + show(c) + ")"); A.refine_with_constraint(con(c, n)); out.push_back(obs_grid(A)); break; }
    case ADD_GG: { ctx.begin("add_grid_generator", ra + ".add_grid_generator"); Grid_Generator g = raw_gg(rnd(0, 9) < 5 ? 0 : rnd(1, 2), t); hx::tr("(" + t + ")"); A.add_grid_generator(g); out.push_back(obs_grid(A)); break; }
    case MEET: ctx.begin("intersection_assign", ra + ".intersection_assign(" + rb + ")"); A.intersection_assign(B); out.push_back(obs_grid(A)); break;
    case JOIN: ctx.begin("upper_bound_assign", ra + ".upper_bound_assign(" + rb + ")"); A.upper_bound_assign(B); out.push_back(obs_grid(A)); break;
    case JOIN_EXACT: { ctx.begin("upper_bound_assign_if_exact", ra + ".upper_bound_assign_if_exact(" + rb + ")"); bool r = A.upper_bound_assign_if_exact(B); out.push_back(val("exact", r)); out.push_back(obs_grid(A)); break; }
    case DIFF: ctx.begin("difference_assign", ra + ".difference_assign(" + rb + ")"); A.difference_assign(B); out.push_back(obs_grid(A)); break;
    case TIME_ELAPSE: ctx.begin("time_elapse_assign", ra + ".time_elapse_assign(" + rb + ")"); A.time_elapse_assign(B); out.push_back(obs_grid(A)); break;
    case AFF_IMG: case AFF_PRE: {
      int k = rnd(0, n - 1); std::vector<long> a = raw_vec(n, 30); long b = rc(); long d = coin(70) ? rc_small_nz() : rc_nz();
      const char* nm = op == AFF_IMG ? "affine_image" : "affine_preimage";
      ctx.begin(nm, ra + "." + nm + "(" + (char) ('A' + k) + ", " + show(a, b) + ", " + std::to_string(d) + ")");
      if (op == AFF_IMG) A.affine_image(Variable(k), le(a, b, n), Coefficient(d)); else A.affine_preimage(Variable(k), le(a, b, n), Coefficient(d));
      out.push_back(obs_grid(A)); break; }
    case GEN_IMG: case GEN_PRE: {
      int k = rnd(0, n - 1); int r = coin(80) ? 2 : rnd(0, 4); std::vector<long> a = raw_vec(n, 30); long b = rc(); long d = coin(70) ? rc_small_nz() : rc_nz(); long m = (r != 2 || coin(40)) ? 0 : rc();   // a modulus is only meaningful with EQUAL
      const char* nm = op == GEN_IMG ? "generalized_affine_image" : "generalized_affine_preimage";
      ctx.begin(nm, ra + "." + nm + "(" + (char) ('A' + k) + " " + RELSS[r] + " (" + show(a, b) + ")/" + std::to_string(d) + " mod " + std::to_string(m) + ")");
      if (op == GEN_IMG) A.generalized_affine_image(Variable(k), RELS[r], le(a, b, n), Coefficient(d), Coefficient(m)); else A.generalized_affine_preimage(Variable(k), RELS[r], le(a, b, n), Coefficient(d), Coefficient(m));
      out.push_back(obs_grid(A)); break; }
    case GEN_IMG_LR: case GEN_PRE_LR: {
      int r = coin(80) ? 2 : rnd(0, 4); std::vector<long> l = raw_vec(n, 50), a = raw_vec(n, 30); long lb = rc(), b = rc(); long m = (r != 2 || coin(40)) ? 0 : rc();
      const char* nm = op == GEN_IMG_LR ? "generalized_affine_image_lr" : "generalized_affine_preimage_lr";
      ctx.begin(nm, ra + "." + nm + "(" + show(l, lb) + " " + RELSS[r] + " " + show(a, b) + " mod " + std::to_string(m) + ")");
      if (op == GEN_IMG_LR) A.generalized_affine_image(le(l, lb, n), RELS[r], le(a, b, n), Coefficient(m)); else A.generalized_affine_preimage(le(l, lb, n), RELS[r], le(a, b, n), Coefficient(m));
      out.push_back(obs_grid(A)); break; }
    case BND_IMG: case BND_PRE: {
      int k = rnd(0, n - 1); std::vector<long> l = raw_vec(n, 40), u = raw_vec(n, 40); long lb = rc(), ub = rc(); long d = coin(70) ? rc_small_nz() : rc_nz();
      const char* nm = op == BND_IMG ? "bounded_affine_image" : "bounded_affine_preimage";
      ctx.begin(nm, ra + "." + nm + "(" + (char) ('A' + k) + ", " + show(l, lb) + ", " + show(u, ub) + ", " + std::to_string(d) + ")");
      if (op == BND_IMG) A.bounded_affine_image(Variable(k), le(l, lb, n), le(u, ub, n), Coefficient(d)); else A.bounded_affine_preimage(Variable(k), le(l, lb, n), le(u, ub, n), Coefficient(d));
      out.push_back(obs_grid(A)); break; }
    case WIDEN: {
      int k = rnd(0, 2); unsigned tokens = rnd(0, 1); bool use_tp = coin(30);
      static const char* const nm[3] = { "congruence_widening_assign", "generator_widening_assign", "widening_assign" };
      ctx.begin(nm[k], ra + ".upper_bound_assign(" + rb + ");" + ra + "." + nm[k] + "(" + rb + (use_tp ? ", tp=" + std::to_string(tokens) : "") + ")");
      A.upper_bound_assign(B);
      if (k == 0) A.congruence_widening_assign(B, use_tp ? &tokens : 0); else if (k == 1) A.generator_widening_assign(B, use_tp ? &tokens : 0); else A.widening_assign(B, use_tp ? &tokens : 0);
      out.push_back(obs_grid(A)); if (use_tp) out.push_back(val("tokens", ZZ(tokens))); break; }
    case LIMITED: {
      int k = rnd(0, 2); std::vector<RawCg> v = raw_cgs(1, 3, t);
      static const char* const nm[3] = { "limited_congruence_extrapolation_assign", "limited_generator_extrapolation_assign", "limited_extrapolation_assign" };
      ctx.begin(nm[k], ra + ".upper_bound_assign(" + rb + ");" + ra + "." + nm[k] + "(" + rb + ", {" + t + "})");
      A.upper_bound_assign(B); Congruence_System s = cgs(v);
      if (k == 0) A.limited_congruence_extrapolation_assign(B, s); else if (k == 1) A.limited_generator_extrapolation_assign(B, s); else A.limited_extrapolation_assign(B, s);
      out.push_back(obs_grid(A)); break; }
    case SIMPLIFY: { ctx.begin("simplify_using_context_assign", ra + ".simplify_using_context_assign(" + rb + ")"); bool r = A.simplify_using_context_assign(B); out.push_back(val("nonempty_meet", r)); out.push_back(obs_grid(A)); break; }
    case UNCONSTRAIN: { Variables_Set vs = rand_vars(t); ctx.begin("unconstrain", ra + ".unconstrain{" + t + "}"); if (vs.size() == 1 && coin()) A.unconstrain(Variable(*vs.begin())); else A.unconstrain(vs); out.push_back(obs_grid(A)); break; }
    case DIMS: {
      int k = rnd(0, 7); if (n < 2 && k == 5) k = 0;
      Grid T(A);
      switch (k) {
      case 0: { int m = rnd(1, 2); ctx.begin("add_space_dimensions_and_embed", "copy(" + ra + ").add_space_dimensions_and_embed(" + std::to_string(m) + ")"); T.add_space_dimensions_and_embed(m); break; }
      case 1: { int m = rnd(1, 2); ctx.begin("add_space_dimensions_and_project", "copy(" + ra + ").add_space_dimensions_and_project(" + std::to_string(m) + ")"); T.add_space_dimensions_and_project(m); break; }
      case 2: { Variables_Set vs = rand_vars(t); ctx.begin("remove_space_dimensions", "copy(" + ra + ").remove_space_dimensions{" + t + "}"); T.remove_space_dimensions(vs); break; }
      case 3: { int m = rnd(0, n); ctx.begin("remove_higher_space_dimensions", "copy(" + ra + ").remove_higher_space_dimensions(" + std::to_string(m) + ")"); T.remove_higher_space_dimensions(m); break; }
      case 4: { Partial_Map pm = rand_map(n, t); ctx.begin("map_space_dimensions", "copy(" + ra + ").map_space_dimensions{" + t + "}"); T.map_space_dimensions(pm); break; }
      case 5: { int d = rnd(0, n - 1); Variables_Set vs = rand_vars(t, d); ctx.begin("fold_space_dimensions", "copy(" + ra + ").fold_space_dimensions({" + t + "}, " + (char) ('A' + d) + ")"); T.fold_space_dimensions(vs, Variable(d)); break; }
      case 6: { int v = rnd(0, n - 1), m = rnd(1, 2); ctx.begin("expand_space_dimension", "copy(" + ra + ").expand_space_dimension(" + (char) ('A' + v) + ", " + std::to_string(m) + ")"); T.expand_space_dimension(Variable(v), m); break; }
      default: ctx.begin("concatenate_assign", "copy(" + ra + ").concatenate_assign(" + rb + ")"); T.concatenate_assign(B); break;
      }
      out.push_back(obs_grid(T)); break; }
    case QUERY_REL: {
      int k = rnd(0, 3);
      if (k == 0) { RawCg c = raw_cg(); ctx.begin("relation_with_congruence", ra + ".relation_with(" + show(c) + ")"); out.push_back(val("rel", pplx::str(A.relation_with(cg(c))))); }
      else if (k == 1) { ctx.begin("relation_with_grid_generator", ra + ".relation_with"); Grid_Generator g = raw_gg(rnd(0, 2), t); hx::tr("(" + t + ")"); out.push_back(val("rel", pplx::str(A.relation_with(g)))); }
      else if (k == 2) { RawCon c = raw_con(n, true); ctx.begin("relation_with_constraint", ra + ".relation_with(" + show(c) + ")"); out.push_back(val("rel", pplx::str(A.relation_with(con(c, n))))); }
      else { std::vector<long> a = raw_vec(n, 30); int kind = rnd(0, 2); if (kind > 0) { bool z = true; for (int i = 0; i < n; ++i) if (a[i]) z = false; if (z) a[0] = 1; }
        ctx.begin("relation_with_generator", ra + ".relation_with(" + (kind == 0 ? "point " : kind == 1 ? "ray " : "line ") + show(a, 0) + ")");
        Linear_Expression e = le(a, 0, n); Generator g = kind == 0 ? point(e) : kind == 1 ? ray(e) : line(e); out.push_back(val("rel", pplx::str(A.relation_with(g)))); }
      break; }
    case QUERY_OPT: {
      std::vector<long> a = raw_vec(n, 30); long b = rc(); bool mx = coin();
      ctx.begin(mx ? "maximize" : "minimize", ra + (mx ? ".maximize(" : ".minimize(") + show(a, b) + ")");
      Linear_Expression e = le(a, b, n); Coefficient sn, sd; bool att = false; Generator g = point();
      bool r = coin() ? (mx ? A.maximize(e, sn, sd, att, g) : A.minimize(e, sn, sd, att, g)) : (mx ? A.maximize(e, sn, sd, att) : A.minimize(e, sn, sd, att));
      out.push_back(val("bounded", r)); if (r) { out.push_back(val("opt", frac(toZ(sn), toZ(sd)))); out.push_back(val("attained", att)); }
      out.push_back(val("bounds_from_above", A.bounds_from_above(e))); out.push_back(val("bounds_from_below", A.bounds_from_below(e)));
      Coefficient fn, fd, vn, vd; bool fr = A.frequency(e, fn, fd, vn, vd); out.push_back(val("frequency", fr)); if (fr) out.push_back(val("freq", frac(toZ(fn), toZ(fd)) + " at " + frac(toZ(vn), toZ(vd))));
      break; }
    case QUERY_PRED: {
      ctx.begin("predicates", ra + ".predicates()");
      out.push_back(val("is_empty", A.is_empty())); out.push_back(val("is_universe", A.is_universe())); out.push_back(val("is_bounded", A.is_bounded()));
      out.push_back(val("is_discrete", A.is_discrete())); out.push_back(val("affine_dimension", ZZ((unsigned long) A.affine_dimension())));
      int v = rnd(0, n - 1); out.push_back(val("constrains", A.constrains(Variable(v)))); out.push_back(val("contains_integer_point", A.contains_integer_point()));
      break; }
    case QUERY_BIN: {
      ctx.begin("binary_predicates", ra + ".contains/disjoint/==(" + rb + ")");
      out.push_back(val("contains", A.contains(B))); out.push_back(val("strictly_contains", A.strictly_contains(B)));
      out.push_back(val("is_disjoint_from", A.is_disjoint_from(B))); out.push_back(val("equal", A == B));
      break; }
    case MINIMIZE: {
      int k = rnd(0, 4); static const char* const nm[5] = { "minimized_congruences", "minimized_grid_generators", "congruences", "grid_generators", "OK" };
      ctx.begin(std::string("observe_") + nm[k], ra + "." + nm[k] + "()");
      if (k == 0) (void) A.minimized_congruences(); else if (k == 1) (void) A.minimized_grid_generators(); else if (k == 2) (void) A.congruences(); else if (k == 3) (void) A.grid_generators(); else out.push_back(val("OK", A.OK()));
      out.push_back(obs_grid(A)); break; }
    case COPYOPS: {
      int k = rnd(0, 2);
      if (k == 0) { ctx.begin("assign", ra + "=" + rb); A = B; fresh[ai] = fresh[bi]; out.push_back(obs_grid(A)); }
      else if (k == 1) { ctx.begin("swap", "swap(" + ra + "," + rb + ")"); using std::swap; swap(A, B); std::swap(fresh[ai], fresh[bi]); out.push_back(obs_grid(A)); out.push_back(obs_grid(B)); }
      else { ctx.begin("copy", "Grid(" + ra + ")"); Grid c(A); out.push_back(obs_grid(c)); }
      break; }
    case WRAP: {
      Variables_Set vs = rand_vars(t); bool sg = coin(); int ov = rnd(0, 2);
      ctx.begin("wrap_assign", ra + ".wrap_assign({" + t + "}, BITS_8, " + (sg ? "signed" : "unsigned") + ", ov" + std::to_string(ov) + ")");
      A.wrap_assign(vs, BITS_8, sg ? SIGNED_2_COMPLEMENT : UNSIGNED, ov == 0 ? OVERFLOW_WRAPS : ov == 1 ? OVERFLOW_UNDEFINED : OVERFLOW_IMPOSSIBLE);
      out.push_back(obs_grid(A)); break; }
    case DROP_NONINT: { ctx.begin("drop_some_non_integer_points", ra + ".drop_some_non_integer_points()"); A.drop_some_non_integer_points(); out.push_back(obs_grid(A)); break; }
    default: {
      // grid of a polyhedron described by random equalities / inequalities
      std::vector<RawCon> v; int k = rnd(1, n + 1); for (int i = 0; i < k; ++i) { v.push_back(raw_con(n, false)); t += (i ? ", " : "") + show(v.back()); }
      ctx.begin("from_polyhedron", "Grid(C_Polyhedron{" + t + "})");
      C_Polyhedron ph(cons(v, n)); Grid g(ph); out.push_back(obs_grid(g)); break; }
    }
  }
};

Script* make_grid_script() { return new Grid_Script(); }

} // namespace cfg
