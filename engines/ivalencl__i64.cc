// ivalencl, policy i64_c: Interval<int64_t, Native_Integer_Box_Interval_Info>
#include "ivalencl_impl.hh"
#include "interfaces/interfaced_boxes.hh"
namespace ivx { void case_i64() { run_policy<Interval<int64_t, Native_Integer_Box_Interval_Info> >("i64_c", K_INT_BOUNDED); } }
