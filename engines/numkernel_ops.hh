// numkernel — operation table and generic enumerators (see numkernel.hh for the oracle).
#ifndef NUMKERNEL_OPS_HH
#define NUMKERNEL_OPS_HH
#include "numkernel.hh"

namespace nk {

inline const char* intern(const std::string& s) { static std::set<std::string> pool; return pool.insert(s).first->c_str(); }

// ---------------------------------------------------------------- representability of an exact value in a destination type
template <typename T> inline typename std::enable_if<IsInt<T>::value, bool>::type repr_T(const Q& q, const Lim& L) { return q.get_den() == 1 && q >= L.lo && q <= L.hi; }
template <typename T> struct FltFmt;
template <> struct FltFmt<float> { enum { P = 24, EMIN = -149, EMAX = 128 }; };
template <> struct FltFmt<double> { enum { P = 53, EMIN = -1074, EMAX = 1024 }; };
template <> struct FltFmt<long double> { enum { P = 64, EMIN = -16445, EMAX = 16384 }; };
template <typename T> inline typename std::enable_if<IsFlt<T>::value, bool>::type repr_T(const Q& q, const Lim&) {
  if (::sgn(q) == 0) return true;
  const Z& d = q.get_den(); if (mpz_popcount(d.get_mpz_t()) != 1) return false;
  Z n = abs(q.get_num()); long tz = (long) mpz_scan1(n.get_mpz_t(), 0); long e = tz - (long) (mpz_sizeinbase(d.get_mpz_t(), 2) - 1);
  long bl = (long) mpz_sizeinbase(n.get_mpz_t(), 2) - tz;   // bits of the odd part
  return bl <= FltFmt<T>::P && e >= FltFmt<T>::EMIN && bl + e <= FltFmt<T>::EMAX;
}
template <typename T> inline typename std::enable_if<std::is_same<T, Z>::value, bool>::type repr_T(const Q& q, const Lim&) { return q.get_den() == 1; }
template <typename T> inline typename std::enable_if<std::is_same<T, Q>::value, bool>::type repr_T(const Q&, const Lim&) { return true; }
template <typename N> inline bool representable(const XQ& e) { typedef typename Kind<N>::raw_t T; return e.fin() && !e.root && repr_T<T>(e.q, lim<N>()); }

// ---------------------------------------------------------------- triage classes (deterministic predicates on the operands / exact result)
template <typename N> inline std::string res_class(const Ex& ex, bool special_operand) {
  if (ex.u != U_NONE) return UNDEF_NAME[ex.u];
  const Lim& L = lim<N>();
  if (ex.v.inf()) return "inf-result";
  if (L.bounded && xcmp(ex.v, L.lo) < 0) return "neg-overflow";
  if (L.bounded && xcmp(ex.v, L.hi) > 0) return "pos-overflow";
  if (ex.has_prod && L.bounded && ex.prod.fin() && xcmp(ex.prod, L.lo) < 0) return "product-neg-overflow";
  if (ex.has_prod && L.bounded && ex.prod.fin() && xcmp(ex.prod, L.hi) > 0) return "product-pos-overflow";
  if (special_operand) return "inf-operand";
  return representable<N>(ex.v) ? "exact" : "inexact";
}
inline bool plain_class(const char* c) { return strcmp(c, "exact") == 0; }

template <typename T> inline int type_bits() { return std::is_class<T>::value ? 0 : (int) (sizeof(T) * 8); }
template <typename T> inline std::string exp_class(unsigned e) {
  int b = IsInt<T>::value ? type_bits<T>() : 64;
  if (e == 0) return "exp0"; if ((int) e < b - 1 && e < 0x7fffffffU) return "exp-small";
  if (IsInt<T>::value) { if ((int) e == b - 1) return "exp=bits-1"; if ((int) e == b) return "exp=bits"; return "exp>bits"; }
  return "exp-large";
}

// ---------------------------------------------------------------- operation table
#define NK_BIN(NAME, PPLFN, EXACT) struct Op_##NAME { static const char* name() { return #NAME; } \
  template <typename To, typename A, typename B> static Result call(To& t, const A& a, const B& b, Rounding_Dir d) { return PPLFN(t, a, b, d); } \
  static Ex exact(const XQ& a, const XQ& b) { return EXACT(a, b); } };
NK_BIN(add, add_assign_r, ex_add) NK_BIN(sub, sub_assign_r, ex_sub) NK_BIN(mul, mul_assign_r, ex_mul) NK_BIN(div, div_assign_r, ex_div)
NK_BIN(idiv, idiv_assign_r, ex_idiv) NK_BIN(rem, rem_assign_r, ex_rem) NK_BIN(gcd, gcd_assign_r, ex_gcd) NK_BIN(lcm, lcm_assign_r, ex_lcm)
#define NK_UN(NAME, PPLFN, EXACT) struct Op_##NAME { static const char* name() { return #NAME; } \
  template <typename To, typename A> static Result call(To& t, const A& a, Rounding_Dir d) { return PPLFN(t, a, d); } \
  static Ex exact(const XQ& a) { return EXACT(a); } };
NK_UN(assign, assign_r, ex_id) NK_UN(neg, neg_assign_r, ex_neg) NK_UN(abs, abs_assign_r, ex_abs) NK_UN(floor, floor_assign_r, ex_floor)
NK_UN(ceil, ceil_assign_r, ex_ceil) NK_UN(trunc, trunc_assign_r, ex_trunc) NK_UN(sqrt, sqrt_assign_r, ex_sqrt)
#define NK_2EXP(NAME, PPLFN, EXACT) struct Op_##NAME { static const char* name() { return #NAME; } \
  template <typename To, typename A> static Result call(To& t, const A& a, unsigned e, Rounding_Dir d) { return PPLFN(t, a, e, d); } \
  static Ex exact(const XQ& a, unsigned e) { return EXACT(a, e); } };
NK_2EXP(add_2exp, add_2exp_assign_r, ex_add_2exp) NK_2EXP(sub_2exp, sub_2exp_assign_r, ex_sub_2exp) NK_2EXP(mul_2exp, mul_2exp_assign_r, ex_mul_2exp)
NK_2EXP(div_2exp, div_2exp_assign_r, ex_div_2exp) NK_2EXP(smod_2exp, smod_2exp_assign_r, ex_smod_2exp) NK_2EXP(umod_2exp, umod_2exp_assign_r, ex_umod_2exp)
struct Op_add_mul { static const char* name() { return "add_mul"; } static const bool sub = false;
  template <typename To, typename A, typename B> static Result call(To& t, const A& a, const B& b, Rounding_Dir d) { return add_mul_assign_r(t, a, b, d); } };
struct Op_sub_mul { static const char* name() { return "sub_mul"; } static const bool sub = true;
  template <typename To, typename A, typename B> static Result call(To& t, const A& a, const B& b, Rounding_Dir d) { return sub_mul_assign_r(t, a, b, d); } };

// ---------------------------------------------------------------- per-site "undefined behaviour seen here" guards
// Inputs for which a sanitizer report inside PPL was observed are first executed in a forked child, so that the
// engine survives, reports the crash under a precise key and goes on.  The predicates are stated per operation.
struct CrashKey { std::set<std::string> reported; };
inline bool probe_report(const Site& s, const char* cls, const std::string& operands, const std::string& why) {
  hx::checked();
  hx::violation(std::string("C11.ub.") + s.op + "." + s.type + ":" + cls, std::string("sanitizer report / crash inside ") + s.op + "<" + s.type + "/" + s.pol + ">(" + operands + "): " + why);
  return false;
}

template <typename N> inline N fresh() { return N(); }
template <typename N> inline void junk(N& n, typename std::enable_if<!std::is_class<typename Kind<N>::raw_t>::value, int>::type = 0) {
  typedef typename Kind<N>::raw_t T; Kind<N>::rv(n) = IsInt<T>::value ? (T) 0x55 : (T) 0.3125;
}
template <typename N> inline void junk(N&, typename std::enable_if<std::is_class<typename Kind<N>::raw_t>::value, int>::type = 0) {}

struct Tally { unsigned long skipped_contract, probed; Tally() : skipped_contract(0), probed(0) {} };
inline void flush_tally(const Tally& t) { if (t.skipped_contract) hx::count("skipped.outside_policy_contract", t.skipped_contract); }

// Does operand pair (x, y) of operation Op on kind N need the forked probe?  (specialised in the TUs where UB was observed)
template <typename N, typename Op> struct Risky { static bool bin(const XQ&, const XQ&) { return false; } static bool un(const XQ&) { return false; } static bool e2(const XQ&, unsigned) { return false; } };

// ---------------------------------------------------------------- enumerators
// The enumerators are templates on the number kind N only; the operation comes in as a small table of function
// pointers (thunks instantiated per (N, Op)), which keeps the number of heavy template instantiations low.
template <typename N> struct BinVT { const char* name; Result (*call)(N&, const N&, const N&, Rounding_Dir); Ex (*exact)(const XQ&, const XQ&); bool (*risky)(const XQ&, const XQ&); };
template <typename N> struct UnVT { const char* name; Result (*call)(N&, const N&, Rounding_Dir); Ex (*exact)(const XQ&); bool (*risky)(const XQ&); };
template <typename N> struct E2VT { const char* name; Result (*call)(N&, const N&, unsigned, Rounding_Dir); Ex (*exact)(const XQ&, unsigned); bool (*risky)(const XQ&, unsigned); };
template <typename N> struct FuVT { const char* name; bool sub; Result (*call)(N&, const N&, const N&, Rounding_Dir); };
template <typename N, typename Op> inline BinVT<N> binvt() { BinVT<N> v = { Op::name(), &Op::template call<N, N, N>, &Op::exact, &Risky<N, Op>::bin }; return v; }
template <typename N, typename Op> inline UnVT<N> unvt() { UnVT<N> v = { Op::name(), &Op::template call<N, N>, &Op::exact, &Risky<N, Op>::un }; return v; }
template <typename N, typename Op> inline E2VT<N> e2vt() { E2VT<N> v = { Op::name(), &Op::template call<N, N>, &Op::exact, &Risky<N, Op>::e2 }; return v; }
template <typename N, typename Op> inline FuVT<N> fuvt() { FuVT<N> v = { Op::name(), Op::sub, &Op::template call<N, N, N> }; return v; }

template <typename N>
void run_binary_vt(const BinVT<N>& op, const std::vector<N>& xs, const std::vector<N>& ys, bool try_not_needed) {
  typedef Kind<N> K; typedef typename K::TP P; typedef typename K::raw_t T;
  Site s = { op.name, tname<N>(), K::pol() };
  const bool is_div = strcmp(op.name, "div") == 0, is_idiv = strcmp(op.name, "idiv") == 0, is_rem = strcmp(op.name, "rem") == 0;
  std::vector<XQ> dy; dy.reserve(ys.size()); for (size_t j = 0; j < ys.size(); ++j) dy.push_back(dec(ys[j]));
  Tally tl; unsigned long done = 0;
  for (size_t i = 0; i < xs.size(); ++i) {
    const XQ ax = dec(xs[i]);
    for (size_t j = 0; j < ys.size(); ++j) {
      const XQ& ay = dy[j];
      Ex ex = op.exact(ax, ay);
      if (!in_contract<P, T>(ex.u)) { ++tl.skipped_contract; continue; }
      std::string cl = res_class<N>(ex, ax.inf() || ay.inf());
      if ((is_div || is_idiv || is_rem) && ex.u == U_NONE && ay.fin() && ax.fin() && (cl == "exact" || cl == "inexact"))
        cl = std::string(::sgn(ay.q) < 0 ? "negative-divisor-" : "positive-divisor-") + (::sgn(ex_rem(ax, ay).v.q) == 0 ? "exact" : "inexact");
      const char* cls = intern(cl);
      Desc desc = desc2(ax, ay);
      if (op.risky(ax, ay)) {
        std::string why; const N& x = xs[i]; const N& y = ys[j];
        if (!survives([&]() { for (int d = 0; d < NDIRS; ++d) { N to = fresh<N>(); op.call(to, x, y, DIRS[d].d); } }, why)) { probe_report(s, cls, desc(), why); continue; }
      }
      int nd = NDIRS + ((try_not_needed && ex.u == U_NONE && representable<N>(ex.v)) ? 1 : 0);
      for (int d = 0; d < nd; ++d) {
        N to = fresh<N>(); junk(to);
        if (g_verbose()) fprintf(stderr, "op: %s<%s/%s>(%s, ROUND_%s)\n", s.op, s.type.c_str(), s.pol, desc().c_str(), DIRS[d].name);
        Result r = op.call(to, xs[i], ys[j], DIRS[d].d);
        verify<N>(s, DIRS[d].d, cls, r, to, ex, desc);
        ++done;
      }
    }
  }
  flush_tally(tl); hx::count(std::string("op.") + op.name, done);
}
template <typename N, typename Op> inline void run_binary(const std::vector<N>& xs, const std::vector<N>& ys, bool try_not_needed = true) { run_binary_vt<N>(binvt<N, Op>(), xs, ys, try_not_needed); }

template <typename N>
void run_unary_vt(const UnVT<N>& op, const std::vector<N>& xs, bool try_not_needed) {
  typedef Kind<N> K; typedef typename K::TP P; typedef typename K::raw_t T;
  Site s = { op.name, tname<N>(), K::pol() };
  const bool is_sqrt = strcmp(op.name, "sqrt") == 0;
  Tally tl; unsigned long done = 0;
  for (size_t i = 0; i < xs.size(); ++i) {
    const XQ ax = dec(xs[i]);
    Ex ex = op.exact(ax);
    if (!in_contract<P, T>(ex.u)) { ++tl.skipped_contract; continue; }
    std::string cl = res_class<N>(ex, ax.inf());
    if (is_sqrt && ex.u == U_NONE && ax.fin()) {
      const Lim& L = lim<N>();
      if (IsInt<T>::value && ax.q * 4 > L.hi + 1) cl = "radicand-top-quarter-" + cl;
      else if (std::is_same<T, Q>::value && ax.q < 1 && ::sgn(ax.q) > 0) cl = "radicand-below-one-" + cl;
    }
    const char* cls = intern(cl);
    Desc desc = desc1(ax);
    if (op.risky(ax)) {
      std::string why; const N& x = xs[i];
      if (!survives([&]() { for (int d = 0; d < NDIRS; ++d) { N to = fresh<N>(); op.call(to, x, DIRS[d].d); } }, why)) { probe_report(s, cls, desc(), why); continue; }
    }
    int nd = NDIRS + ((try_not_needed && ex.u == U_NONE && representable<N>(ex.v)) ? 1 : 0);
    for (int d = 0; d < nd; ++d) {
      N to = fresh<N>(); junk(to);
      if (g_verbose()) fprintf(stderr, "op: %s<%s/%s>(%s, ROUND_%s)\n", s.op, s.type.c_str(), s.pol, desc().c_str(), DIRS[d].name);
      Result r = op.call(to, xs[i], DIRS[d].d);
      verify<N>(s, DIRS[d].d, cls, r, to, ex, desc);
      ++done;
    }
  }
  flush_tally(tl); hx::count(std::string("op.") + op.name, done);
}
template <typename N, typename Op> inline void run_unary(const std::vector<N>& xs, bool try_not_needed = true) { run_unary_vt<N>(unvt<N, Op>(), xs, try_not_needed); }

template <typename N>
void run_2exp_vt(const E2VT<N>& op, const std::vector<N>& xs, const std::vector<unsigned>& exps) {
  typedef Kind<N> K; typedef typename K::TP P; typedef typename K::raw_t T;
  Site s = { op.name, tname<N>(), K::pol() };
  Tally tl; unsigned long done = 0;
  for (size_t i = 0; i < xs.size(); ++i) {
    const XQ ax = dec(xs[i]);
    for (size_t j = 0; j < exps.size(); ++j) {
      unsigned e = exps[j];
      if (!IsInt<T>::value && e > 100000) continue;    // exact 2^e would not fit in memory; floats additionally require e < 64 (entry PPL_ASSERT)
      Ex ex = op.exact(ax, e);
      if (!in_contract<P, T>(ex.u)) { ++tl.skipped_contract; continue; }
      const char* cls = intern(exp_class<T>(e) + "," + (ax.fin() ? (::sgn(ax.q) < 0 ? "neg" : ::sgn(ax.q) > 0 ? "pos" : "zero") : "special") + "," + res_class<N>(ex, ax.inf()));
      Desc desc = desce(ax, e);
      if (op.risky(ax, e)) {
        std::string why; const N& x = xs[i];
        if (!survives([&]() { for (int d = 0; d < NDIRS; ++d) { N to = fresh<N>(); op.call(to, x, e, DIRS[d].d); } }, why)) { probe_report(s, cls, desc(), why); continue; }
      }
      for (int d = 0; d < NDIRS; ++d) {
        N to = fresh<N>(); junk(to);
        if (g_verbose()) fprintf(stderr, "op: %s<%s/%s>(%s, ROUND_%s)\n", s.op, s.type.c_str(), s.pol, desc().c_str(), DIRS[d].name);
        Result r = op.call(to, xs[i], e, DIRS[d].d);
        verify<N>(s, DIRS[d].d, cls, r, to, ex, desc);
        ++done;
      }
    }
  }
  flush_tally(tl); hx::count(std::string("op.") + op.name, done);
}
template <typename N, typename Op> inline void run_2exp(const std::vector<N>& xs, const std::vector<unsigned>& exps) { run_2exp_vt<N>(e2vt<N, Op>(), xs, exps); }

// fused multiply-add/sub:  to (in/out), x, y
template <typename N>
void run_fused_vt(const FuVT<N>& op, const std::vector<N>& accs, const std::vector<N>& xs, const std::vector<N>& ys) {
  typedef Kind<N> K; typedef typename K::TP P; typedef typename K::raw_t T;
  Site s = { op.name, tname<N>(), K::pol() };
  std::vector<XQ> dy; for (size_t j = 0; j < ys.size(); ++j) dy.push_back(dec(ys[j]));
  std::vector<XQ> da; for (size_t j = 0; j < accs.size(); ++j) da.push_back(dec(accs[j]));
  Tally tl; unsigned long done = 0;
  for (size_t i = 0; i < xs.size(); ++i) {
    const XQ ax = dec(xs[i]);
    for (size_t j = 0; j < ys.size(); ++j) for (size_t k = 0; k < accs.size(); ++k) {
      const XQ& ay = dy[j]; const XQ& at = da[k];
      Ex ex = ex_fused(at, ax, ay, op.sub);
      if (!in_contract<P, T>(ex.u)) { ++tl.skipped_contract; continue; }
      const char* cls = intern(res_class<N>(ex, ax.inf() || ay.inf() || at.inf()));
      Desc desc = desc3(at, ax, ay);
      for (int d = 0; d < NDIRS; ++d) {
        N to = accs[k];
        if (g_verbose()) fprintf(stderr, "op: %s<%s/%s>(%s, ROUND_%s)\n", s.op, s.type.c_str(), s.pol, desc().c_str(), DIRS[d].name);
        Result r = op.call(to, xs[i], ys[j], DIRS[d].d);
        verify<N>(s, DIRS[d].d, cls, r, to, ex, desc);
        ++done;
      }
    }
  }
  flush_tally(tl); hx::count(std::string("op.") + op.name, done);
}
template <typename N, typename Op> inline void run_fused(const std::vector<N>& accs, const std::vector<N>& xs, const std::vector<N>& ys) { run_fused_vt<N>(fuvt<N, Op>(), accs, xs, ys); }

// conversions  To <- From  through assign_r and construct(); core is a template on To only
template <typename To> struct ConvSrc { const char* tname; const char* pol; size_t n; XQ (*dec_at)(const void*, size_t); Result (*assign)(To&, const void*, size_t, Rounding_Dir); Result (*construct)(To&, const void*, size_t, Rounding_Dir); const void* data; };
template <typename To>
void run_convert_core(const ConvSrc<To>& src, bool do_construct) {
  typedef Kind<To> K; typedef typename K::raw_t T;
  std::string ty = std::string(tname<To>()) + "<-" + src.tname;
  const char* polc = intern(std::string(K::pol()) + "<-" + src.pol);
  Site s = { "assign", ty, polc }; Site sc = { "construct", ty, polc };
  unsigned long done = 0;
  for (size_t i = 0; i < src.n; ++i) {
    const XQ ax = src.dec_at(src.data, i);
    Ex ex = ex_id(ax);
    std::string cl = res_class<To>(ex, false);
    if (ex.u == U_NONE && ax.fin() && cl == "inexact" && IsInt<T>::value) cl = ::sgn(ax.q) < 0 ? "negative-fractional" : "positive-fractional";
    if (ex.u == U_NONE && ax.inf()) cl = "inf-operand";
    const char* cls = intern(cl);
    Desc desc = desc1(ax);
    int nd = NDIRS + ((ex.u == U_NONE && representable<To>(ex.v)) ? 1 : 0);
    for (int d = 0; d < nd; ++d) {
      { To to = fresh<To>(); junk(to);
        if (g_verbose()) fprintf(stderr, "op: assign<%s/%s>(%s, ROUND_%s)\n", ty.c_str(), polc, desc().c_str(), DIRS[d].name);
        Result r = src.assign(to, src.data, i, DIRS[d].d);
        verify<To>(s, DIRS[d].d, cls, r, to, ex, desc); ++done; }
      if (do_construct) {
        typename std::aligned_storage<sizeof(To), alignof(To)>::type buf; To* p = reinterpret_cast<To*>(&buf);
        if (g_verbose()) fprintf(stderr, "op: construct<%s/%s>(%s, ROUND_%s)\n", ty.c_str(), polc, desc().c_str(), DIRS[d].name);
        Result r = src.construct(*p, src.data, i, DIRS[d].d);
        verify<To>(sc, DIRS[d].d, cls, r, *p, ex, desc); ++done;
        p->~To(); }
    }
  }
  hx::count("op.assign", done);
}
template <typename To, typename From> struct ConvThunk {
  static XQ dec_at(const void* d, size_t i) { return dec((*static_cast<const std::vector<From>*>(d))[i]); }
  static Result assign(To& t, const void* d, size_t i, Rounding_Dir dir) { return assign_r(t, (*static_cast<const std::vector<From>*>(d))[i], dir); }
  static Result cons(To& t, const void* d, size_t i, Rounding_Dir dir) { return construct(t, (*static_cast<const std::vector<From>*>(d))[i], dir); }
};
template <typename To, typename From>
inline void run_convert(const std::vector<From>& xs, bool do_construct = true) {
  ConvSrc<To> src = { tname<From>(), Kind<From>::pol(), xs.size(), &ConvThunk<To, From>::dec_at, &ConvThunk<To, From>::assign, &ConvThunk<To, From>::cons, &xs };
  run_convert_core<To>(src, do_construct);
}

// special values:  assign_r(to, PLUS_INFINITY | MINUS_INFINITY | NOT_A_NUMBER, dir)
template <typename To>
void run_specials() {
  typedef Kind<To> K; typedef typename K::TP P;
  Site s = { "assign_special", tname<To>(), K::pol() };
  for (int d = 0; d < NDIRS; ++d) for (int w = 0; w < 3; ++w) {
    To to = fresh<To>(); junk(to); Result r; Ex ex;
    if (w == 0) { r = assign_r(to, PLUS_INFINITY, DIRS[d].d); ex = Ex(xinf(1)); }
    else if (w == 1) { r = assign_r(to, MINUS_INFINITY, DIRS[d].d); ex = Ex(xinf(-1)); }
    else { r = assign_r(to, NOT_A_NUMBER, DIRS[d].d); ex = Ex(U_NAN_OPERAND); }
    const char* cls = w == 0 ? "plus-infinity" : w == 1 ? "minus-infinity" : "not-a-number";
    Desc desc = desct(cls);
    if (verify<To>(s, DIRS[d].d, cls, r, to, ex, desc) && w == 2 && P::has_nan && !result_representable(r)) {
      hx::checked();
      hx::violation(std::string("C11.nan.assign_special.") + tname<To>() + ":stored-nan-flagged-unrepresentable", std::string("assign_r(") + kname<To>() + ", NOT_A_NUMBER) stored a NaN (policy has_nan) but returned " + result_name(r));
    }
  }
  hx::count("op.assign_special", 3 * NDIRS);
}

// comparisons between kinds A and B (core is not a template)
struct CmpOut { bool p[6]; int c; };
inline void run_compare_core(const std::string& ty, const std::string& pol, const char* tnA, const std::string& knA, const std::vector<XQ>& dx, const std::vector<XQ>& dy,
                             const std::function<CmpOut(size_t, size_t, bool)>& f, const std::function<int(size_t)>& sg) {
  static const char* const NM[6] = { "equal", "not_equal", "less_than", "less_or_equal", "greater_than", "greater_or_equal" };
  unsigned long done = 0;
  for (size_t i = 0; i < dx.size(); ++i) {
    const XQ& ax = dx[i];
    for (size_t j = 0; j < dy.size(); ++j) {
      const XQ& ay = dy[j]; int c = xcmp(ax, ay);
      if (g_verbose()) fprintf(stderr, "op: compare<%s/%s>(%s, %s)\n", ty.c_str(), pol.c_str(), show(ax).c_str(), show(ay).c_str());
      CmpOut o = f(i, j, c != 2);
      bool want[6] = { c == 0, c != 0, c == -1, c == -1 || c == 0, c == 1, c == 1 || c == 0 };
      const char* cls = c == 2 ? "nan-operand" : (ax.inf() || ay.inf()) ? "inf-operand" : c == 0 ? "equal" : "different";
      hx::checked(6); done += 6;
      for (int k = 0; k < 6; ++k)
        if (o.p[k] != want[k]) hx::violation(std::string("C11.rel.") + NM[k] + "." + ty + ":" + cls, std::string(NM[k]) + "<" + ty + "/" + pol + ">(" + show(ax) + ", " + show(ay) + ") returned " + (o.p[k] ? "true" : "false"));
      if (c != 2) { hx::checked(); ++done;
        if ((o.c > 0) - (o.c < 0) != c) hx::violation(std::string("C11.rel.cmp.") + ty + ":" + cls, "cmp<" + ty + "/" + pol + ">(" + show(ax) + ", " + show(ay) + ") returned " + std::to_string(o.c)); }
    }
    if (!ax.nan()) { hx::checked(); ++done; int g = sg(i); int w = ax.sgn(); if (g != w) hx::violation(std::string("C11.rel.sgn.") + tnA + ":" + (ax.inf() ? "inf-operand" : "finite"), "sgn<" + knA + ">(" + show(ax) + ") returned " + std::to_string(g)); }
  }
  hx::count("op.compare", done);
  static std::unordered_set<uint64_t> seen; uint64_t h = hx::fnv(ty + pol); if (seen.insert(h).second) hx::distinct("compare|" + ty + "|" + pol);
}
template <typename A, typename B>
inline void run_compare(const std::vector<A>& xs, const std::vector<B>& ys) {
  std::vector<XQ> dx, dy; for (size_t i = 0; i < xs.size(); ++i) dx.push_back(dec(xs[i])); for (size_t j = 0; j < ys.size(); ++j) dy.push_back(dec(ys[j]));
  run_compare_core(std::string(tname<A>()) + "," + tname<B>(), std::string(Kind<A>::pol()) + "," + Kind<B>::pol(), tname<A>(), kname<A>(), dx, dy,
    [&](size_t i, size_t j, bool ordered) { CmpOut o; const A& x = xs[i]; const B& y = ys[j];
      o.p[0] = equal(x, y); o.p[1] = not_equal(x, y); o.p[2] = less_than(x, y); o.p[3] = less_or_equal(x, y); o.p[4] = greater_than(x, y); o.p[5] = greater_or_equal(x, y);
      o.c = ordered ? cmp(x, y) : 0; return o; },
    [&](size_t i) { return sgn(xs[i]); });
}

} // namespace nk
#endif
