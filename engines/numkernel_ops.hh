// numkernel — operation table, thunks and typed front ends of the enumerators (cores: numkernel.cc, oracle: numkernel.hh).
#ifndef NUMKERNEL_OPS_HH
#define NUMKERNEL_OPS_HH
#include "numkernel.hh"

namespace nk {

// ---------------------------------------------------------------- operation table
#define NK_BIN(NAME, PPLFN, EXACT) struct Op_##NAME { static const char* name() { return #NAME; } \
  template <typename To, typename A, typename B> static Result call(To& t, const A& a, const B& b, Rounding_Dir d) { return PPLFN(t, a, b, d); } \
  static Ex exact(const XQ& a, const XQ& b) { return EXACT(a, b); } };
NK_BIN(add, add_assign_r, ex_add) NK_BIN(sub, sub_assign_r, ex_sub) NK_BIN(mul, mul_assign_r, ex_mul) NK_BIN(div, div_assign_r, ex_div)
NK_BIN(idiv, idiv_assign_r, ex_idiv) NK_BIN(rem, rem_assign_r, ex_rem) NK_BIN(gcd, gcd_assign_r, ex_gcd) NK_BIN(lcm, lcm_assign_r, ex_lcm)
#define NK_UN(NAME, PPLFN, EXACT) struct Op_##NAME { static const char* name() { return #NAME; } \
  template <typename To, typename A> static Result call(To& t, const A& a, Rounding_Dir d) { return PPLFN(t, a, d); } \
  static Ex exact(const XQ& a) { return EXACT(a); } };
NK_UN(assign, assign_r, ex_id) NK_UN(neg, neg_assign_r, ex_neg) NK_UN(abs, abs_assign_r, ex_abs) NK_UN(floor, floor_assign_r, ex_floor)
NK_UN(ceil, ceil_assign_r, ex_ceil) NK_UN(trunc, trunc_assign_r, ex_trunc) NK_UN(sqrt, sqrt_assign_r, ex_sqrt)
#define NK_2EXP(NAME, PPLFN, EXACT) struct Op_##NAME { static const char* name() { return #NAME; } \
  template <typename To, typename A> static Result call(To& t, const A& a, unsigned e, Rounding_Dir d) { return PPLFN(t, a, e, d); } \
  static Ex exact(const XQ& a, unsigned e) { return EXACT(a, e); } };
NK_2EXP(add_2exp, add_2exp_assign_r, ex_add_2exp) NK_2EXP(sub_2exp, sub_2exp_assign_r, ex_sub_2exp) NK_2EXP(mul_2exp, mul_2exp_assign_r, ex_mul_2exp)
NK_2EXP(div_2exp, div_2exp_assign_r, ex_div_2exp) NK_2EXP(smod_2exp, smod_2exp_assign_r, ex_smod_2exp) NK_2EXP(umod_2exp, umod_2exp_assign_r, ex_umod_2exp)
struct Op_add_mul { static const char* name() { return "add_mul"; } static const bool sub = false;
  template <typename To, typename A, typename B> static Result call(To& t, const A& a, const B& b, Rounding_Dir d) { return add_mul_assign_r(t, a, b, d); } };
struct Op_sub_mul { static const char* name() { return "sub_mul"; } static const bool sub = true;
  template <typename To, typename A, typename B> static Result call(To& t, const A& a, const B& b, Rounding_Dir d) { return sub_mul_assign_r(t, a, b, d); } };

// ---------------------------------------------------------------- thunks: one PPL call on operands of kind N
template <typename N> inline N fresh() { return N(); }
template <typename N> inline void junk(N& n, typename std::enable_if<!std::is_class<typename Kind<N>::raw_t>::value, int>::type = 0) {
  typedef typename Kind<N>::raw_t T; Kind<N>::rv(n) = IsInt<T>::value ? (T) 0x55 : (T) 0.3125;
}
template <typename N> inline void junk(N&, typename std::enable_if<std::is_class<typename Kind<N>::raw_t>::value, int>::type = 0) {}
template <typename N> inline void readback(Result r, const N& to, XQ& st) { if (result_representable(r)) st = dec(to); }

template <typename N, typename Op> struct BinThunk { static Result run(const void* xs, size_t i, const void* ys, size_t j, Rounding_Dir d, XQ& st) {
  N to = fresh<N>(); junk(to); Result r = Op::call(to, VecThunk<N>::at(xs, i), VecThunk<N>::at(ys, j), d); readback(r, to, st); return r; } };
template <typename N, typename Op> struct UnThunk { static Result run(const void* xs, size_t i, Rounding_Dir d, XQ& st) {
  N to = fresh<N>(); junk(to); Result r = Op::call(to, VecThunk<N>::at(xs, i), d); readback(r, to, st); return r; } };
template <typename N, typename Op> struct E2Thunk { static Result run(const void* xs, size_t i, unsigned e, Rounding_Dir d, XQ& st) {
  N to = fresh<N>(); junk(to); Result r = Op::call(to, VecThunk<N>::at(xs, i), e, d); readback(r, to, st); return r; } };
template <typename N, typename Op> struct FuThunk { static Result run(const void* accs, size_t k, const void* xs, size_t i, const void* ys, size_t j, Rounding_Dir d, XQ& st) {
  N to = VecThunk<N>::at(accs, k); Result r = Op::call(to, VecThunk<N>::at(xs, i), VecThunk<N>::at(ys, j), d); readback(r, to, st); return r; } };
template <typename To, typename From> struct ConvThunk {
  static Result assign(const void* xs, size_t i, const void*, size_t, Rounding_Dir d, XQ& st) { To to = fresh<To>(); junk(to); Result r = assign_r(to, VecThunk<From>::at(xs, i), d); readback(r, to, st); return r; }
  static Result cons(const void* xs, size_t i, const void*, size_t, Rounding_Dir d, XQ& st) {
    typename std::aligned_storage<sizeof(To), alignof(To)>::type buf; To* p = reinterpret_cast<To*>(&buf);
    Result r = construct(*p, VecThunk<From>::at(xs, i), d); readback(r, *p, st); p->~To(); return r; }
};
template <typename To> struct SpThunk { static Result run(int w, Rounding_Dir d, XQ& st) {
  To to = fresh<To>(); junk(to); Result r = w == 0 ? assign_r(to, PLUS_INFINITY, d) : w == 1 ? assign_r(to, MINUS_INFINITY, d) : assign_r(to, NOT_A_NUMBER, d); readback(r, to, st); return r; } };
template <typename A, typename B> struct CmpThunk {
  static CmpOut run(const void* xs, size_t i, const void* ys, size_t j, bool ordered) { CmpOut o; const A& x = VecThunk<A>::at(xs, i); const B& y = VecThunk<B>::at(ys, j);
    o.p[0] = equal(x, y); o.p[1] = not_equal(x, y); o.p[2] = less_than(x, y); o.p[3] = less_or_equal(x, y); o.p[4] = greater_than(x, y); o.p[5] = greater_or_equal(x, y);
    o.has_cmp = std::is_same<typename Kind<A>::raw_t, typename Kind<B>::raw_t>::value; o.c = ordered ? cmp_same(x, y) : 0; return o; }
  // cmp() is only provided for operands of one underlying type
  template <typename X, typename Y> static typename std::enable_if<std::is_same<typename Kind<X>::raw_t, typename Kind<Y>::raw_t>::value, int>::type cmp_same(const X& x, const Y& y) { return cmp(x, y); }
  template <typename X, typename Y> static typename std::enable_if<!std::is_same<typename Kind<X>::raw_t, typename Kind<Y>::raw_t>::value, int>::type cmp_same(const X&, const Y&) { return 0; }
  static int sg(const void* xs, size_t i) { return sgn(VecThunk<A>::at(xs, i)); }
};

// ---------------------------------------------------------------- typed front ends of the cores
template <typename N, typename Op> inline void run_binary(const std::vector<N>& xs, const std::vector<N>& ys, bool try_not_needed = true) { run_binary_core(kinfo<N>(), Op::name(), &BinThunk<N, Op>::run, &Op::exact, &xs, &ys, try_not_needed); }
template <typename N, typename Op> inline void run_unary(const std::vector<N>& xs, bool try_not_needed = true) { run_unary_core(kinfo<N>(), Op::name(), &UnThunk<N, Op>::run, &Op::exact, &xs, try_not_needed); }
template <typename N, typename Op> inline void run_2exp(const std::vector<N>& xs, const std::vector<unsigned>& exps) { run_2exp_core(kinfo<N>(), Op::name(), &E2Thunk<N, Op>::run, &Op::exact, &xs, exps); }
template <typename N, typename Op> inline void run_fused(const std::vector<N>& accs, const std::vector<N>& xs, const std::vector<N>& ys) { run_fused_core(kinfo<N>(), Op::name(), Op::sub, &FuThunk<N, Op>::run, &accs, &xs, &ys); }
template <typename To, typename From> inline void run_convert(const std::vector<From>& xs, bool do_construct = true) { run_convert_core(kinfo<To>(), kinfo<From>(), &ConvThunk<To, From>::assign, do_construct ? &ConvThunk<To, From>::cons : (BinRun) 0, &xs); }
template <typename To> inline void run_specials() { run_specials_core(kinfo<To>(), &SpThunk<To>::run); }
template <typename A, typename B> inline void run_compare(const std::vector<A>& xs, const std::vector<B>& ys) { run_compare_core(kinfo<A>(), kinfo<B>(), &CmpThunk<A, B>::run, &CmpThunk<A, B>::sg, &xs, &ys); }

} // namespace nk
#endif
