// widenchain — Octagonal_Shape<mpq_class>: BHMZ05 (and the widening_assign alias), CC76
// extrapolation with default and user stop points, limited_* extrapolations.
#include "wc_shape.hh"

using namespace wc;

namespace {
typedef Octagonal_Shape<mpq_class> OCT;

struct OctTR {
  typedef OCT D;
  static bool nnc() { return false; }
  static const char* name() { return "Octagonal_Shape<mpq_class>"; }
  static bool strict_ok() { return false; }
  static bool dyadic() { return false; }
  static int maxdim() { return 4; }
  static D make(int n, bool empty) { return D(n, empty ? EMPTY : UNIVERSE); }
  static std::vector<int> direction(int n) { return shape_direction(n, 2); }
  static bool representable(const Constraint& c) { return is_oct_con(c); }
  // get_limiting_shape / get_limiting_octagon index their matrices with garbage for a constraint without variables
  static bool fragile_limiting(const std::vector<Constraint>& cv) { for (size_t i = 0; i < cv.size(); ++i) if (con_shape(cv[i]).nvars == 0 && !cv[i].is_tautological()) return true; return false; }
  static D from_cons(int n, const std::vector<Constraint>& cv) { return shape_from_cons<D>(n, cv); }
  static D from_gens(int n, const std::vector<Generator>& gv) { return shape_from_gens<D>(n, gv); }
  static Gens min_gens(const D&) { return Gens(); }
  static int ntwins() { return 7; }
  static D twin(const D& p, int how, std::string& desc) { return shape_twin<D>(p, how, desc); }
  static int ppl_cert_compare(int cert, const D& y, const D& z) {
    if (cert != CERT_H79) return 99;
    return shape_h79_compare(y.constraints(), z.constraints(), y.space_dimension());
  }
  static int ppl_cert_compare_certs(int, const D&, const D&) { return 99; }
  static std::vector<WOp<D> > ops(int) {
    std::vector<WOp<D> > v;
    { WOp<D> o; o.name = "BHMZ05_widening_assign"; o.cert = CERT_H79; o.call = [](D& x, const D& y, unsigned* tp) { x.BHMZ05_widening_assign(y, tp); };
      o.lim_name = "limited_BHMZ05_extrapolation_assign"; o.lim = [](D& x, const D& y, const Constraint_System& cs, unsigned* tp) { x.limited_BHMZ05_extrapolation_assign(y, cs, tp); };
      v.push_back(o); v.push_back(o); v.push_back(o); }
    { WOp<D> o; o.name = "widening_assign"; o.cert = CERT_H79; o.call = [](D& x, const D& y, unsigned* tp) { x.widening_assign(y, tp); }; v.push_back(o); }
    { WOp<D> o; o.name = "CC76_extrapolation_assign"; o.cert = CERT_NONE; o.call = [](D& x, const D& y, unsigned* tp) { x.CC76_extrapolation_assign(y, tp); };
      o.lim_name = "limited_CC76_extrapolation_assign"; o.lim = [](D& x, const D& y, const Constraint_System& cs, unsigned* tp) { x.limited_CC76_extrapolation_assign(y, cs, tp); };
      v.push_back(o); v.push_back(o); }
    { WOp<D> o; o.name = "CC76_extrapolation_assign@stop-points"; o.cert = CERT_NONE;
      typedef D::coefficient_type N;
      std::shared_ptr<std::vector<N> > sp(new std::vector<N>());
      int k = rnd(0, 4); std::vector<int> pts; for (int i = 0; i < k; ++i) pts.push_back(rnd(-6, 9)); std::sort(pts.begin(), pts.end()); pts.erase(std::unique(pts.begin(), pts.end()), pts.end());
      for (size_t i = 0; i < pts.size(); ++i) sp->push_back(N(pts[i], ROUND_UP));
      o.call = [sp](D& x, const D& y, unsigned* tp) { x.CC76_extrapolation_assign(y, sp->begin(), sp->end(), tp); };
      v.push_back(o); }
    return v;
  }
};
} // namespace

void wc::run_oct_case() { ConvexChain<OctTR> c; c.run(); }
