// polyseq — random operation histories on C / NNC polyhedra, every step
// checked against the exact-LP reference model.
//
// Monitors (key prefix = property):
//   C01.*  constraints/generators (plain and minimized) denote one set; every
//          query answers what that set dictates; observers are pure; twins
//          built another way are indistinguishable; OK().
//   C02.*  every set-transforming operator yields exactly the documented set.
//   C13.*  bystanders / const arguments / copies keep their value; x.op(x)
//          equals x.op(copy); self-assignment and self-swap are harmless.
//   C15.*  ascii_dump/ascii_load round trip in every lazy state + lock-step
//          continuation of the loaded twin.
//   C17.*  contains_integer_point / drop_some_non_integer_points / wrap_assign
//          on polyhedra (integer points enumerated in a window).
// Profiles only change the operation mix: dd | ops | alias | ascii | wrap.
#include "pplx.hh"
#include <functional>
#include <memory>

using namespace pplx;
using hx::violation; using hx::tr; using hx::checked;

static bool g_nnc = false;
static int g_maxdim = 3;

// ---------- topology-aware object management ----------
static Polyhedron* mk(int n, Degenerate_Element k) { return g_nnc ? (Polyhedron*) new NNC_Polyhedron(n, k) : (Polyhedron*) new C_Polyhedron(n, k); }
static Polyhedron* cp(const Polyhedron& p) { return g_nnc ? (Polyhedron*) new NNC_Polyhedron(static_cast<const NNC_Polyhedron&>(p)) : (Polyhedron*) new C_Polyhedron(static_cast<const C_Polyhedron&>(p)); }
static void del(Polyhedron* p) { if (!p) return; if (g_nnc) delete static_cast<NNC_Polyhedron*>(p); else delete static_cast<C_Polyhedron*>(p); }
static void assign(Polyhedron& x, const Polyhedron& y) { if (g_nnc) static_cast<NNC_Polyhedron&>(x) = static_cast<const NNC_Polyhedron&>(y); else static_cast<C_Polyhedron&>(x) = static_cast<const C_Polyhedron&>(y); }
static bool ppl_equal(const Polyhedron& x, const Polyhedron& y) { return x == y; }
struct Holder { Polyhedron* p; Holder(Polyhedron* q) : p(q) {} ~Holder() { del(p); } Polyhedron& operator*() { return *p; } private: Holder(const Holder&); Holder& operator=(const Holder&); };

static std::string status_line(const Polyhedron& ph) {
  std::ostringstream o; ph.ascii_dump(o);
  std::string s = o.str();
  size_t a = s.find('\n'); size_t b = s.find('\n', a + 1);
  return s.substr(a + 1, b - a - 1);
}
static std::string dump(const Polyhedron& ph) { std::ostringstream o; ph.ascii_dump(o); return o.str(); }

// Observation through copies: the original's lazy state is untouched.
static Sys obs_cons(const Polyhedron& ph, bool minimized = false) { Holder c(cp(ph)); int n = ph.space_dimension(); return ref::conv(minimized ? (*c).minimized_constraints() : (*c).constraints(), n); }
static Gens obs_gens(const Polyhedron& ph, bool minimized = false) { Holder c(cp(ph)); int n = ph.space_dimension(); return ref::conv(minimized ? (*c).minimized_generators() : (*c).generators(), n); }

static bool sys_included(int n, const Sys& a, const Sys& b) { return ref::esys_in_cons(ref::esys_of(a, n), b, 0, 0); }
static bool sys_equal(int n, const Sys& a, const Sys& b) { return sys_included(n, a, b) && sys_included(n, b, a); }

// coarse classification of the receiver for the distinct-configuration metric
static std::string shape_class(int n, const Sys& S) {
  if (!ref::feasible(n, S)) return "empty";
  bool univ = true; for (size_t i = 0; i < S.size(); ++i) { bool z = true; for (size_t j = 0; j < S[i].a.size(); ++j) if (S[i].a[j] != 0) z = false; if (!z) univ = false; }
  if (univ) return "universe";
  bool eq = false, strict = false; for (size_t i = 0; i < S.size(); ++i) { if (S[i].rel == ref::EQ) eq = true; if (S[i].rel == ref::LT) strict = true; }
  return std::string("proper") + (eq ? "+eq" : "") + (strict ? "+strict" : "");
}
static bool nontrivial_class(const std::string& c) { return c != "empty" && c != "universe"; }

// ---------- C01 core: DD pair verification ----------
static bool check_dd(const Polyhedron& ph, const std::string& where, Sys& C, Gens& G) {
  int n = ph.space_dimension();
  C = obs_cons(ph); G = obs_gens(ph);
  checked(); hx::count("dd_checks");
  std::string why; Vec wit;
  if (!ref::gens_satisfy(n, G, C, &why)) { violation("C01.dd.gens_not_in_cons@" + where, why + " C=" + show(C)); return false; }
  int r = ref::cons_in_hull(n, C, G, &wit, &why);
  if (r == 0) {
    // independent re-validation: the witness satisfies the PPL-reported constraints by plain arithmetic
    if (!ref::sat(C, wit)) { violation("harness.bug.dd_witness", why); return false; }
    violation("C01.dd.cons_not_in_gens@" + where, why + " witness " + show(wit) + " C=" + show(C)); return false;
  }
  if (r < 0) hx::inconclusive("dd_too_large");
  if (!ph.OK()) { violation("C01.OK@" + where, "OK() false"); return false; }
  // minimized views (through their own copies)
  if (coin(25)) {
    Sys Cm = obs_cons(ph, true); Gens Gm = obs_gens(ph, true);
    checked(2); hx::count("dd_min_checks");
    if (!sys_equal(n, C, Cm)) { violation("C01.dd.minimized_constraints_differ@" + where, "C=" + show(C) + " Cmin=" + show(Cm)); return false; }
    if (!ref::gens_satisfy(n, Gm, C, &why)) { violation("C01.dd.mingens_not_in_cons@" + where, why); return false; }
    int r2 = ref::cons_in_hull(n, C, Gm, &wit, &why);
    if (r2 == 0) { violation("C01.dd.cons_not_in_mingens@" + where, why + " witness " + show(wit)); return false; }
  }
  return true;
}

// result R (cons RC, gens RG) must equal T (exists-form NNC polyhedron)
static bool check_equals_esys(const std::string& op, const Sys& RC, const Gens& RG, const ESys& T) {
  std::string why; Vec wit;
  checked(); hx::count("op_checks");
  int nv = T.n + T.aux;
  // T subseteq set(RC), with arithmetic re-validation of the LP witness
  for (size_t i = 0; i < RC.size(); ++i) {
    std::vector<Con> ng = ref::negate(RC[i]);
    for (size_t k = 0; k < ng.size(); ++k) {
      Sys s = T.s; Con c = ng[k]; c.a.resize(nv); s.push_back(c);
      Vec w;
      if (ref::feasible(nv, s, &w)) {
        Vec wv(w.begin(), w.begin() + T.n);
        if (!ref::sat(T.s, w) || ref::sat(RC[i], wv)) { violation("harness.bug.lost_witness", op); return false; }
        violation("C02." + op + ".lost_points", "point " + show(wv) + " of the defined set violates result constraint " + show(RC[i]));
        return false;
      }
    }
  }
  if (!ref::feasible(nv, T.s)) {
    if (!RG.empty()) { violation("C02." + op + ".not_empty", "defined set is empty but result has generators"); return false; }
    return true;
  }
  if (!ref::gens_in_esys(RG, T, &why)) { violation("C02." + op + ".extra_points", why); return false; }
  return true;
}
// generator-side definition: result == hull_NNC(TG)
static bool check_equals_hull(const std::string& op, int n, const Sys& RC, const Gens& RG, const Gens& TG) {
  std::string why; checked(); hx::count("op_checks");
  if (!ref::gens_satisfy(n, TG, RC, &why)) { violation("C02." + op + ".lost_points", why); return false; }
  for (size_t i = 0; i < RG.size(); ++i) {
    const Gen& r = RG[i];
    bool ok = (r.kind == Gen::POINT) ? ref::in_hull(n, TG, r.v, false) : (r.kind == Gen::CLOSURE_POINT) ? ref::in_hull(n, TG, r.v, true) : ref::in_cone(n, TG, r.v);
    if (ok && r.kind == Gen::LINE) { Vec neg(n); for (int d = 0; d < n; ++d) neg[d] = -r.v[d]; ok = ref::in_cone(n, TG, neg); }
    if (!ok) { violation("C02." + op + ".extra_points", "result generator outside the defined hull"); return false; }
  }
  return true;
}

// ---------- integer points in a window (C17 / contains_integer_point) ----------
// returns false if the set is unbounded or the window is too large.
// den[i] (default 1) = denominator of the lattice on dimension i: points k/den[i].
static bool int_points(int n, const Sys& S, std::vector<Vec>& pts, long cap = 4000, const std::vector<int>* den = 0) {
  pts.clear();
  if (!ref::feasible(n, S)) return true;
  std::vector<mpz_class> lo(n), hi(n);
  double vol = 1;
  for (int i = 0; i < n; ++i) {
    int dn = den ? (*den)[i] : 1;
    Vec a(n); a[i] = 1; ref::SupResult u = ref::supremum(n, S, a); a[i] = -1; ref::SupResult l = ref::supremum(n, S, a);
    if (!u.bounded || !l.bounded) return false;
    Q uv = u.sup * dn; mpz_fdiv_q(hi[i].get_mpz_t(), uv.get_num_mpz_t(), uv.get_den_mpz_t());
    Q lv = -l.sup * dn; mpz_cdiv_q(lo[i].get_mpz_t(), lv.get_num_mpz_t(), lv.get_den_mpz_t());
    if (hi[i] < lo[i]) return true;
    vol *= (mpz_class(hi[i] - lo[i] + 1)).get_d();
    if (vol > cap) return false;
  }
  Vec x(n); std::vector<mpz_class> cur = lo;
  if (n == 0) { pts.push_back(x); return true; }
  for (;;) {
    for (int i = 0; i < n; ++i) { x[i] = Q(cur[i], den ? (*den)[i] : 1); x[i].canonicalize(); }
    if (ref::sat(S, x)) pts.push_back(x);
    int i = 0; while (i < n) { if (cur[i] < hi[i]) { ++cur[i]; break; } cur[i] = lo[i]; ++i; }
    if (i == n) break;
  }
  return true;
}

// ---------- the mutator table ----------
struct Op {
  std::string name, text;
  bool uses_b;
  std::function<void(Polyhedron&, const Polyhedron&)> apply;
  // verify(SA, GA, SB, GB, RC, RG)
  std::function<void(const Sys&, const Gens&, const Sys&, const Gens&, const Sys&, const Gens&)> verify;
  Op() : uses_b(false) {}
};

static Gens as_rays_of(const Gens& GB, int n) {
  Gens out;
  for (size_t i = 0; i < GB.size(); ++i) { Gen g = GB[i]; if (g.kind == Gen::POINT || g.kind == Gen::CLOSURE_POINT) { bool z = true; for (int d = 0; d < n; ++d) if (g.v[d] != 0) z = false; if (z) continue; g.kind = Gen::RAY; } out.push_back(g); }
  return out;
}

static Constraint_System rand_cs(int n, bool strict_ok, int k) { Constraint_System cs; for (int i = 0; i < k; ++i) cs.insert(rand_con(n, strict_ok)); return cs; }

// PPL generator from a reference generator (scaled to integers)
static Generator to_ppl(const Gen& g, int n) {
  mpz_class l = 1; for (int d = 0; d < n; ++d) { mpz_class den = g.v[d].get_den(); mpz_lcm(l.get_mpz_t(), l.get_mpz_t(), den.get_mpz_t()); }
  Linear_Expression e; for (int d = 0; d < n; ++d) { Q v = g.v[d] * Q(l); e += Coefficient(v.get_num()) * Variable(d); }
  switch (g.kind) {
  case Gen::POINT: return point(e, Coefficient(l));
  case Gen::CLOSURE_POINT: return closure_point(e, Coefficient(l));
  case Gen::RAY: return ray(e);
  default: return line(e);
  }
}
// Constraint description of hull_NNC(TG), obtained from a scratch PPL object and then
// verified against TG by the reference model (so it is trusted only if ok).
static Sys hull_constraints(int n, const Gens& TG, bool& ok) {
  ok = true;
  Holder h(mk(n, EMPTY));
  Gens pts, rest; for (size_t i = 0; i < TG.size(); ++i) (TG[i].kind == Gen::POINT ? pts : rest).push_back(TG[i]);
  if (pts.empty()) { Sys s; Vec z(n); s.push_back(Con(z, Q(-1), ref::LE)); return s; }
  for (size_t i = 0; i < pts.size(); ++i) (*h).add_generator(to_ppl(pts[i], n));
  for (size_t i = 0; i < rest.size(); ++i) (*h).add_generator(to_ppl(rest[i], n));
  Sys HC = ref::conv((*h).constraints(), n);
  std::string why; Vec wit;
  if (!ref::gens_satisfy(n, TG, HC, &why) || ref::cons_in_hull(n, HC, TG, &wit, &why) != 1) ok = false;
  return HC;
}

// Build a random mutator.  `Aempty` tells whether the receiver denotes the empty set.
static bool make_op(Op& op, int n, bool Aempty, const std::string& profile) {
  const bool nnc = g_nnc;
  int k = rnd(0, 99);
  std::ostringstream t;
  if (k < 12) { // add_constraint(s) / refine_with_constraint(s)
    int which = rnd(0, 4);
    int cnt = (which == 0 || which == 2) ? 1 : rnd(0, 3);
    bool refine = (which >= 2 && which != 4);
    std::vector<Constraint> cv; for (int i = 0; i < cnt; ++i) cv.push_back(rand_con(n, nnc || refine));
    Constraint_System cs; for (size_t i = 0; i < cv.size(); ++i) cs.insert(cv[i]);
    const char* nm[5] = { "add_constraint", "add_constraints", "refine_with_constraint", "refine_with_constraints", "add_recycled_constraints" };
    op.name = nm[which]; t << "." << nm[which] << "("; for (size_t i = 0; i < cv.size(); ++i) t << (i ? ", " : "") << str(cv[i]); t << ")"; op.text = t.str();
    op.apply = [=](Polyhedron& A, const Polyhedron&) {
      switch (which) {
      case 0: A.add_constraint(cv[0]); break;
      case 1: A.add_constraints(cs); break;
      case 2: A.refine_with_constraint(cv[0]); break;
      case 3: A.refine_with_constraints(cs); break;
      case 4: { Constraint_System tmp(cs); A.add_recycled_constraints(tmp); break; }
      }
    };
    op.verify = [=](const Sys& SA, const Gens&, const Sys&, const Gens&, const Sys& RC, const Gens& RG) {
      Sys T = SA; Sys add; bool any_strict = false; for (size_t i = 0; i < cv.size(); ++i) { add.push_back(ref::conv(cv[i], n)); if (cv[i].is_strict_inequality()) any_strict = true; }
      if (nnc || !any_strict) { T.insert(T.end(), add.begin(), add.end()); check_equals_esys(op.name, RC, RG, ref::esys_of(T, n)); return; }
      // C polyhedron refined with strict inequalities: the documentation promises an upward approximation,
      // "possibly not at all": (receiver AND c) subseteq result subseteq (receiver AND closure(c)).
      Sys lo = SA; lo.insert(lo.end(), add.begin(), add.end());
      Sys cl = ref::closure_of(add); Sys hi = SA; hi.insert(hi.end(), cl.begin(), cl.end());
      checked(); hx::count("op_checks");
      std::string why; Vec wit;
      if (!ref::esys_in_cons(ref::esys_of(lo, n), RC, &wit, &why)) { violation("C02." + op.name + ".lost_points", why + " witness " + show(wit)); return; }
      if (ref::feasible(n, hi)) { if (!ref::gens_in_esys(RG, ref::esys_of(hi, n), &why)) violation("C02." + op.name + ".extra_points", why); }
      else if (!RG.empty()) violation("C02." + op.name + ".not_empty", "closure-relaxed refinement is empty but result has generators");
    };
    return true;
  }
  if (k < 20) { // add_generator(s)
    int which = rnd(0, 2);
    int cnt = which == 0 ? 1 : rnd(1, 3);
    std::vector<Generator> gv; for (int i = 0; i < cnt; ++i) gv.push_back(rand_gen(n, nnc, Aempty && i == 0));
    Generator_System gs; for (size_t i = 0; i < gv.size(); ++i) gs.insert(gv[i]);
    const char* nm[3] = { "add_generator", "add_generators", "add_recycled_generators" };
    op.name = nm[which]; t << "." << nm[which] << "("; for (size_t i = 0; i < gv.size(); ++i) t << (i ? ", " : "") << str(gv[i]); t << ")"; op.text = t.str();
    op.apply = [=](Polyhedron& A, const Polyhedron&) {
      if (which == 0) A.add_generator(gv[0]); else if (which == 1) A.add_generators(gs); else { Generator_System tmp(gs); A.add_recycled_generators(tmp); }
    };
    op.verify = [=](const Sys&, const Gens& GA, const Sys&, const Gens&, const Sys& RC, const Gens& RG) {
      Gens TG = GA; for (size_t i = 0; i < gv.size(); ++i) TG.push_back(ref::conv(gv[i], n));
      check_equals_hull(op.name, n, RC, RG, TG);
    };
    return true;
  }
  if (k < 25) { // congruences: equalities are added, proper ones are ignored by refine_
    int which = rnd(0, 3);
    int cnt = (which % 2 == 0) ? 1 : rnd(0, 2);
    bool refine = which >= 2;
    std::vector<Congruence> gv; for (int i = 0; i < cnt; ++i) gv.push_back(rand_cg(n, refine ? 3 : 0));
    Congruence_System cgs; for (size_t i = 0; i < gv.size(); ++i) cgs.insert(gv[i]);
    const char* nm[4] = { "add_congruence", "add_congruences", "refine_with_congruence", "refine_with_congruences" };
    op.name = nm[which]; t << "." << nm[which] << "("; for (size_t i = 0; i < gv.size(); ++i) t << (i ? ", " : "") << str(gv[i]); t << ")"; op.text = t.str();
    op.apply = [=](Polyhedron& A, const Polyhedron&) {
      switch (which) {
      case 0: A.add_congruence(gv[0]); break;
      case 1: A.add_congruences(cgs); break;
      case 2: A.refine_with_congruence(gv[0]); break;
      case 3: A.refine_with_congruences(cgs); break;
      }
    };
    op.verify = [=](const Sys& SA, const Gens&, const Sys&, const Gens&, const Sys& RC, const Gens& RG) {
      Sys T = SA;
      for (size_t k2 = 0; k2 < gv.size(); ++k2) {
        const Congruence* i = &gv[k2];
        Vec a(n); for (int d = 0; d < n && d < (int) i->space_dimension(); ++d) a[d] = ref::toQ(i->coefficient(Variable(d)));
        Q b = ref::toQ(i->inhomogeneous_term());
        if (i->is_equality()) T.push_back(Con(a, Q(-b), ref::EQ));
        else if (i->is_inconsistent()) { Vec z(n); T.push_back(Con(z, Q(-1), ref::LE)); }
        // proper, consistent congruences: ignored by refine_with_congruence(s)
      }
      check_equals_esys(op.name, RC, RG, ref::esys_of(T, n));
    };
    return true;
  }
  if (k < 31) { op.name = "intersection_assign"; op.uses_b = true; op.text = ".intersection_assign(B)";
    op.apply = [](Polyhedron& A, const Polyhedron& B) { A.intersection_assign(B); };
    op.verify = [=](const Sys& SA, const Gens&, const Sys& SB, const Gens&, const Sys& RC, const Gens& RG) { Sys T = SA; T.insert(T.end(), SB.begin(), SB.end()); check_equals_esys(op.name, RC, RG, ref::esys_of(T, n)); };
    return true; }
  if (k < 37) { bool ub = coin(); op.name = ub ? "upper_bound_assign" : "poly_hull_assign"; op.uses_b = true; op.text = "." + op.name + "(B)";
    op.apply = [=](Polyhedron& A, const Polyhedron& B) { if (ub) A.upper_bound_assign(B); else A.poly_hull_assign(B); };
    op.verify = [=](const Sys&, const Gens& GA, const Sys&, const Gens& GB, const Sys& RC, const Gens& RG) { Gens TG = GA; TG.insert(TG.end(), GB.begin(), GB.end()); check_equals_hull(op.name, n, RC, RG, TG); };
    return true; }
  if (k < 42) { bool alt = coin(); op.name = alt ? "difference_assign" : "poly_difference_assign"; op.uses_b = true; op.text = "." + op.name + "(B)";
    op.apply = [=](Polyhedron& A, const Polyhedron& B) { if (alt) A.difference_assign(B); else A.poly_difference_assign(B); };
    op.verify = [=](const Sys& SA, const Gens&, const Sys& SB, const Gens&, const Sys& RC, const Gens& RG) {
      checked(); hx::count("op_checks");
      std::vector<Sys> ne;
      if (ref::feasible(n, SB)) ne = ref::difference_pieces(n, SA, SB);
      else if (ref::feasible(n, SA)) ne.push_back(SA);
      std::string why; Vec wit;
      for (size_t i = 0; i < ne.size(); ++i) if (!ref::esys_in_cons(ref::esys_of(ne[i], n), RC, &wit, &why)) { violation("C02." + op.name + ".lost_points", why + " witness " + show(wit)); return; }
      if (ne.empty()) { if (!RG.empty()) violation("C02." + op.name + ".not_empty", "set difference is empty but the result is not"); return; }
      // smallest polyhedron of the topology containing the pieces: R inside the closed hull ...
      for (size_t i = 0; i < RG.size(); ++i) if (!ref::in_closed_hull_of_pieces(n, ne, RG[i])) { violation("C02." + op.name + ".not_minimal", "result generator outside the closed hull of the set difference"); return; }
      // ... and R subseteq A (A is a polyhedron of the topology containing the difference)
      if (!sys_included(n, RC, SA)) violation("C02." + op.name + ".not_minimal", "result not contained in the minuend");
      // NNC level: a point of R that belongs to B and to no piece's NNC hull cannot be required; checked
      // exactly when a single piece exists (then R must equal that piece).
      if (nnc && ne.size() == 1 && !sys_included(n, RC, ne[0])) violation("C02." + op.name + ".not_minimal", "single-piece NNC difference is not exact");
    };
    return true; }
  if (k < 47) { bool pos = coin(35); op.name = pos ? "positive_time_elapse_assign" : "time_elapse_assign"; op.uses_b = true; op.text = "." + op.name + "(B)";
    op.apply = [=](Polyhedron& A, const Polyhedron& B) { if (pos) { if (g_nnc) static_cast<NNC_Polyhedron&>(A).positive_time_elapse_assign(B); else static_cast<C_Polyhedron&>(A).positive_time_elapse_assign(B); } else A.time_elapse_assign(B); };
    op.verify = [=](const Sys& SA, const Gens& GA, const Sys& SB, const Gens& GB, const Sys& RC, const Gens& RG) {
      if (!pos) {
        Gens TG; if (!GA.empty() && !GB.empty()) { TG = GA; Gens r = as_rays_of(GB, n); TG.insert(TG.end(), r.begin(), r.end()); }
        check_equals_hull(op.name, n, RC, RG, TG);
      } else {
        // { p + lambda q | p in A, q in B, lambda > 0 }:  x = p + z, z = lambda q  <=>  A_B z  REL  lambda b_B, lambda > 0
        // exact on NNC polyhedra; on C polyhedra the result is its topological closure = plain time elapse
        if (!nnc) { Gens TG; if (!GA.empty() && !GB.empty()) { TG = GA; Gens r = as_rays_of(GB, n); TG.insert(TG.end(), r.begin(), r.end()); } check_equals_hull(op.name, n, RC, RG, TG); return; }
        ESys T; T.n = n; T.aux = 2 * n + 1; int nv = T.n + T.aux; int offp = n, offz = 2 * n, lam = 3 * n;
        for (size_t i = 0; i < SA.size(); ++i) T.s.push_back(ref::shift(SA[i], nv, offp));
        for (size_t i = 0; i < SB.size(); ++i) { Con c = ref::shift(SB[i], nv, offz); c.a[lam] = -SB[i].b; c.b = 0; T.s.push_back(c); }
        { Vec a(nv); a[lam] = -1; T.s.push_back(Con(a, Q(0), ref::LT)); }
        for (int d = 0; d < n; ++d) { Vec a(nv); a[d] = 1; a[offp + d] = -1; a[offz + d] = -1; T.s.push_back(Con(a, Q(0), ref::EQ)); }
        check_equals_esys(op.name, RC, RG, T);
      }
    };
    return true; }
  if (n >= 1 && k < 55) { // affine image / preimage
    bool pre = coin(); int v = rnd(0, n - 1); Linear_Expression e = rand_expr(n); int d = rand_den();
    op.name = pre ? "affine_preimage" : "affine_image"; t << "." << op.name << "(" << str(Variable(v)) << ", " << str(e) << ", " << d << ")"; op.text = t.str();
    op.apply = [=](Polyhedron& A, const Polyhedron&) { if (pre) A.affine_preimage(Variable(v), e, d); else A.affine_image(Variable(v), e, d); };
    op.verify = [=](const Sys& SA, const Gens&, const Sys&, const Gens&, const Sys& RC, const Gens& RG) { Vec ea; Q eb; ref::conv(e, n, ea, eb); check_equals_esys(op.name, RC, RG, ref::def_gen_affine(SA, n, v, 2, ea, eb, Q(d), pre)); };
    return true; }
  if (n >= 1 && k < 63) { // generalized affine image / preimage, variable form
    bool pre = coin(); int v = rnd(0, n - 1); Linear_Expression e = rand_expr(n); int d = rand_den(); int ri = nnc ? rnd(0, 4) : rnd(1, 3);
    op.name = pre ? "generalized_affine_preimage" : "generalized_affine_image"; t << "." << op.name << "(" << str(Variable(v)) << ", " << REL5S[ri] << ", " << str(e) << ", " << d << ")"; op.text = t.str();
    op.apply = [=](Polyhedron& A, const Polyhedron&) { if (pre) A.generalized_affine_preimage(Variable(v), REL5[ri], e, d); else A.generalized_affine_image(Variable(v), REL5[ri], e, d); };
    op.verify = [=](const Sys& SA, const Gens&, const Sys&, const Gens&, const Sys& RC, const Gens& RG) { Vec ea; Q eb; ref::conv(e, n, ea, eb); check_equals_esys(op.name, RC, RG, ref::def_gen_affine(SA, n, v, ri, ea, eb, Q(d), pre)); };
    return true; }
  if (n >= 1 && k < 69) { // generalized affine image / preimage, lhs/rhs form
    bool pre = coin(); Linear_Expression l = rand_expr(n, 3, 50), r = rand_expr(n); int ri = nnc ? rnd(0, 4) : rnd(1, 3);
    op.name = pre ? "generalized_affine_preimage_lr" : "generalized_affine_image_lr"; t << "." << op.name << "(" << str(l) << ", " << REL5S[ri] << ", " << str(r) << ")"; op.text = t.str();
    op.apply = [=](Polyhedron& A, const Polyhedron&) { if (pre) A.generalized_affine_preimage(l, REL5[ri], r); else A.generalized_affine_image(l, REL5[ri], r); };
    op.verify = [=](const Sys& SA, const Gens&, const Sys&, const Gens&, const Sys& RC, const Gens& RG) { Vec la, ra; Q lb, rb; ref::conv(l, n, la, lb); ref::conv(r, n, ra, rb); check_equals_esys(op.name, RC, RG, ref::def_gen_affine_lr(SA, n, la, lb, ri, ra, rb, pre)); };
    return true; }
  if (n >= 1 && k < 76) { // bounded affine image / preimage
    bool pre = coin(); int v = rnd(0, n - 1); Linear_Expression lb = rand_expr(n), ub = rand_expr(n); int d = rand_den();
    op.name = pre ? "bounded_affine_preimage" : "bounded_affine_image"; t << "." << op.name << "(" << str(Variable(v)) << ", " << str(lb) << ", " << str(ub) << ", " << d << ")"; op.text = t.str();
    op.apply = [=](Polyhedron& A, const Polyhedron&) { if (pre) A.bounded_affine_preimage(Variable(v), lb, ub, d); else A.bounded_affine_image(Variable(v), lb, ub, d); };
    op.verify = [=](const Sys& SA, const Gens&, const Sys&, const Gens&, const Sys& RC, const Gens& RG) { Vec la, ua; Q lbb, ubb; ref::conv(lb, n, la, lbb); ref::conv(ub, n, ua, ubb); check_equals_esys(op.name, RC, RG, ref::def_bounded_affine(SA, n, v, la, lbb, ua, ubb, Q(d), pre)); };
    return true; }
  if (n >= 1 && k < 80) { // unconstrain
    bool set = coin(); std::vector<bool> vars(n, false); Variables_Set vs;
    if (set) { for (int i = 0; i < n; ++i) if (coin(40)) { vars[i] = true; vs.insert(Variable(i)); } } else { int v = rnd(0, n - 1); vars[v] = true; vs.insert(Variable(v)); }
    op.name = set ? "unconstrain_set" : "unconstrain"; t << "." << op.name << "(" << str(vs) << ")"; op.text = t.str();
    op.apply = [=](Polyhedron& A, const Polyhedron&) { if (set) A.unconstrain(vs); else A.unconstrain(Variable(*vs.begin())); };
    op.verify = [=](const Sys& SA, const Gens&, const Sys&, const Gens&, const Sys& RC, const Gens& RG) { check_equals_esys(op.name, RC, RG, ref::def_unconstrain(SA, n, vars)); };
    return true; }
  if (k < 84) { op.name = "topological_closure_assign"; op.text = ".topological_closure_assign()";
    op.apply = [](Polyhedron& A, const Polyhedron&) { A.topological_closure_assign(); };
    op.verify = [=](const Sys& SA, const Gens&, const Sys&, const Gens&, const Sys& RC, const Gens& RG) { Sys T = SA; if (ref::feasible(n, SA)) T = ref::closure_of(T); check_equals_esys(op.name, RC, RG, ref::esys_of(T, n)); };
    return true; }
  if (k < 90) { // upper bound if exact
    bool alt = coin(); op.name = alt ? "upper_bound_assign_if_exact" : "poly_hull_assign_if_exact"; op.uses_b = true; op.text = "." + op.name + "(B)";
    std::shared_ptr<int> res(new int(-1));
    op.apply = [=](Polyhedron& A, const Polyhedron& B) { bool r; if (g_nnc) { NNC_Polyhedron& a = static_cast<NNC_Polyhedron&>(A); const NNC_Polyhedron& b = static_cast<const NNC_Polyhedron&>(B); r = alt ? a.upper_bound_assign_if_exact(b) : a.poly_hull_assign_if_exact(b); } else { C_Polyhedron& a = static_cast<C_Polyhedron&>(A); const C_Polyhedron& b = static_cast<const C_Polyhedron&>(B); r = alt ? a.upper_bound_assign_if_exact(b) : a.poly_hull_assign_if_exact(b); } *res = r ? 1 : 0; };
    op.verify = [=](const Sys& SA, const Gens& GA, const Sys& SB, const Gens& GB, const Sys& RC, const Gens& RG) {
      Gens TG = GA; TG.insert(TG.end(), GB.begin(), GB.end());
      std::vector<Sys> V; V.push_back(SA); V.push_back(SB);
      if (*res == 1) {
        // claimed exact: the result must be the hull, and the hull must be covered by A u B
        if (!check_equals_hull(op.name, n, RC, RG, TG)) return;
        std::vector<Sys> U; U.push_back(RC);
        Vec wit; int r = ref::union_included(n, U, V, &wit);
        checked();
        if (r == 0) violation("C02." + op.name + ".true_but_not_exact", "hull point " + show(wit) + " is in neither argument");
        else if (r < 0) hx::inconclusive("union_cap");
      } else {
        // claimed not exact: receiver unchanged, and the hull really is not covered
        if (!sys_equal(n, RC, SA)) { violation("C02." + op.name + ".false_but_changed", "receiver changed although false was returned"); return; }
        bool ok; Sys HC = hull_constraints(n, TG, ok);
        if (!ok) { hx::inconclusive("hull_oracle"); return; }
        std::vector<Sys> U; U.push_back(HC);
        int r = ref::union_included(n, U, V, 0);
        checked();
        if (r == 1) violation("C02." + op.name + ".false_but_exact", "the hull equals the union but false was returned");
        else if (r < 0) hx::inconclusive("union_cap");
      }
    };
    return true; }
  if (k < 95) { op.name = "simplify_using_context_assign"; op.uses_b = true; op.text = ".simplify_using_context_assign(B)";
    std::shared_ptr<int> res(new int(-1));
    op.apply = [=](Polyhedron& A, const Polyhedron& B) { *res = A.simplify_using_context_assign(B) ? 1 : 0; };
    op.verify = [=](const Sys& SA, const Gens&, const Sys& SB, const Gens&, const Sys& RC, const Gens&) {
      checked(); hx::count("op_checks");
      Sys meetP = SA; meetP.insert(meetP.end(), SB.begin(), SB.end());
      Sys meetR = RC; meetR.insert(meetR.end(), SB.begin(), SB.end());
      // triage class: which operand carries equalities, and the dimension bucket
      bool eqA = false, eqB = false; for (size_t i = 0; i < SA.size(); ++i) if (SA[i].rel == ref::EQ) eqA = true; for (size_t i = 0; i < SB.size(); ++i) if (SB[i].rel == ref::EQ) eqB = true;
      std::string cls = std::string(":") + (eqA ? "eq-in-receiver" : "no-eq-in-receiver") + (eqB ? "+eq-in-context" : "") + (n >= 4 ? ",dim>=4" : ",dim<=3");
      bool meet_nonempty = ref::feasible(n, meetP);
      if ((*res == 1) != meet_nonempty) { violation("C02.simplify_using_context_assign.boolean", meet_nonempty ? "returned false although the meet with the context is non-empty" : "returned true although the meet is empty"); return; }
      if (meet_nonempty) {
        if (!sys_equal(n, meetP, meetR)) { violation("C02.simplify_using_context_assign.meet_changed" + cls, "meet with the context differs: receiver " + show(SA) + " context " + show(SB) + " result " + show(RC)); return; }
        if (!sys_included(n, SA, RC)) violation("C02.simplify_using_context_assign.not_enlarging" + cls, "result does not contain the receiver: receiver " + show(SA) + " context " + show(SB) + " result " + show(RC));
      } else {
        // documented: when the meet is empty the result is a polyhedron disjoint from the context
        if (ref::feasible(n, meetR)) violation("C02.simplify_using_context_assign.not_disjoint", "meet empty but result intersects the context");
      }
    };
    return true; }
  return false;
}

// ---------- queries (C01) ----------
static void run_queries(Polyhedron& A, const Polyhedron& B, int n, const Sys& SA, const Gens& GA, const Sys& SB, const std::string& pre) {
  const bool nnc = g_nnc;
  bool ne = ref::feasible(n, SA);
  int which = rnd(0, 11);
  switch (which) {
  case 0: {
    tr(pre + ".preds()"); hx::count("q.preds");
    bool e = A.is_empty(); checked();
    if (e != !ne) violation("C01.q.is_empty", e ? "PPL empty, ref non-empty" : "PPL non-empty, ref empty");
    bool bd = A.is_bounded(); bool rbd = true;
    if (ne) for (int i = 0; i < n && rbd; ++i) for (int s = -1; s <= 1; s += 2) { Vec a(n); a[i] = s; ref::SupResult r = ref::supremum(n, SA, a); if (!r.bounded) rbd = false; }
    checked(); if (bd != rbd) violation("C01.q.is_bounded", bd ? "PPL bounded, ref unbounded" : "PPL unbounded, ref bounded");
    bool tc = A.is_topologically_closed(); Sys cl = ne ? ref::closure_of(SA) : SA;
    bool rtc = sys_included(n, cl, SA);
    checked(); if (tc != rtc) violation("C01.q.is_topologically_closed", tc ? "PPL closed, ref not" : "PPL not closed, ref closed");
    bool un = A.is_universe(); ESys U; U.n = n; bool run = ref::esys_in_cons(U, SA, 0, 0);
    checked(); if (un != run) violation("C01.q.is_universe", un ? "PPL universe, ref not" : "PPL not universe, ref universe");
    break; }
  case 1: {
    tr(pre + ".binary_preds(B)"); hx::count("q.binary");
    bool c = A.contains(B); bool rc = sys_included(n, SB, SA);
    checked(); if (c != rc) violation("C01.q.contains", c ? "PPL true, ref false" : "PPL false, ref true");
    bool rcb = sys_included(n, SA, SB);
    bool sc = A.strictly_contains(B);
    checked(); if (sc != (rc && !rcb)) violation("C01.q.strictly_contains", sc ? "PPL true, ref false" : "PPL false, ref true");
    bool dj = A.is_disjoint_from(B); Sys T = SA; T.insert(T.end(), SB.begin(), SB.end()); bool rd = !ref::feasible(n, T);
    checked(); if (dj != rd) violation("C01.q.is_disjoint_from", dj ? "PPL true, ref false" : "PPL false, ref true");
    bool eq = ppl_equal(A, B);
    checked(); if (eq != (rc && rcb)) violation("C01.q.equals", eq ? "PPL true, ref false" : "PPL false, ref true");
    break; }
  case 2: case 3: {
    Constraint c = rand_con(n, true);
    tr(pre + ".relation_with(" + str(c) + ")"); hx::count("q.relation_with_c");
    Poly_Con_Relation r = A.relation_with(c);
    Con rc = ref::conv(c, n);
    Sys T = SA; T.push_back(rc);
    bool nonempty_meet = ref::feasible(n, T);
    bool included = sys_included(n, SA, Sys(1, rc));
    Con hyp = rc; hyp.rel = ref::EQ;
    bool saturates = sys_included(n, SA, Sys(1, hyp));
    bool b_dis = r.implies(Poly_Con_Relation::is_disjoint()), b_inc = r.implies(Poly_Con_Relation::is_included()), b_sat = r.implies(Poly_Con_Relation::saturates()), b_str = r.implies(Poly_Con_Relation::strictly_intersects());
    checked();
    std::string d = str(c) + " -> " + str(r);
    if (b_dis != !nonempty_meet) violation("C01.q.relation_with_c.is_disjoint", d);
    else if (b_inc != included) violation("C01.q.relation_with_c.is_included", d);
    else if (b_sat != saturates) violation("C01.q.relation_with_c.saturates", d);
    else if (b_str != (nonempty_meet && !included)) violation("C01.q.relation_with_c.strictly_intersects", d);
    break; }
  case 4: {
    Congruence cg = rand_cg(n, 4);
    tr(pre + ".relation_with(" + str(cg) + ")"); hx::count("q.relation_with_cg");
    Poly_Con_Relation r = A.relation_with(cg);
    if (cg.is_equality()) return;   // delegated to relation_with(Constraint)
    Vec ea(n); for (int d = 0; d < n && d < (int) cg.space_dimension(); ++d) ea[d] = ref::toQ(cg.coefficient(Variable(d)));
    Q eb = ref::toQ(cg.inhomogeneous_term()); Q m = ref::toQ(cg.modulus());
    bool included, disjoint;
    if (!ne) { included = true; disjoint = true; }
    else {
      Vec nea(n); for (int i = 0; i < n; ++i) nea[i] = -ea[i];
      ref::SupResult hi = ref::supremum(n, SA, ea), lo = ref::supremum(n, SA, nea);
      if (hi.bounded && lo.bounded && hi.sup == -lo.sup) { Q val = hi.sup + eb; Q kq = val / m; included = (kq.get_den() == 1); disjoint = !included; }
      else {
        included = false; bool found;
        if (!lo.bounded || !hi.bounded) found = true;
        else {
          Q l = -lo.sup + eb, u = hi.sup + eb; Q kl = l / m; mpz_class kc; mpz_cdiv_q(kc.get_mpz_t(), kl.get_num_mpz_t(), kl.get_den_mpz_t());
          Q cand = Q(kc) * m;
          if (cand == l && !lo.attained) cand += m;
          found = (cand < u) || (cand == u && hi.attained);
        }
        disjoint = !found;
      }
    }
    checked();
    bool b_dis = r.implies(Poly_Con_Relation::is_disjoint()), b_inc = r.implies(Poly_Con_Relation::is_included()), b_str = r.implies(Poly_Con_Relation::strictly_intersects());
    std::string d = str(cg) + " -> " + str(r);
    if (b_dis != disjoint) violation("C01.q.relation_with_cg.is_disjoint", d);
    else if (b_inc != included) violation("C01.q.relation_with_cg.is_included", d);
    else if (b_str != (!disjoint && !included)) violation("C01.q.relation_with_cg.strictly_intersects", d);
    break; }
  case 5: {
    Generator g = rand_gen(n, nnc, false);
    tr(pre + ".relation_with(" + str(g) + ")"); hx::count("q.relation_with_g");
    Poly_Gen_Relation r = A.relation_with(g);
    Gen rg = ref::conv(g, n); bool subs;
    if (!ne) subs = false;
    else if (rg.kind == Gen::POINT) subs = ref::sat(SA, rg.v);
    else if (rg.kind == Gen::CLOSURE_POINT) subs = ref::sat(ref::closure_of(SA), rg.v);
    else { subs = true; for (size_t i = 0; i < SA.size() && subs; ++i) { Q v = ref::dot(SA[i].a, rg.v); if (rg.kind == Gen::LINE || SA[i].rel == ref::EQ) subs = (v == 0); else subs = (v <= 0); } }
    checked();
    if (r.implies(Poly_Gen_Relation::subsumes()) != subs) violation("C01.q.relation_with_g", str(g) + (subs ? " ref: subsumed, PPL: nothing" : " ref: not subsumed, PPL: subsumes"));
    break; }
  case 6: case 7: {
    Linear_Expression e = rand_expr(n, 3, 30); bool mx = (which == 6);
    tr(pre + (mx ? ".maximize(" : ".minimize(") + str(e) + ")"); hx::count("q.max_min");
    Coefficient num, den; bool att; Generator g(point());
    bool ok = mx ? A.maximize(e, num, den, att, g) : A.minimize(e, num, den, att, g);
    Coefficient num2, den2; bool att2; bool ok2 = mx ? A.maximize(e, num2, den2, att2) : A.minimize(e, num2, den2, att2);
    bool bf = mx ? A.bounds_from_above(e) : A.bounds_from_below(e);
    Vec ea; Q eb; ref::conv(e, n, ea, eb); if (!mx) for (size_t i = 0; i < ea.size(); ++i) ea[i] = -ea[i];
    ref::SupResult s = ref::supremum(n, SA, ea);
    checked(3);
    // bounds_from_*: true for the empty set (vacuous), documented as "bounded from above in *this"
    if (ne && bf != s.bounded) { violation("C01.q.bounds_from", bf ? "PPL bounded, ref not" : "PPL unbounded, ref bounded"); break; }
    if (ok != (s.nonempty && s.bounded)) { violation("C01.q.max_min.status", ok ? "PPL: optimum exists, ref: empty or unbounded" : "PPL: no optimum, ref: bounded and non-empty"); break; }
    if (ok2 != ok) { violation("C01.q.max_min.overloads_disagree", "status"); break; }
    if (!ok) break;
    Q val = ref::toQ(num) / ref::toQ(den); Q rv = mx ? Q(s.sup + eb) : Q(-s.sup + eb);
    if (val != rv) { std::ostringstream o; o << "PPL " << val << " ref " << rv; violation("C01.q.max_min.value", o.str()); break; }
    if (ref::toQ(num2) / ref::toQ(den2) != val || att2 != att) { violation("C01.q.max_min.overloads_disagree", "value/flag"); break; }
    if (att != s.attained) { violation("C01.q.max_min.attained", att ? "PPL says attained, ref says sup only" : "PPL says sup only, ref attained"); break; }
    Gen rg = ref::conv(g, n); Vec oe; Q ob; ref::conv(e, n, oe, ob);
    if (ref::dot(oe, rg.v) + ob != val) { violation("C01.q.max_min.witness_value", "witness " + str(g) + " does not evaluate to the optimum"); break; }
    Sys cl = att ? SA : ref::closure_of(SA);
    if (!ref::sat(cl, rg.v)) { violation("C01.q.max_min.witness_member", "witness " + str(g) + " not in the polyhedron (closure when not attained)"); break; }
    if (att != g.is_point()) violation("C01.q.max_min.witness_kind", "witness kind inconsistent with the attained flag");
    break; }
  case 8: {
    tr(pre + ".affine_dimension()"); hx::count("q.affine_dimension");
    int ad = A.affine_dimension(); int rad = 0;
    if (ne) {
      // implicit equalities: constraint rows a with sup(a.x) == b and inf == b; rank of those
      std::vector<Vec> eqs;
      for (size_t i = 0; i < SA.size(); ++i) {
        Vec a = SA[i].a; a.resize(n); bool z = true; for (int d = 0; d < n; ++d) if (a[d] != 0) z = false; if (z) continue;
        if (SA[i].rel == ref::EQ) { eqs.push_back(a); continue; }
        Vec na(n); for (int d = 0; d < n; ++d) na[d] = -a[d];
        ref::SupResult lo = ref::supremum(n, SA, na);
        if (lo.bounded && -lo.sup == SA[i].b) eqs.push_back(a);   // a.x >= b on the set and a.x <= b  => equality (closure sense)
      }
      rad = n - ref::rank_of(eqs, n);
    }
    checked(); if (ad != rad) { std::ostringstream o; o << "PPL " << ad << " ref " << rad; violation("C01.q.affine_dimension", o.str()); }
    bool disc = A.is_discrete(); checked(); if (disc != (rad == 0)) violation("C01.q.is_discrete", disc ? "PPL true" : "PPL false");
    break; }
  case 9: {
    if (n == 0) return;
    int v = rnd(0, n - 1); tr(pre + ".constrains(" + str(Variable(v)) + ")"); hx::count("q.constrains");
    bool c = A.constrains(Variable(v));
    if (!ne) return;   // the documentation is silent about empty polyhedra
    bool rc = false; for (size_t i = 0; i < SA.size(); ++i) if ((int) SA[i].a.size() > v && SA[i].a[v] != 0) rc = true;
    checked(); if (c != rc) violation("C01.q.constrains", c ? "PPL true, ref false" : "PPL false, ref true");
    break; }
  case 10: {
    Linear_Expression e = rand_expr(n, 3, 30); tr(pre + ".frequency(" + str(e) + ")"); hx::count("q.frequency");
    Coefficient fn, fd, vn, vd; bool f = A.frequency(e, fn, fd, vn, vd);
    Vec ea; Q eb; ref::conv(e, n, ea, eb); Vec nea(n); for (int i = 0; i < n; ++i) nea[i] = -ea[i];
    bool rconst = false; Q val;
    if (ne) { ref::SupResult hi = ref::supremum(n, SA, ea), lo = ref::supremum(n, SA, nea); if (hi.bounded && lo.bounded && hi.sup == -lo.sup) { rconst = true; val = hi.sup + eb; } }
    checked();
    if (f != rconst) { violation("C01.q.frequency.status", f ? "PPL: constant, ref: not" : "PPL: not constant, ref: constant"); break; }
    if (f && (fn != 0 || ref::toQ(vn) / ref::toQ(vd) != val)) violation("C01.q.frequency.value", "wrong frequency/value");
    break; }
  case 11: {
    tr(pre + ".contains_integer_point()"); hx::count("q.contains_integer_point");
    bool c = A.contains_integer_point();
    std::vector<Vec> pts;
    if (!int_points(n, SA, pts)) { if (!ne) { checked(); if (c) violation("C17.contains_integer_point", "true on an empty polyhedron"); } else hx::inconclusive("int_window"); return; }
    checked(); if (c != !pts.empty()) violation("C17.contains_integer_point", c ? "PPL true but no integer point exists" : "PPL false but " + show(pts[0]) + " is an integer point");
    break; }
  }
  (void) GA;
}

// ---------- twins: the same set built another way must be indistinguishable ----------
static void twin_check(const Polyhedron& A, int n, const Sys& SA, const Gens& GA, const std::string& pre) {
  const bool nnc = g_nnc;
  int how = rnd(0, 3);
  Holder T(mk(n, UNIVERSE));
  Holder Ac(cp(A));
  if (how == 0) { // from generators
    Holder g(cp(A)); Generator_System gs = (*g).generators();
    if (gs.empty()) assign(*T, *Holder(mk(n, EMPTY))); else { Holder e(mk(n, EMPTY)); (*e).add_generators(gs); assign(*T, *e); }
    tr(pre + ".twin(from generators)");
  } else if (how == 1) { // shuffled, scaled, duplicated constraints
    Holder g(cp(A)); Constraint_System cs = (*g).constraints(); std::vector<Constraint> v(cs.begin(), cs.end());
    std::shuffle(v.begin(), v.end(), hx::rng());
    for (size_t i = 0; i < v.size(); ++i) { (*T).add_constraint(v[i]); if (coin(30)) { Linear_Expression e(v[i].expression()); e *= rnd(2, 3); if (v[i].is_equality()) (*T).add_constraint(e == 0); else if (v[i].is_strict_inequality()) (*T).add_constraint(e > 0); else (*T).add_constraint(e >= 0); } }
    tr(pre + ".twin(shuffled constraints)");
  } else if (how == 2) { // minimized constraints
    Holder g(cp(A)); (*T).add_constraints((*g).minimized_constraints()); (void) (*T).minimized_generators();
    tr(pre + ".twin(minimized)");
  } else { // dimension round trip
    assign(*T, A); (*T).add_space_dimensions_and_embed(2); (*T).remove_higher_space_dimensions(n);
    tr(pre + ".twin(dimension round trip)");
  }
  hx::count("twins"); checked();
  Sys ST = obs_cons(*T);
  if (!sys_equal(n, SA, ST)) { violation("C01.twin.construction_changed_value." + std::to_string(how), "twin denotes a different set: " + show(ST) + " vs " + show(SA)); return; }
  // every answer must coincide
  std::ostringstream a, b;
  Polyhedron& X = *Ac; Polyhedron& Y = *T;
  a << X.is_empty() << X.is_universe() << X.is_bounded() << X.is_topologically_closed() << X.affine_dimension() << X.is_discrete() << X.contains(Y) << X.strictly_contains(Y) << X.is_disjoint_from(Y) << ppl_equal(X, Y);
  b << Y.is_empty() << Y.is_universe() << Y.is_bounded() << Y.is_topologically_closed() << Y.affine_dimension() << Y.is_discrete() << Y.contains(X) << Y.strictly_contains(X) << Y.is_disjoint_from(X) << ppl_equal(Y, X);
  for (int i = 0; i < n; ++i) if (ref::feasible(n, SA)) { a << X.constrains(Variable(i)); b << Y.constrains(Variable(i)); }
  for (int k = 0; k < 3; ++k) {
    Linear_Expression e = rand_expr(n, 3, 30); Coefficient n1, d1, n2, d2; bool m1, m2;
    bool o1 = X.maximize(e, n1, d1, m1), o2 = Y.maximize(e, n2, d2, m2);
    a << o1; b << o2; if (o1 && o2) { a << ref::toQ(n1) / ref::toQ(d1) << m1; b << ref::toQ(n2) / ref::toQ(d2) << m2; }
    Constraint c = rand_con(n, nnc); a << str(X.relation_with(c)); b << str(Y.relation_with(c));
    Generator g = rand_gen(n, nnc, false); a << str(X.relation_with(g)); b << str(Y.relation_with(g));
  }
  if (!nnc) { // the minimal forms of a C polyhedron have a unique size
    a << " " << std::distance(X.minimized_constraints().begin(), X.minimized_constraints().end()) << " " << std::distance(X.minimized_generators().begin(), X.minimized_generators().end());
    b << " " << std::distance(Y.minimized_constraints().begin(), Y.minimized_constraints().end()) << " " << std::distance(Y.minimized_generators().begin(), Y.minimized_generators().end());
  }
  checked();
  if (a.str() != b.str()) violation("C01.twin.answers_differ." + std::to_string(how), "original " + a.str() + " twin " + b.str());
  (void) GA;
}

// ---------- C15: ascii round trip ----------
static Polyhedron* ascii_roundtrip(const Polyhedron& A, int n, const std::string& pre) {
  hx::count("ascii_roundtrips"); checked();
  std::string d1 = dump(A);
  std::istringstream in(d1);
  Polyhedron* L = mk(0, UNIVERSE);
  bool okl = L->ascii_load(in);
  std::string st = status_line(A);
  hx::distinct("ascii|" + st + "|" + std::to_string(n));
  if (!okl) { violation("C15.poly.load_failed", st); del(L); return 0; }
  if (!L->OK()) { violation("C15.poly.loaded_not_OK", st); del(L); return 0; }
  std::string d2 = dump(*L);
  if (d2 != d1) { violation("C15.poly.redump_differs", st); del(L); return 0; }
  Sys AC = obs_cons(A), LC = obs_cons(*L);
  if (!sys_equal(n, AC, LC)) { violation("C15.poly.value_differs", st); del(L); return 0; }
  tr(pre + ".ascii_roundtrip[" + st + "]");
  return L;
}

// ---------- dimension-changing operators (on a scratch copy) ----------
static void dims_op(const Polyhedron& A, const Polyhedron& B, int n, const Sys& SA, const Gens& GA, const Sys& SB, const std::string& pre) {
  Holder T(cp(A)); Polyhedron& Tm = *T;
  int which = rnd(0, 7);
  Sys RC; Gens RG; std::ostringstream t; t << pre;
  if (which == 0) {
    int m = rnd(0, 2); bool proj = coin();
    t << (proj ? ".tmp.add_space_dimensions_and_project(" : ".tmp.add_space_dimensions_and_embed(") << m << ")"; tr(t.str()); hx::count(proj ? "op.add_dims_project" : "op.add_dims_embed");
    if (proj) Tm.add_space_dimensions_and_project(m); else Tm.add_space_dimensions_and_embed(m);
    if (!check_dd(Tm, "add_dims", RC, RG)) return;
    check_equals_esys(proj ? "add_space_dimensions_and_project" : "add_space_dimensions_and_embed", RC, RG, ref::def_add_dims(SA, n, m, proj));
  } else if (which == 1) {
    std::vector<int> keep; Variables_Set vs; for (int i = 0; i < n; ++i) { if (coin(40)) vs.insert(Variable(i)); else keep.push_back(i); }
    t << ".tmp.remove_space_dimensions(" << str(vs) << ")"; tr(t.str()); hx::count("op.remove_space_dimensions");
    Tm.remove_space_dimensions(vs);
    if ((int) Tm.space_dimension() != (int) keep.size()) { violation("C02.remove_space_dimensions.dimension", "wrong space dimension"); return; }
    if (!check_dd(Tm, "remove_dims", RC, RG)) return;
    check_equals_esys("remove_space_dimensions", RC, RG, ref::def_project_onto(SA, n, keep));
  } else if (which == 2) {
    int k = rnd(0, n); std::vector<int> keep; for (int i = 0; i < k; ++i) keep.push_back(i);
    t << ".tmp.remove_higher_space_dimensions(" << k << ")"; tr(t.str()); hx::count("op.remove_higher_space_dimensions");
    Tm.remove_higher_space_dimensions(k);
    if (!check_dd(Tm, "remove_higher", RC, RG)) return;
    check_equals_esys("remove_higher_space_dimensions", RC, RG, ref::def_project_onto(SA, n, keep));
  } else if (which == 3 && n >= 1) {
    int i = rnd(0, n - 1), m = rnd(0, 2);
    t << ".tmp.expand_space_dimension(" << str(Variable(i)) << "," << m << ")"; tr(t.str()); hx::count("op.expand_space_dimension");
    Tm.expand_space_dimension(Variable(i), m);
    if (!check_dd(Tm, "expand", RC, RG)) return;
    check_equals_esys("expand_space_dimension", RC, RG, ref::def_expand(SA, n, i, m));
  } else if (which == 4 && n >= 2) {
    int i = rnd(0, n - 1); std::vector<int> J; Variables_Set vs; for (int j = 0; j < n; ++j) if (j != i && coin(60)) { J.push_back(j); vs.insert(Variable(j)); }
    t << ".tmp.fold_space_dimensions(" << str(vs) << "," << str(Variable(i)) << ")"; tr(t.str()); hx::count("op.fold_space_dimensions");
    Tm.fold_space_dimensions(vs, Variable(i)); int k = n - J.size();
    if (!check_dd(Tm, "fold", RC, RG)) return;
    std::vector<int> keepidx; for (int j = 0; j < n; ++j) if (std::find(J.begin(), J.end(), j) == J.end()) keepidx.push_back(j);
    Gens TG; std::vector<int> srcs = J; srcs.push_back(i);
    for (size_t s = 0; s < srcs.size(); ++s) for (size_t gi = 0; gi < GA.size(); ++gi) { const Gen& g = GA[gi]; Gen h; h.kind = g.kind; h.v.assign(k, Q(0)); for (int j = 0; j < k; ++j) h.v[j] = (keepidx[j] == i) ? g.v[srcs[s]] : g.v[keepidx[j]]; bool z = true; for (int j = 0; j < k; ++j) if (h.v[j] != 0) z = false; if ((h.kind == Gen::RAY || h.kind == Gen::LINE) && z) continue; TG.push_back(h); }
    check_equals_hull("fold_space_dimensions", k, RC, RG, TG);
  } else if (which == 5) {
    t << ".tmp.concatenate_assign(B)"; tr(t.str()); hx::count("op.concatenate_assign");
    Tm.concatenate_assign(B);
    if (!check_dd(Tm, "concatenate", RC, RG)) return;
    check_equals_esys("concatenate_assign", RC, RG, ref::def_concat(SA, n, SB, n));
  } else if (which == 6 && n >= 1) {
    Partial_Function pf; std::vector<int> img(n, -1); std::vector<int> order; for (int j = 0; j < n; ++j) order.push_back(j); std::shuffle(order.begin(), order.end(), hx::rng());
    int k = rnd(0, n); for (int j = 0; j < k; ++j) img[order[j]] = j;
    std::ostringstream ms; for (int j = 0; j < n; ++j) if (img[j] >= 0) { pf.insert(j, img[j]); ms << j << "->" << img[j] << " "; }
    t << ".tmp.map_space_dimensions(" << ms.str() << ")"; tr(t.str()); hx::count("op.map_space_dimensions");
    Tm.map_space_dimensions(pf);
    if (!check_dd(Tm, "map_dims", RC, RG)) return;
    check_equals_esys("map_space_dimensions", RC, RG, ref::def_map_dims(SA, n, img, k));
  } else if (which == 7) { // conversion between the two topologies
    tr(pre + ".tmp.topology_conversion"); hx::count("op.topology_conversion");
    if (g_nnc) { C_Polyhedron c(static_cast<const NNC_Polyhedron&>(A)); Sys cc = ref::conv(C_Polyhedron(c).constraints(), n); Gens cg = ref::conv(C_Polyhedron(c).generators(), n);
      std::string why; Vec wit; checked();
      if (!ref::gens_satisfy(n, cg, cc, &why) || ref::cons_in_hull(n, cc, cg, &wit, &why) == 0) { violation("C01.dd.converted@C_from_NNC", why); return; }
      Sys T = ref::feasible(n, SA) ? ref::closure_of(SA) : SA; check_equals_esys("C_Polyhedron(NNC)", cc, cg, ref::esys_of(T, n)); }
    else { NNC_Polyhedron c(static_cast<const C_Polyhedron&>(A)); Sys cc = ref::conv(NNC_Polyhedron(c).constraints(), n); Gens cg = ref::conv(NNC_Polyhedron(c).generators(), n);
      std::string why; Vec wit; checked();
      if (!ref::gens_satisfy(n, cg, cc, &why) || ref::cons_in_hull(n, cc, cg, &wit, &why) == 0) { violation("C01.dd.converted@NNC_from_C", why); return; }
      check_equals_esys("NNC_Polyhedron(C)", cc, cg, ref::esys_of(SA, n)); }
  }
}

// ---------- C17 on polyhedra: drop_some_non_integer_points / wrap_assign ----------
static void integer_ops(const Polyhedron& A, int n, const Sys& SA, const std::string& pre) {
  if (n == 0) return;
  std::vector<Vec> pts;
  bool enumerated = int_points(n, SA, pts, 3000);
  Holder T(cp(A)); Polyhedron& Tm = *T;
  if (coin(45)) {
    tr(pre + ".contains_integer_point()"); hx::count("q.contains_integer_point");
    bool c = A.contains_integer_point();
    if (!enumerated) { if (!ref::feasible(n, SA)) { checked(); if (c) violation("C17.contains_integer_point", "true on an empty polyhedron"); } else hx::inconclusive("int_window"); return; }
    checked(); if (c != !pts.empty()) violation("C17.contains_integer_point", c ? "PPL true but no integer point exists" : "PPL false but " + show(pts[0]) + " is an integer point");
    hx::distinct("cip|" + status_line(A) + "|" + (pts.empty() ? "none" : "some"));
    return;
  }
  {
    Variables_Set vs; bool all = coin(); if (!all) { for (int i = 0; i < n; ++i) if (coin()) vs.insert(Variable(i)); }
    if (!all) { // points integral on the designated dimensions only: the others range over thirds / halves
      std::vector<int> den(n, 1); int od = coin() ? 2 : 3; for (int i = 0; i < n; ++i) if (vs.find(i) == vs.end()) den[i] = od;
      enumerated = int_points(n, SA, pts, 6000, &den);
    }
    Complexity_Class cc = (Complexity_Class) rnd(0, 2);
    tr(pre + ".tmp.drop_some_non_integer_points(" + (all ? std::string("all") : str(vs)) + ")"); hx::count("op.drop_some_non_integer_points");
    if (all) Tm.drop_some_non_integer_points(cc); else Tm.drop_some_non_integer_points(vs, cc);
    Sys RC; Gens RG; if (!check_dd(Tm, "drop_non_integer", RC, RG)) return;
    checked();
    if (!sys_included(n, RC, SA)) { violation("C17.poly.drop_some_non_integer_points.not_subset", "result not contained in the argument"); return; }
    if (enumerated) for (size_t i = 0; i < pts.size(); ++i) if (!ref::sat(RC, pts[i])) { violation("C17.poly.drop_some_non_integer_points.lost_integer_point", "point " + show(pts[i]) + " (integral on the designated dimensions) dropped; result " + show(RC)); return; }
    // points integral only on the designated dimensions: sample from vertices is not possible in general; integral-everywhere points suffice for `all`
    hx::count("int_points_checked", pts.size());
    return;
  }
}

static void run_case(uint64_t) {
  const std::string profile = hx::opt().profile;
  bool nnc = coin(); g_nnc = nnc;
  int dk = rnd(0, 99); int n = dk < 6 ? 0 : dk < 30 ? 1 : dk < 70 ? 2 : 3;
  if (g_maxdim >= 4 && dk >= 90) n = 4;
  const int NP = 3;
  std::vector<Polyhedron*> pool(NP, (Polyhedron*) 0), twin(NP, (Polyhedron*) 0);
  struct Cleanup { std::vector<Polyhedron*>& a; std::vector<Polyhedron*>& b; ~Cleanup() { for (size_t i = 0; i < a.size(); ++i) { del(a[i]); del(b[i]); } } } cleanup = { pool, twin };
  {
    std::ostringstream o; o << (nnc ? "NNC" : "C") << " n=" << n << " init:";
    for (int i = 0; i < NP; ++i) {
      Polyhedron* p; int how = rnd(0, 9);
      if (how < 5) { p = mk(n, UNIVERSE); int k = rnd(0, 4); for (int j = 0; j < k; ++j) p->add_constraint(rand_con(n, nnc)); }
      else if (how < 9) { p = mk(n, EMPTY); int k = rnd(1, 4); p->add_generator(rand_gen(n, nnc, true)); for (int j = 1; j < k; ++j) p->add_generator(rand_gen(n, nnc, false)); }
      else { p = mk(n, coin() ? EMPTY : UNIVERSE); }
      pool[i] = p;
      Holder c(cp(*p)); o << " #" << i << "={" << str((*c).constraints()) << "}";
    }
    tr(o.str());
  }
  int steps = rnd(4, 12);
  for (int stp = 0; stp < steps && !hx::st().case_tainted; ++stp) {
    hx::count("steps");
    int ai = rnd(0, NP - 1), bi = rnd(0, NP - 1);
    if (profile == "alias" && coin(35)) bi = ai;
    Polyhedron& A = *pool[ai]; Polyhedron& B = *pool[bi];
    std::string stl = status_line(A);
    hx::count("status." + stl);
    // shadows of every pool object (bystander check) + DD verification of the two operands
    std::vector<Sys> S(NP); std::vector<Gens> G(NP);
    for (int i = 0; i < NP; ++i) { if (i == ai || i == bi) { if (!check_dd(*pool[i], "pre", S[i], G[i])) return; } else S[i] = obs_cons(*pool[i]); }
    const Sys& SA = S[ai]; const Gens& GA = G[ai]; const Sys& SB = S[bi]; const Gens& GB = G[bi];
    std::string cls = shape_class(n, SA);
    std::ostringstream pre; pre << " | #" << ai;
    int receiver = ai;   // object allowed to change in this step (-1: none)
    try {
      Weight_Guard wg(200000000ULL);
      struct Note { Weight_Guard& g; ~Note() { note_weight("step", g.used()); } } note = { wg };
      int kind = rnd(0, 99);
      int w_mut = 55, w_query = 20, w_copy = 6, w_obs = 5, w_twin = 4, w_ascii = 4, w_dims = 6;
      if (profile == "dd") { w_mut = 35; w_query = 30; w_obs = 10; w_twin = 10; w_ascii = 3; w_dims = 6; w_copy = 6; }
      else if (profile == "alias") { w_mut = 50; w_copy = 25; w_query = 8; w_obs = 5; w_twin = 2; w_ascii = 4; w_dims = 6; }
      else if (profile == "ascii") { w_mut = 50; w_ascii = 25; w_query = 8; w_obs = 7; w_copy = 5; w_twin = 1; w_dims = 4; }
      else if (profile == "wrap") { w_mut = 30; w_query = 0; w_copy = 3; w_obs = 3; w_twin = 0; w_ascii = 0; w_dims = 0; }
      if (kind < w_mut) {
        Op op; int tries = 0; while (!make_op(op, n, cls == "empty", profile) && ++tries < 20) op = Op();
        if (tries >= 20) continue;
        std::string text = op.text; size_t pb = text.find("(B)"); if (pb != std::string::npos) text.replace(pb, 3, "(#" + std::to_string(bi) + ")");
        tr(pre.str() + text); hx::count("op." + op.name);
        hx::distinct("op|" + op.name + "|" + stl + "|" + cls + (op.uses_b ? "|" + shape_class(n, SB) + (ai == bi ? "|alias" : "") : ""));
        // alias differential: x.op(x) must equal x'.op(copy)
        Polyhedron* X = 0; Polyhedron* Y = 0;
        if (op.uses_b && ai == bi) { X = cp(A); Y = cp(A); }
        Holder hX(X), hY(Y);
        op.apply(A, B);
        Sys RC; Gens RG; if (!check_dd(A, op.name, RC, RG)) return;
        if (X) {
          op.apply(*X, *Y); checked(); hx::count("alias_checks");
          Sys XC = obs_cons(*X);
          if (!sys_equal(n, RC, XC)) { violation("C13.alias." + op.name, "x.op(x) gives " + show(RC) + " but x.op(copy of x) gives " + show(XC)); return; }
        }
        op.verify(SA, GA, SB, GB, RC, RG);
        // lock-step twin loaded from ascii (C15): same operation, same answers
        if (twin[ai] && !hx::st().case_tainted) {
          const Polyhedron& argB = (bi == ai) ? *twin[ai] : B;
          op.apply(*twin[ai], argB); checked(); hx::count("lockstep_checks");
          Sys LC = obs_cons(*twin[ai]);
          if (!sys_equal(n, RC, LC)) { violation("C15.poly.lockstep_diverged." + op.name, "loaded twin gives " + show(LC) + " original " + show(RC)); return; }
          if (dump(*twin[ai]) != dump(A)) hx::count("lockstep_text_diverged");
        }
      }
      else if ((kind -= w_mut) < w_query) { receiver = -1; run_queries(A, B, n, SA, GA, SB, pre.str()); hx::distinct("query|" + stl + "|" + cls); }
      else if ((kind -= w_query) < w_copy) {
        int how = rnd(0, 5);
        if (how == 0) { tr(pre.str() + " = copy(#" + std::to_string(bi) + ")"); hx::count("op.copy_construct"); if (ai != bi) { del(pool[ai]); pool[ai] = cp(B); del(twin[ai]); twin[ai] = 0; Sys R = obs_cons(*pool[ai]); checked(); if (!sys_equal(n, R, SB)) violation("C13.copy_differs", "copy constructed object differs from its source"); } }
        else if (how == 1) { tr(pre.str() + " = #" + std::to_string(bi)); hx::count("op.assign"); assign(A, B); del(twin[ai]); twin[ai] = 0; Sys R = obs_cons(A); checked(); if (!sys_equal(n, R, SB)) violation(ai == bi ? "C13.self_assign" : "C13.assign_differs", "assignment result differs from the source"); }
        else if (how == 2) { tr(pre.str() + ".m_swap(#" + std::to_string(bi) + ")"); hx::count("op.m_swap"); A.m_swap(B); std::swap(twin[ai], twin[bi]); Sys RA = obs_cons(A), RB = obs_cons(B); checked(); if (!sys_equal(n, RA, SB) || !sys_equal(n, RB, SA)) violation(ai == bi ? "C13.self_swap" : "C13.swap_differs", "m_swap did not exchange the values"); receiver = -2; }
        else if (how == 3) { tr(pre.str() + ".swap(#" + std::to_string(bi) + ")"); hx::count("op.swap"); using std::swap; if (nnc) swap(static_cast<NNC_Polyhedron&>(A), static_cast<NNC_Polyhedron&>(B)); else swap(static_cast<C_Polyhedron&>(A), static_cast<C_Polyhedron&>(B)); std::swap(twin[ai], twin[bi]); Sys RA = obs_cons(A), RB = obs_cons(B); checked(); if (!sys_equal(n, RA, SB) || !sys_equal(n, RB, SA)) violation(ai == bi ? "C13.self_swap" : "C13.swap_differs", "swap did not exchange the values"); receiver = -2; }
        else if (how == 4) { // copy, mutate the copy, original must not move (checked by the bystander test on `A`)
          tr(pre.str() + ".copy_then_mutate_copy"); hx::count("op.copy_then_mutate");
          Holder c(cp(A)); (*c).add_constraint(rand_con(n, nnc)); if (n > 0) (*c).affine_image(Variable(0), rand_expr(n)); (void) (*c).minimized_generators(); receiver = -1; }
        else { // constructors from systems
          tr(pre.str() + ".rebuild_from_systems"); hx::count("op.construct_from_systems");
          Holder c(cp(A)); Polyhedron* R;
          if (coin()) { Constraint_System cs = (*c).constraints(); R = nnc ? (Polyhedron*) new NNC_Polyhedron(cs) : (Polyhedron*) new C_Polyhedron(cs); if ((int) R->space_dimension() < n) R->add_space_dimensions_and_embed(n - R->space_dimension()); }
          else { Generator_System gs = (*c).generators(); if (gs.empty()) R = mk(n, EMPTY); else { R = nnc ? (Polyhedron*) new NNC_Polyhedron(gs) : (Polyhedron*) new C_Polyhedron(gs); if ((int) R->space_dimension() < n) R->add_space_dimensions_and_project(n - R->space_dimension()); } }
          Holder hr(R); Sys RCs = obs_cons(*R); checked(); if (!sys_equal(n, RCs, SA)) violation("C02.constructor_from_system", "polyhedron rebuilt from its own description differs: " + show(RCs) + " vs " + show(SA));
          receiver = -1; }
      }
      else if ((kind -= w_copy) < w_obs) {
        int k = rnd(0, 5); const char* nm[6] = { "minimized_constraints", "minimized_generators", "constraints", "generators", "congruences", "hash/memory" };
        tr(pre.str() + ".observe:" + nm[k]); hx::count(std::string("obs.") + nm[k]); receiver = -1;
        if (k == 0) (void) A.minimized_constraints(); else if (k == 1) (void) A.minimized_generators(); else if (k == 2) (void) A.constraints(); else if (k == 3) (void) A.generators();
        else if (k == 4) { Congruence_System cg = coin() ? A.congruences() : A.minimized_congruences();
          // congruences of a polyhedron: the equalities it satisfies; every point must satisfy them and they must all be equalities
          checked(); for (Congruence_System::const_iterator i = cg.begin(); i != cg.end(); ++i) { if (!i->is_equality() && !i->is_tautological() && !i->is_inconsistent()) { violation("C01.q.congruences", "proper congruence reported for a polyhedron"); break; }
            Vec a(n); for (int d = 0; d < n && d < (int) i->space_dimension(); ++d) a[d] = ref::toQ(i->coefficient(Variable(d))); Q b = ref::toQ(i->inhomogeneous_term());
            if (i->is_equality() && !sys_included(n, SA, Sys(1, Con(a, Q(-b), ref::EQ)))) { violation("C01.q.congruences", "reported equality " + str(*i) + " not satisfied by the polyhedron"); break; } } }
        else { (void) A.hash_code(); (void) A.total_memory_in_bytes(); (void) A.external_memory_in_bytes(); }
        hx::distinct("obs|" + std::string(nm[k]) + "|" + stl);
        Sys RC; Gens RG; if (!check_dd(A, "observe", RC, RG)) return;
        checked(); if (!sys_equal(n, SA, RC)) violation("C01.observer_changed_value", std::string(nm[k]) + " changed the set");
      }
      else if ((kind -= w_obs) < w_twin) { receiver = -1; twin_check(A, n, SA, GA, pre.str()); hx::distinct("twin|" + stl + "|" + cls); }
      else if ((kind -= w_twin) < w_ascii) { receiver = -1; Polyhedron* L = ascii_roundtrip(A, n, pre.str()); if (L) { del(twin[ai]); twin[ai] = L; } }
      else if ((kind -= w_ascii) < w_dims) { receiver = -1; dims_op(A, B, n, SA, GA, SB, pre.str()); hx::distinct("dims|" + stl + "|" + cls); }
      else { receiver = -1; integer_ops(A, n, SA, pre.str()); hx::distinct("intops|" + stl + "|" + cls); }
    } catch (const Logical_Timeout&) {
      std::string t = hx::trace(); size_t p = t.rfind(" | #"); std::string last = p == std::string::npos ? t : t.substr(p + 3); size_t a = last.find('.'), b = last.find('(');
      std::string opn = (a != std::string::npos && b != std::string::npos && b > a) ? last.substr(a + 1, b - a - 1) : last;
      bool bounded = true; if (ref::feasible(n, SA)) for (int i = 0; i < n && bounded; ++i) for (int sg = -1; sg <= 1; sg += 2) { Vec d(n); d[i] = sg; if (!ref::supremum(n, SA, d).bounded) bounded = false; }
      std::string mon = (opn == "contains_integer_point" || opn.find("drop_some_non_integer") != std::string::npos) ? "C17" : (receiver == ai ? "C02" : "C01");
      violation(mon + ".hang.poly." + opn + (bounded ? ":bounded-receiver" : ":unbounded-receiver"), "logical-time budget (weight 2e8) exceeded; receiver " + show(SA));
      return;
    } catch (const std::exception& e) {
      violation(std::string("C02.unexpected_exception.") + typeid(e).name(), e.what());
      return;
    }
    // every object other than the receiver keeps its value (C13: bystanders, const arguments, copies)
    if (receiver != -2) for (int i = 0; i < NP; ++i) if (i != receiver) {
      Sys now = obs_cons(*pool[i]); checked(); hx::count("bystander_checks");
      if (!sys_equal(n, S[i], now)) { violation(i == bi ? "C13.const_argument_changed" : "C13.bystander_changed", "object #" + std::to_string(i) + " changed from " + show(S[i]) + " to " + show(now)); return; }
    }
  }
}

int main(int argc, char** argv) {
  return hx::main_loop(argc, argv, [&](uint64_t s) { g_maxdim = hx::opt().thorough ? 4 : 3; run_case(s); },
    []() { hx::count("lp_solves", ref::lp_counters().solves); hx::count("lp_pivots", ref::lp_counters().pivots); hx::count("dd_vertices", ref::dd_stats().vertices); hx::count("dd_rays", ref::dd_stats().rays); hx::count("dd_faces", ref::dd_stats().faces); });
}
