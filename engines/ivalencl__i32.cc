// ivalencl, policy i32_c: Interval<int32_t, Native_Integer_Box_Interval_Info>
#include "ivalencl_impl.hh"
#include "interfaces/interfaced_boxes.hh"
namespace ivx { void case_i32() { run_policy<Interval<int32_t, Native_Integer_Box_Interval_Info> >("i32_c", K_INT_BOUNDED); } }
