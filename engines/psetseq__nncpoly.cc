// psetseq, instantiation for nncpoly (see psetseq.hh)
#include "psetseq.hh"
void psq::run_nncpoly() { psq::Engine<psq::DomNNC>::run_case(); }
