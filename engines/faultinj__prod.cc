// faultinj: scenarios and rejected calls on a partially reduced product,
// Constraints_Product<C_Polyhedron, Grid>.
#include "faultinj.hh"
using namespace fi;
using pplx::str;

namespace {
typedef Domain_Product<C_Polyhedron, Grid>::Constraints_Product PR;
#define DOM "Constraints_Product<C_Polyhedron,Grid>"
int rdim() { return rnd(1, hx::opt().thorough ? 3 : 2); }
PR rprod(int n) {
  PR p(n);
  std::vector<int> pt = rpoint(n);
  for (int i = rnd(0, 3); i > 0; --i) p.refine_with_constraint(rcon_through(n, pt, false));
  for (int i = 0; i < n; ++i) if (coin(60)) { p.refine_with_constraint(Variable(i) >= pt[i] - rnd(0, 3)); p.refine_with_constraint(Variable(i) <= pt[i] + rnd(0, 3)); }
  for (int i = rnd(0, 2); i > 0; --i) p.refine_with_congruence((rexpr(n, 50) %= rnd(0, 2)) / rnd(1, 3));
  int st = rnd(0, 4);
  if (st == 0) (void) p.is_empty();       // reduced
  else if (st == 1 && coin(30)) p = PR(n, EMPTY);
  return p;
}
PR fresh(int n) { PR p(n); if (n > 0) { p.refine_with_constraint(Variable(0) >= 0); p.refine_with_congruence((Variable(n - 1) %= 1) / 2); } return p; }
void use(PR& p) {
  int n = (int) p.space_dimension();
  (void) p.is_empty();
  if (n > 0) { p.refine_with_constraint(Variable(0) <= 7); p.refine_with_congruence((Variable(0) %= 0) / 3); }
  (void) p.is_bounded();
  PR q(p); q.upper_bound_assign(p); (void) q.contains(p);
}
std::string val(const PR& p) { PR q(p); (void) q.is_empty(); std::ostringstream o; C_Polyhedron d1(q.domain1()); Grid d2(q.domain2()); o << q.space_dimension() << ":" << str(d1.minimized_constraints()) << " & " << str(d2.minimized_congruences()); return o.str(); }
#define EQ [](const PR& a, const PR& b) { return a.space_dimension() == b.space_dimension() && a == b; }
#define POSTR(name, obj) c.post(name, obj, fresh((int) (obj).space_dimension()), use, EQ)

SCENARIO(DOM ".refine_with_constraints") { int n = rdim(); PR p = rprod(n); Constraint_System cs = rcs_through(n, rpoint(n), false, rnd(1, 3));
  c.run([&] { p.refine_with_constraints(cs); (void) p.is_empty(); }); c.result([&] { return val(p); }); POSTR("p", p); }
SCENARIO(DOM ".add_constraint") { int n = rdim(); PR p = rprod(n); Constraint k = rexpr(n) == 0;
  c.run([&] { p.add_constraint(k); (void) p.is_empty(); }); c.result([&] { return val(p); }); POSTR("p", p); }
SCENARIO(DOM ".add_congruences") { int n = rdim(); PR p = rprod(n); Congruence_System cgs; cgs.insert((rexpr(n) %= 0) / 0); if (coin()) cgs.insert((rexpr(n) %= 1) / 0);
  c.run([&] { p.add_congruences(cgs); (void) p.is_empty(); }); c.result([&] { return val(p); }); POSTR("p", p); }
SCENARIO(DOM ".refine_with_congruences") { int n = rdim(); PR p = rprod(n); Congruence_System cgs; for (int i = rnd(1, 3); i > 0; --i) cgs.insert(pplx::rand_cg(n));
  c.run([&] { p.refine_with_congruences(cgs); (void) p.is_empty(); }); c.result([&] { return val(p); }); POSTR("p", p); }
SCENARIO(DOM ".reduce") { int n = rdim(); PR p = rprod(n);
  c.run([&] { (void) p.is_empty(); (void) p.is_universe(); (void) p.is_discrete(); }); c.result([&] { return val(p); }); POSTR("p", p); }

enum Bin { MEET, JOIN, JOIN_EXACT, DIFF, TELAPSE, CONCAT, WIDEN, QUERIES };
template <int OP> void s_binary(Ctx& c) {
  int n = rdim(); PR a = rprod(n), b = rprod(OP == CONCAT ? rnd(0, 2) : n);
  if (OP == WIDEN) { b = a; b.refine_with_constraints(rcs_through(n, rpoint(n), false, 2)); }
  bool b1 = false, b2 = false, b3 = false;
  c.run([&] {
    switch (OP) {
    case MEET: a.intersection_assign(b); break;
    case JOIN: a.upper_bound_assign(b); break;
    case JOIN_EXACT: b1 = a.upper_bound_assign_if_exact(b); break;
    case DIFF: a.difference_assign(b); break;
    case TELAPSE: a.time_elapse_assign(b); break;
    case CONCAT: a.concatenate_assign(b); break;
    case WIDEN: a.widening_assign(b); break;
    case QUERIES: b1 = a.contains(b); b2 = a.is_disjoint_from(b); b3 = a.strictly_contains(b); break;
    }
    (void) a.is_empty();
  });
  c.result([&] { return val(a) + (b1 ? "T" : "F") + (b2 ? "T" : "F") + (b3 ? "T" : "F"); });
  POSTR("a", a); POSTR("b", b);
}
static RegS b1(DOM ".intersection_assign", s_binary<MEET>), b2(DOM ".upper_bound_assign", s_binary<JOIN>), b3(DOM ".upper_bound_assign_if_exact", s_binary<JOIN_EXACT>),
  b4(DOM ".difference_assign", s_binary<DIFF>), b5(DOM ".time_elapse_assign", s_binary<TELAPSE>), b6(DOM ".concatenate_assign", s_binary<CONCAT>),
  b7(DOM ".widening_assign", s_binary<WIDEN>), b8(DOM ".contains_disjoint", s_binary<QUERIES>);

enum Aff { IMG, PRE, GIMG, GIMG2, GPRE, BIMG, BPRE };
template <int OP> void s_affine(Ctx& c) {
  int n = rdim(); PR p = rprod(n); Variable v(rnd(0, n - 1));
  Linear_Expression e = rexpr(n), f = rexpr(n);
  Coefficient d = rcoef(3); if (d == 0) d = -2;
  Relation_Symbol rel = pplx::REL5[rnd(1, 3)];
  c.run([&] {
    switch (OP) {
    case IMG: p.affine_image(v, e, d); break;
    case PRE: p.affine_preimage(v, e, d); break;
    case GIMG: p.generalized_affine_image(v, rel, e, d); break;
    case GIMG2: p.generalized_affine_image(e, rel, f); break;
    case GPRE: p.generalized_affine_preimage(v, rel, e, d); break;
    case BIMG: p.bounded_affine_image(v, e, f, d); break;
    case BPRE: p.bounded_affine_preimage(v, e, f, d); break;
    }
    (void) p.is_empty();
  });
  c.result([&] { return val(p); });
  POSTR("p", p);
}
static RegS a1(DOM ".affine_image", s_affine<IMG>), a2(DOM ".affine_preimage", s_affine<PRE>), a3(DOM ".generalized_affine_image", s_affine<GIMG>),
  a4(DOM ".generalized_affine_image_lhs_rhs", s_affine<GIMG2>), a5(DOM ".generalized_affine_preimage", s_affine<GPRE>), a6(DOM ".bounded_affine_image", s_affine<BIMG>),
  a7(DOM ".bounded_affine_preimage", s_affine<BPRE>);

enum Dim { EMBED, PROJECT, REMOVE, REMOVE_HIGHER, EXPAND, FOLD, UNCONSTRAIN, DROP_NONINT, TOPCLOSURE };
template <int OP> void s_dims(Ctx& c) {
  int n = rdim(); PR p = rprod(n);
  Variables_Set vs; for (int i = 0; i < n; ++i) if (coin(40)) vs.insert(Variable(i));
  int m = rnd(1, 2); Variable v(rnd(0, n - 1));
  Variables_Set fold_vs; for (int i = 0; i < n; ++i) if (i != (int) v.id() && coin()) fold_vs.insert(Variable(i));
  c.run([&] {
    switch (OP) {
    case EMBED: p.add_space_dimensions_and_embed(m); break;
    case PROJECT: p.add_space_dimensions_and_project(m); break;
    case REMOVE: p.remove_space_dimensions(vs); break;
    case REMOVE_HIGHER: p.remove_higher_space_dimensions(rnd(0, n)); break;
    case EXPAND: p.expand_space_dimension(v, m); break;
    case FOLD: p.fold_space_dimensions(fold_vs, v); break;
    case UNCONSTRAIN: if (coin()) p.unconstrain(v); else p.unconstrain(vs); break;
    case DROP_NONINT: if (coin()) p.drop_some_non_integer_points(); else p.drop_some_non_integer_points(vs); break;
    case TOPCLOSURE: p.topological_closure_assign(); break;
    }
    (void) p.is_empty();
  });
  c.result([&] { return val(p); });
  POSTR("p", p);
}
static RegS d1(DOM ".add_space_dimensions_and_embed", s_dims<EMBED>), d2(DOM ".add_space_dimensions_and_project", s_dims<PROJECT>), d3(DOM ".remove_space_dimensions", s_dims<REMOVE>),
  d4(DOM ".remove_higher_space_dimensions", s_dims<REMOVE_HIGHER>), d5(DOM ".expand_space_dimension", s_dims<EXPAND>), d6(DOM ".fold_space_dimensions", s_dims<FOLD>),
  d7(DOM ".unconstrain", s_dims<UNCONSTRAIN>), d8(DOM ".drop_some_non_integer_points", s_dims<DROP_NONINT>), d9(DOM ".topological_closure_assign", s_dims<TOPCLOSURE>);

enum Cpy { COPY, ASSIGN, SWAP, GETTERS, FROM_POLY, FROM_GRID, DUMP, LOAD, PRINT, QUERY };
template <int OP> void s_copy(Ctx& c) {
  int n = rdim(); PR a = rprod(n), b = rprod(rnd(0, 2));
  C_Polyhedron ph = rpoly<C_Polyhedron>(n); Grid gr(n); gr.add_congruence((Variable(0) %= 1) / 2);
  std::string text = dump(a), out; bool ok = true; std::ostringstream r;
  Linear_Expression e = rexpr(n); Constraint k = pplx::rand_con(n, false);
  c.run([&] {
    switch (OP) {
    case COPY: { PR t(a); (void) t.is_empty(); break; }
    case ASSIGN: b = a; break;
    case SWAP: { PR t(a); t.m_swap(b); swap(t, b); break; }
    case GETTERS: { Constraint_System cs(a.constraints()); Constraint_System mcs(a.minimized_constraints()); Congruence_System cg(a.congruences()); Congruence_System mcg(a.minimized_congruences()); PR t(a.space_dimension()); t.refine_with_constraints(mcs); PR u(a.space_dimension()); u.refine_with_congruences(cg); t.intersection_assign(u); b.m_swap(t); break; }
    case FROM_POLY: { PR t(ph); b.m_swap(t); break; }
    case FROM_GRID: { PR t(gr); b.m_swap(t); break; }
    case DUMP: { std::ostringstream o; a.ascii_dump(o); out = o.str(); break; }
    case LOAD: { std::istringstream i(text); ok = b.ascii_load(i); break; }
    case PRINT: { std::ostringstream o; using namespace IO_Operators; o << a; out = o.str(); break; }
    case QUERY: { Coefficient x, y; bool mx; Generator w = point(); r << a.maximize(e, x, y, mx, w) << a.minimize(e, x, y, mx) << a.bounds_from_above(e) << a.relation_with(k).implies(Poly_Con_Relation::is_included()) << a.is_bounded() << a.is_topologically_closed() << a.constrains(Variable(0)) << a.affine_dimension(); break; }
    }
  });
  c.result([&] { return val(a) + val(b) + (ok ? "T" : "F") + (OP == DUMP ? out : std::string()) + r.str(); });
  if (OP == LOAD && !c.threw && c.mode <= COUNT && (!ok || !(b == a))) c.fail("ascii_load_failed", "ascii_load of an ascii_dump failed without any injected failure");
  POSTR("a", a); POSTR("b", b);
}
static RegS c1(DOM ".copy_construct", s_copy<COPY>), c2(DOM ".assign", s_copy<ASSIGN>), c3(DOM ".swap", s_copy<SWAP>), c4(DOM ".getters", s_copy<GETTERS>), c5(DOM ".from_polyhedron", s_copy<FROM_POLY>),
  c6(DOM ".from_grid", s_copy<FROM_GRID>), c7(DOM ".ascii_dump", s_copy<DUMP>), c8(DOM ".ascii_load", s_copy<LOAD>), c9(DOM ".print", s_copy<PRINT>), c10(DOM ".maximize_relation", s_copy<QUERY>);

// ---------------------------------------------------------------- rejected calls (Partially_Reduced_Product_defs.hh)
#define REJR(op, cls, expected, stmt) REJECT(DOM, op, cls) { Variable x(0), y(1), z(2); (void) x; (void) y; (void) z; \
    PR p = rprod(2), q = rprod(3); PR p0(p), q0(q); r.call(expected, [&] { stmt; }); \
    r.unchanged("receiver", p, p0, EQ, [](const PR& a) { return val(a); }); r.unchanged("argument", q, q0, EQ, [](const PR& a) { return val(a); }); }
REJR("add_constraint", "dim_too_large", "invalid_argument", p.add_constraint(z == 0))
REJR("add_constraint", "not_representable_in_grid", "invalid_argument", p.add_constraint(x >= 1))
REJR("add_constraints", "dim_too_large", "invalid_argument", Constraint_System cs; cs.insert(z == 0); p.add_constraints(cs))
REJR("refine_with_constraint", "dim_too_large", "invalid_argument", p.refine_with_constraint(z >= 0))
REJR("refine_with_congruence", "dim_too_large", "invalid_argument", p.refine_with_congruence((z %= 0) / 2))
REJR("add_congruence", "dim_too_large", "invalid_argument", p.add_congruence((z %= 0) / 0))
REJR("add_congruence", "proper_congruence_on_polyhedron", "invalid_argument", p.add_congruence((x %= 0) / 2))
REJR("intersection_assign", "dim_mismatch", "invalid_argument", p.intersection_assign(q))
REJR("upper_bound_assign", "dim_mismatch", "invalid_argument", p.upper_bound_assign(q))
REJR("upper_bound_assign_if_exact", "dim_mismatch", "invalid_argument", (void) p.upper_bound_assign_if_exact(q))
REJR("difference_assign", "dim_mismatch", "invalid_argument", p.difference_assign(q))
REJR("time_elapse_assign", "dim_mismatch", "invalid_argument", p.time_elapse_assign(q))
REJR("widening_assign", "dim_mismatch", "invalid_argument", p.widening_assign(q))
REJR("contains", "dim_mismatch", "invalid_argument", (void) p.contains(q))
REJR("is_disjoint_from", "dim_mismatch", "invalid_argument", (void) p.is_disjoint_from(q))
REJR("affine_image", "zero_denominator", "invalid_argument", p.affine_image(x, y + 1, 0))
REJR("affine_image", "var_dim_too_large", "invalid_argument", p.affine_image(z, y + 1, 1))
REJR("affine_image", "expr_dim_too_large", "invalid_argument", p.affine_image(x, z + 1, 1))
REJR("affine_preimage", "zero_denominator", "invalid_argument", p.affine_preimage(x, y + 1, 0))
REJR("generalized_affine_image", "zero_denominator", "invalid_argument", p.generalized_affine_image(x, EQUAL, y + 1, 0))
REJR("generalized_affine_image", "strict_on_closed", "invalid_argument", p.generalized_affine_image(x, LESS_THAN, y + 1, 1))
REJR("generalized_affine_image_lhs_rhs", "lhs_dim_too_large", "invalid_argument", p.generalized_affine_image(x + z, EQUAL, y))
REJR("generalized_affine_preimage", "zero_denominator", "invalid_argument", p.generalized_affine_preimage(x, EQUAL, y + 1, 0))
REJR("bounded_affine_image", "zero_denominator", "invalid_argument", p.bounded_affine_image(x, y, y + 1, 0))
REJR("bounded_affine_image", "lb_dim_too_large", "invalid_argument", p.bounded_affine_image(x, z, y + 1, 1))
REJR("bounded_affine_preimage", "zero_denominator", "invalid_argument", p.bounded_affine_preimage(x, y, y + 1, 0))
REJR("unconstrain", "dim_too_large", "invalid_argument", p.unconstrain(z))
REJR("remove_space_dimensions", "dim_too_large", "invalid_argument", Variables_Set vs; vs.insert(z); p.remove_space_dimensions(vs))
REJR("remove_higher_space_dimensions", "dim_too_large", "invalid_argument", p.remove_higher_space_dimensions(5))
REJR("expand_space_dimension", "dim_too_large", "invalid_argument", p.expand_space_dimension(z, 1))
REJR("fold_space_dimensions", "dest_in_set", "invalid_argument", Variables_Set vs; vs.insert(x); p.fold_space_dimensions(vs, x))
REJR("add_space_dimensions_and_embed", "space_dimension_overflow", "length_error", p.add_space_dimensions_and_embed(PR::max_space_dimension()))
REJR("add_space_dimensions_and_project", "space_dimension_overflow", "length_error", p.add_space_dimensions_and_project(PR::max_space_dimension()))
REJR("concatenate_assign", "space_dimension_overflow", "length_error", PR big(PR::max_space_dimension(), EMPTY); p.concatenate_assign(big))
REJR("relation_with_constraint", "dim_too_large", "invalid_argument", (void) p.relation_with(z >= 0))
REJR("maximize", "dim_too_large", "invalid_argument", Coefficient a; Coefficient b; bool m; (void) p.maximize(z, a, b, m))
REJR("constrains", "dim_too_large", "invalid_argument", (void) p.constrains(z))
REJECT(DOM, "construct", "space_dimension_overflow") { r.call("length_error", [&] { PR p(PR::max_space_dimension() + 1); }); }
} // namespace
