// wdvt — C19: time watchdogs against a virtual ITIMER_PROF, weight watchers
// against a shadow threshold queue.
//
// wd half.  This executable defines setitimer()/getitimer() itself (libppl.a is
// static, so Watchdog.cc's calls bind here): a virtual one-shot timer in
// microseconds.  advance(dt) moves virtual time and, whenever the armed interval
// elapses, disarms and raise(SIGPROF)s — the real handler installed by
// Watchdog::initialize() runs through the real signal path.  A case is one random
// history (2-6 watchdogs, delays 1-300 cs, equal / sub-second deadlines, random
// creation/destruction order, time advanced between the calls).  The history is
// run once plainly (recording every "boundary": entry and exit of each interposed
// call and — once the source failpoints exist — every ppl_verif_point_hook call),
// then once per (boundary occurrence, mode): mode `elapse` lets time pass at that
// boundary without an expiry, mode `deliver` advances exactly to the expiry so
// that SIGPROF lands there (inside the constructor's / destructor's critical
// section for the interposed calls), `deliver2` (thorough) also lets the 1 cs
// reschedule expire inside the same call.  A reference timer queue (struct Model)
// decides: at most once, never before creation+delay, deadline order, never after
// the destructor returned, not later than the delivery following the deadline
// (allowance: time that elapsed inside bookkeeping calls + one reschedule_time
// per deferred delivery), pending-list integrity (white box, read only).
//
// ww half.  Threshold_Watcher<Weightwatch_Traits>: the harness adds weight
// (directly and through real PPL operations), calls maybe_abandon() and wraps
// Weightwatch_Traits::check_function so that every check — also those inside PPL
// operations — is compared with the shadow queue: trigger exactly at the first
// check with weight >= threshold, once, in threshold order, never outside a check.
//
// Keys: C19.wd.<early|twice|after_destruction|order|late|list.*|exception.*|syscall_args>[:delivered-in-critical-section]
//         (class = an expiry was deferred by the critical-section flag earlier in the run: flag set, no
//          handler ran, timer re-armed with reschedule_time — DESIGN §4 item 13; anything else is unclassified)
//       C19.ww.<early|twice|after_destruction|order|no_trigger[:weight-equals-threshold]|outside_check|abandon_*|list.*|exception.*>
//       C19.wd.<twice|after_destruction|list.stale_element>:real-timer   (soak profile)
// Profiles: wd | ww | default (70 % wd, 30 % ww) | soak (real ITIMER_PROF, thorough tier, run few in parallel).
// Replay one placement only: --kv place=K --kv mode=M (0 elapse, 1 deliver, 2 deliver2).
#include "pplx.hh"
#include <csignal>
#include <cerrno>
#include <sys/time.h>
#include <dlfcn.h>
#include <ctime>

using namespace Parma_Polyhedra_Library;
namespace IW = Parma_Polyhedra_Library::Implementation::Watchdog;
typedef IW::Pending_List<Watchdog_Traits> WDPL;
typedef IW::Pending_List<Weightwatch_Traits> WWPL;
typedef IW::Time WTime;
typedef Threshold_Watcher<Weightwatch_Traits> WWatcher;
typedef long long ll;
typedef unsigned long long ull;

// ---------- read-only white-box access (explicit instantiation ignores access) ----------
typedef Parma_Polyhedra_Library::Implementation::EList<IW::Pending_Element<WTime> > WDEL;
WDPL& wd_pending(); volatile bool& wd_in_cs(); volatile bool& wd_running(); bool& wd_expired(Watchdog&); WDEL& wd_free_list();
WWPL& ww_pending(); bool& ww_expired(WWatcher&);
template <auto P, auto CS, auto RUN, auto EXP, auto FL> struct Rob_wd {
  friend WDEL& wd_free_list() { return (*P).*FL; }
  friend WDPL& wd_pending() { return *P; }
  friend volatile bool& wd_in_cs() { return *CS; }
  friend volatile bool& wd_running() { return *RUN; }
  friend bool& wd_expired(Watchdog& w) { return w.*EXP; }
};
template struct Rob_wd<&Watchdog::pending, &Watchdog::in_critical_section, &Watchdog::alarm_clock_running, &Watchdog::expired, &WDPL::free_list>;
template <auto I, auto EXP> struct Rob_ww {
  friend WWPL& ww_pending() { return I->pending; }
  friend bool& ww_expired(WWatcher& w) { return w.*EXP; }
};
template struct Rob_ww<&WWatcher::init, &WWatcher::expired>;

// Source failpoints (BUGSENG_PPL_VERIF): PPL_VERIF_POINT(id) in /repo/src/verif_hooks.hh calls
// Implementation::Verif::point_hook; the C-linkage variable of the same role is accepted too
// (weak reference, so the engine links with and without it).  None is required: without
// failpoints in Watchdog.cc / Pending_List the boundaries are the interposed calls only.
extern "C" { extern void (*ppl_verif_point_hook)(const char*) __attribute__((weak)); }

static std::string S(ll x) { return std::to_string(x); }
static std::string SU(ull x) { return std::to_string(x); }

// =====================================================================================
//                                     wd half
// =====================================================================================
enum { MAXW = 8 };
static const ll CS_US = 10000;          // one centisecond
static const ll RESCHED_US = 10000;     // Watchdog::reschedule_time == Time(1)

struct WFlag : public Throwable {
  int id;
  WFlag() : id(-1) {}
  int priority() const { return 0; }
  void throw_me() const { throw *this; }
};

// ---------- the reference timer queue (the oracle) ----------
struct MW { int state; ll t_enter, t_exit, delay; int fired; ll t_fire; };   // state: 0 none 1 in ctor 2 alive 3 in dtor 4 destroyed
struct Model {
  MW w[MAXW]; ll incall; int ndef;       // time elapsed inside bookkeeping calls; deliveries deferred by the critical section
  void reset() { for (int i = 0; i < MAXW; ++i) { w[i].state = 0; w[i].fired = 0; w[i].t_enter = w[i].t_exit = w[i].delay = w[i].t_fire = 0; } incall = 0; ndef = 0; }
  ll allow() const { return incall + RESCHED_US * ndef; }
  ll dmin(int i) const { return w[i].t_enter + w[i].delay; }      // earliest legitimate firing time
  ll dmax(int i) const { return w[i].t_exit + w[i].delay; }       // deadline counted from the end of the constructor
  bool pending(int i) const { return w[i].state == 2 && !w[i].fired; }
  int npending() const { int n = 0; for (int i = 0; i < MAXW; ++i) if (pending(i)) ++n; return n; }
  // returns "" or the name of the refuted clause
  const char* fire(int i, ll now, std::string& why) {
    MW& m = w[i];
    if (m.state == 0 || m.state == 4) { why = "handler " + S(i) + " ran at " + S(now) + (m.state == 4 ? " after its destructor returned" : " before its creation"); return "after_destruction"; }
    if (m.fired) { why = "handler " + S(i) + " ran again at " + S(now) + " (first at " + S(m.t_fire) + ")"; return "twice"; }
    m.fired = 1; m.t_fire = now;
    if (now < dmin(i)) { why = "handler " + S(i) + " ran at " + S(now) + " us, created at " + S(m.t_enter) + " with delay " + S(m.delay) + " us: " + S(dmin(i) - now) + " us early"; return "early"; }
    for (int j = 0; j < MAXW; ++j)
      if (j != i && pending(j) && dmax(j) + allow() < dmin(i)) { why = "handler " + S(i) + " (deadline " + S(dmin(i)) + ") ran at " + S(now) + " while watchdog " + S(j) + " (deadline " + S(dmax(j)) + ") is alive and has not fired"; return "order"; }
    return "";
  }
  const char* late(ll now, std::string& why) {
    for (int j = 0; j < MAXW; ++j)
      if (pending(j) && dmax(j) + allow() <= now) { why = "watchdog " + S(j) + " created in [" + S(w[j].t_enter) + "," + S(w[j].t_exit) + "] delay " + S(w[j].delay) + " us is alive and has not fired at " + S(now) + " us (allowance " + S(allow()) + " us)"; return "late"; }
    return "";
  }
};

struct BRec { std::string id; bool armed; int npend; };
struct WdRun {
  bool active, record; int place, mode; ll elapse_arg;
  int nb; std::vector<BRec> brecs; std::string place_id; bool place_done, place_armed; int place_npend;
  const char* ctx; int delivering; bool resched_seen;
  ll now, armed_until, interval; unsigned nset, nget, nsig, nfired;
  std::string vkey, vdetail; bool list_suspect;
  std::string log;
  Watchdog* wd[MAXW]; bool flagkind[MAXW];
  // second, independent account of elapsed timer time per watchdog (witness re-validation)
  ll since_enter[MAXW], since_exit[MAXW]; bool run_enter[MAXW], run_exit[MAXW];
  Model M;
};
static WdRun R;
static const Throwable* volatile wd_holder[MAXW];
static WFlag wd_flag[MAXW];
static std::vector<Watchdog*>& graveyard = *new std::vector<Watchdog*>;   // never deleted: objects whose list links are known to be wrong

static void tick(ll dt) { R.now += dt; for (int i = 0; i < MAXW; ++i) { if (R.run_enter[i]) R.since_enter[i] += dt; if (R.run_exit[i]) R.since_exit[i] += dt; } }
static void ev(const std::string& s) { R.log += s; R.log += ' '; if (hx::opt().verbose) { fprintf(stderr, "   [t=%lld] %s\n", R.now, s.c_str()); fflush(stderr); } }
static void wd_viol(const std::string& what, const std::string& detail) {
  if (!R.vkey.empty()) return;
  if (what.compare(0, 12, "harness_bug.") == 0) R.vkey = "harness.bug.wd." + what.substr(12);
  else R.vkey = "C19.wd." + what + (R.M.ndef > 0 ? ":delivered-in-critical-section" : "");
  R.vdetail = detail;
  ev("VIOLATION " + R.vkey);
}

static void wd_poll_flags();
static void on_fire(int i) {
  // flag-kind handlers are observed by polling: record those that ran before this one first
  wd_poll_flags();
  ++R.nfired; hx::checked(4);
  ev("fire" + S(i));
  std::string why; const char* c = R.M.fire(i, R.now, why);
  if (!*c) return;
  if (std::string(c) == "early" && !(R.since_enter[i] < R.M.w[i].delay)) { wd_viol("harness_bug.early_witness", why + " but " + S(R.since_enter[i]) + " us were accounted since the constructor was entered"); return; }
  wd_viol(c, why);
}
template <int I> static void wd_fn() { on_fire(I); }
static void (*const wd_fns[MAXW])() = { wd_fn<0>, wd_fn<1>, wd_fn<2>, wd_fn<3>, wd_fn<4>, wd_fn<5>, wd_fn<6>, wd_fn<7> };
static void wd_poll_flags() {
  // several flags found set at one poll ran in an order the poll cannot see: take them in deadline order
  int q[MAXW]; int n = 0;
  for (int i = 0; i < MAXW; ++i) if (R.flagkind[i] && wd_holder[i] != 0) {
    if (wd_holder[i] != &wd_flag[i]) wd_viol("flag_holder", "holder " + S(i) + " points to a foreign flag");
    wd_holder[i] = 0; q[n++] = i;
  }
  std::sort(q, q + n, [](int a, int b) { return R.M.dmin(a) < R.M.dmin(b); });
  for (int k = 0; k < n; ++k) on_fire(q[k]);
}

static void unblock_sigprof() { sigset_t s; sigemptyset(&s); sigaddset(&s, SIGPROF); sigprocmask(SIG_UNBLOCK, &s, 0); }

// raise() is declared noexcept, so a call to it gets no landing pad; the library's handler can
// throw (set_timer: "PPL internal error", failing syscalls), and the engine wants to catch that.
static int (*volatile deliver_signal)(int) = raise;
// Move virtual time; every expiry is delivered through the real signal path.
static void advance(ll us, bool incall) {
  if (incall) R.M.incall += us;
  while (R.armed_until >= 0 && R.armed_until <= R.now + us) {
    us -= R.armed_until - R.now; tick(R.armed_until - R.now);
    R.armed_until = R.interval > 0 ? R.now + R.interval : -1;
    bool in_cs = wd_in_cs();
    ++R.nsig; ev(std::string("SIGPROF") + (in_cs ? "(in-cs)" : ""));
    unsigned fired0 = R.nfired; R.resched_seen = false;
    ++R.delivering;
    try { deliver_signal(SIGPROF); }
    catch (const std::exception& e) { unblock_sigprof(); wd_viol("exception.signal_handler", std::string(typeid(e).name()) + ": " + e.what()); }
    --R.delivering;
    wd_poll_flags();
    // "deferred by the critical section" (the triage class of DESIGN §4 item 13) means exactly: the
    // flag was set, no handler ran, and the library re-armed the timer with reschedule_time.
    if (in_cs) {
      if (R.nfired == fired0 && R.resched_seen) { ++R.M.ndef; hx::count("wd.deliveries_deferred_in_critical_section"); }
      else hx::count("wd.deliveries_in_critical_section_not_deferred");
    }
  }
  tick(us);
}

// A statement boundary inside the library's bookkeeping: entry/exit of the interposed
// calls and (when present in /repo) the source failpoints.
static void boundary(const char* what, const char* pos) {
  if (!R.active) return;
  int k = R.nb++;
  if (!R.record && k != R.place) return;
  std::string id = std::string(R.ctx) + (R.delivering ? ".sig:" : ":") + what + pos;
  if (R.record) { BRec b; b.id = id; b.armed = R.armed_until >= 0; b.npend = R.M.npending(); R.brecs.push_back(b); }
  if (k != R.place) return;
  R.place_id = id; R.place_done = true; R.place_armed = R.armed_until >= 0; R.place_npend = R.M.npending();
  ll rem = R.armed_until >= 0 ? R.armed_until - R.now : -1;
  ll dt;
  if (R.mode == 0) {          // time passes, no expiry
    if (rem < 0) dt = 5000;
    else { int v = (int) (R.elapse_arg % 3); dt = v == 0 ? rem - 1 : v == 1 ? rem / 2 : 1; if (dt >= rem) dt = rem - 1; if (dt < 0) dt = 0; }
  }
  else if (rem < 0) dt = 0;   // nothing armed: no expiry can be placed here (enumeration skips these)
  else dt = R.mode == 1 ? rem : rem + RESCHED_US;
  ev("@" + id + (R.mode == 0 ? " elapse " : " deliver ") + S(dt));
  advance(dt, true);
}
static unsigned long g_point_calls = 0;
static void hook_fn(const char* id) { if (R.active) ++g_point_calls; boundary("point:", id); }

static void bad_args(const std::string& d) { wd_viol("syscall_args", d); }
// soak profile: the calls go to the real timer
static bool g_soak = false;
typedef int (*set_fn)(int, const struct itimerval*, struct itimerval*);
typedef int (*get_fn)(int, struct itimerval*);
static set_fn real_setitimer() { static set_fn f = (set_fn) dlsym(RTLD_NEXT, "setitimer"); return f; }
static get_fn real_getitimer() { static get_fn f = (get_fn) dlsym(RTLD_NEXT, "getitimer"); return f; }
extern "C" int setitimer(int which, const struct itimerval* nv, struct itimerval* ov) {
  if (g_soak) return real_setitimer()(which, nv, ov);
  boundary("setitimer", ":entry");
  ++R.nset;
  if (R.active) {
    hx::checked();
    if (which != ITIMER_PROF) bad_args("setitimer which=" + S(which));
    if (!nv) { bad_args("setitimer new_value null"); errno = EFAULT; return -1; }
    if (nv->it_value.tv_sec < 0 || nv->it_value.tv_usec < 0 || nv->it_value.tv_usec >= 1000000) bad_args("setitimer it_value " + S(nv->it_value.tv_sec) + "s " + S(nv->it_value.tv_usec) + "us");
    if (nv->it_interval.tv_sec != 0 || nv->it_interval.tv_usec != 0) bad_args("setitimer periodic interval");
  }
  ll rem = R.armed_until < 0 ? 0 : R.armed_until - R.now;
  if (ov) { ov->it_value.tv_sec = rem / 1000000; ov->it_value.tv_usec = rem % 1000000; ov->it_interval.tv_sec = R.interval / 1000000; ov->it_interval.tv_usec = R.interval % 1000000; }
  ll us = (ll) nv->it_value.tv_sec * 1000000 + nv->it_value.tv_usec;
  R.interval = (ll) nv->it_interval.tv_sec * 1000000 + nv->it_interval.tv_usec;
  R.armed_until = us <= 0 ? -1 : R.now + us;
  if (R.delivering > 0 && us == RESCHED_US) R.resched_seen = true;
  if (R.active) ev("set(" + S(us) + ")");
  boundary("setitimer", ":exit");
  return 0;
}
extern "C" int getitimer(int which, struct itimerval* cv) {
  if (g_soak) return real_getitimer()(which, cv);
  boundary("getitimer", ":entry");
  ++R.nget;
  if (R.active) { hx::checked(); if (which != ITIMER_PROF) bad_args("getitimer which=" + S(which)); }
  ll rem = R.armed_until < 0 ? 0 : R.armed_until - R.now;
  cv->it_value.tv_sec = rem / 1000000; cv->it_value.tv_usec = rem % 1000000;
  cv->it_interval.tv_sec = R.interval / 1000000; cv->it_interval.tv_usec = R.interval % 1000000;
  if (R.active) ev("get=" + S(rem));
  boundary("getitimer", ":exit");
  return 0;
}

// ---------- white-box list integrity (read only, bounded walk) ----------
static void wd_list_check() {
  hx::checked();
  WDPL& pl = wd_pending();
  bool seen[MAXW]; for (int i = 0; i < MAXW; ++i) seen[i] = false;
  int n = 0; bool have_prev = false; WTime prev;
  for (WDPL::iterator it = pl.begin(); it != pl.end(); ++it) {
    if (++n > 2 * MAXW) { R.list_suspect = true; wd_viol("list.cycle", "more than " + S(2 * MAXW) + " elements reachable in the active list"); return; }
    int owner = -1;
    for (int i = 0; i < MAXW; ++i) if (R.wd[i] && &wd_expired(*R.wd[i]) == &it->expired_flag()) owner = i;
    if (owner < 0 || !R.M.pending(owner)) { R.list_suspect = true; wd_viol("list.stale_element", "active element #" + S(n) + " belongs to " + (owner < 0 ? std::string("no live watchdog") : "watchdog " + S(owner) + " which has fired or is gone")); return; }
    if (seen[owner]) { R.list_suspect = true; wd_viol("list.duplicate", "watchdog " + S(owner) + " is in the active list twice"); return; }
    seen[owner] = true;
    if (have_prev && it->deadline() < prev) { wd_viol("list.unsorted", "active element #" + S(n) + " has a smaller deadline than its predecessor"); return; }
    prev = it->deadline(); have_prev = true;
  }
  for (int i = 0; i < MAXW; ++i) if (R.M.pending(i) && !seen[i]) { R.list_suspect = true; wd_viol("list.missing", "watchdog " + S(i) + " is alive and unfired but not in the active list"); return; }
}
static void wd_quiescent() {
  if (!R.vkey.empty()) return;
  wd_poll_flags();
  hx::checked();
  std::string why; const char* c = R.M.late(R.now, why);
  if (*c) {
    bool confirmed = false;
    for (int j = 0; j < MAXW; ++j) if (R.M.pending(j) && R.since_exit[j] >= R.M.w[j].delay + R.M.allow()) confirmed = true;
    wd_viol(confirmed ? c : "harness_bug.late_witness", why); return;
  }
  wd_list_check();
}

// ---------- histories ----------
struct Step { int op; int slot; ll arg; bool flag; };   // op 0 create(arg cs) 1 destroy 2 advance(arg us)
static std::string show(const std::vector<Step>& h) {
  std::string s;
  for (size_t i = 0; i < h.size(); ++i) {
    const Step& t = h[i];
    if (t.op == 0) s += std::string(t.flag ? "CF" : "C") + S(t.slot) + "(" + S(t.arg) + "cs) ";
    else if (t.op == 1) s += "D" + S(t.slot) + " ";
    else s += "A" + S(t.arg) + " ";
  }
  return s;
}
static std::vector<Step> gen_wd_history() {
  using hx::rnd; using hx::coin;
  std::vector<Step> h; int n = rnd(2, 6); int created = 0;
  ll t = 0; ll D[MAXW]; ll dl[MAXW]; int st[MAXW];   // st: 0 not yet 1 alive 2 destroyed
  for (int i = 0; i < MAXW; ++i) { st[i] = 0; D[i] = 0; dl[i] = 0; }
  auto alive_unfired = [&](std::vector<int>& v) { v.clear(); for (int i = 0; i < n; ++i) if (st[i] == 1 && D[i] > t) v.push_back(i); };
  auto alive = [&](std::vector<int>& v) { v.clear(); for (int i = 0; i < n; ++i) if (st[i] == 1) v.push_back(i); };
  std::vector<int> v;
  for (int guard = 0; guard < 40; ++guard) {
    alive(v);
    if (created == n && v.empty()) break;
    int k = rnd(0, 99);
    if (k < 35 && created < n) {
      int i = created++; ll d;
      alive_unfired(v);
      int c = rnd(0, 9);
      if (c <= 2) d = rnd(1, 99);
      else if (c == 3) d = rnd(100, 300);
      else if (c == 4 && !v.empty()) d = dl[v[rnd(0, (int) v.size() - 1)]];
      else if (c == 5 && !v.empty()) { int j = v[rnd(0, (int) v.size() - 1)]; ll g = D[j] - t; d = (g % CS_US == 0 && g >= CS_US && g <= 300 * CS_US) ? g / CS_US : rnd(1, 300); }
      else if (c == 6) d = 1;
      else if (c == 7) d = coin() ? 100 : 200;
      else if (c == 8) d = rnd(1, 5);
      else d = rnd(1, 300);
      Step s; s.op = 0; s.slot = i; s.arg = d; s.flag = coin(20); h.push_back(s);
      st[i] = 1; dl[i] = d; D[i] = t + d * CS_US;
    }
    else if (k < 60 && !v.empty()) {
      int i = v[rnd(0, (int) v.size() - 1)];
      Step s; s.op = 1; s.slot = i; s.arg = 0; s.flag = false; h.push_back(s); st[i] = 2;
    }
    else {
      alive_unfired(v);
      ll nextD = -1, maxD = -1;
      for (size_t q = 0; q < v.size(); ++q) { if (nextD < 0 || D[v[q]] < nextD) nextD = D[v[q]]; if (D[v[q]] > maxD) maxD = D[v[q]]; }
      int c = rnd(0, 9); ll a;
      if (c <= 1) a = (ll) rnd(0, 40) * CS_US;
      else if (c == 2 && nextD >= 0) a = nextD - t;
      else if (c == 3 && nextD >= 0) a = std::max<ll>(0, nextD - t - rnd(1, 30));
      else if (c == 4 && nextD >= 0) a = nextD - t + rnd(1, 30);
      else if (c == 5) a = rnd(0, 500000);
      else if (c == 6) a = 0;
      else if (c == 7 && maxD >= 0) a = maxD - t + 1;
      else if (c == 8) a = rnd(1, 999);
      else a = (ll) rnd(0, 3) * 1000000 + rnd(0, 999999);
      Step s; s.op = 2; s.slot = -1; s.arg = a; s.flag = false; h.push_back(s); t += a;
    }
  }
  // every watchdog left alive: usually let all of them expire first, then destroy in random order
  alive(v);
  if (!v.empty() && coin(60)) { ll maxD = t; for (size_t q = 0; q < v.size(); ++q) maxD = std::max(maxD, D[v[q]]); Step s; s.op = 2; s.slot = -1; s.arg = maxD - t + rnd(0, 20000); s.flag = false; h.push_back(s); t += s.arg; }
  for (int i = created; i < n; ++i) { Step s; s.op = 0; s.slot = i; s.arg = rnd(1, 300); s.flag = false; h.push_back(s); st[i] = 1; }
  alive(v); std::shuffle(v.begin(), v.end(), hx::rng().g);
  for (size_t q = 0; q < v.size(); ++q) { Step s; s.op = 1; s.slot = v[q]; s.arg = 0; s.flag = false; h.push_back(s); }
  Step s; s.op = 2; s.slot = -1; s.arg = 3500000; s.flag = false; h.push_back(s);   // nothing may run after the destructors
  return h;
}

// Bring the library's static state back to "no watchdog" (only ever needed after a violation).
static void wd_force_clean() {
  WDPL& pl = wd_pending(); bool dirty = false; int guard = 0;
  while (!pl.empty() && guard++ < 64) { pl.erase(pl.begin()); dirty = true; }
  if (wd_in_cs()) { wd_in_cs() = false; dirty = true; }
  if (wd_running()) { wd_running() = false; dirty = true; }
  if (dirty) hx::count("wd.forced_reset");
  unblock_sigprof();
}
// The recycling list of Pending_Elements survives from run to run: put it into a state that is
// a function of the history alone (empty, or at least MAXW spare elements), so that every run of
// a case — and a replay of the case alone — takes the same allocation path in Pending_List::insert.
static void nop_fn() {}
static void wd_normalise_free_list(bool warm) {
  WDEL& fl = wd_free_list(); int guard = 0;
  while (!fl.empty() && guard++ < 1000) delete &*fl.begin();
  if (warm) {
    Watchdog* t[MAXW];
    for (int i = 0; i < MAXW; ++i) t[i] = new Watchdog(100 + i, nop_fn);
    for (int i = 0; i < MAXW; ++i) delete t[i];
  }
}

static std::string distinct_create_class(int i, ll d) {
  // relation of the new deadline with the pending ones (what new_watchdog_event branches on)
  ll nd = R.now + d * CS_US; int lt = 0, eq = 0, gt = 0;
  for (int j = 0; j < MAXW; ++j) if (j != i && R.M.pending(j)) { ll dj = R.M.dmax(j); if (dj < nd) ++lt; else if (dj == nd) ++eq; else ++gt; }
  return std::string(lt + eq + gt == 0 ? "fresh" : "running") + (lt ? "+after" : "") + (eq ? "+equal" : "") + (gt ? "+before" : "") + (d < 100 ? "/subsec" : "/sec");
}
static std::string distinct_destroy_class(int i) {
  if (R.M.w[i].fired) return "fired";
  int lt = 0, eq = 0, gt = 0;
  for (int j = 0; j < MAXW; ++j) if (j != i && R.M.pending(j)) { if (R.M.dmax(j) < R.M.dmax(i)) ++lt; else if (R.M.dmax(j) == R.M.dmax(i)) ++eq; else ++gt; }
  return std::string(lt ? "notfront" : "front") + (eq ? "+equal" : "") + (gt ? "+next" : (lt + eq ? "" : "+last"));
}

// One execution of a history with at most one in-bookkeeping placement.
static void run_wd(const std::vector<Step>& h, bool warm, int place, int mode, bool record) {
  R.active = false;
  wd_force_clean();
  wd_normalise_free_list(warm);
  R.record = record; R.place = place; R.mode = mode; R.nb = 0; R.brecs.clear(); R.place_id.clear(); R.place_done = false; R.place_armed = false; R.place_npend = 0;
  R.elapse_arg = place < 0 ? 0 : place / 2 + place;
  R.ctx = "idle"; R.delivering = 0; R.now = 0; R.armed_until = -1; R.interval = 0; R.nset = R.nget = R.nsig = R.nfired = 0;
  R.vkey.clear(); R.vdetail.clear(); R.list_suspect = false; R.log.clear();
  for (int i = 0; i < MAXW; ++i) { R.wd[i] = 0; R.flagkind[i] = false; wd_holder[i] = 0; wd_flag[i].id = i; R.since_enter[i] = R.since_exit[i] = 0; R.run_enter[i] = R.run_exit[i] = false; }
  R.M.reset();
  R.active = true;
  for (size_t s = 0; s < h.size() && R.vkey.empty(); ++s) {
    const Step& t = h[s];
    try {
      if (t.op == 0) {
        int i = t.slot; MW& m = R.M.w[i];
        hx::count("op.wd.create"); if (place < 0) hx::distinct("wd.create|" + distinct_create_class(i, t.arg));
        ev(std::string(t.flag ? "CF" : "C") + S(i) + "(" + S(t.arg) + "cs)");
        m.state = 1; m.t_enter = R.now; m.delay = t.arg * CS_US; m.t_exit = R.now; R.flagkind[i] = t.flag;
        R.ctx = "ctor"; R.run_enter[i] = true;
        R.wd[i] = t.flag ? new Watchdog(t.arg, wd_holder[i], wd_flag[i]) : new Watchdog(t.arg, wd_fns[i]);
        R.ctx = "idle"; R.run_exit[i] = true;
        m.t_exit = R.now; m.state = 2;
      }
      else if (t.op == 1) {
        int i = t.slot; MW& m = R.M.w[i];
        hx::count("op.wd.destroy"); if (place < 0) hx::distinct("wd.destroy|" + distinct_destroy_class(i));
        ev("D" + S(i));
        m.state = 3; R.ctx = "dtor";
        Watchdog* p = R.wd[i];
        delete p;
        R.wd[i] = 0; R.ctx = "idle"; m.state = 4;
      }
      else {
        hx::count("op.wd.advance"); ev("A" + S(t.arg));
        R.ctx = "adv"; unsigned f0 = R.nfired;
        advance(t.arg, false);
        R.ctx = "idle";
        if (place < 0 && R.nfired > f0) hx::distinct("wd.expire|" + S(std::min(3u, R.nfired - f0)) + "of" + S(std::min(3, R.M.npending() + (int) (R.nfired - f0))));
      }
    }
    catch (const std::exception& e) {
      unblock_sigprof();
      wd_viol(std::string("exception.") + (t.op == 0 ? "ctor" : t.op == 1 ? "dtor" : "advance"), std::string(typeid(e).name()) + ": " + e.what());
      R.list_suspect = true;
    }
    wd_quiescent();
  }
  // cleanup: destroy what is left (objects whose links are known wrong are parked, not deleted)
  R.ctx = "cleanup";
  bool clean_run = R.vkey.empty();
  R.active = clean_run;   // after a violation the remaining destructor calls are not monitored
  for (int i = 0; i < MAXW; ++i) if (R.wd[i]) {
    if (R.list_suspect && !R.M.w[i].fired) graveyard.push_back(R.wd[i]);
    else { try { delete R.wd[i]; } catch (const std::exception&) {} }
    R.wd[i] = 0; R.M.w[i].state = 4;
  }
  if (clean_run) {
    hx::checked();
    if (!wd_pending().empty()) wd_viol("list.stale_element", "active list not empty after every watchdog was destroyed");
    else if (wd_in_cs()) wd_viol("state.in_critical_section", "in_critical_section still set after the last destructor returned");
  }
  R.active = false;
  wd_force_clean();
  R.armed_until = -1;
}

static void run_wd_case() {
  std::vector<Step> h = gen_wd_history();
  bool warm = hx::coin(70);
  std::string hs = show(h) + (warm ? "[spare elements] " : "[no spare elements] ");
  hx::tr("wd: " + hs);
  hx::count("wd.histories");
  long only_place = hx::opt().geti("place", -2), only_mode = hx::opt().geti("mode", 1);
  std::set<std::string> reported;
  // returns true when the case must stop: a failure outside the class that DESIGN §4 item 13 describes
  // (runs of that class start from a clean library state, so the remaining placements stay meaningful)
  auto finish_run = [&](int place, int mode) -> bool {
    hx::count("wd.runs");
    if (R.vkey.empty()) return false;
    hx::count("wd.failed_runs");
    hx::count("viol_runs." + R.vkey);
    bool stop = R.vkey.find(":delivered-in-critical-section") == std::string::npos;
    if (reported.insert(R.vkey).second) {
      hx::trace() = "wd: " + hs + "| placement=" + S(place) + " mode=" + S(mode) + (place < 0 ? "" : " at " + R.place_id) + " | events: " + R.log;
      hx::violation(R.vkey, R.vdetail + " | replay: --kv place=" + S(place) + " --kv mode=" + S(mode));
      hx::trace() = "wd: " + hs;
    }
    return stop;
  };
  if (only_place >= -1) {   // replay of a single placement
    run_wd(h, warm, -1, 1, true);
    if (only_place >= 0) run_wd(h, warm, (int) only_place, (int) only_mode, false);
    finish_run((int) only_place, (int) only_mode);
    return;
  }
  run_wd(h, warm, -1, 1, true);
  std::vector<BRec> B = R.brecs;
  if (hx::opt().geti("dumpb", 0)) for (size_t i = 0; i < B.size(); ++i) fprintf(stderr, "boundary %zu %s armed=%d npend=%d\n", i, B[i].id.c_str(), (int) B[i].armed, B[i].npend);
  hx::count("wd.signals_plain", R.nsig); hx::count("wd.fired_plain", R.nfired);
  finish_run(-1, 1);
  if (!R.vkey.empty()) return;      // the plain run is already wrong: placements would only repeat it
  int nmodes = hx::opt().thorough ? 3 : 2;
  int cap = (int) hx::opt().geti("maxplace", 400);
  hx::count("wd.boundaries", B.size());
  for (int p = 0; p < (int) B.size() && p < cap; ++p)
    for (int mode = 0; mode < nmodes; ++mode) {
      if (mode >= 1 && !B[p].armed) { hx::count("wd.placements_skipped_not_armed"); continue; }
      run_wd(h, warm, p, mode, false);
      if (!R.place_done) { hx::violation("harness.bug.placement_not_reached", "placement " + S(p) + " of " + S((long) B.size())); return; }
      if (R.place_id != B[p].id) { hx::violation("harness.bug.placement_diverged", R.place_id + " vs " + B[p].id); return; }
      hx::count(mode == 0 ? "wd.placements_elapse" : "wd.placements_deliver");
      if (mode >= 1 && R.M.ndef > 0) hx::count("wd.runs_with_deferred_delivery");
      if (B[p].armed)   // non-trivial: a watchdog event is scheduled when the placement acts
        hx::distinct("wd.place|" + B[p].id + "|m" + S(mode) + "|n" + S(B[p].npend) + "|def" + S(std::min(2, R.M.ndef)) + "|" + (R.vkey.empty() ? "ok" : R.vkey));
      if (finish_run(p, mode)) return;
    }
}

// =====================================================================================
//                                     ww half
// =====================================================================================
struct WW { WWatcher* w; int state; ull T; int fired; int kind; };   // state 0 none 2 alive 4 destroyed; kind 0 function 1 private flag holder 2 abandon_expensive_computations
struct WwRun {
  WW w[MAXW]; int in_check; unsigned long nchecks; std::vector<int> firelog;
  std::string vkey, vdetail, log; bool in_op; bool list_suspect; std::set<std::string> soft;
};
static WwRun W;
static const Throwable* volatile ww_holder[MAXW];
static WFlag ww_flag[MAXW];
static std::vector<WWatcher*>& ww_graveyard = *new std::vector<WWatcher*>;
static void (*ww_real_check)() = 0;

static void wev(const std::string& s) { W.log += s; W.log += ' '; if (hx::opt().verbose) { fprintf(stderr, "   [w=%llu] %s\n", (ull) Weightwatch_Traits::weight, s.c_str()); fflush(stderr); } }
static void ww_viol(const std::string& what, const std::string& detail) {
  if (!W.vkey.empty()) return;
  W.vkey = "C19.ww." + what; W.vdetail = detail; wev("VIOLATION " + W.vkey);
}
static bool ww_reached(ull w, ull T) { return w - T < (1ULL << 63); }       // weight >= threshold, modulo 2^64
static bool ww_pending_m(int i) { return W.w[i].state == 2 && !W.w[i].fired; }
static void ww_poll_flags();
static void ww_fire(int i, bool polled = false) {
  if (!polled) ww_poll_flags();   // flag-kind handlers that ran before this one are recorded first
  hx::checked(3); hx::count("ww.fired");
  ull w = Weightwatch_Traits::weight; WW& m = W.w[i];
  wev("fire" + S(i));
  if (m.state != 2) { ww_viol("after_destruction", "watcher " + S(i) + " triggered at weight " + SU(w) + " but is not alive"); return; }
  if (m.fired) { ww_viol("twice", "watcher " + S(i) + " triggered again at weight " + SU(w)); return; }
  m.fired = 1; W.firelog.push_back(i);
  if (!W.in_check) { ww_viol("outside_check", "watcher " + S(i) + " triggered outside any abandonment check"); return; }
  if (!ww_reached(w, m.T)) ww_viol("early", "watcher " + S(i) + " with threshold " + SU(m.T) + " triggered at weight " + SU(w));
}
template <int I> static void ww_fn() { ww_fire(I); }
static void (*const ww_fns[MAXW])() = { ww_fn<0>, ww_fn<1>, ww_fn<2>, ww_fn<3>, ww_fn<4>, ww_fn<5>, ww_fn<6>, ww_fn<7> };
static void ww_poll_flags() {
  int q[MAXW]; int n = 0; ull w = Weightwatch_Traits::weight;
  for (int i = 0; i < MAXW; ++i) {
    if (W.w[i].kind == 1 && ww_holder[i] != 0) { ww_holder[i] = 0; q[n++] = i; }
    if (W.w[i].kind == 2 && W.w[i].state == 2 && !W.w[i].fired && abandon_expensive_computations == &ww_flag[i]) q[n++] = i;
  }
  std::sort(q, q + n, [w](int a, int b) { return w - W.w[a].T > w - W.w[b].T; });
  for (int k = 0; k < n; ++k) ww_fire(q[k], true);
}
static void ww_expected(ull w, std::vector<int>& e) { e.clear(); for (int i = 0; i < MAXW; ++i) if (ww_pending_m(i) && ww_reached(w, W.w[i].T)) e.push_back(i); }
// Compare what one check triggered with what the shadow queue demands.
static void ww_verify(ull w, const std::vector<int>& exp, size_t mark, const char* where) {
  if (!W.vkey.empty()) return;
  hx::checked(); hx::count("ww.checks_verified");
  std::vector<int> got(W.firelog.begin() + mark, W.firelog.end());
  for (size_t k = 0; k < exp.size(); ++k)
    if (std::find(got.begin(), got.end(), exp[k]) == got.end()) {
      bool eq = W.w[exp[k]].T == w;
      std::string d = "watcher " + S(exp[k]) + " threshold " + SU(W.w[exp[k]].T) + " did not trigger at the " + where + " check with weight " + SU(w);
      if (!eq) { ww_viol("no_trigger", d); return; }
      // weight == threshold: reported once per case; the run goes on (the watcher stays pending in
      // the shadow queue and must trigger at the first check with a larger weight)
      hx::count("ww.equal_weight_not_triggered");
      if (W.soft.insert("no_trigger:weight-equals-threshold").second) {
        std::string keep = hx::trace(); hx::trace() = keep + "| events: " + W.log;
        hx::violation("C19.ww.no_trigger:weight-equals-threshold", d);
        hx::trace() = keep;
      }
    }
  for (size_t k = 1; k < got.size(); ++k)
    if (w - W.w[got[k - 1]].T < w - W.w[got[k]].T) { ww_viol("order", "watcher " + S(got[k - 1]) + " (threshold " + SU(W.w[got[k - 1]].T) + ") triggered before watcher " + S(got[k]) + " (threshold " + SU(W.w[got[k]].T) + ")"); return; }
  std::string tok = std::string("ww.check|") + where + "|pend" + S(std::min<size_t>(3, exp.size() + 0)) + "|got" + S(std::min<size_t>(3, got.size()));
  int np = 0; for (int i = 0; i < MAXW; ++i) if (ww_pending_m(i)) ++np;
  if (np + got.size() > 0) hx::distinct(tok + "|left" + S(std::min(3, np)) + (w > (1ULL << 63) ? "|hi" : "|lo"));
}
static void ww_check_wrapper() {
  ++W.nchecks; hx::count(W.in_op ? "ww.checks_inside_ppl_ops" : "ww.checks_direct");
  ull w = Weightwatch_Traits::weight;
  std::vector<int> exp; ww_expected(w, exp);
  size_t mark = W.firelog.size();
  ++W.in_check;
  if (ww_real_check) ww_real_check();
  ww_poll_flags();
  --W.in_check;
  ww_verify(w, exp, mark, W.in_op ? "internal" : "direct");
}
static void ww_wrap() {
  if (Weightwatch_Traits::check_function != 0 && Weightwatch_Traits::check_function != ww_check_wrapper) {
    ww_real_check = Weightwatch_Traits::check_function; Weightwatch_Traits::check_function = ww_check_wrapper;
  }
}
static void ww_list_check() {
  hx::checked();
  WWPL& pl = ww_pending(); bool seen[MAXW]; for (int i = 0; i < MAXW; ++i) seen[i] = false;
  int n = 0; bool have_prev = false; ull prev = 0;
  for (WWPL::iterator it = pl.begin(); it != pl.end(); ++it) {
    if (++n > 2 * MAXW) { W.list_suspect = true; ww_viol("list.cycle", "too many elements in the active list"); return; }
    int owner = -1;
    for (int i = 0; i < MAXW; ++i) if (W.w[i].w && W.w[i].state == 2 && &ww_expired(*W.w[i].w) == &it->expired_flag()) owner = i;
    if (owner < 0 || !ww_pending_m(owner)) { W.list_suspect = true; ww_viol("list.stale_element", "active element #" + S(n) + " belongs to no alive unfired watcher"); return; }
    if (seen[owner]) { W.list_suspect = true; ww_viol("list.duplicate", "watcher " + S(owner) + " twice in the active list"); return; }
    seen[owner] = true;
    if (it->deadline() != W.w[owner].T) { ww_viol("list.threshold", "watcher " + S(owner) + " stored threshold " + SU(it->deadline()) + " expected " + SU(W.w[owner].T)); return; }
    if (have_prev && Weightwatch_Traits::less_than(it->deadline(), prev) && it->deadline() != prev) { ww_viol("list.unsorted", "active element #" + S(n) + " smaller than predecessor"); return; }
    prev = it->deadline(); have_prev = true;
  }
  for (int i = 0; i < MAXW; ++i) if (ww_pending_m(i) && !seen[i]) { W.list_suspect = true; ww_viol("list.missing", "watcher " + S(i) + " alive and unfired but not in the active list"); return; }
}

// A direct check by the harness (the wrapper may or may not be in place).
static void ww_direct_check() {
  ull w = Weightwatch_Traits::weight;
  std::vector<int> exp; ww_expected(w, exp);
  size_t mark = W.firelog.size(); unsigned long n0 = W.nchecks;
  int thrown = -2; bool must_throw_before = abandon_expensive_computations != 0;
  ++W.in_check;
  try { maybe_abandon(); }
  catch (const WFlag& f) { thrown = f.id; }
  ww_poll_flags();
  --W.in_check;
  if (W.nchecks == n0) ww_verify(w, exp, mark, "direct-unwrapped");
  // abandon plumbing: a kind-2 watcher that has triggered makes maybe_abandon() throw its flag
  int holder = -1; for (int i = 0; i < MAXW; ++i) if (abandon_expensive_computations == &ww_flag[i]) holder = i;
  hx::checked();
  if (holder >= 0 && thrown != holder) ww_viol("abandon_not_thrown", "abandon_expensive_computations holds flag " + S(holder) + " but maybe_abandon() " + (thrown == -2 ? "returned" : "threw flag " + S(thrown)));
  else if (holder < 0 && thrown != -2) ww_viol("abandon_spurious", "maybe_abandon() threw flag " + S(thrown) + " with an empty holder");
  (void) must_throw_before;
  if (holder >= 0) { hx::count("ww.abandon_thrown"); abandon_expensive_computations = 0; }
}

// Real PPL work that accumulates weight and polls maybe_abandon() internally.
static void ww_ppl_op(int kind, unsigned seed) {
  std::mt19937 g(seed);
  auto r = [&](int lo, int hi) { return lo + (int) (g() % (unsigned) (hi - lo + 1)); };
  int n = r(2, 4);
  W.in_op = true;
  int thrown = -2;
  try {
    if (kind == 0) {
      C_Polyhedron ph(n);
      for (int i = 0; i < n; ++i) { ph.add_constraint(Variable(i) >= -r(1, 4)); ph.add_constraint(Variable(i) <= r(1, 4)); }
      int extra = r(0, 4);
      for (int k = 0; k < extra; ++k) { Linear_Expression e; for (int i = 0; i < n; ++i) e += r(-2, 2) * Variable(i); ph.add_constraint(e <= r(0, 5)); }
      (void) ph.minimized_generators();
      hx::count("op.ww.conversion");
    }
    else {
      MIP_Problem mip(n);
      Linear_Expression obj;
      for (int i = 0; i < n; ++i) { mip.add_constraint(Variable(i) >= 0); mip.add_constraint(Variable(i) <= r(1, 6)); obj += r(-3, 3) * Variable(i); }
      int extra = r(1, 3);
      for (int k = 0; k < extra; ++k) { Linear_Expression e; for (int i = 0; i < n; ++i) e += r(0, 3) * Variable(i); mip.add_constraint(e <= r(2, 9)); }
      mip.set_objective_function(obj); mip.set_optimization_mode(MAXIMIZATION);
      (void) mip.solve();
      hx::count("op.ww.mip");
    }
  }
  catch (const WFlag& f) { thrown = f.id; }
  W.in_op = false;
  int holder = -1; for (int i = 0; i < MAXW; ++i) if (abandon_expensive_computations == &ww_flag[i]) holder = i;
  hx::checked();
  if (thrown != -2) {
    hx::count("ww.ppl_op_abandoned");
    if (thrown != holder) ww_viol("abandon_spurious", "PPL operation threw flag " + S(thrown) + " but the holder has " + S(holder));
    else if (!W.w[thrown].fired) ww_viol("abandon_spurious", "PPL operation threw the flag of watcher " + S(thrown) + " which has not triggered");
    abandon_expensive_computations = 0;
  }
  else if (holder >= 0 && W.w[holder].fired && W.w[holder].kind == 2) {
    // triggered at an internal check, yet the operation ran to completion past that check
    ww_viol("abandon_not_thrown", "watcher " + S(holder) + " installed its flag at an internal check but the PPL operation completed");
    abandon_expensive_computations = 0;
  }
}

struct WStep { int op; int slot; ull arg; int kind; };  // 0 create(delta) 1 destroy 2 add 3 check 4 ppl-op
static std::string show(const std::vector<WStep>& h, ull base) {
  std::string s = "base=" + SU(base) + " ";
  for (size_t i = 0; i < h.size(); ++i) {
    const WStep& t = h[i];
    if (t.op == 0) s += "C" + S(t.slot) + "(+" + SU(t.arg) + (t.kind == 0 ? "" : t.kind == 1 ? ",flag" : ",abandon") + ") ";
    else if (t.op == 1) s += "D" + S(t.slot) + " ";
    else if (t.op == 2) s += "W+" + SU(t.arg) + " ";
    else if (t.op == 3) s += "K ";
    else if (t.op == 5) s += std::string("W->T") + (t.kind < 0 ? "-1 " : t.kind > 0 ? "+1 " : " ");
    else s += std::string(t.kind == 0 ? "OPconv" : "OPmip") + "(" + SU(t.arg) + ") ";
  }
  return s;
}

static void run_ww_case() {
  using hx::rnd; using hx::coin;
  // ---- history ----
  ull base;
  { int c = rnd(0, 5); base = c == 0 ? 0 : c == 1 ? (ull) hx::rng()() >> rnd(1, 40) : c == 2 ? ~0ULL - (ull) rnd(0, 300) : c == 3 ? (1ULL << 63) - (ull) rnd(0, 300) : c == 4 ? (ull) rnd(0, 1000) : ~0ULL - (ull) rnd(0, 20000); }
  int n = rnd(1, 5), created = 0; bool used_abandon = false;
  std::vector<WStep> h; int st[MAXW]; for (int i = 0; i < MAXW; ++i) st[i] = 0;
  bool big = coin(50);     // scale of the deltas: direct additions (small) or PPL operations (large)
  for (int guard = 0; guard < 30; ++guard) {
    std::vector<int> al; for (int i = 0; i < n; ++i) if (st[i] == 1) al.push_back(i);
    if (created == n && al.empty()) break;
    int k = rnd(0, 99); WStep s; s.slot = -1; s.arg = 0; s.kind = 0;
    if (k < 28 && created < n) {
      s.op = 0; s.slot = created++; int c = rnd(0, 9);
      s.arg = c == 0 ? 1 : c <= 3 ? (ull) rnd(1, 12) : c <= 6 ? (ull) rnd(1, big ? 4000 : 60) : c == 7 ? (ull) rnd(1, 40000) : c == 8 ? (1ULL << 62) + (ull) rnd(0, 9) : (ull) rnd(1, big ? 800 : 30);
      s.kind = coin(65) ? 0 : (!used_abandon && coin(50) ? 2 : 1); if (s.kind == 2) used_abandon = true;
      st[s.slot] = 1;
    }
    else if (k < 43 && !al.empty()) { s.op = 1; s.slot = al[rnd(0, (int) al.size() - 1)]; st[s.slot] = 2; }
    else if (k < 52) { s.op = 5; s.kind = rnd(-1, 1); }
    else if (k < 65) { s.op = 2; int c = rnd(0, 5); s.arg = c == 0 ? 0 : c == 1 ? 1 : c <= 3 ? (ull) rnd(1, 12) : (ull) rnd(1, big ? 3000 : 50); }
    else if (k < 85) s.op = 3;
    else { s.op = 4; s.kind = rnd(0, 1); s.arg = (ull) (hx::rng()() & 0xffffff); }
    h.push_back(s);
  }
  { WStep s; s.op = 3; s.slot = -1; s.arg = 0; s.kind = 0; h.push_back(s); }
  for (int i = created; i < n; ++i) st[i] = 0;
  { std::vector<int> al; for (int i = 0; i < n; ++i) if (st[i] == 1) al.push_back(i); std::shuffle(al.begin(), al.end(), hx::rng().g);
    for (size_t q = 0; q < al.size(); ++q) { WStep s; s.op = 1; s.slot = al[q]; s.arg = 0; s.kind = 0; h.push_back(s); } }
  { WStep s; s.op = 2; s.slot = -1; s.arg = 100000; s.kind = 0; h.push_back(s); s.op = 3; h.push_back(s); }   // nothing triggers after destruction
  std::string hs = show(h, base);
  hx::tr("ww: " + hs);
  hx::count("ww.histories");

  // ---- execution ----
  for (int i = 0; i < MAXW; ++i) { W.w[i].w = 0; W.w[i].state = 0; W.w[i].T = 0; W.w[i].fired = 0; W.w[i].kind = 0; ww_holder[i] = 0; ww_flag[i].id = i; }
  W.in_check = 0; W.nchecks = 0; W.firelog.clear(); W.vkey.clear(); W.vdetail.clear(); W.log.clear(); W.in_op = false; W.list_suspect = false; W.soft.clear();
  abandon_expensive_computations = 0;
  { WWPL& pl = ww_pending(); int g = 0; bool dirty = false; while (!pl.empty() && g++ < 64) { pl.erase(pl.begin()); dirty = true; } if (dirty) { Weightwatch_Traits::check_function = 0; hx::count("ww.forced_reset"); } }
  Weightwatch_Traits::weight = base;
  for (size_t s = 0; s < h.size() && W.vkey.empty(); ++s) {
    const WStep& t = h[s];
    try {
      if (t.op == 0) {
        int i = t.slot; WW& m = W.w[i];
        hx::count("op.ww.create"); wev("C" + S(i) + "(+" + SU(t.arg) + ")");
        m.T = Weightwatch_Traits::weight + t.arg; m.kind = t.kind; m.fired = 0;
        if (t.kind == 0) m.w = new WWatcher(t.arg, ww_fns[i]);
        else if (t.kind == 1) m.w = new WWatcher(t.arg, ww_holder[i], ww_flag[i]);
        else m.w = new WWatcher(t.arg, abandon_expensive_computations, ww_flag[i]);
        m.state = 2;
        ww_wrap();
      }
      else if (t.op == 1) {
        int i = t.slot; WW& m = W.w[i];
        hx::count("op.ww.destroy"); wev("D" + S(i));
        WWatcher* p = m.w; m.w = 0; delete p; m.state = 4;
      }
      else if (t.op == 2) { hx::count("op.ww.add"); wev("W+" + SU(t.arg)); Weightwatch_Traits::weight += t.arg; }
      else if (t.op == 3) { hx::count("op.ww.check"); wev("K"); ww_direct_check(); }
      else if (t.op == 5) {   // move the weight to (just below / exactly / just above) the nearest pending threshold
        ull w = Weightwatch_Traits::weight, best = 0; bool have = false;
        for (int i = 0; i < MAXW; ++i) if (ww_pending_m(i) && !ww_reached(w, W.w[i].T) && (!have || W.w[i].T - w < best)) { best = W.w[i].T - w; have = true; }
        if (have && best < (1ULL << 40)) { ull d = best + (ull) (ll) t.kind; if (best == 0 && t.kind < 0) d = 0; hx::count("op.ww.add_to_threshold"); wev("W+" + SU(d)); Weightwatch_Traits::weight += d; }
      }
      else { wev("OP"); ull w0 = Weightwatch_Traits::weight; ww_ppl_op(t.kind, (unsigned) t.arg); pplx::note_weight(t.kind == 0 ? "ww.conversion" : "ww.mip", Weightwatch_Traits::weight - w0); }
    }
    catch (const std::exception& e) {
      ww_viol(std::string("exception.") + (t.op == 0 ? "ctor" : t.op == 1 ? "dtor" : t.op == 3 ? "check" : "op"), std::string(typeid(e).name()) + ": " + e.what());
    }
    if (W.vkey.empty()) { ww_poll_flags(); ww_list_check(); }
  }
  for (int i = 0; i < MAXW; ++i) if (W.w[i].w) {
    if (W.list_suspect && !W.w[i].fired) ww_graveyard.push_back(W.w[i].w);
    else { try { delete W.w[i].w; } catch (const std::exception&) {} }
    W.w[i].w = 0; W.w[i].state = 4;
  }
  abandon_expensive_computations = 0;
  if (W.vkey.empty()) {
    hx::checked();
    if (!ww_pending().empty()) ww_viol("list.stale_element", "active list not empty after every watcher was destroyed");
  }
  if (!W.vkey.empty()) {
    hx::trace() = "ww: " + hs + "| events: " + W.log;
    hx::violation(W.vkey, W.vdetail);
  }
}

// =====================================================================================
//   soak profile (thorough tier): the real ITIMER_PROF, asynchronous delivery, busy loops.
//   Verdicts: handler ran twice / after its destructor returned (and whatever the
//   sanitizers say).  Timing is never a verdict.  Handlers only touch sig_atomic_t.
// =====================================================================================
static volatile sig_atomic_t soak_fired[MAXW], soak_dead[MAXW], soak_after[MAXW];
template <int I> static void soak_fn() { ++soak_fired[I]; if (soak_dead[I]) ++soak_after[I]; }
static void (*const soak_fns[MAXW])() = { soak_fn<0>, soak_fn<1>, soak_fn<2>, soak_fn<3>, soak_fn<4>, soak_fn<5>, soak_fn<6>, soak_fn<7> };
static volatile unsigned long soak_sink;
static void burn(long cpu_us) {   // consume process CPU time (what ITIMER_PROF measures)
  clock_t c0 = clock(); long guard = 0;
  while ((long) ((clock() - c0) * (1000000.0 / CLOCKS_PER_SEC)) < cpu_us && guard++ < 200000000L) for (int k = 0; k < 2000; ++k) soak_sink += k * k;
}
static void run_soak_case() {
  using hx::rnd; using hx::coin;
  g_soak = true; wd_normalise_free_list(coin());
  int n = rnd(2, 6); Watchdog* w[MAXW]; int order[MAXW];
  for (int i = 0; i < MAXW; ++i) { soak_fired[i] = 0; soak_dead[i] = 0; soak_after[i] = 0; w[i] = 0; order[i] = i; }
  std::string t = "soak:";
  for (int i = 0; i < n; ++i) {
    int d = coin(30) ? 1 : rnd(1, 6); t += " C" + S(i) + "(" + S(d) + "cs)";
    w[i] = new Watchdog(d, soak_fns[i]); hx::count("op.soak.create");
    if (coin(40)) { int b = rnd(0, 30000); t += " burn" + S(b); burn(b); }
    if (coin(15) && i > 0) { int j = rnd(0, i - 1); if (w[j]) { t += " D" + S(j); delete w[j]; w[j] = 0; soak_dead[j] = 1; hx::count("op.soak.destroy"); } }
  }
  hx::tr(t);
  if (coin(70)) burn(rnd(0, 80000));
  std::shuffle(order, order + n, hx::rng().g);
  for (int k = 0; k < n; ++k) { int i = order[k]; if (w[i]) { delete w[i]; w[i] = 0; soak_dead[i] = 1; hx::count("op.soak.destroy"); if (coin(30)) burn(rnd(0, 15000)); } }
  burn(20000);    // anything still armed would fire here, after every destructor returned
  g_soak = false;
  for (int i = 0; i < n; ++i) {
    hx::checked(2); hx::count("soak.fired", soak_fired[i]);
    if (soak_fired[i] > 1) { hx::violation("C19.wd.twice:real-timer", "handler " + S(i) + " ran " + S(soak_fired[i]) + " times"); return; }
    if (soak_after[i] > 0) { hx::violation("C19.wd.after_destruction:real-timer", "handler " + S(i) + " ran after its destructor returned"); return; }
  }
  hx::checked(); if (!wd_pending().empty()) hx::violation("C19.wd.list.stale_element:real-timer", "active list not empty after every watchdog was destroyed");
}

// =====================================================================================
static void run_case(uint64_t) {
  const std::string& p = hx::opt().profile;
  if (p == "soak") { run_soak_case(); return; }
  bool wd = p == "wd" ? true : p == "ww" ? false : hx::coin(70);
  if (wd) run_wd_case(); else run_ww_case();
}
static void at_exit() {
  hx::count("wd.graveyard", graveyard.size());
  hx::count("wd.source_failpoint_calls", g_point_calls);
}
int main(int argc, char** argv) {
  R.active = false; R.armed_until = -1; R.ctx = "idle";
  if (&ppl_verif_point_hook != 0) { ppl_verif_point_hook = hook_fn; hx::count("wd.point_hook_installed"); }
#ifdef PPL_VERIF_POINT
  Parma_Polyhedra_Library::Implementation::Verif::point_hook = hook_fn; hx::count("wd.point_hook_installed");
#endif
  unblock_sigprof();
  return hx::main_loop(argc, argv, run_case, at_exit);
}
