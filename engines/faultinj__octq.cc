// faultinj: scenarios and rejected calls on Octagonal_Shape<mpq_class> (see harness/faultinj_shapes.hh).
#include "faultinj_shapes.hh"
using namespace Parma_Polyhedra_Library;
FI_REGISTER_SHAPE(Octagonal_Shape<mpq_class>, "Octagonal_Shape<mpq_class>", fi::K_OCT, true);
