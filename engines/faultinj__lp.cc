// faultinj: scenarios and rejected calls on the solvers (MIP_Problem, PIP_Problem and its solution tree).
#include "faultinj.hh"
using namespace fi;
using pplx::str;

namespace {
int rdim() { return rnd(1, hx::opt().thorough ? 4 : 3); }

// ------------------------------------------------------------------ MIP
Constraint_System mip_cs(int n, int m, bool feasible_bias) {
  Constraint_System cs;
  std::vector<int> pt = rpoint(n);
  for (int i = 0; i < m; ++i) cs.insert(feasible_bias ? rcon_through(n, pt, false, 15) : pplx::rand_con(n, false));
  for (int i = 0; i < n; ++i) if (coin(70)) { cs.insert(Variable(i) >= pt[i] - rnd(0, 5)); if (coin(80)) cs.insert(Variable(i) <= pt[i] + rnd(0, 5)); }
  return cs;
}
MIP_Problem rmip(int n) {
  MIP_Problem m(n);
  m.add_constraints(mip_cs(n, rnd(1, 4), coin(80)));
  m.set_objective_function(rexpr(n));
  m.set_optimization_mode(coin() ? MAXIMIZATION : MINIMIZATION);
  if (coin(40)) { Variables_Set iv; for (int i = 0; i < n; ++i) if (coin()) iv.insert(Variable(i)); m.add_to_integer_space_dimensions(iv); }
  if (coin(30)) m.set_control_parameter(coin() ? MIP_Problem::PRICING_STEEPEST_EDGE_EXACT : MIP_Problem::PRICING_TEXTBOOK);
  int st = rnd(0, 3);
  if (st == 0) (void) m.solve();                 // solved: incremental paths are taken by later additions
  else if (st == 1) (void) m.is_satisfiable();
  return m;
}
MIP_Problem fresh_mip(int n) { MIP_Problem m(n); if (n > 0) { m.add_constraint(Variable(0) >= 0); m.add_constraint(Variable(0) <= 3); m.set_objective_function(Variable(0)); } return m; }
void use_mip(MIP_Problem& m) {
  int n = (int) m.space_dimension();
  if (n > 0) { m.add_constraint(Variable(0) <= 9); m.add_constraint(Variable(n - 1) >= -9); }
  MIP_Problem_Status s = m.solve();
  if (s == OPTIMIZED_MIP_PROBLEM) { Coefficient a, b; m.optimal_value(a, b); (void) m.optimizing_point(); }
  if (s != UNFEASIBLE_MIP_PROBLEM) (void) m.feasible_point();
}
std::string mip_val(const MIP_Problem& m) {
  std::ostringstream o; o << m.space_dimension() << ":" << str(m.objective_function()) << ":" << (m.optimization_mode() == MAXIMIZATION ? "max" : "min") << ":" << str(m.integer_space_dimensions()) << ":";
  for (MIP_Problem::const_iterator i = m.constraints_begin(); i != m.constraints_end(); ++i) o << str(*i) << ";";
  return o.str();
}
std::string mip_result(const MIP_Problem& m0) {
  MIP_Problem m(m0); std::ostringstream o; MIP_Problem_Status s = m.solve(); o << (int) s;
  if (s == OPTIMIZED_MIP_PROBLEM) { Coefficient a, b; m.optimal_value(a, b); o << ":" << a << "/" << b; }
  return o.str();
}
#define MIPEQ [](const MIP_Problem& a, const MIP_Problem& b) { return mip_val(a) == mip_val(b); }
#define POSTM(name, obj) c.post(name, obj, fresh_mip((int) (obj).space_dimension()), use_mip, MIPEQ)

SCENARIO("MIP_Problem.solve") { int n = rdim(); MIP_Problem m(n); m.add_constraints(mip_cs(n, rnd(1, 5), true)); m.set_objective_function(rexpr(n)); if (coin()) m.set_optimization_mode(MINIMIZATION);
  c.run([&] { (void) m.solve(); }); c.result([&] { return mip_result(m); }); POSTM("m", m); }
SCENARIO("MIP_Problem.solve_integer") { int n = rdim(); MIP_Problem m(n); m.add_constraints(mip_cs(n, rnd(1, 4), true)); m.set_objective_function(rexpr(n));
  Variables_Set iv; for (int i = 0; i < n; ++i) if (coin(70)) iv.insert(Variable(i)); m.add_to_integer_space_dimensions(iv);
  c.run([&] { (void) m.solve(); }); c.result([&] { return mip_result(m); }); POSTM("m", m); }
SCENARIO("MIP_Problem.incremental_solve") { int n = rdim(); MIP_Problem m = rmip(n); (void) m.solve(); Constraint_System more = mip_cs(n, rnd(1, 2), true);
  c.run([&] { m.add_constraints(more); (void) m.solve(); }); c.result([&] { return mip_result(m); }); POSTM("m", m); }
SCENARIO("MIP_Problem.incremental_add_dimensions") { int n = rdim(); MIP_Problem m = rmip(n); (void) m.solve(); int k = rnd(1, 2);
  c.run([&] { m.add_space_dimensions_and_embed(k); m.add_constraint(Variable(n) + Variable(0) <= 4); m.add_constraint(Variable(n + k - 1) >= -2); (void) m.solve(); }); c.result([&] { return mip_result(m); }); POSTM("m", m); }
SCENARIO("MIP_Problem.change_objective") { int n = rdim(); MIP_Problem m = rmip(n); (void) m.solve(); Linear_Expression e = rexpr(n);
  c.run([&] { m.set_objective_function(e); m.set_optimization_mode(coin() ? MAXIMIZATION : MINIMIZATION); (void) m.solve(); }); c.result([&] { return mip_result(m); }); POSTM("m", m); }
SCENARIO("MIP_Problem.add_constraint") { int n = rdim(); MIP_Problem m = rmip(n); Constraint k = pplx::rand_con(n, false);
  c.run([&] { m.add_constraint(k); }); c.result([&] { return mip_val(m); }); POSTM("m", m); }
SCENARIO("MIP_Problem.is_satisfiable") { int n = rdim(); MIP_Problem m = rmip(n);
  bool s = false; c.run([&] { s = m.is_satisfiable(); if (s) (void) m.feasible_point(); }); c.result([&] { return mip_val(m) + (s ? "T" : "F"); }); POSTM("m", m); }
SCENARIO("MIP_Problem.add_to_integer_space_dimensions") { int n = rdim(); MIP_Problem m = rmip(n); (void) m.solve(); Variables_Set iv; iv.insert(Variable(rnd(0, n - 1)));
  c.run([&] { m.add_to_integer_space_dimensions(iv); (void) m.solve(); }); c.result([&] { return mip_result(m); }); POSTM("m", m); }
SCENARIO("MIP_Problem.optimal_value_points") { int n = rdim(); MIP_Problem m = rmip(n); std::ostringstream r;
  c.run([&] { if (m.solve() == OPTIMIZED_MIP_PROBLEM) { Coefficient a, b; m.optimal_value(a, b); Generator g = m.optimizing_point(); Coefficient x, y; m.evaluate_objective_function(g, x, y); r << a << "/" << b << (a * y == b * x); } });
  c.result([&] { return mip_val(m) + r.str(); }); POSTM("m", m); }
SCENARIO("MIP_Problem.construct_from_system") { int n = rdim(); Constraint_System cs = mip_cs(n, rnd(1, 4), true); Linear_Expression obj = rexpr(n); MIP_Problem out(0);
  c.run([&] { MIP_Problem m(n, cs, obj, MAXIMIZATION); MIP_Problem k(n, cs.begin(), cs.end(), obj, MINIMIZATION); (void) k.solve(); out.m_swap(m); }); c.result([&] { return mip_val(out); }); POSTM("out", out); }
enum Cpy { COPY, ASSIGN, SWAP, CLEAR, DUMP, LOAD, PRINT };
template <int OP> void s_mip_copy(Ctx& c) {
  int n = rdim(); MIP_Problem a = rmip(n), b = rmip(rnd(1, 2));
  // (MIP_Problem::ascii_load appends to the constraints the target already holds - a C15 matter - so the target of LOAD starts empty)
  if (OP == LOAD) b = MIP_Problem();
  std::string text = dump(a), out; bool ok = true;
  c.run([&] {
    switch (OP) {
    case COPY: { MIP_Problem t(a); (void) t.solve(); break; }
    case ASSIGN: b = a; break;
    case SWAP: { MIP_Problem t(a); t.m_swap(b); swap(t, b); break; }
    case CLEAR: { MIP_Problem t(a); t.clear(); b.m_swap(t); break; }
    case DUMP: { std::ostringstream o; a.ascii_dump(o); out = o.str(); break; }
    case LOAD: { std::istringstream i(text); ok = b.ascii_load(i); break; }
    case PRINT: { std::ostringstream o; using namespace IO_Operators; o << a; out = o.str(); break; }
    }
  });
  c.result([&] { return mip_val(a) + mip_val(b) + (ok ? "T" : "F") + (OP == DUMP ? out : std::string()); });
  if (OP == LOAD && !c.threw && c.mode <= COUNT && (!ok || mip_val(a) != mip_val(b))) c.fail("ascii_load_failed", "ascii_load of an ascii_dump failed without any injected failure");
  POSTM("a", a); POSTM("b", b);
}
static RegS m1("MIP_Problem.copy_construct", s_mip_copy<COPY>), m2("MIP_Problem.assign", s_mip_copy<ASSIGN>), m3("MIP_Problem.swap", s_mip_copy<SWAP>), m4("MIP_Problem.clear", s_mip_copy<CLEAR>),
  m5("MIP_Problem.ascii_dump", s_mip_copy<DUMP>), m6("MIP_Problem.ascii_load", s_mip_copy<LOAD>), m7("MIP_Problem.print", s_mip_copy<PRINT>);

// ------------------------------------------------------------------ PIP
struct PipArgs { int nv, np; Constraint_System cs; Variables_Set params; };
PipArgs rpip_args() {
  PipArgs a; a.nv = rnd(1, 2); a.np = rnd(1, hx::opt().thorough ? 2 : 2);
  int n = a.nv + a.np;
  for (int i = 0; i < a.np; ++i) a.params.insert(Variable(a.nv + i));
  int m = rnd(1, 4);
  for (int i = 0; i < m; ++i) {
    Linear_Expression e; for (int j = 0; j < n; ++j) if (!coin(35)) e += rnd(-3, 3) * Variable(j);
    e += rnd(-6, 6);
    a.cs.insert(coin(85) ? (e >= 0) : (e == 0));
  }
  for (int i = 0; i < n; ++i) if (coin(75)) a.cs.insert(Variable(i) <= rnd(2, 8));   // keep trees small
  return a;
}
PIP_Problem rpip(const PipArgs& a) {
  PIP_Problem p(a.nv + a.np, a.cs.begin(), a.cs.end(), a.params);
  if (coin(30)) p.set_control_parameter(PIP_Problem::CUTTING_STRATEGY_DEEPEST);
  if (coin(15)) p.set_control_parameter(PIP_Problem::CUTTING_STRATEGY_ALL);
  return p;
}
PIP_Problem fresh_pip(int n) { PIP_Problem p(n); if (n > 1) { Variables_Set ps(Variable(n - 1)); p.add_to_parameter_space_dimensions(ps); p.add_constraint(Variable(0) >= Variable(n - 1)); p.add_constraint(Variable(0) <= 5); } return p; }
void walk(const PIP_Tree_Node* nd, const PIP_Problem& p, std::ostream& o, int depth = 0) {
  if (!nd) { o << "_"; return; }
  if (depth > 40) { o << "!"; return; }
  o << "{" << str(nd->constraints()) << "|";
  for (PIP_Tree_Node::Artificial_Parameter_Sequence::const_iterator i = nd->art_parameter_begin(); i != nd->art_parameter_end(); ++i) o << str(*i) << ",";
  if (const PIP_Solution_Node* s = nd->as_solution()) {
    const Variables_Set& ps = p.parameter_space_dimensions();
    for (dimension_type v = 0; v < p.space_dimension(); ++v) if (ps.count(v) == 0) o << str(s->parametric_values(Variable(v))) << ";";
  }
  else { const PIP_Decision_Node* d = nd->as_decision(); walk(d->child_node(true), p, o, depth + 1); walk(d->child_node(false), p, o, depth + 1); }
  o << "}";
}
void use_pip(PIP_Problem& p) {
  int n = (int) p.space_dimension();
  if (n > 0 && p.parameter_space_dimensions().count(0) == 0) p.add_constraint(Variable(0) >= -7);
  PIP_Problem_Status s = p.solve();
  if (s == OPTIMIZED_PIP_PROBLEM) { std::ostringstream o; walk(p.solution(), p, o); p.print_solution(o); }
}
std::string pip_val(const PIP_Problem& p) {
  std::ostringstream o; o << p.space_dimension() << ":" << str(p.parameter_space_dimensions()) << ":" << p.get_big_parameter_dimension() << ":";
  for (PIP_Problem::const_iterator i = p.constraints_begin(); i != p.constraints_end(); ++i) o << str(*i) << ";";
  return o.str();
}
std::string pip_result(const PIP_Problem& p0) { PIP_Problem p(p0); std::ostringstream o; PIP_Problem_Status s = p.solve(); o << (int) s << ":"; if (s == OPTIMIZED_PIP_PROBLEM) walk(p.solution(), p, o); return o.str(); }
#define PIPEQ [](const PIP_Problem& a, const PIP_Problem& b) { return pip_val(a) == pip_val(b); }
#define POSTPIP(name, obj) c.post(name, obj, fresh_pip((int) (obj).space_dimension()), use_pip, PIPEQ)

SCENARIO("PIP_Problem.solve") { PipArgs a = rpip_args(); PIP_Problem p = rpip(a);
  c.run([&] { (void) p.solve(); }); c.result([&] { return pip_result(p); }); POSTPIP("p", p); }
SCENARIO("PIP_Problem.incremental_solve") { PipArgs a = rpip_args(); PIP_Problem p = rpip(a); (void) p.solve(); int n = a.nv + a.np;
  Linear_Expression e; for (int j = 0; j < n; ++j) if (coin()) e += rnd(-2, 2) * Variable(j); e += rnd(0, 6); Constraint k = (e >= 0);
  c.run([&] { p.add_constraint(k); (void) p.solve(); }); c.result([&] { return pip_result(p); }); POSTPIP("p", p); }
SCENARIO("PIP_Problem.incremental_add_dimensions") { PipArgs a = rpip_args(); PIP_Problem p = rpip(a); (void) p.solve(); int n = a.nv + a.np; int mv = rnd(0, 1), mp = rnd(mv ? 0 : 1, 1);
  c.run([&] { p.add_space_dimensions_and_embed(mv, mp); p.add_constraint(Variable(n + mv + mp - 1) + Variable(0) <= 6); p.add_constraint(Variable(n + mv + mp - 1) >= 0); (void) p.solve(); }); c.result([&] { return pip_result(p); }); POSTPIP("p", p); }
SCENARIO("PIP_Problem.add_to_parameter_space_dimensions") { int n = rnd(2, 3); PIP_Problem p(n); for (int i = 0; i < n; ++i) { p.add_constraint(Variable(i) >= 0); p.add_constraint(Variable(i) <= 4); } p.add_constraint(Variable(0) + Variable(n - 1) >= 2); Variables_Set ps(Variable(n - 1));
  c.run([&] { p.add_to_parameter_space_dimensions(ps); (void) p.solve(); }); c.result([&] { return pip_result(p); }); POSTPIP("p", p); }
SCENARIO("PIP_Problem.big_parameter") { PipArgs a = rpip_args(); PIP_Problem p = rpip(a); int big = a.nv + rnd(0, a.np - 1);
  c.run([&] { p.set_big_parameter_dimension(big); (void) p.solve(); }); c.result([&] { return pip_result(p); }); POSTPIP("p", p); }
SCENARIO("PIP_Problem.is_satisfiable") { PipArgs a = rpip_args(); PIP_Problem p = rpip(a); bool s = false;
  c.run([&] { s = p.is_satisfiable(); }); c.result([&] { return pip_val(p) + (s ? "T" : "F"); }); POSTPIP("p", p); }
SCENARIO("PIP_Problem.solution_tree_walk") { PipArgs a = rpip_args(); PIP_Problem p = rpip(a); (void) p.solve(); std::ostringstream o;
  c.run([&] { walk(p.optimizing_solution(), p, o); std::ostringstream t; p.print_solution(t); }); c.result([&] { return pip_val(p); }); POSTPIP("p", p); }
template <int OP> void s_pip_copy(Ctx& c) {
  PipArgs aa = rpip_args(); PIP_Problem a = rpip(aa); if (coin(70)) (void) a.solve();
  PipArgs ab = rpip_args(); PIP_Problem b = rpip(ab); if (coin()) (void) b.solve();
  if (OP == LOAD) b = PIP_Problem();     // PIP_Problem::ascii_load also appends to what the target holds (C15 matter)
  std::string text = dump(a), out; bool ok = true;
  c.run([&] {
    switch (OP) {
    case COPY: { PIP_Problem t(a); (void) t.solve(); break; }
    case ASSIGN: b = a; break;
    case SWAP: { PIP_Problem t(a); t.m_swap(b); swap(t, b); break; }
    case CLEAR: { PIP_Problem t(a); t.clear(); b.m_swap(t); break; }
    case DUMP: { std::ostringstream o; a.ascii_dump(o); out = o.str(); break; }
    case LOAD: { std::istringstream i(text); ok = b.ascii_load(i); break; }
    case PRINT: { std::ostringstream o; using namespace IO_Operators; o << a; out = o.str(); break; }
    }
  });
  c.result([&] { return pip_val(a) + pip_val(b) + (ok ? "T" : "F") + (OP == DUMP ? out : std::string()); });
  if (OP == LOAD && !c.threw && c.mode <= COUNT && (!ok || pip_val(a) != pip_val(b))) c.fail("ascii_load_failed", "ascii_load of an ascii_dump failed without any injected failure");
  POSTPIP("a", a); POSTPIP("b", b);
}
static RegS p1("PIP_Problem.copy_construct", s_pip_copy<COPY>), p2("PIP_Problem.assign", s_pip_copy<ASSIGN>), p3("PIP_Problem.swap", s_pip_copy<SWAP>), p4("PIP_Problem.clear", s_pip_copy<CLEAR>),
  p5("PIP_Problem.ascii_dump", s_pip_copy<DUMP>), p6("PIP_Problem.ascii_load", s_pip_copy<LOAD>), p7("PIP_Problem.print", s_pip_copy<PRINT>);

// ---------------------------------------------------------------- rejected calls (MIP_Problem_defs.hh, PIP_Problem_defs.hh, PIP_Tree_defs.hh)
#define MSHOW [](const MIP_Problem& a) { return mip_val(a); }
#define REJM(op, cls, expected, stmt) REJECT("MIP_Problem", op, cls) { Variable x(0), y(1), z(2); (void) x; (void) y; (void) z; \
    MIP_Problem m(2); m.add_constraints(mip_cs(2, rnd(1, 3), true)); m.set_objective_function(rexpr(2)); if (coin()) (void) m.solve(); MIP_Problem m0(m); \
    r.call(expected, [&] { stmt; }); r.unchanged("receiver", m, m0, MIPEQ, MSHOW); }
REJM("add_constraint", "dim_too_large", "invalid_argument", m.add_constraint(z >= 0))
REJM("add_constraint", "strict_inequality", "invalid_argument", m.add_constraint(x > 0))
REJM("add_constraints", "dim_too_large", "invalid_argument", Constraint_System cs; cs.insert(x >= 0); cs.insert(z <= 1); m.add_constraints(cs))
REJM("add_constraints", "strict_inequality", "invalid_argument", Constraint_System cs; cs.insert(x >= 0); cs.insert(y < 1); m.add_constraints(cs))
REJM("set_objective_function", "dim_too_large", "invalid_argument", m.set_objective_function(x + z))
REJM("add_to_integer_space_dimensions", "dim_too_large", "invalid_argument", Variables_Set iv; iv.insert(x); iv.insert(z); m.add_to_integer_space_dimensions(iv))
REJM("add_space_dimensions_and_embed", "space_dimension_overflow", "length_error", m.add_space_dimensions_and_embed(MIP_Problem::max_space_dimension()))
REJM("evaluate_objective_function", "dim_too_large", "invalid_argument", Coefficient a; Coefficient b; m.evaluate_objective_function(point(z), a, b))
REJM("evaluate_objective_function", "not_a_point", "invalid_argument", Coefficient a; Coefficient b; m.evaluate_objective_function(ray(x), a, b))
REJECT("MIP_Problem", "construct", "space_dimension_overflow") { r.call("length_error", [&] { MIP_Problem m(MIP_Problem::max_space_dimension() + 1); }); }
REJECT("MIP_Problem", "construct_from_system", "strict_inequality") { Constraint_System cs; cs.insert(Variable(0) > 0); r.call("invalid_argument", [&] { MIP_Problem m(2, cs, Variable(0), MAXIMIZATION); }); }
REJECT("MIP_Problem", "construct_from_system", "cs_dim_too_large") { Constraint_System cs; cs.insert(Variable(2) >= 0); r.call("invalid_argument", [&] { MIP_Problem m(2, cs, Variable(0), MAXIMIZATION); }); }
REJECT("MIP_Problem", "construct_from_system", "obj_dim_too_large") { Constraint_System cs; cs.insert(Variable(1) >= 0); r.call("invalid_argument", [&] { MIP_Problem m(2, cs.begin(), cs.end(), Variable(2), MAXIMIZATION); }); }
// querying an unsolved / unfeasible / unbounded problem
#define REJMQ(op, cls, build, stmt) REJECT("MIP_Problem", op, cls) { Variable x(0), y(1); (void) x; (void) y; MIP_Problem m(2); build; MIP_Problem m0(m); \
    r.call("domain_error", [&] { stmt; }); r.unchanged("receiver", m, m0, MIPEQ, MSHOW); \
    if (!r.failed) { r.call("domain_error", [&] { stmt; }); r.unchanged("receiver (second query)", m, m0, MIPEQ, MSHOW); } }
#define UNFEASIBLE m.add_constraint(x >= 2); m.add_constraint(x <= 1); m.add_constraint(y >= 0); m.set_objective_function(x + y); if (coin()) (void) m.solve()
#define UNBOUNDED m.add_constraint(x >= 2); m.add_constraint(y >= 0); m.set_objective_function(x + y); if (coin()) (void) m.solve()
#define UNFEASIBLE_INT m.add_constraint(3 * x >= 1); m.add_constraint(3 * x <= 2); m.add_constraint(y >= 0); m.add_constraint(y <= 1); m.add_to_integer_space_dimensions(Variables_Set(x)); m.set_objective_function(y)
REJMQ("feasible_point", "unfeasible", UNFEASIBLE, (void) m.feasible_point())
REJMQ("feasible_point", "unfeasible_integer", UNFEASIBLE_INT, (void) m.feasible_point())
REJMQ("optimizing_point", "unfeasible", UNFEASIBLE, (void) m.optimizing_point())
REJMQ("optimizing_point", "unbounded", UNBOUNDED, (void) m.optimizing_point())
REJMQ("optimizing_point", "unfeasible_integer", UNFEASIBLE_INT, (void) m.optimizing_point())
REJMQ("optimal_value", "unfeasible", UNFEASIBLE, Coefficient a; Coefficient b; m.optimal_value(a, b))
REJMQ("optimal_value", "unbounded", UNBOUNDED, Coefficient a; Coefficient b; m.optimal_value(a, b))

#define PSHOW [](const PIP_Problem& a) { return pip_val(a); }
#define REJPIP(op, cls, expected, stmt) REJECT("PIP_Problem", op, cls) { Variable x(0), y(1), p(2), z(3); (void) x; (void) y; (void) p; (void) z; \
    PIP_Problem pip(3); pip.add_to_parameter_space_dimensions(Variables_Set(p)); pip.add_constraint(x + y >= p); pip.add_constraint(x <= 4); pip.add_constraint(y <= 3); if (coin()) (void) pip.solve(); PIP_Problem pip0(pip); \
    r.call(expected, [&] { stmt; }); r.unchanged("receiver", pip, pip0, PIPEQ, PSHOW); }
REJPIP("add_constraint", "dim_too_large", "invalid_argument", pip.add_constraint(z >= 0))
REJPIP("add_constraints", "dim_too_large", "invalid_argument", Constraint_System cs; cs.insert(x >= 0); cs.insert(z >= 0); pip.add_constraints(cs))
REJPIP("add_to_parameter_space_dimensions", "dim_too_large", "invalid_argument", pip.add_to_parameter_space_dimensions(Variables_Set(z)))
REJPIP("add_space_dimensions_and_embed", "space_dimension_overflow", "length_error", pip.add_space_dimensions_and_embed(PIP_Problem::max_space_dimension(), 1))
REJPIP("add_space_dimensions_and_embed", "space_dimension_overflow_params", "length_error", pip.add_space_dimensions_and_embed(1, PIP_Problem::max_space_dimension()))
REJPIP("set_big_parameter_dimension", "not_a_parameter", "invalid_argument", pip.set_big_parameter_dimension(0))
REJPIP("set_big_parameter_dimension", "dim_too_large", "invalid_argument", pip.set_big_parameter_dimension(7))
REJECT("PIP_Problem", "construct", "space_dimension_overflow") { r.call("length_error", [&] { PIP_Problem p(PIP_Problem::max_space_dimension() + 1); }); }
REJECT("PIP_Problem", "construct_from_sequence", "cs_dim_too_large") { Constraint_System cs; cs.insert(Variable(3) >= 0); Variables_Set ps(Variable(1)); r.call("invalid_argument", [&] { PIP_Problem p(2, cs.begin(), cs.end(), ps); }); }
REJECT("PIP_Problem", "construct_from_sequence", "param_dim_too_large") { Constraint_System cs; cs.insert(Variable(1) >= 0); Variables_Set ps(Variable(4)); r.call("invalid_argument", [&] { PIP_Problem p(2, cs.begin(), cs.end(), ps); }); }
REJECT("PIP_Problem", "print_solution", "unsolved") { Variable x(0), p(1); PIP_Problem pip(2); pip.add_to_parameter_space_dimensions(Variables_Set(p)); pip.add_constraint(x >= p); PIP_Problem pip0(pip); std::ostringstream o;
  r.call("logic_error", [&] { pip.print_solution(o); }); r.unchanged("receiver", pip, pip0, PIPEQ, PSHOW); }
REJECT("PIP_Solution_Node", "parametric_values", "of_a_parameter") { Variable x(0), p(1); PIP_Problem pip(2); pip.add_to_parameter_space_dimensions(Variables_Set(p)); pip.add_constraint(x >= p); pip.add_constraint(x <= 9); pip.add_constraint(p >= 0);
  if (pip.solve() != OPTIMIZED_PIP_PROBLEM) { r.call("invalid_argument", [&] { throw std::invalid_argument("n/a"); }); return; }
  const PIP_Tree_Node* nd = pip.solution(); while (nd && nd->as_decision()) nd = nd->as_decision()->child_node(true) ? nd->as_decision()->child_node(true) : nd->as_decision()->child_node(false);
  const PIP_Solution_Node* s = nd ? nd->as_solution() : 0; if (!s) { r.call("invalid_argument", [&] { throw std::invalid_argument("n/a"); }); return; }
  std::string before = pip_result(pip);
  r.call("invalid_argument", [&] { (void) s->parametric_values(p); });
  if (!r.failed && pip_result(pip) != before) r.fail("value_changed", "solution tree changed by the rejected parametric_values(parameter)"); }
REJECT("PIP_Solution_Node", "parametric_values", "dim_too_large") { Variable x(0), p(1); PIP_Problem pip(2); pip.add_to_parameter_space_dimensions(Variables_Set(p)); pip.add_constraint(x >= p); pip.add_constraint(x <= 9); pip.add_constraint(p >= 0);
  if (pip.solve() != OPTIMIZED_PIP_PROBLEM) { r.call("invalid_argument", [&] { throw std::invalid_argument("n/a"); }); return; }
  const PIP_Tree_Node* nd = pip.solution(); while (nd && nd->as_decision()) nd = nd->as_decision()->child_node(true) ? nd->as_decision()->child_node(true) : nd->as_decision()->child_node(false);
  const PIP_Solution_Node* s = nd ? nd->as_solution() : 0; if (!s) { r.call("invalid_argument", [&] { throw std::invalid_argument("n/a"); }); return; }
  r.call("invalid_argument", [&] { (void) s->parametric_values(Variable(5)); }); }
REJECT("PIP_Tree_Node", "Artificial_Parameter", "zero_denominator") { r.call("invalid_argument", [&] { PIP_Tree_Node::Artificial_Parameter ap(Variable(0) + 1, 0); }); }
} // namespace
