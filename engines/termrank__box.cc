// termrank: instantiation of the termination entry points for Rational_Box (see termrank.hh).
#include "termrank.hh"
namespace termrank {
void run_calls_BOX(const Loop& L, Out& O) { run_calls<Parma_Polyhedra_Library::Rational_Box >(L, O); }
void run_bad_dims_BOX(int n, bool two) { run_bad_dims<Parma_Polyhedra_Library::Rational_Box >(n, two); }
}
