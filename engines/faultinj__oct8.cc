// faultinj: scenarios and rejected calls on Octagonal_Shape<int8_t> (see harness/faultinj_shapes.hh).
#include "faultinj_shapes.hh"
using namespace Parma_Polyhedra_Library;
FI_REGISTER_SHAPE(Octagonal_Shape<int8_t>, "Octagonal_Shape<int8_t>", fi::K_OCT, false);
