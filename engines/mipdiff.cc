// mipdiff — runtime monitor for MIP_Problem (property C06; also C13.mip.* and C15.mip.*).
//
// One case = a random incremental history over a pool of two MIP_Problem objects
// (1-4 variables, 0-7 constraints incl. equalities, degenerate / redundant / parallel /
// zero rows, free and sign-restricted variables, integer subsets, both modes, zero
// objective, three pricing rules).  The harness keeps, for every pool object, a *log*
// of the data the client has given it (Prob).  After every step:
//   * the solver's own accessors must describe exactly the logged data (C06.accessor.*,
//     for the non-receiver: C13.mip.bystander_changed), OK() must hold;
//   * after every query (solve, is_satisfiable, feasible_point, optimizing_point,
//     optimal_value, evaluate_objective_function):
//       (i)   self-certification by plain integer arithmetic on PPL's own data
//             (point satisfies every constraint, integrality, value == objective(point));
//       (ii)  status / optimum against the reference model: RefLP for the relaxation;
//             integer part by exhaustive enumeration of the integer variables when all of
//             them are bounded in the relaxation, else a small best-first branch&bound
//             over RefLP (node cap -> inconclusive); "unbounded" for rational data <=>
//             MIP-feasible and relaxation unbounded;
//       (iii) differential: six fresh problems are built from the same final data (three
//             from the solver's accessors through the range constructor, three from the
//             harness log through mutators; one per pricing rule each) and must answer the
//             same query identically and be right themselves;
//   * copies / assignments / swaps keep values and answers (C13.mip.*);
//   * ascii_dump -> ascii_load into a fresh object -> OK -> re-dump is a fixpoint in every
//     lazy state reached, and the loaded twin is then driven in lock-step (C15.mip.*).
// Every PPL activity runs under a logical-time budget (pplx::Weight_Guard): PPL's
// branch&bound does not terminate on some unbounded integer problems -> C06.hang.<site>:<class>.
//
// Violation keys:
//   C06.status.<query>:<lp|mip>-<ref status>-reported-<answer>     wrong status / satisfiability
//   C06.point.<what>:<query>        what = infeasible | not_integral | not_a_point | wrong_dimension | not_optimal
//   C06.value:<class>               class = differs_from_point | suboptimal | evaluate
//   C06.incremental_vs_fresh.<pricing>:<lp|mip>-<status of the fresh problem>-reported-<incremental answer>
//   C06.accessor.<field>, C06.ok.<after>, C06.hang.<site>:<region class>, C06.exception.<site>
//   C13.mip.<what>, C15.mip.<what>
#include "pplx.hh"
#include <memory>

using namespace pplx;

namespace {

typedef std::unique_ptr<MIP_Problem> MipP;

const MIP_Problem::Control_Parameter_Value PV[3] = { MIP_Problem::PRICING_STEEPEST_EDGE_FLOAT, MIP_Problem::PRICING_STEEPEST_EDGE_EXACT, MIP_Problem::PRICING_TEXTBOOK };
const char* const PVN[3] = { "float", "exact", "textbook" };
const char* const STN[3] = { "unfeasible", "optimized", "unbounded" };
inline int st_code(MIP_Problem_Status s) { return s == UNFEASIBLE_MIP_PROBLEM ? 0 : s == OPTIMIZED_MIP_PROBLEM ? 1 : 2; }
inline int pv_code(MIP_Problem::Control_Parameter_Value v) { return v == MIP_Problem::PRICING_STEEPEST_EDGE_FLOAT ? 0 : v == MIP_Problem::PRICING_STEEPEST_EDGE_EXACT ? 1 : 2; }

#ifdef PPL_NDEBUG
const bool g_assertions = false;
#else
const bool g_assertions = true;    // san-assert variant: PPL's own PPL_ASSERT(OK()) are live
#endif
unsigned long long g_budget = 30000000ULL;
unsigned g_bb_cap = 300;
long g_enum_cap = 4096;
std::string g_site;      // name of the PPL call in progress (for hang / exception keys)

// ---------- harness log of one problem ----------
struct Prob {
  int n; std::vector<Constraint> cs; Linear_Expression obj; Optimization_Mode mode; std::set<int> ints; int pricing;
  Prob() : n(0), mode(MAXIMIZATION), pricing(0) {}
};
// reference-model value of a problem
struct Snap { int n; Sys S; Vec oa; Q ob; bool maxim; std::set<int> ints; int pricing; };

Snap snap_of(const Prob& p) {
  Snap s; s.n = p.n; for (size_t i = 0; i < p.cs.size(); ++i) s.S.push_back(ref::conv(p.cs[i], p.n));
  ref::conv(p.obj, p.n, s.oa, s.ob); s.maxim = p.mode == MAXIMIZATION; s.ints = p.ints; s.pricing = p.pricing; return s;
}
// true observers only
Snap snap_of(const MIP_Problem& m, bool* dim_bad = 0) {
  Snap s; s.n = (int) m.space_dimension();
  for (MIP_Problem::const_iterator i = m.constraints_begin(), e = m.constraints_end(); i != e; ++i) { if (dim_bad && (int) i->space_dimension() > s.n) *dim_bad = true; s.S.push_back(ref::conv(*i, s.n)); }
  if (dim_bad && (int) m.objective_function().space_dimension() > s.n) *dim_bad = true;
  ref::conv(m.objective_function(), s.n, s.oa, s.ob); s.maxim = m.optimization_mode() == MAXIMIZATION;
  const Variables_Set& vs = m.integer_space_dimensions(); for (Variables_Set::const_iterator i = vs.begin(); i != vs.end(); ++i) s.ints.insert((int) *i);
  s.pricing = pv_code(m.get_control_parameter(MIP_Problem::PRICING)); return s;
}
bool tautology(const Con& c) { for (size_t i = 0; i < c.a.size(); ++i) if (c.a[i] != 0) return false; return c.rel == ref::EQ ? c.b == 0 : c.b >= 0; }
Con canon(Con c) {
  Q f = 0; for (size_t i = 0; i < c.a.size() && f == 0; ++i) f = c.a[i]; if (f == 0) f = c.b; if (f == 0) return c;
  if (f < 0 && c.rel != ref::EQ) f = -f;
  for (size_t i = 0; i < c.a.size(); ++i) c.a[i] /= f; c.b /= f; return c;
}
bool same_con(const Con& x, const Con& y) { Con a = canon(x), b = canon(y); return a.rel == b.rel && a.a == b.a && a.b == b.b; }
// a row  +-x_i <= integer  on an integer variable (what PPL's branch&bound adds)
bool integer_bound_row(const Con& c, const std::set<int>& ints) {
  if (c.rel != ref::LE) return false; int var = -1;
  for (size_t i = 0; i < c.a.size(); ++i) if (c.a[i] != 0) { if (var >= 0) return false; var = (int) i; }
  if (var < 0 || !ints.count(var)) return false; Q r = c.b / abs(c.a[var]); return r.get_den() == 1;
}
// "" if equal, else the name of the first differing field.  a = what the solver says, b = what the client gave.
// extras (optional): set to true when a's constraints are b's plus extra integer-bound rows (and nothing else differs there).
std::string diff_snap(const Snap& a, const Snap& b, bool with_pricing, bool* extras = 0) {
  if (a.n != b.n) return "space_dimension";
  Sys x, y; for (size_t i = 0; i < a.S.size(); ++i) if (!tautology(a.S[i])) x.push_back(a.S[i]); for (size_t i = 0; i < b.S.size(); ++i) if (!tautology(b.S[i])) y.push_back(b.S[i]);
  bool same = x.size() == y.size(); for (size_t i = 0; same && i < x.size(); ++i) if (!same_con(x[i], y[i])) same = false;
  if (!same) {
    bool sub = extras != 0 && a.ints == b.ints; size_t j = 0;
    for (size_t i = 0; sub && i < x.size(); ++i) { if (j < y.size() && same_con(x[i], y[j])) ++j; else if (!integer_bound_row(x[i], a.ints)) sub = false; }
    if (!sub || j != y.size()) return "constraints";
    *extras = true;
  }
  if (a.oa != b.oa || a.ob != b.ob) return "objective_function";
  if (a.maxim != b.maxim) return "optimization_mode";
  if (a.ints != b.ints) return "integer_space_dimensions";
  if (with_pricing && a.pricing != b.pricing) return "control_parameter";
  return "";
}
std::string show(const Snap& s) {
  std::ostringstream o; o << "n=" << s.n << " " << pplx::show(s.S) << (s.maxim ? " max " : " min ") << pplx::show(s.oa) << "+" << s.ob << " ints={";
  for (std::set<int>::const_iterator i = s.ints.begin(); i != s.ints.end(); ++i) o << *i << " "; o << "} pricing=" << PVN[s.pricing]; return o.str();
}
std::string show(const Prob& p) {
  std::ostringstream o; o << "dim " << p.n << "; constraints:"; for (size_t i = 0; i < p.cs.size(); ++i) o << " [" << str(p.cs[i]) << "]";
  o << "; " << (p.mode == MAXIMIZATION ? "maximize " : "minimize ") << str(p.obj) << "; integer:"; for (std::set<int>::const_iterator i = p.ints.begin(); i != p.ints.end(); ++i) o << " " << str(Variable(*i));
  o << "; pricing " << PVN[p.pricing]; return o.str();
}

// ---------- reference MIP (RefLP + RefInt) ----------
mpz_class floorq(const Q& q) { mpz_class r; mpz_fdiv_q(r.get_mpz_t(), q.get_num_mpz_t(), q.get_den_mpz_t()); return r; }
mpz_class ceilq(const Q& q) { mpz_class r; mpz_cdiv_q(r.get_mpz_t(), q.get_num_mpz_t(), q.get_den_mpz_t()); return r; }
inline bool integral(const Q& q) { return q.get_den() == 1; }

struct Ref {
  int st;        // 0 unfeasible, 1 optimized, 2 unbounded, -1 unknown (cap)
  int sat;       // 1 / 0 / -1
  Q val;         // optimum of the max-sense homogeneous objective (st == 1)
  Vec x;         // optimal point (st == 1) or feasible point (sat == 1)
  int lp_st; Q lp_val; bool lp_fractional;   // the reference's relaxation optimum is fractional on an integer variable
  std::string how, region;
  Ref() : st(-1), sat(-1), lp_st(-1), lp_fractional(false) {}
};

// best-first branch&bound over RefLP. 1: found (optimal unless feas_only), 0: no integer point, -1: node cap
// A node is a box on the integer variables (tightest bounds only, so every LP has at most |S| + 2|I| rows).
int ref_bb(int n, const Sys& S, const std::vector<int>& I, const Vec& oa, bool feas_only, Q& val, Vec& x, unsigned cap) {
  struct Node { std::vector<mpz_class> lo, hi; std::vector<char> hlo, hhi; Q bound; Vec x; unsigned id; };
  std::vector<Node> open; unsigned ids = 0, nodes = 0; Vec zero(n); size_t ni = I.size();
  const Vec& obj = feas_only ? zero : oa;
  { ref::LPResult r = ref::lp_max_closed(n, S, obj); if (r.status == ref::INFEASIBLE) return 0; if (r.status == ref::UNBOUNDED) return -1;
    Node nd; nd.lo.resize(ni); nd.hi.resize(ni); nd.hlo.assign(ni, 0); nd.hhi.assign(ni, 0); nd.bound = r.value; nd.x = r.x; nd.id = ids++; open.push_back(nd); }
  while (!open.empty()) {
    size_t b = 0; for (size_t i = 1; i < open.size(); ++i) if (open[i].bound > open[b].bound || (open[i].bound == open[b].bound && open[i].id < open[b].id)) b = i;
    Node nd = open[b]; open.erase(open.begin() + b);
    int bk = -1; for (size_t k = 0; k < ni; ++k) if (!integral(nd.x[I[k]])) { bk = (int) k; break; }
    if (bk < 0) { val = nd.bound; x = nd.x; return 1; }
    if (++nodes > cap) return -1;
    for (int side = 0; side < 2; ++side) {
      Node ch = nd;
      if (side == 0) { ch.hi[bk] = floorq(nd.x[I[bk]]); ch.hhi[bk] = 1; } else { ch.lo[bk] = ceilq(nd.x[I[bk]]); ch.hlo[bk] = 1; }
      Sys s2 = S;
      for (size_t k = 0; k < ni; ++k) {
        if (ch.hhi[k]) { Vec e(n); e[I[k]] = 1; s2.push_back(Con(e, Q(ch.hi[k]), ref::LE)); }
        if (ch.hlo[k]) { Vec e(n); e[I[k]] = -1; Q l(ch.lo[k]); s2.push_back(Con(e, Q(-l), ref::LE)); }
      }
      ref::LPResult r = ref::lp_max_closed(n, s2, obj);
      if (r.status != ref::OPTIMAL) continue;   // infeasible (unbounded impossible: the root was bounded)
      ch.bound = r.value; ch.x = r.x; ch.id = ids++; open.push_back(ch);
    }
  }
  return 0;
}

Ref ref_solve(int n, const Sys& S, const std::set<int>& ints, const Vec& oa) {
  Ref R; R.how = "lp"; R.region = ints.empty() ? "lp" : "mip";
  ref::LPResult r0 = ref::lp_max_closed(n, S, oa);
  R.lp_st = (int) r0.status; if (r0.status == ref::OPTIMAL) { R.lp_val = r0.value; for (std::set<int>::const_iterator i = ints.begin(); i != ints.end(); ++i) if (!integral(r0.x[*i])) R.lp_fractional = true; }
  if (r0.status == ref::INFEASIBLE) { R.st = 0; R.sat = 0; R.region += "-relaxation-infeasible"; return R; }
  if (ints.empty()) {
    R.sat = 1;
    if (r0.status == ref::OPTIMAL) { R.st = 1; R.val = r0.value; R.x = r0.x; R.region += "-bounded-objective"; }
    else { R.st = 2; ref::feasible(n, S, &R.x); R.region += "-unbounded-objective"; }
    return R;
  }
  std::vector<int> I(ints.begin(), ints.end()), C; for (int j = 0; j < n; ++j) if (!ints.count(j)) C.push_back(j);
  std::vector<mpz_class> lo(I.size()), hi(I.size()); bool allb = true, empty_range = false; mpz_class prod = 1;
  for (size_t k = 0; k < I.size(); ++k) {
    Vec e(n); e[I[k]] = 1; ref::LPResult up = ref::lp_max_closed(n, S, e); e[I[k]] = -1; ref::LPResult dn = ref::lp_max_closed(n, S, e);
    if (up.status != ref::OPTIMAL || dn.status != ref::OPTIMAL) { allb = false; continue; }
    hi[k] = floorq(up.value); lo[k] = ceilq(Q(-dn.value)); if (lo[k] > hi[k]) empty_range = true; else prod *= (hi[k] - lo[k] + 1);
  }
  R.region += allb ? "-bounded-region" : "-unbounded-region";
  if (empty_range) { R.st = 0; R.sat = 0; R.how = "enum"; return R; }
  if (allb && prod <= g_enum_cap) {
    R.how = "enum"; hx::count("ref.enum");
    int ni = I.size(), nc = C.size(); std::vector<mpz_class> t(lo); bool found = false, unb = false; Vec oc(nc); for (int j = 0; j < nc; ++j) oc[j] = oa[C[j]];
    for (;;) {
      Sys S2; bool bad = false;
      for (size_t r = 0; r < S.size() && !bad; ++r) {
        Q b2 = S[r].b; for (int k = 0; k < ni; ++k) if (S[r].a[I[k]] != 0) b2 -= S[r].a[I[k]] * Q(t[k]);
        Vec a2(nc); bool z = true; for (int j = 0; j < nc; ++j) { a2[j] = S[r].a[C[j]]; if (a2[j] != 0) z = false; }
        if (z) { if (S[r].rel == ref::EQ ? b2 != 0 : b2 < 0) bad = true; }
        else S2.push_back(Con(a2, b2, S[r].rel));
      }
      if (!bad) {
        Q base = 0; for (int k = 0; k < ni; ++k) base += oa[I[k]] * Q(t[k]);
        Vec xc(nc); bool ok = true, this_unb = false; Q v = base;
        if (nc > 0) {
          ref::LPResult r = ref::lp_max_closed(nc, S2, oc);
          if (r.status == ref::INFEASIBLE) ok = false;
          else if (r.status == ref::UNBOUNDED) { this_unb = true; ref::feasible(nc, S2, &xc); }
          else { v += r.value; xc = r.x; }
        }
        if (ok) {
          Vec x(n); for (int k = 0; k < ni; ++k) x[I[k]] = Q(t[k]); for (int j = 0; j < nc; ++j) x[C[j]] = xc[j];
          if (this_unb) { if (!unb) { unb = true; R.x = x; } }
          else if (!unb && (!found || v > R.val)) { R.val = v; R.x = x; }
          found = true;
        }
      }
      int k = ni - 1; while (k >= 0 && t[k] == hi[k]) { t[k] = lo[k]; --k; } if (k < 0) break; ++t[k];
    }
    if (!found) { R.st = 0; R.sat = 0; } else { R.sat = 1; R.st = unb ? 2 : 1; }
    return R;
  }
  // exact partial test: an equality over integer variables only whose gcd does not divide the constant
  for (size_t r = 0; r < S.size(); ++r) {
    if (S[r].rel != ref::EQ) continue; bool only_int = true, ints_ok = integral(S[r].b); mpz_class g = 0;
    for (int j = 0; j < n; ++j) if (S[r].a[j] != 0) { if (!ints.count(j)) only_int = false; if (!integral(S[r].a[j])) ints_ok = false; mpz_class z = S[r].a[j].get_num(); mpz_gcd(g.get_mpz_t(), g.get_mpz_t(), z.get_mpz_t()); }
    if (only_int && ints_ok && g != 0 && !mpz_divisible_p(S[r].b.get_num_mpz_t(), g.get_mpz_t())) { R.st = 0; R.sat = 0; R.how = "gcd"; hx::count("ref.gcd"); return R; }
  }
  R.how = "bb"; hx::count("ref.bb");
  if (r0.status == ref::UNBOUNDED) {
    Q v; int rc = ref_bb(n, S, I, oa, true, v, R.x, g_bb_cap);
    if (rc == 1) { R.st = 2; R.sat = 1; } else if (rc == 0) { R.st = 0; R.sat = 0; }
    return R;
  }
  int rc = ref_bb(n, S, I, oa, false, R.val, R.x, g_bb_cap);
  if (rc == 1) { R.st = 1; R.sat = 1; } else if (rc == 0) { R.st = 0; R.sat = 0; }
  else { Q v; int rf = ref_bb(n, S, I, oa, true, v, R.x, g_bb_cap); if (rf == 1) R.sat = 1; else if (rf == 0) { R.st = 0; R.sat = 0; } }
  return R;
}

// ---------- plain-arithmetic certification on PPL's own objects ----------
// "" if g is a point of the problem's dimension satisfying every logged constraint and integrality; else what is wrong
std::string cert_point(const Prob& D, const Generator& g, std::string& detail) {
  if (!g.is_point()) return "not_a_point";
  if ((int) g.space_dimension() > D.n) return "wrong_dimension";
  mpz_class d = g.divisor(); int gd = g.space_dimension();
  for (size_t k = 0; k < D.cs.size(); ++k) {
    const Constraint& c = D.cs[k]; mpz_class s = mpz_class(c.inhomogeneous_term()) * d;
    for (int i = 0; i < (int) c.space_dimension() && i < gd; ++i) s += mpz_class(c.coefficient(Variable(i))) * mpz_class(g.coefficient(Variable(i)));
    if (c.is_equality() ? s != 0 : s < 0) { detail = "point " + str(g) + " violates " + str(c); return "infeasible"; }
  }
  for (std::set<int>::const_iterator i = D.ints.begin(); i != D.ints.end(); ++i) {
    mpz_class z = *i < gd ? mpz_class(g.coefficient(Variable(*i))) : mpz_class(0);
    if (!mpz_divisible_p(z.get_mpz_t(), d.get_mpz_t())) { detail = "point " + str(g) + " is not integral on " + str(Variable(*i)); return "not_integral"; }
  }
  return "";
}
// objective (with inhomogeneous term, user sense) at a PPL point / at a reference point
Q obj_at(const Prob& D, const Generator& g) {
  mpz_class d = g.divisor(); mpz_class s = mpz_class(D.obj.inhomogeneous_term()) * d;
  for (int i = 0; i < (int) D.obj.space_dimension() && i < (int) g.space_dimension(); ++i) s += mpz_class(D.obj.coefficient(Variable(i))) * mpz_class(g.coefficient(Variable(i)));
  Q q(s, d); q.canonicalize(); return q;
}
// reference witness re-validated against PPL constraint objects (never through the converted system)
bool ref_point_ok(const Prob& D, const Vec& x) {
  if ((int) x.size() != D.n) return false;
  for (size_t k = 0; k < D.cs.size(); ++k) {
    const Constraint& c = D.cs[k]; Q s = ref::toQ(c.inhomogeneous_term());
    for (int i = 0; i < (int) c.space_dimension(); ++i) s += ref::toQ(c.coefficient(Variable(i))) * x[i];
    if (c.is_equality() ? s != 0 : s < 0) return false;
  }
  for (std::set<int>::const_iterator i = D.ints.begin(); i != D.ints.end(); ++i) if (!integral(x[*i])) return false;
  return true;
}
Q obj_at(const Prob& D, const Vec& x) { Q s = ref::toQ(D.obj.inhomogeneous_term()); for (int i = 0; i < (int) D.obj.space_dimension(); ++i) s += ref::toQ(D.obj.coefficient(Variable(i))) * x[i]; return s; }

// everything the oracle knows about the current data of one problem
struct Oracle {
  Snap s; Ref R; Vec oa_max; bool usable;
  Q user_val() const { return (s.maxim ? R.val : Q(-R.val)) + s.ob; }   // optimum in the user's sense
  bool better(const Q& a, const Q& b) const { return s.maxim ? a > b : a < b; }
  std::string kind() const { return s.ints.empty() ? "lp" : "mip"; }
};
Oracle make_oracle(const Prob& D) {
  Oracle O; O.s = snap_of(D); O.oa_max = O.s.oa; if (!O.s.maxim) for (size_t i = 0; i < O.oa_max.size(); ++i) O.oa_max[i] = -O.oa_max[i];
  O.R = ref_solve(O.s.n, O.s.S, O.s.ints, O.oa_max); O.usable = true;
  hx::count(std::string("ref.") + O.R.how + "." + (O.R.st < 0 ? "unknown" : STN[O.R.st]));
  hx::count("problem." + O.R.region);
  // the reference's own witnesses must survive plain arithmetic on PPL's constraint objects
  if (O.R.sat == 1) {
    if (!ref_point_ok(D, O.R.x)) { hx::violation("harness.bug.ref_witness", "reference witness " + pplx::show(O.R.x) + " fails arithmetic re-validation; " + show(D)); O.usable = false; }
    else if (O.R.st == 1 && obj_at(D, O.R.x) != O.user_val()) { hx::violation("harness.bug.ref_value", "reference optimum does not match its witness; " + show(D)); O.usable = false; }
  }
  if (O.R.st < 0) hx::inconclusive("ref-node-cap");
  return O;
}

// ---------- answers ----------
enum QK { Q_SOLVE, Q_SAT, Q_FEAS, Q_OPTPT, Q_OPTVAL, Q_EVAL };
const char* const QN[6] = { "solve", "is_satisfiable", "feasible_point", "optimizing_point", "optimal_value", "evaluate_objective_function" };
struct Ans {
  int code;            // solve: status code; is_satisfiable: 0/1; others: 1 returned, 0 domain_error (evaluate: 0 = invalid_argument)
  bool has_pt, has_val; Generator g; Q val;
  Ans() : code(-1), has_pt(false), has_val(false), g(point()) {}
  std::string text(int q) const {
    std::ostringstream o; if (q == Q_SOLVE) o << (code >= 0 && code < 3 ? STN[code] : "?"); else if (q == Q_SAT) o << (code ? "true" : "false"); else o << (code ? "returned" : "exception");
    if (has_val) o << " value " << val; if (has_pt) o << " point " << str(g); return o.str();
  }
};
// how the incremental answer a differs from the fresh answer f (triage class of the differential)
std::string answer_word(int q, const Ans& a, const Ans& f) {
  if (a.code == f.code) return "other-value";
  if (q == Q_SOLVE) return a.code >= 0 && a.code < 3 ? STN[a.code] : "?";
  if (q == Q_SAT || q == Q_FEAS) return a.code ? "feasible" : "unfeasible";
  return a.code ? "optimized" : "no-optimum";
}
bool same_answer(const Ans& a, const Ans& b) { return a.code == b.code && a.has_val == b.has_val && (!a.has_val || a.val == b.val); }

Ans run_query(MIP_Problem& m, int q, const Generator* evalpt) {
  Ans a; g_site = QN[q]; Weight_Guard wg(g_budget);
  switch (q) {
  case Q_SOLVE: a.code = st_code(m.solve()); break;
  case Q_SAT: a.code = m.is_satisfiable() ? 1 : 0; break;
  case Q_FEAS: try { a.g = m.feasible_point(); a.has_pt = true; a.code = 1; } catch (const std::domain_error&) { a.code = 0; } break;
  case Q_OPTPT: try { a.g = m.optimizing_point(); a.has_pt = true; a.code = 1; } catch (const std::domain_error&) { a.code = 0; } break;
  case Q_OPTVAL: try { Coefficient nu, de; m.optimal_value(nu, de); if (de == 0) throw std::runtime_error("optimal_value returned a zero denominator"); a.val = Q(mpz_class(nu), mpz_class(de)); a.val.canonicalize(); a.has_val = true; a.code = 1; } catch (const std::domain_error&) { a.code = 0; } break;
  case Q_EVAL: try { Coefficient nu, de; m.evaluate_objective_function(*evalpt, nu, de); if (de == 0) throw std::runtime_error("evaluate_objective_function returned a zero denominator"); a.val = Q(mpz_class(nu), mpz_class(de)); a.val.canonicalize(); a.has_val = true; a.code = 1; } catch (const std::invalid_argument&) { a.code = 0; } break;
  }
  note_weight(QN[q], wg.used());
  return a;
}
// what a fully solved problem says
struct Full { int st; bool sat; bool has_val; Q val; bool has_opt, has_feas; Generator opt, feas; Full() : st(-1), sat(false), has_val(false), has_opt(false), has_feas(false), opt(point()), feas(point()) {} };
Full full_answer(MIP_Problem& m) {
  Full f; Weight_Guard wg(g_budget);
  g_site = "solve"; f.st = st_code(m.solve());
  g_site = "is_satisfiable"; f.sat = m.is_satisfiable();
  if (f.st == 1) {
    g_site = "optimal_value"; Coefficient nu, de; m.optimal_value(nu, de); if (de == 0) throw std::runtime_error("optimal_value returned a zero denominator"); f.val = Q(mpz_class(nu), mpz_class(de)); f.val.canonicalize(); f.has_val = true;
    g_site = "optimizing_point"; f.opt = m.optimizing_point(); f.has_opt = true;
  }
  if (f.sat) { g_site = "feasible_point"; f.feas = m.feasible_point(); f.has_feas = true; }
  note_weight("full", wg.used());
  return f;
}
// the answer a fully solved problem implies for query q
Ans implied(const Full& f, int q) {
  Ans a;
  switch (q) {
  case Q_SOLVE: a.code = f.st; break;
  case Q_SAT: a.code = f.st != 0; break;
  case Q_FEAS: a.code = f.st != 0; break;
  case Q_OPTPT: a.code = f.st == 1; break;
  case Q_OPTVAL: a.code = f.st == 1; a.has_val = f.has_val; a.val = f.val; break;
  }
  return a;
}

using hx::violation; using hx::checked; using hx::tr;

// (i) + (ii) for a fully solved problem. false if a violation was reported.
bool check_full(const Full& f, const Prob& D, const Oracle& O, const std::string& who) {
  std::string det;
  // (i) self-certification
  checked();
  if (f.sat != (f.st != 0)) { violation("C06.status.is_satisfiable:inconsistent-with-solve", who + ": solve says " + STN[f.st] + " but is_satisfiable says " + (f.sat ? "true" : "false") + "; " + show(D)); return false; }
  if (f.has_feas) { std::string w = cert_point(D, f.feas, det); if (!w.empty()) { violation("C06.point." + w + ":feasible_point" + (D.ints.empty() ? "+lp" : "+mip"), who + ": " + det + "; " + show(D)); return false; } }
  if (f.has_opt) {
    std::string w = cert_point(D, f.opt, det); if (!w.empty()) { violation("C06.point." + w + ":optimizing_point" + (D.ints.empty() ? "+lp" : "+mip"), who + ": " + det + "; " + show(D)); return false; }
    Q v = obj_at(D, f.opt); if (v != f.val) { std::ostringstream o; o << who << ": optimal_value " << f.val << " but objective at optimizing_point " << str(f.opt) << " is " << v << "; " << show(D); violation("C06.value:differs_from_point", o.str()); return false; }
  }
  // (ii) reference
  if (!O.usable) return true;
  const Ref& R = O.R;
  if (R.sat >= 0) { checked(); if ((f.st != 0) != (R.sat == 1)) {
      if (R.sat == 0 && f.has_feas) { violation("harness.bug.ref_says_unfeasible", who + ": PPL's certified point " + str(f.feas) + " refutes the reference; " + show(D)); return false; }
      violation("C06.status.solve:" + O.kind() + "-" + (R.st >= 0 ? STN[R.st] : "feasible") + "-reported-" + STN[f.st], who + ": reference (" + R.how + ") " + (R.sat ? "has the feasible point " + pplx::show(R.x) : std::string("proves there is none")) + "; " + show(D)); return false; } }
  if (R.st < 0) return true;
  checked();
  if (f.st != R.st) {
    // here both say feasible: optimized vs unbounded
    if (f.st == 1) {   // reference says unbounded: the relaxation must really offer something better than PPL's optimum
      Sys s2 = O.s.S; Q vm = O.s.maxim ? Q(f.val - O.s.ob) : Q(-(f.val - O.s.ob)); Vec na(O.s.n); for (int i = 0; i < O.s.n; ++i) na[i] = -O.oa_max[i]; s2.push_back(Con(na, Q(-(vm + 1)), ref::LE));
      if (!ref::feasible(O.s.n, s2)) { violation("harness.bug.ref_says_unbounded", who + ": second LP does not confirm; " + show(D)); return false; }
    } else {           // reference says bounded: no relaxation point beyond the LP optimum + 1
      Sys s2 = O.s.S; Vec na(O.s.n); for (int i = 0; i < O.s.n; ++i) na[i] = -O.oa_max[i]; s2.push_back(Con(na, Q(-(R.lp_val + 1)), ref::LE));
      if (R.lp_st != 1 || ref::feasible(O.s.n, s2)) { violation("harness.bug.ref_says_bounded", who + ": second LP does not confirm; " + show(D)); return false; }
    }
    std::ostringstream o; o << who << ": reference (" << R.how << ") says " << STN[R.st]; if (R.st == 1) o << " with optimum " << O.user_val() << " at " << pplx::show(R.x); o << "; " << show(D);
    violation("C06.status.solve:" + O.kind() + "-" + STN[R.st] + "-reported-" + STN[f.st], o.str()); return false;
  }
  if (f.st == 1) {
    checked();
    if (f.val != O.user_val()) {
      std::ostringstream o; o << who << ": PPL optimum " << f.val << " at " << str(f.opt) << ", reference (" << R.how << ") optimum " << O.user_val() << " at " << pplx::show(R.x) << "; " << show(D);
      if (O.better(f.val, O.user_val())) { violation("harness.bug.ref_suboptimal", o.str()); return false; }   // PPL's point is certified, so the reference missed it
      violation("C06.value:suboptimal", o.str()); return false;
    }
  }
  return true;
}

// direct answer of query q on a (possibly partially solved) problem. false if a violation was reported.
bool check_answer(const Ans& a, int q, const Prob& D, const Oracle& O, const std::string& who, const Generator* evalpt) {
  std::string det; checked();
  if (q == Q_EVAL) {
    bool good_arg = evalpt->is_point() && (int) evalpt->space_dimension() <= D.n;
    if (!good_arg) { if (a.code != 0) { violation("C06.exception.evaluate_objective_function:accepted-ill-formed", who + ": ill-formed argument " + str(*evalpt) + " accepted; " + show(D)); return false; } return true; }
    if (a.code == 0) { violation("C06.exception.evaluate_objective_function", who + ": invalid_argument for a well-formed point " + str(*evalpt) + "; " + show(D)); return false; }
    Q v = obj_at(D, *evalpt); if (v != a.val) { std::ostringstream o; o << who << ": evaluate_objective_function(" << str(*evalpt) << ") = " << a.val << ", arithmetic says " << v << "; " << show(D); violation("C06.value:evaluate", o.str()); return false; }
    return true;
  }
  if (a.has_pt) {
    std::string w = cert_point(D, a.g, det); if (!w.empty()) { violation("C06.point." + w + ":" + QN[q] + (D.ints.empty() ? "+lp" : "+mip"), who + ": " + det + "; " + show(D)); return false; }
  }
  if (!O.usable) return true;
  const Ref& R = O.R;
  bool feas_q = (q == Q_SAT || q == Q_FEAS);
  if (feas_q || (q == Q_SOLVE && (a.code == 0 || R.sat == 0))) {
    if (R.sat < 0) return true;
    bool says = a.code != 0;
    if (says != (R.sat == 1)) {
      if (R.sat == 0 && a.has_pt) { violation("harness.bug.ref_says_unfeasible", who + ": PPL's certified point refutes the reference; " + show(D)); return false; }
      violation(std::string("C06.status.") + QN[q] + ":" + O.kind() + "-" + (R.st >= 0 ? STN[R.st] : "feasible") + "-reported-" + (q == Q_SOLVE ? STN[a.code] : says ? "feasible" : "unfeasible"),
                who + ": " + QN[q] + " -> " + a.text(q) + "; reference (" + R.how + ") " + (R.sat ? "has the feasible point " + pplx::show(R.x) : std::string("proves there is none")) + "; " + show(D)); return false;
    }
    return true;
  }
  if (R.st < 0) return true;
  if (q == Q_SOLVE) {
    if (a.code != R.st) { std::ostringstream o; o << who << ": solve -> " << STN[a.code] << "; reference (" << R.how << ") says " << STN[R.st]; if (R.st == 1) o << " optimum " << O.user_val() << " at " << pplx::show(R.x); o << "; " << show(D);
      violation(std::string("C06.status.solve:") + O.kind() + "-" + STN[R.st] + "-reported-" + STN[a.code], o.str()); return false; }
    return true;
  }
  // optimizing_point / optimal_value
  bool says = a.code != 0;
  if (says != (R.st == 1)) {
    violation(std::string("C06.status.") + QN[q] + ":" + O.kind() + "-" + STN[R.st] + "-reported-" + (says ? "optimized" : "no-optimum"), who + ": " + QN[q] + " -> " + a.text(q) + "; reference (" + R.how + ") says " + STN[R.st] + "; " + show(D)); return false;
  }
  if (!says) return true;
  Q v = a.has_val ? a.val : obj_at(D, a.g);
  if (v != O.user_val()) {
    std::ostringstream o; o << who << ": " << QN[q] << " -> " << a.text(q) << " (objective " << v << "); reference (" << R.how << ") optimum " << O.user_val() << " at " << pplx::show(R.x) << "; " << show(D);
    if (a.has_pt && O.better(v, O.user_val())) { violation("harness.bug.ref_suboptimal", o.str()); return false; }
    if (a.has_pt) violation(std::string("C06.point.not_optimal:") + QN[q], o.str()); else violation("C06.value:suboptimal", o.str());
    return false;
  }
  return true;
}

// ---------- building fresh problems ----------
Variables_Set vset(const std::set<int>& s) { Variables_Set v; for (std::set<int>::const_iterator i = s.begin(); i != s.end(); ++i) v.insert(*i); return v; }
MipP fresh_from_accessors(const MIP_Problem& m, int pricing) {
  MipP f(new MIP_Problem(m.space_dimension(), m.constraints_begin(), m.constraints_end(), m.integer_space_dimensions(), m.objective_function(), m.optimization_mode()));
  f->set_control_parameter(PV[pricing]); return f;
}
MipP fresh_from_log(const Prob& D, int pricing, int how) {
  MipP f;
  if (how == 0) {
    f.reset(new MIP_Problem(D.n)); f->set_control_parameter(PV[pricing]);
    for (size_t i = 0; i < D.cs.size(); ++i) f->add_constraint(D.cs[i]);
    f->add_to_integer_space_dimensions(vset(D.ints)); f->set_objective_function(D.obj); f->set_optimization_mode(D.mode);
  } else if (how == 1) {
    Constraint_System cs; for (size_t i = 0; i < D.cs.size(); ++i) cs.insert(D.cs[i]);
    f.reset(new MIP_Problem(D.n, cs, D.obj, D.mode)); f->add_to_integer_space_dimensions(vset(D.ints)); f->set_control_parameter(PV[pricing]);
  } else {
    f.reset(new MIP_Problem()); f->set_optimization_mode(D.mode); f->add_space_dimensions_and_embed(D.n); f->set_objective_function(D.obj);
    f->add_to_integer_space_dimensions(vset(D.ints)); Constraint_System cs; for (size_t i = 0; i < D.cs.size(); ++i) cs.insert(D.cs[i]);
    f->add_constraints(cs); f->set_control_parameter(PV[pricing]);
  }
  return f;
}

// ---------- lazy-state word (ascii_dump is a true observer) ----------
std::string dump(const MIP_Problem& m) { std::ostringstream o; m.ascii_dump(o); return o.str(); }
std::string field(const std::string& d, const std::string& key) { size_t p = d.find(key); if (p == std::string::npos) return "?"; p += key.size(); while (p < d.size() && d[p] == ' ') ++p; size_t e = p; while (e < d.size() && d[e] != ' ' && d[e] != '\n') ++e; return d.substr(p, e - p); }
std::string state_word(const MIP_Problem& m) {
  std::string d = dump(m); std::string w = field(d, "\nstatus:") + (field(d, "\ninitialized:") == "YES" ? "+init" : "-init");
  if (field(d, "external_space_dim:") != field(d, "internal_space_dim:")) w += "+pdim";
  if (field(d, "first_pending_constraint:") != field(d, "input_cs(")) w += "+pcon";
  return w;
}

// ---------- random arguments ----------
int g_maxdim = 3, g_box = 4;
Constraint rand_row(const Prob& D) {
  int n = D.n; int k = rnd(0, 99);
  if (n > 0 && k < 18) { Variable v(rnd(0, n - 1)); int c = rnd(0, 5); return k < 9 ? Constraint(v >= (coin(70) ? 0 : -c)) : Constraint(v <= c); }                 // sign restriction / bound
  if (!D.cs.empty() && k < 34) {                                                                                                                             // parallel / redundant / opposite of an existing row
    const Constraint& c = D.cs[rnd(0, (int) D.cs.size() - 1)]; Linear_Expression e(c.expression()); int h = rnd(0, 4);
    if (h == 0) return c;
    if (h == 1) return c.is_equality() ? Constraint(2 * e == 0) : Constraint(3 * e >= 0);
    if (h == 2) return Constraint(e + rnd(-3, 3) >= 0);
    if (h == 3) return Constraint(-e + rnd(-2, 4) >= 0);
    return coin(60) ? Constraint(e == 0) : Constraint(e == rnd(-1, 2));
  }
  if (k < 38) { Linear_Expression e; bool contra = coin(25); if (coin(30)) { e += contra ? rnd(1, 3) : 0; return Constraint(e == 0); } e += contra ? -rnd(1, 3) : rnd(0, 4); return Constraint(e >= 0); }                                           // zero row: tautology or contradiction
  if (!D.ints.empty() && k < 56) {                                                                                                                           // a cut through the integer grid: fractional vertices force branching
    static const int cf[8] = { 2, 3, -2, -3, 5, -5, 2, 3 }; Linear_Expression e; std::vector<int> I(D.ints.begin(), D.ints.end());
    e += cf[rnd(0, 7)] * Variable(I[rnd(0, (int) I.size() - 1)]); if (coin(70)) e += cf[rnd(0, 7)] * Variable(rnd(0, n - 1)); e += 2 * rnd(-4, 4) + 1;
    return coin(15) ? Constraint(e == 0) : Constraint(e >= 0);
  }
  Linear_Expression e; for (int i = 0; i < n; ++i) if (!coin(35)) e += small_coeff(3) * Variable(i); e += rnd(-5, 5);
  int r = rnd(0, 9); return r < 2 ? Constraint(e == 0) : r < 6 ? Constraint(e >= 0) : Constraint(e <= 0);
}
Linear_Expression rand_obj(int n) {
  Linear_Expression e; int k = rnd(0, 99);
  if (k < 15) { if (coin(30)) e += rnd(-3, 3); return e; }                                  // zero / constant objective
  if (n > 0 && k < 35) { e += (coin() ? 1 : -1) * Variable(rnd(0, n - 1)); return e; }
  for (int i = 0; i < n; ++i) if (!coin(25)) e += small_coeff(3) * Variable(i); if (coin(40)) e += rnd(-3, 3); return e;
}

// ---------- one pool slot ----------
struct Slot {
  MipP m; Prob D; MipP twin; int twin_age;
  bool extra_rows;   // defect already reported for this object: is_satisfiable() left branching constraints in the problem (answers are still compared against the client's data)
  bool skip_ok;      // defect already reported for this object: OK() rejects the state left by add_to_integer_space_dimensions (until the next resolution)
  bool nonneg_after_init;  // triage: a sign constraint k*x >= 0 on one variable was added after the tableau had been initialised (the incremental update then merges the two halves of the split variable x)
  Slot() : twin_age(0), extra_rows(false), skip_ok(false), nonneg_after_init(false) {}
  void take_flags(const Slot& y) { extra_rows = y.extra_rows; skip_ok = y.skip_ok; nonneg_after_init = y.nonneg_after_init; }
};

// a mutator, applied identically to the monitored object, its lock-step twin and the log
struct Mut {
  int k; std::vector<Constraint> cons; int m; std::set<int> vs; Linear_Expression e; Optimization_Mode mode; int pricing; std::string name, text;
  void apply(MIP_Problem& p) const {
    Weight_Guard wg(g_budget); g_site = name;
    switch (k) {
    case 0: p.add_constraint(cons[0]); break;
    case 1: { Constraint_System cs; for (size_t i = 0; i < cons.size(); ++i) cs.insert(cons[i]); p.add_constraints(cs); break; }
    case 2: p.add_space_dimensions_and_embed(m); break;
    case 3: p.add_to_integer_space_dimensions(vset(vs)); break;
    case 4: p.set_objective_function(e); break;
    case 5: p.set_optimization_mode(mode); break;
    case 6: p.set_control_parameter(PV[pricing]); break;
    case 7: p.clear(); break;
    }
  }
  void apply(Prob& D) const {
    switch (k) {
    case 0: case 1: D.cs.insert(D.cs.end(), cons.begin(), cons.end()); break;
    case 2: D.n += m; break;
    case 3: D.ints.insert(vs.begin(), vs.end()); break;
    case 4: D.obj = e; break;
    case 5: D.mode = mode; break;
    case 6: D.pricing = pricing; break;
    case 7: D = Prob(); break;
    }
  }
};

struct Stop {};   // the case ends (violation reported)

void check_ok(Slot& s, const std::string& after) {
  if (s.skip_ok) return;
  checked(); bool ok = false; std::string threw;
  try { ok = s.m->OK(); } catch (const std::exception& e) { threw = e.what(); }
  if (ok) return;
  bool partial = state_word(*s.m).compare(0, 21, "PARTIALLY_SATISFIABLE") == 0;
  std::string cls = !threw.empty() ? ":throws" : after != "add_to_integer_space_dimensions" ? "" : partial ? ":cached-point-not-integral" : ":status-not-downgraded";
  // triage by the kind of problem at this moment: the branch-and-bound path (integer variables present) keeps its own cached point
  if (cls.empty()) cls = std::string(s.D.ints.empty() ? ":lp" : ":mip") + (s.nonneg_after_init ? "+sign-constraint-added-after-init" : "");
  violation("C06.ok." + after + cls, (threw.empty() ? "OK() is false after " : "OK() throws (" + threw + ") after ") + after + "; state " + state_word(*s.m) + "; " + show(s.D));
  if (after != "add_to_integer_space_dimensions" || !partial || g_assertions) throw Stop();   // with PPL_ASSERT enabled the next mutator would abort on PPL_ASSERT(OK())
  s.skip_ok = true;   // the state itself is legitimate: go on, without consulting OK() until the problem is resolved
}
// "" or the differing field; tolerant of (already reported) extra branching rows
std::string value_diff(Slot& s, const MIP_Problem& m, bool with_pricing, const std::string& what, bool* dim_bad = 0) {
  bool extras = false; Snap a = snap_of(m, dim_bad), l = snap_of(s.D);
  std::string f = diff_snap(a, l, with_pricing, &extras);
  if (f.empty() && extras && !s.extra_rows) {
    s.extra_rows = true;
    violation("C06.accessor.constraints:extra-integer-bounds", what + ": the problem now contains bounds on integer variables that the client never added: accessors say " + show(a) + " but the client gave " + show(l));
  }
  return f;
}
// accessors describe the logged data
void check_accessors(Slot& s, const std::string& keyprefix, const std::string& what) {
  checked(); bool bad = false; std::string f = value_diff(s, *s.m, true, what, &bad);
  if (bad) { violation(keyprefix + "dimension", what + ": a constraint or the objective exceeds the space dimension"); throw Stop(); }
  if (!f.empty()) { violation(keyprefix + f, what + ": accessors say " + show(snap_of(*s.m)) + " but the client gave " + show(snap_of(s.D))); throw Stop(); }
}

void run_mutator(Slot& s, const Mut& mu, const std::string& pre) {
  tr(pre + "." + mu.text + "; "); hx::count("op." + mu.name);
  hx::distinct("mut|" + mu.name + "|" + state_word(*s.m) + "|" + (s.D.ints.empty() ? "lp" : "mip") + (s.D.cs.empty() ? "|nocons" : ""));
  if ((mu.k == 0 || mu.k == 1) && state_word(*s.m).find("+init") != std::string::npos)
    for (size_t i = 0; i < mu.cons.size(); ++i) { const Constraint& q = mu.cons[i]; int nz = 0; bool pos = false;
      for (dimension_type d = 0; d < q.space_dimension(); ++d) if (q.coefficient(Variable(d)) != 0) { ++nz; pos = q.coefficient(Variable(d)) > 0; }
      if (nz == 1 && pos && q.is_inequality() && q.inhomogeneous_term() == 0) s.nonneg_after_init = true; }
  mu.apply(*s.m); mu.apply(s.D);
  if (mu.k == 7) { s.skip_ok = false; s.extra_rows = false; s.nonneg_after_init = false; }
  check_ok(s, mu.name);
  if (mu.k == 7) s.D.pricing = pv_code(s.m->get_control_parameter(MIP_Problem::PRICING));   // documentation silent on control parameters after clear()
  if (s.twin) {
    hx::count("lockstep.mutators"); mu.apply(*s.twin); checked();
    std::string f = value_diff(s, *s.twin, mu.k != 7, "loaded twin after " + mu.name);
    if (!f.empty()) { violation("C15.mip.lockstep_value_differs." + mu.name, "after " + mu.text + " the loaded twin differs in " + f); throw Stop(); }
    if (!s.skip_ok && !s.twin->OK()) { violation("C15.mip.lockstep_not_OK." + mu.name, "loaded twin not OK after " + mu.text); throw Stop(); }
  }
}

Mut rand_mutator(const Slot& s, int intmode, std::vector<Mut>& prelude) {
  const Prob& D = s.D; Mut mu; mu.m = 0; mu.mode = MAXIMIZATION; mu.pricing = 0;
  for (;;) {
    int k = rnd(0, 99);
    if (k < 40) {
      if ((int) D.cs.size() >= 7 + (hx::opt().thorough ? 2 : 0)) continue;
      mu.k = 0; mu.name = "add_constraint"; mu.cons.assign(1, rand_row(D)); mu.text = "add_constraint(" + str(mu.cons[0]) + ")"; return mu;
    }
    if (k < 50) {
      if ((int) D.cs.size() >= 6) continue;
      mu.k = 1; mu.name = "add_constraints"; int c = rnd(0, 3); std::ostringstream o; o << "add_constraints({"; Prob tmp = D;
      for (int i = 0; i < c; ++i) { mu.cons.push_back(rand_row(tmp)); tmp.cs.push_back(mu.cons.back()); o << (i ? ", " : "") << str(mu.cons.back()); } o << "})"; mu.text = o.str(); return mu;
    }
    if (k < 58) {
      if (D.n >= g_maxdim) continue;
      mu.k = 2; mu.name = "add_space_dimensions_and_embed"; mu.m = coin(15) ? 0 : rnd(1, std::min(2, g_maxdim - D.n)); mu.text = "add_space_dimensions_and_embed(" + std::to_string(mu.m) + ")"; return mu;
    }
    if (k < 68) {
      if (intmode == 0 || D.n == 0) { if (coin(60)) continue; mu.k = 0; mu.name = "add_constraint"; mu.cons.assign(1, rand_row(D)); mu.text = "add_constraint(" + str(mu.cons[0]) + ")"; return mu; }
      mu.k = 3; mu.name = "add_to_integer_space_dimensions"; std::ostringstream o; o << "add_to_integer_space_dimensions({";
      for (int i = 0; i < D.n; ++i) if (coin(45)) { mu.vs.insert(i); o << str(Variable(i)) << " "; } o << "})"; mu.text = o.str();
      if (intmode == 1) {   // most integer variables are explicitly boxed so that the enumeration oracle is complete
        for (std::set<int>::const_iterator i = mu.vs.begin(); i != mu.vs.end(); ++i) if (!D.ints.count(*i)) {
          Mut b; b.k = 1; b.name = "add_constraints"; b.m = 0; b.mode = MAXIMIZATION; b.pricing = 0; b.cons.push_back(Variable(*i) >= -rnd(0, g_box)); b.cons.push_back(Variable(*i) <= rnd(0, g_box));
          b.text = "add_constraints({" + str(b.cons[0]) + ", " + str(b.cons[1]) + "})"; prelude.push_back(b);
        }
      }
      return mu;
    }
    if (k < 82) { mu.k = 4; mu.name = "set_objective_function"; mu.e = rand_obj(D.n); mu.text = "set_objective_function(" + str(mu.e) + ")"; return mu; }
    if (k < 90) { mu.k = 5; mu.name = "set_optimization_mode"; mu.mode = coin(75) ? (D.mode == MAXIMIZATION ? MINIMIZATION : MAXIMIZATION) : D.mode; mu.text = std::string("set_optimization_mode(") + (mu.mode == MAXIMIZATION ? "MAX" : "MIN") + ")"; return mu; }
    if (k < 98) { mu.k = 6; mu.name = "set_control_parameter"; mu.pricing = rnd(0, 2); mu.text = std::string("set_control_parameter(PRICING_") + PVN[mu.pricing] + ")"; return mu; }
    mu.k = 7; mu.name = "clear"; mu.text = "clear()"; return mu;
  }
}

// ---------- the query step: (i), (ii), (iii), copy and twin ----------
void run_query_step(Slot& s, int q, const std::string& pre) {
  Generator evalpt = point();
  if (q == Q_EVAL) {
    int k = rnd(0, 9); int n = s.D.n;
    if (k == 0 && n > 0) { evalpt = ray(Variable(rnd(0, n - 1))); }
    else if (k == 1) { evalpt = point(Variable(n) + 1); }
    else { Linear_Expression e; int d = rnd(0, n); for (int i = 0; i < d; ++i) e += rnd(-4, 4) * Variable(i); evalpt = point(e, rnd(1, 3)); }
  }
  std::string stw = state_word(*s.m);
  tr(pre + "." + QN[q] + (q == Q_EVAL ? "(" + str(evalpt) + ")" : "()") + " [" + stw + "]; "); hx::count(std::string("q.") + QN[q]); hx::count("state.query." + stw);
  Oracle O = make_oracle(s.D); if (!O.usable) throw Stop();
  const std::string cls = O.kind() + "|" + (O.R.st < 0 ? "unknown" : STN[O.R.st]);
  if (s.D.n > 0 && !s.D.cs.empty()) hx::distinct(std::string("query|") + QN[q] + "|" + stw + "|" + cls + "|" + PVN[s.D.pricing]);
  g_site = "copy"; MIP_Problem c(*s.m);                       // pre-query copy: must answer like the original
  Ans a0 = run_query(*s.m, q, &evalpt);
  tr("-> " + a0.text(q) + "; ");
  if (q != Q_EVAL) s.skip_ok = false;   // the problem has been resolved: OK() must hold again
  check_ok(s, QN[q]);
  check_accessors(s, "C06.accessor.", std::string("after ") + QN[q]);
  if (q == Q_EVAL) { if (!check_answer(a0, q, s.D, O, "incremental problem", &evalpt)) throw Stop(); Ans a1 = run_query(c, q, &evalpt); checked(); if (!same_answer(a0, a1)) { violation("C13.mip.copy_answer_differs.evaluate_objective_function", "copy: " + a1.text(q) + " original: " + a0.text(q)); throw Stop(); } }
  else {
    if (O.R.st == 1 && O.R.lp_st == 1 && O.R.val != O.R.lp_val) hx::count("reach.integrality_gap");
    if (O.R.lp_fractional) hx::count("reach.fractional_relaxation");
    // (iii) fresh problems from the same final data
    Full ff[6]; std::string fname[6];
    for (int k = 0; k < 6; ++k) {
      int p = k % 3; MipP f; g_site = "fresh.build";
      if (k < 3) { f = fresh_from_accessors(*s.m, p); fname[k] = std::string("fresh problem (from accessors, pricing ") + PVN[p] + ")"; }
      else { f = fresh_from_log(s.D, p, rnd(0, 2)); fname[k] = std::string("fresh problem (from the harness log, pricing ") + PVN[p] + ")"; }
      hx::count(std::string("fresh.") + PVN[p]);
      Ans af = run_query(*f, q, &evalpt);
      if (!check_answer(af, q, s.D, O, fname[k], &evalpt)) throw Stop();
      ff[k] = full_answer(*f);
      if (!check_full(ff[k], s.D, O, fname[k])) throw Stop();
      checked(); if (!same_answer(af, implied(ff[k], q))) { violation(std::string("C06.status.") + QN[q] + ":changes-after-solve", fname[k] + ": " + QN[q] + " -> " + af.text(q) + " before and " + implied(ff[k], q).text(q) + " after solve(); " + show(s.D)); throw Stop(); }
      checked(); if (!same_answer(a0, af)) { violation(std::string("C06.incremental_vs_fresh.") + PVN[p] + ":" + O.kind() + "-" + STN[ff[k].st] + "-reported-" + answer_word(q, a0, af), std::string(QN[q]) + " [" + stw + "]: incremental " + a0.text(q) + ", " + fname[k] + " " + af.text(q) + "; " + show(s.D)); throw Stop(); }
    }
    // the incremental answer itself against the reference (reached only when every fresh problem agrees with it)
    if (!check_answer(a0, q, s.D, O, "incremental problem", &evalpt)) throw Stop();
    for (int k = 1; k < 6; ++k) { checked(); if (ff[k].st != ff[0].st || (ff[0].st == 1 && ff[k].val != ff[0].val)) { violation(std::string("C06.incremental_vs_fresh.") + PVN[k % 3] + ":fresh-problems-disagree", "fresh problems disagree among themselves: " + fname[0] + " " + STN[ff[0].st] + ", " + fname[k] + " " + STN[ff[k].st] + "; " + show(s.D)); throw Stop(); } }
    // the pre-query copy answers like the original, then is solved completely: still the same as fresh
    Ans a1 = run_query(c, q, &evalpt); checked();
    if (!same_answer(a0, a1)) { violation(std::string("C13.mip.copy_answer_differs.") + QN[q], "copy: " + a1.text(q) + " original: " + a0.text(q) + " [" + stw + "]; " + show(s.D)); throw Stop(); }
    Full fc = full_answer(c);
    checked(); if (fc.st != ff[0].st || (fc.st == 1 && fc.val != ff[0].val)) { std::ostringstream o; o << "complete solve of (a copy of) the incremental problem [" << stw << " then " << QN[q] << "]: " << STN[fc.st]; if (fc.has_val) o << " " << fc.val; o << "; fresh: " << STN[ff[0].st]; if (ff[0].has_val) o << " " << ff[0].val; o << "; " << show(s.D); violation(std::string("C06.incremental_vs_fresh.float:") + O.kind() + "-" + STN[ff[0].st] + "-reported-" + (fc.st != ff[0].st ? STN[fc.st] : "other-value"), o.str()); throw Stop(); }
    if (!check_full(fc, s.D, O, "copy of the incremental problem")) throw Stop();
    hx::count(std::string("status.") + O.kind() + "." + STN[ff[0].st]);
  }
  if (s.twin) {
    hx::count("lockstep.queries"); Ans a2 = run_query(*s.twin, q, &evalpt); checked();
    if (!same_answer(a0, a2)) { violation(std::string("C15.mip.lockstep_diverged.") + QN[q], "loaded twin: " + a2.text(q) + " original: " + a0.text(q) + "; " + show(s.D)); throw Stop(); }
    if (a0.has_pt && str(a0.g) != str(a2.g)) hx::count("lockstep.point_differs");
    if (dump(*s.twin) != dump(*s.m)) hx::count("lockstep.text_differs");
    if (!s.skip_ok && !s.twin->OK()) { violation(std::string("C15.mip.lockstep_not_OK.") + QN[q], "loaded twin not OK"); throw Stop(); }
  }
}

// ---------- C15: ascii round trip ----------
void ascii_step(Slot& s, const std::string& pre) {
  std::string stw = state_word(*s.m);
  tr(pre + ".ascii_dump/load [" + stw + "]; "); hx::count("op.ascii_roundtrip"); hx::count("state.ascii." + stw); hx::distinct("ascii|" + stw + "|" + (s.D.ints.empty() ? "lp" : "mip") + "|" + std::to_string(s.D.n));
  g_site = "ascii"; std::string d1 = dump(*s.m); std::istringstream in(d1); MipP L(new MIP_Problem()); checked(4);
  if (!L->ascii_load(in)) { violation("C15.mip.load_failed", "state " + stw + "; " + show(s.D)); throw Stop(); }
  if (!s.skip_ok && !L->OK()) { violation("C15.mip.loaded_not_OK", "state " + stw + "; " + show(s.D)); throw Stop(); }
  std::string d2 = dump(*L); if (d1 != d2) { violation("C15.mip.redump_differs", "state " + stw + "; " + show(s.D)); throw Stop(); }
  std::string f = value_diff(s, *L, true, "loaded object"); if (!f.empty()) { violation("C15.mip.value_differs", "field " + f + "; state " + stw + "; " + show(s.D)); throw Stop(); }
  if (dump(*s.m) != d1) { violation("C15.mip.dump_not_pure", "ascii_dump changed the object"); throw Stop(); }
  s.twin = std::move(L); s.twin_age = 0;
}

// ---------- C13: copies, assignments, swaps ----------
void value_step(Slot* pool, int ai, int bi, const std::string& pre) {
  Slot& A = pool[ai]; Slot& B = pool[bi]; int how = rnd(0, 4);
  std::string sa = state_word(*A.m), sb = state_word(*B.m);
  static const char* const nm[5] = { "copy_construct", "assign", "m_swap", "swap", "copy_then_destroy_source" };
  hx::count(std::string("op.") + nm[how]); hx::distinct(std::string("value|") + nm[how] + "|" + sa + "|" + sb + (ai == bi ? "|self" : ""));
  g_site = nm[how];
  if (how == 0) { tr(pre + " = copy(#" + std::to_string(bi) + ") [" + sb + "]; "); if (ai != bi) { A.m.reset(new MIP_Problem(*B.m)); A.D = B.D; A.take_flags(B); A.twin.reset(); } }
  else if (how == 1) { tr(pre + " = #" + std::to_string(bi) + " [" + sb + "]; "); *A.m = *B.m; if (ai != bi) { A.D = B.D; A.take_flags(B); A.twin.reset(); } }
  else if (how == 2) { tr(pre + ".m_swap(#" + std::to_string(bi) + "); "); A.m->m_swap(*B.m); if (ai != bi) { std::swap(A.D, B.D); std::swap(A.twin, B.twin); std::swap(A.extra_rows, B.extra_rows); std::swap(A.skip_ok, B.skip_ok); } }
  else if (how == 3) { tr(pre + " swap #" + std::to_string(bi) + "; "); using std::swap; swap(*A.m, *B.m); if (ai != bi) { std::swap(A.D, B.D); std::swap(A.twin, B.twin); std::swap(A.extra_rows, B.extra_rows); std::swap(A.skip_ok, B.skip_ok); } }
  else { tr(pre + " = copy of a temporary copy of #" + std::to_string(bi) + ", temporary destroyed; "); MipP t(new MIP_Problem(*B.m)); MipP u(new MIP_Problem(*t)); t.reset(); A.m = std::move(u); if (ai != bi) { A.D = B.D; A.take_flags(B); A.twin.reset(); } }
  for (int i = 0; i < 2; ++i) { check_ok(pool[i], nm[how]); check_accessors(pool[i], std::string("C13.mip.") + nm[how] + (ai == bi ? "_self" : "") + "_differs.", std::string("after ") + nm[how]); }
  // same lazy state after copy / assignment (answers are compared at the next query through the pre-query copy)
  if ((how == 0 || how == 1 || how == 4) && ai != bi) { checked(); if (dump(*A.m) != dump(*B.m)) hx::count("value.copy_text_differs"); }
}

// ---------- rejected calls keep the value (expected exceptions are part of the interface) ----------
void rejected_step(Slot& s, const std::string& pre) {
  int k = rnd(0, 3); const Prob& D = s.D; std::string what; bool thrown = false; g_site = "rejected";
  try {
    if (k == 0) { what = "add_constraint(strict)"; tr(pre + "." + what + "; "); s.m->add_constraint(Variable(0) > 0); }
    else if (k == 1) { what = "add_constraint(too many dimensions)"; tr(pre + "." + what + "; "); s.m->add_constraint(Variable(D.n) >= 0); }
    else if (k == 2) { what = "set_objective_function(too many dimensions)"; tr(pre + "." + what + "; "); s.m->set_objective_function(Variable(D.n) + 1); }
    else { what = "add_to_integer_space_dimensions(too many dimensions)"; tr(pre + "." + what + "; "); Variables_Set v; v.insert(D.n); s.m->add_to_integer_space_dimensions(v); }
  } catch (const std::invalid_argument&) { thrown = true; }
  hx::count("op.rejected"); checked();
  if (!thrown) { violation("C06.exception.rejected", what + " did not throw invalid_argument"); throw Stop(); }
}

std::string hang_class(const Prob& D) {
  Snap s = snap_of(D); Vec z(s.n); Ref R; unsigned cap = g_bb_cap; g_bb_cap = 50; R = ref_solve(s.n, s.S, s.ints, z); g_bb_cap = cap; return R.region;
}

void run_case(uint64_t) {
  const std::string profile = hx::opt().profile;
  g_maxdim = hx::opt().thorough ? 4 : 3; g_box = hx::opt().thorough ? 6 : 4;
  g_budget = (unsigned long long) hx::opt().geti("budget", 30000000);
  g_bb_cap = (unsigned) hx::opt().geti("bbcap", 300);
  g_enum_cap = hx::opt().geti("enumcap", 4096);
  // 0: pure LP, 1: integer variables boxed when declared, 2: integer variables left as they are
  int im = rnd(0, 99); int intmode = im < 30 ? 0 : im < 86 ? 1 : 2;
  int pct_unb = (int) hx::opt().geti("unboxed", -1); if (pct_unb >= 0 && intmode != 0) intmode = coin(pct_unb) ? 2 : 1;
  Slot pool[2]; int receiver = 0;
  try {
    // constructors
    for (int i = 0; i < 2; ++i) {
      Slot& s = pool[i]; Prob& D = s.D; D.n = coin(4) ? 0 : rnd(1, g_maxdim); int how = rnd(0, 3); if (intmode != 0 && i == 0 && coin(65)) how = 2; std::ostringstream o; o << "#" << i << " = ";
      if (i == 0 && intmode == 1 && coin(25)) {
        // knapsack-like start: all variables integer in [0,U], positive rows, positive objective: a real branch&bound tree
        D.n = rnd(2, g_maxdim); int rows = rnd(1, 3);
        for (int j = 0; j < D.n; ++j) { D.ints.insert(j); D.cs.push_back(Variable(j) >= 0); D.cs.push_back(Variable(j) <= rnd(2, g_box + 1)); }
        for (int r = 0; r < rows; ++r) { Linear_Expression e; for (int j = 0; j < D.n; ++j) e += rnd(1, 7) * Variable(j); D.cs.push_back(coin(12) ? Constraint(e == rnd(5, 24)) : Constraint(e <= rnd(5, 30))); }
        bool neg = coin(35); for (int j = 0; j < D.n; ++j) D.obj += (neg ? -1 : 1) * rnd(1, 9) * Variable(j); D.mode = neg ? MINIMIZATION : MAXIMIZATION; if (coin(20)) D.mode = D.mode == MAXIMIZATION ? MINIMIZATION : MAXIMIZATION;
        o << "MIP_Problem(" << D.n << ", first, last, int_vars, obj, mode) with " << show(D) << "; "; tr(o.str()); hx::count("start.knapsack");
        s.m.reset(new MIP_Problem(D.n, D.cs.begin(), D.cs.end(), vset(D.ints), D.obj, D.mode));
      }
      else if (i == 1 || how == 0) { o << "MIP_Problem(" << D.n << "); "; tr(o.str()); s.m.reset(new MIP_Problem(D.n)); }
      else {
        int c = rnd(0, 4); for (int j = 0; j < c; ++j) D.cs.push_back(rand_row(D)); D.obj = rand_obj(D.n); D.mode = coin() ? MAXIMIZATION : MINIMIZATION;
        if (how == 1) {
          Constraint_System cs; for (size_t j = 0; j < D.cs.size(); ++j) cs.insert(D.cs[j]); o << "MIP_Problem(" << D.n << ", cs, obj, mode) with " << show(D) << "; "; tr(o.str());
          s.m.reset(new MIP_Problem(D.n, cs, D.obj, D.mode));
        } else {
          if (how == 2 && intmode != 0) for (int j = 0; j < D.n; ++j) if (coin(55)) { D.ints.insert(j); if (intmode == 1) { D.cs.push_back(Variable(j) >= -rnd(0, g_box)); D.cs.push_back(Variable(j) <= rnd(0, g_box)); } }
          o << "MIP_Problem(" << D.n << ", first, last, " << (how == 2 ? "int_vars, " : "") << "obj, mode) with " << show(D) << "; "; tr(o.str());
          if (how == 2) s.m.reset(new MIP_Problem(D.n, D.cs.begin(), D.cs.end(), vset(D.ints), D.obj, D.mode));
          else s.m.reset(new MIP_Problem(D.n, D.cs.begin(), D.cs.end(), D.obj, D.mode));
        }
      }
      hx::count("op.construct"); check_ok(s, "construct"); check_accessors(s, "C06.accessor.", "after construction");
    }
    int steps = rnd(4, 11);
    int w_mut = 52, w_query = 32, w_value = 7, w_ascii = 6, w_rej = 3;
    if (profile == "ascii") { w_mut = 42; w_query = 30; w_value = 5; w_ascii = 21; w_rej = 2; }
    else if (profile == "alias") { w_mut = 40; w_query = 28; w_value = 26; w_ascii = 4; w_rej = 2; }
    for (int step = 0; step <= steps; ++step) {
      int ai = coin(75) ? 0 : 1, bi = coin(80) ? 1 - ai : ai; receiver = ai; Slot& s = pool[ai];
      std::string pre = "#" + std::to_string(ai);
      int kind = rnd(0, 99); if (step == steps) kind = w_mut;   // every case ends with a query
      if (s.twin && ++s.twin_age > 6) s.twin.reset();
      if (kind < w_mut) {
        std::vector<Mut> prelude; Mut mu = rand_mutator(s, intmode, prelude);
        bool solved_before = state_word(*s.m).find("+init") != std::string::npos;
        for (size_t i = 0; i < prelude.size(); ++i) run_mutator(s, prelude[i], pre);
        run_mutator(s, mu, pre);
        // the incremental path proper: a mutator on an already solved problem, queried at once
        if (solved_before && mu.k != 6 && coin(45)) { int r = rnd(0, 99); run_query_step(s, r < 35 ? Q_SOLVE : r < 55 ? Q_SAT : r < 70 ? Q_FEAS : r < 85 ? Q_OPTPT : Q_OPTVAL, pre); hx::count("incremental_requery"); }
      }
      else if ((kind -= w_mut) < w_query) {
        int r = rnd(0, 99); int q = r < 32 ? Q_SOLVE : r < 52 ? Q_SAT : r < 65 ? Q_FEAS : r < 78 ? Q_OPTPT : r < 90 ? Q_OPTVAL : Q_EVAL;
        if (step == steps) q = Q_SOLVE;
        run_query_step(s, q, pre);
      }
      else if ((kind -= w_query) < w_value) value_step(pool, ai, bi, pre);
      else if ((kind -= w_value) < w_ascii) ascii_step(s, pre);
      else rejected_step(s, pre);
      // every pool object still describes the data the client gave it
      for (int i = 0; i < 2; ++i) check_accessors(pool[i], i == receiver ? "C06.accessor." : "C13.mip.bystander_changed.", "end of step");
    }
  }
  catch (const Stop&) {}
  catch (const Logical_Timeout&) {
    std::string cls = "unknown"; const Prob& D = pool[receiver].D;
    try { cls = hang_class(D); } catch (...) {}
    std::string root = (g_site == "optimizing_point" || g_site == "optimal_value") ? "solve" : g_site == "feasible_point" ? "is_satisfiable" : g_site;   // the looping routine
    hx::count("hang"); violation("C06.hang." + root + ":" + cls, "logical-time budget of " + std::to_string(g_budget) + " weight units exceeded in " + g_site + "; " + show(D));
  }
  catch (const std::exception& e) {
    violation("C06.exception." + g_site, std::string(typeid(e).name()) + ": " + e.what() + "; " + show(pool[receiver].D));
  }
}

} // namespace

int main(int argc, char** argv) {
  return hx::main_loop(argc, argv, run_case, std::function<void()>());
}
