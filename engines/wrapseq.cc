// wrapseq — property C17: integer-aware operators never discard an integer
// point of the concrete semantics.
//
// One case = one freshly built argument element of one domain instance
// (--kv inst=<short>|all, "all" rotates over the registered instances by case
// index) and ONE monitored call:
//   wrap_assign(vars, w, r, o, cs_p, threshold, individually)
//   drop_some_non_integer_points([vars,] complexity)
//   contains_integer_point()
// Oracle (all arithmetic in mpz/mpq, no LP needed for the point clauses):
//   * the argument and the result are read back through COPIES into a Shadow
//     (disjunction of constraint systems / congruence systems);
//   * the integer points of the argument (integral on the designated dimensions,
//     a few rational values on the others) are enumerated in the argument's
//     window (exhaustively when the argument is bounded by construction and the
//     window is small, by a documented sample otherwise);
//   * wrap: for every such point the images demanded by the documentation
//     ("Wrapping Operator" in definitions.dox, wrap_assign in Polyhedron_defs.hh,
//     "Grid_Wrapping_Operator") must belong to the result:
//       OVERFLOW_WRAPS      the point with the wrapped coordinates reduced modulo
//                           2^w into the type's range, if it satisfies the guard;
//       OVERFLOW_UNDEFINED  every in-range integer re-assignment of the
//                           overflowing coordinates that satisfies the guard
//                           (sample: both range ends, 0, 1, -1, 5 random tuples);
//       OVERFLOW_IMPOSSIBLE the point itself if in range and satisfying the guard;
//   * drop: result is a subset of the argument (sample points + exact inclusion
//     by LP / lattice inclusion where available) and keeps every enumerated
//     point with integer coordinates on the designated dimensions;
//   * contains_integer_point: exact answer by exhaustive enumeration (bounded
//     arguments), by a found witness or a planted integer-free strip (unbounded
//     arguments), by lattice intersection with Z^n (grids).
// Keys: C17.wrap.<inst>.<overflow-mode>.<what>[:class], C17.drop.<inst>.<what>,
//       C17.cip.<inst>.<what>, C17.hang.<inst>.<operation>[:class].
#include "wrapseq.hh"
#include "defs.hh"

using namespace wrapseq;
using hx::violation; using hx::tr; using hx::checked;

namespace wrapseq { std::vector<Entry>& table() { static std::vector<Entry> t; return t; } }

// ---------- small exact helpers ----------
static Z pow2(int k) { Z r = 1; r <<= k; return r; }
static std::string zs(const Z& z) { return z.get_str(); }
static Z zrnd(const Z& lo, const Z& hi) {   // uniform-ish in [lo, hi]
  Z span = hi - lo + 1; if (span <= 1) return lo;
  Z r = 0; for (int i = 0; i < 3; ++i) { r <<= 62; r += Z((unsigned long) (hx::rng()() >> 2)); }
  Z m; mpz_fdiv_r(m.get_mpz_t(), r.get_mpz_t(), span.get_mpz_t());
  return lo + m;
}
static Z zfloor(const Q& q) { Z f; mpz_fdiv_q(f.get_mpz_t(), q.get_num_mpz_t(), q.get_den_mpz_t()); return f; }
static bool is_int(const Q& q) { return q.get_den() == 1; }
static std::string show_cg(const Cg& c) { std::ostringstream o; o << pplx::show(c.a) << ".x == " << c.b << " (mod " << c.m << ")"; return o.str(); }
static std::string show_shadow(const Shadow& S) {
  std::ostringstream o; if (S.d.empty()) o << "EMPTY";
  for (size_t k = 0; k < S.d.size(); ++k) {
    o << (k ? " U " : "") << pplx::show(S.d[k].cons);
    if (!S.d[k].cgs.empty()) { o << "&["; for (size_t i = 0; i < S.d[k].cgs.size(); ++i) o << (i ? "; " : "") << show_cg(S.d[k].cgs[i]); o << "]"; }
  }
  return o.str();
}

// ---------- wrap parameters ----------
struct WP {
  int w; bool sgn; int ov; Z lo, hi, M;
  std::vector<int> vlist; Variables_Set vars;
  bool use_guard; std::vector<Constraint> guard; Sys guard_sys;
  unsigned thr; bool indiv;
  WP() : w(8), sgn(false), ov(0), use_guard(false), thr(0), indiv(true) {}
};
static const char* const OVN[3] = { "wraps", "undefined", "impossible" };
static Bounded_Integer_Type_Width width_of(int w) { return w == 8 ? BITS_8 : w == 16 ? BITS_16 : w == 32 ? BITS_32 : BITS_64; }
static Z wrapv(const Z& v, const WP& wp) { Z d = v - wp.lo, m; mpz_fdiv_r(m.get_mpz_t(), d.get_mpz_t(), wp.M.get_mpz_t()); return wp.lo + m; }
static bool in_range(const Z& v, const WP& wp) { return v >= wp.lo && v <= wp.hi; }

static Z pick_center(const WP& wp) {
  switch (rnd(0, 13)) {
  case 0: return wp.lo;
  case 1: return wp.hi;
  case 2: return 0;
  case 3: return wp.lo - wp.M;
  case 4: return wp.hi + wp.M;
  case 5: return wp.lo + wp.M / 2;
  case 6: return wp.hi + 1;
  case 7: return wp.lo - 1;
  case 8: return wp.lo + 2 * wp.M;
  case 9: return wp.lo - 2 * wp.M;
  case 10: return wp.hi - 3;
  case 11: return wp.lo + 3 * wp.M + 2;
  case 12: return wp.M;          // 2^w itself
  default: return zrnd(wp.lo, wp.hi);
  }
}

// ---------- argument pieces (polyhedra-like families) ----------
struct DimWin { Z base, top, wlo, whi; bool intdim, lb, ub; };
struct Piece { DisjSpec spec; std::vector<DimWin> win; bool bounded; bool planted_free; Piece() : bounded(true), planted_free(false) {} };

// relational coefficient vector allowed by the family
static std::vector<Z> rel_coeffs(int n, Family fam) {
  std::vector<Z> a(n, Z(0));
  if (n == 1) { a[0] = (fam == F_POLY || fam == F_PSET || fam == F_PROD) ? Z(coin() ? rnd(1, 3) : -rnd(1, 3)) : Z(coin() ? 1 : -1); return a; }
  int i = rnd(0, n - 1), j = rnd(0, n - 2); if (j >= i) ++j;
  if (fam == F_BD) { a[i] = 1; a[j] = -1; }
  else if (fam == F_OCT) { a[i] = coin() ? 1 : -1; a[j] = coin() ? 1 : -1; }
  else {
    a[i] = coin() ? rnd(1, 3) : -rnd(1, 3); a[j] = coin() ? rnd(1, 3) : -rnd(1, 3);
    if (n >= 3 && coin(30)) { for (int k = 0; k < n; ++k) if (k != i && k != j) { a[k] = rnd(-2, 2); break; } }
  }
  return a;
}
static Z dotz(const std::vector<Z>& a, const std::vector<Z>& z) { Z s = 0; for (size_t i = 0; i < a.size(); ++i) s += a[i] * z[i]; return s; }

// intdim[i]: integer candidates on that dimension.  small: coordinates near 0 (cip/drop), else near wrap boundaries.
static Piece gen_piece(int n, const std::vector<bool>& intdim, Family fam, bool nnc, const WP* wp, bool small, int pct_unbounded, bool thin) {
  Piece P; P.win.resize(n);
  bool straddle = wp && !small && coin(wp->indiv ? 15 : 45);
  std::vector<Z> zc(n);
  for (int i = 0; i < n; ++i) {
    DimWin& d = P.win[i]; d.intdim = intdim[i];
    Z ext;
    if (intdim[i] && !small) {
      d.base = pick_center(*wp) + rnd(-4, 4); ext = rnd(0, 8);
      if (coin(12)) ext = rnd(1, 3) * wp->M + rnd(0, 5);           // several quadrants
      else if (straddle) { ext = rnd(1, 8); d.base = wp->lo + rnd(-2, 3) * wp->M - rnd(1, (int) ext.get_si()); }   // astride a quadrant boundary
    } else { d.base = rnd(-6, 6); ext = (thin && coin(35)) ? 0 : rnd(0, small ? 4 : 3); }
    d.top = d.base + ext;
    d.lb = d.ub = true;
    if (coin(pct_unbounded)) { int k = rnd(0, 2); if (k != 1) d.lb = false; if (k != 0) d.ub = false; }
    // bounds, possibly rational and (NNC) strict:  x >= base - j/dd  (no further integer admitted),  x <= top + j/dd;
    // a "thin" dimension gets the lower bound base + j/dd (j >= 1) instead, so that few or no integer values remain
    bool thin_dim = thin && coin(15);
    if (d.lb) {
      int dd = (thin_dim || coin(25)) ? rnd(2, 3) : 1, j = thin_dim ? -rnd(1, dd - 1) : (dd > 1 ? rnd(0, dd - 1) : 0);
      if (nnc && coin(30)) P.spec.cons.push_back(dd * Variable(i) > Coefficient(Z(dd * d.base - j)));
      else P.spec.cons.push_back(dd * Variable(i) >= Coefficient(Z(dd * d.base - j)));
    }
    if (d.ub) {
      int dd = (thin_dim || coin(25)) ? rnd(2, 3) : 1, j = dd > 1 ? rnd(0, dd - 1) : 0;
      if (nnc && coin(30)) P.spec.cons.push_back(dd * Variable(i) < Coefficient(Z(dd * d.top + j)));
      else P.spec.cons.push_back(dd * Variable(i) <= Coefficient(Z(dd * d.top + j)));
    }
    d.wlo = d.base - 1; d.whi = d.top + 1;
    if (!d.lb) { d.wlo = d.base - 9; P.bounded = false; }
    if (!d.ub) { d.whi = d.top + 9; P.bounded = false; }
    zc[i] = d.base + (ext > 8 ? Z(rnd(0, 8)) : Z(rnd(0, (int) ext.get_si())));
  }
  bool rich = (fam == F_POLY || fam == F_PSET || fam == F_PROD);
  int k = rnd(0, 2); if (n == 1 && !rich) k = 0;
  for (int c = 0; c < k; ++c) {
    std::vector<Z> a = rel_coeffs(n, fam);
    Z az = dotz(a, zc); Linear_Expression e = lin(a);
    int den = (coin(25) ? rnd(2, 3) : 1), num = rnd(0, 3 * den);
    int kind = rnd(0, 99);
    if (kind < 15) P.spec.cons.push_back(e == Coefficient(az));
    else if (nnc && kind < 45) P.spec.cons.push_back(den * e < Coefficient(Z(den * az + num + 1)));
    else P.spec.cons.push_back(den * e <= Coefficient(Z(den * az + num)));
  }
  if (thin && coin(35)) {
    // planted integer-free strip:  k < a.x < k+1  written  den*a.x >= den*k+1, den*a.x <= den*k+den-1  (a integral)
    std::vector<Z> a = rel_coeffs(n, fam); Z az = dotz(a, zc); Linear_Expression e = lin(a); int den = rnd(2, 4);
    P.spec.cons.push_back(den * e >= Coefficient(Z(den * az + 1)));
    P.spec.cons.push_back(den * e <= Coefficient(Z(den * az + den - 1)));
    P.planted_free = true;
  }
  return P;
}

// candidate coordinate values of one dimension of a piece
static std::vector<Q> axis_of(const DimWin& d, const WP* wp, bool& full) {
  std::vector<Q> v; Z cnt = d.whi - d.wlo + 1;
  if (d.intdim) {
    if (cnt <= 800) { for (Z z = d.wlo; z <= d.whi; ++z) v.push_back(Q(z)); }
    else {
      full = false;
      std::set<Z> s;
      for (int j = 0; j < 4; ++j) { s.insert(d.wlo + j); s.insert(d.whi - j); }
      if (wp) { Z k0 = zfloor(Q(d.wlo - wp->lo) / Q(wp->M)); for (Z k = k0; wp->lo + k * wp->M <= d.whi + 2 && k < k0 + 6; ++k) for (int j = -2; j <= 2; ++j) { Z z = wp->lo + k * wp->M + j; if (z >= d.wlo && z <= d.whi) s.insert(z); } }
      for (int j = 0; j < 12; ++j) s.insert(zrnd(d.wlo, d.whi));
      for (std::set<Z>::iterator i = s.begin(); i != s.end(); ++i) v.push_back(Q(*i));
    }
    if (wp && (!d.lb || !d.ub)) {   // unbounded: far samples in other quadrants
      full = false;
      for (int k = 1; k <= 2; ++k) for (int j = 0; j <= 1; ++j) { if (!d.lb) v.push_back(Q(d.base + j - k * wp->M)); if (!d.ub) v.push_back(Q(d.top - j + k * wp->M)); }
    }
  } else {
    if (cnt > 8) cnt = 8;
    for (Z z = 0; z < cnt; ++z) { v.push_back(Q(d.wlo + z)); v.push_back(Q(d.wlo + z) + Q(1, 2)); }
    v.push_back(Q(d.base) + Q(1, 3));
  }
  return v;
}
// cartesian product of the axes, capped (random tuples beyond the cap)
static void cartesian(const std::vector<std::vector<Q> >& axes, size_t cap, std::vector<Vec>& out, bool& full) {
  size_t n = axes.size(); double tot = 1; for (size_t i = 0; i < n; ++i) { if (axes[i].empty()) return; }
  unsigned long long total = 1; bool over = false;
  for (size_t i = 0; i < n; ++i) { total *= axes[i].size(); if (total > cap) { over = true; break; } }
  (void) tot;
  if (!over) {
    std::vector<size_t> ix(n, 0);
    while (true) {
      Vec p(n); for (size_t i = 0; i < n; ++i) p[i] = axes[i][ix[i]];
      out.push_back(p);
      int j = (int) n - 1; while (j >= 0 && ix[j] + 1 == axes[j].size()) { ix[j] = 0; --j; }
      if (j < 0) break; ++ix[j];
    }
  } else {
    full = false;
    for (size_t t = 0; t < cap; ++t) { Vec p(n); for (size_t i = 0; i < n; ++i) p[i] = axes[i][hx::rng()() % axes[i].size()]; out.push_back(p); }
  }
}
static void piece_candidates(const Piece& P, const WP* wp, std::vector<Vec>& out, bool& full) {
  std::vector<std::vector<Q> > axes;
  for (size_t i = 0; i < P.win.size(); ++i) axes.push_back(axis_of(P.win[i], wp, full));
  if (!P.bounded) full = false;
  cartesian(axes, 6000, out, full);
}

// ---------- grid arguments ----------
struct GridArg { std::vector<std::vector<Z> > centers; };
static Z pick_mod(const WP* wp) {
  int k = rnd(0, 99);
  if (!wp) { static const int m[] = { 0, 1, 1, 2, 2, 3, 4, 5, 6, 7 }; return m[rnd(0, 9)]; }
  if (k < 10) return 0; if (k < 20) return 1; if (k < 30) return 2; if (k < 37) return 3; if (k < 42) return 5;
  if (k < 57) return wp->M; if (k < 67) return wp->M / 2; if (k < 75) return 2 * wp->M; if (k < 80) return wp->M / 4;
  if (k < 84) return 3 * wp->M; if (k < 87) return wp->M + 1; if (k < 91) return 100; if (k < 95) return 7; return 6;
}
static void gen_grid(int n, const WP* wp, ArgSpec& A, GridArg& G) {
  G.centers.assign(n, std::vector<Z>());
  if (coin(30)) {
    // from generators: a point, 0-2 parameters, 0-1 lines
    A.from_gens = true;
    Z den = coin(70) ? 1 : rnd(2, 3);
    GGen p; p.kind = 'p'; p.den = den; p.num.resize(n);
    for (int i = 0; i < n; ++i) { Z c = wp ? pick_center(*wp) + rnd(-3, 3) : Z(rnd(-5, 5)); p.num[i] = c * den + (den > 1 && coin(40) ? rnd(1, 2) : 0); G.centers[i].push_back(c); }
    A.gens.push_back(p);
    int np = rnd(0, 2);
    for (int k = 0; k < np; ++k) {
      GGen q; q.kind = 'q'; q.den = den; q.num.assign(n, Z(0));
      for (int i = 0; i < n; ++i) if (coin(60)) { Z m = pick_mod(wp); if (m == 0) m = 1; q.num[i] = m * (coin(60) ? den : Z(1)); for (int t = -2; t <= 2; ++t) G.centers[i].push_back(G.centers[i][0] + t * m); }
      A.gens.push_back(q);
    }
    if (coin(30)) { GGen l; l.kind = 'l'; l.den = 1; l.num.assign(n, Z(0)); int li = rnd(0, n - 1); l.num[li] = 1; if (n > 1 && coin(40)) l.num[(li + 1) % n] = rnd(-2, 2); A.gens.push_back(l); }
    return;
  }
  int cnt = rnd(1, 3);
  for (int c = 0; c < cnt; ++c) {
    if (n == 1 || coin(60)) {
      int i = rnd(0, n - 1); int d = coin(80) ? 1 : rnd(2, 3); Z m = pick_mod(wp);
      Z ctr = wp ? pick_center(*wp) + rnd(-4, 4) : Z(rnd(-5, 5));
      Z r = ctr * d + (d > 1 ? rnd(0, d - 1) : 0);
      A.cgs.push_back((d * Variable(i) %= Coefficient(r)) / Coefficient(d > 1 && coin(40) ? m : Z(d * m)));   // period m or m/d (fractional)
      G.centers[i].push_back(ctr);
      if (m >= 8) for (int t = -2; t <= 2; ++t) G.centers[i].push_back(ctr + t * m);
    } else {
      int i = rnd(0, n - 1), j = rnd(0, n - 2); if (j >= i) ++j;
      int ai = coin(70) ? (coin() ? 1 : -1) : rnd(2, 3); int aj = coin() ? rnd(1, 3) : -rnd(1, 3); Z m = pick_mod(wp);
      Z r = coin() ? Z(rnd(-5, 5)) : (wp ? pick_center(*wp) + rnd(-3, 3) : Z(rnd(-9, 9)));
      A.cgs.push_back((ai * Variable(i) + aj * Variable(j) %= Coefficient(r)) / Coefficient(m));
      if (ai == 1 || ai == -1) {
        std::vector<Z> ys; ys.push_back(0); if (wp) { ys.push_back(wp->lo); ys.push_back(wp->hi); } if (!G.centers[j].empty()) ys.push_back(G.centers[j][0]);
        for (size_t t = 0; t < ys.size(); ++t) for (int kk = -1; kk <= 1; ++kk) G.centers[i].push_back(ai * (r - aj * ys[t]) + kk * m);
      }
    }
  }
}
static void grid_candidates(int n, const std::vector<bool>& intdim, const WP* wp, const ArgSpec& A, const GridArg& G, std::vector<Vec>& out) {
  std::vector<std::vector<Q> > axes(n);
  for (int i = 0; i < n; ++i) {
    std::set<Z> s; std::vector<Z> cs = G.centers[i]; cs.push_back(0);
    if (wp) { cs.push_back(wp->lo); cs.push_back(wp->hi); cs.push_back(wp->hi + wp->M); cs.push_back(wp->lo - wp->M); }
    if (cs.size() > 14) cs.resize(14);
    for (size_t c = 0; c < cs.size(); ++c) for (int j = -2; j <= 2; ++j) s.insert(cs[c] + j);
    for (std::set<Z>::iterator k = s.begin(); k != s.end(); ++k) axes[i].push_back(Q(*k));
    if (!intdim[i]) { axes[i].push_back(Q(cs[0]) + Q(1, 2)); axes[i].push_back(Q(cs[0]) + Q(1, 3)); }
  }
  bool full = true; cartesian(axes, 6000, out, full);
  if (A.from_gens) {
    // members by construction: point + integer combinations of parameters + rational multiples of lines
    for (int t = 0; t < 400; ++t) {
      Vec p(n);
      for (size_t g = 0; g < A.gens.size(); ++g) {
        const GGen& gg = A.gens[g]; Q f;
        if (gg.kind == 'p') f = 1; else if (gg.kind == 'q') f = rnd(-4, 4); else f = coin(70) ? Q(rnd(-6, 6)) : Q(rnd(-6, 6), 2);
        if (gg.kind == 'l' && wp && coin(20)) f += Q(wp->M) * rnd(-1, 1);
        for (int i = 0; i < n; ++i) p[i] += f * Q(gg.num[i], gg.den);
      }
      for (int i = 0; i < n; ++i) p[i].canonicalize();
      out.push_back(p);
    }
  }
}

// ---------- a fully generated argument ----------
struct Arg {
  ArgSpec spec; std::vector<Piece> pieces; GridArg garg; bool is_grid, has_grid_part;
  bool bounded, planted_free; std::string text;
  Arg() : is_grid(false), has_grid_part(false), bounded(true), planted_free(false) {}
};
static std::string spec_text(const ArgSpec& A) {
  std::ostringstream o;
  for (size_t k = 0; k < A.disj.size(); ++k) { o << (k ? " U {" : "{"); for (size_t i = 0; i < A.disj[k].cons.size(); ++i) o << (i ? ", " : "") << str(A.disj[k].cons[i]); o << "}"; }
  if (!A.cgs.empty()) { o << " cgs["; for (size_t i = 0; i < A.cgs.size(); ++i) o << (i ? ", " : "") << str(A.cgs[i]); o << "]"; }
  if (A.from_gens) { o << " gens["; for (size_t i = 0; i < A.gens.size(); ++i) { o << (i ? ", " : "") << A.gens[i].kind << "("; for (size_t j = 0; j < A.gens[i].num.size(); ++j) o << (j ? "," : "") << A.gens[i].num[j]; o << ")/" << A.gens[i].den; } o << "]"; }
  return o.str();
}
static void gen_arg(const Entry& E, int n, const std::vector<bool>& intdim, const WP* wp, bool small, int pct_unb, bool thin, Arg& R) {
  R.spec.n = n;
  if (E.family == F_GRID) {
    R.is_grid = true; R.bounded = false; R.spec.disj.resize(1);
    gen_grid(n, wp, R.spec, R.garg);
    if (coin(12)) { int i = rnd(0, n - 1); Z v = wp ? pick_center(*wp) + rnd(-2, 2) : Z(rnd(-4, 4)); R.spec.disj[0].cons.push_back(Variable(i) == Coefficient(v)); R.garg.centers[i].insert(R.garg.centers[i].begin(), v); }
  } else {
    int np = (E.family == F_PSET) ? rnd(1, 3) : 1;
    R.planted_free = true;
    for (int k = 0; k < np; ++k) {
      Piece P = gen_piece(n, intdim, E.family, E.nnc, wp, small, pct_unb, thin);
      R.spec.disj.push_back(P.spec); if (!P.bounded) R.bounded = false; if (!P.planted_free) R.planted_free = false;
      R.pieces.push_back(P);
    }
    if (E.family == F_PROD) {
      R.has_grid_part = true;
      int cnt = rnd(0, 2);
      for (int c = 0; c < cnt; ++c) {
        int i = rnd(0, n - 1); int d = coin(70) ? 1 : 2; int m = rnd(1, 3);
        Z r = Z(rnd(-3, 3));
        if (n > 1 && coin(30)) { int j = (i + 1) % n; R.spec.cgs.push_back((Variable(i) - Variable(j) %= Coefficient(r)) / m); }
        else R.spec.cgs.push_back((d * Variable(i) %= Coefficient(r)) / (d * m));
      }
    }
  }
  R.text = spec_text(R.spec);
}
static void arg_candidates(const Arg& A, int n, const std::vector<bool>& intdim, const WP* wp, std::vector<Vec>& out, bool& full) {
  full = true;
  if (A.is_grid) { full = false; grid_candidates(n, intdim, wp, A.spec, A.garg, out); return; }
  for (size_t k = 0; k < A.pieces.size(); ++k) piece_candidates(A.pieces[k], wp, out, full);
}

// ---------- the three monitored operations ----------
static const Entry* g_entry = 0;
static std::string inst() { return g_entry->inst; }

static std::string point_class(const WP& wp, bool moved) {
  return std::string(wp.indiv ? "indiv" : "coll") + (wp.use_guard ? "-guard" : "") + (moved ? "-moved" : "-kept");
}

// ---------- triage classes (deterministic predicates on the failing input) ----------
// wrap quadrants spanned by variable v over one constraint system, computed as wrap_assign.hh does (bounds rounded
// down); returns 1 and fills fq/lq, 0 if unbounded, -1 if empty
static int quad_span(int n, const Sys& S, int v, const WP& wp, Z& fq, Z& lq) {
  Vec o(n); o[v] = 1; ref::SupResult hi = ref::supremum(n, S, o); o[v] = -1; ref::SupResult lo = ref::supremum(n, S, o);
  if (!hi.nonempty) return -1; if (!hi.bounded || !lo.bounded) return 0;
  Z u = zfloor(hi.sup), l = zfloor(Q(-lo.sup));
  fq = zfloor(Q(l - wp.lo) / Q(wp.M)); lq = zfloor(Q(u - wp.lo) / Q(wp.M));
  return 1;
}
// Class "coll-threshold-product": collective wrapping with OVERFLOW_WRAPS where, scanning the wrapped variables in
// increasing order and multiplying the quadrant counts of those that are bounded, not confined to quadrant 0 and
// individually within the threshold, the running product exceeds the threshold.
static std::string generic_class(const Shadow& SA, int n, const WP& wp, const Vec& p, bool moved) {
  std::string base = point_class(wp, moved);
  if (wp.indiv || wp.ov != 0) return base;
  for (size_t k = 0; k < SA.d.size(); ++k) {
    if (!ref::sat(SA.d[k].cons, p)) continue;
    Z prod = 1;
    for (size_t i = 0; i < wp.vlist.size(); ++i) {
      Z fq, lq; int r = quad_span(n, SA.d[k].cons, wp.vlist[i], wp, fq, lq);
      if (r <= 0) continue;
      if (fq == 0 && lq == 0) continue;
      Z e = lq - fq + 1; if (e > wp.thr) continue;
      prod *= e;
      if (prod > wp.thr) return "coll-threshold-product";
    }
    break;
  }
  return base;
}
// grids: which wrapped variable's value is missing from the result, and what its value set was in the argument
static std::string grid_class(const Shadow& SA, const Shadow& SR, int n, const WP& wp, const Vec& p, const Vec& q) {
  if (SR.d.empty()) return "result-empty";
  ref::Lattice LA = ref::from_congruences(n, SA.d[0].cgs), LR = ref::from_congruences(n, SR.d[0].cgs);
  // culprits: wrapped variables whose required value is absent from the result's value set (attributable per variable);
  // failing that (joint failure) the moved variables lying on an oblique line of the argument, else all moved ones
  std::vector<int> cul;
  for (size_t i = 0; i < wp.vlist.size(); ++i) { int v = wp.vlist[i]; Vec e(n); e[v] = 1; if (!ref::vs_contains(ref::values(LR, e, Q(0)), q[v])) cul.push_back(v); }
  if (cul.empty()) {
    for (size_t i = 0; i < wp.vlist.size(); ++i) { int v = wp.vlist[i]; Vec e(n); e[v] = 1; if (p[v] != q[v] && ref::values(LA, e, Q(0)).kind == ref::ValSet::ALL && !ref::line_member(LA, e)) return "var-on-oblique-line"; }
    for (size_t i = 0; i < wp.vlist.size(); ++i) if (p[wp.vlist[i]] != q[wp.vlist[i]]) cul.push_back(wp.vlist[i]);
    if (cul.empty()) cul = wp.vlist;
  }
  std::set<std::string> kinds;
  for (size_t i = 0; i < cul.size(); ++i) {
    int v = cul[i]; Vec e(n); e[v] = 1;
    ref::ValSet va = ref::values(LA, e, Q(0));
    std::string k; const char* sg = wp.sgn ? "-signed" : "-unsigned";
    if (va.kind == ref::ValSet::CONST) k = std::string("const-var") + sg;
    else if (va.kind == ref::ValSet::ALL) k = ref::line_member(LA, e) ? "free-var" : "var-on-oblique-line";
    else {
      Q M(wp.M);
      if (!is_int(va.step) || !is_int(va.base)) k = "periodic-var-fractional";
      else if (va.step * 2 < M) k = "periodic-var-step-lt-half-range";
      else if (va.step < M) k = "periodic-var-step-ge-half-range";
      else k = std::string(va.step == M ? "periodic-var-step-eq-range" : "periodic-var-step-gt-range") + sg;
    }
    kinds.insert(k);
  }
  return kinds.empty() ? std::string("unclassified") : *kinds.begin();   // one (the alphabetically first) kind keeps the key set small
}

// harness self-check: a reported witness must be confirmed by PPL's own containment test on a copy
static void report_lost(IDom& R, const std::string& key, const Vec& q, const std::string& detail) {
  bool ppl_has = false;
  try { ppl_has = R.copy_contains_point(q); } catch (const std::exception&) { ppl_has = false; }
  if (ppl_has) violation("harness.bug.unconfirmed_witness." + key, detail + " [PPL contains() on a copy says the point IS in the result: constraints()/congruences() and contains() disagree]");
  else violation(key, detail);
}

static int prep_count(Family f) { return (f == F_POLY || f == F_GRID) ? 5 : 3; }

static void gen_wp(int n, WP& wp, bool for_grid) {
  int k = rnd(0, 99); wp.w = k < 50 ? 8 : k < 78 ? 16 : k < 90 ? 32 : 64;
  wp.sgn = coin(); wp.ov = rnd(0, 2);
  wp.M = pow2(wp.w); wp.lo = wp.sgn ? Z(-pow2(wp.w - 1)) : Z(0); wp.hi = wp.lo + wp.M - 1;
  for (int i = 0; i < n; ++i) if (coin(70)) wp.vlist.push_back(i);
  if (wp.vlist.empty() && !coin(4)) wp.vlist.push_back(rnd(0, n - 1));
  for (size_t i = 0; i < wp.vlist.size(); ++i) wp.vars.insert(Variable(wp.vlist[i]));
  static const unsigned T[] = { 0, 1, 4, 16, 2, 3, 8, 1000000 };
  wp.thr = T[coin(80) ? rnd(0, 3) : rnd(4, 7)]; wp.indiv = coin();
  wp.use_guard = !wp.vlist.empty() && coin(for_grid ? 20 : 45);
  if (wp.use_guard) {
    int cnt = coin(8) ? 0 : rnd(1, 2);
    for (int c = 0; c < cnt; ++c) {
      int nv = wp.vlist.size(); int i = wp.vlist[rnd(0, nv - 1)];
      Z mid = (wp.lo + wp.hi) / 2;
      Z c0; switch (rnd(0, 5)) { case 0: c0 = mid + rnd(-20, 20); break; case 1: c0 = wp.lo + rnd(0, 6); break; case 2: c0 = wp.hi - rnd(0, 6); break; case 3: c0 = rnd(-8, 8); break; case 4: c0 = zrnd(wp.lo, wp.hi); break; default: c0 = wp.hi + rnd(1, 5); }
      Linear_Expression e; Z rhs = c0;
      if (nv >= 2 && coin(35)) {
        int j = wp.vlist[rnd(0, nv - 1)]; if (j == i) j = wp.vlist[(std::find(wp.vlist.begin(), wp.vlist.end(), i) - wp.vlist.begin() + 1) % nv];
        int ai = coin(75) ? 1 : rnd(2, 3), aj = coin(75) ? (coin() ? 1 : -1) : (coin() ? 2 : -3);
        e = ai * Variable(i) + aj * Variable(j);
        if (aj < 0) rhs = rnd(-10, 10) ; else rhs = (coin() ? c0 : Z(rnd(-10, 10)));
      } else e = (coin(85) ? 1 : rnd(2, 3)) * Variable(i);
      int kind = rnd(0, 99);
      if (kind < 40) wp.guard.push_back(e <= Coefficient(rhs));
      else if (kind < 75) wp.guard.push_back(e >= Coefficient(rhs));
      else if (kind < 85) wp.guard.push_back(e == Coefficient(rhs));
      else if (kind < 92) wp.guard.push_back(e < Coefficient(rhs));
      else if (kind < 98) wp.guard.push_back(e > Coefficient(rhs));
      else wp.guard.push_back(Linear_Expression(0) >= 1);   // unsatisfiable guard
    }
  }
}

// space dimension of a case: 1-3, occasionally 4 in thorough runs
static int pick_dim() { return (hx::opt().thorough && coin(15)) ? 4 : rnd(1, 3); }

static void case_wrap(const Entry& E, IDom& X) {
  int n = pick_dim();
  WP wp; gen_wp(n, wp, E.family == F_GRID);
  std::vector<bool> intdim(n, false); for (size_t i = 0; i < wp.vlist.size(); ++i) intdim[wp.vlist[i]] = true;
  int pct_unb = coin(20) ? 35 : 0;
  Arg A; gen_arg(E, n, intdim, &wp, false, pct_unb, false, A);
  int prep = rnd(0, prep_count(E.family) - 1);
  Constraint_System gcs; for (size_t i = 0; i < wp.guard.size(); ++i) { gcs.insert(wp.guard[i]); wp.guard_sys.push_back(ref::conv(wp.guard[i], n)); }
  std::ostringstream t;
  t << inst() << " n=" << n << " arg=" << A.text << " prep=" << prep << " .wrap_assign(vars=" << str(wp.vars) << ", w=" << wp.w << (wp.sgn ? ", SIGNED" : ", UNSIGNED")
    << ", OVERFLOW_" << OVN[wp.ov] << ", cs=";
  if (wp.use_guard) { t << "{"; for (size_t i = 0; i < wp.guard.size(); ++i) t << (i ? ", " : "") << str(wp.guard[i]); t << "}"; } else t << "null";
  t << ", thr=" << wp.thr << ", indiv=" << wp.indiv << ")";
  tr(t.str());
  hx::count("op.wrap_assign"); hx::count(std::string("wrap.mode.") + OVN[wp.ov]); hx::count("wrap.w" + std::to_string(wp.w));
  hx::count(wp.indiv ? "wrap.individually" : "wrap.collectively"); if (wp.use_guard) hx::count("wrap.guarded");

  X.build(A.spec); X.prep(prep);
  Shadow SA = X.observe();
  std::string status = X.status();
  // integer points of the argument
  std::vector<Vec> cand, pts; bool full = true; arg_candidates(A, n, intdim, &wp, cand, full);
  for (size_t i = 0; i < cand.size(); ++i) {
    bool ok = true; for (size_t k = 0; k < wp.vlist.size(); ++k) if (!is_int(cand[i][wp.vlist[k]])) ok = false;
    if (ok && SA.member(cand[i])) pts.push_back(cand[i]);
  }
  std::sort(pts.begin(), pts.end()); pts.erase(std::unique(pts.begin(), pts.end()), pts.end());
  if (pts.size() > 5000) { std::shuffle(pts.begin(), pts.end(), hx::rng()); pts.resize(5000); full = false; }

  std::string mode = OVN[wp.ov];
  try {
    Weight_Guard wg(200000000ULL);
    X.wrap(wp.vars, width_of(wp.w), wp.sgn ? SIGNED_2_COMPLEMENT : UNSIGNED,
           wp.ov == 0 ? OVERFLOW_WRAPS : wp.ov == 1 ? OVERFLOW_UNDEFINED : OVERFLOW_IMPOSSIBLE,
           wp.use_guard ? &gcs : 0, wp.thr, wp.indiv);
    note_weight("wrap_assign", wg.used());
  }
  catch (const Logical_Timeout&) { violation("C17.hang." + inst() + ".wrap_assign" + (A.bounded ? ":bounded-receiver" : ":unbounded-receiver"), "logical-time budget exceeded"); return; }
  catch (const std::exception& e) { violation("C17.wrap." + inst() + "." + mode + ".exception", std::string(typeid(e).name()) + ": " + e.what()); return; }
  if (!X.ok()) { violation("C17.wrap." + inst() + "." + mode + ".not_OK", "OK() false after wrap_assign"); return; }
  Shadow SR = X.observe();
  checked();

  std::set<std::string> quadrants; unsigned long moved_cnt = 0, images = 0;
  std::vector<Z> rnd_vals;
  for (size_t pi = 0; pi < pts.size(); ++pi) {
    const Vec& p = pts[pi];
    std::vector<int> over; Vec wq = p; std::string qd;
    for (size_t k = 0; k < wp.vlist.size(); ++k) {
      int v = wp.vlist[k]; Z z = p[v].get_num();
      if (!in_range(z, wp)) over.push_back(v);
      wq[v] = Q(wrapv(z, wp));
      if (quadrants.size() < 64) qd += zs(zfloor(Q(z - wp.lo) / Q(wp.M))) + ",";
    }
    if (quadrants.size() < 64) quadrants.insert(qd);
    bool moved = !over.empty(); if (moved) ++moved_cnt;
    std::vector<Vec> must;
    if (wp.ov == 0) must.push_back(wq);
    else if (wp.ov == 2) { if (!moved) must.push_back(p); }
    else {
      if (!moved) must.push_back(p);
      else {
        Z cv[5] = { wp.lo, wp.hi, Z(0), Z(1), Z(-1) };
        for (int c = 0; c < 5; ++c) { if (!in_range(cv[c], wp)) continue; Vec q = p; for (size_t k = 0; k < over.size(); ++k) q[over[k]] = Q(cv[c]); must.push_back(q); }
        for (int c = 0; c < 5; ++c) { Vec q = p; for (size_t k = 0; k < over.size(); ++k) q[over[k]] = Q(zrnd(wp.lo, wp.hi)); must.push_back(q); }
      }
    }
    for (size_t m = 0; m < must.size(); ++m) {
      const Vec& q = must[m];
      if (wp.use_guard && !ref::sat(wp.guard_sys, q)) continue;
      ++images;
      if (!SR.member(q)) {
        std::ostringstream o; o << "argument point " << pplx::show(p) << " requires image " << pplx::show(q) << " which is not in the result; argument=" << show_shadow(SA) << " result=" << show_shadow(SR);
        std::string cls = E.family == F_GRID ? grid_class(SA, SR, n, wp, p, q) : generic_class(SA, n, wp, p, moved);
        report_lost(X, "C17.wrap." + inst() + "." + mode + ".lost_point:" + cls, q, o.str());
        return;
      }
    }
  }
  checked(images);
  hx::count("pts.enumerated", pts.size()); hx::count("pts.moved", moved_cnt); hx::count("images.checked", images);
  if (full) hx::count("wrap.exhaustive_window"); else hx::count("wrap.sampled_window");
  if (!A.bounded) hx::count("wrap.unbounded_arg");
  if (quadrants.size() >= 2) hx::count("wrap.multi_quadrant_arg");
  if (quadrants.size() >= 4) hx::count("wrap.ge4_quadrant_arg");
  if (!pts.empty()) {
    std::ostringstream d; d << "wrap|" << inst() << "|" << mode << "|w" << wp.w << (wp.sgn ? "s" : "u") << "|" << (wp.indiv ? "ind" : "col") << "|thr" << (wp.thr > 16 ? 99 : wp.thr)
      << "|" << (wp.use_guard ? "g" : "-") << "|prep" << prep << "|" << status << "|q" << (quadrants.size() > 4 ? 5 : quadrants.size()) << (A.bounded ? "|b" : "|u") << "|v" << wp.vlist.size() << "/" << n;
    { if (hx::opt().verbose) fprintf(stderr, "token: %s\n", d.str().c_str()); hx::distinct(d.str()); }
  } else hx::count("wrap.no_argument_point");
}

// exact inclusion R subseteq A where the reference model can decide it; 1 yes, 0 no (wit filled when possible), -1 undecided
static int exact_included(const Entry& E, int n, const Shadow& R, const Shadow& A, Vec* wit) {
  if (R.d.empty()) return 1;
  if (E.family == F_PROD) return -1;
  if (E.family == F_GRID) {
    if (A.d.empty()) return 0;
    ref::Lattice lr = ref::from_congruences(n, R.d[0].cgs), la = ref::from_congruences(n, A.d[0].cgs);
    return ref::included(lr, la) ? 1 : 0;
  }
  std::vector<Sys> U, V; for (size_t i = 0; i < R.d.size(); ++i) U.push_back(R.d[i].cons); for (size_t i = 0; i < A.d.size(); ++i) V.push_back(A.d[i].cons);
  if (V.empty()) { for (size_t i = 0; i < U.size(); ++i) if (ref::feasible(n, U[i], wit)) return 0; return 1; }
  return ref::union_included(n, U, V, wit, 4000);
}

static void case_drop(const Entry& E, IDom& X) {
  int n = pick_dim();
  bool all = coin(30);
  std::vector<int> vlist; Variables_Set vars;
  if (!all) { for (int i = 0; i < n; ++i) if (coin(65)) vlist.push_back(i); if (vlist.empty() && !coin(6)) vlist.push_back(rnd(0, n - 1)); for (size_t i = 0; i < vlist.size(); ++i) vars.insert(Variable(vlist[i])); }
  else for (int i = 0; i < n; ++i) vlist.push_back(i);
  std::vector<bool> intdim(n, false); for (size_t i = 0; i < vlist.size(); ++i) intdim[vlist[i]] = true;
  Complexity_Class cc = (Complexity_Class[]) { POLYNOMIAL_COMPLEXITY, SIMPLEX_COMPLEXITY, ANY_COMPLEXITY }[rnd(0, 2)];
  const char* ccn = cc == POLYNOMIAL_COMPLEXITY ? "POLYNOMIAL" : cc == SIMPLEX_COMPLEXITY ? "SIMPLEX" : "ANY";
  // occasionally place the argument near type limits to exercise large coefficients
  WP big; bool use_big = coin(15); if (use_big) { big.w = coin() ? 32 : 64; big.sgn = coin(); big.M = pow2(big.w); big.lo = big.sgn ? Z(-pow2(big.w - 1)) : Z(0); big.hi = big.lo + big.M - 1; }
  Arg A; gen_arg(E, n, intdim, use_big ? &big : 0, !use_big, coin(25) ? 35 : 0, coin(40), A);
  int prep = rnd(0, prep_count(E.family) - 1);
  std::ostringstream t; t << inst() << " n=" << n << " arg=" << A.text << " prep=" << prep << " .drop_some_non_integer_points(" << (all ? std::string("") : str(vars) + ", ") << ccn << ")";
  tr(t.str()); hx::count("op.drop_some_non_integer_points"); hx::count(std::string("drop.") + ccn); hx::count(all ? "drop.all_dims" : "drop.vars");
  X.build(A.spec); X.prep(prep);
  Shadow SA = X.observe(); std::string status = X.status();
  std::vector<Vec> cand; bool full = true; arg_candidates(A, n, intdim, use_big ? &big : 0, cand, full);
  // add non-integer samples on the designated dimensions too (for the subset clause)
  size_t base_cnt = cand.size();
  for (size_t i = 0; i < base_cnt && i < 600; ++i) { Vec q = cand[i]; int k = rnd(0, n - 1); q[k] += Q(1, coin() ? 2 : 3); cand.push_back(q); }
  try {
    Weight_Guard wg(200000000ULL);
    X.drop(all ? 0 : &vars, cc);
    note_weight("drop_some_non_integer_points", wg.used());
  }
  catch (const Logical_Timeout&) { violation("C17.hang." + inst() + ".drop_some_non_integer_points" + (A.bounded ? ":bounded-receiver" : ":unbounded-receiver"), "logical-time budget exceeded"); return; }
  catch (const std::exception& e) { violation("C17.drop." + inst() + ".exception", std::string(typeid(e).name()) + ": " + e.what()); return; }
  if (!X.ok()) { violation("C17.drop." + inst() + ".not_OK", "OK() false after drop_some_non_integer_points"); return; }
  Shadow SR = X.observe();
  checked();
  unsigned long kept = 0, npts = 0;
  for (size_t i = 0; i < cand.size(); ++i) {
    const Vec& p = cand[i];
    bool inA = SA.member(p), inR = SR.member(p);
    if (inR && !inA) {
      std::ostringstream o; o << "point " << pplx::show(p) << " is in the result but not in the argument; argument=" << show_shadow(SA) << " result=" << show_shadow(SR);
      violation("C17.drop." + inst() + ".not_subset", o.str()); return;
    }
    if (!inA) continue;
    ++npts;
    bool integral = true; for (size_t k = 0; k < vlist.size(); ++k) if (!is_int(p[vlist[k]])) integral = false;
    if (!integral) continue;
    ++kept;
    if (!inR) {
      std::ostringstream o; o << "argument point " << pplx::show(p) << " (integral on the designated dimensions) was dropped; argument=" << show_shadow(SA) << " result=" << show_shadow(SR);
      report_lost(X, "C17.drop." + inst() + ".lost_integer_point:" + (all ? "all-dims" : "vars") + "-" + ccn, p, o.str());
      return;
    }
  }
  checked(npts);
  Vec wit; int inc = exact_included(E, n, SR, SA, &wit);
  if (inc == 0) {
    std::ostringstream o; o << "exact inclusion result <= argument fails" << (wit.empty() ? std::string("") : " at " + pplx::show(wit)) << "; argument=" << show_shadow(SA) << " result=" << show_shadow(SR);
    if (!wit.empty() && (!SR.member(wit) || SA.member(wit))) violation("harness.bug.drop_subset_witness", o.str());
    else violation("C17.drop." + inst() + ".not_subset", o.str());
    return;
  }
  if (inc == 1) { checked(); hx::count("drop.exact_subset_checks"); } else hx::count("drop.subset_by_points_only");
  hx::count("drop.pts_in_argument", npts); hx::count("drop.integer_pts_checked", kept);
  bool changed = false; { Vec w2; changed = exact_included(E, n, SA, SR, &w2) == 0; }
  if (changed) hx::count("drop.tightened");
  if (npts) { std::ostringstream d; d << "drop|" << inst() << "|" << ccn << "|" << (all ? "all" : "vars") << vlist.size() << "/" << n << "|prep" << prep << "|" << status << (A.bounded ? "|b" : "|u") << (changed ? "|tight" : "|same") << (kept ? "|ip" : "|noip"); { if (hx::opt().verbose) fprintf(stderr, "token: %s\n", d.str().c_str()); hx::distinct(d.str()); } }
}

static void case_cip(const Entry& E, IDom& X) {
  int n = pick_dim();
  std::vector<bool> intdim(n, true);
  bool unb = coin(30);
  Arg A; gen_arg(E, n, intdim, 0, true, unb ? 40 : 0, true, A);
  int prep = rnd(0, prep_count(E.family) - 1);
  tr(inst() + " n=" + std::to_string(n) + " arg=" + A.text + " prep=" + std::to_string(prep) + " .contains_integer_point()");
  hx::count("op.contains_integer_point");
  X.build(A.spec); X.prep(prep);
  Shadow SA = X.observe(); std::string status = X.status();
  // expected answer
  int expect = -1; Vec wit; std::string how;
  if (SA.d.empty()) { expect = 0; how = "empty"; }
  else if (E.family == F_GRID) {
    std::vector<Cg> zn; for (int i = 0; i < n; ++i) { Cg c; c.a.assign(n, Q(0)); c.a[i] = 1; c.b = 0; c.m = 1; zn.push_back(c); }
    std::vector<Cg> all = SA.d[0].cgs; all.insert(all.end(), zn.begin(), zn.end());
    ref::Lattice L = ref::from_congruences(n, all);
    expect = L.empty ? 0 : 1; how = "lattice";
    if (!L.empty) { wit = L.p; if (!SA.member(wit)) { violation("harness.bug.cip_lattice_witness", pplx::show(wit) + " not in " + show_shadow(SA)); return; } bool ii = true; for (int i = 0; i < n; ++i) if (!is_int(wit[i])) ii = false; if (!ii) { violation("harness.bug.cip_lattice_witness", pplx::show(wit) + " not integral"); return; } }
  } else {
    std::vector<Vec> cand; bool full = true; arg_candidates(A, n, intdim, 0, cand, full);
    for (size_t i = 0; i < cand.size() && expect != 1; ++i) {
      bool ii = true; for (int k = 0; k < n; ++k) if (!is_int(cand[i][k])) ii = false;
      if (ii && SA.member(cand[i])) { expect = 1; wit = cand[i]; how = "witness"; }
    }
    if (expect != 1) {
      if (full && A.bounded) { expect = 0; how = "exhaustive"; }
      else if (A.planted_free) { expect = 0; how = "planted-strip"; }
    }
  }
  bool got = false;
  try {
    Weight_Guard wg(200000000ULL);
    got = X.cip();
    note_weight("contains_integer_point", wg.used());
  }
  catch (const Logical_Timeout&) { violation("C17.hang." + inst() + ".contains_integer_point" + (A.bounded && !A.is_grid ? ":bounded-receiver" : ":unbounded-receiver"), "logical-time budget exceeded; expected=" + std::to_string(expect) + " arg=" + show_shadow(SA)); return; }
  catch (const std::exception& e) { violation("C17.cip." + inst() + ".exception", std::string(typeid(e).name()) + ": " + e.what()); return; }
  hx::count(got ? "cip.true" : "cip.false");
  if (expect < 0) { hx::inconclusive("cip_unbounded_window"); return; }
  checked(); hx::count("cip.decided_by." + how);
  if ((int) got != expect) {
    std::ostringstream o; o << "contains_integer_point() = " << got << ", expected " << expect << " (" << how << (expect ? ", witness " + pplx::show(wit) : std::string("")) << "); set=" << show_shadow(SA);
    violation("C17.cip." + inst() + (expect ? ".false_negative" : ".false_positive") + (A.bounded && !A.is_grid ? ":bounded" : ":unbounded"), o.str());
    return;
  }
  if (!SA.d.empty()) hx::distinct("cip|" + inst() + "|prep" + std::to_string(prep) + "|" + status + "|" + how + (A.bounded ? "|b" : "|u") + "|n" + std::to_string(n) + (got ? "|1" : "|0"));
}

// ---------- case dispatcher ----------
static void run_case(uint64_t) {
  std::vector<Entry>& T = table();
  static bool sorted = false;
  if (!sorted) { std::sort(T.begin(), T.end(), [](const Entry& a, const Entry& b) { return a.short_name < b.short_name; }); sorted = true; }
  std::string want = hx::opt().gets("inst", "all");
  const Entry* E = 0;
  if (want == "all") E = &T[(size_t) (hx::st().cur_case % (long) T.size())];
  else { for (size_t i = 0; i < T.size(); ++i) if (T[i].short_name == want) E = &T[i]; if (!E) { fprintf(stderr, "unknown inst %s\n", want.c_str()); exit(2); } }
  g_entry = E;
  std::string op = hx::opt().gets("op", hx::opt().profile == "cip" ? "cip" : hx::opt().profile == "drop" ? "drop" : hx::opt().profile == "wrap" ? "wrap" : "mix");
  if (op == "mix") { int k = rnd(0, 99); op = k < 60 ? "wrap" : k < 82 ? "drop" : "cip"; }
  if (op == "wrap" && !E->has_wrap) op = "drop";
  if (op == "cip" && !E->has_cip) op = "drop";
  std::unique_ptr<IDom> X(E->make());
  hx::count("inst." + E->short_name);
  try {
    if (op == "wrap") case_wrap(*E, *X);
    else if (op == "drop") case_drop(*E, *X);
    else case_cip(*E, *X);
  }
  catch (const Logical_Timeout&) { violation("C17.hang." + inst() + ".argument_construction", "logical-time budget exceeded outside the monitored call"); }
  catch (const std::exception& e) { violation("harness.uncaught." + inst(), std::string(typeid(e).name()) + ": " + e.what()); }
}

int main(int argc, char** argv) { return hx::main_loop(argc, argv, run_case); }
