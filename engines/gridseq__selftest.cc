// gridseq --profile selftest: the reference lattice model checked against
// brute force.  No PPL computation is involved (PPL is only linked because the
// harness runtime is shared): random lattices and congruence systems are
// drawn directly in the model's own types, and every service the C05 oracle
// relies on is compared with plain membership arithmetic on sampled points.
#include "hx.hh"
#include "refgrid.hh"
#include <sstream>

using namespace ref;
using hx::rnd; using hx::coin;

static void bad(const std::string& what, const std::string& detail) { hx::violation("harness.selftest." + what, detail); }
static std::string sv(const Vec& x) { std::ostringstream o; o << "("; for (size_t i = 0; i < x.size(); ++i) o << (i ? "," : "") << x[i]; o << ")"; return o.str(); }
static std::string sl(Lattice g) { canonicalize(g); std::ostringstream o; if (g.empty) return "[empty]"; o << "[p" << sv(g.p); for (auto& q : g.params) o << " q" << sv(q); for (auto& l : g.lines) o << " l" << sv(l); o << "]"; return o.str(); }

static Q rq(int num, int den) { Q q(rnd(-num, num), rnd(1, den)); q.canonicalize(); return q; }
static Vec rvec(int n, int num, int den, int pct_zero) { Vec v(n); for (int d = 0; d < n; ++d) if (!coin(pct_zero)) v[d] = rq(num, den); return v; }
static std::vector<Cg> rand_cgs(int n, int k) {
  std::vector<Cg> cs;
  for (int i = 0; i < k; ++i) { Cg g; g.a.assign(n, Q(0)); for (int d = 0; d < n; ++d) if (coin(70)) g.a[d] = rnd(-3, 3); g.b = coin(80) ? Q(rnd(-4, 4)) : rq(5, 3); g.m = coin(85) ? Q(rnd(0, 5)) : Q(rnd(1, 5), rnd(2, 3)); g.m.canonicalize(); cs.push_back(g); }
  return cs;
}
static Lattice rand_lattice(int n) {
  if (coin(45)) return from_congruences(n, rand_cgs(n, rnd(0, 4)));
  Lattice g; g.n = n; g.empty = false; g.p = rvec(n, 5, 3, 30);
  int k = rnd(0, 3); for (int i = 0; i < k; ++i) { Vec q = rvec(n, 4, 3, 35); if (coin(25)) g.lines.push_back(q); else g.params.push_back(q); }
  return g;
}
// a random point of the lattice (small multipliers)
static Vec rand_member(const Lattice& g) {
  Vec x = g.p;
  for (auto& q : g.params) { int m = rnd(-3, 3); for (int d = 0; d < g.n; ++d) x[d] += m * q[d]; }
  for (auto& l : g.lines) { Q m = rq(5, 3); for (int d = 0; d < g.n; ++d) x[d] += m * l[d]; }
  for (int d = 0; d < g.n; ++d) x[d].canonicalize();
  return x;
}
static Vec rand_point(int n) { return rvec(n, 8, 4, 10); }
// all points p + sum k_i q_i (|k_i| <= W) + a few multiples of each line; g canonical
static std::vector<Vec> window(const Lattice& g, int W) {
  std::vector<Vec> out; if (g.empty) return out;
  std::vector<int> k(g.params.size(), -W);
  static const int LM[4][2] = { {0, 1}, {1, 2}, {-2, 3}, {1, 1} };
  for (;;) {
    Vec x = g.p; for (size_t i = 0; i < k.size(); ++i) for (int d = 0; d < g.n; ++d) x[d] += Q(k[i]) * g.params[i][d];
    std::vector<int> lm(g.lines.size(), 0);
    for (;;) {
      Vec y = x; for (size_t i = 0; i < lm.size(); ++i) { Q m(LM[lm[i]][0], LM[lm[i]][1]); for (int d = 0; d < g.n; ++d) y[d] += m * g.lines[i][d]; }
      for (int d = 0; d < g.n; ++d) y[d].canonicalize();
      out.push_back(y);
      int j = (int) lm.size() - 1; while (j >= 0 && lm[j] == 3) { lm[j] = 0; --j; } if (j < 0) break; ++lm[j];
    }
    int j = (int) k.size() - 1; while (j >= 0 && k[j] == W) { k[j] = -W; --j; } if (j < 0) break; ++k[j];
  }
  return out;
}
// The enumerated window walks the parameters of a lattice and samples its lines at four small fractions only (all of
// whose differences are multiples of 1/6).  A brute-force comparison against another lattice B is
// therefore meaningful only if every line of A is a line of B as well (then the line directions factor out of both sides);
// otherwise a point of A outside B exists along that line.  Direction l is a line of B iff B contains b + t*l for two
// fractions t with coprime large denominators (the generated denominators are <= 30).
static bool lines_are_lines_of(const Lattice& ca, const Lattice& B) {
  if (ca.lines.empty()) return true;
  if (B.empty) return false;
  for (size_t i = 0; i < ca.lines.size(); ++i) {
    Vec x(B.p), y(B.p);
    for (int d = 0; d < B.n; ++d) { x[d] += ca.lines[i][d] / Q(7919); y[d] += ca.lines[i][d] / Q(7907); }
    if (!member(B, x) || !member(B, y)) return false;
  }
  return true;
}
static Lattice hull_of(const std::vector<Vec>& pts, int n) { Lattice g = lat_empty(n); if (pts.empty()) return g; g.empty = false; g.p = pts[0]; for (size_t i = 1; i < pts.size(); ++i) { Vec q(n); for (int d = 0; d < n; ++d) q[d] = pts[i][d] - pts[0][d]; g.params.push_back(q); } return g; }

void gridseq_selftest_case() {
  int n = rnd(0, 3);
  hx::tr("selftest n=" + std::to_string(n));
  // 1. congruences -> generators: satisfies every congruence <=> member
  {
    std::vector<Cg> cs = rand_cgs(n, rnd(0, 4)); Lattice L = from_congruences(n, cs);
    hx::count("st.from_congruences");
    if (!L.empty) { Lattice c = L; canonicalize(c); std::vector<Vec> w = window(c, 1); for (auto& x : w) { hx::checked(); if (!sat_all(cs, x)) { bad("from_congruences.generated_point", sv(x)); return; } } }
    for (int s = 0; s < 120; ++s) { Vec x = (s % 3 == 0 && !L.empty) ? rand_member(L) : rand_point(n); if (s % 3 == 1 && !L.empty) { x = rand_member(L); if (n) x[rnd(0, n - 1)] += rq(3, 4); } hx::checked(); bool sa = sat_all(cs, x), me = member(L, x); if (sa) hx::count("st.sat_hits"); if (sa != me) { bad("from_congruences.membership", sv(x) + " sat=" + std::to_string(sa) + " lattice " + sl(L)); return; } }
  }
  Lattice A = rand_lattice(n), B = rand_lattice(n);
  hx::tr(" A=" + sl(A) + " B=" + sl(B));
  // 2. generators -> congruences
  {
    std::vector<Cg> cs = to_congruences(A); hx::count("st.to_congruences");
    if (!same(from_congruences(n, cs), A)) { bad("to_congruences.round_trip", sl(A)); return; }
    for (int s = 0; s < 80; ++s) { Vec x = (s % 2 && !A.empty) ? rand_member(A) : rand_point(n); if (s % 4 == 1 && !A.empty && n) x[rnd(0, n - 1)] += rq(3, 4); hx::checked(); if (sat_all(cs, x) != member(A, x)) { bad("to_congruences.membership", sv(x) + " " + sl(A)); return; } }
  }
  // 3. intersection, inclusion, join
  {
    Lattice I = intersect(A, B), J = join(A, B); hx::count("st.meet_join");
    for (int s = 0; s < 80; ++s) { Vec x = s % 4 == 0 ? rand_point(n) : (s % 4 == 1 && !A.empty) ? rand_member(A) : (s % 4 == 2 && !B.empty) ? rand_member(B) : (!I.empty ? rand_member(I) : rand_point(n)); hx::checked(); bool in = member(A, x) && member(B, x); if (in) hx::count("st.meet_hits"); if (in != member(I, x)) { bad("intersect.membership", sv(x) + " A " + sl(A) + " B " + sl(B)); return; } if ((member(A, x) || member(B, x)) && !member(J, x)) { bad("join.contains_operands", sv(x)); return; } }
    if (!included(I, A) || !included(I, B) || !included(A, J) || !included(B, J)) { bad("lattice_order", sl(A) + " " + sl(B)); return; }
    // integer affine combinations of points of A u B stay in the join; the join is generated by such points
    if (!A.empty && !B.empty) for (int s = 0; s < 20; ++s) { Vec x = rand_member(A), y = rand_member(B), z = rand_member(coin() ? A : B); int a = rnd(-3, 3), b = rnd(-3, 3); Vec w(n); for (int d = 0; d < n; ++d) w[d] = a * x[d] + b * y[d] + (1 - a - b) * z[d]; hx::checked(); if (!member(J, w)) { bad("join.affine_combination", sv(w)); return; } }
    if (!A.empty && !B.empty) { Lattice ca = A, cb = B; canonicalize(ca); canonicalize(cb); std::vector<Vec> pts = window(ca, 1), pb = window(cb, 1); pts.insert(pts.end(), pb.begin(), pb.end()); Lattice H = hull_of(pts, n); H.lines = ca.lines; H.lines.insert(H.lines.end(), cb.lines.begin(), cb.lines.end()); hx::checked(); if (!same(H, J)) { bad("join.minimal", sl(A) + " " + sl(B) + " hull " + sl(H) + " join " + sl(J)); return; } }
    // inclusion against sampling
    { bool inc = included(A, B); bool refuted = false; if (!A.empty) { Lattice ca = A; canonicalize(ca); for (auto& x : window(ca, 1)) if (!member(B, x)) refuted = true; if (!lines_are_lines_of(ca, B)) refuted = true; } hx::checked(); if (inc && refuted) { bad("included.sample_outside", sl(A) + " " + sl(B)); return; } if (!inc && !refuted && !A.empty) { bad("included.no_witness", sl(A) + " " + sl(B)); return; } }
  }
  // 4. difference (closed form) against the hull of an enumerated window
  {
    // make the interesting cases frequent: B a sublattice-like refinement of A
    Lattice B2 = B; if (!A.empty && coin(60)) { std::vector<Cg> c = to_congruences(A); std::vector<Cg> extra = rand_cgs(n, rnd(1, 2)); if (coin(50)) for (auto& g : extra) if (g.m == 0) g.m = rnd(2, 4); c.insert(c.end(), extra.begin(), extra.end()); if (coin(50)) { Lattice P = from_congruences(n, c); if (!P.empty) B2 = P; } else B2 = from_congruences(n, extra); }
    if (!A.empty && coin(30)) { Vec a = rvec(n, 3, 1, 30); ValSet v = values(A, a, Q(0)); if (v.kind == ValSet::PERIODIC) { Cg g; g.a = a; g.b = v.base; g.m = v.step * rnd(2, 3); std::vector<Cg> c(1, g); B2 = from_congruences(n, c); } }
    bool err = false; Lattice D = difference(A, B2, &err); hx::count("st.difference");
    if (err) { bad("difference.internal", sl(A) + " " + sl(B2)); return; }
    Lattice ca = A; canonicalize(ca);
    if (!A.empty && ca.params.size() + ca.lines.size() <= 3 && lines_are_lines_of(ca, B2)) {
      int W = ca.params.size() <= 1 ? 12 : ca.params.size() == 2 ? 6 : 4;
      std::vector<Vec> all = window(ca, W), S; for (auto& x : all) if (!member(B2, x)) S.push_back(x);
      hx::checked(S.size());
      for (auto& x : S) if (!member(D, x)) { bad("difference.lost_point", sv(x) + " A " + sl(A) + " B " + sl(B2) + " D " + sl(D)); return; }
      Lattice H = hull_of(S, n);
      // lines of A that are also lines of the difference: a line of A is a line of hull(A \ B) whenever the hull is non-empty
      if (!H.empty) H.lines = ca.lines;
      if (!included(D, A)) { bad("difference.not_in_minuend", sl(A) + " " + sl(B2)); return; }
      hx::count(D.empty ? "st.difference.empty" : same(D, A) ? "st.difference.whole" : "st.difference.coset");
      if (!same(H, D)) { bad("difference.not_minimal", "A " + sl(A) + " B " + sl(B2) + " closed form " + sl(D) + " window hull " + sl(H)); return; }
    }
  }
  // 5. value set of an expression
  if (!A.empty) {
    Vec a = rvec(n, 3, 2, 30); Q b = rq(4, 3); ValSet v = values(A, a, b); hx::count("st.values");
    Lattice ca = A; canonicalize(ca); std::vector<Vec> w = window(ca, 3);
    Q g = 0, first; bool have = false, varied = false;
    for (auto& x : w) { Q t = dot(a, x) + b; hx::checked(); if (!vs_contains(v, t)) { bad("values.contains", sv(x)); return; } if (!have) { first = t; have = true; } else { if (t != first) varied = true; g = qgcd(g, Q(t - first)); } }
    bool line_hits = false; for (auto& l : ca.lines) if (dot(a, l) != 0) line_hits = true;
    if (line_hits != (v.kind == ValSet::ALL)) { bad("values.kind_all", sl(A)); return; }
    if (!line_hits) { if (varied != (v.kind == ValSet::PERIODIC)) { bad("values.kind", sl(A) + " a " + sv(a)); return; } if (varied && g != v.step) { bad("values.step", sl(A) + " a " + sv(a)); return; } }
    Q m = coin(30) ? Q(0) : rq(4, 2); if (m < 0) m = -m; bool some, every; vs_vs_modulus(v, m, some, every);
    bool bs = false, be = true; for (auto& x : w) { Q t = dot(a, x) + b; bool ok = (m == 0) ? (t == 0) : is_int(Q(t / m)); if (ok) bs = true; else be = false; }
    hx::checked(); if ((bs && !some) || (!be && every)) { bad("values.modulus", sl(A) + " a " + sv(a)); return; }
    if (v.kind != ValSet::ALL && ((some && !bs) || (!every && be))) hx::count("st.values.window_undecided");
  }
  // 6. images, preimages, generalized affine relation
  if (n >= 1) {
    AffMap M = identity_map(n); int v = rnd(0, n - 1); Vec ea = rvec(n, 3, 2, 35); for (int j = 0; j < n; ++j) M[v][j] = ea[j]; M[v][n] = rq(3, 2);
    Lattice Im = image(A, M), Pre = preimage(A, M, n); hx::count("st.image_preimage");
    for (int s = 0; s < 40; ++s) { Vec x = (s % 2 && !Pre.empty) ? rand_member(Pre) : rand_point(n); hx::checked(); if (member(A, map_apply(M, x, false)) != member(Pre, x)) { bad("preimage.membership", sv(x) + " " + sl(A)); return; } if (!A.empty) { Vec y = rand_member(A); if (!member(Im, map_apply(M, y, false))) { bad("image.contains", sv(y)); return; } } }
    if (!Im.empty) for (int s = 0; s < 10; ++s) { Vec w = rand_member(Im); // some x in A maps to w: x_i = w_i (i != v), M_v(x) = w_v
      std::vector<Cg> c = to_congruences(A); for (int i = 0; i < n; ++i) { Cg g; g.a.assign(n, Q(0)); if (i == v) { for (int j = 0; j < n; ++j) g.a[j] = M[v][j]; g.b = w[v] - M[v][n]; } else { g.a[i] = 1; g.b = w[i]; } g.m = 0; c.push_back(g); } hx::checked(); if (from_congruences(n, c).empty) { bad("image.extra_point", sv(w) + " " + sl(A)); return; } }
    // relation lc.w + ld == ra.v + rb (mod f), w_i = v_i where lc_i == 0
    Vec lc = rvec(n, 3, 1, 45), ra = rvec(n, 3, 2, 35); Q ld = rq(3, 2), rb = rq(3, 2), f = coin(30) ? Q(0) : Q(rnd(1, 5), rnd(1, 2)); f.canonicalize();
    for (int pre = 0; pre < 2; ++pre) {
      Lattice R = rel_image(A, lc, ld, ra, rb, f, pre); hx::count("st.rel_image");
      // forward: build related pairs from members of A
      if (!A.empty) for (int s = 0; s < 25; ++s) {
        Vec src = rand_member(A), dst = src; int free_i = -1;
        // the side that must be solved: image -> w (lhs side), preimage -> v (rhs side)
        const Vec& coef = pre ? ra : lc;
        for (int i = 0; i < n; ++i) if (lc[i] != 0) { dst[i] = rq(6, 3); if (coef[i] != 0) free_i = i; }
        Q target = (f == 0) ? Q(0) : Q(Q(rnd(-3, 3)) * f);
        // residual = lc.w + ld - ra.v - rb must equal target
        auto resid = [&](const Vec& vv, const Vec& ww) { return Q(dot(lc, ww) + ld - dot(ra, vv) - rb); };
        Q r0 = pre ? resid(dst, src) : resid(src, dst);
        if (r0 != target) { if (free_i < 0) continue; Q delta = (target - r0) / coef[free_i]; if (pre) dst[free_i] -= delta; else dst[free_i] += delta; }
        Q r1 = pre ? resid(dst, src) : resid(src, dst);
        if (r1 != target) { bad("rel_image.selftest_construction", "residual"); return; }
        hx::checked(); if (!member(R, dst)) { bad(pre ? "rel_preimage.lost" : "rel_image.lost", sv(src) + " -> " + sv(dst) + " " + sl(A)); return; }
      }
      // backward: every sampled member of R is related to a member of A (existence by a congruence system in n unknowns)
      if (!R.empty) for (int s = 0; s < 8; ++s) {
        Vec y = rand_member(R); std::vector<Cg> c = to_congruences(A);
        for (int i = 0; i < n; ++i) if (lc[i] == 0) { Cg g; g.a.assign(n, Q(0)); g.a[i] = 1; g.b = y[i]; g.m = 0; c.push_back(g); }
        Cg g; g.a.assign(n, Q(0)); g.m = f;
        if (!pre) { for (int i = 0; i < n; ++i) g.a[i] = ra[i]; g.b = dot(lc, y) + ld - rb; }     // unknown v: ra.v == lc.y + ld - rb
        else { for (int i = 0; i < n; ++i) g.a[i] = lc[i]; g.b = dot(ra, y) + rb - ld; }           // unknown w: lc.w == ra.y + rb - ld
        c.push_back(g);
        hx::checked(); if (from_congruences(n, c).empty) { bad(pre ? "rel_preimage.extra" : "rel_image.extra", sv(y) + " " + sl(A)); return; }
      }
    }
  }
}
