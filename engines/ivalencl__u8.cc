// ivalencl, policy u8_c: Interval<uint8_t, Native_Integer_Box_Interval_Info>
#include "ivalencl_impl.hh"
#include "interfaces/interfaced_boxes.hh"
namespace ivx { void case_u8() { run_policy<Interval<uint8_t, Native_Integer_Box_Interval_Info> >("u8_c", K_INT_BOUNDED); } }
