// shapeseq: instantiation of the shape adapter for Octagonal_Shape<mpq_class> (see shapeseq.hh).
#include "shapeseq.hh"
SHAPESEQ_REGISTER(oct_mpq, Parma_Polyhedra_Library::Octagonal_Shape<mpq_class>)
